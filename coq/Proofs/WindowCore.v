From Coq Require Import ZArith List Lia.
From NPS Require Import Bits ListAux PySlice NumpySem BuildIdx BitArr.
Open Scope Z_scope.

(* C13 sliding_window, register-level core: two adjacent 64-bit registers of a big number M,
   shifted and or-ed as bitarray.py L96-100 does, give the 64-bit window of M starting at bit s. *)
Lemma window_core M s t : 0 <= M -> 0 <= s < W -> 0 <= t <= W ->
  Z.land (Z.lor (shr64 (M mod 2 ^ W) s) (shl64 ((M / 2 ^ W) mod 2 ^ W) (W - s))) (2 ^ t - 1) = (M / 2 ^ s) mod 2 ^ t.
Proof.
  intros HM Hs Ht. unfold shr64, shl64, wrap64, W in *.
  rewrite Z.shiftr_div_pow2, Z.shiftl_mul_pow2 by lia.
  pose proof (Bits.pow_pos s ltac:(lia)) as Hps. pose proof (Bits.pow_pos (64 - s) ltac:(lia)) as Hpq.
  assert (H64 : 2 ^ 64 = 2 ^ s * 2 ^ (64 - s)) by (rewrite <- Z.pow_add_r by lia; f_equal; lia).
  set (M0 := M mod 2 ^ 64). set (M1 := M / 2 ^ 64).
  assert (HM0 : 0 <= M0 < 2 ^ 64) by (apply Z.mod_pos_bound; lia).
  assert (HM1 : 0 <= M1) by (apply Z.div_pos; lia).
  assert (HMeq : M = M0 + 2 ^ 64 * M1) by (unfold M0, M1; rewrite Z.add_comm; apply Z.div_mod; lia).
  (* high part *)
  assert (Hhi : (M1 mod 2 ^ 64 * 2 ^ (64 - s)) mod 2 ^ 64 = (M1 mod 2 ^ s) * 2 ^ (64 - s)).
  { rewrite H64 at 2. rewrite Z.mul_mod_distr_r by lia. f_equal.
    rewrite H64. rewrite Z.rem_mul_r by lia.
    rewrite Z.mul_comm, Z.mod_add by lia. apply Z.mod_mod; lia. }
  rewrite Hhi.
  assert (Hlo : 0 <= M0 / 2 ^ s < 2 ^ (64 - s)).
  { split; [apply Z.div_pos; lia|]. apply Z.div_lt_upper_bound; lia. }
  rewrite lor_low_high by (try lia; apply Z.mod_pos_bound; lia).
  replace (2 ^ t - 1) with (Z.ones t) by (rewrite Z.ones_equiv; lia). rewrite Z.land_ones by lia.
  (* the 64-bit window *)
  assert (Hwin : (M / 2 ^ s) mod 2 ^ 64 = M0 / 2 ^ s + M1 mod 2 ^ s * 2 ^ (64 - s)).
  { assert (Hdiv : M / 2 ^ s = M0 / 2 ^ s + 2 ^ (64 - s) * M1).
    { rewrite HMeq. replace (M0 + 2 ^ 64 * M1) with (M0 + (2 ^ (64 - s) * M1) * 2 ^ s) by (rewrite H64; ring).
      apply Z.div_add; lia. }
    rewrite Hdiv. set (q := 2 ^ (64 - s)) in *. set (p := 2 ^ s) in *.
    rewrite H64. rewrite (Z.mul_comm p q). rewrite Z.rem_mul_r by lia.
    replace (M0 / p + q * M1) with (M0 / p + M1 * q) by ring. rewrite Z.mod_add by lia.
    rewrite Z.mod_small by lia. rewrite Z.div_add by lia. rewrite (Z.div_small (M0 / p)) by lia. rewrite Z.add_0_l. ring. }
  rewrite <- Hwin.
  assert (H64t : 2 ^ 64 = 2 ^ t * 2 ^ (64 - t)) by (rewrite <- Z.pow_add_r by lia; f_equal; lia).
  pose proof (Bits.pow_pos t ltac:(lia)). pose proof (Bits.pow_pos (64 - t) ltac:(lia)).
  rewrite H64t. rewrite Z.rem_mul_r by lia. rewrite Z.mul_comm, Z.mod_add by lia. apply Z.mod_mod; lia.
Qed.
