From NPS Require Import ListAux PySlice NumpySem Shape RLE RLEOps RaOps.
Open Scope Z_scope.

(* C01: construction of a RaggedArray and every way of reading it back
   (raggedarray/__init__.py L90-250, raggedshape.py L247-345, base.py save/load). *)
Section Geo.
Variable A : Type.

(* a freshly built array: flat buffer + the coded shape *)
Record fresh := { f_data : list A ; f_codes : list Z }.

(* RaggedArray(rows): _from_array_list L240-244 *)
Definition build_rows (r : list (list A)) : fresh := {| f_data := concat r ; f_codes := shape_codes (map zlen r) |}.
(* RaggedArray(flat, lengths): the size check L99-100 (safe mode) *)
Definition build_flat (d : list A) (ls : list Z) : res fresh :=
  let codes := shape_codes ls in
  if sh_size codes =? zlen d then Ok {| f_data := d ; f_codes := codes |} else Refused.

(* observers *)
Definition o_len (a : fresh) : Z := zlen (sh_lengths (f_codes a)).                 (* __len__ = n_rows *)
Definition o_size (a : fresh) : Z := zlen (f_data a).                              (* .size = data.size *)
Definition o_lengths (a : fresh) : list Z := sh_lengths (f_codes a).
Definition o_starts (a : fresh) : list Z := sh_starts (f_codes a).
Definition o_ends (a : fresh) : list Z := sh_ends (f_codes a).
Definition o_shape_size (a : fresh) : Z := sh_size (f_codes a).
(* __iter__ / tolist: row i is data[starts[i] : starts[i] + lengths[i]] *)
Definition o_rows (a : fresh) : list (list A) :=
  map (fun sl => ztake (snd sl) (zdrop (fst sl) (f_data a))) (combine (o_starts a) (o_lengths a)).
Definition o_ravel (a : fresh) : list A := f_data a.
(* to_numpy_array L208-224 : all rows of one length, else refused; 0 rows -> empty matrix *)
Definition o_to_numpy (a : fresh) : res (list (list A)) :=
  match o_lengths a with
  | [] => Ok []
  | L :: _ => if forallb (fun l => l =? L) (o_lengths a) then Ok (o_rows a) else Refused
  end.
(* from_numpy_array: RaggedShape.from_tuple_shape (n, k) *)
Definition from_numpy (m : list (list A)) (k : Z) : res fresh := build_flat (concat m) (repeat k (length m)).
End Geo.
Arguments f_data {A}. Arguments f_codes {A}. Arguments build_rows {A}. Arguments build_flat {A}. Arguments o_len {A}. Arguments o_size {A}.
Arguments o_lengths {A}. Arguments o_starts {A}. Arguments o_ends {A}. Arguments o_shape_size {A}. Arguments o_rows {A}. Arguments o_ravel {A}.
Arguments o_to_numpy {A}. Arguments from_numpy {A}.

(* save / load: to_dict = {"codes": codes}; from_dict accepts the legacy {"offsets": inclusive prefix sums with leading 0} *)
Definition shape_to_dict (codes : list Z) : list Z := codes.
Definition shape_from_codes (codes : list Z) : list Z := codes.
Definition shape_from_offsets (offs : list Z) : list Z := shape_codes (diff1 offs).

(* ravel_multi_index / unravel_multi_index (raggedshape.py L195-222): starts[row] + col ; searchsorted(starts, p, 'right') - 1 *)
Definition ravel_mi (codes : list Z) (i j : Z) : Z := zznth (sh_starts codes) i + j.
Definition unravel_mi (codes : list Z) (p : Z) : Z * Z :=
  let starts := sh_starts codes in
  let r := ssr starts p - 1 in (r, p - zznth starts r).

(* what the property says, on plain lists *)
Definition incl_prefix (ls : list Z) : list Z := cumsum ls.
Definition cells_of (ls : list Z) : list (Z * Z) :=
  concat (map (fun il => map (fun j => (fst il, j)) (ap 0 (snd il) 1)) (combine (ap 0 (zlen ls) 1) ls)).
