"""RunLength2dArray / RunLengthRaggedArray across dtypes (C17): the implementation against numpy on the dense matrix / ragged array."""
import itertools
from vlib import guarded
from harness.fam_ra2 import Ctx
from harness import fam_ra2
from harness.fam_rle2 import key, kl, num

DT = ["bool", "int8", "int64", "uint8", "uint64", "float64"]
AL = {"bool": [True, False], "int8": [3, -1, 0, 3], "int64": [3, -1, 0, 2 ** 40], "uint8": [3, 1, 0, 200], "uint64": [3, 1, 0, 2 ** 60 + 1], "float64": [1.5, -2.25, 0.0, 4.0]}
RULE2 = ("dense-spec family: ragged arrays with 1..4 rows of length 1..5 and matrices up to 4x5 over 2-4 letter alphabets per dtype (bool int8 int64 uint8 uint64 "
         "float64; every run pattern for short rows, seeded for longer), per object: decode / len / shape / size, every row selector kind (int, slices with steps, "
         "lists with repeats and negatives, masks), elements, integer columns valid in all selected rows, column ranges non-empty in every selected row (any positive "
         "step; negative steps with bounds inside the rows), row-wise sum any all max mean argmax, column-wise sum mean counts (any on the matrix variant), ravel, "
         "concatenate, np.sum / np.mean / np.max, unary ufuncs, ufuncs with scalars and (n,1) columns on both sides, from_intervals")
UF = ["add", "subtract", "multiply", "maximum", "less", "greater_equal", "equal", "floor_divide", "true_divide", "bitwise_and", "logical_or"]


def dense_rows(x):
    d = x.to_array()
    return kl(d.tolist())


def run_c17(R, tier, rng):
    import numpy as np
    from npstructures import RaggedArray, RunLengthRaggedArray, RunLength2dArray, RunLengthArray
    C = Ctx(R, "rl2d")
    from vlib import show as vshow, oracle as voracle, parse as vparse
    ANY_CASES = []
    MEAN_CASES = []
    n_obj = 900 if tier == "thorough" else 220
    # float column sums with values whose differences are not representable (F38): numpy's own column sums of the dense rows, bit for bit
    FV = [0.1, 0.2, 1e16, -1e16, 0.5, 1.0, 0.3, 0.7]
    frows_list = [[[1e16, 1.0]], [[1e16, 1.0], [1.0, 1.0]], [[0.1, 0.2, 0.3], [0.7, 0.7, 0.1]], [[0.1] * 3 + [0.3] * 2, [1e16], [0.2, 0.2, 0.2, 0.2, 0.2, 0.7]]]
    for _ in range(60 if tier == "thorough" else 20):
        fr = []
        for _r in range(rng.randint(1, 4)):
            r = []; ln = rng.randint(1, 6)
            while len(r) < ln: r += [rng.choice(FV)] * rng.randint(1, 3)
            fr.append(r[:ln])
        frows_list.append(fr)
    for fr in frows_list:
        for fdt in ("float64", "float32"):
            mcol = max(len(r) for r in fr)
            want = [np.array([r[j] for r in fr if len(r) > j], dtype=fdt).sum() for j in range(mcol)]
            C.cmp(f"sum(axis=0) inexact floats {fdt} {fr!r}", "col-sum/inexact-floats", True,
                  lambda: (lambda x: [kl(x), str(x.dtype)])(np.asarray(RunLengthRaggedArray.from_ragged_array(RaggedArray(fr, dtype=fdt)).sum(axis=0).to_array())),
                  lambda: [kl(np.array(want, dtype=fdt)), fdt], py=f"RunLengthRaggedArray.from_ragged_array(RaggedArray({fr!r}, dtype='{fdt}')).sum(axis=0).to_array()")
            wmin = min(len(r) for r in fr); M = np.array([r[:wmin] for r in fr], dtype=fdt)
            C.cmp(f"matrix sum(axis=0) inexact floats {fdt} {M.tolist()!r}", "matrix/col-sum/inexact-floats", True,
                  lambda: (lambda x: [kl(x), str(x.dtype)])(np.asarray(RunLength2dArray.from_array(M).sum(axis=0).to_array())),
                  lambda: [kl(M.sum(axis=0)), fdt], py=f"RunLength2dArray.from_array(np.array({M.tolist()!r}, dtype='{fdt}')).sum(axis=0).to_array()")
    for t in range(n_obj):
        dt = DT[t % len(DT)]
        al = AL[dt]
        nr = rng.randint(1, 4)
        rows = []
        for _ in range(nr):
            r = []
            ln = rng.randint(1, 5)
            while len(r) < ln: r += [rng.choice(al)] * rng.randint(1, 3)
            rows.append(r[:ln])
        nt = nr >= 2
        A = [np.array(r, dtype=dt) for r in rows]
        mk = lambda: RunLengthRaggedArray.from_ragged_array(RaggedArray(rows, dtype=dt))
        tag = f"{dt} {rows!r}"
        pyb = f"rl = RunLengthRaggedArray.from_ragged_array(RaggedArray({rows!r}, dtype='{dt}'))"
        lens = [len(r) for r in rows]
        C.cmp("decode " + tag, "decode", nt, lambda: [dense_rows(mk()), len(mk()), int(mk().shape[0]), np.asarray(mk().shape[1]).tolist(), int(mk().size)],
              lambda: [[kl(a) for a in A], nr, nr, lens, sum(lens)], py=pyb + "; rl.to_array(), len, shape, size")
        for kv in range(5):      # the same ragged array given as a lazy view of a larger one
            C.cmp(f"decode-from-view{kv} " + tag, "decode/from-view", nt, lambda: [dense_rows(RunLengthRaggedArray.from_ragged_array(fam_ra2.view_of(rows, dt, kv))), len(mk())],
                  lambda: [[kl(a) for a in A], nr], py=f"RunLengthRaggedArray.from_ragged_array(<lazy view equal to RaggedArray({rows!r}, dtype='{dt}')>).to_array()")
        # row selectors
        sels = [slice(None, None, -1), slice(1, None), slice(None, None, 2), slice(-2, None), [rng.randrange(-nr, nr) for _ in range(rng.randint(1, 3))], [rng.random() < .6 for _ in range(nr)]]
        for s in sels:
            idx = np.array(s) if isinstance(s, list) else s
            exp_rows = [A[i] for i in (range(nr)[s] if isinstance(s, slice) else ([i for i, b in enumerate(s) if b] if isinstance(s[0], bool) else s))]
            if not exp_rows: continue
            C.cmp(f"rows {tag} {s!r}", "rows/" + type(s).__name__, nt, lambda: dense_rows(mk()[idx]), lambda: [kl(a) for a in exp_rows], py=pyb + f"; rl[{s!r}].to_array()")
            if isinstance(s, list) and isinstance(s[0], bool):      # the mask spelled as a plain Python list
                C.cmp(f"rows/python-list-mask {tag} {s!r}", "rows/python-list-mask", nt, lambda: dense_rows(mk()[list(s)]), lambda: [kl(a) for a in exp_rows], py=pyb + f"; rl[{s!r}]  (a Python list of bools)")
        for i in sorted({0, nr - 1, -1, -nr}):
            def introw():
                r = mk()[i]
                return [kl(r.to_array()), int(len(r))]
            C.cmp(f"row {tag} [{i}]", "row-int", nt, introw, lambda: [kl(A[i]), len(A[i])], py=pyb + f"; rl[{i}].to_array()")
            for j in sorted({0, -1, len(rows[i]) - 1, -len(rows[i])}):
                C.cmp(f"elem {tag} [{i},{j}]", "element", nt, lambda: key(mk()[i, j]), lambda: key(A[i][j]), py=pyb + f"; rl[{i}, {j}]")
        mn = min(lens); mx = max(lens)
        rowsets = [slice(None), slice(None, None, -1)] + ([[nr - 1, 0]] if nr >= 2 else [])
        for rs in rowsets:
            sel_idx = list(range(nr))[rs] if isinstance(rs, slice) else rs
            m2 = min(lens[i] for i in sel_idx)
            for j in range(-m2, m2):
                for jt in (np.int64, np.int32, np.uint8):      # the column given as a numpy integer: one value per selected row, as for the Python int
                    if j < 0 and jt is np.uint8: continue
                    C.cmp(f"col/{jt.__name__} {tag} [{rs!r},{j}]", "column-int/numpy-scalar", nt, lambda: kl(np.asarray(mk()[np.array(rs) if isinstance(rs, list) else rs, jt(j)])),
                          lambda: [key(A[i][j]) for i in sel_idx], py=pyb + f"; rl[{rs!r}, np.{jt.__name__}({j})]")
                C.cmp(f"col {tag} [{rs!r},{j}]", "column-int", nt, lambda: kl(np.asarray(mk()[np.array(rs) if isinstance(rs, list) else rs, j])), lambda: [key(A[i][j]) for i in sel_idx], py=pyb + f"; rl[{rs!r}, {j}]")
            B = [None] + list(range(-mx - 1, mx + 2))
            for _ in range(10 if tier != "thorough" else 30):
                st, sp, se = rng.choice(B), rng.choice(B), rng.choice([None, 1, 2, 3, -1, -2])
                exp = [A[i][st:sp:se] for i in sel_idx]
                if any(len(e) == 0 for e in exp): continue
                if se is not None and se < 0 and not all((st is None or -lens[i] <= st < lens[i]) and (sp is None or -lens[i] <= sp < lens[i]) for i in sel_idx): continue
                C.cmp(f"colrange {tag} [{rs!r},{st}:{sp}:{se}]", "column-range", nt, lambda: dense_rows(mk()[np.array(rs) if isinstance(rs, list) else rs, st:sp:se]), lambda: [kl(e) for e in exp],
                      py=pyb + f"; rl[{rs!r}, {st}:{sp}:{se}].to_array()")
        # row-wise reductions
        for fn in ("sum", "any", "all", "max", "mean"):
            f = getattr(np, fn)
            C.cmp(f"{fn}(axis=-1) {tag}", "row-" + fn, nt, lambda: num(getattr(mk(), fn)(axis=-1), np.array([f(a) for a in A])), lambda: kl(np.array([f(a) for a in A])), py=pyb + f"; rl.{fn}(axis=-1)")
        if dt in ("int64", "uint64"):
            bigrows = [[(2 ** 62 if v == al[0] else v) for v in r] for r in rows]
            C.cmp(f"mean(axis=-1) big {dt} {bigrows!r}", "row-mean/big", nt, lambda: kl(np.asarray(RunLengthRaggedArray.from_ragged_array(RaggedArray(bigrows, dtype=dt)).mean(axis=-1), dtype=float)),
                  lambda: kl(np.array([np.mean(np.array(r, dtype=dt)) for r in bigrows])) if all(len(r) <= 2 for r in bigrows) else kl(np.array([np.mean(np.array(r, dtype=dt).astype(float)) for r in bigrows])),
                  py=f"RunLengthRaggedArray.from_ragged_array(RaggedArray({bigrows!r}, dtype='{dt}')).mean(axis=-1)")
        C.cmp(f"argmax {tag}", "row-argmax", nt, lambda: kl(np.asarray(mk().argmax(axis=-1))), lambda: [int(np.argmax(a)) for a in A], py=pyb + "; rl.argmax(axis=-1)")
        for fn in ("sum", "mean", "max"):
            f = getattr(np, fn)
            flat = np.concatenate(A)
            if fn == "max":
                C.cmp(f"np.max {tag}", "np.max", nt, lambda: key(np.max(mk())), lambda: key(np.max(flat)))
            C.cmp(f"np.{fn}(axis=-1) {tag}", "np." + fn, nt, lambda: num(f(mk(), axis=-1), np.array([f(a) for a in A])), lambda: kl(np.array([f(a) for a in A])), py=pyb + f"; np.{fn}(rl, axis=-1)")
        # column-wise
        def colsum():
            return np.array([np.array([a[j] for a in A if len(a) > j], dtype=dt).sum() for j in range(mx)])
        counts = [sum(1 for l in lens if l > j) for j in range(mx)]
        if dt != "bool":
            C.cmp(f"sum(axis=0) {tag}", "col-sum", nt, lambda: num(mk().sum(axis=0).to_array(), colsum()), lambda: kl(colsum()), py=pyb + "; rl.sum(axis=0).to_array()")
            C.cmp(f"mean(axis=0) {tag}", "col-mean", nt, lambda: kl(np.asarray(mk().mean(axis=0).to_array(), dtype=float)), lambda: kl(np.array([float(s) / c for s, c in zip(colsum().astype(float) if dt != "uint64" else colsum(), counts)])),
                  py=pyb + "; rl.mean(axis=0).to_array()")
        if dt != "bool" and not dt.startswith("float") and all(abs(int(v)) < 2 ** 40 for a in A for v in a):
            # mean(axis=0) against the model of `sum(axis=0) / col_counts()` (Model/RL2Mean.v: the binary path on the two column arrays; exact boundaries)
            def meanrepr():
                r = mk().mean(axis=0)
                return [[int(x) for x in np.asarray(r._events)], kl(np.asarray(r._values, dtype=float)), kl(np.asarray(r.to_array(), dtype=float))]
            MEAN_CASES.append(("rl2_mean " + vshow([[int(v) for v in a] for a in A]), guarded(meanrepr), tag, pyb, nt))
        if dt != "bool":      # the numpy function spellings of the column aggregates: axis as keyword, positionally, and as -2
            for spname, sp in (("np.sum(rl, axis=0)", lambda r: np.sum(r, axis=0)), ("np.sum(rl, 0)", lambda r: np.sum(r, 0)), ("rl.sum(axis=-2)", lambda r: r.sum(axis=-2))):
                C.cmp(f"{spname} {tag}", "col-sum/spelling", nt, lambda: num(sp(mk()).to_array(), colsum()), lambda: kl(colsum()), py=pyb + f"; {spname}.to_array()")
            C.cmp(f"np.mean(rl, axis=0) {tag}", "col-mean/spelling", nt, lambda: kl(np.asarray(np.mean(mk(), axis=0).to_array(), dtype=float)),
                  lambda: kl(np.array([float(s_) / c_ for s_, c_ in zip(colsum().astype(float) if dt != "uint64" else colsum(), counts)])), py=pyb + "; np.mean(rl, axis=0).to_array()")
        C.cmp(f"col_counts {tag}", "col-counts", nt, lambda: kl(mk().col_counts().to_array()), lambda: counts, py=pyb + "; rl.col_counts().to_array()")
        C.cmp(f"ravel {tag}", "ravel", nt, lambda: kl(mk().ravel().to_array()), lambda: kl(np.concatenate(A)), py=pyb + "; rl.ravel().to_array()")
        rows2 = [[rng.choice(al) for _ in range(rng.randint(1, 3))] for _ in range(rng.randint(1, 2))]
        C.cmp(f"concatenate {tag} {rows2!r}", "concatenate", nt, lambda: dense_rows(np.concatenate([mk(), RunLengthRaggedArray.from_ragged_array(RaggedArray(rows2, dtype=dt))])),
              lambda: [kl(a) for a in A] + [kl(np.array(r, dtype=dt)) for r in rows2], py=pyb + f"; np.concatenate([rl, from_ragged({rows2!r})]).to_array()")
        # operands of different dtypes (the narrower one first): numpy's common dtype, no value cast down
        for dt2, extra_vals in (("float64", [0.5, 2.75]), ("int64", [300, -70000]), ("uint8", [200, 7])):
            if dt2 == dt or dt in ("float64",) or (dt, dt2) in (("int64", "uint8"), ("uint64", "uint8"), ("uint64", "int64"), ("float32", "uint8"), ("float32", "int64")): continue
            rows3 = [[rng.choice(extra_vals) for _ in range(rng.randint(1, 3))] for _ in range(rng.randint(1, 2))]
            rt = np.result_type(np.dtype(dt), np.dtype(dt2))
            def catmix():
                r = np.concatenate([mk(), RunLengthRaggedArray.from_ragged_array(RaggedArray(rows3, dtype=dt2))])
                return [dense_rows(r), str(r._values.dtype)]
            C.cmp(f"concatenate mixed {dt}+{dt2} {tag} {rows3!r}", "concatenate/mixed-dtypes", True, catmix,
                  lambda: [[kl(np.array(r_, dtype=dt).astype(rt)) for r_ in rows] + [kl(np.array(r_, dtype=dt2).astype(rt)) for r_ in rows3], str(rt)],
                  py=pyb + f"; np.concatenate([rl, from_ragged({rows3!r}, dtype='{dt2}')])")
        # ufuncs: unary, scalar and column operands on either side (operand order matters)
        for ufn in rng.sample(UF, 3):
            uf = getattr(np, ufn)
            s = al[(t + 1) % len(al)]
            if ufn in ("floor_divide", "true_divide") and s in (0, False): s = al[0]
            s = bool(s) if dt == "bool" else float(s) if dt == "float64" else int(s)
            col = [al[(t + i) % len(al)] for i in range(nr)]
            if ufn in ("floor_divide", "true_divide"): col = [c if c not in (0, False) else al[0] for c in col]
            colarr = np.array(col, dtype=dt)[:, None]
            safe_rows = [[(v if v not in (0, False) else al[0]) for v in r] for r in rows] if ufn in ("floor_divide", "true_divide") else rows
            SA = [np.array(r, dtype=dt) for r in safe_rows]
            mks = lambda: RunLengthRaggedArray.from_ragged_array(RaggedArray(safe_rows, dtype=dt))
            if ufn.startswith("bitwise") and dt == "float64": continue
            C.cmp(f"ufunc {ufn} {tag} scalar-R {s!r}", "ufunc-scalar-R/" + ufn, nt, lambda: dense_rows(uf(mk(), s)), lambda: [kl(uf(a, s)) for a in A], py=pyb + f"; np.{ufn}(rl, {s!r}).to_array()")
            C.cmp(f"ufunc {ufn} {tag} scalar-L {s!r}", "ufunc-scalar-L/" + ufn, nt, lambda: dense_rows(uf(s, mks())), lambda: [kl(uf(s, a)) for a in SA], py=f"rl = from_ragged({safe_rows!r}, {dt}); np.{ufn}({s!r}, rl).to_array()")
            C.cmp(f"ufunc {ufn} {tag} column-R {col!r}", "ufunc-column-R/" + ufn, nt, lambda: dense_rows(uf(mk(), colarr)), lambda: [kl(uf(a, colarr[i, 0])) for i, a in enumerate(A)], py=pyb + f"; np.{ufn}(rl, np.array({col!r})[:, None]).to_array()")
            C.cmp(f"ufunc {ufn} {tag} column-L {col!r}", "ufunc-column-L/" + ufn, nt, lambda: dense_rows(uf(colarr, mks())), lambda: [kl(uf(colarr[i, 0], a)) for i, a in enumerate(SA)], py=f"rl = from_ragged({safe_rows!r}, {dt}); np.{ufn}(np.array({col!r})[:, None], rl).to_array()")
        if dt in ("int8", "uint8", "float32", "int64"):
            for sc, scn in ((np.int64(100), "np.int64(100)"), (np.int16(50), "np.int16(50)"), (np.float64(0.1), "np.float64(0.1)"), (np.uint8(200), "np.uint8(200)")):
                with np.errstate(all="ignore"):
                    C.cmp(f"ufunc add {tag} numpy-scalar-R {scn}", "ufunc-numpy-scalar-R", nt, lambda: [dense_rows(np.add(mk(), sc)), str(np.add(mk(), sc)._values.dtype)], lambda: [[kl(np.add(a, sc)) for a in A], str(np.add(A[0], sc).dtype)],
                          py=pyb + f"; np.add(rl, {scn})  (values and dtype)")
                    C.cmp(f"ufunc subtract {tag} numpy-scalar-L {scn}", "ufunc-numpy-scalar-L", nt, lambda: [dense_rows(np.subtract(sc, mk())), str(np.subtract(sc, mk())._values.dtype)], lambda: [[kl(np.subtract(sc, a)) for a in A], str(np.subtract(sc, A[0]).dtype)],
                          py=pyb + f"; np.subtract({scn}, rl)  (values and dtype)")
        if dt in ("int64", "float64", "int8") and nr >= 2:
            bigc = np.array([[1e17, 1.0, 3.0, float("inf"), 2.0][(t + i) % 5] for i in range(nr)])[:, None]
            with np.errstate(all="ignore"):
                C.cmp(f"ufunc multiply {tag} big-float-column-R", "ufunc-column-R/big-float", nt, lambda: dense_rows(np.multiply(mk(), bigc)), lambda: [kl(np.multiply(a, bigc[i, 0])) for i, a in enumerate(A)],
                      py=pyb + f"; np.multiply(rl, np.array({bigc.ravel().tolist()!r})[:, None]).to_array()")
                C.cmp(f"ufunc add {tag} big-float-column-L", "ufunc-column-L/big-float", nt, lambda: dense_rows(np.add(bigc, mk())), lambda: [kl(np.add(bigc[i, 0], a)) for i, a in enumerate(A)],
                      py=pyb + f"; np.add(np.array({bigc.ravel().tolist()!r})[:, None], rl).to_array()")
        for ufn in ("negative", "absolute", "logical_not", "square"):
            uf = getattr(np, ufn)
            if ufn == "negative" and dt == "bool": continue
            C.cmp(f"unary {ufn} {tag}", "unary/" + ufn, nt, lambda: dense_rows(uf(mk())), lambda: [kl(uf(a)) for a in A], py=pyb + f"; np.{ufn}(rl).to_array()")
        # ---- matrix variant
        nc = rng.randint(1, 5)
        M = []
        for _ in range(nr):
            r = []
            while len(r) < nc: r += [rng.choice(al)] * rng.randint(1, 3)
            M.append(r[:nc])
        MA = np.array(M, dtype=dt)
        mm = lambda: RunLength2dArray.from_array(MA)
        mtag = f"{dt} matrix {M!r}"; pym = f"m = RunLength2dArray.from_array(np.array({M!r}, dtype='{dt}'))"
        C.cmp("decode " + mtag, "matrix/decode", nt, lambda: [kl(mm().to_array()), len(mm()), [int(x) for x in mm().shape], int(mm().size)], lambda: [kl(MA), nr, [nr, nc], nr * nc], py=pym + "; m.to_array(), len, shape, size")
        for s in sels[:4] + sels[4:]:
            idx = np.array(s) if isinstance(s, list) else s
            exp = MA[idx]
            if len(exp) == 0: continue
            C.cmp(f"rows {mtag} {s!r}", "matrix/rows", nt, lambda: kl(mm()[idx].to_array()), lambda: kl(exp), py=pym + f"; m[{s!r}].to_array()")
        for i in sorted({0, nr - 1, -1}):
            C.cmp(f"row {mtag} [{i}]", "matrix/row-int", nt, lambda: kl(mm()[i].to_array()), lambda: kl(MA[i]), py=pym + f"; m[{i}].to_array()")
            for j in sorted({0, nc - 1, -1, -nc}):
                C.cmp(f"elem {mtag} [{i},{j}]", "matrix/element", nt, lambda: key(mm()[i, j]), lambda: key(MA[i, j]), py=pym + f"; m[{i}, {j}]")
        C.cmp(f"sum(axis=0) {mtag} /any-dtype", "matrix/col-sum", nt, lambda: num(mm().sum(axis=0).to_array(), MA.sum(axis=0)), lambda: kl(MA.sum(axis=0)), py=pym + "; m.sum(axis=0).to_array()")
        if dt != "bool":
            C.cmp(f"sum(axis=-1) {mtag}", "matrix/row-sum", nt, lambda: num(mm().sum(axis=-1), MA.sum(axis=-1)), lambda: kl(MA.sum(axis=-1)), py=pym + "; m.sum(axis=-1)")
            C.cmp(f"sum(axis=0) {mtag}", "matrix/col-sum", nt, lambda: num(mm().sum(axis=0).to_array(), MA.sum(axis=0)), lambda: kl(MA.sum(axis=0)), py=pym + "; m.sum(axis=0).to_array()")
        if dt != "bool":
            def after_colsum():
                m = mm(); s1 = kl(np.asarray(m.sum(axis=0).to_array())); d1 = kl(m.to_array()); r1 = kl(np.asarray(m.sum(axis=-1))); s2 = kl(np.asarray(m.sum(axis=0).to_array()))
                return [s1 == s2, d1, r1, kl(np.asarray((m + 0).to_array())), kl(np.asarray(m[::-1].to_array()))]
            C.cmp(f"sum(axis=0) then other reads {mtag}", "matrix/col-sum-then-reads", nt, after_colsum, lambda: [True, kl(MA), kl(MA.sum(axis=-1)), kl(MA + 0), kl(MA[::-1])],
                  py=pym + "; m.sum(axis=0); m.to_array(); m.sum(axis=-1); m.sum(axis=0) again; (m+0).to_array(); m[::-1].to_array()")
            def after_colsum_r():
                r = mk(); s1 = kl(np.asarray(r.sum(axis=0).to_array())); d1 = dense_rows(r); s2 = kl(np.asarray(r.sum(axis=0).to_array()))
                return [s1 == s2, d1, kl(np.asarray(r.sum(axis=-1)))]
            C.cmp(f"sum(axis=0) then other reads {tag}", "col-sum-then-reads", nt, after_colsum_r, lambda: [True, [kl(a) for a in A], kl(np.array([a.sum() for a in A]))], py=pyb + "; rl.sum(axis=0); rl.to_array(); rl.sum(axis=0) again; rl.sum(axis=-1)")
        # any(axis=0) against the model of _col_any (Model/RL2Any.v: exact run boundaries and values) and against the column-wise OR of the dense rows
        if not dt.startswith("float"):
            def anyrepr():
                r = mm().any(axis=0)
                return [[int(x) for x in np.asarray(r._events)], [int(bool(x)) for x in np.asarray(r._values)], [int(bool(x)) for x in np.asarray(r.to_array())]]
            ANY_CASES.append(("rl2_any " + vshow([[int(v) for v in r_] for r_ in np.array(M, dtype=dt).astype(object).tolist()]), guarded(anyrepr), mtag, pym, nt))
        C.cmp(f"any(axis=0) {mtag}", "matrix/col-any", nt, lambda: kl(np.asarray(mm().any(axis=0).to_array(), dtype=bool)), lambda: kl(MA.any(axis=0)), py=pym + "; m.any(axis=0).to_array()")
        C.cmp(f"any/all(axis=-1) {mtag}", "matrix/row-any-all", nt, lambda: [kl(np.asarray(mm().any(axis=-1))), kl(np.asarray(mm().all(axis=-1)))], lambda: [kl(MA.any(axis=-1)), kl(MA.all(axis=-1))], py=pym + "; m.any(axis=-1), m.all(axis=-1)")
        s = al[(t + 1) % len(al)]; s = bool(s) if dt == "bool" else float(s) if dt == "float64" else int(s)
        C.cmp(f"ufunc add {mtag} scalar {s!r}", "matrix/ufunc", nt, lambda: kl(np.add(mm(), s).to_array()), lambda: kl(np.add(MA, s)))
        C.cmp(f"ufunc subtract-L {mtag} scalar {s!r}", "matrix/ufunc", nt, lambda: kl(np.subtract(s, mm()).to_array()), lambda: kl(np.subtract(s, MA))) if dt != "bool" else None
        # the same matrix in other memory layouts (Fortran order, a transposed view, a strided view): what is encoded is the matrix, not its buffer
        for lname, mkl in (("fortran", lambda: np.asfortranarray(MA)), ("transposed-view", lambda: np.ascontiguousarray(MA.T).T), ("strided", lambda: np.repeat(MA, 2, axis=1)[:, ::2])):
            C.cmp(f"decode/{lname} {mtag}", "matrix/layout", nt, lambda: [kl(RunLength2dArray.from_array(mkl()).to_array()), kl(np.asarray(RunLength2dArray.from_array(mkl()).sum(axis=-1)))] if dt != "bool" else [kl(RunLength2dArray.from_array(mkl()).to_array()), None],
                  lambda: [kl(MA), kl(MA.sum(axis=-1)) if dt != "bool" else None], py=f"RunLength2dArray.from_array(<{lname} layout of np.array({M!r}, dtype='{dt}')>).to_array()")
        # ---- intervals: row k is the indicator of [start_k, end_k)
        Li = rng.randint(1, 8); ki = rng.randint(1, 4)
        sti = [rng.randrange(0, Li) for _ in range(ki)]; eni = [rng.randint(s0 + 1, Li) for s0 in sti]
        if t % 2 == 0: eni[0] = Li
        if t % 3 == 0: sti[-1] = 0; eni[-1] = Li
        IV = np.array([[1 if s0 <= p < e0 else 0 for p in range(Li)] for s0, e0 in zip(sti, eni)])
        mi = lambda: RunLength2dArray.from_intervals(np.array(sti), np.array(eni), Li)
        itag = f"from_intervals({sti}, {eni}, {Li})"
        C.cmp(f"intervals row-sum {itag}", "intervals/row-sum", ki >= 2, lambda: kl(np.asarray(mi().sum(axis=-1))), lambda: kl(IV.sum(axis=-1)), py=f"RunLength2dArray.{itag}.sum(axis=-1)")
        C.cmp(f"intervals col-sum {itag}", "intervals/col-sum", ki >= 2, lambda: kl(np.asarray(mi().sum(axis=0).to_array())), lambda: kl(IV.sum(axis=0)), py=f"RunLength2dArray.{itag}.sum(axis=0).to_array()")
        C.cmp(f"intervals any/all {itag}", "intervals/any-all", ki >= 2, lambda: [kl(np.asarray(mi().any(axis=-1))), kl(np.asarray(mi().all(axis=-1))), kl(np.asarray(mi().any(axis=0).to_array(), dtype=bool))],
              lambda: [kl(IV.any(axis=-1)), kl(IV.all(axis=-1)), kl(IV.any(axis=0))], py=f"m = RunLength2dArray.{itag}; m.any(axis=-1), m.all(axis=-1), m.any(axis=0)")
        C.cmp(f"intervals rows+ufunc {itag}", "intervals/rows-ufunc", ki >= 2, lambda: [kl(np.asarray(mi()[::-1].to_array()).astype(int)), kl(np.asarray((mi() * 3).to_array()).astype(int)), kl(np.asarray((mi() * 3).sum(axis=-1)))],
              lambda: [kl(IV[::-1]), kl(IV * 3), kl((IV * 3).sum(axis=-1))], py=f"m = RunLength2dArray.{itag}; m[::-1].to_array(), (m*3).to_array(), (m*3).sum(axis=-1)")
        if t < 6:     # interval bounds given in narrow dtypes, the ends (and the row length) beyond the range of the starts' dtype
            sdt = ["uint8", "int8", "int16", "uint16", "int32", "uint8"][t]; edt = ["int64", "int64", "int64", "uint16", "int64", "uint16"][t]
            Ln = [400, 400, 40000, 70000, 400, 300][t]
            stn = [0, 3, 10, 0, Ln - 1 if Ln - 1 <= np.iinfo(sdt).max else 100]; enn = [7, Ln - 100, 20, Ln, Ln]
            def narrow():
                x = RunLength2dArray.from_intervals(np.array(stn, dtype=sdt), np.array(enn, dtype=edt if Ln <= np.iinfo(edt).max else "int64"), Ln)
                d = np.asarray(x.to_array(), dtype=bool)
                return [list(d.shape), [[int(v) for v in np.flatnonzero(np.diff(np.concatenate([[0], r.astype(int), [0]])))] for r in d], kl(np.asarray(x.sum(axis=-1)))]
            C.cmp(f"from_intervals {sdt} starts {stn} / {edt} ends {enn} / row length {Ln}", "intervals/narrow-bound-dtypes", True, narrow,
                  lambda: [[len(stn), Ln], [[s0, e0] for s0, e0 in zip(stn, enn)], [e0 - s0 for s0, e0 in zip(stn, enn)]],
                  py=f"x = RunLength2dArray.from_intervals(np.array({stn}, dtype='{sdt}'), np.array({enn}, dtype='{edt}'), {Ln}); x.to_array() (as [first, past-last] of the ones per row); x.sum(axis=-1)")
        L = rng.randint(1, 8); k = rng.randint(1, 4)
        st = [rng.randrange(0, L) for _ in range(k)]; en = [rng.randint(s0 + 1, L) for s0 in st]
        C.cmp(f"from_intervals {st} {en} {L}", "intervals", k >= 2, lambda: kl(np.asarray(RunLength2dArray.from_intervals(np.array(st), np.array(en), L).to_array(), dtype=bool)),
              lambda: [[s0 <= p < e0 for p in range(L)] for s0, e0 in zip(st, en)], py=f"RunLength2dArray.from_intervals(np.array({st}), np.array({en}), {L}).to_array()")
    # mean(axis=0) of the ragged variant: the extracted model (values as exact fractions sum/count) and the dense specification
    outs = voracle([c[0] for c in MEAN_CASES])
    fr = lambda ps: kl(np.array([np.float64(a) / np.float64(b) for a, b in ps], dtype=float))
    for (line, impl, tag, pyb, nt), o in zip(MEAN_CASES, outs):
        if o.startswith("ERR"): mo = sp = "oracle-error: " + o[:80]
        else:
            m, spd = vparse(o)
            if m is None: mo = sp = "model refuses"
            else:
                mo = [m[0], fr(m[1]), fr(m[2])]
                sp = mo if fr(m[2]) == fr(spd) else ["model decodes to", fr(m[2]), "dense column means are", fr(spd)]
        R.record("rl2d mean(axis=0) runs " + tag, impl, mo, sp, nt, "col-mean/model", py=pyb + "; r = rl.mean(axis=0); r._events, r._values, r.to_array()")
    # any(axis=0): the extracted model of _col_any and the dense specification, one oracle call for all matrices
    outs = voracle([c[0] for c in ANY_CASES])
    for (line, impl, mtag, pym, nt), o in zip(ANY_CASES, outs):
        if o.startswith("ERR"): mo = sp = "oracle-error: " + o[:80]
        else:
            mo, spd = vparse(o)
            sp = [mo[0], mo[1], spd] if isinstance(mo, list) and mo[2] == spd else ["model decodes to", mo[2] if isinstance(mo, list) else mo, "dense OR is", spd]
        R.record("rl2d any(axis=0) runs " + mtag, impl, mo, sp, nt, "matrix/col-any/model", py=pym + "; r = m.any(axis=0); r._events, r._values, r.to_array()")
