From Coq Require Import ZArith List Lia.
Import ListNotations.
Open Scope Z_scope.

(* positional notation in base 2^b, little endian *)
Fixpoint digits_val (b : Z) (ds : list Z) : Z := match ds with [] => 0 | d :: r => d + 2 ^ b * digits_val b r end.
Definition digit_ok (b d : Z) : Prop := 0 <= d < 2 ^ b.

Lemma pow_pos b : 0 <= b -> 0 < 2 ^ b. Proof. intros. apply Z.pow_pos_nonneg; lia. Qed.

Lemma digits_bound b ds : 0 <= b -> Forall (digit_ok b) ds -> 0 <= digits_val b ds < 2 ^ (b * Z.of_nat (length ds)).
Proof.
  intros Hb H. induction H as [|d ds [Hd1 Hd2] _ IH]; [cbn; lia|]. cbn [digits_val length].
  rewrite Nat2Z.inj_succ. replace (b * Z.succ (Z.of_nat (length ds))) with (b + b * Z.of_nat (length ds)) by lia.
  rewrite Z.pow_add_r by nia. pose proof (pow_pos b Hb). nia.
Qed.

Theorem digit_extract b : 0 <= b -> forall ds i, Forall (digit_ok b) ds -> (i < length ds)%nat ->
  (digits_val b ds / 2 ^ (b * Z.of_nat i)) mod 2 ^ b = nth i ds 0.
Proof.
  intros Hb. pose proof (pow_pos b Hb) as Hp.
  induction ds as [|d ds IH]; intros i H Hi; [cbn in Hi; lia|]. inversion H as [|? ? [Hd1 Hd2] Hds]; subst.
  destruct i as [|i]; cbn [digits_val nth].
  - rewrite Z.mul_0_r, Z.pow_0_r, Z.div_1_r. rewrite (Z.mul_comm (2 ^ b)), Z.mod_add by lia. apply Z.mod_small. lia.
  - rewrite Nat2Z.inj_succ. replace (b * Z.succ (Z.of_nat i)) with (b + b * Z.of_nat i) by lia.
    rewrite Z.pow_add_r by nia. rewrite <- Z.div_div by (try apply pow_pos; nia).
    rewrite (Z.add_comm d), (Z.mul_comm (2 ^ b)), Z.div_add_l by lia. rewrite (Z.div_small d) by lia. rewrite Z.add_0_r.
    apply IH; [assumption|cbn in Hi; lia].
Qed.

(* or of a low part and a shifted high part is their sum *)
Lemma land_low_high x y s : 0 <= s -> 0 <= x < 2 ^ s -> 0 <= y -> Z.land x (y * 2 ^ s) = 0.
Proof.
  intros Hs Hx Hy. apply Z.bits_inj'. intros n Hn. rewrite Z.land_spec, Z.bits_0.
  destruct (Z.lt_ge_cases n s) as [Hlt|Hge].
  - rewrite Z.mul_pow2_bits_low by lia. apply Bool.andb_false_r.
  - destruct (Z.eq_dec x 0) as [->|Hx0]; [now rewrite Z.bits_0|].
    assert (Hpw : 2 ^ s <= 2 ^ n) by (apply Z.pow_le_mono_r; lia).
    rewrite (Z.bits_above_log2 x n); [reflexivity|lia|]. apply Z.log2_lt_pow2; lia.
Qed.
Lemma lor_low_high x y s : 0 <= s -> 0 <= x < 2 ^ s -> 0 <= y -> Z.lor x (y * 2 ^ s) = x + y * 2 ^ s.
Proof.
  intros Hs Hx Hy. pose proof (land_low_high x y s Hs Hx Hy) as H.
  rewrite <- Z.lxor_lor by exact H. symmetry. now apply Z.add_nocarry_lxor.
Qed.
