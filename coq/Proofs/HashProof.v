From Coq Require Import ZifyBool.
From NPS Require Import ListAux PySlice NumpySem BuildIdx RLE Hash MapSpec SetItem.
Open Scope Z_scope.

(* C11: the bucketed table refines an association list *)
Section HP.
Variable V : Type.
Variable dv : V.
Notation table := (table V).
Notation assoc := (assoc V).
Notation aget := (aget V).

(* ---------- positions of a key inside a bucket ---------- *)
Lemma match_offsets_notin off row k : ~ In k row -> match_offsets off row k = [].
Proof.
  revert off; induction row as [|x row IH]; intros off H; [reflexivity|]. cbn [match_offsets].
  destruct (x =? k) eqn:E; [exfalso; apply H; left; lia|]. apply IH. intros C. apply H. now right.
Qed.
Fixpoint index_of (k : Z) (row : list Z) : Z :=
  match row with [] => 0 | x :: r => if x =? k then 0 else 1 + index_of k r end.
Lemma match_offsets_in off row k : NoDup row -> In k row -> match_offsets off row k = [off + index_of k row].
Proof.
  revert off; induction row as [|x row IH]; intros off Hnd Hin; [contradiction|].
  inversion Hnd as [|? ? Hx Hnd']; subst. cbn [match_offsets index_of].
  destruct (x =? k) eqn:E.
  - assert (x = k) by lia. subst x. rewrite match_offsets_notin by assumption. f_equal. lia.
  - destruct Hin as [->|Hin]; [lia|]. rewrite IH by assumption. f_equal. lia.
Qed.
Lemma nth_index_of k row d : In k row -> nth (Z.to_nat (index_of k row)) row d = k /\ 0 <= index_of k row < zlen row.
Proof.
  induction row as [|x row IH]; intros Hin; [contradiction|]. cbn [index_of].
  destruct (x =? k) eqn:E; [cbn; split; [lia|unfold zlen; cbn [length]; lia]|].
  destruct Hin as [->|Hin]; [lia|]. destruct (IH Hin) as [I1 I2].
  replace (Z.to_nat (1 + index_of k row)) with (S (Z.to_nat (index_of k row))) by lia. cbn [nth].
  split; [exact I1|unfold zlen in *; cbn [length]; lia].
Qed.

Lemma NoDup_app_l {X} (a b : list X) : NoDup (a ++ b) -> NoDup a.
Proof. induction a as [|x a IH]; intros H; [constructor|]. inversion H; subst. constructor; [intros C; apply H2; apply in_or_app; now left|auto]. Qed.
Lemma NoDup_app_r {X} (a b : list X) : NoDup (a ++ b) -> NoDup b.
Proof. induction a as [|x a IH]; intros H; [exact H|]. inversion H; subst. auto. Qed.

(* ---------- the invariant ---------- *)
Definition bucket_ok (m : Z) (K : list (list Z)) : Prop :=
  0 < m /\ zlen K = m /\ NoDup (concat K) /\
  forall h k, 0 <= h < m -> (In k (nth (Z.to_nat h) K []) <-> In k (concat K) /\ hash m k = h).
Definition vals_ok (t : table) (d : assoc) : Prop :=
  (forall k, In k (concat (t_keys t)) <-> aget d k <> None) /\
  match t_vals t with
  | VOne v => forall k, In k (concat (t_keys t)) -> aget d k = Some v
  | VAligned vb => map (@length V) vb = map (@length Z) (t_keys t) /\
                   forall h j k, 0 <= h < t_mod t -> 0 <= j -> nth_error (nth (Z.to_nat h) (t_keys t) []) (Z.to_nat j) = Some k ->
                     aget d k = Some (cell dv vb (h, j))
  end.
Definition Inv (t : table) (d : assoc) : Prop := bucket_ok (t_mod t) (t_keys t) /\ vals_ok t d.

Lemma hash_range m k : 0 < m -> 0 <= hash m k < m.
Proof. intros. unfold hash. apply Z.mod_pos_bound. lia. Qed.

Lemma In_bucket t d k : Inv t d -> (In k (nth (Z.to_nat (hash (t_mod t) k)) (t_keys t) []) <-> aget d k <> None).
Proof.
  intros [(Hm & Hl & Hnd & Hb) (Hk & _)]. rewrite <- Hk.
  rewrite (Hb (hash (t_mod t) k) k (hash_range _ _ Hm)). tauto.
Qed.

Lemma NoDup_bucket t d h : Inv t d -> NoDup (nth (Z.to_nat h) (t_keys t) []).
Proof.
  intros [(Hm & Hl & Hnd & Hb) _]. revert Hnd. generalize (Z.to_nat h) as n. clear. 
  induction (t_keys t) as [|r K IH]; intros n Hnd; [destruct n; constructor|].
  cbn [concat] in Hnd. destruct n as [|n]; cbn [nth].
  - eapply NoDup_app_l. exact Hnd.
  - apply IH. eapply NoDup_app_r. exact Hnd.
Qed.

Lemma forallb_ext' {X} (f g : X -> bool) l : (forall x, f x = g x) -> forallb f l = forallb g l.
Proof. intros H. induction l as [|x l IH]; cbn; [reflexivity|]. now rewrite H, IH. Qed.

(* ---------- lookups ---------- *)
Definition present (d : assoc) (k : Z) : bool := match aget d k with Some _ => true | None => false end.
Definition bucket (t : table) (k : Z) : list Z := nth (Z.to_nat (hash (t_mod t) k)) (t_keys t) [].
Definition slot (t : table) (k : Z) : Z * Z := (hash (t_mod t) k, index_of k (bucket t k)).
Definition matches (t : table) (k : Z) : list (Z * Z) :=
  map (fun j => (hash (t_mod t) k, j)) (match_offsets 0 (bucket t k) k).

Lemma matches_spec t d k : Inv t d -> matches t k = if present d k then [slot t k] else [].
Proof.
  intros HI. unfold matches, present, slot. pose proof (In_bucket t d k HI) as Hin. fold (bucket t k) in Hin.
  destruct (aget d k) as [v|] eqn:E.
  - rewrite match_offsets_in; [reflexivity|eapply NoDup_bucket; eauto|]. apply Hin. congruence.
  - rewrite match_offsets_notin; [reflexivity|]. intros C. apply Hin in C. congruence.
Qed.

Lemma flat_matches t d ks : Inv t d ->
  (forallb (present d) ks = true -> flat_map (matches t) ks = map (slot t) ks) /\
  (forallb (present d) ks = false -> (length (flat_map (matches t) ks) < length ks)%nat) /\
  (length (flat_map (matches t) ks) <= length ks)%nat.
Proof.
  intros HI. induction ks as [|k ks (IH1 & IH2 & IH3)]; [cbn; repeat split; auto; discriminate|].
  cbn [forallb flat_map map length]. rewrite (matches_spec t d k HI), app_length.
  destruct (present d k); cbn [andb length app].
  - repeat split; [intros H; now rewrite IH1|intros H; specialize (IH2 H); lia|lia].
  - repeat split; [discriminate|lia|lia].
Qed.

Theorem get_indices_correct t d ks : Inv t d ->
  get_indices V t ks = if forallb (present d) ks then Ok (map (slot t) ks) else Refused.
Proof.
  intros HI. unfold get_indices.
  change (flat_map _ ks) with (flat_map (matches t) ks).
  destruct (flat_matches t d ks HI) as (H1 & H2 & H3).
  destruct (forallb (present d) ks) eqn:E.
  - rewrite H1 by reflexivity. rewrite map_length. replace (length ks <? length ks)%nat with false by (symmetry; apply Nat.ltb_ge; lia). reflexivity.
  - specialize (H2 eq_refl). replace (length (flat_map (matches t) ks) <? length ks)%nat with true by (symmetry; apply Nat.ltb_lt; lia). reflexivity.
Qed.

Lemma slot_value t d k vb : Inv t d -> t_vals t = VAligned vb -> present d k = true ->
  aget d k = Some (cell dv vb (slot t k)).
Proof.
  intros HI Ev Hp. pose proof HI as [(Hm & _) (_ & Hv)]. rewrite Ev in Hv. destruct Hv as [_ Hv].
  assert (Hin : In k (bucket t k)). { apply (In_bucket t d k HI). unfold present in Hp. destruct (aget d k); congruence. }
  destruct (nth_index_of k (bucket t k) 0 Hin) as [Hn Hr].
  apply (Hv (hash (t_mod t) k) (index_of k (bucket t k)) k (hash_range _ _ Hm)); [lia|].
  fold (bucket t k). rewrite (nth_error_nth' _ 0) by (unfold zlen in Hr; lia). now rewrite Hn.
Qed.

Lemma spec_getv_char d ks :
  spec_getv V d ks = if forallb (present d) ks then Ok (map (fun k => match aget d k with Some v => v | None => dv end) ks) else Refused.
Proof.
  unfold spec_getv. induction ks as [|k ks IH]; [reflexivity|]. cbn [map rsequence forallb]. unfold present at 1.
  destruct (aget d k) as [v|]; cbn [andb]; [|reflexivity]. rewrite IH. destruct (forallb (present d) ks); reflexivity.
Qed.

Theorem getv_correct t d ks : Inv t d -> getv V dv t ks = spec_getv V d ks.
Proof.
  intros HI. rewrite spec_getv_char. unfold getv. destruct (t_vals t) as [v|vb] eqn:Ev.
  - (* scalar-valued table (after repair F11: membership is checked) *)
    assert (Hc : contains_all V t ks = forallb (present d) ks).
    { unfold contains_all. apply forallb_ext'. intros k. fold (bucket t k). unfold present.
      pose proof (In_bucket t d k HI) as Hin. fold (bucket t k) in Hin.
      destruct (existsb (Z.eqb k) (bucket t k)) eqn:Ee.
      - apply existsb_exists in Ee. destruct Ee as (x & Hx & Ex). assert (x = k) by lia. subst x.
        apply Hin in Hx. destruct (aget d k); congruence.
      - destruct (aget d k) eqn:Ea; [|reflexivity]. exfalso.
        assert (In k (bucket t k)) by (apply Hin; congruence).
        assert (existsb (Z.eqb k) (bucket t k) = true) by (apply existsb_exists; exists k; split; [assumption|lia]). congruence. }
    rewrite Hc. destruct (forallb (present d) ks) eqn:E; [|reflexivity]. f_equal.
    apply map_ext_in. intros k Hk. rewrite forallb_forall in E. specialize (E k Hk).
    destruct HI as [_ (Hkeys & Hv)]. rewrite Ev in Hv. rewrite (Hv k); [reflexivity|]. apply Hkeys. unfold present in E. destruct (aget d k); congruence.
  - rewrite (get_indices_correct t d ks HI). destruct (forallb (present d) ks) eqn:E; cbn [rmap]; [|reflexivity].
    f_equal. rewrite map_map. apply map_ext_in. intros k Hk. rewrite forallb_forall in E.
    now rewrite (slot_value t d k vb HI Ev (E k Hk)).
Qed.
End HP.
Print Assumptions getv_correct.
