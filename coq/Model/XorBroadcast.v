From NPS Require Import ListAux PySlice Scatter BuildIdx.
Open Scope Z_scope.

(* C03/C04: RaggedShape._raw_broadcast (raggedshape.py L378-387) over an abstract xor-group *)
Section Xor.
Variable G : Type.
Variable zero : G.
Variable xor : G -> G -> G.
Hypothesis xor_assoc : forall a b c, xor a (xor b c) = xor (xor a b) c.
Hypothesis xor_comm : forall a b, xor a b = xor b a.
Hypothesis xor_nilp : forall a, xor a a = zero.
Hypothesis xor_zero_l : forall a, xor zero a = a.

Lemma xor_zero_r a : xor a zero = a. Proof. now rewrite xor_comm. Qed.
Lemma xor_cancel a b : xor a (xor a b) = b. Proof. now rewrite xor_assoc, xor_nilp. Qed.

(* np.bitwise_xor.accumulate *)
Fixpoint pxor_from (acc : G) (l : list G) : list G :=
  match l with [] => [] | x :: xs => xor acc x :: pxor_from (xor acc x) xs end.
Definition prefix_xor := pxor_from zero.

(* a[ps] ^= vs : all reads happen on the array as it was before the statement, then sequential writes *)
Definition scatter_xor (b : list G) (ps : list Z) (vs : list G) : list G :=
  scatter_set b ps (map2 (fun p v => xor (znth zero b p) v) ps vs).

Definition incl_prefix (ls : list Z) := cumsum ls.

Definition raw_broadcast (vals : list G) (ls : list Z) : list G :=
  let size := zsum ls in
  let b0 := repeat zero (Z.to_nat (size + 1)) in
  let b1 := scatter_xor b0 (rev (incl_prefix ls)) (rev vals) in
  let b2 := zset b1 0 zero in
  let b3 := scatter_xor b2 (excl_prefix ls) vals in
  prefix_xor (removelast b3).

Definition spec_broadcast (vals : list G) (ls : list Z) : list G :=
  concat (map2 (fun v l => repeat v (Z.to_nat l)) vals ls).
End Xor.

(* sanity on the integers with lxor, incl. leading / adjacent / trailing empty rows *)
Example rb1 : raw_broadcast Z 0 Z.lxor [5;6;7;8;9] [0;2;0;0;3] = [6;6;9;9;9]. Proof. reflexivity. Qed.
Example rb2 : raw_broadcast Z 0 Z.lxor [5;6;7] [2;1;0] = [5;5;6]. Proof. reflexivity. Qed.
Example rb3 : raw_broadcast Z 0 Z.lxor [5;6] [0;0] = []. Proof. reflexivity. Qed.
