(* C06 — property theorems only: each restates the full statement and is closed by the lemma proved in Proofs/. *)
From Coq Require Import ZArith List Bool.
From NPS Require Import ListAux PySlice NumpySem Scatter BuildIdx XorBroadcast View Index Assign Reduce Scan RaOps Heap Hash HashRun BitArr RLE RLEOps RLE2d DataClass RowsSpec AssignSpec MapSpec Denote Chain MaterialiseWF NoWriteThrough.
Import ListNotations.
Open Scope Z_scope.

Theorem C06_derived_denote :
  forall (A : Type) (dflt : A) (a : ra A) (idx : index) (g : gres A) (a' : ra A),
       WF A a ->
       GetItem.index_ok A (denote A dflt a) idx ->
       getitem a idx = Ok g ->
       derived A g = Some a' ->
       WF A a' /\ spec_getitem (denote A dflt a) idx = Ok (RRagged (denote A dflt a')).
Proof. exact derived_denote. Qed.
Print Assumptions C06_derived_denote.

Theorem C06_chain_correct :
  forall (A : Type) (dflt : A) (idxs : list index) (a a' : ra A),
       WF A a ->
       chain_ok A (denote A dflt a) idxs ->
       chain_model A a idxs = Ok a' -> WF A a' /\ chain_spec A (denote A dflt a) idxs = Ok (denote A dflt a').
Proof. exact chain_correct. Qed.
Print Assumptions C06_chain_correct.

Theorem C06_indistinguishable_read :
  forall (A : Type) (dflt : A) (a b : ra A) (idx : index),
       WF A a ->
       WF A b ->
       denote A dflt a = denote A dflt b ->
       GetItem.index_ok A (denote A dflt a) idx -> GetItem.model_obs A a idx = GetItem.model_obs A b idx.
Proof. exact indistinguishable_read. Qed.
Print Assumptions C06_indistinguishable_read.

Theorem C06_materialise_wf :
  forall (A : Type) (dflt : A) (a : ra A),
       WF A a ->
       exists a' : ra A,
         Index.materialise a = Ok a' /\
         WF A a' /\ is_contig (ra_geom a') /\ denote A dflt a' = denote A dflt a.
Proof. exact materialise_wf. Qed.
Print Assumptions C06_materialise_wf.

Theorem C06_rows_of_denote :
  forall (A : Type) (dflt : A) (a : ra A), WF A a -> rows_of a = Ok (denote A dflt a).
Proof. exact rows_of_denote. Qed.
Print Assumptions C06_rows_of_denote.

Theorem C06_assign_leaves_older_arrays_unchanged :
  forall (A : Type) (dflt : A) (sel : Type)
         (apply_sel : forall X : Type, sel -> list (list X) -> list (list X)) (pre : list (op A sel))
         (x : nat) (s : sel) (v : A) (y : nat),
       (y < x)%nat ->
       content A dflt
         (fst (step A dflt sel apply_sel (heap_after A dflt sel apply_sel pre) (OAssign A sel x s v))) y =
       content A dflt (heap_after A dflt sel apply_sel pre) y.
Proof. exact assign_leaves_older_arrays_unchanged. Qed.
Print Assumptions C06_assign_leaves_older_arrays_unchanged.
