From Coq Require Import ZifyBool.
From NPS Require Import ListAux PySlice NumpySem Scatter BuildIdx SliceAP XorProof Denote RLE RLEOps RaOps SetItem BinaryProof ColProof RLEIndex ColSum RaMean.
Open Scope Z_scope.

(* C09: mean(axis=0) = for every column below the longest row, (sum of the cells of the rows that reach it) / (number of those rows) *)
Theorem ra_col_mean_correct {C} (dv : Z -> Z -> C) (R : list (list Z)) :
  ra_col_mean dv (concat R, map zlen R)
  = map (fun j => dv (zsum (flat_map (fun r => if j <? zlen r then [zznth r j] else []) R)) (cnt (fun l => j <? l) (map zlen R)))
        (ap 0 (fold_left Z.max (map zlen R) 0) 1).
Proof.
  unfold ra_col_mean. cbn [snd]. rewrite colsum_correct, (col_counts_correct (map zlen R) (all_nonneg_zlen R)).
  rewrite (fold_max_hd (map zlen R) (all_nonneg_zlen R)). unfold spec_colsum. apply map2_maps.
Qed.
Print Assumptions ra_col_mean_correct.

Example ra_col_mean_example : ra_col_mean pair ([5; 5; 7; 4; 1; 2; 3; 3], [3; 1; 0; 4]) = [(10, 3); (7, 2); (10, 2); (3, 1)].
Proof. vm_compute. reflexivity. Qed.
