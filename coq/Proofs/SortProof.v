From Coq Require Import ZifyBool.
From NPS Require Import ListAux PySlice NumpySem Scatter BuildIdx SliceAP Denote RLE RLEOps RaOps SetItem BinaryProof ColProof RLEIndex ColSum BucketSort LexSort.
Open Scope Z_scope.

(* C07: RaggedArray.sort (lexsort of (flat values, row id of every position), then gather) sorts every row by itself *)

(* ---- the sort only moves payloads ---- *)
Section Nat.
Variables X Y : Type.
Variable f : X -> Y.
Definition pmap (q : Z * X) : Z * Y := (fst q, f (snd q)).
Lemma insert_natural p l : insert_stable (pmap p) (map pmap l) = map pmap (insert_stable p l).
Proof. induction l as [|q l IH]; [reflexivity|]. cbn [map insert_stable pmap fst]. destruct (fst p <=? fst q); cbn [map]; [reflexivity|]. now rewrite <- IH. Qed.
Lemma sort_natural l : stable_sort (map pmap l) = map pmap (stable_sort l).
Proof. induction l as [|p l IH]; [reflexivity|]. unfold stable_sort in *. cbn [map fold_right]. rewrite IH. apply insert_natural. Qed.
End Nat.

Lemma insert_In {X} (p x : Z * X) l : In x (insert_stable p l) -> x = p \/ In x l.
Proof.
  induction l as [|q l IH]; cbn [insert_stable]; [intros [H|[]]; auto|]. destruct (fst p <=? fst q).
  - intros [H|H]; auto.
  - intros [H|H]; [right; left; exact H|]. destruct (IH H); auto. right. now right.
Qed.
Lemma sort_In {X} (x : Z * X) l : In x (stable_sort l) -> In x l.
Proof.
  induction l as [|p l IH]; [intros []|]. unfold stable_sort in *. cbn [fold_right]. intros H. apply insert_In in H as [->|H]; [now left|right; now apply IH].
Qed.

(* ---- lexsort2 followed by the gather, in terms of the two-pass sort on labelled items ---- *)
Section Gather.
Variable vals rids : list Z.
Hypothesis Hlen : length rids = length vals.
Let n := zlen vals.
Let pos := ap 0 n 1.
Let val (p : Z) := nth (Z.to_nat p) vals 0.
Let rid (p : Z) := nth (Z.to_nat p) rids 0.
Definition E0 : list (Z * (Z * Z)) := map (fun p => (val p, (rid p, val p))) pos.

Lemma combine_vals_pos : combine vals pos = map (fun p => (val p, p)) pos.
Proof.
  unfold pos, val, n, ap, zlen. rewrite Nat2Z.id. rewrite ap_nat_seq, map_map.
  assert (G : forall (l : list Z) pre, combine l (map (fun j => 0 + Z.of_nat (length pre + j)) (seq 0 (length l)))
                = map (fun j => (nth (length pre + j) (pre ++ l) 0, 0 + Z.of_nat (length pre + j))) (seq 0 (length l))).
  { induction l as [|x l IH]; intros pre; [reflexivity|]. cbn [length seq map combine]. f_equal.
    - f_equal. rewrite app_nth2 by lia. replace (length pre + 0 - length pre)%nat with 0%nat by lia. reflexivity.
    - rewrite <- seq_shift, !map_map. specialize (IH (pre ++ [x])). rewrite app_length in IH. cbn [length] in IH.
      rewrite <- app_assoc in IH. cbn [app] in IH.
      rewrite (map_ext (fun j => 0 + Z.of_nat (length pre + S j)) (fun j => 0 + Z.of_nat (length pre + 1 + j))) by (intros; f_equal; lia).
      rewrite IH. apply map_ext. intros j. f_equal; f_equal; lia. }
  specialize (G vals []). cbn [length app Nat.add] in G. rewrite G. apply map_ext. intros j. f_equal. f_equal. lia.
Qed.

Theorem gather_lexsort : map val (lexsort2 vals rids) = two_pass E0 /\ Forall (fun p => 0 <= p < n) (lexsort2 vals rids).
Proof.
  unfold lexsort2. fold n pos. rewrite combine_vals_pos.
  set (L1 := map (fun p => (val p, p)) pos). set (by_val := map snd (stable_sort L1)).
  assert (Hby : Forall (fun p => 0 <= p < n) by_val).
  { apply Forall_forall. intros p Hp. unfold by_val in Hp. apply in_map_iff in Hp as (q & <- & Hq). apply sort_In in Hq.
    unfold L1 in Hq. apply in_map_iff in Hq as (p & <- & Hp). cbn [snd]. unfold pos, ap in Hp. rewrite ap_nat_seq in Hp.
    apply in_map_iff in Hp as (j & <- & Hj). apply in_seq in Hj. unfold n, zlen in *. lia. }
  set (L2 := map (fun p => (nth (Z.to_nat p) rids 0, p)) by_val). fold rid in L2.
  split.
  - unfold two_pass.
    assert (E1 : E0 = map (pmap _ _ (fun p => (rid p, val p))) L1) by (unfold E0, L1; rewrite map_map; reflexivity).
    rewrite E1, sort_natural.
    assert (E2 : map snd (map (pmap _ _ (fun p => (rid p, val p))) (stable_sort L1)) = map (pmap _ _ val) L2).
    { unfold L2, by_val. rewrite !map_map. apply map_ext. intros q. reflexivity. }
    rewrite E2, sort_natural, !map_map. apply map_ext. intros q. reflexivity.
  - apply Forall_forall. intros p Hp. apply in_map_iff in Hp as (q & <- & Hq). apply sort_In in Hq.
    unfold L2 in Hq. apply in_map_iff in Hq as (p & <- & Hp). cbn [snd]. rewrite Forall_forall in Hby. now apply Hby.
Qed.
End Gather.

(* ---- the row id of every flat position (RaggedShape.index_array) ---- *)
Fixpoint lab_list (k : Z) (ls : list Z) : list Z :=
  match ls with [] => [] | l :: ls' => repeat k (Z.to_nat l) ++ lab_list (k + 1) ls' end.

Lemma unravel_rows : forall ls acc k, all_nonneg ls ->
  map (fun p => k + ssr (excl_from acc ls) p - 1) (ap acc (zsum ls) 1) = lab_list k ls.
Proof.
  induction ls as [|l ls IH]; intros acc k H; [reflexivity|]. inversion H as [|? ? Hl Hls]; subst.
  pose proof (zsum_nonneg ls Hls) as Hs.
  cbn [excl_from zsum lab_list]. rewrite (map_ap_split Z _ acc l (zsum ls)) by lia. f_equal.
  - apply (map_ap_const Z); [lia|]. intros p Hp. rewrite ssr_cons'. replace (acc <=? p) with true by lia.
    assert (Hz : ssr (excl_from (acc + l) ls) p = 0).
    { unfold ssr. rewrite filter_le_all_gt; [reflexivity|]. eapply Forall_impl; [|apply (excl_from_ge ls (acc + l) Hls)]. cbn; intros; lia. }
    lia.
  - rewrite <- (IH (acc + l) (k + 1) Hls). apply map_ext_in. intros p Hp.
    assert (Hp' : acc + l <= p) by (unfold ap in Hp; rewrite ap_nat_seq in Hp; apply in_map_iff in Hp as (j & <- & _); lia).
    rewrite ssr_cons'. replace (acc <=? p) with true by lia. lia.
Qed.

Lemma removelast_map {X Y} (f : X -> Y) l : removelast (map f l) = map f (removelast l).
Proof. induction l as [|x l IH]; [reflexivity|]. destruct l as [|y l]; [reflexivity|]. cbn [map removelast] in *. now rewrite IH. Qed.
Lemma bincount_length N idx : length (bincount_z N idx) = N.
Proof. unfold bincount_z. now rewrite map_length, seq_length. Qed.

Lemma index_array_char ls : all_nonneg ls -> index_array ls = lab_list 0 ls.
Proof.
  intros H. rewrite <- (unravel_rows ls 0 0 H). unfold index_array. fold (excl_prefix ls).
  pose proof (zsum_nonneg ls H) as Hs. set (size := zsum ls) in *.
  unfold cumsum. rewrite cumsum_as_map, bincount_length.
  replace (Z.to_nat (size + 1)) with (S (Z.to_nat size)) by lia. rewrite removelast_map, seq_S, removelast_last.
  unfold ap. rewrite ap_nat_seq, map_map. apply map_ext_in. intros j Hj. apply in_seq in Hj.
  destruct ls as [|l ls']; [cbn in *; lia|]. inversion H as [|? ? Hl Hls]; subst.
  unfold excl_prefix. cbn [excl_from tl].
  rewrite bincount_prefix; [|lia|eapply Forall_impl; [|apply (excl_from_ge ls' (0 + l) Hls)]; cbn; intros; lia].
  rewrite ssr_cons'. replace (0 <=? 0 + Z.of_nat j) with true by lia. unfold cnt, ssr. replace (0 + Z.of_nat j) with (Z.of_nat j) by lia. lia.
Qed.

(* ---- values zipped with row ids are the labelled rows ---- *)
Lemma map_nth_all {X} (d : X) (l : list X) : map (fun j => nth j l d) (seq 0 (length l)) = l.
Proof.
  induction l as [|x l IH]; [reflexivity|]. cbn [length seq map nth]. f_equal. rewrite <- seq_shift, map_map. exact IH.
Qed.
Lemma combine_app' {X Y} (a1 a2 : list X) (b1 b2 : list Y) : length a1 = length b1 -> combine (a1 ++ a2) (b1 ++ b2) = combine a1 b1 ++ combine a2 b2.
Proof. revert b1; induction a1 as [|x a1 IH]; intros [|y b1] H; cbn in *; try discriminate; auto. f_equal. apply IH. lia. Qed.
Lemma combine_repeat {X} (r : list X) (k : Z) : combine r (repeat k (length r)) = map (fun x => (x, k)) r.
Proof. induction r as [|x r IH]; [reflexivity|]. cbn. now rewrite IH. Qed.
Lemma lab_list_length : forall ls k, all_nonneg ls -> zlen (lab_list k ls) = zsum ls.
Proof.
  induction ls as [|l ls IH]; intros k H; [reflexivity|]. inversion H as [|? ? Hl Hls]; subst. cbv beta in Hl. cbn [lab_list zsum]. unfold zlen in *.
  rewrite app_length, repeat_length, Nat2Z.inj_add, IH by assumption. lia.
Qed.

Lemma zip_labelled : forall R k,
  map (fun vr => (fst vr, (snd vr, fst vr))) (combine (concat R) (lab_list k (map zlen R))) = labelled k R.
Proof.
  induction R as [|r R IH]; intros k; [reflexivity|]. cbn [concat map lab_list labelled].
  rewrite combine_app' by (rewrite repeat_length; unfold zlen; lia). rewrite map_app, IH. f_equal.
  unfold zlen. rewrite Nat2Z.id, combine_repeat, map_map. reflexivity.
Qed.

Lemma E0_labelled (R : list (list Z)) : E0 (concat R) (lab_list 0 (map zlen R)) = labelled 0 R.
Proof.
  rewrite <- zip_labelled. set (vals := concat R). set (rids := lab_list 0 (map zlen R)).
  unfold E0, ap. replace (Z.to_nat (zlen vals)) with (length vals) by (unfold zlen; lia). rewrite ap_nat_seq, map_map.
  assert (Hl : length rids = length vals).
  { pose proof (lab_list_length (map zlen R) 0 (all_nonneg_zlen R)) as H. rewrite zsum_map_zlen in H. apply Nat2Z.inj. exact H. }
  assert (G : forall (f g : nat -> Z) l, combine (map f l) (map g l) = map (fun j => (f j, g j)) l) by (intros f g l; induction l; cbn; congruence).
  assert (Ez : combine vals rids = map (fun j => (nth j vals 0, nth j rids 0)) (seq 0 (length vals))).
  { rewrite <- G. f_equal; symmetry; [apply map_nth_all|rewrite <- Hl; apply map_nth_all]. }
  rewrite Ez, map_map. apply map_ext. intros j. cbn [fst snd]. replace (Z.to_nat (0 + Z.of_nat j)) with j by lia. reflexivity.
Qed.

(* ---- every finite list of integers is bounded ---- *)
Lemma bounded_rows (R : list (list Z)) : exists lo n, Forall (Forall (inb lo n)) R.
Proof.
  assert (G : forall l : list Z, exists lo hi, Forall (fun x => lo <= x < hi) l).
  { induction l as [|x l (lo & hi & H)]; [exists 0, 0; constructor|]. exists (Z.min lo x), (Z.max hi (x + 1)). constructor; [lia|].
    eapply Forall_impl; [|exact H]. cbn; intros; lia. }
  destruct (G (concat R)) as (lo & hi & H). exists lo, (Z.to_nat (hi - lo)).
  apply Forall_forall. intros r Hr. apply Forall_forall. intros x Hx. rewrite Forall_forall in H.
  assert (Hin : In x (concat R)) by (apply in_concat; exists r; auto). specialize (H x Hin). unfold inb. lia.
Qed.

Lemma insert_length {X} (p : Z * X) l : length (insert_stable p l) = S (length l).
Proof. induction l as [|q l IH]; [reflexivity|]. cbn [insert_stable]. destruct (fst p <=? fst q); cbn [length]; [reflexivity|now rewrite IH]. Qed.
Lemma sort_length {X} (l : list (Z * X)) : length (stable_sort l) = length l.
Proof. induction l as [|p l IH]; [reflexivity|]. unfold stable_sort in *. cbn [fold_right length]. now rewrite insert_length, IH. Qed.

Theorem sort_correct (R : list (list Z)) : ra_sort (fr_of_rows R) = Ok (fr_of_rows (spec_sort R)).
Proof.
  unfold ra_sort, fr_of_rows. cbn [fst snd]. rewrite (index_array_char _ (all_nonneg_zlen R)).
  set (vals := concat R). set (rids := lab_list 0 (map zlen R)).
  assert (Hl : length rids = length vals).
  { pose proof (lab_list_length (map zlen R) 0 (all_nonneg_zlen R)) as H. rewrite zsum_map_zlen in H. apply Nat2Z.inj. exact H. }
  destruct (gather_lexsort vals rids Hl) as [Hg Hr].
  rewrite (np_take_in_range Z 0) by exact Hr. cbn [rmap]. f_equal.
  change (map (znth 0 vals) (lexsort2 vals rids)) with (map (fun p => nth (Z.to_nat p) vals 0) (lexsort2 vals rids)).
  rewrite Hg. unfold vals, rids. rewrite E0_labelled.
  destruct (bounded_rows R) as (lo & n & Hb). rewrite (two_pass_rows lo n R Hb).
  unfold spec_sort. rewrite map_map.
  rewrite (map_ext (fun x : list Z => zlen (map fst (stable_sort (map (fun x0 : Z => (x0, tt)) x)))) zlen); [reflexivity|].
  intros r. unfold zlen. now rewrite map_length, sort_length, map_length.
Qed.
Print Assumptions sort_correct.
