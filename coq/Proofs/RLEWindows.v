From Coq Require Import ZifyBool.
From NPS Require Import ListAux PySlice NumpySem Scatter BuildIdx XorBroadcast RLE RLEOps RLEProof StartEnd BinaryProof StepNeg.
Open Scope Z_scope.

(* C15: start/stop vector windows, and indexing with a run-length encoded boolean mask *)
Section W.
Variable A : Type.

(* a non-empty window is the scalar code's *)
Lemma start_to_end_v_nonempty (r : list Z * list A) (s e : Z) : s < e -> start_to_end_v r s e = start_to_end A r s e.
Proof.
  intros H. unfold start_to_end_v, start_to_end. destruct (e <=? s) eqn:E; [lia|]. now replace (Z.max (e - s) 0) with (e - s) by lia.
Qed.
(* an empty window holds no value, whatever the boundaries *)
Lemma start_to_end_v_empty (r : list Z * list A) (s e : Z) : e <= s -> decode A (start_to_end_v r s e) = [].
Proof.
  intros H. unfold start_to_end_v, decode. destruct (e <=? s) eqn:E; [|lia]. cbn [fst snd].
  unfold zslice_l, ztake. replace (Z.to_nat (ssr (fst r) s - 1 - (ssr (fst r) s - 1))) with 0%nat by lia. reflexivity.
Qed.

(* every window decodes to the dense slice: non-empty windows inside the array, and empty ones (stop <= start) anywhere *)
Theorem rl_windows_decode (ev : list Z) (vs : list A) (ss es : list Z) :
  length ev = length vs -> strictly_increasing (0 :: ev) ->
  Forall (fun se => 0 <= fst se /\ (fst se < snd se -> snd se <= last (0 :: ev) 0)) (combine ss es) -> length ss = length es ->
  map (decode A) (rl_windows (0 :: ev, vs) ss es) = map2 (fun s e => ztake (e - s) (zdrop s (decode A (0 :: ev, vs)))) ss es.
Proof.
  intros Hlen Hinc. unfold rl_windows. revert es. induction ss as [|s ss IH]; intros [|e es] H Hl; try discriminate; [reflexivity|].
  inversion H as [|? ? (H1 & H2) Hr]; subst. cbn [fst snd] in *. cbn [map2 map]. f_equal.
  - destruct (Z_lt_le_dec s e) as [Hse|Hse].
    + rewrite (start_to_end_v_nonempty _ s e Hse). rewrite (start_to_end_decode A ev vs 0 s e Hlen Hinc H1 Hse (H2 Hse)). now rewrite Z.sub_0_r.
    + rewrite (start_to_end_v_empty _ s e Hse). unfold ztake. now replace (Z.to_nat (e - s)) with 0%nat by lia.
  - apply IH; [assumption|cbn in Hl; lia].
Qed.
Lemma rl_windows_decode_nonempty (ev : list Z) (vs : list A) (ss es : list Z) :
  length ev = length vs -> strictly_increasing (0 :: ev) ->
  Forall (fun se => 0 <= fst se /\ fst se < snd se /\ snd se <= last (0 :: ev) 0) (combine ss es) -> length ss = length es ->
  map (decode A) (rl_windows (0 :: ev, vs) ss es) = map2 (fun s e => ztake (e - s) (zdrop s (decode A (0 :: ev, vs)))) ss es.
Proof.
  intros Hlen Hinc H Hl. apply rl_windows_decode; try assumption. eapply Forall_impl; [|exact H]. intros [s e] (H1 & H2 & H3). cbn [fst snd] in *. split; [lia|intros _; lia].
Qed.

(* filtering a dense array by the decoded mask = concatenating the slices of the mask's true runs *)
Lemma mask_filter_app (a b : list A) (m n : list bool) : length a = length m -> mask_filter (a ++ b) (m ++ n) = mask_filter a m ++ mask_filter b n.
Proof. revert m; induction a as [|x a IH]; intros [|c m] H; cbn in *; try discriminate; [reflexivity|]. destruct c; cbn; rewrite IH by lia; reflexivity. Qed.
Lemma mask_filter_repeat_true (a : list A) : mask_filter a (repeat true (length a)) = a.
Proof. induction a as [|x a IH]; [reflexivity|]. cbn. now rewrite IH. Qed.
Lemma mask_filter_repeat_false (a : list A) : mask_filter a (repeat false (length a)) = [].
Proof. induction a as [|x a IH]; [reflexivity|]. cbn. exact IH. Qed.

Lemma filter_by_runs : forall (ls : list Z) (bs : list bool) (d : list A) acc, Forall (fun l => 0 <= l) ls -> length bs = length ls -> zlen d = zsum ls -> 0 <= acc ->
  mask_filter d (spec_broadcast bool bs ls)
  = concat (map2 (fun s e => ztake (e - s) (zdrop (s - acc) d)) (mask_filter (excl_from acc ls) bs) (mask_filter (map2 Z.add (excl_from acc ls) ls) bs)).
Proof.
  induction ls as [|l ls IH]; intros bs d acc Hnn Hlen Hd Hacc; destruct bs as [|b bs]; try discriminate.
  - destruct d; [reflexivity|unfold zlen in Hd; cbn in Hd; lia].
  - inversion Hnn as [|? ? Hl Hls]; subst. cbn [zsum] in Hd. cbn [length] in Hlen.
    assert (Hz : 0 <= zsum ls) by (apply zsum_nonneg; exact Hls).
    rewrite (spec_broadcast_cons bool). cbn [excl_from map2 mask_filter].
    rewrite <- (firstn_skipn (Z.to_nat l) d) at 1.
    assert (Hf : length (firstn (Z.to_nat l) d) = Z.to_nat l) by (rewrite firstn_length; unfold zlen in Hd; lia).
    rewrite mask_filter_app by (now rewrite repeat_length).
    assert (Hrest : zlen (skipn (Z.to_nat l) d) = zsum ls) by (unfold zlen in *; rewrite skipn_length; lia).
    specialize (IH bs (skipn (Z.to_nat l) d) (acc + l) Hls ltac:(lia) Hrest ltac:(lia)).
    assert (Hshift : forall s e, acc + l <= s -> ztake (e - s) (zdrop (s - (acc + l)) (skipn (Z.to_nat l) d)) = ztake (e - s) (zdrop (s - acc) d)).
    { intros s e Hs. f_equal. unfold zdrop. rewrite skipn_skipn'. f_equal. lia. }
    assert (Hall : Forall (fun p => acc + l <= p) (mask_filter (excl_from (acc + l) ls) bs)).
    { pose proof (BuildIdx.excl_ge (acc + l) ls Hls) as G. clear -G. revert bs. induction (excl_from (acc + l) ls) as [|p ps IHp]; intros bs; [destruct bs; constructor|].
      destruct bs as [|c bs]; [constructor|]. inversion G; subst. cbn [mask_filter]. destruct c; [constructor; [assumption|now apply IHp]|now apply IHp]. }
    assert (Hrw : concat (map2 (fun s e => ztake (e - s) (zdrop (s - (acc + l)) (skipn (Z.to_nat l) d))) (mask_filter (excl_from (acc + l) ls) bs) (mask_filter (map2 Z.add (excl_from (acc + l) ls) ls) bs))
                = concat (map2 (fun s e => ztake (e - s) (zdrop (s - acc) d)) (mask_filter (excl_from (acc + l) ls) bs) (mask_filter (map2 Z.add (excl_from (acc + l) ls) ls) bs))).
    { f_equal. revert Hall. generalize (mask_filter (map2 Z.add (excl_from (acc + l) ls) ls) bs). generalize (mask_filter (excl_from (acc + l) ls) bs).
      induction l0 as [|s ss IHs]; intros [|e es] Hf'; try reflexivity. inversion Hf'; subst. cbn [map2]. f_equal; [now apply Hshift|now apply IHs]. }
    destruct b.
    + replace (repeat true (Z.to_nat l)) with (repeat true (length (firstn (Z.to_nat l) d))) by (now rewrite Hf). rewrite mask_filter_repeat_true. cbn [map2 concat]. f_equal.
      * replace (acc + l - acc) with l by lia. replace (acc - acc) with 0 by lia. reflexivity.
      * rewrite IH. exact Hrw.
    + replace (repeat false (Z.to_nat l)) with (repeat false (length (firstn (Z.to_nat l) d))) by (now rewrite Hf). rewrite mask_filter_repeat_false. cbn [app]. rewrite IH. exact Hrw.
Qed.

Lemma tl_evs : forall ls acc, tl (excl_from acc ls ++ [acc + zsum ls]) = map2 Z.add (excl_from acc ls) ls.
Proof.
  induction ls as [|l ls IH]; intros acc; [reflexivity|]. cbn [excl_from app tl zsum map2]. f_equal.
  specialize (IH (acc + l)). destruct ls as [|l2 ls]; [cbn; f_equal; lia|].
  cbn [excl_from app tl] in IH. cbn [excl_from app]. rewrite <- IH. f_equal. f_equal. f_equal. cbn [zsum]. lia.
Qed.

Lemma removelast_evs ls acc : removelast (excl_from acc ls ++ [acc + zsum ls]) = excl_from acc ls.
Proof. apply removelast_last. Qed.

Lemma combine_nil_r {X Y} (l : list X) : combine l (@nil Y) = [].
Proof. now destruct l. Qed.
Lemma mask_filter_combine {X Y} (a : list X) (b : list Y) (m : list bool) : combine (mask_filter a m) (mask_filter b m) = mask_filter (combine a b) m.
Proof.
  revert b m; induction a as [|x a IH]; intros b m; [reflexivity|].
  destruct b as [|y b]; [cbn [combine mask_filter]; destruct m; apply combine_nil_r|].
  destruct m as [|c m]; [reflexivity|]. cbn [combine mask_filter]. destruct c; cbn [combine]; [f_equal|]; apply IH.
Qed.
Lemma mask_filter_Forall {X} (P : X -> Prop) (l : list X) m : Forall P l -> Forall P (mask_filter l m).
Proof. intros H; revert m; induction H as [|x l Hx _ IH]; intros [|c m]; cbn; try constructor. destruct c; [constructor; [assumption|apply IH]|apply IH]. Qed.
Lemma mask_filter_length2 {X Y} (a : list X) (b : list Y) m : length a = length b -> length (mask_filter a m) = length (mask_filter b m).
Proof. revert b m; induction a as [|x a IH]; intros [|y b] [|c m] H; cbn in *; try discriminate; try reflexivity. destruct c; cbn; rewrite (IH b m) by lia; reflexivity. Qed.

(* rla[run-length boolean mask] = the dense array filtered by the decoded mask *)
Theorem rl_getitem_rlmask_correct (ev : list Z) (vs : list A) (lsM : list Z) (bsM : list bool) :
  length ev = length vs -> strictly_increasing (0 :: ev) ->
  Forall (fun l => 1 <= l) lsM -> length bsM = length lsM -> zsum lsM = last (0 :: ev) 0 -> zlen (decode A (0 :: ev, vs)) = last (0 :: ev) 0 ->
  rl_getitem_rlmask (0 :: ev, vs) (excl_prefix lsM ++ [zsum lsM], bsM) = mask_filter (decode A (0 :: ev, vs)) (decode bool (excl_prefix lsM ++ [zsum lsM], bsM)).
Proof.
  intros Hlen Hinc Hl HlenM Hsum Hdec. unfold rl_getitem_rlmask. cbn [fst snd]. unfold excl_prefix.
  replace (zsum lsM) with (0 + zsum lsM) at 1 2 by lia. rewrite removelast_evs, tl_evs.
  assert (Hnn : Forall (fun l => 0 <= l) lsM) by (eapply Forall_impl; [|exact Hl]; cbn; intros; lia).
  set (S := mask_filter (excl_from 0 lsM) bsM). set (E := mask_filter (map2 Z.add (excl_from 0 lsM) lsM) bsM).
  assert (HSE : Forall (fun se => 0 <= fst se /\ fst se < snd se /\ snd se <= last (0 :: ev) 0) (combine S E)).
  { unfold S, E. rewrite mask_filter_combine. apply mask_filter_Forall. rewrite <- Hsum. clear -Hl.
    assert (G : forall ls acc, Forall (fun l => 1 <= l) ls -> 0 <= acc -> Forall (fun se => 0 <= fst se /\ fst se < snd se /\ snd se <= acc + zsum ls) (combine (excl_from acc ls) (map2 Z.add (excl_from acc ls) ls))).
    { induction ls as [|l ls IH]; intros acc H Ha; [constructor|]. inversion H as [|? ? H1 Hs]; subst.
      assert (0 <= zsum ls) by (apply zsum_nonneg; eapply Forall_impl; [|exact Hs]; cbn; intros; lia).
      cbn [excl_from map2 combine zsum]. constructor; [cbn; lia|]. eapply Forall_impl; [|apply (IH (acc + l) Hs)]; [|lia]. cbn. intros [a b]; cbn. lia. }
    specialize (G lsM 0 Hl ltac:(lia)). exact G. }
  assert (HlenSE : length S = length E).
  { unfold S, E. apply mask_filter_length2. rewrite excl_from_length.
    assert (G : forall (a b : list Z), length a = length b -> length (map2 Z.add a b) = length b) by (induction a as [|x a IH]; intros [|y b] H; cbn in *; try discriminate; [reflexivity|]; f_equal; apply IH; lia).
    symmetry. apply G. apply excl_from_length. }
  rewrite (rl_windows_decode_nonempty ev vs S E Hlen Hinc HSE HlenSE).
  assert (Hdm : decode bool (excl_from 0 lsM ++ [zsum lsM], bsM) = spec_broadcast bool bsM lsM).
  { unfold decode. cbn [fst snd]. f_equal. exact (diffs_evs lsM). }
  rewrite Hdm.
  rewrite (filter_by_runs lsM bsM (decode A (0 :: ev, vs)) 0 Hnn HlenM ltac:(lia) ltac:(lia)). fold S E.
  f_equal. clearbody S E. clear. revert E. induction S as [|s S IH]; intros [|e E]; try reflexivity. cbn [map2]. f_equal; [now rewrite Z.sub_0_r|apply IH].
Qed.
End W.
