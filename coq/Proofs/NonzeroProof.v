From Coq Require Import ZifyBool.
From NPS Require Import ListAux PySlice NumpySem Scatter BuildIdx SliceAP Denote RLE RLEOps RaOps SetItem BinaryProof ColProof RLEIndex ColSum LexSort SortProof.
Open Scope Z_scope.

(* C08: nonzero returns the (row, column) coordinates of the non-zero cells in row-major order *)

Lemma fnz_filter : forall (m : list bool) off,
  fnz_from off m = filter (fun p => nth (Z.to_nat (p - off)) m false) (ap_nat off 1 (length m)).
Proof.
  induction m as [|b m IH]; intros off; [reflexivity|]. cbn [fnz_from length ap_nat filter].
  replace (Z.to_nat (off - off)) with 0%nat by lia. cbn [nth]. rewrite IH.
  assert (E : filter (fun p => nth (Z.to_nat (p - (off + 1))) m false) (ap_nat (off + 1) 1 (length m))
            = filter (fun p => nth (Z.to_nat (p - off)) (b :: m) false) (ap_nat (off + 1) 1 (length m))).
  { apply filter_ext_in. intros p Hp. apply in_ap_nat in Hp. replace (Z.to_nat (p - off)) with (S (Z.to_nat (p - (off + 1)))) by lia. reflexivity. }
  rewrite E. destruct b; reflexivity.
Qed.

Lemma map2_map_r {X Y W} (f : X -> Y -> W) (g : X -> Y) l : map2 f l (map g l) = map (fun x => f x (g x)) l.
Proof. induction l as [|x l IH]; [reflexivity|]. cbn [map map2]. now rewrite IH. Qed.

(* the cells of the spec, with row labels starting at k *)
Definition cells_from (k : Z) (R : list (list Z)) : list (Z * Z * Z) :=
  concat (map (fun ir => map (fun jc => (fst ir, fst jc, snd jc)) (combine (ap 0 (zlen (snd ir)) 1) (snd ir)))
              (combine (ap k (zlen R) 1) R)).

Lemma cells_zip : forall R k,
  cells_from k R = combine (combine (lab_list k (map zlen R)) (concat (map (fun l => ap 0 l 1) (map zlen R)))) (concat R).
Proof.
  induction R as [|r R IH]; intros k; [reflexivity|].
  unfold cells_from. unfold ap at 2. replace (Z.to_nat (zlen (r :: R))) with (S (length R)) by (unfold zlen; cbn [length]; lia).
  cbn [ap_nat combine map concat lab_list fst snd].
  assert (Elen : length (ap 0 (zlen r) 1) = length r) by (rewrite ap_length; unfold zlen; lia).
  rewrite !combine_app' by (rewrite ?repeat_length, ?combine_length, ?repeat_length, ?Elen; unfold zlen; lia).
  f_equal.
  - replace (Z.to_nat (zlen r)) with (length r) by (unfold zlen; lia). clear IH. revert Elen. generalize (ap 0 (zlen r) 1) as js. intros js. revert js.
    induction r as [|x r IHr]; intros [|j js] H; cbn in H; try discriminate; [reflexivity|]. cbn. f_equal. apply IHr. lia.
  - specialize (IH (k + 1)). unfold cells_from in IH. unfold ap at 2 in IH. unfold zlen at 2 in IH. rewrite Nat2Z.id in IH. exact IH.
Qed.

Theorem nonzero_correct (R : list (list Z)) : ra_nonzero (fr_of_rows R) = spec_nonzero R.
Proof.
  unfold ra_nonzero, spec_nonzero, fr_of_rows. cbn [fst snd].
  set (vals := concat R). set (lens := map zlen R). set (starts := excl_prefix lens).
  pose proof (all_nonneg_zlen R) as Hnn. fold lens in Hnn.
  set (rowid := fun p => ssr starts p - 1). set (colid := fun p => p - zznth starts (ssr starts p - 1)).
  set (val := fun p => nth (Z.to_nat p) vals 0).
  set (pos := ap 0 (zlen vals) 1).
  (* positions of the non-zero cells *)
  assert (Hidx : flatnonzero (map (fun x => negb (x =? 0)) vals) = filter (fun p => negb (val p =? 0)) pos).
  { unfold flatnonzero. rewrite fnz_filter, map_length. unfold pos, ap, zlen. rewrite Nat2Z.id. apply filter_ext_in. intros p Hp.
    apply in_ap_nat in Hp. unfold val. replace (p - 0) with p by lia.
    rewrite (nth_indep _ false (negb (0 =? 0))) by (rewrite map_length; lia). now rewrite (map_nth (fun x => negb (x =? 0))). }
  rewrite Hidx. rewrite map2_map_r. fold rowid. fold colid.
  (* the triples of every position are the spec's cells *)
  assert (Hsize : zlen vals = zsum lens) by (unfold vals, lens; now rewrite zsum_map_zlen).
  assert (HT : map (fun p => (rowid p, colid p, val p)) pos = cells_from 0 R).
  { rewrite cells_zip. fold lens vals.
    rewrite <- (unravel_rows lens 0 0 Hnn), <- (unravel_cols lens 0 Hnn). fold starts. rewrite <- Hsize. fold pos.
    assert (Hv : vals = map val pos).
    { unfold pos, ap, zlen, val. rewrite Nat2Z.id, ap_nat_seq, map_map. rewrite <- (map_nth_all 0 vals) at 1. apply map_ext. intros j. f_equal. lia. }
    rewrite Hv.
    assert (G : forall {X Y} (f : Z -> X) (g : Z -> Y) l, combine (map f l) (map g l) = map (fun j => (f j, g j)) l) by (intros X Y f g l; induction l; cbn; congruence).
    rewrite !G. apply map_ext. intros p. unfold rowid, colid. replace (0 + ssr starts p - 1) with (ssr starts p - 1) by lia. reflexivity. }
  unfold cells_from in HT. rewrite <- HT. rewrite filter_map_comm, !map_map. cbn [fst snd]. reflexivity.
Qed.
Print Assumptions nonzero_correct.
