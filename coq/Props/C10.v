(* C10 — property theorems only: each restates the full statement and is closed by the lemma proved in Proofs/. *)
From Coq Require Import ZArith List Bool.
From NPS Require Import ListAux PySlice NumpySem Scatter BuildIdx XorBroadcast View Index Assign Reduce Scan RaOps Heap Hash HashRun BitArr RLE RLEOps RLE2d DataClass RowsSpec AssignSpec MapSpec Denote HeapProof.
Import ListNotations.
Open Scope Z_scope.

Theorem C10_run_sim :
  forall (A : Type) (dflt : A) (sel : Type)
         (apply_sel : forall X : Type, sel -> list (list X) -> list (list X)),
       (forall (X Y : Type) (f : X -> Y) (s : sel) (r : list (list X)),
        apply_sel Y s (map (map f) r) = map (map f) (apply_sel X s r)) ->
       forall (ops : list (op A sel)) (h : heap A) (vs : list (list (list A))),
       Inv A dflt h vs ->
       safe_run A dflt sel apply_sel h ops ->
       run A dflt sel apply_sel h ops = vrun A dflt sel apply_sel vs ops.
Proof. exact run_sim. Qed.
Print Assumptions C10_run_sim.

Theorem C10_C10_partial :
  forall (A : Type) (dflt : A) (sel : Type)
         (apply_sel : forall X : Type, sel -> list (list X) -> list (list X)),
       (forall (X Y : Type) (f : X -> Y) (s : sel) (r : list (list X)),
        apply_sel Y s (map (map f) r) = map (map f) (apply_sel X s r)) ->
       forall (ops : list (op A sel)) (i x : nat),
       (i <= length ops)%nat ->
       safe_run A dflt sel apply_sel (empty_heap A) ops ->
       safe_run A dflt sel apply_sel (empty_heap A) (insert_read A sel i x ops) ->
       let out := run A dflt sel apply_sel (empty_heap A) ops in
       let out' := run A dflt sel apply_sel (empty_heap A) (insert_read A sel i x ops) in
       firstn i out' = firstn i out /\ skipn (S i) out' = skipn i out.
Proof. exact C10_partial. Qed.
Print Assumptions C10_C10_partial.
