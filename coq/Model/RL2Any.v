From NPS Require Import ListAux PySlice NumpySem Scatter BuildIdx XorBroadcast RLE RLEOps RaOps RLE2d.
Open Scope Z_scope.

(* C17: RunLength2dArray._col_any (runlengtharray.py L696-719, matrix variant): the union of the True runs of all rows, computed by sorting
   the starts and the ends of the True runs separately and keeping a start / an end where the next start lies beyond the current end *)
Definition zsort (l : list Z) : list Z := map fst (stable_sort (map (fun x => (x, tt)) l)).

(* 2-D join_runs on one row: keep a run where its value differs from the previous run's (the first run always) *)
Fixpoint row_join_aux (prev : bool) (idx : list Z) (vs : list bool) : list Z * list bool :=
  match idx, vs with
  | i :: idx', v :: vs' => let '(ri, rv) := row_join_aux v idx' vs' in if Bool.eqb v prev then (ri, rv) else (i :: ri, v :: rv)
  | _, _ => ([], [])
  end.
Definition row_join (idx : list Z) (vs : list bool) : list Z * list bool :=
  match idx, vs with i :: idx', v :: vs' => let '(ri, rv) := row_join_aux v idx' vs' in (i :: ri, v :: rv) | _, _ => ([], []) end.

Fixpoint valid_next (starts ends : list Z) : list bool :=       (* for i < n-1: starts[i+1] > ends[i];  last: true *)
  match starts, ends with
  | _ :: ((s' :: _) as st), e :: en => (s' >? e) :: valid_next st en
  | _, _ => [true]
  end.

Definition col_any (x : rl2) : rla bool :=
  let L := match r_len x with Some n => n | None => 0 end in
  let rows := map2 row_join (r_idx x) (map (map (fun v => negb (v =? 0))) (r_val x)) in
  let starts := zsort (flat_map (fun r => mask_filter (fst r) (snd r)) rows) in
  let ends0 := zsort (flat_map (fun r => mask_filter (tl (fst r)) (map negb (tl (snd r)))) rows) in
  let ends := ends0 ++ repeat L (length starts - length ends0) in
  let vn := valid_next starts ends in                   (* valid_mask[1:] *)
  let vp := match starts with [] => [] | _ => true :: removelast vn end in     (* valid_mask[:-1]: position 0 forced, then "start i beyond end i-1" *)
  let ks := mask_filter starts vp in
  let ke := mask_filter ends vn in
  let idx := concat (map2 (fun s e => [s; e]) ks ke) in
  let vals := concat (map (fun _ => [true; false]) ks) in
  let '(idx, vals) := match ks with
                      | s0 :: _ => if s0 =? 0 then (idx, vals) else (0 :: idx, false :: vals)
                      | [] => (0 :: idx, false :: vals)
                      end in
  if last idx 0 =? L then (idx, removelast vals) else (idx ++ [L], vals).

Example any1 : col_any (from_matrix [[0;0;0;0;0;0;1;0]; [1;1;1;1;1;0;0;0]]) = ([0; 5; 6; 7; 8], [true; false; true; false]). Proof. reflexivity. Qed.
Example any2 : col_any (from_matrix [[0;0;0]; [0;0;0]]) = ([0; 3], [false]). Proof. reflexivity. Qed.
Example any3 : col_any (from_matrix [[1;1;0]; [0;1;1]]) = ([0; 3], [true]). Proof. reflexivity. Qed.
Example any4 : col_any (from_matrix [[0;2;0;0;3]; [0;0;0;4;4]]) = ([0; 1; 2; 3; 5], [false; true; false; true]). Proof. reflexivity. Qed.
