"""C19 — results do not depend on the index-width configuration.

Every case set of C01-C09 (the index grammar of C02 on fresh and derived arrays, the assignments of C03, the dtype-wide operation families
of C04/C05/C07/C08/C09, the constructors/observers of C01, the programs of C06) is run by the implementation under 64-bit and under 32-bit
row indices; the two answers (values, row lengths, element dtypes, refusal) are compared with each other, so that a defect common to both
configurations is reported by the property it belongs to and not here."""
import os, random
import vlib
from harness import c02, fam_ra2
TRUSTED = [vlib.KERNEL_TB, vlib.AXIOMS_TB, vlib.EXTRACT_TB, "little-endian layout of an int32 pair inside a uint64 word (Model/IdxWidth.v; sys.byteorder checked at start-up)", "this harness"]
ASSUME = ["arrays small enough for 32-bit offsets", "the reference for a case is the implementation's own answer under the default 64-bit configuration; that answer is "
          "compared with the Coq oracle / numpy per row by the checks C01-C09"]
RULE = ("each case twice (np.int64 / np.int32 via ViewBase.set_dtype), same seed: C02 index grammar (" + c02.RULE[:200] + "...), C06 chains and programs, C03 assignments into views, "
        "and the C01/C04/C05/C07/C08/C09 families on a lighter shape set (<= 3 rows); non-trivial / distinct as in the owning family")


class Collect:
    """stands in for vlib.Run while a family is executed: keeps the implementation's answer per case"""
    def __init__(self): self.d = {}; self.only = None; self.notes = {}; self.ties = []; self.internal = []; self.violations = []
    def record(self, case, impl, model, spec, nontrivial=True, kind="case", cls=None, py=None): self.d[case] = (impl, nontrivial, kind, py)
    def violation(self, case, reason, **kw): self.d[case] = ("harness violation: " + reason[:200], True, "aborted", None)


def extra_cases(col, tier, rng):
    """cases of this property's own: many rows with narrow numpy-scalar bounds and indices (arithmetic on them must not happen in their own type),
    and row-length arrays whose dtype equals one of the two index dtypes (the array stays the caller's under both configurations)"""
    import numpy as np
    from npstructures import RaggedArray
    from vlib import guarded
    rows = [list(range(10 * i, 10 * i + (i * 7) % 4)) for i in range(150)]
    mk = lambda: RaggedArray(rows, dtype=int)
    def canon(x):
        return x.tolist() if hasattr(x, "tolist") else x
    IDX = [("np.int8(70):np.int8(90)", lambda a: a[np.int8(70):np.int8(90)]), ("np.uint8(130):np.uint8(140)", lambda a: a[np.uint8(130):np.uint8(140)]),
           ("np.int16(20):np.int16(30)", lambda a: a[np.int16(20):np.int16(30)]), ("np.int8(-80):np.int8(-66)", lambda a: a[np.int8(-80):np.int8(-66)]),
           ("np.int8(100)", lambda a: a[np.int8(100)]), ("np.uint8(140)", lambda a: a[np.uint8(140)]), ("np.int8(-100)", lambda a: a[np.int8(-100)]),
           ("np.int8(70):np.int8(90), 1:", lambda a: a[np.int8(70):np.int8(90), 1:]), ("np.uint8(3):np.uint8(149):np.uint8(70)", lambda a: a[np.uint8(3):np.uint8(149):np.uint8(70)]),
           ("np.array([100, 3, 127], int8)", lambda a: a[np.array([100, 3, 127], dtype=np.int8)]), ("np.array([140, 3, 255 - 110], uint8)", lambda a: a[np.array([140, 3, 145], dtype=np.uint8)]),
           ("[np.int8(100), np.int8(7)]", lambda a: a[[np.int8(100), np.int8(7)]]), ("np.int8(70):np.int8(90) then .sum(-1)", lambda a: a[np.int8(70):np.int8(90)].sum(axis=-1)),
           ("np.int8(101), np.int8(1)", lambda a: a[np.int8(101), np.int8(1)])]
    for name, f in IDX:
        col.record("long-array [" + name + "]", guarded(lambda: canon(f(mk()))), None, None, True, "narrow-scalar-bounds", py=f"RaggedArray(<150 rows>)[{name}]")
    for ldt in ("int64", "int32", "uint8"):
        def own():
            lens = np.array([2, 0, 3, 1], dtype=ldt); data = np.arange(6)
            a = RaggedArray(data, lens); first = a.tolist()
            lens[:] = np.array([1, 3, 0, 2], dtype=ldt)            # the caller reuses its array for the next batch
            b = RaggedArray(np.arange(10, 16), lens)
            return [first, a.tolist(), np.asarray(a.lengths).tolist(), a.sum(axis=-1).tolist(), b.tolist()]
        col.record(f"row lengths given as a {ldt} array, then rewritten by the caller", guarded(own), None, None, True, "ownership/row-lengths",
                   py=f"lens = np.array([2,0,3,1], dtype='{ldt}'); a = RaggedArray(np.arange(6), lens); lens[:] = [1,3,0,2]; a.tolist(), a.lengths, a.sum(axis=-1)")


def families(tier, seed):
    from harness import c01, c06
    col = Collect()
    extra_cases(col, tier, random.Random(seed))
    fam_ra2.LIGHT[0] = True
    try:
        for f in (fam_ra2.run_c04, fam_ra2.run_c05, fam_ra2.run_c07, fam_ra2.run_c08, fam_ra2.run_c09):
            f(col, tier, random.Random(seed))
        c06.run_programs(col, tier, random.Random(seed), light=(tier != "thorough"))
        c01.run_impl_only(col, tier, random.Random(seed))
    finally:
        fam_ra2.LIGHT[0] = False
    return col.d


def one_configuration(args):
    """executed in its own process: the index width is a process-wide switch"""
    width, tier, seed = args
    import numpy as np
    from npstructures.raggedshape import ViewBase
    if width == "switch":
        # the property's own scenario: the width is SWITCHED inside a running process. Work under 64 bit first (fills whatever the library caches),
        # then switch and run every family with freshly built objects; results are compared with the pure 64-bit process
        from harness import c01
        c01.run_impl_only(Collect(), tier, random.Random(seed)); fam_ra2.LIGHT[0] = True
        try: fam_ra2.run_c08(Collect(), tier, random.Random(seed))
        finally: fam_ra2.LIGHT[0] = False
        ViewBase.set_dtype(np.int32)
        return None, None, None, families(tier, seed)
    if width == 32:
        os.environ["VERIF_IDX32"] = "1"; ViewBase.set_dtype(np.int32)
    items, lines, impl = c02.collect(tier, random.Random(seed))
    return items, lines, impl, families(tier, seed)


def run(R, tier, rng):
    import sys, concurrent.futures
    assert sys.byteorder == "little"
    seed = rng.random()
    with concurrent.futures.ProcessPoolExecutor(3) as ex:
        (items, lines, impl64, fam64), (items32, lines32, impl32, fam32), (_, _, _, famsw) = list(ex.map(one_configuration, [(64, tier, seed), (32, tier, seed), ("switch", tier, seed)]))
    assert lines == lines32
    for (Rw, idx), line, i64, i32 in zip(items, lines, impl64, impl32):
        R.record(line, i32, i64, i64, len(Rw) >= 2 and idx is not Ellipsis, c02.kind_of(idx), py="RaggedArray(%s)[%r] under ViewBase.set_dtype(np.int32) vs np.int64" % (Rw, idx))
    for case, (i64, nt, kind, py) in fam64.items():
        if case not in fam32:
            R.violation(case, "case missing under the 32-bit configuration"); continue
        R.record(case, fam32[case][0], i64, i64, nt, "w32/" + kind.split("/")[0], py=(py or case) + "   [ViewBase.set_dtype(np.int32) vs np.int64]")
    for case, (i64, nt, kind, py) in fam64.items():
        if case not in famsw:
            R.violation(case, "case missing after switching the width inside the process"); continue
        R.record(case + " [switched in-process]", famsw[case][0], i64, i64, nt, "switch/" + kind.split("/")[0], py=(py or case) + "   [64-bit work first, then ViewBase.set_dtype(np.int32) in the same process, vs a 64-bit process]")
    R.notes["cases_per_configuration"] = len(lines) + len(fam64)


def translator_tie():
    return vlib.translator_tie(["view", "elem"])
