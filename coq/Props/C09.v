(* C09 — property theorems only: each restates the full statement and is closed by the lemma proved in Proofs/. *)
From Coq Require Import ZArith List Bool.
From NPS Require Import ListAux PySlice NumpySem Scatter BuildIdx XorBroadcast View Index Assign Reduce Scan RaOps Heap Hash HashRun BitArr RLE RLEOps RLE2d DataClass RowsSpec AssignSpec MapSpec Denote ColProof ColSum ColMean RaMean Struct2 Struct2Proof.
Import ListNotations.
Open Scope Z_scope.

Theorem C09_col_counts_correct :
  forall lens : list Z,
       all_nonneg lens ->
       ra_col_counts lens =
       map (fun j : Z => cnt (fun l : Z => j <? l) lens) (ap 0 (fold_left Z.max lens (hd 0 lens)) 1).
Proof. exact col_counts_correct. Qed.
Print Assumptions C09_col_counts_correct.

Theorem C09_colsum_correct :
  forall R : list (list Z), ra_colsum (concat R, map zlen R) = spec_colsum R.
Proof. exact colsum_correct. Qed.
Print Assumptions C09_colsum_correct.

Theorem C09_ra_col_mean_correct :
  forall (C : Type) (dv : Z -> Z -> C) (R : list (list Z)),
       ra_col_mean dv (concat R, map zlen R) =
       map
         (fun j : Z =>
          dv (zsum (flat_map (fun r : list Z => if j <? zlen r then [zznth r j] else []) R))
            (cnt (fun l : Z => j <? l) (map zlen R))) (ap 0 (fold_left Z.max (map zlen R) 0) 1).
Proof. exact (@ra_col_mean_correct). Qed.
Print Assumptions C09_ra_col_mean_correct.

Theorem C09_get_column_values_correct :
  forall (A : Type) (d : A) (R : list (list A)) (j : Z),
       0 <= j ->
       spec_getitem R (IRowCol (RMany (RMask (col_mask (map zlen R) j))) (CInt j)) =
       Ok (RFlat (map (fun r : list A => nth (Z.to_nat j) r d) (filter (fun r : list A => j <? zlen r) R))).
Proof. exact (@get_column_values_correct). Qed.
Print Assumptions C09_get_column_values_correct.
