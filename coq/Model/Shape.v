From NPS Require Import ListAux.
Open Scope Z_scope.

(* interleave = np.hstack((a[:,None], b[:,None])).flatten() ; evens/odds = codes[::2], codes[1::2] *)
Fixpoint interleave (a b : list Z) : list Z :=
  match a, b with x :: a', y :: b' => x :: y :: interleave a' b' | _, _ => [] end.
Fixpoint evens (l : list Z) : list Z := match l with x :: _ :: r => x :: evens r | [x] => [x] | [] => [] end.
Fixpoint odds (l : list Z) : list Z := match l with _ :: y :: r => y :: odds r | _ => [] end.

(* np.pad(x, 1, "constant") *)
Definition pad1 (l : list Z) := 0 :: l ++ [0].

(* RaggedShape.__init__(lengths)  (raggedshape.py L247-256 + ViewBase.__init__ L70-80) *)
Definition shape_codes (ls : list Z) : list Z :=
  let starts := removelast (pad1 (removelast (cumsum ls))) in
  match ls with [] => [] | _ => interleave starts ls end.
Definition sh_starts (codes : list Z) := evens codes.
Definition sh_lengths (codes : list Z) := odds codes.
Definition sh_ends (codes : list Z) := map (fun p => fst p + snd p) (combine (sh_starts codes) (sh_lengths codes)).
(* RaggedShape.size L275-279 *)
Definition sh_size (codes : list Z) : Z :=
  match rev (sh_starts codes), rev (sh_lengths codes) with
  | s :: _, l :: _ => s + l
  | _, _ => 0
  end.

Lemma evens_interleave a b : length a = length b -> evens (interleave a b) = a.
Proof.
  revert b; induction a as [|x a IH]; intros [|y b] H; cbn in *; try reflexivity; try discriminate.
  destruct a, b; cbn in *; try discriminate; try reflexivity.
  f_equal. apply (IH (z0 :: b)). cbn. lia.
Qed.
Lemma odds_interleave a b : length a = length b -> odds (interleave a b) = b.
Proof.
  revert b; induction a as [|x a IH]; intros [|y b] H; cbn in *; try reflexivity; try discriminate.
  f_equal. apply IH. lia.
Qed.

Lemma removelast_app1 {A} (l : list A) x : removelast (l ++ [x]) = l.
Proof. apply removelast_last. Qed.

Lemma starts_raw ls : ls <> [] -> removelast (pad1 (removelast (cumsum ls))) = excl_prefix ls.
Proof.
  intros H. unfold pad1, excl_prefix, cumsum.
  rewrite (excl_is_pad_cumsum 0 ls H).
  change (0 :: removelast (cumsum_from 0 ls) ++ [0]) with ((0 :: removelast (cumsum_from 0 ls)) ++ [0]).
  apply removelast_last.
Qed.

Theorem geometry_starts ls : sh_starts (shape_codes ls) = excl_prefix ls.
Proof.
  destruct ls as [|l ls]; [reflexivity|].
  unfold shape_codes, sh_starts. rewrite starts_raw by congruence.
  apply evens_interleave. unfold excl_prefix. apply excl_from_length.
Qed.
Theorem geometry_lengths ls : sh_lengths (shape_codes ls) = ls.
Proof.
  destruct ls as [|l ls]; [reflexivity|].
  unfold shape_codes, sh_lengths. rewrite starts_raw by congruence.
  apply odds_interleave. unfold excl_prefix. apply excl_from_length.
Qed.

Lemma last_excl acc ls l : rev (excl_from acc (ls ++ [l])) = (acc + zsum ls) :: rev (excl_from acc ls).
Proof.
  revert acc; induction ls as [|x ls IH]; intros acc; cbn [app excl_from zsum rev].
  - f_equal; lia.
  - rewrite IH. cbn [app]. f_equal. lia.
Qed.

Theorem geometry_size ls : sh_size (shape_codes ls) = zsum ls.
Proof.
  unfold sh_size. rewrite geometry_starts, geometry_lengths.
  destruct (rev ls) as [|l rl] eqn:E.
  - apply (f_equal (@rev Z)) in E. rewrite rev_involutive in E. subst. reflexivity.
  - apply (f_equal (@rev Z)) in E. rewrite rev_involutive in E. cbn [rev] in E. subst ls.
    unfold excl_prefix. rewrite last_excl.
    rewrite zsum_app. cbn [zsum]. lia.
Qed.
Print Assumptions geometry_size.
