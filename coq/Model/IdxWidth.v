From Coq Require Import ZifyBool.
From NPS Require Import ListAux PySlice NumpySem SelRows BuildIdx XorProof Shape.
Open Scope Z_scope.

(* C19: the int32 configuration.  ViewBase._index_rows (raggedshape.py L160-164) reads each (start, length)
   pair of int32 codes as one little-endian uint64 word, gathers words, and splits them again. *)
Definition pack32 (r : row) : Z := fst r + snd r * 2 ^ 32.
Definition unpack32 (w : Z) : row := (w mod 2 ^ 32, w / 2 ^ 32).
Definition index_rows32 (rows : list row) (s : rowsel) : res (list row) :=
  rmap (map unpack32) (sel_rows s (map pack32 rows)).
Definition index_rows64 (rows : list row) (s : rowsel) : res (list row) := sel_rows s rows.

Definition fits32 (r : row) : Prop := 0 <= fst r < 2 ^ 31 /\ 0 <= snd r < 2 ^ 31.

Lemma unpack_pack r : fits32 r -> unpack32 (pack32 r) = r.
Proof.
  intros [[H1 H2] [H3 H4]]. destruct r as [s l]. unfold unpack32, pack32. cbn [fst snd] in *.
  assert (E : 2 ^ 31 < 2 ^ 32) by reflexivity.
  f_equal.
  - rewrite Z.mod_add by lia. apply Z.mod_small. lia.
  - rewrite Z.div_add by lia. rewrite Z.div_small by lia. lia.
Qed.

Theorem index_rows_width_independent rows s : Forall fits32 rows -> index_rows32 rows s = index_rows64 rows s.
Proof.
  intros H. unfold index_rows32, index_rows64. rewrite sel_rows_map.
  destruct (sel_rows s rows) as [rows'|] eqn:E; cbn [rmap]; [|reflexivity].
  f_equal. rewrite map_map. rewrite <- (map_id rows') at 2. apply map_ext_in. intros r Hr.
  apply unpack_pack. rewrite Forall_forall in H. apply H. eapply sel_rows_In; eauto.
Qed.

(* every number the geometry code computes for an array that fits in int32 stays inside int32 *)
Definition in32 (x : Z) : Prop := - 2 ^ 31 <= x < 2 ^ 31.
Lemma excl_prefix_in32 ls : all_nonneg ls -> zsum ls < 2 ^ 31 -> Forall in32 (excl_prefix ls) /\ Forall in32 (cumsum ls).
Proof.
  intros Hnn Hs. split.
  - eapply Forall_impl; [|apply (XorProof.excl_from_bounds 0 ls Hnn)]. cbn. unfold in32. intros; lia.
  - eapply Forall_impl; [|apply (XorProof.cumsum_from_bounds 0 ls Hnn)]. cbn. unfold in32. intros; lia.
Qed.
Print Assumptions index_rows_width_independent.

(* ---- the geometry arithmetic under a fixed-width index type: `wr` is applied after every addition on an index array ---- *)
Definition wrap32 (x : Z) : Z := (x + 2 ^ 31) mod 2 ^ 32 - 2 ^ 31.          (* two's complement int32 *)
Fixpoint cumsum_from_w (wr : Z -> Z) (acc : Z) (l : list Z) : list Z :=
  match l with [] => [] | x :: xs => wr (acc + x) :: cumsum_from_w wr (wr (acc + x)) xs end.
(* RaggedShape.__init__ with dtype int32: lengths cast, cumsum in int32, pad, interleave *)
Definition shape_codes_w (wr : Z -> Z) (ls : list Z) : list Z :=
  let ls' := map wr ls in
  let starts := removelast (pad1 (removelast (cumsum_from_w wr 0 ls'))) in
  match ls' with [] => [] | _ => interleave starts ls' end.
(* ends = starts + lengths, size = starts[-1] + lengths[-1], ravel_multi_index = starts[row] + col: one addition each *)
Definition add_w (wr : Z -> Z) (a b : Z) : Z := wr (a + b).

Lemma wrap32_id x : in32 x -> wrap32 x = x.
Proof. unfold in32, wrap32. intros H. rewrite Z.mod_small by lia. lia. Qed.

Lemma cumsum_w_id : forall l acc, all_nonneg l -> in32 acc -> 0 <= acc -> acc + zsum l < 2 ^ 31 ->
  cumsum_from_w wrap32 acc l = cumsum_from acc l.
Proof.
  induction l as [|x l IH]; intros acc Hnn Ha Hp Hs; [reflexivity|]. inversion Hnn as [|? ? Hx Hl]; subst.
  pose proof (zsum_nonneg l Hl) as Hz. cbn [zsum] in Hs. cbn [cumsum_from_w cumsum_from].
  assert (E : wrap32 (acc + x) = acc + x) by (apply wrap32_id; unfold in32 in *; lia).
  rewrite E. f_equal. apply IH; [assumption|unfold in32 in *; lia|lia|lia].
Qed.

Theorem shape_codes_width_independent ls : all_nonneg ls -> zsum ls < 2 ^ 31 -> shape_codes_w wrap32 ls = shape_codes ls.
Proof.
  intros Hnn Hs. unfold shape_codes_w, shape_codes.
  assert (Hm : map wrap32 ls = ls).
  { rewrite <- (map_id ls) at 2. apply map_ext_in. intros x Hx. apply wrap32_id.
    assert (0 <= x) by (unfold all_nonneg in Hnn; rewrite Forall_forall in Hnn; now apply Hnn).
    assert (x <= zsum ls).
    { clear -Hx Hnn. induction Hnn as [|y l Hy Hl IH]; [destruct Hx|]. cbn [zsum]. pose proof (zsum_nonneg l Hl). destruct Hx as [->|Hx]; [lia|]. specialize (IH Hx). lia. }
    unfold in32. lia. }
  rewrite Hm. unfold cumsum. rewrite (cumsum_w_id ls 0 Hnn) by (unfold in32; lia). reflexivity.
Qed.

(* every number ends / size / ravel_multi_index add is inside int32, so the wrapped addition is the addition *)
Theorem geometry_additions_width_independent ls : all_nonneg ls -> zsum ls < 2 ^ 31 ->
  Forall (fun sl => add_w wrap32 (fst sl) (snd sl) = fst sl + snd sl) (combine (excl_prefix ls) ls) /\
  (forall i j, 0 <= j -> In (i, j) (combine (excl_prefix ls) ls) -> forall c, 0 <= c < j -> add_w wrap32 i c = i + c).
Proof.
  intros Hnn Hs.
  assert (B : forall acc l, all_nonneg l -> 0 <= acc -> Forall (fun sl => 0 <= fst sl /\ 0 <= snd sl /\ fst sl + snd sl <= acc + zsum l) (combine (excl_from acc l) l)).
  { intros acc l; revert acc; induction l as [|x l IH]; intros acc Hl Ha; [constructor|]. inversion Hl as [|? ? Hx Hl']; subst.
    pose proof (zsum_nonneg l Hl'). cbn [excl_from combine zsum]. constructor; [cbn; lia|].
    eapply Forall_impl; [|apply (IH (acc + x) Hl')]; [|lia]. cbn. intros [a b]; cbn. lia. }
  specialize (B 0 ls Hnn ltac:(lia)). fold (excl_prefix ls) in B. split.
  - eapply Forall_impl; [|exact B]. intros [s l] (H1 & H2 & H3). cbn [fst snd] in *. unfold add_w. apply wrap32_id. unfold in32. lia.
  - intros i j Hj Hin c Hc. rewrite Forall_forall in B. destruct (B _ Hin) as (H1 & H2 & H3). cbn [fst snd] in *.
    unfold add_w. apply wrap32_id. unfold in32. lia.
Qed.
