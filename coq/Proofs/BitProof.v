From Coq Require Import ZifyBool.
From NPS Require Import ListAux PySlice NumpySem BuildIdx Bits BitArr.
Open Scope Z_scope.

(* C13: bit packing is lossless *)

(* ---- a[i::k] ---- *)
Lemma stride_nth_error {X} (k : nat) : (1 <= k)%nat -> forall (l : list X) skip r,
  nth_error (stride_from l skip k) r = nth_error l (skip + r * k).
Proof.
  intros Hk. induction l as [|x l IH]; intros skip r.
  - cbn. destruct r; destruct (skip + _)%nat; reflexivity.
  - destruct skip as [|s]; cbn [stride_from].
    + destruct r as [|r]; [reflexivity|]. cbn [nth_error]. rewrite IH.
      replace (0 + S r * k)%nat with (S (k - 1 + r * k)) by nia. reflexivity.
    + rewrite IH. reflexivity.
Qed.

(* ---- bits[:size] |= xs ---- *)
Lemma or_prefix_length bits xs : length (or_prefix bits xs) = length bits.
Proof. revert xs; induction bits as [|b bits IH]; intros [|x xs]; cbn; auto. Qed.
Lemma or_prefix_nth bits xs r : (length xs <= length bits)%nat ->
  nth r (or_prefix bits xs) 0 = Z.lor (nth r bits 0) (nth r xs 0).
Proof.
  revert xs r; induction bits as [|b bits IH]; intros [|x xs] r H; cbn in H; try lia.
  - destruct r; reflexivity.
  - cbn [or_prefix]. destruct r; cbn; now rewrite Z.lor_0_r.
  - cbn [or_prefix]. destruct r as [|r]; [reflexivity|]. cbn [nth]. apply IH. lia.
Qed.

(* ---- one register: or-ing shifted digits is positional notation ---- *)
Lemma digits_val_snoc b ds d : 0 <= b -> digits_val b (ds ++ [d]) = digits_val b ds + d * 2 ^ (b * Z.of_nat (length ds)).
Proof.
  intros Hb. induction ds as [|x ds IH]; cbn [app digits_val length].
  - change (Z.of_nat 0) with 0. rewrite !Z.mul_0_r, Z.pow_0_r. lia.
  - rewrite IH, Nat2Z.inj_succ. replace (b * Z.succ (Z.of_nat (length ds))) with (b + b * Z.of_nat (length ds)) by lia.
    rewrite Z.pow_add_r by nia. ring.
Qed.

Lemma or_digit b ds d : 0 <= b -> Forall (digit_ok b) ds -> digit_ok b d -> b * Z.of_nat (S (length ds)) <= W ->
  Z.lor (digits_val b ds) (shl64 d (b * Z.of_nat (length ds))) = digits_val b (ds ++ [d]).
Proof.
  intros Hb Hds [Hd1 Hd2] Hw. rewrite digits_val_snoc by assumption.
  pose proof (digits_bound b ds Hb Hds) as Hbd.
  set (s := b * Z.of_nat (length ds)) in *. assert (Hs : 0 <= s) by (unfold s; nia).
  unfold shl64, wrap64. rewrite Z.shiftl_mul_pow2 by assumption.
  assert (Hlt : d * 2 ^ s < 2 ^ W).
  { replace W with ((W - s) + s) by lia. rewrite Z.pow_add_r by (unfold s in *; unfold W in *; nia).
    assert (2 ^ b <= 2 ^ (W - s)) by (apply Z.pow_le_mono_r; unfold s, W in *; nia).
    pose proof (pow_pos s Hs). nia. }
  rewrite Z.mod_small by (pose proof (pow_pos s Hs); nia).
  apply lor_low_high; lia.
Qed.

Lemma shl64_0 s : shl64 0 s = 0.
Proof. unfold shl64, wrap64. now rewrite Z.shiftl_0_l. Qed.
Lemma map_nth0 (f : Z -> Z) l r : f 0 = 0 -> nth r (map f l) 0 = f (nth r l 0).
Proof. intros H. rewrite <- H at 1. apply map_nth. Qed.

(* ---- the packed registers ---- *)
Section Pack.
Variable a : list Z.
Variable b : Z.
Hypothesis Hb : 1 <= b.
Hypothesis Hdiv : b * (W / b) = W.                       (* b divides 64 *)
Hypothesis Ha : Forall (digit_ok b) a.
Let k : nat := Z.to_nat (W / b).

Lemma k_pos : (1 <= k)%nat.
Proof. unfold k. assert (0 < W / b) by (unfold W in *; nia). lia. Qed.
Lemma bk : b * Z.of_nat k = W.
Proof. unfold k. rewrite Z2Nat.id by (unfold W in *; nia). exact Hdiv. Qed.

Definition col (r t : nat) : list Z := map (fun i => nth (r * k + i) a 0) (seq 0 t).
Lemma col_ok r t : Forall (digit_ok b) (col r t).
Proof.
  unfold col. apply Forall_map. apply Forall_forall. intros i _.
  destruct (Nat.lt_ge_cases (r * k + i) (length a)) as [H|H].
  - rewrite Forall_forall in Ha. apply Ha. now apply nth_In.
  - rewrite nth_overflow by assumption. split; [lia|]. apply pow_pos. lia.
Qed.
Lemma col_length r t : length (col r t) = t. Proof. unfold col. now rewrite map_length, seq_length. Qed.

Lemma strided_nth i r : nth r (strided a i k) 0 = nth (i + r * k) a 0.
Proof.
  unfold strided. pose proof (stride_nth_error k k_pos a i r) as H.
  destruct (nth_error (stride_from a i k) r) as [x|] eqn:E.
  - rewrite (nth_error_nth _ _ 0 E). symmetry. now apply nth_error_nth.
  - rewrite nth_overflow by (now apply nth_error_None). symmetry. apply nth_overflow. now apply nth_error_None.
Qed.
Lemma strided_length_iff i r : (r < length (strided a i k))%nat <-> (i + r * k < length a)%nat.
Proof. unfold strided. rewrite <- !nth_error_Some. now rewrite (stride_nth_error k k_pos a i r). Qed.

Definition step (bits : list Z) (i : nat) : list Z :=
  or_prefix bits (map (fun x => shl64 x (b * Z.of_nat i)) (strided a i k)).
Definition R : nat := length (strided a 0 k).
Definition Inv (t : nat) (bits : list Z) : Prop :=
  length bits = R /\ forall r, (r < R)%nat -> nth r bits 0 = digits_val b (col r t).

Lemma Inv_step t bits : (1 <= t < k)%nat -> Inv t bits -> Inv (S t) (step bits t).
Proof.
  intros Ht [Hl Hn]. unfold step. split; [now rewrite or_prefix_length|].
  intros r Hr.
  assert (Hlen : (length (map (fun x => shl64 x (b * Z.of_nat t)) (strided a t k)) <= length bits)%nat).
  { rewrite map_length, Hl. unfold R. destruct (Nat.le_gt_cases (length (strided a t k)) (length (strided a 0 k))) as [H|H]; [exact H|].
    exfalso. assert (H1 : (length (strided a 0 k) < length (strided a t k))%nat) by lia.
    apply strided_length_iff in H1. assert (H2 : ~ (length (strided a 0 k) < length (strided a 0 k))%nat) by lia.
    apply H2. apply strided_length_iff. lia. }
  rewrite or_prefix_nth by exact Hlen. rewrite (Hn r Hr).
  replace (nth r (map (fun x => shl64 x (b * Z.of_nat t)) (strided a t k)) 0) with (shl64 (nth (t + r * k) a 0) (b * Z.of_nat t)).
  2:{ rewrite <- strided_nth. symmetry. apply map_nth0. apply shl64_0. }
  replace (b * Z.of_nat t) with (b * Z.of_nat (length (col r t))) by (now rewrite col_length).
  rewrite or_digit.
  - assert (E : col r (S t) = col r t ++ [nth (t + r * k) a 0]).
    { unfold col. rewrite seq_S, map_app. cbn [map]. replace (r * k + (0 + t))%nat with (t + r * k)%nat by lia. reflexivity. }
    now rewrite E.
  - lia.
  - apply col_ok.
  - destruct (Nat.lt_ge_cases (t + r * k) (length a)) as [H|H].
    + rewrite Forall_forall in Ha. apply Ha. now apply nth_In.
    + rewrite nth_overflow by assumption. split; [lia|]. apply pow_pos. lia.
  - rewrite col_length. pose proof bk. nia.
Qed.

Lemma Inv_fold : forall m t bits, (1 <= t)%nat -> (t + m = k)%nat -> Inv t bits -> Inv k (fold_left step (seq t m) bits).
Proof.
  induction m as [|m IH]; intros t bits Ht Hk HI; cbn [seq fold_left].
  - replace k with t by lia. exact HI.
  - apply (IH (S t)); [lia|lia|]. apply Inv_step; [lia|exact HI].
Qed.

Lemma Inv_init : Inv 1 (strided a 0 k).
Proof.
  split; [reflexivity|]. intros r Hr. unfold col. cbn [seq map digits_val]. rewrite strided_nth.
  rewrite Z.mul_0_r, Z.add_0_r. f_equal. lia.
Qed.

Theorem pack_registers : Inv k (ba_data (pack a b)).
Proof.
  unfold pack. cbn [ba_data]. fold k. change (fold_left _ (seq 1 (k - 1)) (strided a 0 k)) with (fold_left step (seq 1 (k - 1)) (strided a 0 k)).
  apply Inv_fold; [lia|pose proof k_pos; lia|exact Inv_init].
Qed.
End Pack.

(* ---- unpack (pack a b) = a ---- *)
Section Unpack.
Variable a : list Z.
Variable b : Z.
Hypothesis Hb : 1 <= b.
Hypothesis Hdiv : b * (W / b) = W.
Hypothesis Ha : Forall (digit_ok b) a.
Let k : nat := Z.to_nat (W / b).

Lemma shifts_char : shifts b = map (fun i => b * Z.of_nat i) (seq 0 k).
Proof. reflexivity. Qed.

Lemma extract_digit reg ds i : Forall (digit_ok b) ds -> (i < length ds)%nat -> reg = digits_val b ds ->
  Z.land (shr64 reg (b * Z.of_nat i)) (mask_of b) = nth i ds 0.
Proof.
  intros Hds Hi ->. unfold shr64, mask_of. rewrite Z.shiftr_div_pow2 by nia.
  replace (2 ^ b - 1) with (Z.ones b) by (rewrite Z.ones_equiv; lia). rewrite Z.land_ones by lia.
  apply digit_extract; [lia|assumption|assumption].
Qed.

Lemma map_seq_shift {X} (f : nat -> X) s n : map (fun i => f (s + i)%nat) (seq 0 n) = map f (seq s n).
Proof.
  revert s; induction n as [|n IH]; intros s; [reflexivity|]. cbn [seq map]. f_equal; [f_equal; lia|].
  rewrite <- seq_shift, map_map. rewrite <- (IH (S s)). apply map_ext. intros i. f_equal. lia.
Qed.

Lemma seq_flat (R : nat) (f : nat -> Z) :
  flat_map (fun r => map (fun i => f (r * k + i)%nat) (seq 0 k)) (seq 0 R) = map f (seq 0 (R * k)).
Proof.
  induction R as [|R IH]; [reflexivity|]. rewrite seq_S, flat_map_app, IH. cbn [flat_map]. rewrite app_nil_r.
  replace (S R * k)%nat with (R * k + k)%nat by lia. rewrite seq_app, map_app. f_equal.
  cbn [Nat.add]. apply map_seq_shift.
Qed.

Lemma map_nth_seq (l : list Z) n : (length l <= n)%nat -> firstn (length l) (map (fun p => nth p l 0) (seq 0 n)) = l.
Proof.
  revert n; induction l as [|x l IH]; intros n H; [reflexivity|]. destruct n as [|n]; [cbn in H; lia|].
  cbn [length seq map firstn nth]. f_equal. rewrite <- seq_shift, map_map. cbn [nth]. apply IH. cbn in H. lia.
Qed.

Lemma nth_map_seq {X} (f : nat -> X) d n r : (r < n)%nat -> nth r (map f (seq 0 n)) d = f r.
Proof.
  intros H. rewrite (nth_indep _ d (f 0%nat)) by (now rewrite map_length, seq_length).
  rewrite (map_nth f (seq 0 n) 0%nat r). now rewrite seq_nth.
Qed.

Theorem unpack_pack : unpack (pack a b) = a.
Proof.
  pose proof (pack_registers a b Hb Hdiv Ha) as [Hl Hn]. fold k in Hl, Hn.
  unfold unpack. set (p := pack a b) in *.
  assert (Es : ba_stride p = b) by reflexivity. assert (En : ba_len p = zlen a) by reflexivity. rewrite Es, En.
  set (R0 := R a b) in *.
  (* the data is the list of registers *)
  assert (Hdata : ba_data p = map (fun r => digits_val b (col a b r k)) (seq 0 R0)).
  { apply (nth_ext _ _ 0 0); [now rewrite map_length, seq_length|]. intros r Hr. rewrite Hl in Hr.
    rewrite (Hn r Hr). now rewrite nth_map_seq. }
  rewrite Hdata, flat_map_concat_map, map_map, <- flat_map_concat_map.
  assert (Hex : flat_map (fun r => map (fun s => Z.land (shr64 (digits_val b (col a b r k)) s) (mask_of b)) (shifts b)) (seq 0 R0)
                = flat_map (fun r => map (fun i => nth (r * k + i) a 0) (seq 0 k)) (seq 0 R0)).
  { apply flat_map_ext. intros r. rewrite shifts_char, map_map. apply map_ext_in. intros i Hi. apply in_seq in Hi.
    rewrite (extract_digit _ (col a b r k) i); [|apply col_ok; assumption|now rewrite col_length|reflexivity].
    unfold col. fold k. rewrite nth_map_seq by lia. reflexivity. }
  rewrite Hex, (seq_flat R0 (fun p => nth p a 0)).
  unfold ztake, zlen. rewrite Nat2Z.id. apply map_nth_seq.
  (* R0 registers hold at least all elements *)
  destruct (Nat.le_gt_cases (length a) (R0 * k)) as [H|H]; [exact H|]. exfalso.
  assert (H1 : (R0 < length (strided a 0 k))%nat) by (apply (strided_length_iff a b Hb Hdiv); fold k; lia).
  unfold R0, R in H1. fold k in H1. lia.
Qed.

Theorem get_correct idx : 0 <= idx < zlen a -> get (pack a b) idx = Ok (nth (Z.to_nat idx) a 0).
Proof.
  intros Hidx. pose proof (pack_registers a b Hb Hdiv Ha) as [Hl Hn]. fold k in Hl, Hn.
  pose proof (k_pos b Hb Hdiv) as Hk. fold k in Hk.
  assert (HWk : W / b = Z.of_nat k) by (unfold k; rewrite Z2Nat.id; [reflexivity|unfold W in *; nia]).
  unfold get. change (ba_stride (pack a b)) with b. rewrite HWk.
  set (r := Z.to_nat (idx / Z.of_nat k)). set (i := Z.to_nat (idx mod Z.of_nat k)).
  assert (Hq : idx = Z.of_nat (r * k + i)).
  { unfold r, i. pose proof (Z.div_mod idx (Z.of_nat k) ltac:(lia)) as E.
    assert (0 <= idx / Z.of_nat k) by (apply Z.div_pos; lia).
    pose proof (Z.mod_pos_bound idx (Z.of_nat k) ltac:(lia)). rewrite Nat2Z.inj_add, Nat2Z.inj_mul, !Z2Nat.id by lia. lia. }
  assert (Hi : (i < k)%nat) by (unfold i; pose proof (Z.mod_pos_bound idx (Z.of_nat k) ltac:(lia)); lia).
  assert (Hr : (r < R a b)%nat).
  { apply (strided_length_iff a b Hb Hdiv). fold k. unfold zlen in Hidx. lia. }
  unfold np_item, py_index, py_norm_index.
  assert (Hrz : idx / Z.of_nat k = Z.of_nat r) by (unfold r; rewrite Z2Nat.id; [reflexivity|apply Z.div_pos; lia]).
  rewrite Hrz. unfold zlen. rewrite Hl.
  replace ((Z.of_nat r <? - Z.of_nat (R a b)) || (Z.of_nat r >=? Z.of_nat (R a b))) with false by lia.
  replace (Z.of_nat r <? 0) with false by lia. rewrite Nat2Z.id.
  rewrite (nth_error_nth' _ 0) by (rewrite Hl; exact Hr). cbn [rmap]. f_equal.
  rewrite (Hn r Hr).
  replace (idx mod Z.of_nat k * b) with (b * Z.of_nat i) by (unfold i; rewrite Z2Nat.id by (apply Z.mod_pos_bound; lia); lia).
  rewrite (extract_digit _ (col a b r k) i); [|apply col_ok; assumption|now rewrite col_length|reflexivity].
  unfold col. fold k. rewrite nth_map_seq by exact Hi. f_equal. lia.
Qed.
End Unpack.
Print Assumptions unpack_pack.
