(* C16 — property theorems only: each restates the full statement and is closed by the lemma proved in Proofs/. *)
From Coq Require Import ZArith List Bool.
From NPS Require Import ListAux PySlice NumpySem Scatter BuildIdx XorBroadcast View Index Assign Reduce Scan RaOps Heap Hash HashRun BitArr RLE RLEOps RLE2d DataClass RowsSpec AssignSpec MapSpec Denote BinaryProof RLEMisc RLConcat RLEReduce.
Import ListNotations.
Open Scope Z_scope.

Theorem C16_apply_binary_correct :
  forall (A B C : Type) (da : A) (db : B) (ceqb : C -> C -> bool),
       (forall x y : C, ceqb x y = true -> x = y) ->
       forall (f : A -> B -> C) (lsA lsB : list Z) (vA : list A) (vB : list B),
       canon A lsA vA ->
       canon B lsB vB ->
       zsum lsA = zsum lsB ->
       lsA <> [] ->
       lsB <> [] ->
       exists r : rla C,
         apply_binary A B C da db ceqb f (evs lsA, vA) (evs lsB, vB) = Ok r /\
         decode C r = map2 f (spec_broadcast A vA lsA) (spec_broadcast B vB lsB) /\
         CanonProof.no_adj C ceqb (snd r).
Proof. exact apply_binary_correct. Qed.
Print Assumptions C16_apply_binary_correct.

Theorem C16_rl_map_correct :
  forall (A B : Type) (g : A -> B) (r : rla A), decode B (rl_map g r) = map g (decode A r).
Proof. exact (@rl_map_correct). Qed.
Print Assumptions C16_rl_map_correct.

Theorem C16_rl_sum_correct :
  forall r : rla Z,
       all_nonneg (diffs (fst r)) -> length (snd r) = length (diffs (fst r)) -> rl_sum r = zsum (decode Z r).
Proof. exact rl_sum_correct. Qed.
Print Assumptions C16_rl_sum_correct.

Theorem C16_rl_any_correct :
  forall r : rla bool,
       Forall (fun l : Z => 1 <= l) (diffs (fst r)) ->
       length (snd r) = length (diffs (fst r)) -> rl_any r = existsb (fun b : bool => b) (decode bool r).
Proof. exact rl_any_correct. Qed.
Print Assumptions C16_rl_any_correct.

Theorem C16_rl_all_correct :
  forall r : rla bool,
       Forall (fun l : Z => 1 <= l) (diffs (fst r)) ->
       length (snd r) = length (diffs (fst r)) -> rl_all r = forallb (fun b : bool => b) (decode bool r).
Proof. exact rl_all_correct. Qed.
Print Assumptions C16_rl_all_correct.

Theorem C16_rl_max_correct :
  forall r : rla Z,
       Forall (fun l : Z => 1 <= l) (diffs (fst r)) ->
       length (snd r) = length (diffs (fst r)) ->
       snd r <> [] -> match decode Z r with
                      | [] => False
                      | x :: d => rl_max r = fold_left Z.max d x
                      end.
Proof. exact rl_max_correct. Qed.
Print Assumptions C16_rl_max_correct.

Theorem C16_rl_mean_correct :
  forall r : rla Z,
       all_nonneg (diffs (fst r)) ->
       length (snd r) = length (diffs (fst r)) -> fst (rl_mean r) = zsum (decode Z r).
Proof. exact rl_mean_correct. Qed.
Print Assumptions C16_rl_mean_correct.

Theorem C16_rl_hist_correct :
  forall (bin_of : Z -> nat) (nbins : nat) (r : rla Z),
       all_nonneg (diffs (fst r)) ->
       length (snd r) = length (diffs (fst r)) ->
       rl_hist bin_of nbins r = dense_hist bin_of nbins (decode Z r).
Proof. exact rl_hist_correct. Qed.
Print Assumptions C16_rl_hist_correct.

Theorem C16_rl_concat_correct :
  forall (A : Type) (ps : list (list Z * list A)),
       Forall (fun p : list Z * list A => length (snd p) = length (fst p)) ps ->
       rl_concat (map (of_runs1 A) ps) = (evs (concat (map fst ps)), concat (map snd ps)) /\
       decode A (rl_concat (map (of_runs1 A) ps)) =
       concat (map (fun p : list Z * list A => decode A (of_runs1 A p)) ps).
Proof. exact rl_concat_correct. Qed.
Print Assumptions C16_rl_concat_correct.
