From NPS Require Import ListAux PySlice NumpySem Scatter BuildIdx XorBroadcast RLE RLEOps RaOps.
Open Scope Z_scope.

(* C15: the VECTOR branch of RunLengthArray._start_to_end as it is written (runlengtharray.py L540-554): searchsorted on the two bound
   vectors, an empty window cut to no run, ragged_slice of the values and of the boundaries (1-D inputs: every window is cut from the
   same array), the start subtracted row by row, first boundary := 0, last boundary := max(end - start, 0) *)
Definition start_to_end_vec {A} (r : rla A) (ss es : list Z) : res (list (rla A)) :=
  let si := map (fun s => ssr (fst r) s - 1) ss in
  let ei := map2 (fun se si_ => if snd se <=? fst se then si_ else ssl (fst r) (snd se)) (combine ss es) si in
  match ra_ragged_slice_1d (snd r) si ei, ra_ragged_slice_1d (fst r) si (map (Z.add 1) ei) with
  | Ok vals, Ok evs =>
      Ok (map2 (fun (p : (Z * Z) * list Z) (v : list A) =>
                  let '((s, e), ev) := p in
                  (set_last (match map (fun x => x - s) ev with [] => [] | _ :: t => 0 :: t end) (Z.max (e - s) 0), v))
               (combine (combine ss es) (fr_rows evs)) (fr_rows vals))
  | _, _ => Refused
  end.
