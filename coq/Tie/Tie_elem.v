From Coq Require Import ZifyBool.
From NPS Require Import ListAux PySlice NumpySem Scatter BuildIdx View Index Kernels K_elem.
Open Scope Z_scope.
(* Tie 1 for the element path of C02 / C03 (a[i, j], a[rows, cols]): IndexableArray._get_element re-translated from the CURRENT source:
   the refusal test of safe mode and the flat position of a cell are those of Model/Index.v element_flat *)
Lemma tie_get_element (rows : list row) i j :
  element_flat rows i j =
  if i >=? zlen rows then Refused else
  match np_item rows i with
  | Refused => Refused
  | Ok (s, L) => match gen_get_element i j (zlen rows) L s with Some (f, _) => Ok f | None => Refused end
  end.
Proof.
  unfold element_flat, gen_get_element. cbv zeta. destruct (i >=? zlen rows) eqn:Ei; [reflexivity|].
  destruct (np_item rows i) as [[s L]|]; [|reflexivity].
  change (negb (1 =? 0)) with true. cbn [andb]. replace (i >=? zlen rows) with false by lia. cbn [orb].
  brk; try reflexivity; try lia; f_equal; lia.
Qed.
