From NPS Require Import ListAux PySlice Scatter BuildIdx XorBroadcast.
Open Scope Z_scope.

(* C14: RunLengthArray.from_array / to_array (runlengtharray.py L267-285, L320-346) *)
Section RLE.
Variable A : Type.
Variable dflt : A.                       (* np.zeros_like element used by unsafe_extend_left/right *)
Variable neqb : A -> A -> bool.          (* numpy's elementwise != *)

(* np.flatnonzero *)
Fixpoint fnz_from (off : Z) (m : list bool) : list Z :=
  match m with [] => [] | b :: r => if b then off :: fnz_from (off + 1) r else fnz_from (off + 1) r end.
Definition flatnonzero := fnz_from 0.

Definition set_first {X} (l : list X) (v : X) := match l with [] => [] | _ :: r => v :: r end.
Definition set_last {X} (l : list X) (v : X) := match l with [] => [] | _ => removelast l ++ [v] end.

Definition from_array (a : list A) : list Z * list A :=
  let mask := map2 neqb (dflt :: a) (a ++ [dflt]) in
  let mask := set_last (set_first mask true) true in       (* mask[0], mask[-1] = True, True *)
  let indices := flatnonzero mask in
  (indices, map (znth dflt a) (removelast indices)).

Definition diffs (ev : list Z) : list Z := map2 Z.sub (tl ev) (removelast ev).
Definition decode (r : list Z * list A) : list A := spec_broadcast A (snd r) (diffs (fst r)).

(* canonical form *)
Fixpoint strictly_increasing (l : list Z) : Prop :=
  match l with x :: ((y :: _) as r) => x < y /\ strictly_increasing r | _ => True end.
Definition Canon1 (r : list Z * list A) (n : Z) : Prop :=
  hd (-1) (fst r) = 0 /\ last (fst r) (-1) = n /\ strictly_increasing (fst r) /\ length (fst r) = S (length (snd r)).
Fixpoint no_adjacent_equal (l : list A) : Prop :=
  match l with x :: ((y :: _) as r) => neqb x y = true /\ no_adjacent_equal r | _ => True end.
Definition Canon2 r n := Canon1 r n /\ no_adjacent_equal (snd r).
End RLE.

Example fa1 : from_array Z 0 (fun x y => negb (x =? y)) [1;1;2;2;2;3] = ([0;2;5;6], [1;2;3]). Proof. reflexivity. Qed.
Example fa2 : from_array Z 0 (fun x y => negb (x =? y)) [0;0] = ([0;2], [0]). Proof. reflexivity. Qed.
Example fa3 : from_array Z 0 (fun x y => negb (x =? y)) [7] = ([0;1], [7]). Proof. reflexivity. Qed.
Example fa4 : decode Z (from_array Z 0 (fun x y => negb (x =? y)) [1;1;2;2;2;3]) = [1;1;2;2;2;3]. Proof. reflexivity. Qed.
