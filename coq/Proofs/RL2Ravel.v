From Coq Require Import ZifyBool.
From NPS Require Import ListAux PySlice NumpySem Scatter BuildIdx XorBroadcast XorProof RLE RLEProof RLEOps RaOps RLE2d BinaryProof StepNeg RL2Proof RL2Col RLConcat.
Open Scope Z_scope.

(* C17: ravel of a ragged run-length array is the concatenation of its rows, as one canonical run-length array *)
Lemma map2_combine' {X Y W} (f : X -> Y -> W) a b : map (fun p => f (fst p) (snd p)) (combine a b) = map2 f a b.
Proof. revert b; induction a as [|x a IH]; intros [|y b]; cbn; try reflexivity. now rewrite IH. Qed.

Theorem rl2_ravel_correct (rows : list (list Z * list Z)) : Forall (fun p => length (snd p) = length (fst p)) rows ->
  rl2_ravel (of_runs rows) = (evs (concat (map fst rows)), concat (map snd rows))
  /\ decode Z (rl2_ravel (of_runs rows)) = concat (rl2_decode (of_runs rows)).
Proof.
  intros H. destruct (rl_concat_correct Z rows H) as [E D].
  assert (Er : rl2_ravel (of_runs rows) = rl_concat (map (of_runs1 Z) rows)).
  { unfold rl2_ravel, rl_concat, of_runs. cbn [r_idx r_val]. rewrite !map_map. f_equal.
    - f_equal.
      + assert (Hl : map (fun x => last (evs (fst x)) 0) rows = map (fun x => rl_len (of_runs1 Z x)) rows).
        { apply map_ext. intros p. unfold of_runs1. rewrite rl_len_evs'. unfold evs. apply last_last. }
        rewrite Hl. set (offs := excl_prefix (map (fun x => rl_len (of_runs1 Z x)) rows)).
        clearbody offs. clear. revert offs. induction rows as [|p rows IH]; intros [|o offs]; cbn [map combine flat_map]; try reflexivity.
        cbn [fst snd of_runs1]. f_equal. apply IH.
      + f_equal. clear. induction rows as [|p rows IH]; [reflexivity|]. cbn [map zsum]. rewrite IH. f_equal.
        unfold of_runs1. rewrite rl_len_evs'. unfold evs. apply last_last.
    - rewrite flat_map_concat_map, map_map. reflexivity. }
  rewrite Er. split; [exact E|]. rewrite D. f_equal.
  unfold rl2_decode, rl2_rows, of_runs. cbn [r_idx r_val r_len]. rewrite <- map2_combine', map_map.
  clear. induction rows as [|[ls vs] rows IH]; [reflexivity|]. cbn [map combine fst snd]. f_equal. exact IH.
Qed.
Print Assumptions rl2_ravel_correct.
