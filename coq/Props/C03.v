(* C03 — property theorems only: each restates the full statement and is closed by the lemma proved in Proofs/. *)
From Coq Require Import ZArith List Bool.
From NPS Require Import ListAux PySlice NumpySem Scatter BuildIdx XorBroadcast View Index Assign Reduce Scan RaOps Heap Hash HashRun BitArr RLE RLEOps RLE2d DataClass RowsSpec AssignSpec MapSpec Denote SetItem XorProof.
Import ListNotations.
Open Scope Z_scope.

Theorem C03_setitem_correct :
  forall (A : Type) (dflt : A) (xor : A -> A -> A),
       (forall a b c : A, xor a (xor b c) = xor (xor a b) c) ->
       (forall a b : A, xor a b = xor b a) ->
       (forall a : A, xor a a = dflt) ->
       (forall a : A, xor dflt a = a) ->
       forall (a : ra A) (idx : index) (v : value A),
       WF A a ->
       GetItem.index_ok A (denote A dflt a) idx ->
       rbind (setitem A dflt xor a idx v) rows_of = spec_setitem (denote A dflt a) idx v.
Proof. exact setitem_correct. Qed.
Print Assumptions C03_setitem_correct.

Theorem C03_getitem_factor :
  forall A : Type,
       A ->
       forall (a : ra A) (idx : index),
       WF A a ->
       GetItem.model_obs A a idx =
       rbind (pre A a idx) (fun a0 : ra A => rbind (resolve a0 idx) (gather_target A a0)).
Proof. exact getitem_factor. Qed.
Print Assumptions C03_getitem_factor.

Theorem C03_resolve_cells :
  forall (A : Type) (dflt : A) (a' : ra A) (idx : index),
       WF A a' ->
       MaterialiseWF.is_contig (ra_geom a') ->
       GetItem.index_ok A (denote A dflt a') idx ->
       spec_getitem (tagged (denote A dflt a')) idx =
       match resolve a' idx with
       | Ok t => Ok (cells_of t)
       | Refused => Refused
       end.
Proof. exact resolve_cells. Qed.
Print Assumptions C03_resolve_cells.

Theorem C03_raw_broadcast_correct :
  forall (G : Type) (zero : G) (xor : G -> G -> G),
       (forall a b c : G, xor a (xor b c) = xor (xor a b) c) ->
       (forall a b : G, xor a b = xor b a) ->
       (forall a : G, xor a a = zero) ->
       (forall a : G, xor zero a = a) ->
       forall (vals : list G) (ls : list Z),
       length vals = length ls ->
       all_nonneg ls -> raw_broadcast G zero xor vals ls = spec_broadcast G vals ls.
Proof. exact raw_broadcast_correct. Qed.
Print Assumptions C03_raw_broadcast_correct.
