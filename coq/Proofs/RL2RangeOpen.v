From Coq Require Import ZifyBool.
From NPS Require Import ListAux PySlice NumpySem Scatter BuildIdx SliceAP XorBroadcast RLE RLEProof RLEOps CanonProof BinaryProof RLEIndex SubRange StartEnd GetSlice StepProof RLE2d RL2Col RL2Range RL2RangeStep.
Open Scope Z_scope.

(* C17: positive-step column ranges with any bounds (open, beyond the row, counted from the row end) *)

Definition clampL (L b : Z) : Z := if b >=? 0 then Z.min L b else Z.max 0 (L + b).

(* both bounds given, any values: the cut is the 1-D cut at the clamped bounds *)
Lemma col_range_row_pos_clamp ev vs a b k : 1 <= k -> strictly_increasing (0 :: ev) -> length ev = length vs ->
  let L := last (0 :: ev) 0 in clampL L a < clampL L b ->
  col_range_row (Some a) (Some b) k (0 :: ev) vs
  = Some (let S := start_to_end Z (0 :: ev, vs) (clampL L a) (clampL L b) in step_subset_row k (fst S) (snd S)).
Proof.
  intros Hk Hs Hlen L Hab. unfold col_range_row. cbv zeta.
  replace (k <? 0) with false by lia. cbv iota. cbn [option_map]. fold L.
  change (if b >=? 0 then Z.min L b else Z.max 0 (L + b)) with (clampL L b).
  change (if a >=? 0 then Z.min L a else Z.max 0 (L + a)) with (clampL L a).
  assert (HL : 0 <= L).
  { unfold L. destruct ev as [|e1 ev']; [cbn; lia|]. change (last (0 :: e1 :: ev') 0) with (last (e1 :: ev') 0).
    pose proof (si_all_gt (e1 :: ev') 0 Hs) as Hg. rewrite Forall_forall in Hg. specialize (Hg _ (last_In_ne (e1 :: ev') 0 ltac:(discriminate))). lia. }
  set (a' := clampL L a) in *. set (b' := clampL L b) in *.
  assert (Ha' : 0 <= a' <= L) by (unfold a', clampL; destruct (a >=? 0) eqn:?; lia).
  assert (Hb' : 0 <= b' <= L) by (unfold b', clampL; destruct (b >=? 0) eqn:?; lia).
  rewrite (find_run_stop ev 0 b' Hs) by (fold L; lia). rewrite (find_run_start ev 0 a' Hs) by (fold L; lia).
  cbn [orb]. unfold cut_row. cbn [option_map].
  set (E := 0 :: ev) in *. set (si := ssr E a' - 1). set (ei := ssl E b').
  assert (Hev : ev <> []) by (intros ->; unfold L, E in *; cbn in *; lia).
  assert (Hsi0 : 0 <= si) by (unfold si, E; rewrite ssr_cons; pose proof (ssr_nonneg ev a'); replace (0 <=? a') with true by lia; lia).
  assert (Hsiei : si + 1 <= ei) by (unfold si, ei; pose proof (ssr_le_ssl E a' b' ltac:(lia)); lia).
  assert (Heilen : ei <= zlen ev).
  { unfold ei, E. rewrite ssl_cons. replace (0 <? b') with true by lia.
    assert (Hin : In (last ev 0) ev) by (apply last_In_ne; exact Hev).
    assert (Hl : L = last ev 0) by (unfold L, E; destruct ev; [congruence|reflexivity]).
    pose proof (ssl_lt_len ev b' (last ev 0) Hin ltac:(lia)). lia. }
  assert (HzE : zlen E = zlen ev + 1) by (unfold E, zlen; cbn [length]; lia).
  assert (Hzv : zlen vs = zlen ev) by (unfold zlen; lia).
  replace (ei - 1 + 2) with (ei + 1) by lia. replace (ei - 1 + 1) with ei by lia.
  rewrite (Z.max_r (si + 1) (ei + 1)) by lia. rewrite (Z.max_r si ei) by lia.
  replace (si >=? ei + 1) with false by lia.
  rewrite (win_is_slice E si (ei + 1)) by lia. rewrite (win_is_slice vs si ei) by lia.
  cbn [fst snd].
  assert (HX : (2 <= length (zslice_l E si (ei + 1)))%nat).
  { pose proof (zslice_l_length E si (ei + 1) ltac:(lia) ltac:(lia) ltac:(lia)) as Hlx. unfold zlen in Hlx. lia. }
  rewrite (rebase_cut _ a' b' HX).
  unfold start_to_end. cbn [fst snd]. fold si ei. cbv zeta.
  destruct (step_subset_row k _ _) as [i v]. reflexivity.
Qed.

(* ---------- open bounds: None = the explicit bound 0 / row length ---------- *)
Lemma L_nonneg ev : strictly_increasing (0 :: ev) -> 0 <= last (0 :: ev) 0.
Proof.
  intros Hs. destruct ev as [|e1 ev']; [cbn; lia|]. change (last (0 :: e1 :: ev') 0) with (last (e1 :: ev') 0).
  pose proof (si_all_gt (e1 :: ev') 0 Hs) as Hg. rewrite Forall_forall in Hg. specialize (Hg _ (last_In_ne (e1 :: ev') 0 ltac:(discriminate))). lia.
Qed.
Lemma ssr_zero ev : strictly_increasing (0 :: ev) -> ssr (0 :: ev) 0 = 1.
Proof.
  intros Hs. rewrite ssr_cons. replace (0 <=? 0) with true by lia. unfold ssr. rewrite filter_le_all_gt; [reflexivity|].
  eapply Forall_impl; [|apply (si_all_gt ev 0 Hs)]. cbn; intros; lia.
Qed.
Lemma ssl_last ev : strictly_increasing (0 :: ev) -> ev <> [] -> ssl (0 :: ev) (last (0 :: ev) 0) = zlen ev.
Proof.
  intros Hs Hne. set (L := last (0 :: ev) 0).
  assert (HL : L = last ev 0) by (unfold L; destruct ev; [congruence|reflexivity]).
  (* every element but the last is < L, the last is not *)
  unfold ssl.
  assert (G : forall l x, strictly_increasing (x :: l) -> l <> [] -> zlen (filter (fun y => y <? last l 0) (x :: l)) = zlen l).
  { induction l as [|y l IH]; intros x H Hn; [congruence|]. destruct H as [Hxy H]. destruct l as [|y' l'].
    - cbn [last filter]. replace (x <? y) with true by lia. replace (y <? y) with false by lia. reflexivity.
    - specialize (IH y H ltac:(discriminate)). change (last (y :: y' :: l') 0) with (last (y' :: l') 0) in *.
      cbn [filter] in *. assert (x < last (y' :: l') 0).
      { pose proof (si_all_gt (y' :: l') y H) as Hg. rewrite Forall_forall in Hg. specialize (Hg _ (last_In_ne (y' :: l') 0 ltac:(discriminate))). lia. }
      replace (x <? last (y' :: l') 0) with true by lia. unfold zlen in *. cbn [length] in *. lia. }
  unfold L in *. rewrite HL. exact (G ev 0 Hs Hne).
Qed.

Lemma set_first_same (X : list Z) a : hd 0 X = a -> set_first_z X a = X.
Proof. destruct X as [|x X]; cbn; [reflexivity|]. intros ->. reflexivity. Qed.
Lemma set_last_same (X : list Z) b : X <> [] -> last X 0 = b -> set_last_z X b = X.
Proof. intros Hne <-. unfold set_last_z. destruct X as [|x X]; [congruence|]. symmetry. apply app_removelast_last. discriminate. Qed.
Lemma hd_set_last (X : list Z) b : (2 <= length X)%nat -> hd 0 (set_last_z X b) = hd 0 X.
Proof. destruct X as [|x0 [|x1 X']]; cbn [length]; try lia. reflexivity. Qed.
Lemma hd_zslice_0 (E : list Z) e : 1 <= e -> E <> [] -> hd 0 (zslice_l E 0 e) = hd 0 E.
Proof.
  intros He Hne. unfold zslice_l, ztake, zdrop. cbn [Z.to_nat skipn]. destruct E as [|x E]; [congruence|].
  replace (Z.to_nat (e - 0)) with (S (Z.to_nat (e - 1))) by lia. reflexivity.
Qed.
Lemma last_app_ne {X} (a b : list X) d : b <> [] -> last (a ++ b) d = last b d.
Proof.
  intros Hb. induction a as [|x a IH]; [reflexivity|]. cbn [app].
  assert (Hne : a ++ b <> []) by (destruct a; [exact Hb|discriminate]).
  destruct (a ++ b) as [|y l] eqn:E; [congruence|]. exact IH.
Qed.
Lemma last_zslice_end (E : list Z) s : 0 <= s < zlen E -> last (zslice_l E s (zlen E)) 0 = last E 0.
Proof.
  intros Hs. unfold zslice_l, ztake, zdrop. rewrite firstn_all2 by (rewrite skipn_length; unfold zlen in *; lia).
  rewrite <- (firstn_skipn (Z.to_nat s) E) at 2. rewrite last_app_ne; [reflexivity|].
  intros Hn. apply (f_equal (@length Z)) in Hn. rewrite skipn_length in Hn. unfold zlen in *. cbn in Hn. lia.
Qed.

(* start=None: from the first element *)
Lemma col_range_row_pos_nostart ev vs b k : 1 <= k -> strictly_increasing (0 :: ev) -> length ev = length vs ->
  let L := last (0 :: ev) 0 in 0 < clampL L b ->
  col_range_row None (Some b) k (0 :: ev) vs
  = Some (let S := start_to_end Z (0 :: ev, vs) 0 (clampL L b) in step_subset_row k (fst S) (snd S)).
Proof.
  intros Hk Hs Hlen L Hab. unfold col_range_row. cbv zeta.
  replace (k <? 0) with false by lia. cbv iota. cbn [option_map]. fold L.
  change (if b >=? 0 then Z.min L b else Z.max 0 (L + b)) with (clampL L b).
  pose proof (L_nonneg ev Hs) as HL. fold L in HL.
  set (b' := clampL L b) in *.
  assert (Hb' : 0 <= b' <= L) by (unfold b', clampL; destruct (b >=? 0) eqn:?; lia).
  rewrite (find_run_stop ev 0 b' Hs) by (fold L; lia).
  cbn [orb]. unfold cut_row. cbn [option_map].
  set (E := 0 :: ev) in *. set (ei := ssl E b').
  assert (Hsi : ssr E 0 - 1 = 0) by (unfold E; rewrite (ssr_zero ev Hs); lia).
  assert (Hev : ev <> []) by (intros ->; unfold L, E in *; cbn in *; lia).
  assert (Hsiei : 1 <= ei) by (unfold ei; pose proof (ssr_le_ssl E 0 b' ltac:(lia)); lia).
  assert (Heilen : ei <= zlen ev).
  { unfold ei, E. rewrite ssl_cons. replace (0 <? b') with true by lia.
    assert (Hin : In (last ev 0) ev) by (apply last_In_ne; exact Hev).
    assert (Hl : L = last ev 0) by (unfold L, E; destruct ev; [congruence|reflexivity]).
    pose proof (ssl_lt_len ev b' (last ev 0) Hin ltac:(lia)). lia. }
  assert (HzE : zlen E = zlen ev + 1) by (unfold E, zlen; cbn [length]; lia).
  assert (Hzv : zlen vs = zlen ev) by (unfold zlen; lia).
  replace (ei - 1 + 2) with (ei + 1) by lia. replace (ei - 1 + 1) with ei by lia.
  rewrite (win_is_slice E 0 (ei + 1)) by lia. rewrite (win_is_slice vs 0 ei) by lia.
  cbn [fst snd].
  set (W := zslice_l E 0 (ei + 1)).
  assert (HX : (2 <= length W)%nat).
  { pose proof (zslice_l_length E 0 (ei + 1) ltac:(lia) ltac:(lia) ltac:(lia)) as Hlx. unfold W, zlen in *. lia. }
  assert (Hh : hd 0 (set_last_z W b') = 0).
  { rewrite (hd_set_last W b' HX). unfold W. rewrite (hd_zslice_0 E (ei + 1) ltac:(lia) ltac:(discriminate)). reflexivity. }
  assert (Es : set_last_z W b' = set_first_z (set_last_z W b') 0) by (symmetry; apply set_first_same; exact Hh).
  rewrite Es. rewrite (rebase_cut W 0 b' HX).
  unfold start_to_end. cbn [fst snd]. rewrite Hsi. fold ei. cbv zeta. fold W.
  destruct (step_subset_row k _ _) as [i v]. reflexivity.
Qed.

(* stop=None: to the last element *)
Lemma col_range_row_pos_nostop ev vs a k : 1 <= k -> strictly_increasing (0 :: ev) -> length ev = length vs ->
  let L := last (0 :: ev) 0 in clampL L a < L ->
  col_range_row (Some a) None k (0 :: ev) vs
  = Some (let S := start_to_end Z (0 :: ev, vs) (clampL L a) L in step_subset_row k (fst S) (snd S)).
Proof.
  intros Hk Hs Hlen L Hab. unfold col_range_row. cbv zeta.
  replace (k <? 0) with false by lia. cbv iota. cbn [option_map]. fold L.
  change (if a >=? 0 then Z.min L a else Z.max 0 (L + a)) with (clampL L a).
  pose proof (L_nonneg ev Hs) as HL. fold L in HL.
  set (a' := clampL L a) in *.
  assert (Ha' : 0 <= a' <= L) by (unfold a', clampL; destruct (a >=? 0) eqn:?; lia).
  rewrite (find_run_start ev 0 a' Hs) by (fold L; lia).
  cbn [orb]. unfold cut_row. cbn [option_map].
  set (E := 0 :: ev) in *. set (si := ssr E a' - 1).
  assert (Hev : ev <> []) by (intros ->; unfold L, E in *; cbn in *; lia).
  assert (Hei : ssl E L = zlen ev) by (unfold E, L; apply ssl_last; assumption).
  assert (Hsi0 : 0 <= si) by (unfold si, E; rewrite ssr_cons; pose proof (ssr_nonneg ev a'); replace (0 <=? a') with true by lia; lia).
  assert (Hsiei : si + 1 <= zlen ev) by (unfold si; pose proof (ssr_le_ssl E a' L ltac:(lia)); lia).
  assert (HzE : zlen E = zlen ev + 1) by (unfold E, zlen; cbn [length]; lia).
  assert (Hzv : zlen vs = zlen ev) by (unfold zlen; lia).
  rewrite (win_is_slice E si (zlen E)) by lia. rewrite (win_is_slice vs si (zlen vs)) by lia.
  cbn [fst snd].
  set (W := zslice_l E si (zlen E)).
  assert (HX : (2 <= length W)%nat).
  { pose proof (zslice_l_length E si (zlen E) ltac:(lia) ltac:(lia) ltac:(lia)) as Hlx. unfold W, zlen in *. lia. }
  assert (Hl : last W 0 = L) by (unfold W; rewrite (last_zslice_end E si ltac:(lia)); reflexivity).
  assert (Es : W = set_last_z W L) by (symmetry; apply set_last_same; [intros Hn; rewrite Hn in HX; cbn in HX; lia|exact Hl]).
  rewrite Es. rewrite (rebase_cut W a' L HX).
  unfold start_to_end. cbn [fst snd]. fold si. rewrite Hei. cbv zeta. rewrite <- HzE, <- Hzv at 1. fold W.
  destruct (step_subset_row k _ _) as [i v]. reflexivity.
Qed.

(* both bounds open: the whole row *)
Lemma zslice_all {X} (l : list X) : zslice_l l 0 (zlen l) = l.
Proof. unfold zslice_l, ztake, zdrop, zlen. cbn [Z.to_nat skipn]. rewrite Z.sub_0_r, Nat2Z.id. apply firstn_all. Qed.
Lemma start_to_end_whole ev vs : strictly_increasing (0 :: ev) -> length ev = length vs -> ev <> [] ->
  start_to_end Z (0 :: ev, vs) 0 (last (0 :: ev) 0) = (0 :: ev, vs).
Proof.
  intros Hs Hlen Hne. unfold start_to_end. cbn [fst snd]. rewrite (ssr_zero ev Hs), (ssl_last ev Hs Hne). cbv zeta.
  replace (1 - 1) with 0 by lia.
  assert (Hzv : zlen ev = zlen vs) by (unfold zlen; lia).
  assert (HzE : zlen ev + 1 = zlen (0 :: ev)) by (unfold zlen; cbn [length]; lia).
  replace (zslice_l vs 0 (zlen ev)) with vs by (rewrite Hzv; symmetry; apply zslice_all).
  replace (zslice_l (0 :: ev) 0 (zlen ev + 1)) with (0 :: ev) by (rewrite HzE; symmetry; apply zslice_all).
  rewrite (map_ext (fun x => x - 0) (fun x => x)) by (intros; lia). rewrite map_id. rewrite Z.sub_0_r.
  f_equal. unfold RLEOps.set_last. change (removelast (0 :: ev) ++ [last (0 :: ev) 0] = 0 :: ev). symmetry. apply app_removelast_last. discriminate.
Qed.
Lemma col_range_row_pos_open2 ev vs k : 1 <= k -> strictly_increasing (0 :: ev) -> length ev = length vs -> ev <> [] ->
  col_range_row None None k (0 :: ev) vs
  = Some (let S := start_to_end Z (0 :: ev, vs) 0 (last (0 :: ev) 0) in step_subset_row k (fst S) (snd S)).
Proof.
  intros Hk Hs Hlen Hne. rewrite (start_to_end_whole ev vs Hs Hlen Hne). cbv zeta. cbn [fst snd].
  unfold col_range_row. cbv zeta. replace (k <? 0) with false by lia. cbv iota. cbn [option_map orb]. unfold cut_row.
  cbn [fst snd]. destruct (step_subset_row k (0 :: ev) vs) as [i v]. reflexivity.
Qed.

(* one statement for the four combinations: the bounds Python's slice.indices would give *)
Definition lo (L : Z) (o : option Z) : Z := match o with Some a => clampL L a | None => 0 end.
Definition hi (L : Z) (o : option Z) : Z := match o with Some b => clampL L b | None => L end.
Lemma col_range_row_pos_any ev vs (start stop : option Z) k : 1 <= k -> strictly_increasing (0 :: ev) -> length ev = length vs ->
  let L := last (0 :: ev) 0 in lo L start < hi L stop ->
  col_range_row start stop k (0 :: ev) vs
  = Some (let S := start_to_end Z (0 :: ev, vs) (lo L start) (hi L stop) in step_subset_row k (fst S) (snd S)).
Proof.
  intros Hk Hs Hlen L H. destruct start as [a|]; destruct stop as [b|]; cbn [lo hi] in *.
  - now apply col_range_row_pos_clamp.
  - now apply col_range_row_pos_nostop.
  - now apply col_range_row_pos_nostart.
  - apply col_range_row_pos_open2; try assumption. intros ->. unfold L in H. cbn in H. lia.
Qed.

(* ---------- the whole array, any positive-step slice that is non-empty in every row: Python's slice of every dense row ---------- *)
Lemma lo_is_py_start L sl : 0 <= L -> 1 <= step_of sl -> lo L (sl_start sl) = py_start L sl.
Proof.
  intros HL Hk. unfold py_start, adj, lo, clampL. replace (step_of sl <? 0) with false by lia. destruct (sl_start sl) as [v|]; [|reflexivity].
  destruct (v >=? 0) eqn:E1; destruct (v <? 0) eqn:E2; try lia.
  - destruct (v >=? L) eqn:E3; lia.
  - destruct (v + L <? 0) eqn:E3; lia.
Qed.
Lemma hi_is_py_stop L sl : 0 <= L -> 1 <= step_of sl -> hi L (sl_stop sl) = py_stop L sl.
Proof.
  intros HL Hk. unfold py_stop, adj, hi, clampL. replace (step_of sl <? 0) with false by lia. destruct (sl_stop sl) as [v|]; [|reflexivity].
  destruct (v >=? 0) eqn:E1; destruct (v <? 0) eqn:E2; try lia.
  - destruct (v >=? L) eqn:E3; lia.
  - destruct (v + L <? 0) eqn:E3; lia.
Qed.

Theorem rl2_col_range_pos (rows : list (list Z * list Z)) (sl : pyslice) : 1 <= step_of sl ->
  Forall (fun p => canon Z (fst p) (snd p) /\ 0 < py_count (zsum (fst p)) sl) rows ->
  exists y, rl2_col_range (of_runs rows) sl = Ok y /\ rl2_decode y = map (fun d => py_getslice 0 d sl) (rl2_decode (of_runs rows)).
Proof.
  intros Hk H. set (k := step_of sl) in *.
  (* per row *)
  assert (Hrow : forall p, In p rows -> exists iv, col_range_row (sl_start sl) (sl_stop sl) k (evs (fst p)) (snd p) = Some iv /\
            decode Z iv = py_getslice 0 (decode Z (evs (fst p), snd p)) sl /\ lo (zsum (fst p)) (sl_start sl) < hi (zsum (fst p)) (sl_stop sl)).
  { intros [ls vs] Hp. rewrite Forall_forall in H. destruct (H _ Hp) as ([Hl Hlen] & Hcnt). cbn [fst snd] in *.
    assert (Hnn : 0 <= zsum ls) by (apply zsum_nonneg; eapply Forall_impl; [|exact Hl]; cbn; intros; lia).
    set (n := zsum ls) in *. set (s0 := py_start n sl). set (e0 := py_stop n sl).
    assert (Hse : s0 < e0). { unfold py_count in Hcnt. fold k s0 e0 in Hcnt. replace (k <? 0) with false in Hcnt by lia. destruct (s0 <? e0) eqn:E; lia. }
    assert (Hs0 : 0 <= s0 <= n).
    { unfold s0, py_start, adj. fold k. replace (k <? 0) with false by lia. destruct (sl_start sl) as [v|]; [|lia].
      destruct (v <? 0) eqn:?; [destruct (v + n <? 0) eqn:?; lia|destruct (v >=? n) eqn:?; lia]. }
    assert (He0 : 0 <= e0 <= n).
    { unfold e0, py_stop, adj. fold k. replace (k <? 0) with false by lia. destruct (sl_stop sl) as [v|]; [|lia].
      destruct (v <? 0) eqn:?; [destruct (v + n <? 0) eqn:?; lia|destruct (v >=? n) eqn:?; lia]. }
    assert (Hne : ls <> []) by (intros ->; unfold n in *; cbn in *; lia).
    destruct (evs_cons ls Hne) as (ev & Eev & Hlev). rewrite Eev.
    assert (Hsi : strictly_increasing (0 :: ev)).
    { rewrite <- Eev. unfold evs, excl_prefix. replace (zsum ls) with (0 + zsum ls) by lia. apply (si_evs_gen Z 0 Z.eqb (fun x y Hxy => proj1 (Z.eqb_eq x y) Hxy)). exact Hl. }
    assert (Hlast : last (0 :: ev) 0 = n) by (rewrite <- Eev; unfold evs; apply last_last).
    pose proof (col_range_row_pos_any ev vs (sl_start sl) (sl_stop sl) k Hk Hsi ltac:(lia)) as Hc. cbv zeta in Hc. rewrite Hlast in Hc.
    rewrite (lo_is_py_start n sl Hnn Hk), (hi_is_py_stop n sl Hnn Hk) in Hc. fold s0 e0 in Hc. specialize (Hc Hse). rewrite Hc.
    rewrite (lo_is_py_start n sl Hnn Hk), (hi_is_py_stop n sl Hnn Hk). fold s0 e0.
    pose proof (start_to_end_decode Z ev vs 0 s0 e0 ltac:(lia) Hsi ltac:(lia) ltac:(lia) ltac:(lia)) as Hd.
    pose proof (start_to_end_shape Z ev vs 0 s0 e0 ltac:(lia) Hsi ltac:(lia) ltac:(lia) ltac:(lia)) as Hsh.
    destruct (shape_runs Z 0 Z.eqb (fun x y Hxy => proj1 (Z.eqb_eq x y) Hxy) _ _ Hsh) as (ls' & E1 & Hc' & Hz' & Hne').
    destruct (start_to_end Z (0 :: ev, vs) s0 e0) as [se sv] eqn:Est. cbn [fst snd] in *. subst se.
    eexists. split; [reflexivity|]. split; [|exact Hse].
    rewrite (step_subset_row_decode k ls' sv Hk Hc' Hne'). rewrite Hz'.
    set (D := decode Z (0 :: ev, vs)) in *.
    assert (HD : zlen D = n).
    { unfold D. rewrite <- Eev, (decode_evs Z). apply (bcast_zlen Z Z.eqb (fun x y Hxy => proj1 (Z.eqb_eq x y) Hxy)). split; [exact Hl|lia]. }
    unfold py_getslice, py_positions. rewrite HD. fold s0 e0. unfold py_count. fold k s0 e0. replace (k <? 0) with false by lia. replace (s0 <? e0) with true by lia.
    assert (Hcnt' : (e0 - s0 - 1) / k + 1 = cdiv k (e0 - s0)).
    { unfold cdiv. replace (e0 - s0 + k - 1) with ((e0 - s0 - 1) + 1 * k) by lia. rewrite Z.div_add by lia. lia. }
    rewrite Hcnt'. rewrite (ap_reindex s0 _ k), map_map. apply map_ap_ext. intros q Hq. unfold dense.
    rewrite <- (decode_evs Z ls' sv), Hd. replace (s0 - 0) with s0 by lia.
    assert (Hqk : 0 <= q * k < e0 - s0) by (unfold cdiv in Hq; split; nia).
    change (ztake (e0 - s0) (zdrop s0 D)) with (zslice_l D s0 e0).
    rewrite (nth_window Z 0 Z.eqb (fun x y Hxy => proj1 (Z.eqb_eq x y) Hxy) D s0 e0 (q * k)) by lia. reflexivity. }
  unfold rl2_col_range. fold k. replace (k =? 0) with false by lia.
  destruct (early_empty (sl_start sl) (sl_stop sl) k) eqn:Ee.
  - (* an early-empty slice is empty in every row: there is no row *)
    destruct rows as [|p rows].
    + eexists. split; reflexivity.
    + exfalso. destruct (Hrow p (or_introl eq_refl)) as (_ & _ & _ & Hlt). unfold early_empty in Ee.
      destruct (sl_start sl) as [st|]; [|discriminate]. destruct (sl_stop sl) as [sp|]; [|discriminate].
      replace (k <? 0) with false in Ee by lia. cbn [lo hi] in Hlt. unfold clampL in Hlt.
      destruct (st >=? 0) eqn:?; destruct (sp >=? 0) eqn:?; lia.
  - cbv zeta. unfold of_runs. cbn [r_idx r_val r_len]. rewrite (map2_maps (col_range_row (sl_start sl) (sl_stop sl) k) (fun p => evs (fst p)) snd rows).
    set (F := fun p : list Z * list Z => col_range_row (sl_start sl) (sl_stop sl) k (evs (fst p)) (snd p)) in *.
    assert (Hall : forallb (fun o : option (list Z * list Z) => match o with Some _ => true | None => false end) (map F rows) = true).
    { apply forallb_forall. intros o Ho. apply in_map_iff in Ho. destruct Ho as (p & <- & Hp). destruct (Hrow p Hp) as (iv & E & _). unfold F. now rewrite E. }
    rewrite Hall. eexists. split; [reflexivity|].
    set (rs := flat_map (fun o : option (list Z * list Z) => match o with Some p => [p] | None => [] end) (map F rows)).
    assert (EL : rl2_decode {| r_idx := map fst rs ; r_val := map snd rs ; r_len := None |} = map (decode Z) rs).
    { unfold rl2_decode, rl2_rows. cbn [r_idx r_val r_len]. rewrite (map2_maps _ fst snd rs), map_map. apply map_ext. intros [i v]. reflexivity. }
    assert (ER : rl2_decode {| r_idx := map (fun p : list Z * list Z => evs (fst p)) rows ; r_val := map snd rows ; r_len := None |}
                 = map (fun p => decode Z (evs (fst p), snd p)) rows).
    { unfold rl2_decode, rl2_rows. cbn [r_idx r_val r_len]. rewrite (map2_maps _ (fun p : list Z * list Z => evs (fst p)) snd rows), map_map. apply map_ext. intros p. reflexivity. }
    rewrite EL, ER, map_map. unfold rs. clear EL ER rs Hall H Ee.
    induction rows as [|p rows IH]; [reflexivity|].
    cbn [map flat_map]. destruct (Hrow p (or_introl eq_refl)) as (iv & E & Ed & _). unfold F at 1. rewrite E. cbn [app map]. rewrite Ed. f_equal.
    apply IH. intros q Hq. apply Hrow. now right.
Qed.
Print Assumptions rl2_col_range_pos.

Example col_range_open_example :
  let rows := [([2; 3], [5; 7]); ([4; 1], [1; 2]); ([1; 1; 3], [1; 2; 3])] in
  let sl := {| sl_start := Some (-4) ; sl_stop := None ; sl_step := Some 2 |} in
  Forall (fun p => canon Z (fst p) (snd p) /\ 0 < py_count (zsum (fst p)) sl) rows /\
  rmap rl2_decode (rl2_col_range (of_runs rows) sl) = Ok [[5; 7]; [1; 1]; [2; 3]].
Proof. split; [repeat constructor; cbn; lia|reflexivity]. Qed.

(* ---------- negative steps with open bounds: start=None is "from the last element", stop=None "down to the first" ---------- *)
Lemma col_range_row_neg_nostop ev vs a k : 1 <= k -> strictly_increasing (0 :: ev) -> length ev = length vs ->
  let L := last (0 :: ev) 0 in 0 <= a < L ->
  col_range_row (Some a) None (- k) (0 :: ev) vs
  = Some (let S := start_to_end Z (0 :: ev, vs) 0 (a + 1) in step_subset_row (- k) (fst S) (snd S)).
Proof.
  intros Hk Hs Hlen L Ha. unfold col_range_row. cbv zeta.
  replace (- k <? 0) with true by lia. cbv iota. cbn [option_map]. fold L.
  assert (Ea : (if a >=? 0 then Z.min L a else Z.max 0 (L + a)) = a) by (destruct (a >=? 0) eqn:?; lia).
  pattern (if a >=? 0 then Z.min L a else Z.max 0 (L + a)). rewrite Ea. cbv beta.
  rewrite (find_run_stop ev 0 (a + 1) Hs) by (fold L; lia).
  cbn [orb]. unfold cut_row. cbn [option_map].
  set (b' := a + 1) in *.
  set (E := 0 :: ev) in *. set (ei := ssl E b').
  assert (Hsi : ssr E 0 - 1 = 0) by (unfold E; rewrite (ssr_zero ev Hs); lia).
  assert (Hev : ev <> []) by (intros ->; unfold L, E in *; cbn in *; lia).
  assert (Hsiei : 1 <= ei) by (unfold ei; pose proof (ssr_le_ssl E 0 b' ltac:(lia)); lia).
  assert (Heilen : ei <= zlen ev).
  { unfold ei, E. rewrite ssl_cons. replace (0 <? b') with true by lia.
    assert (Hin : In (last ev 0) ev) by (apply last_In_ne; exact Hev).
    assert (Hl : L = last ev 0) by (unfold L, E; destruct ev; [congruence|reflexivity]).
    pose proof (ssl_lt_len ev b' (last ev 0) Hin ltac:(lia)). lia. }
  assert (HzE : zlen E = zlen ev + 1) by (unfold E, zlen; cbn [length]; lia).
  assert (Hzv : zlen vs = zlen ev) by (unfold zlen; lia).
  replace (ei - 1 + 2) with (ei + 1) by lia. replace (ei - 1 + 1) with ei by lia.
  rewrite (win_is_slice E 0 (ei + 1)) by lia. rewrite (win_is_slice vs 0 ei) by lia.
  cbn [fst snd].
  set (W := zslice_l E 0 (ei + 1)).
  assert (HX : (2 <= length W)%nat).
  { pose proof (zslice_l_length E 0 (ei + 1) ltac:(lia) ltac:(lia) ltac:(lia)) as Hlx. unfold W, zlen in *. lia. }
  assert (Hh : hd 0 (set_last_z W b') = 0).
  { rewrite (hd_set_last W b' HX). unfold W. rewrite (hd_zslice_0 E (ei + 1) ltac:(lia) ltac:(discriminate)). reflexivity. }
  assert (Es : set_last_z W b' = set_first_z (set_last_z W b') 0) by (symmetry; apply set_first_same; exact Hh).
  rewrite Es. rewrite (rebase_cut W 0 b' HX).
  unfold start_to_end. cbn [fst snd]. rewrite Hsi. fold ei. cbv zeta. fold W.
  destruct (step_subset_row (- k) _ _) as [i v]. reflexivity.
Qed.

Lemma col_range_row_neg_nostart ev vs b k : 1 <= k -> strictly_increasing (0 :: ev) -> length ev = length vs ->
  let L := last (0 :: ev) 0 in 0 <= b -> b + 1 < L ->
  col_range_row None (Some b) (- k) (0 :: ev) vs
  = Some (let S := start_to_end Z (0 :: ev, vs) (b + 1) L in step_subset_row (- k) (fst S) (snd S)).
Proof.
  intros Hk Hs Hlen L Hb0 Hb. unfold col_range_row. cbv zeta.
  replace (- k <? 0) with true by lia. cbv iota. cbn [option_map]. fold L.
  assert (Eb : (if b >=? 0 then Z.min L b else Z.max 0 (L + b)) = b) by (destruct (b >=? 0) eqn:?; lia).
  pattern (if b >=? 0 then Z.min L b else Z.max 0 (L + b)). rewrite Eb. cbv beta.
  rewrite (find_run_start ev 0 (b + 1) Hs) by (fold L; lia).
  cbn [orb]. unfold cut_row. cbn [option_map].
  set (a' := b + 1) in *.
  set (E := 0 :: ev) in *. set (si := ssr E a' - 1).
  assert (Hev : ev <> []) by (intros ->; unfold L, E in *; cbn in *; lia).
  assert (Hei : ssl E L = zlen ev) by (unfold E, L; apply ssl_last; assumption).
  assert (Hsi0 : 0 <= si) by (unfold si, E; rewrite ssr_cons; pose proof (ssr_nonneg ev a'); replace (0 <=? a') with true by lia; lia).
  assert (Hsiei : si + 1 <= zlen ev) by (unfold si; pose proof (ssr_le_ssl E a' L ltac:(lia)); lia).
  assert (HzE : zlen E = zlen ev + 1) by (unfold E, zlen; cbn [length]; lia).
  assert (Hzv : zlen vs = zlen ev) by (unfold zlen; lia).
  rewrite (win_is_slice E si (zlen E)) by lia. rewrite (win_is_slice vs si (zlen vs)) by lia.
  cbn [fst snd].
  set (W := zslice_l E si (zlen E)).
  assert (HX : (2 <= length W)%nat).
  { pose proof (zslice_l_length E si (zlen E) ltac:(lia) ltac:(lia) ltac:(lia)) as Hlx. unfold W, zlen in *. lia. }
  assert (Hl : last W 0 = L) by (unfold W; rewrite (last_zslice_end E si ltac:(lia)); reflexivity).
  assert (Es : W = set_last_z W L) by (symmetry; apply set_last_same; [intros Hn; rewrite Hn in HX; cbn in HX; lia|exact Hl]).
  rewrite Es. rewrite (rebase_cut W a' L HX).
  unfold start_to_end. cbn [fst snd]. fold si. rewrite Hei. cbv zeta. rewrite <- HzE, <- Hzv at 1. fold W.
  destruct (step_subset_row (- k) _ _) as [i v]. reflexivity.
Qed.

Lemma col_range_row_neg_open2 ev vs k : 1 <= k -> strictly_increasing (0 :: ev) -> length ev = length vs -> ev <> [] ->
  col_range_row None None (- k) (0 :: ev) vs
  = Some (let S := start_to_end Z (0 :: ev, vs) 0 (last (0 :: ev) 0) in step_subset_row (- k) (fst S) (snd S)).
Proof.
  intros Hk Hs Hlen Hne. rewrite (start_to_end_whole ev vs Hs Hlen Hne). cbv zeta. cbn [fst snd].
  unfold col_range_row. cbv zeta. replace (- k <? 0) with true by lia. cbv iota. cbn [option_map orb]. unfold cut_row.
  cbn [fst snd]. destruct (step_subset_row (- k) (0 :: ev) vs) as [i v]. reflexivity.
Qed.

(* bounds "inside the row" for a negative step: a given start is a position of the row, a given stop is not negative *)
Definition inside_neg (L : Z) (sl : pyslice) : Prop :=
  match sl_start sl with Some a => 0 <= a < L | None => True end /\ match sl_stop sl with Some b => 0 <= b | None => True end.

Lemma col_range_row_neg_any ev vs (sl : pyslice) : step_of sl <= -1 -> strictly_increasing (0 :: ev) -> length ev = length vs ->
  let L := last (0 :: ev) 0 in inside_neg L sl -> py_stop L sl < py_start L sl ->
  col_range_row (sl_start sl) (sl_stop sl) (step_of sl) (0 :: ev) vs
  = Some (let S := start_to_end Z (0 :: ev, vs) (py_stop L sl + 1) (py_start L sl + 1) in step_subset_row (step_of sl) (fst S) (snd S)).
Proof.
  intros Hk Hs Hlen L [Hin1 Hin2] Hlt. pose proof (L_nonneg ev Hs) as HL. fold L in HL.
  set (k := - step_of sl). assert (Hk1 : 1 <= k) by (unfold k; lia). replace (step_of sl) with (- k) in * by (unfold k; lia).
  unfold py_start, py_stop, adj in *. replace (step_of sl <? 0) with true in * by lia.
  destruct (sl_start sl) as [a|]; destruct (sl_stop sl) as [b|].
  - replace (a <? 0) with false in * by lia. replace (a >=? L) with false in * by lia. replace (b <? 0) with false in * by lia.
    destruct (b >=? L) eqn:Eb; [lia|]. apply col_range_row_neg; try assumption; lia.
  - replace (a <? 0) with false in * by lia. replace (a >=? L) with false in * by lia.
    replace (-1 + 1) with 0 by lia. apply col_range_row_neg_nostop; assumption.
  - replace (b <? 0) with false in * by lia. destruct (b >=? L) eqn:Eb; [lia|].
    replace (L - 1 + 1) with L by lia. apply col_range_row_neg_nostart; try assumption; lia.
  - replace (-1 + 1) with 0 by lia. replace (L - 1 + 1) with L by lia. apply col_range_row_neg_open2; try assumption. intros ->. unfold L in *. cbn in *. lia.
Qed.

Theorem rl2_col_range_neg (rows : list (list Z * list Z)) (sl : pyslice) : step_of sl <= -1 ->
  Forall (fun p => canon Z (fst p) (snd p) /\ inside_neg (zsum (fst p)) sl /\ 0 < py_count (zsum (fst p)) sl) rows ->
  exists y, rl2_col_range (of_runs rows) sl = Ok y /\ rl2_decode y = map (fun d => py_getslice 0 d sl) (rl2_decode (of_runs rows)).
Proof.
  intros Hk H. set (k := step_of sl) in *.
  assert (Hrow : forall p, In p rows -> exists iv, col_range_row (sl_start sl) (sl_stop sl) k (evs (fst p)) (snd p) = Some iv /\
            decode Z iv = py_getslice 0 (decode Z (evs (fst p), snd p)) sl /\ py_stop (zsum (fst p)) sl < py_start (zsum (fst p)) sl).
  { intros [ls vs] Hp. rewrite Forall_forall in H. destruct (H _ Hp) as ([Hl Hlen] & Hins & Hcnt). cbn [fst snd] in *.
    assert (Hnn : 0 <= zsum ls) by (apply zsum_nonneg; eapply Forall_impl; [|exact Hl]; cbn; intros; lia).
    set (n := zsum ls) in *. set (s0 := py_start n sl). set (e0 := py_stop n sl).
    assert (Hse : e0 < s0). { unfold py_count in Hcnt. fold k s0 e0 in Hcnt. replace (k <? 0) with true in Hcnt by lia. destruct (e0 <? s0) eqn:E; lia. }
    assert (Hs0 : -1 <= s0 <= n - 1).
    { unfold s0, py_start, adj. fold k. replace (k <? 0) with true by lia. destruct (sl_start sl) as [v|]; [|lia].
      destruct (v <? 0) eqn:?; [destruct (v + n <? 0) eqn:?; lia|destruct (v >=? n) eqn:?; lia]. }
    assert (He0 : -1 <= e0 <= n - 1).
    { unfold e0, py_stop, adj. fold k. replace (k <? 0) with true by lia. destruct (sl_stop sl) as [v|]; [|lia].
      destruct (v <? 0) eqn:?; [destruct (v + n <? 0) eqn:?; lia|destruct (v >=? n) eqn:?; lia]. }
    assert (Hne : ls <> []) by (intros ->; unfold n in *; cbn in *; lia).
    destruct (evs_cons ls Hne) as (ev & Eev & Hlev). rewrite Eev.
    assert (Hsi : strictly_increasing (0 :: ev)).
    { rewrite <- Eev. unfold evs, excl_prefix. replace (zsum ls) with (0 + zsum ls) by lia. apply (si_evs_gen Z 0 Z.eqb (fun x y Hxy => proj1 (Z.eqb_eq x y) Hxy)). exact Hl. }
    assert (Hlast : last (0 :: ev) 0 = n) by (rewrite <- Eev; unfold evs; apply last_last).
    pose proof (col_range_row_neg_any ev vs sl Hk Hsi ltac:(lia)) as Hc. cbv zeta in Hc. rewrite Hlast in Hc. fold k s0 e0 in Hc.
    specialize (Hc Hins Hse). rewrite Hc.
    pose proof (start_to_end_decode Z ev vs 0 (e0 + 1) (s0 + 1) ltac:(lia) Hsi ltac:(lia) ltac:(lia) ltac:(lia)) as Hd.
    pose proof (start_to_end_shape Z ev vs 0 (e0 + 1) (s0 + 1) ltac:(lia) Hsi ltac:(lia) ltac:(lia) ltac:(lia)) as Hsh.
    destruct (shape_runs Z 0 Z.eqb (fun x y Hxy => proj1 (Z.eqb_eq x y) Hxy) _ _ Hsh) as (ls' & E1 & Hc' & Hz' & Hne').
    destruct (start_to_end Z (0 :: ev, vs) (e0 + 1) (s0 + 1)) as [se sv] eqn:Est. cbn [fst snd] in *. subst se.
    eexists. split; [reflexivity|]. split; [|exact Hse].
    replace k with (- (- k)) at 1 by lia.
    rewrite (step_subset_row_neg_decode (- k) ls' sv ltac:(lia) Hc' Hne'). rewrite Hz'.
    set (D := decode Z (0 :: ev, vs)) in *.
    assert (HD : zlen D = n).
    { unfold D. rewrite <- Eev, (decode_evs Z). apply (bcast_zlen Z Z.eqb (fun x y Hxy => proj1 (Z.eqb_eq x y) Hxy)). split; [exact Hl|lia]. }
    unfold py_getslice, py_positions. rewrite HD. fold s0 e0. unfold py_count. fold k s0 e0. replace (k <? 0) with true by lia. replace (e0 <? s0) with true by lia.
    replace (cdiv (- k) (s0 + 1 - (e0 + 1))) with ((s0 - e0 - 1) / - k + 1)
      by (unfold cdiv; replace (s0 + 1 - (e0 + 1) + - k - 1) with ((s0 - e0 - 1) + 1 * (- k)) by lia; rewrite Z.div_add by lia; lia).
    rewrite (ap_reindex s0 _ k), map_map. apply map_ap_ext. intros q Hq.
    rewrite <- (decode_evs Z ls' sv), Hd. replace (e0 + 1 - 0) with (e0 + 1) by lia.
    change (ztake (s0 + 1 - (e0 + 1)) (zdrop (e0 + 1) D)) with (zslice_l D (e0 + 1) (s0 + 1)).
    assert (Hqk : 0 <= q * - k < s0 - e0) by (split; [nia|]; nia).
    assert (Hlen' : length (zslice_l D (e0 + 1) (s0 + 1)) = Z.to_nat (s0 - e0)).
    { pose proof (zslice_l_length D (e0 + 1) (s0 + 1) ltac:(lia) ltac:(lia) ltac:(lia)) as Hz. unfold zlen in Hz. lia. }
    rewrite rev_nth by (rewrite Hlen'; lia). rewrite Hlen'.
    replace (Z.to_nat (s0 - e0) - S (Z.to_nat (q * - k)))%nat with (Z.to_nat (s0 - e0 - 1 - q * - k)) by lia.
    rewrite (nth_window Z 0 Z.eqb (fun x y Hxy => proj1 (Z.eqb_eq x y) Hxy) D (e0 + 1) (s0 + 1)) by lia. unfold znth. f_equal. lia. }
  unfold rl2_col_range. fold k. replace (k =? 0) with false by lia.
  destruct (early_empty (sl_start sl) (sl_stop sl) k) eqn:Ee.
  - destruct rows as [|p rows].
    + eexists. split; reflexivity.
    + exfalso. destruct (Hrow p (or_introl eq_refl)) as (_ & _ & _ & Hlt). rewrite Forall_forall in H. destruct (H p (or_introl eq_refl)) as (_ & [Hi1 Hi2] & _).
      unfold early_empty in Ee. unfold py_start, py_stop, adj in Hlt. fold k in Hlt. replace (k <? 0) with true in * by lia.
      destruct (sl_start sl) as [st|]; [|discriminate]. destruct (sl_stop sl) as [sp|]; [|discriminate].
      replace (st <? 0) with false in Hlt by lia. replace (st >=? zsum (fst p)) with false in Hlt by lia. replace (sp <? 0) with false in Hlt by lia.
      destruct (sp >=? zsum (fst p)) eqn:?; lia.
  - cbv zeta. unfold of_runs. cbn [r_idx r_val r_len]. rewrite (map2_maps (col_range_row (sl_start sl) (sl_stop sl) k) (fun p => evs (fst p)) snd rows).
    set (F := fun p : list Z * list Z => col_range_row (sl_start sl) (sl_stop sl) k (evs (fst p)) (snd p)) in *.
    assert (Hall : forallb (fun o : option (list Z * list Z) => match o with Some _ => true | None => false end) (map F rows) = true).
    { apply forallb_forall. intros o Ho. apply in_map_iff in Ho. destruct Ho as (p & <- & Hp). destruct (Hrow p Hp) as (iv & E & _). unfold F. now rewrite E. }
    rewrite Hall. eexists. split; [reflexivity|].
    set (rs := flat_map (fun o : option (list Z * list Z) => match o with Some p => [p] | None => [] end) (map F rows)).
    assert (EL : rl2_decode {| r_idx := map fst rs ; r_val := map snd rs ; r_len := None |} = map (decode Z) rs).
    { unfold rl2_decode, rl2_rows. cbn [r_idx r_val r_len]. rewrite (map2_maps _ fst snd rs), map_map. apply map_ext. intros [i v]. reflexivity. }
    assert (ER : rl2_decode {| r_idx := map (fun p : list Z * list Z => evs (fst p)) rows ; r_val := map snd rows ; r_len := None |}
                 = map (fun p => decode Z (evs (fst p), snd p)) rows).
    { unfold rl2_decode, rl2_rows. cbn [r_idx r_val r_len]. rewrite (map2_maps _ (fun p : list Z * list Z => evs (fst p)) snd rows), map_map. apply map_ext. intros p. reflexivity. }
    rewrite EL, ER, map_map. unfold rs. clear EL ER rs Hall H Ee.
    induction rows as [|p rows IH]; [reflexivity|].
    cbn [map flat_map]. destruct (Hrow p (or_introl eq_refl)) as (iv & E & Ed & _). unfold F at 1. rewrite E. cbn [app map]. rewrite Ed. f_equal.
    apply IH. intros q Hq. apply Hrow. now right.
Qed.
Print Assumptions rl2_col_range_neg.

Example col_range_reverse_example :
  let rows := [([2; 3], [5; 7]); ([4; 1], [1; 2]); ([1; 1; 3], [1; 2; 3])] in
  let sl := {| sl_start := None ; sl_stop := None ; sl_step := Some (-1) |} in
  Forall (fun p => canon Z (fst p) (snd p) /\ inside_neg (zsum (fst p)) sl /\ 0 < py_count (zsum (fst p)) sl) rows /\
  rmap rl2_decode (rl2_col_range (of_runs rows) sl) = Ok [[7; 7; 7; 5; 5]; [2; 1; 1; 1; 1]; [3; 3; 3; 2; 1]].
Proof. split; [repeat constructor; cbn; lia|reflexivity]. Qed.
