From Coq Require Import ZifyBool.
From NPS Require Import ListAux PySlice NumpySem Scatter BuildIdx XorBroadcast XorProof RLE RLEProof RLEOps RaOps RLE2d BinaryProof StepNeg RLEIndex RL2Proof.
Open Scope Z_scope.

(* C17: integer column of a ragged run-length array: in every row that reaches the column, the value of the run
   containing it (rows that do not reach it contribute nothing) *)
Section Col.
Definition run_mask (c : Z) (E : list Z) : list bool := map2 (fun a b => (a <=? c) && (b >? c)) (removelast E) (tl E).

Lemma removelast_cons2 {X} (a b : X) l : removelast (a :: b :: l) = a :: removelast (b :: l). Proof. reflexivity. Qed.

Lemma run_pick c : forall ls (vs : list Z) acc, canon Z ls vs ->
  mask_filter vs (run_mask c (excl_from acc ls ++ [acc + zsum ls]))
  = if (acc <=? c) && (c <? acc + zsum ls) then [nth (Z.to_nat (c - acc)) (spec_broadcast Z vs ls) 0] else [].
Proof.
  induction ls as [|l ls IH]; intros vs acc [Hl Hlen].
  - destruct vs; [|discriminate]. cbn [excl_from zsum app]. unfold run_mask. cbn. destruct ((acc <=? c) && (c <? acc + 0)) eqn:E; [lia|reflexivity].
  - destruct vs as [|v vs]; [discriminate|]. inversion Hl as [|? ? Hl1 Hls]; subst. cbn [length] in Hlen.
    assert (Hc' : canon Z ls vs) by (split; [exact Hls|lia]).
    assert (Hs : 0 <= zsum ls) by (apply zsum_nonneg; eapply Forall_impl; [|exact Hls]; cbn; intros; lia).
    cbn [excl_from zsum app]. specialize (IH vs (acc + l) Hc').
    replace (acc + (l + zsum ls)) with (acc + l + zsum ls) by lia.
    set (E' := excl_from (acc + l) ls ++ [acc + l + zsum ls]) in *.
    assert (Hhd : exists t, E' = (acc + l) :: t).
    { unfold E'. destruct ls as [|l' ls']; cbn [excl_from app zsum]; eexists; [f_equal; lia|reflexivity]. }
    destruct Hhd as [t Et]. unfold run_mask in *. rewrite Et in *. rewrite removelast_cons2.
    change (tl (acc :: (acc + l) :: t)) with ((acc + l) :: t).
    cbn [map2 mask_filter]. change (tl ((acc + l) :: t)) with t in IH.
    rewrite spec_broadcast_cons.
    destruct ((acc <=? c) && (acc + l >? c)) eqn:E1.
    + rewrite IH. replace ((acc + l <=? c) && (c <? acc + l + zsum ls)) with false by lia.
      replace ((acc <=? c) && (c <? acc + l + zsum ls)) with true by lia.
      rewrite app_nth1 by (rewrite repeat_length; lia). f_equal.
      symmetry. apply (nth_repeat_lt Z 0). lia.
    + rewrite IH. destruct ((acc + l <=? c) && (c <? acc + l + zsum ls)) eqn:E2.
      * replace ((acc <=? c) && (c <? acc + l + zsum ls)) with true by lia. f_equal.
        rewrite app_nth2 by (rewrite repeat_length; lia). rewrite repeat_length. f_equal. lia.
      * replace ((acc <=? c) && (c <? acc + l + zsum ls)) with false by lia. reflexivity.
Qed.

(* a ragged run-length array whose rows are canonical: row i = (evs ls_i, vs_i) *)
Definition of_runs (rows : list (list Z * list Z)) : rl2 :=
  {| r_idx := map (fun p => evs (fst p)) rows ; r_val := map snd rows ; r_len := None |}.
Definition spec_col (j : Z) (dense : list (list Z)) : list Z :=
  flat_map (fun d => let c := if j <? 0 then zlen d + j else j in
                     if (0 <=? c) && (c <? zlen d) then [nth (Z.to_nat c) d 0] else []) dense.

Theorem rl2_col_correct (rows : list (list Z * list Z)) (j : Z) : Forall (fun p => canon Z (fst p) (snd p)) rows ->
  rl2_col (of_runs rows) j = spec_col j (rl2_decode (of_runs rows)).
Proof.
  intros H. unfold rl2_col, spec_col, rl2_decode, rl2_rows, of_runs. cbn [r_idx r_val r_len].
  induction H as [|[ls vs] rows Hc _ IH]; [reflexivity|]. cbn [map combine flat_map map2 fst snd].
  f_equal; [|exact IH]. unfold row_rla. cbn [r_len].
  assert (Hd : decode Z (evs ls, vs) = spec_broadcast Z vs ls) by (unfold decode; cbn [fst snd]; now rewrite diffs_evs).
  rewrite Hd. cbn [fst snd] in Hc.
  assert (Hlast : last (evs ls) 0 = zsum ls) by (unfold evs; apply last_last). rewrite Hlast.
  assert (Hz : zlen (spec_broadcast Z vs ls) = zsum ls).
  { clear - Hc. destruct Hc as [Hl Hlen]. revert vs Hlen. induction Hl as [|l ls' Hl1 _ IHl]; intros [|v vs'] Hlen; try discriminate; [reflexivity|].
    rewrite spec_broadcast_cons. unfold zlen in *. rewrite app_length, repeat_length, Nat2Z.inj_add, IHl by (cbn in Hlen; lia). cbn [zsum]. lia. }
  rewrite Hz. set (c := if j <? 0 then zsum ls + j else j).
  pose proof (run_pick c ls vs 0 Hc) as Hp. unfold run_mask, evs, excl_prefix in *. replace (0 + zsum ls) with (zsum ls) in Hp by lia.
  rewrite Hp. replace (c - 0) with c by lia. replace (0 <=? c) with (0 <=? c) by reflexivity. replace (0 + zsum ls) with (zsum ls) by lia. reflexivity.
Qed.
End Col.
Print Assumptions rl2_col_correct.
