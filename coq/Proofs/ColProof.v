From Coq Require Import ZifyBool.
From NPS Require Import ListAux PySlice NumpySem Scatter BuildIdx SliceAP XorProof Denote RLE RLEOps RaOps SetItem.
Open Scope Z_scope.

(* C09: col_counts — minus the histogram of the row lengths, plus n at 0, prefix sums — counts, for every column j,
   the rows that reach it *)
Definition cnt (P : Z -> bool) (l : list Z) : Z := zlen (filter P l).

Lemma cnt_cons P x l : cnt P (x :: l) = (if P x then 1 else 0) + cnt P l.
Proof. unfold cnt, zlen. cbn [filter]. destruct (P x); cbn [length]; lia. Qed.

Lemma cumsum_from_nth acc l j : (j < length l)%nat -> nth j (cumsum_from acc l) 0 = acc + zsum (firstn (S j) l).
Proof.
  revert acc j; induction l as [|x l IH]; intros acc j H; [cbn in H; lia|].
  destruct j as [|j]; cbn [cumsum_from nth firstn zsum]; [destruct l; cbn [firstn zsum]; lia|].
  rewrite IH by (cbn in H; lia). cbn [firstn zsum]. lia.
Qed.

Lemma firstn_seq' k s n : (k <= n)%nat -> firstn k (seq s n) = seq s k.
Proof. revert s n; induction k as [|k IH]; intros s n H; [reflexivity|]. destruct n; [lia|]. cbn [seq firstn]. f_equal. apply IH. lia. Qed.

Lemma bincount_prefix lens j N : (S j <= N)%nat -> all_nonneg lens ->
  zsum (firstn (S j) (bincount_z N lens)) = cnt (fun l => l <=? Z.of_nat j) lens.
Proof.
  intros HN Hnn. unfold bincount_z. rewrite firstn_map, firstn_seq' by lia.
  clear HN. induction j as [|j IH].
  - cbn [seq map zsum]. unfold cnt, zlen. rewrite Z.add_0_r. do 2 f_equal. apply filter_ext_in. intros l Hl.
    unfold all_nonneg in Hnn. rewrite Forall_forall in Hnn. specialize (Hnn l Hl). cbv beta in Hnn. destruct (Z.eqb_spec (Z.of_nat 0) l); destruct (Z.leb_spec l (Z.of_nat 0)); lia.
  - rewrite seq_S, map_app, zsum_app. cbn [map zsum]. rewrite IH. rewrite Z.add_0_r, Nat.add_0_l.
    unfold cnt. clear IH. induction lens as [|l lens IHl]; [reflexivity|]. inversion Hnn; subst.
    cbn [filter]. rewrite !(fun P => cnt_cons P l lens) || idtac.
    destruct (l <=? Z.of_nat j) eqn:E1; destruct (Z.of_nat (S j) =? l) eqn:E2; destruct (l <=? Z.of_nat (S j)) eqn:E3; try lia;
      unfold zlen in *; cbn [length]; specialize (IHl H2); lia.
Qed.

Lemma removelast_cons_length' {X} (x : X) l : length (removelast (x :: l)) = length l.
Proof. revert x; induction l as [|y l IH]; intros x; [reflexivity|]. cbn [removelast length] in *. f_equal. apply IH. Qed.

Lemma max_fold_ge l acc : acc <= fold_left Z.max l acc /\ Forall (fun x => x <= fold_left Z.max l acc) l.
Proof.
  revert acc; induction l as [|x l IH]; intros acc; cbn [fold_left]; [split; [lia|constructor]|].
  destruct (IH (Z.max acc x)) as [H1 H2]. split; [lia|]. constructor; [lia|exact H2].
Qed.

Lemma removelast_cumsum acc l : removelast (cumsum_from acc l) = cumsum_from acc (removelast l).
Proof.
  revert acc; induction l as [|x l IH]; intros acc; [reflexivity|]. destruct l as [|y l]; [reflexivity|].
  change (removelast (x :: y :: l)) with (x :: removelast (y :: l)). cbn [cumsum_from]. cbn [cumsum_from] in IH.
  specialize (IH (acc + x)). cbn [removelast] in *. f_equal. exact IH.
Qed.

Lemma cumsum_as_map_gen acc l : cumsum_from acc l = map (fun j => acc + zsum (firstn (S j) l)) (seq 0 (length l)).
Proof.
  revert acc; induction l as [|x l IH]; intros acc; [reflexivity|].
  cbn [cumsum_from length seq map]. f_equal; [cbn [firstn zsum]; destruct l; cbn [firstn zsum]; lia|].
  rewrite IH, <- seq_shift, map_map. apply map_ext. intros j. cbn [firstn zsum]. lia.
Qed.
Lemma cumsum_as_map l : cumsum_from 0 l = map (fun j => zsum (firstn (S j) l)) (seq 0 (length l)).
Proof. rewrite cumsum_as_map_gen. apply map_ext. intros; lia. Qed.

Lemma ap_as_seq n : ap 0 n 1 = map Z.of_nat (seq 0 (Z.to_nat n)).
Proof.
  unfold ap. generalize (Z.to_nat n) as k. intros k.
  assert (G : forall s, ap_nat (Z.of_nat s) 1 k = map Z.of_nat (seq s k)).
  { induction k as [|k IH]; intros s; [reflexivity|]. cbn [ap_nat seq map]. f_equal. rewrite <- IH. f_equal. lia. }
  exact (G 0%nat).
Qed.

Lemma firstn_removelast {X} (l : list X) k : (k < length l)%nat -> firstn k (removelast l) = firstn k l.
Proof.
  revert k; induction l as [|x l IH]; intros k H; [cbn in H; lia|].
  destruct l as [|y l]; [cbn in H; assert (k = 0%nat) by lia; subst; reflexivity|].
  change (removelast (x :: y :: l)) with (x :: removelast (y :: l)). destruct k as [|k]; [reflexivity|].
  cbn [firstn]. f_equal. apply IH. cbn [length] in *. lia.
Qed.

Theorem col_counts_correct (lens : list Z) : all_nonneg lens ->
  ra_col_counts lens = map (fun j => cnt (fun l => j <? l) lens) (ap 0 (fold_left Z.max lens (hd 0 lens)) 1).
Proof.
  intros Hnn. unfold ra_col_counts. set (mx := fold_left Z.max lens (hd 0 lens)).
  assert (Hmx0 : 0 <= mx).
  { unfold mx. destruct lens as [|l lens']; [cbn; lia|]. inversion Hnn; subst. cbn [hd]. pose proof (max_fold_ge (l :: lens') l) as [H _]. lia. }
  set (b := bincount_z (Z.to_nat (mx + 1)) lens).
  assert (Hbl : length b = S (Z.to_nat mx)) by (unfold b, bincount_z; rewrite map_length, seq_length; lia).
  destruct (map Z.opp b) as [|c0 c'] eqn:Ec; [apply (f_equal (@length Z)) in Ec; rewrite map_length in Ec; cbn in Ec; lia|].
  assert (Hcl : length (c0 :: c') = S (Z.to_nat mx)) by (rewrite <- Ec, map_length; exact Hbl).
  unfold cumsum. rewrite removelast_cumsum, cumsum_as_map.
  assert (Hrl : length (removelast (c0 + zlen lens :: c')) = Z.to_nat mx).
  { rewrite (removelast_cons_length' (c0 + zlen lens) c'). cbn [length] in Hcl. lia. }
  rewrite Hrl, ap_as_seq, map_map. apply map_ext_in. intros j Hj. apply in_seq in Hj.
  rewrite firstn_removelast by (cbn [length] in *; lia).
  change (firstn (S j) (c0 + zlen lens :: c')) with (c0 + zlen lens :: firstn j c'). cbn [zsum].
  assert (E : c0 + zsum (firstn j c') = - cnt (fun l => l <=? Z.of_nat j) lens).
  { change (c0 + zsum (firstn j c')) with (zsum (firstn (S j) (c0 :: c'))). rewrite <- Ec.
    rewrite <- (bincount_prefix lens j (Z.to_nat (mx + 1))) by (assumption || lia). fold b.
    rewrite firstn_map. generalize (firstn (S j) b). intros l. induction l as [|x l IH]; cbn [map zsum]; lia. }
  replace (c0 + zlen lens + zsum (firstn j c')) with (zlen lens + (c0 + zsum (firstn j c'))) by lia. rewrite E.
  unfold cnt. clear. induction lens as [|l lens IH]; [reflexivity|]. cbn [filter].
  destruct (l <=? Z.of_nat j) eqn:E1; destruct (Z.of_nat j <? l) eqn:E2; try lia; unfold zlen in *; cbn [length]; lia.
Qed.
Print Assumptions col_counts_correct.
