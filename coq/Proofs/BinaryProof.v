From Coq Require Import ZifyBool Permutation.
From NPS Require Import ListAux PySlice NumpySem Scatter BuildIdx SliceAP XorBroadcast XorProof Denote MaterialiseWF RLE RLEProof RLEOps SetItem CanonProof RLEIndex RoundTrip.
Open Scope Z_scope.

(* C16: binary ufunc of two run-length arrays with unrelated boundaries *)

(* ---------- the stable insertion sort returns a sorted permutation ---------- *)
Section Sort.
Context {X : Type}.
Fixpoint sorted_keys (l : list (Z * X)) : Prop :=
  match l with p :: ((q :: _) as r) => fst p <= fst q /\ sorted_keys r | _ => True end.
Lemma insert_perm (p : Z * X) l : Permutation (p :: l) (insert_stable p l).
Proof.
  induction l as [|q l IH]; [reflexivity|]. cbn [insert_stable]. destruct (fst p <=? fst q); [reflexivity|].
  rewrite perm_swap. now apply perm_skip.
Qed.
Lemma insert_sorted (p : Z * X) l : sorted_keys l -> sorted_keys (insert_stable p l).
Proof.
  induction l as [|q l IH]; intros Hs; [exact I|]. cbn [insert_stable]. destruct (fst p <=? fst q) eqn:E.
  - split; [lia|exact Hs].
  - destruct l as [|r l]; cbn [insert_stable].
    + split; [lia|exact I].
    + destruct Hs as [Hqr Hs]. specialize (IH Hs). cbn [insert_stable] in IH. destruct (fst p <=? fst r) eqn:E2.
      * split; [lia|]. exact IH.
      * split; [lia|exact IH].
Qed.
Lemma sort_perm (l : list (Z * X)) : Permutation l (stable_sort l).
Proof. induction l as [|p l IH]; [reflexivity|]. cbn [stable_sort fold_right]. rewrite <- insert_perm. now apply perm_skip. Qed.
Lemma sort_sorted (l : list (Z * X)) : sorted_keys (stable_sort l).
Proof. induction l as [|p l IH]; [exact I|]. cbn [stable_sort fold_right]. now apply insert_sorted. Qed.
End Sort.

(* ---------- step functions: a weakly increasing boundary list with values constant between boundaries ---------- *)
Section Step.
Variable C : Type.
Variable g : Z -> C.
Lemma map_ap_split s a b : 0 <= a -> 0 <= b -> map g (ap s (a + b) 1) = map g (ap s a 1) ++ map g (ap (s + a) b 1).
Proof.
  intros Ha Hb. unfold ap. rewrite Z2Nat.inj_add by lia. generalize (Z.to_nat b) as nb. intros nb.
  rewrite <- (Z2Nat.id a) at 3 by lia. generalize (Z.to_nat a) as na. intros na. revert s.
  induction na as [|na IH]; intros s; cbn [Nat.add ap_nat map app]; [f_equal; f_equal; lia|].
  f_equal. rewrite IH. do 3 f_equal. lia.
Qed.
Lemma map_ap_const s l v : 0 <= l -> (forall p, s <= p < s + l -> g p = v) -> map g (ap s l 1) = repeat v (Z.to_nat l).
Proof.
  intros Hl H. unfold ap. rewrite <- (Z2Nat.id l) in H by lia. generalize dependent s. generalize (Z.to_nat l) as n.
  induction n as [|n IH]; intros s H; [reflexivity|]. cbn [ap_nat map repeat]. f_equal; [apply H; lia|].
  apply IH. intros p Hp. apply H. lia.
Qed.

(* events E (weakly increasing), end n; g constant on [e_i, e_{i+1}) *)
Lemma step_decode : forall E e0 n,
  (fix wi (l : list Z) := match l with x :: ((y :: _) as r) => x <= y /\ wi r | _ => True end) (e0 :: E ++ [n]) ->
  (forall e e', (exists pre post, e0 :: E ++ [n] = pre ++ e :: e' :: post) -> forall p, e <= p < e' -> g p = g e) ->
  spec_broadcast C (map g (e0 :: E)) (diffs (e0 :: E ++ [n])) = map g (ap e0 (n - e0) 1).
Proof.
  induction E as [|e1 E IH]; intros e0 n Hw Hc.
  - cbn [app map]. destruct Hw as [H0n _]. rewrite diffs_cons2. unfold spec_broadcast. cbn [diffs tl removelast map2 concat]. rewrite app_nil_r.
    symmetry. apply map_ap_const; [lia|]. intros p Hp. apply (Hc e0 n); [exists [], []; reflexivity|lia].
  - cbn [app map] in *. destruct Hw as [H01 Hw]. rewrite diffs_cons2. rewrite spec_broadcast_cons.
    assert (Hn : e1 <= n).
    { clear - Hw. revert e1 Hw. induction E as [|x E IHE]; intros e1 Hw; cbn [app] in *; [lia|]. destruct Hw as [H1 H2]. specialize (IHE x H2). lia. }
    replace (n - e0) with ((e1 - e0) + (n - e1)) by lia. rewrite map_ap_split by lia.
    replace (e0 + (e1 - e0)) with e1 by lia. f_equal.
    + symmetry. apply map_ap_const; [lia|]. intros p Hp. apply (Hc e0 e1); [exists [], (E ++ [n]); reflexivity|lia].
    + apply IH; [exact Hw|]. intros e e' (pre & post & Eq) p Hp. apply (Hc e e'); [|exact Hp].
      exists (e0 :: pre), post. cbn [app]. now rewrite Eq.
Qed.
End Step.

(* ---------- a canonical run-length array as a function of the position ---------- *)
Section Runs.
Variable A : Type.
Variable d : A.
(* canonical: boundaries excl_prefix ls ++ [n] with all runs non-empty *)
Definition canon (ls : list Z) (vs : list A) : Prop := Forall (fun l => 1 <= l) ls /\ length vs = length ls.
Definition dense (vs : list A) (ls : list Z) (p : Z) : A := nth (Z.to_nat p) (spec_broadcast A vs ls) d.
Definition evs (ls : list Z) : list Z := excl_prefix ls ++ [zsum ls].

(* the value looked up by searchsorted(right) - 1 *)
Lemma lookup_dense ls vs p : canon ls vs -> 0 <= p < zsum ls ->
  nth (Z.to_nat (ssr (evs ls) p - 1)) vs d = dense vs ls p.
Proof.
  intros [Hl Hlen] Hp. pose proof (run_lookup A d ls vs 0 p Hl Hlen ltac:(lia)) as H.
  replace (0 + zsum ls) with (zsum ls) in H by lia. replace (p - 0) with p in H by lia. exact H.
Qed.

(* positions with the same set of boundaries at or below them have the same value *)
Lemma dense_same_run ls vs p q : canon ls vs -> 0 <= p < zsum ls -> 0 <= q < zsum ls ->
  ssr (evs ls) p = ssr (evs ls) q -> dense vs ls p = dense vs ls q.
Proof. intros Hc Hp Hq E. rewrite <- !lookup_dense by assumption. now rewrite E. Qed.

Lemma ssr_between l e p : e <= p -> (forall x, In x l -> x <= p -> x <= e) -> ssr l e = ssr l p.
Proof.
  intros Hep H. unfold ssr. f_equal. apply filter_ext_in. intros x Hx. specialize (H x Hx).
  destruct (x <=? e) eqn:E1; destruct (x <=? p) eqn:E2; try reflexivity; lia.
Qed.

(* the value of the run that starts at a boundary *)
Lemma dense_at_start : forall ls vs j, canon ls vs -> (j < length ls)%nat ->
  dense vs ls (nth j (excl_prefix ls) 0) = nth j vs d.
Proof.
  intros ls vs j Hc Hj. pose proof Hc as [Hl Hlen].
  assert (Hnn : all_nonneg ls) by (eapply Forall_impl; [|exact Hl]; cbn; intros; lia).
  (* the start of run j is below the total *)
  assert (Hb : 0 <= nth j (excl_prefix ls) 0 < zsum ls).
  { assert (Hin : In (nth j (excl_prefix ls) 0, nth j ls 0) (combine (excl_prefix ls) ls)).
    { rewrite <- (combine_nth (excl_prefix ls) ls j 0 0) by (unfold excl_prefix; now rewrite excl_from_length).
      apply nth_In. rewrite combine_length. unfold excl_prefix. rewrite excl_from_length. lia. }
    pose proof (MaterialiseWF.contig_rows_bounds ls 0 _ _ Hnn ltac:(lia) Hin) as Hbd.
    assert (1 <= nth j ls 0) by (rewrite Forall_forall in Hl; apply Hl; now apply nth_In). lia. }
  rewrite <- lookup_dense by assumption. f_equal.
  (* exactly j+1 boundaries are <= start_j *)
  assert (G : forall ls acc j, Forall (fun l => 1 <= l) ls -> (j < length ls)%nat ->
              ssr (excl_from acc ls ++ [acc + zsum ls]) (nth j (excl_from acc ls) 0) = Z.of_nat (S j)).
  { clear. induction ls as [|l ls IH]; intros acc j Hl Hj; [cbn in Hj; lia|]. inversion Hl as [|? ? Hl0 Hl']; subst.
    assert (Hnn : all_nonneg ls) by (eapply Forall_impl; [|exact Hl']; cbn; intros; lia). pose proof (zsum_nonneg ls Hnn).
    destruct j as [|j]; cbn [excl_from app nth zsum].
    - unfold ssr. cbn [filter]. replace (acc <=? acc) with true by lia. rewrite filter_le_all_gt.
      + reflexivity.
      + apply Forall_app. split; [|constructor; [lia|constructor]].
        eapply Forall_impl; [|apply (excl_from_bounds (acc + l) ls Hnn)]. cbn; intros; lia.
    - unfold ssr. cbn [filter].
      assert (Hge : acc + l <= nth j (excl_from (acc + l) ls) 0).
      { pose proof (excl_from_bounds (acc + l) ls Hnn) as Hbd. rewrite Forall_forall in Hbd. apply Hbd. apply nth_In.
        rewrite excl_from_length. cbn in Hj. lia. }
      replace (acc <=? nth j (excl_from (acc + l) ls) 0) with true by lia.
      specialize (IH (acc + l) j Hl' ltac:(cbn in Hj; lia)). unfold ssr in IH.
      replace (acc + l + zsum ls) with (acc + (l + zsum ls)) in IH by lia.
      unfold zlen in *. cbn [length]. rewrite Nat2Z.inj_succ. rewrite IH. lia. }
  unfold evs, excl_prefix. specialize (G ls 0 j Hl Hj). replace (0 + zsum ls) with (zsum ls) in G by lia. rewrite G. f_equal. lia.
Qed.
End Runs.

(* ---------- sorting a list whose last element has the strictly largest key ---------- *)
Lemma insert_before_last {X} (p x : Z * X) S : fst p < fst x -> insert_stable p (S ++ [x]) = insert_stable p S ++ [x].
Proof.
  intros H. induction S as [|q S IH]; cbn [app insert_stable].
  - replace (fst p <=? fst x) with true by lia. reflexivity.
  - destruct (fst p <=? fst q); [reflexivity|]. now rewrite IH.
Qed.
Lemma sort_with_max {X} (L : list (Z * X)) x : Forall (fun p => fst p < fst x) L -> stable_sort (L ++ [x]) = stable_sort L ++ [x].
Proof.
  induction 1 as [|p L Hp _ IH]; [reflexivity|]. cbn [app]. unfold stable_sort in *. cbn [fold_right]. rewrite IH.
  now apply insert_before_last.
Qed.

(* weakly increasing lists *)
Notation wi := CanonProof.weakly_increasing.
Lemma sorted_keys_wi {X} (l : list (Z * X)) : sorted_keys l -> wi (map fst l).
Proof. induction l as [|p l IH]; [intros _; exact I|]. destruct l as [|q l]; [intros _; exact I|]. intros [H1 H2]. cbn [map]. split; [exact H1|]. apply IH. exact H2. Qed.
Lemma wi_app_last l x : wi l -> Forall (fun y => y <= x) l -> wi (l ++ [x]).
Proof.
  induction l as [|a l IH]; intros Hw Hf; [exact I|]. inversion Hf; subst. destruct l as [|b l]; [cbn; auto|].
  destruct Hw as [Hab Hw]. cbn [app]. split; [exact Hab|]. now apply IH.
Qed.
Lemma wi_middle : forall pre e e' post x p, wi (pre ++ e :: e' :: post) -> In x (pre ++ e :: e' :: post) -> x <= p -> p < e' -> x <= e.
Proof.
  induction pre as [|a pre IH]; intros e e' post x p Hw Hin Hxp Hpe; cbn [app] in *.
  - destruct Hw as [Hee Hw]. destruct Hin as [<-|[<-|Hin]]; try lia.
    assert (G : forall l y, wi (y :: l) -> Forall (fun z => y <= z) l).
    { clear. induction l as [|z l IHl]; intros y H; [constructor|]. destruct H as [H1 H2]. constructor; [exact H1|].
      eapply Forall_impl; [|apply (IHl z H2)]. cbn; intros; lia. }
    pose proof (G post e' Hw) as Hf. rewrite Forall_forall in Hf. specialize (Hf x Hin). lia.
  - destruct Hin as [<-|Hin].
    + (* a <= everything after it, in particular <= e *)
      assert (G : forall l y, wi (y :: l) -> Forall (fun z => y <= z) l).
      { clear. induction l as [|z l IHl]; intros y H; [constructor|]. destruct H as [H1 H2]. constructor; [exact H1|].
        eapply Forall_impl; [|apply (IHl z H2)]. cbn; intros; lia. }
      pose proof (G (pre ++ e :: e' :: post) a Hw) as Hf. rewrite Forall_forall in Hf. apply Hf. apply in_or_app. right. now left.
    + destruct pre as [|b pre]; cbn [app] in *; destruct Hw as [_ Hw]; eapply (IH e e' post x p); eauto.
Qed.

(* remove_empty keeps the order *)
Lemma remove_empty_wi {X} : forall ev (vs : list X), length ev = S (length vs) -> wi ev -> wi (fst (remove_empty X ev vs)).
Proof.
  induction ev as [|e ev IH]; intros vs Hlen Hw; [exact I|].
  destruct ev as [|e' ev]; destruct vs as [|v vs]; try exact Hw; cbn in Hlen; try lia.
  rewrite remove_empty_cons2. destruct Hw as [Hee Hw]. injection Hlen as Hlen.
  specialize (IH vs ltac:(cbn; lia) Hw).
  destruct (remove_empty_decode X (e' :: ev) vs ltac:(cbn; lia)) as (_ & _ & Hhd).
  destruct (remove_empty X (e' :: ev) vs) as [re rv] eqn:E. cbn [fst hd] in *.
  destruct (e =? e') eqn:Ee; cbn [fst]; [exact IH|].
  destruct re as [|r0 re]; [exact I|]. cbn [hd] in Hhd. subst r0. split; [exact Hee|exact IH].
Qed.

(* ---------- the binary operation ---------- *)
Section Bin.
Variable A B C : Type.
Variable da : A. Variable db : B. Variable dc : C.
Variable ceqb : C -> C -> bool.
Hypothesis ceqb_eq : forall x y, ceqb x y = true -> x = y.
Variable f : A -> B -> C.
Variable lsA lsB : list Z.
Variable vA : list A.
Variable vB : list B.
Hypothesis HcA : canon A lsA vA.
Hypothesis HcB : canon B lsB vB.
Hypothesis Hn : zsum lsA = zsum lsB.
Hypothesis HneA : lsA <> [].
Hypothesis HneB : lsB <> [].
Let n := zsum lsA.
Let sA := excl_prefix lsA.
Let sB := excl_prefix lsB.
Definition g (p : Z) : C := f (dense A da vA lsA p) (dense B db vB lsB p).

Lemma evs_parts ls : ls <> [] ->
  removelast (evs ls) = excl_prefix ls /\ tl (evs ls) = tl (excl_prefix ls) ++ [zsum ls] /\ interior (evs ls) = tl (excl_prefix ls)
  /\ hd 0 (excl_prefix ls) = 0.
Proof.
  intros H. unfold evs, interior. rewrite removelast_last. destruct ls as [|l ls]; [congruence|].
  rewrite excl_cons. cbn [tl app hd]. repeat split.
Qed.
Lemma rl_len_evs {X} ls (vs : list X) : ls <> [] -> rl_len (evs ls, vs) = zsum ls.
Proof.
  intros H. unfold rl_len, evs. cbn [fst]. destruct ls as [|l0 ls']; [congruence|]. rewrite excl_cons. cbn [app tl].
  destruct (map (Z.add l0) (excl_prefix ls') ++ [zsum (l0 :: ls')]) eqn:E; [destruct (map _ _); discriminate|].
  rewrite <- E. change (0 :: map (Z.add l0) (excl_prefix ls') ++ [zsum (l0 :: ls')]) with ((0 :: map (Z.add l0) (excl_prefix ls')) ++ [zsum (l0 :: ls')]).
  apply last_last.
Qed.

Lemma starts_range ls (vs : list A) : canon A ls vs -> Forall (fun s => 0 <= s < zsum ls) (excl_prefix ls).
Proof.
  intros [Hl _]. assert (Hnn : all_nonneg ls) by (eapply Forall_impl; [|exact Hl]; cbn; intros; lia).
  apply Forall_forall. intros s Hs. apply In_nth with (d := 0) in Hs. destruct Hs as (j & Hj & <-).
  unfold excl_prefix in Hj. rewrite excl_from_length in Hj.
  assert (Hin : In (nth j (excl_prefix ls) 0, nth j ls 0) (combine (excl_prefix ls) ls)).
  { rewrite <- (combine_nth (excl_prefix ls) ls j 0 0) by (unfold excl_prefix; now rewrite excl_from_length).
    apply nth_In. rewrite combine_length. unfold excl_prefix. rewrite excl_from_length. lia. }
  pose proof (MaterialiseWF.contig_rows_bounds ls 0 _ _ Hnn ltac:(lia) Hin) as Hbd.
  assert (1 <= nth j ls 0) by (rewrite Forall_forall in Hl; apply Hl; now apply nth_In). lia.
Qed.

Lemma dense_starts {X} (dx : X) ls (vs : list X) : canon X ls vs -> map (dense X dx vs ls) (excl_prefix ls) = vs.
Proof.
  intros Hc. pose proof Hc as [_ Hlen]. apply (nth_ext _ _ dx dx).
  - rewrite map_length. unfold excl_prefix. rewrite excl_from_length. lia.
  - intros j Hj. rewrite map_length in Hj. unfold excl_prefix in Hj. rewrite excl_from_length in Hj.
    rewrite (nth_indep _ dx (dense X dx vs ls 0)) by (rewrite map_length; unfold excl_prefix; rewrite excl_from_length; lia).
    rewrite (map_nth (dense X dx vs ls) (excl_prefix ls) 0 j). now apply dense_at_start.
Qed.

Lemma map2_maps {X Y W U} (h : X -> Y -> W) (p : U -> X) (q : U -> Y) (l : list U) :
  map2 h (map p l) (map q l) = map (fun u => h (p u) (q u)) l.
Proof. induction l as [|u l IH]; [reflexivity|]. cbn [map map2]. now rewrite IH. Qed.

(* every value the code computes is f of the two dense arrays at its own boundary *)
Lemma values_char :
  f (hd da vA) (hd db vB)
    :: map2 f (tl vA) (map (fun i => nth (Z.to_nat i) vB db) (map (fun e => ssr (evs lsB) e - 1) (interior (evs lsA))))
    ++ map2 f (map (fun i => nth (Z.to_nat i) vA da) (map (fun e => ssr (evs lsA) e - 1) (interior (evs lsB)))) (tl vB)
  = map g (sA ++ tl sB).
Proof.
  destruct (evs_parts lsA HneA) as (_ & _ & HiA & HhA). destruct (evs_parts lsB HneB) as (_ & _ & HiB & HhB).
  rewrite HiA, HiB. unfold sA, sB.
  pose proof (dense_starts da lsA vA HcA) as HdA. pose proof (dense_starts db lsB vB HcB) as HdB.
  pose proof (starts_range lsA vA HcA) as HrA.
  assert (HrB : Forall (fun s => 0 <= s < zsum lsB) (excl_prefix lsB)).
  { destruct HcB as [Hl _]. assert (Hnn : all_nonneg lsB) by (eapply Forall_impl; [|exact Hl]; cbn; intros; lia).
    apply Forall_forall. intros s Hs. apply In_nth with (d := 0) in Hs. destruct Hs as (j & Hj & <-).
    unfold excl_prefix in Hj. rewrite excl_from_length in Hj.
    assert (Hin : In (nth j (excl_prefix lsB) 0, nth j lsB 0) (combine (excl_prefix lsB) lsB)).
    { rewrite <- (combine_nth (excl_prefix lsB) lsB j 0 0) by (unfold excl_prefix; now rewrite excl_from_length).
      apply nth_In. rewrite combine_length. unfold excl_prefix. rewrite excl_from_length. lia. }
    pose proof (MaterialiseWF.contig_rows_bounds lsB 0 _ _ Hnn ltac:(lia) Hin) as Hbd.
    assert (1 <= nth j lsB 0) by (rewrite Forall_forall in Hl; apply Hl; now apply nth_In). lia. }
  remember (excl_prefix lsA) as SA eqn:ESA. remember (excl_prefix lsB) as SB eqn:ESB.
  (* heads *)
  destruct SA as [|a0 sA']; [unfold excl_prefix in ESA; destruct lsA; [congruence|discriminate]|].
  destruct SB as [|b0 sB']; [unfold excl_prefix in ESB; destruct lsB; [congruence|discriminate]|].
  cbn [hd] in HhA, HhB. subst a0 b0. cbn [tl map app].
  assert (HA : hd da vA = dense A da vA lsA 0 /\ tl vA = map (dense A da vA lsA) sA').
  { generalize HdA. generalize (dense A da vA lsA). intros h H. rewrite <- H. cbn. split; reflexivity. }
  assert (HB : hd db vB = dense B db vB lsB 0 /\ tl vB = map (dense B db vB lsB) sB').
  { generalize HdB. generalize (dense B db vB lsB). intros h H. rewrite <- H. cbn. split; reflexivity. }
  destruct HA as [HA0 HA']. destruct HB as [HB0 HB']. rewrite HA0, HB0, HA', HB'.
  inversion HrA as [|? ? _ HrA']; subst. inversion HrB as [|? ? _ HrB']; subst.
  f_equal. rewrite map_app. f_equal.
  - rewrite map_map, map2_maps. apply map_ext_in. intros e He. unfold g. f_equal.
    rewrite Forall_forall in HrA'. specialize (HrA' e He). apply (lookup_dense B db lsB); [assumption|lia].
  - rewrite map_map, map2_maps. apply map_ext_in. intros e He. unfold g. f_equal.
    rewrite Forall_forall in HrB'. specialize (HrB' e He). apply (lookup_dense A da lsA); [assumption|lia].
Qed.

Lemma combine_map_some {X Y} (l : list X) (h : X -> Y) (x : X) :
  combine (l ++ [x]) (map Some (map h l) ++ [None]) = map (fun e => (e, Some (h e))) l ++ [(x, None)].
Proof. induction l as [|a l IH]; [reflexivity|]. cbn [app map combine]. now rewrite IH. Qed.

Lemma all_some_values (S0 : list (Z * option C)) :
  Forall (fun p => snd p = Some (g (fst p))) S0 ->
  flat_map (fun p => match snd p with Some v => [v] | None => [] end) S0 = map g (map fst S0).
Proof. induction 1 as [|p S0 Hp _ IH]; [reflexivity|]. cbn [flat_map map]. rewrite Hp, IH. reflexivity. Qed.

Lemma dense_map2 : map g (ap 0 n 1) = map2 f (spec_broadcast A vA lsA) (spec_broadcast B vB lsB).
Proof.
  assert (Hl : forall X (vs : list X) ls, canon X ls vs -> zlen (spec_broadcast X vs ls) = zsum ls).
  { intros X vs ls [Hl Hlen]. revert vs Hlen. induction Hl as [|l ls Hl0 _ IH]; intros [|v vs] Hlen; try discriminate; [reflexivity|].
    unfold spec_broadcast in *. cbn [map2 concat zsum]. unfold zlen in *. rewrite app_length, repeat_length, Nat2Z.inj_add, IH by (cbn in Hlen; lia). lia. }
  pose proof (Hl A vA lsA HcA) as HlA. pose proof (Hl B vB lsB HcB) as HlB. rewrite <- Hn in HlB. fold n in HlA, HlB.
  unfold g, dense. generalize dependent (spec_broadcast B vB lsB). generalize dependent (spec_broadcast A vA lsA). intros DA HA DB HB.
  assert (G : forall (DA : list A) (DB : list B) s, zlen DA = zlen DB ->
              map (fun p => f (nth (Z.to_nat (p - s)) DA da) (nth (Z.to_nat (p - s)) DB db)) (ap s (zlen DA) 1) = map2 f DA DB).
  { clear. induction DA as [|a DA IH]; intros [|b DB] s H; try (unfold zlen in H; cbn in H; lia); [reflexivity|].
    unfold ap. unfold zlen at 1. rewrite Nat2Z.id. cbn [length ap_nat map map2]. f_equal; [replace (s - s) with 0 by lia; reflexivity|].
    specialize (IH DB (s + 1) ltac:(unfold zlen in *; cbn [length] in H; lia)). unfold ap in IH. unfold zlen in IH at 1. rewrite Nat2Z.id in IH.
    rewrite <- IH. apply map_ext_in. intros p Hp.
    assert (s + 1 <= p). { apply In_nth with (d := 0) in Hp. destruct Hp as (k & Hk & <-). rewrite SliceAP.ap_nat_length in Hk. rewrite SliceAP.ap_nat_nth by assumption. lia. }
    replace (Z.to_nat (p - s)) with (S (Z.to_nat (p - (s + 1)))) by lia. reflexivity. }
  specialize (G DA DB 0 ltac:(lia)). rewrite HA in G. rewrite <- G. apply map_ext. intros p. now replace (p - 0) with p by lia.
Qed.

Lemma wi_head_min l x : wi (x :: l) -> Forall (fun z => x <= z) l.
Proof.
  revert x; induction l as [|z l IHl]; intros y H; [constructor|]. destruct H as [H1 H2]. constructor; [exact H1|].
  eapply Forall_impl; [|apply (IHl z H2)]. cbn; intros; lia.
Qed.

Theorem apply_binary_correct :
  exists r, apply_binary A B C da db ceqb f (evs lsA, vA) (evs lsB, vB) = Ok r /\
            decode C r = map2 f (spec_broadcast A vA lsA) (spec_broadcast B vB lsB) /\
            CanonProof.no_adj C ceqb (snd r).
Proof.
  unfold apply_binary. rewrite !rl_len_evs by assumption. replace (zsum lsA =? zsum lsB) with true by lia. cbn [negb].
  destruct (evs_parts lsA HneA) as (HrlA & _ & _ & _). destruct (evs_parts lsB HneB) as (_ & HtlB & _ & HhB).
  rewrite values_char. rewrite HrlA, HtlB. fold sA sB.
  set (E0 := sA ++ tl sB).
  rewrite app_assoc. fold E0. rewrite <- Hn. fold n.
  rewrite (combine_map_some E0 g n).
  (* every boundary is below n *)
  assert (HE0 : Forall (fun e => 0 <= e < n) E0).
  { unfold E0. apply Forall_app. split; [apply (starts_range lsA vA HcA)|].
    assert (HrB : Forall (fun s => 0 <= s < n) sB).
    { unfold n. rewrite Hn. destruct HcB as [Hl _]. assert (Hnn : all_nonneg lsB) by (eapply Forall_impl; [|exact Hl]; cbn; intros; lia).
      apply Forall_forall. intros s Hs. apply In_nth with (d := 0) in Hs. destruct Hs as (j & Hj & <-).
      unfold sB, excl_prefix in Hj. rewrite excl_from_length in Hj.
      assert (Hin : In (nth j (excl_prefix lsB) 0, nth j lsB 0) (combine (excl_prefix lsB) lsB)).
      { rewrite <- (combine_nth (excl_prefix lsB) lsB j 0 0) by (unfold excl_prefix; now rewrite excl_from_length).
        apply nth_In. rewrite combine_length. unfold excl_prefix. rewrite excl_from_length. lia. }
      pose proof (MaterialiseWF.contig_rows_bounds lsB 0 _ _ Hnn ltac:(lia) Hin) as Hbd.
      assert (1 <= nth j lsB 0) by (rewrite Forall_forall in Hl; apply Hl; now apply nth_In). unfold sB. lia. }
    destruct sB; [constructor|]. inversion HrB; assumption. }
  set (L := map (fun e => (e, Some (g e))) E0).
  rewrite (sort_with_max L (n, None)) by (unfold L; apply Forall_map; eapply Forall_impl; [|exact HE0]; cbn; intros; lia).
  rewrite removelast_last, map_app. cbn [map fst].
  set (S0 := stable_sort L).
  assert (Hperm : Permutation L S0) by apply sort_perm.
  assert (Hsorted : sorted_keys S0) by apply sort_sorted.
  assert (Hvals : Forall (fun p => snd p = Some (g (fst p))) S0).
  { apply (Permutation_Forall Hperm). unfold L. apply Forall_map. apply Forall_forall. intros; reflexivity. }
  rewrite (all_some_values S0 Hvals). set (E := map fst S0).
  assert (HpermE : Permutation E0 E).
  { unfold E. replace E0 with (map fst L) by (unfold L; rewrite map_map; cbn [fst]; apply map_id). now apply Permutation_map. }
  assert (HwiE : wi E) by (unfold E; now apply sorted_keys_wi).
  assert (HEr : Forall (fun e => 0 <= e < n) E) by (apply (Permutation_Forall HpermE); exact HE0).
  (* the run-length array before canonicalisation *)
  assert (Hlen : length (E ++ [n]) = S (length (map g E))) by (rewrite app_length, map_length; cbn; lia).
  assert (Hwi : wi (E ++ [n])) by (apply wi_app_last; [exact HwiE|eapply Forall_impl; [|exact HEr]; cbn; intros; lia]).
  destruct (remove_empty_decode C (E ++ [n]) (map g E) Hlen) as (Hd1 & Hl1 & _).
  pose proof (remove_empty_wi (E ++ [n]) (map g E) Hlen Hwi) as Hw1.
  destruct (remove_empty C (E ++ [n]) (map g E)) as [ev2 vs2] eqn:Ere. cbn [fst snd] in *.
  eexists. split; [reflexivity|]. split.
  - rewrite (join_runs_decode C ceqb ceqb_eq ev2 vs2 Hl1 Hw1), Hd1.
    (* decode of the merged list = g on every position *)
    rewrite <- dense_map2.
    assert (HinE : In 0 E). { apply (Permutation_in 0 HpermE). unfold E0. apply in_or_app. left. unfold sA. destruct lsA; [congruence|]. rewrite excl_cons. now left. }
    destruct E as [|e0 E'] eqn:EE; [contradiction|].
    assert (He0 : e0 = 0).
    { pose proof (wi_head_min E' e0 HwiE) as Hmin. destruct HinE as [->|Hin]; [reflexivity|]. rewrite Forall_forall in Hmin. specialize (Hmin 0 Hin).
      inversion HEr; subst. lia. }
    subst e0. unfold RLE.decode. cbn [fst snd app].
    rewrite (step_decode C g E' 0 n).
    + now replace (n - 0) with n by lia.
    + exact Hwi.
    + (* g is constant between consecutive boundaries *)
      intros e e' (pre & post & Eq) p Hp. unfold g.
      assert (Hall : forall x, In x (0 :: E' ++ [n]) -> x <= p -> x <= e).
      { intros x Hx Hxp. cbn [app] in Eq. rewrite Eq in Hx. eapply (wi_middle pre e e' post x p); eauto; [|lia].
        change (wi (0 :: E' ++ [n])) in Hwi. now rewrite Eq in Hwi. }
      assert (Hein : In e (0 :: E')).
      { assert (In e (0 :: E' ++ [n])) by (cbn [app] in Eq; rewrite Eq; apply in_or_app; right; now left).
        change (0 :: E' ++ [n]) with ((0 :: E') ++ [n]) in H. apply in_app_or in H. destruct H as [H|[H|[]]]; [exact H|].
        exfalso. subst e. assert (In e' (0 :: E' ++ [n])) by (cbn [app] in Eq; rewrite Eq; apply in_or_app; right; right; now left).
        assert (e' <= n). { change (0 :: E' ++ [n]) with ((0 :: E') ++ [n]) in H. apply in_app_or in H. destruct H as [H|[H|[]]]; [|lia].
          rewrite Forall_forall in HEr. specialize (HEr e' H). lia. } lia. }
      assert (Her : 0 <= e < n) by (rewrite Forall_forall in HEr; now apply HEr).
      assert (Hpn : p < n).
      { assert (In e' (0 :: E' ++ [n])) by (cbn [app] in Eq; rewrite Eq; apply in_or_app; right; right; now left).
        change (0 :: E' ++ [n]) with ((0 :: E') ++ [n]) in H. apply in_app_or in H. destruct H as [H|[H|[]]]; [|lia].
        rewrite Forall_forall in HEr. specialize (HEr e' H). lia. }
      f_equal.
      * apply (dense_same_run A da lsA vA); [assumption|lia|lia|]. symmetry. apply ssr_between; [lia|].
        intros x Hx Hxp. apply Hall; [|exact Hxp].
        unfold evs in Hx. apply in_app_or in Hx. destruct Hx as [Hx|[Hx|[]]]; [|fold n in Hx; lia].
        change (0 :: E' ++ [n]) with ((0 :: E') ++ [n]). apply in_or_app. left. apply (Permutation_in x HpermE). unfold E0. apply in_or_app. now left.
      * apply (dense_same_run B db lsB vB); [assumption|lia|lia|]. symmetry. apply ssr_between; [lia|].
        intros x Hx Hxp. apply Hall; [|exact Hxp].
        unfold evs in Hx. apply in_app_or in Hx. destruct Hx as [Hx|[Hx|[]]]; [|rewrite <- Hn in Hx; fold n in Hx; lia].
        change (0 :: E' ++ [n]) with ((0 :: E') ++ [n]). apply in_or_app. left.
        (* a start of B is either 0 (also a start of A) or an interior start *)
        assert (Hcase : x = hd 0 (excl_prefix lsB) \/ In x (tl (excl_prefix lsB))).
        { destruct (excl_prefix lsB) as [|b0 l']; [contradiction|]. destruct Hx as [<-|Hx]; [now left|now right]. }
        rewrite HhB in Hcase. destruct Hcase as [->|Hx']; [exact HinE|].
        apply (Permutation_in x HpermE). unfold E0. apply in_or_app. right. exact Hx'.
  - now apply join_runs_canonical.
Qed.
End Bin.
Print Assumptions apply_binary_correct.
