From NPS Require Import ListAux PySlice NumpySem Scatter BuildIdx View Index XorBroadcast Reduce RLE RLEOps Scan.
Open Scope Z_scope.

(* array functions on a materialised RaggedArray: flat data + row lengths (starts = excl_prefix lens) *)
Definition flat_ra (A : Type) := (list A * list Z)%type.
Definition fr_rows {A} (a : flat_ra A) : list (list A) := segments (fst a) (snd a).
Definition fr_of_rows {A} (r : list (list A)) : flat_ra A := (concat r, map zlen r).

(* ---------------- C04: __array_ufunc__ "__call__" (L291-333) ---------------- *)
Inductive operand (B : Type) := OScalar (v : B) | OCol (l : list B) | ORagged (a : flat_ra B).
Arguments OScalar {B}. Arguments OCol {B}. Arguments ORagged {B}.
Section Ufunc.
Variable A B C : Type.
Variable bzero : B. Variable bxor : B -> B -> B.
Variable f : A -> B -> C.
Definition expand_operand (lens : list Z) (n : nat) (o : operand B) : res (list B) :=
  match o with
  | OScalar v => Ok (repeat v n)
  | OCol [v] => Ok (repeat v n)                                  (* values.size == 1 *)
  | OCol l => if Nat.eqb (length l) (length lens) then Ok (raw_broadcast B bzero bxor l lens) else Refused
  | ORagged (d, lens') => if list_eq_dec Z.eq_dec lens' lens then Ok d else Refused   (* _shape != _shape *)
  end.
Definition ufunc2 (x : flat_ra A) (y : operand B) : res (flat_ra C) :=
  rmap (fun ys => (map2 f (fst x) ys, snd x)) (expand_operand (snd x) (length (fst x)) y).
Definition spec_ufunc2 (x : list (list A)) (y : operand B) : res (list (list C)) :=
  match y with
  | OScalar v => Ok (map (map (fun a => f a v)) x)
  | OCol [v] => Ok (map (map (fun a => f a v)) x)
  | OCol l => if Nat.eqb (length l) (length x) then Ok (map2 (fun r v => map (fun a => f a v) r) x l) else Refused
  | ORagged b => if list_eq_dec Z.eq_dec (snd b) (map zlen x) then Ok (map2 (map2 f) x (fr_rows b)) else Refused
  end.
End Ufunc.

(* ---------------- C05 wrappers: mean / argmax / argmin on integer rows (after repairs F3, F3b) ------------- *)
Definition first_index_of (v : Z) (l : list Z) : Z :=
  (fix go (i : Z) (l : list Z) := match l with [] => i | x :: r => if x =? v then i else go (i + 1) r end) 0 l.
Definition zmax_list (l : list Z) : Z := match l with [] => 0 | x :: r => fold_left Z.max r x end.
Definition zminl (l : list Z) : Z := match l with [] => 0 | x :: r => fold_left Z.min r x end.
(* one entry per NON-EMPTY row, in row order *)
Definition argmax_rows (rows : list (list Z)) : list Z :=
  flat_map (fun r => match r with [] => [] | _ => [first_index_of (zmax_list r) r] end) rows.
Definition argmin_rows (rows : list (list Z)) : list Z :=
  flat_map (fun r => match r with [] => [] | _ => [first_index_of (zminl r) r] end) rows.

(* ---------------- C07: diff (arrayfunctions.py L79-95) ---------------- *)
Fixpoint diff1 (l : list Z) : list Z := match l with x :: ((y :: _) as r) => (y - x) :: diff1 r | _ => [] end.
Fixpoint np_diff (n : nat) (l : list Z) : list Z := match n with O => l | S n' => np_diff n' (diff1 l) end.
Definition ra_diff (n : Z) (a : flat_ra Z) : res (flat_ra Z) :=
  let d := np_diff (Z.to_nat n) (fst a) in
  let lens' := map (fun l => Z.max (l - n) 0) (snd a) in
  let g := GRows (combine (excl_prefix (snd a)) lens') in
  rmap (fun d' => (d', lens')) (np_take d (flat_indices g)).
Definition spec_diff (n : Z) (rows : list (list Z)) : list (list Z) := map (np_diff (Z.to_nat n)) rows.

(* ---------------- C07: sort (L559-564) : lexsort((flat, index_array)) ---------------- *)
(* index_array L153-158: bincount(starts[1:], minlength=size+1), cumsum, [:-1] *)
Definition bincount_z (n : nat) (idx : list Z) : list Z :=
  map (fun p => Z.of_nat (length (filter (Z.eqb (Z.of_nat p)) idx))) (seq 0 n).
Definition index_array (lens : list Z) : list Z :=
  let size := zsum lens in
  removelast (cumsum (bincount_z (Z.to_nat (size + 1)) (tl (excl_prefix lens)))).
(* np.lexsort((values, rowids)): stable sort by values, then stable sort by rowids *)
Definition lexsort2 (vals rowids : list Z) : list Z :=
  let pos := ap 0 (zlen vals) 1 in
  let by_val := map snd (stable_sort (combine vals pos)) in
  map snd (stable_sort (map (fun p => (nth (Z.to_nat p) rowids 0, p)) by_val)).
Definition ra_sort (a : flat_ra Z) : res (flat_ra Z) :=
  let args := lexsort2 (fst a) (index_array (snd a)) in
  rmap (fun d => (d, snd a)) (np_take (fst a) args).
Definition spec_sort (rows : list (list Z)) : list (list Z) :=
  map (fun r => map fst (stable_sort (map (fun x => (x, tt)) r))) rows.

(* ---------------- C07: unique (arrayfunctions.py L190-231) ---------------- *)
Definition zznth (l : list Z) (i : Z) : Z := nth (Z.to_nat i) l 0.
(* numpy fancy read with negative wrap (ends-1 = -1 for a leading empty row reads the last element) *)
Definition wrap_get (l : list Z) (i : Z) : Z := zznth l (if i <? 0 then zlen l + i else i).
Definition ra_unique (a : flat_ra Z) : res (flat_ra Z * flat_ra Z) :=
  let '(d, lens) := a in
  if zsum lens =? 0 then Ok ((d, lens), ([], lens)) else
  rbind (ra_sort a) (fun s =>
  let sd := fst s in
  let starts := excl_prefix lens in
  let ends := map2 Z.add starts lens in
  (* unique_mask = [True] ++ (sd[:-1] != sd[1:]) ++ [True]; mask[starts] = True *)
  let m0 := (1 :: map2 (fun x y => if x =? y then 0 else 1) (removelast sd) (tl sd)) ++ [1] in
  let m := scatter_set m0 starts (map (fun _ => 1) starts) in
  let counts := diff1 (flatnonzero (map (fun b => negb (b =? 0)) m)) in
  let total := cumsum m in
  let start_counts := map (fun s => zznth total s - 1) starts in
  let total' := set_last total 0 in                                       (* HAHAHACK *)
  let end_counts := map (fun e => wrap_get total' (e - 1)) ends in
  let new_lens := map2 Z.sub end_counts start_counts in
  let new_data := mask_filter sd (map (fun b => negb (b =? 0)) (removelast m)) in
  Ok ((new_data, new_lens), (counts, new_lens))).
Fixpoint dedup_sorted (l : list Z) : list (Z * Z) :=      (* (value, multiplicity) of a sorted list *)
  match l with
  | [] => []
  | x :: r => match dedup_sorted r with
              | (y, c) :: t => if x =? y then (y, c + 1) :: t else (x, 1) :: (y, c) :: t
              | [] => [(x, 1)]
              end
  end.
Definition spec_unique (rows : list (list Z)) : list (list Z) * list (list Z) :=
  let u := map (fun r => dedup_sorted (map fst (stable_sort (map (fun x => (x, tt)) r)))) rows in
  (map (map fst) u, map (map snd) u).

(* ---------------- C08 ---------------- *)
Definition ra_concat0 {A} (xs : list (flat_ra A)) : flat_ra A := (flat_map fst xs, flat_map snd xs).
Definition ra_nonzero (a : flat_ra Z) : list Z * list Z :=
  let flat_idx := flatnonzero (map (fun x => negb (x =? 0)) (fst a)) in
  let starts := excl_prefix (snd a) in
  let rows := map (fun p => ssr starts p - 1) flat_idx in                 (* unravel_multi_index *)
  (rows, map2 (fun p r => p - zznth starts r) flat_idx rows).
Definition spec_nonzero (rows : list (list Z)) : list Z * list Z :=
  let cells := concat (map (fun ir => map (fun jc => (fst ir, fst jc, snd jc)) (combine (ap 0 (zlen (snd ir)) 1) (snd ir)))
                            (combine (ap 0 (zlen rows) 1) rows)) in
  let nz := filter (fun c => negb (snd c =? 0)) cells in
  (map (fun c => fst (fst c)) nz, map (fun c => snd (fst c)) nz).
(* per-row run detection: mask of positions where the value changes, first position forced *)
Fixpoint change_mask (prev : option Z) (l : list Z) : list bool :=
  match l with [] => [] | x :: r => (match prev with None => true | Some p => negb (p =? x) end) :: change_mask (Some x) r end.
Definition run_starts (row : list Z) : list Z := flatnonzero (change_mask None row).

(* argmax / argmin L509-521 (after repairs F3, F3b): compare with the row extremum, nonzero, first occurrence per row id *)
Definition eq_rows (R : list (list Z)) (ms : list Z) : list (list Z) :=
  map2 (fun r m => map (fun x => if x =? m then 1 else 0) r) R ms.
Definition arg_model (R : list (list Z)) (ms : list Z) : list Z :=
  let '(rs, cs) := ra_nonzero (fr_of_rows (eq_rows R ms)) in          (* np.nonzero(self == m) *)
  map (fun i => nth (Z.to_nat i) cs 0) (run_starts rs).               (* np.unique(rows, return_index=True); cols[idxs] *)
(* subset L135-141: data[mask], lengths = row sums of the mask (through C05's reduction) *)
Definition ra_subset {A} (a : flat_ra A) (mask : list bool) : res (flat_ra A) :=
  match reduce_model Z 0 Z.add 0 (map (fun b : bool => if b then 1 else 0) mask) (snd a) with
  | Some ls => Ok (mask_filter (fst a) mask, ls)
  | None => Refused
  end.
Definition spec_subset {A} (rows : list (list A)) (mrows : list (list bool)) : list (list A) :=
  map2 (@mask_filter A) rows mrows.
(* ragged_slice L5-32 on a RaggedArray: per-row windows, negative ends from the row end *)
Definition ra_ragged_slice {A} (a : flat_ra A) (starts ends : list Z) : res (flat_ra A) :=
  let bs := excl_prefix (snd a) in
  let be := map2 Z.add bs (snd a) in
  let st := map2 Z.add bs starts in
  let en := map2 (fun e p => if e <? 0 then snd p + e else Z.min (fst p + e) (snd p)) ends (combine bs be) in
  let lens := map2 (fun e s => Z.max (e - s) 0) en st in
  rmap (fun d => (d, lens)) (np_take (fst a) (flat_indices (GRows (combine st lens)))).
(* the part of ragged_slice that all input kinds share: base_starts / base_ends are the bounds of the region of `data` every window lives in *)
Definition rslice_gen {A} (data : list A) (bs be starts ends : list Z) : res (flat_ra A) :=
  let st := map2 Z.add bs starts in
  let en := map2 (fun e p => if e <? 0 then snd p + e else Z.min (fst p + e) (snd p)) ends (combine bs be) in
  let lens := map2 (fun e s => Z.max (e - s) 0) en st in
  rmap (fun d => (d, lens)) (np_take data (flat_indices (GRows (combine st lens)))).
(* a 1-D input: every window is cut from the same array (base_starts = 0, base_ends = size, broadcast to one per window) *)
Definition ra_ragged_slice_1d {A} (d : list A) (starts ends : list Z) : res (flat_ra A) :=
  rslice_gen d (map (fun _ => 0) starts) (map (fun _ => zlen d) starts) starts ends.
(* a 2-D input with rows of width w: base_starts = arange(n) * w, base_ends = base_starts + w, on the flattened matrix *)
Definition ra_ragged_slice_2d {A} (M : list (list A)) (w : Z) (starts ends : list Z) : res (flat_ra A) :=
  let bs := map (fun i => Z.of_nat i * w) (seq 0 (length M)) in
  rslice_gen (concat M) bs (map (fun b => b + w) bs) starts ends.
Definition spec_ragged_slice {A} (rows : list (list A)) (starts ends : list Z) : list (list A) :=
  map2 (fun r se => let '(s, e) := se in
                    let e' := if e <? 0 then zlen r + e else Z.min e (zlen r) in
                    ztake (Z.max (e' - s) 0) (zdrop s r)) rows (combine starts ends).
(* _as_padded_matrix L566-583 *)
Definition ra_padded (a : flat_ra Z) (fill : Z) (left : bool) : res (list (list Z)) :=
  let '(d, lens) := a in
  let starts := excl_prefix lens in
  let ends := map2 Z.add starts lens in
  let mx := fold_left Z.max lens (hd 0 lens) in
  let vstarts := if left then map (fun e => e - mx) ends else starts in
  let lastend := last ends 0 in
  let idx := flat_map (fun s => map (fun k => Z.min (s + k) (lastend - 1)) (ap 0 mx 1)) vstarts in
  rbind (np_take d idx) (fun arr =>
  let zs := map (fun i => i * mx) (ap 0 (zlen lens) 1) in
  let zl := map (fun l => mx - l) lens in
  let zs := if left then zs else map2 Z.add zs lens in
  let zeroed := flat_indices (GRows (combine zs zl)) in
  Ok (segments (scatter_set arr zeroed (map (fun _ => fill) zeroed)) (map (fun _ => mx) lens))).
Definition spec_padded (rows : list (list Z)) (fill : Z) (left : bool) : list (list Z) :=
  let mx := fold_left Z.max (map zlen rows) 0 in
  map (fun r => let pad := repeat fill (Z.to_nat (mx - zlen r)) in if left then pad ++ r else r ++ pad) rows.

(* ---------------- C09 ---------------- *)
Definition ra_colsum (a : flat_ra Z) : list Z :=
  let starts := excl_prefix (snd a) in
  let size := zsum (snd a) in
  let cols := map (fun p => p - zznth starts (ssr starts p - 1)) (ap 0 size 1) in
  let mx := fold_left Z.max (snd a) (hd 0 (snd a)) in
  map (fun j => zsum (map2 (fun c w => if c =? j then w else 0) cols (fst a))) (ap 0 mx 1).
Definition ra_col_counts (lens : list Z) : list Z :=
  let mx := fold_left Z.max lens (hd 0 lens) in
  let counts := map Z.opp (bincount_z (Z.to_nat (mx + 1)) lens) in
  let counts := match counts with c :: r => (c + zlen lens) :: r | [] => [] end in
  removelast (cumsum counts).
Definition spec_colsum (rows : list (list Z)) : list Z :=
  let mx := fold_left Z.max (map zlen rows) 0 in
  map (fun j => zsum (flat_map (fun r => if j <? zlen r then [zznth r j] else []) rows)) (ap 0 mx 1).
Definition spec_col_counts (rows : list (list Z)) : list Z :=
  let mx := fold_left Z.max (map zlen rows) 0 in
  map (fun j => zlen (filter (fun r => j <? zlen r) rows)) (ap 0 mx 1).
