From Coq Require Import ZArith Bool List Lia ZifyBool.
From NPS Require Import ListAux PySlice NumpySem BuildIdx RLE RLEOps RLE2d Kernels K_rle.
Import ListNotations.
Open Scope Z_scope.
(* Tie 1 for C14-C17: scalar arithmetic of runlengtharray.py re-translated from the CURRENT source = the definitions of Model/RLEOps.v and
   Model/RLE2d.v that the theorems are about.  The value lemmas are decision procedures (case split on every test, then congruence of
   the arithmetic with lia at the leaves), so equivalent rewrites of the code do not break them. *)
Ltac same := match goal with |- ?a = ?a => reflexivity | |- _ => solve [lia] | |- _ => f_equal; same end.

(* RunLengthArray._get_position: the negative wrap of the index, as in Model/RLEOps.v get_position *)
Lemma tie_rle_wrap idx n : gen_rle_wrap idx n = (if idx <? 0 then n + idx else idx).
Proof. unfold gen_rle_wrap. brk; lia. Qed.

Remark map2_snd_only {X Y W} (g : Y -> W) : forall (l : list X) (l' : list Y), length l = length l' -> map2 (fun _ y => g y) l l' = map g l'.
Proof. induction l as [|x l IH]; intros [|y l'] H; cbn in *; try discriminate; [reflexivity|]. f_equal. apply IH. lia. Qed.
Remark map2_fst_only {X Y W} (g : X -> W) : forall (l : list X) (l' : list Y), length l = length l' -> map2 (fun x _ => g x) l l' = map g l.
Proof. induction l as [|x l IH]; intros [|y l'] H; cbn in *; try discriminate; [reflexivity|]. f_equal. apply IH. lia. Qed.
Remark map2_ext {X Y W} (f g : X -> Y -> W) : (forall x y, f x y = g x y) -> forall l l', map2 f l l' = map2 g l l'.
Proof. intros H. induction l as [|x l IH]; intros [|y l']; cbn; try reflexivity. now rewrite H, IH. Qed.

(* RunLengthArray._get_slice: which window is cut out (None: the empty result), from slice.indices and the step *)
Lemma tie_rle_slice_bounds s0 e0 (st : option Z) :
  gen_rle_slice_bounds s0 e0 st =
  let step := match st with None => 1 | Some k => k end in
  let '(s, e) := if step <? 0 then (e0 + 1, s0 + 1) else (s0, e0) in
  if s >=? e then None else Some (s, e).
Proof. unfold gen_rle_slice_bounds. destruct st as [k|]; cbv zeta; brk; try lia; try reflexivity; same. Qed.
Lemma tie_rle_get_slice (A : Type) (eqb : A -> A -> bool) (r : rla A) (sl : pyslice) : step_of sl <> 0 ->
  get_slice A eqb r sl =
  match gen_rle_slice_bounds (py_start (rl_len r) sl) (py_stop (rl_len r) sl) (sl_step sl) with
  | None => Ok ([0], [])
  | Some (s, e) => Ok (if step_of sl =? 1 then start_to_end A r s e else step_subset A eqb (start_to_end A r s e) (step_of sl))
  end.
Proof.
  intros Hk. rewrite tie_rle_slice_bounds. unfold get_slice. replace (step_of sl =? 0) with false by lia.
  unfold step_of in *. cbv zeta. destruct (match sl_step sl with Some k => k | None => 1 end <? 0).
  - destruct (py_stop _ _ + 1 >=? py_start _ _ + 1); reflexivity.
  - destruct (py_start _ _ >=? py_stop _ _); reflexivity.
Qed.

(* RunLengthArray._step_subset: the new position of every boundary *)
Lemma tie_rle_step_idx x xr lst step : gen_rle_step_idx x xr lst step = ((if step <? 0 then lst - xr else x) + Z.abs step - 1) / Z.abs step.
Proof. unfold gen_rle_step_idx. cbv zeta. brk; try lia; same. Qed.
Lemma tie_rle_step_subset (A : Type) (eqb : A -> A -> bool) (r : rla A) (step : Z) :
  step_subset A eqb r step =
  let idx := map2 (fun x xr => gen_rle_step_idx x xr (last (fst r) 0) step) (fst r) (rev (fst r)) in
  let '(ev, vs) := remove_empty A idx (if step <? 0 then rev (snd r) else snd r) in
  join_runs A eqb ev vs.
Proof.
  cbv zeta. rewrite (map2_ext _ _ (fun x xr => tie_rle_step_idx x xr (last (fst r) 0) step)).
  unfold step_subset. destruct r as [ev vs]. cbn [fst snd]. destruct (step <? 0) eqn:E.
  - rewrite (map2_snd_only (fun xr => (last ev 0 - xr + Z.abs step - 1) / Z.abs step)) by now rewrite rev_length.
    rewrite map_map. reflexivity.
  - rewrite (map2_fst_only (fun x => (x + Z.abs step - 1) / Z.abs step)) by now rewrite rev_length. reflexivity.
Qed.

(* IndexableMixin._step_subset (rows of a 2-D / ragged run-length array) *)
Lemma tie_rl2_step_idx x xr lst step :
  gen_rl2_step_idx x xr lst step = let i := if step <? 0 then lst - xr else x in if Z.abs step =? 1 then i else (i + Z.abs step - 1) / Z.abs step.
Proof. unfold gen_rl2_step_idx. cbv zeta. brk; try lia; same. Qed.
Lemma tie_rl2_step_subset_row (step : Z) (ev vs : list Z) :
  step_subset_row step ev vs =
  remove_empty_row (map2 (fun x xr => gen_rl2_step_idx x xr (last ev 0) step) ev (rev ev)) (if step <? 0 then rev vs else vs).
Proof.
  rewrite (map2_ext _ _ (fun x xr => tie_rl2_step_idx x xr (last ev 0) step)). cbv zeta.
  unfold step_subset_row. destruct (step <? 0) eqn:E.
  - destruct (Z.abs step =? 1) eqn:E1.
    + rewrite (map2_snd_only (fun xr => last ev 0 - xr)) by now rewrite rev_length. reflexivity.
    + rewrite (map2_snd_only (fun xr => (last ev 0 - xr + Z.abs step - 1) / Z.abs step)) by now rewrite rev_length. now rewrite map_map.
  - destruct (Z.abs step =? 1) eqn:E1.
    + rewrite (map2_fst_only (fun x => x)) by now rewrite rev_length. now rewrite map_id.
    + rewrite (map2_fst_only (fun x => (x + Z.abs step - 1) / Z.abs step)) by now rewrite rev_length. reflexivity.
Qed.

(* RunLengthArray._start_to_end, vector branch (after the repairs F34 / F39): the run lookup cut to nothing for an empty window and the last
   boundary of every row, as in Model/RLEOps.v start_to_end_v (whose row-by-row agreement with the whole vector code is start_to_end_vec_is_rows) *)
Lemma tie_rle_window (ev : list Z) s e :
  gen_rle_window (ssr ev s) (ssl ev e) s e = (ssr ev s - 1, (if e <=? s then ssr ev s - 1 else ssl ev e), Z.max (e - s) 0).
Proof. unfold gen_rle_window. cbv zeta. brk; same. Qed.
