(* C14 — property theorems only: each restates the full statement and is closed by the lemma proved in Proofs/. *)
From Coq Require Import ZArith List Bool.
From NPS Require Import ListAux PySlice NumpySem Scatter BuildIdx XorBroadcast View Index Assign Reduce Scan RaOps Heap Hash HashRun BitArr RLE RLEOps RLE2d DataClass RowsSpec AssignSpec MapSpec Denote RoundTrip RLEProof RLEPer CanonProof ToArray.
Import ListNotations.
Open Scope Z_scope.

Theorem C14_to_array_from_array :
  forall (A : Type) (dflt : A) (neqb : A -> A -> bool),
       (forall x y : A, neqb x y = false -> x = y) ->
       forall bxor : A -> A -> A,
       (forall a b c : A, bxor a (bxor b c) = bxor (bxor a b) c) ->
       (forall a b : A, bxor a b = bxor b a) ->
       (forall a : A, bxor a a = dflt) ->
       (forall a : A, bxor dflt a = a) ->
       forall a : list A, a <> [] -> to_array A dflt bxor (from_array A dflt neqb a) = a.
Proof. exact to_array_from_array. Qed.
Print Assumptions C14_to_array_from_array.

Theorem C14_from_array_canonical :
  forall (A : Type) (dflt : A) (neqb : A -> A -> bool) (a : list A),
       a <> [] ->
       let r := from_array A dflt neqb a in
       hd (-1) (fst r) = 0 /\
       last (fst r) (-1) = zlen a /\ strictly_increasing (fst r) /\ length (fst r) = S (length (snd r)).
Proof. exact from_array_canonical. Qed.
Print Assumptions C14_from_array_canonical.

Theorem C14_decode_from_array :
  forall (A : Type) (dflt : A) (neqb : A -> A -> bool),
       (forall x y : A, neqb x y = false -> x = y) ->
       forall a : list A, a <> [] -> decode A (from_array A dflt neqb a) = a.
Proof. exact decode_from_array. Qed.
Print Assumptions C14_decode_from_array.

Theorem C14_decode_from_array_R :
  forall (A : Type) (dflt : A) (neqb : A -> A -> bool),
       (forall x y z : A, neqb x y = false -> neqb y z = false -> neqb x z = false) ->
       forall a : list A, a <> [] -> Forall2 (R A neqb) (decode A (from_array A dflt neqb a)) a.
Proof. exact decode_from_array_R. Qed.
Print Assumptions C14_decode_from_array_R.

Theorem C14_to_array_correct :
  forall (G : Type) (zero : G) (xor : G -> G -> G),
       (forall a b c : G, xor a (xor b c) = xor (xor a b) c) ->
       (forall a b : G, xor a b = xor b a) ->
       (forall a : G, xor a a = zero) ->
       (forall a : G, xor zero a = a) ->
       forall (vs : list G) (ls : list Z),
       Forall (fun l : Z => 1 <= l) ls ->
       length vs = length ls ->
       ls <> [] -> to_array G zero xor (excl_prefix ls ++ [zsum ls], vs) = spec_broadcast G vs ls.
Proof. exact to_array_correct. Qed.
Print Assumptions C14_to_array_correct.

Theorem C14_join_runs_canonical :
  forall (A : Type) (eqb : A -> A -> bool),
       (forall x y : A, eqb x y = true -> x = y) ->
       forall (ev : list Z) (vs : list A),
       length ev = S (length vs) -> no_adj A eqb (snd (join_runs A eqb ev vs)).
Proof. exact join_runs_canonical. Qed.
Print Assumptions C14_join_runs_canonical.
