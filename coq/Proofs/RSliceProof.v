From Coq Require Import ZifyBool.
From NPS Require Import ListAux PySlice NumpySem Scatter BuildIdx View Index Denote RaOps SetItem DiffProof.
Open Scope Z_scope.

(* C08: ragged_slice returns, for every row, the window [start_i, end_i) of that row (negative ends from the row end) *)
Section RS.
Variable A : Type.
Variable dflt : A.
Definition triple := (list A * (Z * Z))%type.
Definition t_row (t : triple) := fst t.
Definition t_start (t : triple) := fst (snd t).
Definition t_end (t : triple) := snd (snd t).
(* "starts/ends within the rows" *)
Definition within (t : triple) : Prop := 0 <= t_start t <= zlen (t_row t) /\ - zlen (t_row t) <= t_end t.

Definition spec_row (t : triple) : list A :=
  let r := t_row t in let e := t_end t in
  let e' := if e <? 0 then zlen r + e else Z.min e (zlen r) in
  ztake (Z.max (e' - t_start t) 0) (zdrop (t_start t) r).

Fixpoint rs_rows (acc : Z) (T : list triple) : list row :=
  match T with
  | [] => []
  | t :: T' =>
      let l := zlen (t_row t) in
      let en := if t_end t <? 0 then acc + l + t_end t else Z.min (acc + t_end t) (acc + l) in
      (acc + t_start t, Z.max (en - (acc + t_start t)) 0) :: rs_rows (acc + l) T'
  end.

Lemma model_rows : forall T acc,
  let lens := map (fun t => zlen (t_row t)) T in
  let bs := excl_from acc lens in
  let be := map2 Z.add bs lens in
  let st := map2 Z.add bs (map t_start T) in
  let en := map2 (fun e p => if e <? 0 then snd p + e else Z.min (fst p + e) (snd p)) (map t_end T) (combine bs be) in
  let lens' := map2 (fun e s => Z.max (e - s) 0) en st in
  combine st lens' = rs_rows acc T.
Proof.
  induction T as [|t T IH]; intros acc; [reflexivity|]. cbn zeta in *.
  cbn [map excl_from map2 combine rs_rows fst snd]. f_equal. apply IH.
Qed.

Lemma model_lens : forall T acc,
  let lens := map (fun t => zlen (t_row t)) T in
  let bs := excl_from acc lens in
  let be := map2 Z.add bs lens in
  let st := map2 Z.add bs (map t_start T) in
  let en := map2 (fun e p => if e <? 0 then snd p + e else Z.min (fst p + e) (snd p)) (map t_end T) (combine bs be) in
  map2 (fun e s => Z.max (e - s) 0) en st = map snd (rs_rows acc T).
Proof.
  induction T as [|t T IH]; intros acc; [reflexivity|]. cbn zeta in *.
  cbn [map excl_from map2 combine rs_rows fst snd]. f_equal. apply IH.
Qed.

Lemma spec_rows T : spec_ragged_slice (map t_row T) (map t_start T) (map t_end T) = map spec_row T.
Proof. induction T as [|[r [s e]] T IH]; [reflexivity|]. cbn [map combine]. unfold spec_ragged_slice in *. cbn [map2 combine]. now rewrite IH. Qed.

Lemma cells : forall T (pre post : list A), Forall within T ->
  map (row_cells A dflt (pre ++ concat (map t_row T) ++ post) 1) (rs_rows (zlen pre) T) = map spec_row T.
Proof.
  induction T as [|t T IH]; intros pre post H; [reflexivity|]. inversion H as [|? ? [Hs He] HT]; subst.
  cbn [map rs_rows concat]. f_equal.
  - set (r := t_row t) in *. set (s := t_start t) in *. set (e := t_end t) in *.
    set (e' := if e <? 0 then zlen r + e else Z.min e (zlen r)).
    assert (El : Z.max ((if e <? 0 then zlen pre + zlen r + e else Z.min (zlen pre + e) (zlen pre + zlen r)) - (zlen pre + s)) 0 = Z.max (e' - s) 0)
      by (unfold e'; destruct (e <? 0); lia).
    rewrite El. unfold spec_row. fold r s e e'.
    assert (He' : e' <= zlen r) by (unfold e'; destruct (e <? 0) eqn:?; lia).
    rewrite ap_unit_cells; [| unfold zlen; lia | lia | unfold zlen in *; rewrite !app_length; lia].
    (* the window lies inside the row *)
    unfold ztake, zdrop. replace (Z.to_nat (zlen pre + s)) with (length pre + Z.to_nat s)%nat by (unfold zlen; lia).
    rewrite <- app_assoc. rewrite <- (skipn_skipn' (Z.to_nat s) (length pre)). rewrite skipn_app, skipn_all, Nat.sub_diag. cbn [skipn app].
    rewrite skipn_app. rewrite firstn_app. rewrite skipn_length.
    replace (Z.to_nat (Z.max (e' - s) 0) - (length r - Z.to_nat s))%nat with 0%nat by (unfold zlen in *; lia).
    cbn [firstn]. apply app_nil_r.
  - specialize (IH (pre ++ t_row t) post HT).
    replace (zlen (pre ++ t_row t)) with (zlen pre + zlen (t_row t)) in IH by (unfold zlen; rewrite app_length; lia).
    rewrite <- !app_assoc in *. exact IH.
Qed.

Lemma rows_ok : forall T (pre post : list A), Forall within T ->
  Forall (row_ok (zlen (pre ++ concat (map t_row T) ++ post)) 1) (rs_rows (zlen pre) T).
Proof.
  induction T as [|t T IH]; intros pre post H; [constructor|]. inversion H as [|? ? [Hs He] HT]; subst.
  cbn [map rs_rows concat]. constructor.
  - split; cbn [fst snd]; [lia|]. intros k Hk. unfold zlen in *. rewrite !app_length. destruct (t_end t <? 0) eqn:?; lia.
  - specialize (IH (pre ++ t_row t) post HT).
    replace (zlen (pre ++ t_row t)) with (zlen pre + zlen (t_row t)) in IH by (unfold zlen; rewrite app_length; lia).
    rewrite <- !app_assoc in *. exact IH.
Qed.

Lemma spec_row_zlen t : within t -> zlen (spec_row t) = Z.max ((if t_end t <? 0 then zlen (t_row t) + t_end t else Z.min (t_end t) (zlen (t_row t))) - t_start t) 0.
Proof.
  intros [Hs He]. unfold spec_row, ztake, zdrop, zlen in *. rewrite firstn_length, skipn_length. destruct (t_end t <? 0) eqn:?; lia.
Qed.

Theorem ragged_slice_correct (T : list triple) : Forall within T ->
  ra_ragged_slice (fr_of_rows (map t_row T)) (map t_start T) (map t_end T)
  = Ok (fr_of_rows (spec_ragged_slice (map t_row T) (map t_start T) (map t_end T))).
Proof.
  intros H. unfold ra_ragged_slice, fr_of_rows. cbn [fst snd]. unfold excl_prefix.
  rewrite (map_map t_row zlen). pose proof (model_rows T 0) as Hm. cbn zeta in Hm.
  set (lens' := map2 (fun e s => Z.max (e - s) 0) _ _) in *. rewrite Hm.
  pose proof (rows_ok T [] [] H) as Hok. pose proof (cells T [] [] H) as Hc. cbn [app] in Hok, Hc. rewrite app_nil_r in Hok, Hc.
  change (zlen (@nil A)) with 0 in Hok, Hc.
  pose proof (gather_view A dflt {| ra_data := concat (map t_row T); ra_geom := GRows (rs_rows 0 T) |}) as Hg.
  cbn [ra_data ra_geom] in Hg. rewrite Hg by (split; [exact Hok|exact I]). cbn [rmap]. unfold denote. cbn [ra_data ra_geom g_rows g_step].
  rewrite Hc, spec_rows. do 2 f_equal.
  (* the reported row lengths *)
  assert (Hl : lens' = map snd (rs_rows 0 T)) by (apply (model_lens T 0)).
  rewrite Hl. clear Hl Hm Hg Hc Hok lens'. rewrite map_map.
  generalize 0 as acc. induction H as [|t T Ht _ IH]; intros acc; [reflexivity|]. cbn [rs_rows map snd]. f_equal; [|apply IH].
  rewrite (spec_row_zlen t Ht). destruct (t_end t <? 0) eqn:?; lia.
Qed.
End RS.
Print Assumptions ragged_slice_correct.
