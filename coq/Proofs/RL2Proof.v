From Coq Require Import ZifyBool.
From NPS Require Import ListAux PySlice NumpySem Scatter BuildIdx XorBroadcast XorProof SelRows RLE RLEProof RLEOps RaOps RLE2d RLEMisc.
Open Scope Z_scope.

(* C17: the 2-D / ragged run-length arrays behave as one run-length array per row *)

(* both components are kept in lock-step: think of the array as a list of (boundaries, values) rows *)
Definition rows_of2 (x : rl2) : list (list Z * list Z) := combine (r_idx x) (r_val x).
Definition aligned (x : rl2) : Prop := length (r_idx x) = length (r_val x).
Definition dec_row (x : rl2) (p : list Z * list Z) : list Z := decode Z (row_rla x (fst p) (snd p)).

Lemma map2_combine {X Y W} (f : X -> Y -> W) a b : map2 f a b = map (fun p => f (fst p) (snd p)) (combine a b).
Proof. revert b; induction a as [|x a IH]; intros [|y b]; cbn; try reflexivity. now rewrite IH. Qed.
Lemma decode_rows x : rl2_decode x = map (dec_row x) (rows_of2 x).
Proof. unfold rl2_decode, rl2_rows, rows_of2, dec_row. now rewrite map2_combine, map_map. Qed.
Lemma map_fst_combine' {X Y} (a : list X) (b : list Y) : length a = length b -> map fst (combine a b) = a.
Proof. revert b; induction a as [|x a IH]; intros [|y b] H; cbn in *; try discriminate; auto. f_equal. apply IH. lia. Qed.
Lemma map_snd_combine' {X Y} (a : list X) (b : list Y) : length a = length b -> map snd (combine a b) = b.
Proof. revert b; induction a as [|x a IH]; intros [|y b] H; cbn in *; try discriminate; auto. f_equal. apply IH. lia. Qed.
Lemma combine_fst_snd {X Y} (l : list (X * Y)) : combine (map fst l) (map snd l) = l.
Proof. induction l as [|[a b] l IH]; [reflexivity|]. cbn. now rewrite IH. Qed.

(* row selection (integer lists, slices, masks, all rows): select the rows of the decoded array *)
Theorem rl2_select_correct (x : rl2) (s : rowsel) : aligned x ->
  match rl2_select x s, sel_rows s (rl2_decode x) with
  | Ok y, Ok rows => rl2_decode y = rows /\ aligned y
  | Refused, Refused => True
  | _, _ => False
  end.
Proof.
  intros Ha. destruct x as [I V n]. unfold aligned in Ha. cbn [r_idx r_val] in Ha.
  assert (EI : I = map fst (combine I V)) by (symmetry; now apply map_fst_combine').
  assert (EV : V = map snd (combine I V)) by (symmetry; now apply map_snd_combine').
  remember (combine I V) as L eqn:HL. clear HL. subst I V.
  unfold rl2_select. rewrite decode_rows. unfold rows_of2. cbn [r_idx r_val r_len]. rewrite combine_fst_snd, !sel_rows_map.
  destruct (sel_rows s L) as [l|]; cbn [rmap rbind]; [|exact I].
  split.
  - rewrite decode_rows. unfold rows_of2. cbn [r_idx r_val]. rewrite combine_fst_snd. apply map_ext. intros p. reflexivity.
  - unfold aligned. cbn [r_idx r_val]. now rewrite !map_length.
Qed.

(* unary ufuncs / ufuncs with a scalar act on the run values only *)
Theorem rl2_map_correct (g : Z -> Z) (x : rl2) : aligned x -> rl2_decode (rl2_map g x) = map (map g) (rl2_decode x).
Proof.
  intros Ha. unfold rl2_decode, rl2_rows, rl2_map. cbn [r_idx r_val]. rewrite !map2_combine, !map_map.
  unfold aligned in Ha. revert Ha. generalize (r_idx x) as I, (r_val x) as V. induction I as [|ev I IH]; intros [|vs V] H; cbn in H; try discriminate; [reflexivity|].
  cbn [map combine fst snd]. f_equal; [|apply IH; lia].
  unfold row_rla. cbn [r_len]. destruct (r_len x); apply (rl_map_correct g (_, vs)).
Qed.

(* concatenation along rows *)
Theorem rl2_concat_correct (xs : list rl2) : Forall (fun x => aligned x /\ r_len x = None) xs ->
  rl2_decode (rl2_concat xs) = flat_map rl2_decode xs.
Proof.
  induction 1 as [|x xs [Ha Hn] _ IH]; [reflexivity|]. unfold rl2_concat, rl2_decode, rl2_rows in *. cbn [flat_map r_idx r_val r_len] in *.
  rewrite map2_app by exact Ha. rewrite map_app. f_equal; [|exact IH].
  rewrite !map2_combine, !map_map. apply map_ext. intros p. unfold row_rla. cbn [r_len]. now rewrite Hn.
Qed.

(* row sums of the ragged variant *)
Definition row_wf (p : list Z * list Z) : Prop := all_nonneg (diffs (fst p)) /\ length (snd p) = length (diffs (fst p)).
Theorem rl2_sum_correct (x : rl2) : r_len x = None -> Forall row_wf (rows_of2 x) -> rl2_sum x = map zsum (rl2_decode x).
Proof.
  intros Hn Hw. rewrite decode_rows. unfold rl2_sum. fold (rows_of2 x). rewrite map_map. rewrite Hn.
  apply map_ext_in. intros [ev vs] Hp. rewrite Forall_forall in Hw. destruct (Hw _ Hp) as [H1 H2]. cbn [fst snd] in *.
  unfold dec_row, row_rla. rewrite Hn. cbn [fst snd]. rewrite <- (rl_sum_correct (ev, vs) H1 H2). unfold rl_sum. cbn [fst snd].
  clear. revert vs. generalize (diffs ev) as ds. induction ds as [|d ds IH]; intros [|v vs]; cbn [map2 zsum]; try reflexivity. rewrite IH. lia.
Qed.
Print Assumptions rl2_select_correct.
Print Assumptions rl2_map_correct.
Print Assumptions rl2_concat_correct.
Print Assumptions rl2_sum_correct.
