From NPS Require Import ListAux PySlice NumpySem Scatter BuildIdx View Index RLE XorBroadcast.
Open Scope Z_scope.

(* C03: IndexableArray.__setitem__ (indexablearray.py L83-109) *)
Inductive value (A : Type) :=
| VScalar (x : A)                    (* a Number *)
| VFlat (l : list A)                 (* 1-D array / flat list *)
| VCol (l : list A)                  (* (n,1) column *)
| VRagged (r : list (list A)).       (* RaggedArray *)
Arguments VScalar {A}. Arguments VFlat {A}. Arguments VCol {A}. Arguments VRagged {A}.

(* what _get_row_subset (+ _get_view) returns: flat positions and, for multi-row selections, the shape *)
Inductive target := TFlat (idx : list Z) (is_scalar : bool) | TShaped (idx : list Z) (lens : list Z).

Definition resolve {A} (a : ra A) (idx : index) : res target :=
  let g := ra_geom a in
  match idx with
  | IEmpty | IRow (RMany RAll) => Ok (TShaped (ap 0 (zlen (ra_data a)) 1) (g_lengths g))
  | IRow (ROne i) => rmap (fun r : row => TFlat (ap (fst r) (snd r) 1) false) (np_item (g_rows g) i)
  | IRow (RMany s) => rmap (fun g' => TShaped (flat_indices g') (g_lengths g')) (select_rows_geom g s)
  | IMask m => Ok (TFlat (flatnonzero (concat m)) false)
  | IRowCol r c =>
      if is_int_typed r c then
        match element_pairs r c with
        | None => Refused
        | Some (pairs, is_scalar) =>
            rmap (fun flat => TFlat flat is_scalar)
                 (rsequence (map (fun p => element_flat (g_rows g) (fst p) (snd p)) pairs))
        end
      else
        let r' := match r with RMany RAll => RMany (RSlice all_slice) | _ => r end in
        rbind (view_rows_geom g r') (fun rc =>
        let '(rows, cs) := rc in
        let g2 := match c with
                  | CInt j => col_slice_int rows cs j
                  | CSlice sl => col_slice_sl rows cs sl
                  | CAll => col_slice_sl rows cs all_slice
                  | CList _ => Refused
                  end in
        rmap (fun g2 =>
          match r, c with
          | RMany _, (CSlice _ | CAll) => TShaped (flat_indices g2) (g_lengths g2)
          | _, _ => TFlat (flat_indices g2) false
          end) g2)
  end.

(* numpy assignment broadcasting of a 1-D value onto n positions *)
Definition bcast1 {A} (n : nat) (l : list A) : res (list A) :=
  if Nat.eqb (length l) n then Ok l
  else match l with [x] => Ok (repeat x n) | _ => Refused end.

Section Expand.
Variable A : Type.
Variable zero : A.                      (* only used by the xor trick; cancels out *)
Variable xor : A -> A -> A.

Definition expand (t : target) (v : value A) : res (list Z * list A) :=
  match t, v with
  | TFlat idx _, VScalar x => Ok (idx, repeat x (length idx))
  | TFlat idx true, _ => Refused          (* a single cell takes a scalar only *)
  | TFlat idx false, VFlat l => rmap (fun l' => (idx, l')) (bcast1 (length idx) l)
  | TFlat idx false, VCol [x] => Ok (idx, repeat x (length idx))
  | TFlat _ false, _ => Refused
  | TShaped idx lens, VScalar x => Ok (idx, repeat x (length idx))
  | TShaped idx lens, VRagged r =>
      if list_eq_dec Z.eq_dec (map zlen r) lens then Ok (idx, concat r) else Refused
  | TShaped idx lens, VCol l =>
      match l with
      | [x] => Ok (idx, repeat x (length idx))
      | _ => if Nat.eqb (length l) (length lens) then Ok (idx, raw_broadcast A zero xor l lens) else Refused
      end
  | TShaped idx lens, VFlat l => rmap (fun l' => (idx, l')) (bcast1 (length idx) l)
  end.

Definition setitem (a : ra A) (idx : index) (v : value A) : res (ra A) :=
  rbind (materialise a) (fun a' =>
  rbind (resolve a' idx) (fun t =>
  rbind (expand t v) (fun pv =>
  if Nat.eqb (length (fst pv)) (length (snd pv))
  then Ok {| ra_data := scatter_set (ra_data a') (fst pv) (snd pv) ; ra_geom := ra_geom a' |}
  else Refused))).
End Expand.
