"""C11 — HashTable is a dictionary over a fixed set of integer keys (histories)."""
import vlib
from harness import fam_hash, fam_hash2
TRUSTED = fam_hash.TRUSTED
ASSUME = ["keys are unique (the constructor's precondition) and |key| <= 2**62"]
RULE = fam_hash2.RULE2 + " || " + "HashTable histories; " + fam_hash.RULE
def eq_stage(R, tier, rng):
    """t1 == t2 for two tables that hold the same / nearly the same dictionary under different moduli and key orders, after assignments:
    implementation against Hash.tbl_eq (extracted) and against equality of the dictionaries"""
    import numpy as np
    from npstructures import HashTable
    from vlib import show, parse, oracle, guarded
    cases = []
    for trial in range(1500 if tier == "thorough" else 400):
        k = rng.randint(1, 6)
        pool = rng.sample(range(-20, 40), k + 2) + [2 ** 40 + 3, -(2 ** 40) + 1]
        k1 = rng.sample(pool, k)
        mode = trial % 5
        k2 = list(k1); rng.shuffle(k2)
        if mode == 3: k2 = k2[:-1] + [x for x in pool if x not in k1][:1]          # one key replaced
        if mode == 4 and k > 1: k2 = k2[:-1]                                        # one key fewer
        s1 = rng.choice([None, None, 0, 5]); s2 = s1 if mode != 2 else rng.choice([None, 0, 5, 6])
        base = {x: rng.randint(0, 3) for x in pool}
        v1 = [base[x] for x in k1] if s1 is None else []
        v2 = [base[x] for x in k2] if s2 is None else []
        if mode == 1 and s2 is None: v2[rng.randrange(len(v2))] += 1                # one value differs
        if s1 is not None and s2 is None and mode == 0: v2 = [s1 for _ in k2]       # a constant table against the same constants per key
        m1 = rng.choice([None, 1, 2, 3, 7]); m2 = rng.choice([None, 1, 2, 3, 7, m1])
        def impl():
            t1 = HashTable(k1, np.array(v1) if s1 is None else s1, mod=m1); t2 = HashTable(k2, np.array(v2) if s2 is None else s2, mod=m2)
            return [int(bool(t1 == t2)), int(bool(t2 == t1))]
        line = "hash_eq %s %s %s %s %s %s %s %s" % (show(k1), show(v1), show(s1), show(m1), show(k2), show(v2), show(s2), show(m2))
        cases.append((line, guarded(impl), k >= 2, f"HashTable({k1}, {v1 if s1 is None else s1}, mod={m1}) == HashTable({k2}, {v2 if s2 is None else s2}, mod={m2})"))
    out = oracle([c[0] for c in cases])
    for (line, impl, nt, py), o in zip(cases, out):
        if o.startswith("ERR"): m = sp = "oracle-error: " + o[:80]
        else:
            m, sp = parse(o); m = [m, m]; sp = [sp, sp]
        R.record(line, impl, m, sp, nt, "eq/model+dictionary", py=py)


def add_stage(R, tier, rng):
    """t1 + t2: implementation against Hash.tbl_add (extracted: refused unless the key arrays coincide, the items of the sum otherwise) and
    against the key-wise sum of the two dictionaries (the property leaves a refusal open, so a refused sum is compared with the model only)"""
    import numpy as np
    from npstructures import HashTable
    from vlib import show, parse, oracle, guarded
    cases = []
    for trial in range(900 if tier == "thorough" else 250):
        k = rng.randint(1, 6)
        k1 = rng.sample(list(range(-20, 40)) + [2 ** 40 + 3, -(2 ** 40) + 1], k)
        k2 = list(k1)
        if trial % 3 == 1: rng.shuffle(k2)                                          # same key set, another order (refused when colliding keys swap)
        s1 = rng.choice([None, None, 0, 5]); s2 = rng.choice([None, None, 3])
        v1 = [rng.randint(-9, 9) for _ in k1] if s1 is None else []
        v2 = [rng.randint(-900, 900) for _ in k2] if s2 is None else []
        m = rng.choice([None, 1, 2, 3, 7])
        def impl():
            t1 = HashTable(k1, np.array(v1) if s1 is None else s1, mod=m); t2 = HashTable(k2, np.array(v2) if s2 is None else s2, mod=m)
            try: s = t1 + t2
            except ValueError:       # refused: justified exactly when the two key arrays differ (tbl_add_refusal); numpy's argsort is not stable, so the
                return ["refused", t1._keys.tolist() != t2._keys.tolist()]           # order inside a bucket is the implementation's own
            return sorted([int(a), int(b)] for a, b in zip(np.asarray(s._keys.ravel()).tolist(), np.asarray(s._flat_values()).tolist())) if isinstance(s._values, (int, np.integer)) \
                else sorted([int(a), int(b)] for a, b in s.items())
        line = "hash_add %s %s %s %s %s %s %s" % (show(k1), show(v1), show(s1), show(k2), show(v2), show(s2), show(m))
        cases.append((line, guarded(impl), k >= 2, f"HashTable({k1}, {v1 if s1 is None else s1}, mod={m}) + HashTable({k2}, {v2 if s2 is None else s2}, mod={m})"))
    out = oracle([c[0] for c in cases])
    for (line, impl, nt, py), o in zip(cases, out):
        if o.startswith("ERR"): mo = sp = "oracle-error: " + o[:80]
        else:
            mo, sp = parse(o)
            mo = None if mo is None else sorted(mo); sp = sorted(sp)
            if isinstance(impl, list) and impl[:1] == ["refused"]: mo = sp = ["refused", True]      # a refusal is right iff the key arrays really differ
            elif mo is None: mo = sp                                                # the model's (stable) layouts differ, the implementation's happened to agree
        R.record(line, impl, mo, sp, nt, "add/model+dictionary", py=py)


def run(R, tier, rng):
    eq_stage(R, tier, rng)
    add_stage(R, tier, rng)
    fam_hash2.extra_stage(R, tier, rng, False)
    fam_hash2.big_stage(R, tier, rng, False)
    fam_hash2.run_family2(R, tier, rng, False)
    fam_hash.run_family(R, tier, rng, counter=False)


def translator_tie():
    return vlib.translator_tie(["hash"])
