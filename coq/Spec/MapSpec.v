From NPS Require Import ListAux PySlice NumpySem.
Open Scope Z_scope.
(* C11 spec: a dictionary over a fixed key set, as an association list with unique keys *)
Section M.
Variable V : Type.
Definition assoc := list (Z * V).
Fixpoint aget (d : assoc) (k : Z) : option V :=
  match d with [] => None | (k', v) :: r => if k' =? k then Some v else aget r k end.
Fixpoint aset (d : assoc) (k : Z) (v : V) : assoc :=
  match d with [] => [] | (k', v') :: r => if k' =? k then (k', v) :: r else (k', v') :: aset r k v end.
Definition amem (d : assoc) (k : Z) : bool := match aget d k with Some _ => true | None => false end.
Definition spec_getv (d : assoc) (ks : list Z) : res (list V) :=
  rsequence (map (fun k => match aget d k with Some v => Ok v | None => Refused end) ks).
Definition spec_setv (d : assoc) (ks : list Z) (vs : list V) : res assoc :=
  if forallb (amem d) ks && Nat.eqb (length ks) (length vs)
  then Ok (fold_left (fun d kv => aset d (fst kv) (snd kv)) (combine ks vs) d) else Refused.
End M.
(* C12 spec *)
Definition spec_count (d : assoc Z) (samples : list Z) : assoc Z :=
  map (fun kv => (fst kv, snd kv + Z.of_nat (length (filter (Z.eqb (fst kv)) samples)))) d.
