(* C17 — property theorems only: each restates the full statement and is closed by the lemma proved in Proofs/. *)
From Coq Require Import ZArith List Bool.
From NPS Require Import ListAux PySlice NumpySem Scatter BuildIdx XorBroadcast View Index Assign Reduce Scan RaOps Heap Hash HashRun BitArr RLE RLEOps RLE2d DataClass RowsSpec AssignSpec MapSpec Denote RLEMisc BinaryProof RL2Proof RL2Col RL2Ravel RL2Elem RL2Argmax MatrixDecode ColProof RL2ColSum RL2ColCounts RL2Intervals RL2Range RL2RangeStep RL2RangeOpen RL2AnyProof RL2AnyRows RL2Mean RL2ColMean RL2RowAgg RL2RowAggProof RL2RowAggMatrix.
Import ListNotations.
Open Scope Z_scope.

Theorem C17_from_ragged_decode :
  forall rows : list (list Z),
       Forall (fun r : list Z => r <> []) rows -> rl2_decode (from_ragged rows) = rows.
Proof. exact from_ragged_decode. Qed.
Print Assumptions C17_from_ragged_decode.

Theorem C17_from_matrix_decode :
  forall (rows : list (list Z)) (n : Z),
       1 <= n -> Forall (fun r : list Z => zlen r = n) rows -> rl2_decode (from_matrix rows) = rows.
Proof. exact from_matrix_decode. Qed.
Print Assumptions C17_from_matrix_decode.

Theorem C17_rl2_select_correct :
  forall (x : rl2) (s : rowsel),
       aligned x ->
       match rl2_select x s with
       | Ok y =>
           match sel_rows s (rl2_decode x) with
           | Ok rows => rl2_decode y = rows /\ aligned y
           | Refused => False
           end
       | Refused => match sel_rows s (rl2_decode x) with
                    | Ok _ => False
                    | Refused => True
                    end
       end.
Proof. exact rl2_select_correct. Qed.
Print Assumptions C17_rl2_select_correct.

Theorem C17_rl2_map_correct :
  forall (g : Z -> Z) (x : rl2), aligned x -> rl2_decode (rl2_map g x) = map (map g) (rl2_decode x).
Proof. exact rl2_map_correct. Qed.
Print Assumptions C17_rl2_map_correct.

Theorem C17_rl2_concat_correct :
  forall xs : list rl2,
       Forall (fun x : rl2 => aligned x /\ r_len x = None) xs ->
       rl2_decode (rl2_concat xs) = flat_map rl2_decode xs.
Proof. exact rl2_concat_correct. Qed.
Print Assumptions C17_rl2_concat_correct.

Theorem C17_rl2_sum_correct :
  forall x : rl2, r_len x = None -> Forall row_wf (rows_of2 x) -> rl2_sum x = map zsum (rl2_decode x).
Proof. exact rl2_sum_correct. Qed.
Print Assumptions C17_rl2_sum_correct.

Theorem C17_rl2_max_argmax_correct :
  forall rows : list (list Z * list Z),
       Forall (fun p : list Z * list Z => canon Z (fst p) (snd p) /\ fst p <> []) rows ->
       rl2_max (of_runs rows) = map zmax_list (rl2_decode (of_runs rows)) /\
       rl2_argmax (of_runs rows) = argmax_rows (rl2_decode (of_runs rows)).
Proof. exact rl2_max_argmax_correct. Qed.
Print Assumptions C17_rl2_max_argmax_correct.

Theorem C17_rl2_col_correct :
  forall (rows : list (list Z * list Z)) (j : Z),
       Forall (fun p : list Z * list Z => canon Z (fst p) (snd p)) rows ->
       rl2_col (of_runs rows) j = spec_col j (rl2_decode (of_runs rows)).
Proof. exact rl2_col_correct. Qed.
Print Assumptions C17_rl2_col_correct.

Theorem C17_rl2_ravel_correct :
  forall rows : list (list Z * list Z),
       Forall (fun p : list Z * list Z => length (snd p) = length (fst p)) rows ->
       rl2_ravel (of_runs rows) = (evs (concat (map fst rows)), concat (map snd rows)) /\
       decode Z (rl2_ravel (of_runs rows)) = concat (rl2_decode (of_runs rows)).
Proof. exact rl2_ravel_correct. Qed.
Print Assumptions C17_rl2_ravel_correct.

Theorem C17_rl2_elem_correct :
  forall (rows : list (list Z * list Z)) (i j : Z),
       Forall (fun p : list Z * list Z => canon Z (fst p) (snd p) /\ fst p <> []) rows ->
       match np_item rows i with
       | Ok (ls, vs) =>
           let n := zsum ls in
           - n <= j < n ->
           rl2_elem (of_runs rows) i j =
           Ok (nth (Z.to_nat (if j <? 0 then n + j else j)) (spec_broadcast Z vs ls) 0)
       | Refused => rl2_elem (of_runs rows) i j = Refused
       end.
Proof. exact rl2_elem_correct. Qed.
Print Assumptions C17_rl2_elem_correct.

Theorem C17_rl2_col_sum_correct :
  forall rows : list (list Z * list Z),
       rows <> [] ->
       Forall (fun p : list Z * list Z => canon Z (fst p) (snd p)) rows ->
       let dense := rl2_decode (of_runs rows) in
       decode Z (rl2_col_sum (of_runs rows)) =
       map (fun j : Z => zsum (map (fun r : list Z => nth (Z.to_nat j) r 0) dense))
         (ap 0 (fold_left Z.max (map zlen dense) 0) 1).
Proof. exact rl2_col_sum_correct. Qed.
Print Assumptions C17_rl2_col_sum_correct.

Theorem C17_rl2_col_sum_matrix_correct :
  forall (n : Z) (rows : list (list Z * list Z)),
       rows <> [] ->
       1 <= n ->
       Forall (fun p : list Z * list Z => canon Z (fst p) (snd p) /\ zsum (fst p) = n) rows ->
       let dense := rl2_decode (of_matrix_runs n rows) in
       decode Z (rl2_col_sum (of_matrix_runs n rows)) =
       map (fun j : Z => zsum (map (fun r : list Z => nth (Z.to_nat j) r 0) dense)) (ap 0 n 1).
Proof. exact rl2_col_sum_matrix_correct. Qed.
Print Assumptions C17_rl2_col_sum_matrix_correct.

Theorem C17_rl2_col_counts_correct :
  forall x : rl2,
       let lens := map (fun ev : list Z => last ev 0) (r_idx x) in
       lens <> [] ->
       all_nonneg lens ->
       decode Z (rl2_col_counts x) =
       map (fun j : Z => cnt (fun l : Z => j <? l) lens) (ap 0 (fold_left Z.max lens 0) 1).
Proof. exact rl2_col_counts_correct. Qed.
Print Assumptions C17_rl2_col_counts_correct.

Theorem C17_rl2_col_mean_correct :
  forall (C : Type) (ceqb : C -> C -> bool),
       (forall x y : C, ceqb x y = true -> x = y) ->
       forall (dv : Z -> Z -> C) (rows : list (list Z * list Z)),
       rows <> [] ->
       Forall (fun p : list Z * list Z => canon Z (fst p) (snd p) /\ fst p <> []) rows ->
       let dense := rl2_decode (of_runs rows) in
       exists r : rla C,
         rl2_col_mean C ceqb dv (of_runs rows) = Ok r /\
         decode C r =
         map
           (fun j : Z =>
            dv (zsum (map (fun r0 : list Z => nth (Z.to_nat j) r0 0) dense))
              (cnt (fun l : Z => j <? l) (map zlen dense))) (ap 0 (fold_left Z.max (map zlen dense) 0) 1) /\
         CanonProof.no_adj C ceqb (snd r).
Proof. exact rl2_col_mean_correct. Qed.
Print Assumptions C17_rl2_col_mean_correct.

Theorem C17_rl2_any_rows_correct :
  forall x : rl2,
       length (r_idx x) = length (r_val x) ->
       Forall (row_runs_ok x) (rows_of2 x) -> rl2_any_rows x = map (existsb nz) (rl2_decode x).
Proof. exact rl2_any_rows_correct. Qed.
Print Assumptions C17_rl2_any_rows_correct.

Theorem C17_rl2_all_rows_correct :
  forall x : rl2,
       length (r_idx x) = length (r_val x) ->
       Forall (row_runs_ok x) (rows_of2 x) -> rl2_all_rows x = map (forallb nz) (rl2_decode x).
Proof. exact rl2_all_rows_correct. Qed.
Print Assumptions C17_rl2_all_rows_correct.

Theorem C17_rl2_mean_rows_correct :
  forall (C : Type) (dv : Z -> Z -> C) (x : rl2),
       r_len x = None ->
       length (r_idx x) = length (r_val x) ->
       Forall (fun p : list Z * list Z => row_runs_ok x p /\ hd 0 (fst p) = 0 /\ fst p <> []) (rows_of2 x) ->
       rl2_mean_rows dv x = map (fun d : list Z => dv (zsum d) (zlen d)) (rl2_decode x).
Proof. exact (@rl2_mean_rows_correct). Qed.
Print Assumptions C17_rl2_mean_rows_correct.

Theorem C17_ragged_row_aggregates :
  forall (C : Type) (dv : Z -> Z -> C) (rows : list (list Z)),
       Forall (fun r : list Z => r <> []) rows ->
       let x := from_ragged rows in
       rl2_any_rows x = map (existsb nz) rows /\
       rl2_all_rows x = map (forallb nz) rows /\
       rl2_mean_rows dv x = map (fun d : list Z => dv (zsum d) (zlen d)) rows.
Proof. exact (@ragged_row_aggregates). Qed.
Print Assumptions C17_ragged_row_aggregates.

Theorem C17_matrix_row_aggregates :
  forall (M : list (list Z)) (L : Z),
       M <> [] ->
       1 <= L ->
       Forall (fun r : list Z => zlen r = L) M ->
       rl2_any_rows (from_matrix M) = map (existsb RL2AnyRows.nz) M /\
       rl2_all_rows (from_matrix M) = map (forallb RL2AnyRows.nz) M.
Proof. exact matrix_row_aggregates. Qed.
Print Assumptions C17_matrix_row_aggregates.

Theorem C17_from_intervals_decode :
  forall (starts ends : list Z) (n value : Z),
       length starts = length ends ->
       Forall (fun se : Z * Z => 0 <= fst se <= snd se /\ snd se <= n) (combine starts ends) ->
       rl2_decode (from_intervals starts ends n value) =
       map (fun se : Z * Z => indicator_row n value (fst se) (snd se)) (combine starts ends).
Proof. exact from_intervals_decode. Qed.
Print Assumptions C17_from_intervals_decode.

Theorem C17_rl2_col_range_pos1_partial :
  forall (rows : list (list Z * list Z)) (a b : Z),
       0 <= a < b ->
       Forall (fun p : list Z * list Z => canon Z (fst p) (snd p) /\ b <= zsum (fst p)) rows ->
       exists y : rl2,
         rl2_col_range (of_runs rows) {| sl_start := Some a; sl_stop := Some b; sl_step := None |} = Ok y /\
         rl2_decode y = map (fun d : list Z => ztake (b - a) (zdrop a d)) (rl2_decode (of_runs rows)).
Proof. exact rl2_col_range_pos1_partial. Qed.
Print Assumptions C17_rl2_col_range_pos1_partial.

Theorem C17_rl2_col_range_pos_partial :
  forall (rows : list (list Z * list Z)) (a b k : Z),
       0 <= a < b ->
       1 <= k ->
       Forall (fun p : list Z * list Z => canon Z (fst p) (snd p) /\ b <= zsum (fst p)) rows ->
       exists y : rl2,
         rl2_col_range (of_runs rows) {| sl_start := Some a; sl_stop := Some b; sl_step := Some k |} = Ok y /\
         rl2_decode y =
         map
           (fun d : list Z =>
            let w := ztake (b - a) (zdrop a d) in
            map (fun q : Z => nth (Z.to_nat (q * k)) w 0) (ap 0 (StepProof.cdiv k (b - a)) 1))
           (rl2_decode (of_runs rows)).
Proof. exact rl2_col_range_pos_partial. Qed.
Print Assumptions C17_rl2_col_range_pos_partial.

Theorem C17_rl2_col_range_pos :
  forall (rows : list (list Z * list Z)) (sl : pyslice),
       1 <= step_of sl ->
       Forall (fun p : list Z * list Z => canon Z (fst p) (snd p) /\ 0 < py_count (zsum (fst p)) sl) rows ->
       exists y : rl2,
         rl2_col_range (of_runs rows) sl = Ok y /\
         rl2_decode y = map (fun d : list Z => py_getslice 0 d sl) (rl2_decode (of_runs rows)).
Proof. exact rl2_col_range_pos. Qed.
Print Assumptions C17_rl2_col_range_pos.

Theorem C17_rl2_col_range_neg_inside :
  forall (rows : list (list Z * list Z)) (a b k : Z),
       0 <= b < a ->
       1 <= k ->
       Forall (fun p : list Z * list Z => canon Z (fst p) (snd p) /\ a < zsum (fst p)) rows ->
       exists y : rl2,
         rl2_col_range (of_runs rows) {| sl_start := Some a; sl_stop := Some b; sl_step := Some (- k) |} =
         Ok y /\
         rl2_decode y =
         map
           (fun d : list Z =>
            let w := rev (ztake (a - b) (zdrop (b + 1) d)) in
            map (fun q : Z => nth (Z.to_nat (q * k)) w 0) (ap 0 (StepProof.cdiv k (a - b)) 1))
           (rl2_decode (of_runs rows)).
Proof. exact rl2_col_range_neg_inside. Qed.
Print Assumptions C17_rl2_col_range_neg_inside.

Theorem C17_rl2_col_range_neg :
  forall (rows : list (list Z * list Z)) (sl : pyslice),
       step_of sl <= -1 ->
       Forall
         (fun p : list Z * list Z =>
          canon Z (fst p) (snd p) /\ inside_neg (zsum (fst p)) sl /\ 0 < py_count (zsum (fst p)) sl) rows ->
       exists y : rl2,
         rl2_col_range (of_runs rows) sl = Ok y /\
         rl2_decode y = map (fun d : list Z => py_getslice 0 d sl) (rl2_decode (of_runs rows)).
Proof. exact rl2_col_range_neg. Qed.
Print Assumptions C17_rl2_col_range_neg.

Theorem C17_col_any_is_sweep :
  forall (x : rl2) (L : Z),
       r_len x = Some L ->
       let rows := map2 RL2Any.row_join (r_idx x) (map (map (fun v : Z => negb (v =? 0))) (r_val x)) in
       let starts := RL2Any.zsort (flat_map (fun r : list Z * list bool => mask_filter (fst r) (snd r)) rows)
         in
       let ends0 :=
         RL2Any.zsort
           (flat_map (fun r : list Z * list bool => mask_filter (tl (fst r)) (map negb (tl (snd r)))) rows)
         in
       RL2Any.col_any x = sweep starts (ends0 ++ repeat L (length starts - length ends0)) L.
Proof. exact col_any_is_sweep. Qed.
Print Assumptions C17_col_any_is_sweep.

Theorem C17_sweep_intervals :
  forall (I : list (Z * Z)) (St En : list Z) (L : Z),
       Permutation.Permutation St (map fst I) ->
       Permutation.Permutation En (map snd I) ->
       zsorted St ->
       zsorted En ->
       Forall (fun se : Z * Z => 0 <= fst se /\ fst se < snd se <= L) I ->
       0 <= L -> decode bool (sweep St En L) = map (covered I) (ap 0 L 1).
Proof. exact sweep_intervals. Qed.
Print Assumptions C17_sweep_intervals.

Theorem C17_col_any_correct :
  forall (x : rl2) (L : Z),
       r_len x = Some L ->
       0 <= L ->
       Forall (row_ok L) (combine (r_idx x) (r_val x)) ->
       decode bool (RL2Any.col_any x) =
       map
         (fun p : Z =>
          existsb (fun r : list Z * list Z => nth (Z.to_nat p) (row_dense L r) false)
            (combine (r_idx x) (r_val x))) (ap 0 L 1).
Proof. exact col_any_correct. Qed.
Print Assumptions C17_col_any_correct.

Theorem C17_col_any_matrix :
  forall (M : list (list Z)) (L : Z),
       M <> [] ->
       1 <= L ->
       Forall (fun r : list Z => zlen r = L) M ->
       decode bool (RL2Any.col_any (from_matrix M)) =
       map (fun p : Z => existsb (fun row : list Z => RL2AnyRows.nz (nth (Z.to_nat p) row 0)) M) (ap 0 L 1).
Proof. exact col_any_matrix. Qed.
Print Assumptions C17_col_any_matrix.

Theorem C17_col_range_row_is_start_to_end :
  forall (ev vs : list Z) (a b : Z),
       strictly_increasing (0 :: ev) ->
       length ev = length vs ->
       0 <= a < b ->
       b <= last (0 :: ev) 0 ->
       col_range_row (Some a) (Some b) 1 (0 :: ev) vs =
       Some (let S := start_to_end Z (0 :: ev, vs) a b in remove_empty_row (fst S) (snd S)).
Proof. exact col_range_row_is_start_to_end. Qed.
Print Assumptions C17_col_range_row_is_start_to_end.
