From NPS Require Import ListAux PySlice NumpySem Scatter BuildIdx RaOps.
Open Scope Z_scope.

(* C08 (rest): np.where with a ragged mask, zeros/ones_like, concatenation along the columns (arrayfunctions.py L54-187) *)
Section S2.
Variable A : Type.
Definition pick (b : bool) (xy : A * A) : A := if b then fst xy else snd xy.
(* where(mask, x, y), three ragged operands: data = np.where(mask.ravel(), x.ravel(), y.ravel()) on the mask's shape; flat sizes must agree *)
Definition ra_where (m : flat_ra bool) (x y : flat_ra A) : res (flat_ra A) :=
  if Nat.eqb (length (fst x)) (length (fst m)) && Nat.eqb (length (fst y)) (length (fst m))
  then Ok (map2 pick (fst m) (combine (fst x) (fst y)), snd m) else Refused.
(* where(mask, x, scalar) *)
Definition ra_where_s (m : flat_ra bool) (x : flat_ra A) (y : A) : res (flat_ra A) :=
  if Nat.eqb (length (fst x)) (length (fst m)) then Ok (map2 (fun (b : bool) (a : A) => if b then a else y) (fst m) (fst x), snd m) else Refused.
Definition spec_where (M : list (list bool)) (X Y : list (list A)) : list (list A) :=
  map2 (fun mrow xy => map2 pick mrow (combine (fst xy) (snd xy))) M (combine X Y).
Definition spec_where_s (M : list (list bool)) (X : list (list A)) (y : A) : list (list A) :=
  map2 (map2 (fun (b : bool) (a : A) => if b then a else y)) M X.
(* zeros_like / ones_like: the operand's shape, one value everywhere *)
Definition ra_like (x : flat_ra A) (c : A) : flat_ra A := (repeat c (Z.to_nat (zsum (snd x))), snd x).
(* concatenate(axis=1): RaggedArray([np.concatenate(rows) for rows in zip of the arrays]) - zip stops at the shortest operand *)
Fixpoint zip_rows (xs : list (list (list A))) (n : nat) : list (list A) :=
  match n with O => [] | S k => concat (map (fun x => hd [] x) xs) :: zip_rows (map (@tl (list A)) xs) k end.
Definition min_len (xs : list (list (list A))) : nat := match xs with [] => O | x :: r => fold_left Nat.min (map (@length (list A)) r) (length x) end.
Definition ra_concat1 (xs : list (list (list A))) : flat_ra A := fr_of_rows (zip_rows xs (min_len xs)).
End S2.
Arguments ra_where {A}. Arguments ra_where_s {A}. Arguments spec_where {A}. Arguments spec_where_s {A}. Arguments ra_like {A}. Arguments ra_concat1 {A}. Arguments zip_rows {A}. Arguments min_len {A}.

(* get_column_values(j): self[self.shape[-1] > j, j] *)
Definition col_mask (lens : list Z) (j : Z) : list bool := map (fun l => j <? l) lens.
