From Coq Require Import ZifyBool.
From NPS Require Import ListAux PySlice NumpySem Scatter BuildIdx XorBroadcast XorProof Denote Scan SetItem.
Open Scope Z_scope.

Section SP.
Variable G : Type.
Variable gzero : G.
Variable gadd gsub : G -> G -> G.
Variable bxor : G -> G -> G.
Hypothesis gadd_assoc : forall a b c, gadd a (gadd b c) = gadd (gadd a b) c.
Hypothesis gadd_comm : forall a b, gadd a b = gadd b a.
Hypothesis gadd_zero_l : forall a, gadd gzero a = a.
Hypothesis gsub_add : forall a b, gsub (gadd a b) a = b.          (* (a + b) - a = b *)
Hypothesis bxor_assoc : forall a b c, bxor a (bxor b c) = bxor (bxor a b) c.
Hypothesis bxor_comm : forall a b, bxor a b = bxor b a.
Hypothesis bxor_nilp : forall a, bxor a a = gzero.
Hypothesis bxor_zero_l : forall a, bxor gzero a = a.

Notation gcumsum_from := (gcumsum_from G gadd).
Notation znthG := (znthG G gzero).

Lemma gcumsum_app acc a b : gcumsum_from acc (a ++ b) = gcumsum_from acc a ++ gcumsum_from (fold_left gadd a acc) b.
Proof. revert acc; induction a as [|x a IH]; intros acc; cbn; [reflexivity|]. now rewrite IH. Qed.
Lemma gcumsum_length acc l : length (gcumsum_from acc l) = length l.
Proof. revert acc; induction l; intros; cbn; auto. Qed.
Lemma gcumsum_shift acc l : gcumsum_from acc l = map (gadd acc) (gcumsum_from gzero l).
Proof.
  revert acc. induction l as [|x l IH]; intros acc; cbn; [reflexivity|].
  rewrite gadd_zero_l. rewrite (IH (gadd acc x)), (IH x), map_map. f_equal.
  apply map_ext. intros y. now rewrite gadd_assoc.
Qed.

(* per-row structure of the global cumulative sum *)
Fixpoint rows_cum (acc : G) (R : list (list G)) : list (list G) :=
  match R with [] => [] | r :: R' => gcumsum_from acc r :: rows_cum (fold_left gadd r acc) R' end.
Fixpoint offs (acc : G) (R : list (list G)) : list G :=
  match R with [] => [] | r :: R' => acc :: offs (fold_left gadd r acc) R' end.

Lemma segments_app_first {X} (a b : list X) ls : segments (a ++ b) (zlen a :: ls) = a :: segments b ls.
Proof.
  cbn [segments]. f_equal.
  - unfold ztake, zlen. rewrite Nat2Z.id, firstn_app, firstn_all, Nat.sub_diag. cbn. apply app_nil_r.
  - unfold zdrop, zlen. rewrite Nat2Z.id, skipn_app, skipn_all, Nat.sub_diag. reflexivity.
Qed.

Lemma segs_cum acc R : segments (gcumsum_from acc (concat R)) (map zlen R) = rows_cum acc R.
Proof.
  revert acc; induction R as [|r R IH]; intros acc; [reflexivity|].
  cbn [concat map rows_cum]. rewrite gcumsum_app.
  replace (zlen r) with (zlen (gcumsum_from acc r)) by (unfold zlen; now rewrite gcumsum_length).
  rewrite segments_app_first. now rewrite IH.
Qed.

Lemma offs_char (pre : list G) acc R :
  map (znthG (pre ++ acc :: gcumsum_from acc (concat R))) (excl_from (zlen pre) (map zlen R)) = offs acc R.
Proof.
  revert pre acc; induction R as [|r R IH]; intros pre acc; [reflexivity|].
  cbn [map excl_from concat offs]. f_equal.
  - unfold Scan.znthG, zlen. rewrite Nat2Z.id, app_nth2, Nat.sub_diag by lia. reflexivity.
  - rewrite gcumsum_app.
    destruct r as [|x r] using rev_ind.
    + cbn [app gcumsum_from fold_left zlen length]. replace (zlen pre + zlen (@nil G)) with (zlen pre) by (unfold zlen; cbn; lia). apply IH.
    + clear IHr. rewrite gcumsum_app. cbn [Scan.gcumsum_from]. rewrite fold_left_app. cbn [fold_left].
      specialize (IH (pre ++ acc :: gcumsum_from acc r) (gadd (fold_left gadd r acc) x)).
      replace (zlen (pre ++ acc :: gcumsum_from acc r)) with (zlen pre + zlen (r ++ [x])) in IH
        by (unfold zlen; rewrite !app_length; cbn [length]; rewrite gcumsum_length; lia).
      rewrite <- app_assoc in IH. cbn [app] in IH. rewrite <- app_assoc. cbn [app]. exact IH.
Qed.

(* subtracting the broadcast column row by row *)
Lemma map2_rows {X Y W} (f : X -> Y -> W) (R : list (list X)) (os : list Y) : length os = length R ->
  segments (map2 f (concat R) (spec_broadcast Y os (map zlen R))) (map zlen R)
  = map2 (fun r o => map (fun x => f x o) r) R os.
Proof.
  revert os; induction R as [|r R IH]; intros [|o os] H; cbn in H; try discriminate; [reflexivity|].
  cbn [concat map spec_broadcast map2]. fold (spec_broadcast Y os (map zlen R)).
  assert (E : map2 f (r ++ concat R) (repeat o (Z.to_nat (zlen r)) ++ spec_broadcast Y os (map zlen R))
              = map (fun x => f x o) r ++ map2 f (concat R) (spec_broadcast Y os (map zlen R))).
  { unfold zlen. rewrite Nat2Z.id. clear. induction r as [|x r IHr]; cbn; [reflexivity|]. now rewrite IHr. }
  rewrite E.
  replace (zlen r) with (zlen (map (fun x => f x o) r)) by (unfold zlen; now rewrite map_length).
  rewrite segments_app_first. f_equal. apply IH. lia.
Qed.

Lemma offs_length acc R : length (offs acc R) = length R.
Proof. revert acc; induction R; intros; cbn; auto. Qed.

Lemma rows_cum_zlen acc R : map zlen (rows_cum acc R) = map zlen R.
Proof. revert acc; induction R as [|r R IH]; intros acc; [reflexivity|]. cbn [map rows_cum]. f_equal; [unfold zlen; now rewrite gcumsum_length|apply IH]. Qed.

Lemma rows_cum_sub acc R :
  map2 (fun r o => map (fun x => gsub x o) r) (rows_cum acc R) (offs acc R) = map (gcumsum_from gzero) R.
Proof.
  revert acc; induction R as [|r R IH]; intros acc; [reflexivity|].
  cbn [rows_cum offs map2 map]. f_equal; [|apply IH].
  rewrite gcumsum_shift, map_map. rewrite <- (map_id (gcumsum_from gzero r)) at 2.
  apply map_ext. intros y. apply gsub_add.
Qed.

Theorem cumsum_correct (R : list (list G)) :
  cumsum_model G gzero gadd gsub bxor (concat R) (map zlen R) = spec_cumsum G gzero gadd R.
Proof.
  unfold cumsum_model, spec_cumsum.
  destruct (zsum (map zlen R) =? 0) eqn:Ez.
  - (* no element at all: every row is empty *)
    rewrite segments_concat_rows.
    assert (Hall : Forall (fun r => r = []) R).
    { apply Z.eqb_eq in Ez. clear - Ez. induction R as [|r R IH]; [constructor|]. cbn [map zsum] in Ez.
      pose proof (zsum_nonneg (map zlen R) (all_nonneg_zlen R)). assert (zlen r = 0) by (unfold zlen in *; lia).
      constructor; [destruct r; [reflexivity|unfold zlen in *; cbn in *; lia]|apply IH; lia]. }
    clear Ez. induction Hall as [|r R Hr _ IH]; [reflexivity|]. subst r. cbn [map Scan.gcumsum_from]. f_equal. exact IH.
  - cbn [Scan.gcumsum_from tl]. rewrite gadd_zero_l.
    pose proof (offs_char [] gzero R) as Ho. cbn [app] in Ho. unfold excl_prefix. change (zlen (@nil G)) with 0 in Ho. rewrite Ho.
    rewrite (raw_broadcast_correct G gzero bxor bxor_assoc bxor_comm bxor_nilp bxor_zero_l)
      by (try apply all_nonneg_zlen; rewrite offs_length; now rewrite map_length).
    assert (Hc : gcumsum_from gzero (concat R) = concat (rows_cum gzero R)).
    { rewrite <- (segs_cum gzero R). symmetry. apply segments_concat; [apply all_nonneg_zlen|].
      rewrite zsum_map_zlen. unfold zlen. now rewrite gcumsum_length. }
    rewrite Hc, <- (rows_cum_zlen gzero R). rewrite map2_rows by (rewrite offs_length; clear; generalize gzero; induction R; intros; cbn; auto).
    apply rows_cum_sub.
Qed.
End SP.
Print Assumptions cumsum_correct.
