"""C16 — arithmetic on run-length arrays: correspondence of the implementation with the Coq models."""
import vlib
from harness import fam_rle, fam_rle2
TRUSTED = fam_rle.TRUSTED
ASSUME = ["integer values; float dtypes (NaN, -0.0) are covered by the bit-pattern instance in the thorough tier of the final framework"]
RULE = "case kinds: bin concat sum; " + fam_rle.RULE

def translator_tie():
    return vlib.translator_tie(["rle"])

def run(R, tier, rng):
    fam_rle2.run_c16(R, tier, rng)
    fam_rle.run_family(R, tier, rng, set("bin concat sum".split()))
