"""C17 — 2-D and ragged run-length arrays behave as one run-length array per row."""
import vlib
import warnings
from vlib import show, parse, oracle, parse2, guarded
from harness.c02 import enc_rsel
warnings.simplefilter("ignore")

TRUSTED = ["Coq 8.16.1 kernel", "extraction (ExtrOcamlBasic, Z inductive) + oracle/driver.ml", "this harness"]
ASSUME = ["rows of length >= 1 (the property's domain); integer values",
          "the oracle returns the model's (boundaries, values, decoded rows); the decoded rows are compared with the dense computation inside the model"]
from harness.fam_rl2d2 import RULE2
RULE = RULE2 + " || " + ("seeded random ragged arrays (1..4 rows of 1..5 values over {0,1,1,2}) and matrices; per object: encode, 4 row selectors, one element, "
        "every integer column valid in all rows, row reductions, ravel / col_counts / column sum, 12 seeded column ranges (kept when non-empty in "
        "every row and, for negative steps, with bounds inside the rows), scalar and column ufuncs on both sides; matrix variant: encode, reversed "
        "rows, row sums; non-trivial = at least two rows; distinct = distinct protocol line")
UFS = ["add", "subtract", "multiply", "maximum", "less"]



def translator_tie():
    return vlib.translator_tie(["rle"])

def run(R, tier, rng):
    from harness import fam_rl2d2
    fam_rl2d2.run_c17(R, tier, rng)
    import numpy as np
    from npstructures import RaggedArray, RunLengthRaggedArray, RunLength2dArray
    def to_py(x):
        if isinstance(x, list) and x and isinstance(x[0], bool): return np.array(x)
        return x
    def obs(x):
        x._indices.ravel(); x._values.ravel()
        d = x.to_array(); d = d.tolist() if hasattr(d, "tolist") else d
        return [x._indices.tolist(), x._values.tolist(), d]
    rla = lambda r: [np.asarray(r._events).tolist(), np.asarray(r._values).tolist(), r.to_array().tolist()]
    cases = []
    def add(line, f, nt, kind):
        try: e = f()
        except Exception: e = None
        cases.append((line, e, nt, kind))
    for trial in range(2500 if tier == "thorough" else 500):
        nr = rng.randint(1, 4)
        Rw = [[rng.choice([0, 1, 1, 2]) for _ in range(rng.randint(1, 5))] for _ in range(nr)]
        mk = lambda: RunLengthRaggedArray.from_ragged_array(RaggedArray(Rw, dtype=int))
        base = "rl2 [0 %s] " % show(Rw); nt = nr >= 2
        add(base + "0", lambda: obs(mk()), nt, "encode")
        for rs in [slice(None, None, -1), slice(1, None), [rng.randrange(-nr, nr) for _ in range(2)], [rng.random() < .5 for _ in range(nr)]]:
            add(base + "1 " + show(enc_rsel(rs)), lambda: obs(mk()[to_py(rs)]), nt, "rows")
        i = rng.randrange(-nr, nr); j = rng.randrange(-len(Rw[i]), len(Rw[i]))
        add(base + "2 %d %d" % (i, j), lambda: int(mk()[i, j]), nt, "element")
        mn = min(len(r) for r in Rw)
        for j in range(-mn, mn): add(base + "3 %d" % j, lambda: np.asarray(mk()[:, j]).tolist(), nt, "column")
        add(base + "4", lambda: [mk().sum(axis=-1).tolist(), mk().max(axis=-1).tolist(), mk().argmax(axis=-1).tolist()], nt, "row-reductions")
        add(base + "11", lambda: [[int(b) for b in mk().any(axis=-1).tolist()], [int(b) for b in mk().all(axis=-1).tolist()], [float(v) for v in np.asarray(mk().mean(axis=-1), dtype=float).tolist()]], nt, "row-any-all-mean")
        add(base + "5", lambda: [rla(mk().ravel()), rla(mk().col_counts()), rla(mk().sum(axis=0))], nt, "ravel/colcounts/colsum")
        mx = max(len(r) for r in Rw)
        for _ in range(12):
            st = rng.choice([None] + list(range(-mx - 1, mx + 2))); sp = rng.choice([None] + list(range(-mx - 1, mx + 2))); se = rng.choice([None, 1, 2, 3, -1, -2])
            exp = [r[st:sp:se] for r in Rw]
            if any(len(e) == 0 for e in exp): continue
            if se is not None and se < 0 and not all((st is None or -len(r) <= st < len(r)) and (sp is None or -len(r) <= sp < len(r)) for r in Rw): continue
            add(base + "6 %s %s %s" % (show(st), show(sp), show(se)), lambda: obs(mk()[:, st:sp:se]), nt, "column-range")
        c = rng.randrange(5); v = rng.randint(-2, 3); col = [rng.randint(-2, 3) for _ in Rw]; uf = getattr(np, UFS[c])
        add(base + "7 %d %d" % (c, v), lambda: obs(mk().__class__(mk()._indices, uf(mk(), v)._values.astype(int))), nt, "ufunc-scalar-right")
        add(base + "8 %d %d" % (c, v), lambda: obs(mk().__class__(mk()._indices, uf(v, mk())._values.astype(int))), nt, "ufunc-scalar-left")
        add(base + "9 %d %s" % (c, show(col)), lambda: obs(mk().__class__(mk()._indices, uf(mk(), np.array(col)[:, None])._values.astype(int))), nt, "ufunc-column-right")
        add(base + "10 %d %s" % (c, show(col)), lambda: obs(mk().__class__(mk()._indices, uf(np.array(col)[:, None], mk())._values.astype(int))), nt, "ufunc-column-left")
        nc = rng.randint(1, 5); M = [[rng.choice([0, 1, 1, 2]) for _ in range(nc)] for _ in range(nr)]
        mm = lambda: RunLength2dArray.from_array(np.array(M)); bm = "rl2 [1 %s] " % show(M)
        add(bm + "0", lambda: obs(mm()), nt, "matrix-encode")
        add(bm + "1 " + show(enc_rsel(slice(None, None, -1))), lambda: obs(mm()[::-1]), nt, "matrix-rows")
        add(bm + "11", lambda: [[int(b) for b in np.asarray(mm().any(axis=-1)).tolist()], [int(b) for b in np.asarray(mm().all(axis=-1)).tolist()], None], nt, "matrix-row-any-all")
        add(bm + "4", lambda: [mm().sum(axis=-1).tolist(), None, None], nt, "matrix-rowsum")
    # from_intervals: representation (boundaries, values) and decoded rows against Model/RLE2d.from_intervals and the indicator rows
    for trial in range(600 if tier == "thorough" else 150):
        n = rng.randint(1, 7); k = rng.randint(1, 4)
        st = [rng.randint(0, n - 1) for _ in range(k)]; en = [rng.randint(s0 + 1, n) for s0 in st]
        if trial % 5 == 0: st[0] = 0
        if trial % 7 == 0: en[-1] = n
        v = rng.choice([1, 1, 3, -2])
        def iv():
            x = RunLength2dArray.from_intervals(np.array(st), np.array(en), n, v) if v != 1 else RunLength2dArray.from_intervals(np.array(st), np.array(en), n)
            return [x._indices.tolist(), x._values.tolist(), np.asarray(x.to_array()).astype(int).tolist()]
        add("rl2_intervals %s %s %d %d" % (show(st), show(en), n, v), iv, k >= 2, "from-intervals")
    out = oracle([c[0] for c in cases])
    for (line, impl, nt, kind), o in zip(cases, out):
        sp = None
        if o.startswith("ERR"): m = "oracle-error: " + o[:80]
        else:
            m = parse(o)
            if kind == "matrix-rowsum" and impl is not None and m is not None: m = [m[0], None, None]
            if kind == "row-any-all-mean" and m is not None: m = [m[0], m[1], [float(np.float64(a_) / np.float64(b_)) for a_, b_ in m[2]]]
            if kind == "matrix-row-any-all" and m is not None: m = [m[0], m[1], None]
            if kind == "from-intervals" and m is not None: m, sp = m[0], [m[0][0], m[0][1], m[1]]
        R.record(line, impl, m, m if sp is None else sp, nt, kind)
