From Coq Require Import ZArith Bool.
From NPS Require Import K_rle.
Open Scope Z_scope.
(* RunLengthArray._get_position: the negative wrap of the index, as in Model/RLEOps.v get_position *)
Lemma tie_rle_wrap idx n : gen_rle_wrap idx n = (if idx <? 0 then n + idx else idx).
Proof. reflexivity. Qed.
