From Coq Require Import List Arith Bool Lia.
Import ListNotations.
From NPS Require Import Heap.

Section P.
Variable A : Type.
Variable dflt : A.
Variable sel : Type.
Variable apply_sel : forall X : Type, sel -> list (list X) -> list (list X).
Hypothesis apply_sel_natural : forall X Y (f : X -> Y) s r,
  apply_sel Y s (map (map f) r) = map (map f) (apply_sel X s r).

Notation heap := (heap A).
Notation arr := Heap.arr.
Notation op := (op A sel).
Notation step := (step A dflt sel apply_sel).
Notation vstep := (vstep A dflt sel apply_sel).
Notation materialise := (materialise A dflt).
Notation content_arr := (content_arr A dflt).
Notation get_arr := (get_arr A).
Notation get_buf := (get_buf A).

(* ---------- list lemmas ---------- *)
Lemma set_nth_length {X} (l : list X) n v : length (set_nth l n v) = length l.
Proof. revert n; induction l as [|x l IH]; intros [|n]; cbn; auto. Qed.
Lemma nth_set_nth_same {X} (l : list X) n v d : n < length l -> nth n (set_nth l n v) d = v.
Proof. revert n; induction l as [|x l IH]; intros [|n] H; cbn in *; try lia; auto. apply IH; lia. Qed.
Lemma nth_set_nth_other {X} (l : list X) n m v d : n <> m -> nth n (set_nth l m v) d = nth n l d.
Proof. revert n m; induction l as [|x l IH]; intros [|n] [|m] H; cbn; auto; try lia. Qed.
Lemma nth_error_set_nth_same {X} (l : list X) n v : n < length l -> nth_error (set_nth l n v) n = Some v.
Proof. revert n; induction l as [|x l IH]; intros [|n] H; cbn in *; try lia; auto. apply IH; lia. Qed.
Lemma nth_error_set_nth_other {X} (l : list X) n m v : n <> m -> nth_error (set_nth l m v) n = nth_error l n.
Proof. revert n m; induction l as [|x l IH]; intros [|n] [|m] H; cbn; auto; try lia. Qed.
Lemma nth_error_app_last {X} (l : list X) a : nth_error (l ++ [a]) (length l) = Some a.
Proof. induction l; cbn; auto. Qed.
Lemma write_positions_length (b : list A) ps v : length (write_positions A b ps v) = length b.
Proof. unfold write_positions. revert b; induction ps as [|p ps IH]; intros b; cbn; auto. rewrite IH. apply set_nth_length. Qed.

Lemma map_nth_seq_app (pre r rest : list A) :
  map (fun p => nth p (pre ++ r ++ rest) dflt) (seq (length pre) (length r)) = r.
Proof.
  revert pre; induction r as [|x r IH]; intros pre; [reflexivity|].
  cbn [length seq map]. f_equal.
  - rewrite app_nth2 by lia. now rewrite Nat.sub_diag.
  - specialize (IH (pre ++ [x])). rewrite app_length in IH. cbn [length] in IH.
    rewrite Nat.add_1_r in IH. rewrite <- app_assoc in IH. exact IH.
Qed.

Lemma gather_consec (pre : list A) (c : list (list A)) :
  map (map (fun p => nth p (pre ++ concat c) dflt)) (consec (length pre) (map (@length A) c)) = c.
Proof.
  revert pre; induction c as [|r c IH]; intros pre; [reflexivity|].
  cbn [map consec concat]. f_equal.
  - apply map_nth_seq_app.
  - specialize (IH (pre ++ r)). rewrite app_length, <- app_assoc in IH. exact IH.
Qed.

Lemma consec_lengths {X} (f : nat -> X) from lens : map (@length X) (map (map f) (consec from lens)) = lens.
Proof. revert from; induction lens as [|l ls IH]; intros from; cbn; [reflexivity|]. now rewrite map_length, seq_length, IH. Qed.

Lemma gather_consec_concat (pre b : list A) lens : length b = list_sum lens ->
  concat (map (map (fun p => nth p (pre ++ b) dflt)) (consec (length pre) lens)) = b.
Proof.
  revert pre b; induction lens as [|l ls IH]; intros pre b H.
  - destruct b; [reflexivity|discriminate].
  - change (list_sum (l :: ls)) with (l + list_sum ls) in H. cbn [consec map concat].
    pose (f := firstn l b). pose (k := skipn l b).
    assert (Eb : b = f ++ k) by (symmetry; apply firstn_skipn).
    assert (Hl : length f = l) by (unfold f; rewrite firstn_length; lia).
    assert (Hk : length k = list_sum ls) by (unfold k; rewrite skipn_length; lia).
    clearbody f k. subst b l.
    rewrite map_nth_seq_app. f_equal.
    specialize (IH (pre ++ f) k Hk). rewrite app_length, <- app_assoc in IH. exact IH.
Qed.

(* ---------- the simulation invariant ---------- *)
Definition Inv (h : heap) (vs : list (list (list A))) : Prop :=
  length (arrs A h) = length vs /\
  forall x a, get_arr h x = Some a ->
    a_buf a < length (bufs A h) /\
    nth_error vs x = Some (content_arr h a) /\
    (a_contig a = true ->
       get_buf h (a_buf a) = concat (content_arr h a) /\
       a_rows a = consec 0 (map (@length A) (content_arr h a))).

Lemma content_arr_ext h h' a :
  get_buf h' (a_buf a) = get_buf h (a_buf a) -> content_arr h' a = content_arr h a.
Proof. intros E. unfold Heap.content_arr. now rewrite E. Qed.

Lemma get_buf_app h b l : b < length (bufs A h) ->
  Heap.get_buf A {| bufs := bufs A h ++ l ; arrs := arrs A h |} b = get_buf h b.
Proof. intros H. unfold Heap.get_buf. cbn. now rewrite app_nth1. Qed.

Lemma Inv_empty : Inv (empty_heap A) [].
Proof. split; [reflexivity|]. intros x a H. unfold Heap.get_arr, empty_heap in H. cbn in H. destruct x; discriminate. Qed.

Lemma get_arr_lt h x a : get_arr h x = Some a -> x < length (arrs A h).
Proof. intros H. apply nth_error_Some. unfold Heap.get_arr in H. congruence. Qed.

Lemma materialise_inv h vs x : Inv h vs ->
  Inv (materialise h x) vs /\ (forall a, get_arr (materialise h x) x = Some a -> a_contig a = true).
Proof.
  intros [Hlen Hall]. unfold Heap.materialise.
  destruct (get_arr h x) as [a|] eqn:E; [|split; [split; assumption| intros a Ha; congruence]].
  destruct (a_contig a) eqn:C.
  { split; [split; assumption|]. intros a' Ha'. congruence. }
  destruct (Hall x a E) as (Hb & Hv & _).
  pose proof (get_arr_lt h x a E) as Hx.
  set (c := content_arr h a) in *.
  set (new := {| a_buf := length (bufs A h); a_rows := consec 0 (map (@length A) c); a_contig := true |}).
  set (h' := {| bufs := bufs A h ++ [concat c]; arrs := set_nth (arrs A h) x new |}).
  assert (Hnewbuf : get_buf h' (length (bufs A h)) = concat c).
  { unfold Heap.get_buf, h'. cbn. rewrite app_nth2 by lia. now rewrite Nat.sub_diag. }
  assert (Hnewc : content_arr h' new = c).
  { unfold Heap.content_arr. cbn [a_buf a_rows new]. rewrite Hnewbuf. apply (gather_consec [] c). }
  split.
  - split; [cbn; now rewrite set_nth_length|].
    intros y ay Hy. unfold Heap.get_arr, h' in Hy. cbn in Hy.
    destruct (Nat.eq_dec y x) as [->|Hne].
    + rewrite nth_error_set_nth_same in Hy by assumption. injection Hy as <-.
      split; [cbn; rewrite app_length; cbn; lia|]. split; [now rewrite Hnewc|].
      intros _. rewrite Hnewc. split; [exact Hnewbuf|reflexivity].
    + rewrite nth_error_set_nth_other in Hy by assumption.
      destruct (Hall y ay Hy) as (Hb' & Hv' & Hc').
      assert (Eb : get_buf h' (a_buf ay) = get_buf h (a_buf ay)) by (apply get_buf_app; assumption).
      rewrite (content_arr_ext h h' ay Eb).
      split; [cbn; rewrite app_length; lia|]. split; [assumption|]. now rewrite Eb.
  - intros a' Ha'. unfold Heap.get_arr, h' in Ha'. cbn in Ha'.
    rewrite nth_error_set_nth_same in Ha' by assumption. now injection Ha' as <-.
Qed.

Lemma nth_error_app_lt {X} (l l' : list X) n : n < length l -> nth_error (l ++ l') n = nth_error l n.
Proof. intros. now apply nth_error_app1. Qed.

Lemma get_arr_app h bs x a new :
  Heap.get_arr A {| bufs := bs; arrs := arrs A h ++ [new] |} x = Some a ->
  (x < length (arrs A h) /\ get_arr h x = Some a) \/ (x = length (arrs A h) /\ a = new).
Proof.
  unfold Heap.get_arr. cbn. intros H.
  destruct (Nat.lt_ge_cases x (length (arrs A h))) as [Hlt|Hge].
  - left. split; [assumption|]. now rewrite nth_error_app1 in H.
  - right. rewrite nth_error_app2 in H by assumption.
    destruct (x - length (arrs A h)) as [|k] eqn:E; cbn in H; [|destruct k; discriminate].
    split; [lia|congruence].
Qed.

Lemma length_concat (c : list (list A)) : length (concat c) = list_sum (map (@length A) c).
Proof. induction c as [|r c IH]; cbn; [reflexivity|]. now rewrite app_length, IH. Qed.

Lemma assign_val_concat c s v :
  concat (assign_val A dflt sel apply_sel c s v)
  = write_positions A (concat c) (concat (apply_sel nat s (consec 0 (map (@length A) c)))) v.
Proof.
  unfold assign_val.
  apply (gather_consec_concat [] (write_positions A (concat c) (concat (apply_sel nat s (consec 0 (map (@length A) c)))) v)).
  rewrite write_positions_length. apply length_concat.
Qed.

Lemma step_sim h vs o : Inv h vs -> safe_op A dflt sel h o ->
  Inv (fst (step h o)) (fst (vstep vs o)) /\ snd (step h o) = snd (vstep vs o).
Proof.
  intros HI Hsafe. pose proof HI as [Hlen Hall]. destruct o as [r | x s | x | x s v].
  - (* OBuild *)
    cbn [Heap.step Heap.vstep fst snd]. split; [|reflexivity].
    set (new := {| a_buf := length (bufs A h); a_rows := consec 0 (map (@length A) r); a_contig := true |}).
    set (h' := {| bufs := bufs A h ++ [concat r]; arrs := arrs A h ++ [new] |}).
    assert (Hnewbuf : get_buf h' (length (bufs A h)) = concat r).
    { unfold Heap.get_buf, h'. cbn. rewrite app_nth2 by lia. now rewrite Nat.sub_diag. }
    assert (Hnewc : content_arr h' new = r).
    { unfold Heap.content_arr. cbn [a_buf a_rows new]. rewrite Hnewbuf. apply (gather_consec [] r). }
    split; [cbn; rewrite !app_length; cbn; lia|].
    intros y ay Hy. destruct (get_arr_app h _ y ay new Hy) as [[Hlt Hy']|[-> ->]].
    + destruct (Hall y ay Hy') as (Hb' & Hv' & Hc').
      assert (Eb : get_buf h' (a_buf ay) = get_buf h (a_buf ay)) by (apply get_buf_app; assumption).
      rewrite (content_arr_ext h h' ay Eb).
      split; [cbn; rewrite app_length; lia|]. split; [rewrite nth_error_app1 by lia; assumption|]. now rewrite Eb.
    + split; [cbn; rewrite app_length; cbn; lia|]. split.
      * rewrite Hlen, Hnewc. apply nth_error_app_last.
      * intros _. rewrite Hnewc. split; [exact Hnewbuf|reflexivity].
  - (* OSelect *)
    cbn [Heap.step Heap.vstep].
    destruct (get_arr h x) as [a|] eqn:E.
    + destruct (Hall x a E) as (Hb & Hv & _). rewrite Hv. cbn [fst snd]. split; [|reflexivity].
      set (new := {| a_buf := a_buf a; a_rows := apply_sel nat s (a_rows a); a_contig := false |}).
      set (h' := {| bufs := bufs A h; arrs := arrs A h ++ [new] |}).
      assert (Hnewc : content_arr h' new = apply_sel A s (content_arr h a)).
      { unfold Heap.content_arr. cbn [a_buf a_rows new]. now rewrite apply_sel_natural. }
      split; [cbn; rewrite !app_length; cbn; lia|].
      intros y ay Hy. destruct (get_arr_app h _ y ay new Hy) as [[Hlt Hy']|[-> ->]].
      * destruct (Hall y ay Hy') as (Hb' & Hv' & Hc').
        split; [exact Hb'|]. split; [rewrite nth_error_app1 by lia; exact Hv'|exact Hc'].
      * split; [exact Hb|]. split; [|cbn; discriminate].
        rewrite Hlen, Hnewc. apply nth_error_app_last.
    + assert (Hn : nth_error vs x = None).
      { apply nth_error_None. rewrite <- Hlen. apply nth_error_None. exact E. }
      rewrite Hn. cbn [fst snd]. split; [exact HI|reflexivity].
  - (* ORead *)
    cbn [Heap.step Heap.vstep fst snd].
    destruct (materialise_inv h vs x HI) as [HI' _]. split; [exact HI'|].
    unfold Heap.content. destruct (get_arr (materialise h x) x) as [a|] eqn:E; cbn [option_map].
    + destruct HI' as [_ Hall']. destruct (Hall' x a E) as (_ & Hv & _). now rewrite Hv.
    + destruct HI' as [Hlen' _]. symmetry. apply nth_error_None. rewrite <- Hlen'. apply nth_error_None. exact E.
  - (* OAssign *)
    cbn [Heap.step Heap.vstep]. cbn [Heap.safe_op] in Hsafe.
    destruct (materialise_inv h vs x HI) as [[Hlen' Hall'] Hcontig].
    set (hm := materialise h x) in *.
    destruct (get_arr hm x) as [a|] eqn:E.
    + destruct (Hall' x a E) as (Hb & Hv & Hc). rewrite Hv. cbn [fst snd]. split; [|reflexivity].
      specialize (Hc (Hcontig a eq_refl)). destruct Hc as [Hbuf Hrows].
      set (c := content_arr hm a) in *.
      set (ps := concat (apply_sel nat s (a_rows a))).
      set (nb := write_positions A (get_buf hm (a_buf a)) ps v).
      set (h' := {| bufs := set_nth (bufs A hm) (a_buf a) nb; arrs := arrs A hm |}).
      assert (Hsame : get_buf h' (a_buf a) = nb).
      { unfold Heap.get_buf, h'. cbn. now apply nth_set_nth_same. }
      assert (Hother : forall b, b <> a_buf a -> get_buf h' b = get_buf hm b).
      { intros b Hne. unfold Heap.get_buf, h'. cbn. now apply nth_set_nth_other. }
      assert (Hxc : content_arr h' a = assign_val A dflt sel apply_sel c s v).
      { unfold Heap.content_arr at 1. rewrite Hsame. unfold assign_val. rewrite Hrows.
        unfold nb, ps. rewrite Hbuf, Hrows. reflexivity. }
      pose proof (get_arr_lt hm x a E) as Hxlt.
      split; [cbn; rewrite set_nth_length; exact Hlen'|].
      intros y ay Hy. change (get_arr hm y = Some ay) in Hy.
      destruct (Nat.eq_dec y x) as [->|Hne].
      * assert (ay = a) by congruence. subst ay.
        split; [cbn; rewrite set_nth_length; exact Hb|]. split.
        -- rewrite Hxc. apply nth_error_set_nth_same. rewrite <- Hlen'. exact Hxlt.
        -- intros _. rewrite Hxc. split.
           ++ rewrite Hsame.
              assert (Enb : nb = write_positions A (concat c) (concat (apply_sel nat s (consec 0 (map (@length A) c)))) v).
              { unfold nb, ps. now rewrite Hbuf, Hrows. }
              rewrite Enb. symmetry. apply assign_val_concat.
           ++ unfold assign_val. rewrite consec_lengths. exact Hrows.
      * destruct (Hall' y ay Hy) as (Hb' & Hv' & Hc').
        assert (Hnb : a_buf ay <> a_buf a) by (apply (Hsafe a E y ay Hne Hy)).
        assert (Eb : get_buf h' (a_buf ay) = get_buf hm (a_buf ay)) by (apply Hother; exact Hnb).
        rewrite (content_arr_ext hm h' ay Eb).
        split; [cbn; rewrite set_nth_length; exact Hb'|]. split.
        -- rewrite nth_error_set_nth_other by exact Hne. exact Hv'.
        -- now rewrite Eb.
    + assert (Hn : nth_error vs x = None).
      { apply nth_error_None. rewrite <- Hlen'. apply nth_error_None. exact E. }
      rewrite Hn. cbn [fst snd]. split; [split; assumption|reflexivity].
Qed.

Theorem run_sim : forall ops h vs, Inv h vs -> safe_run A dflt sel apply_sel h ops ->
  run A dflt sel apply_sel h ops = vrun A dflt sel apply_sel vs ops.
Proof.
  induction ops as [|o ops IH]; intros h vs HI Hs; [reflexivity|].
  cbn [Heap.run Heap.vrun]. destruct Hs as [Hs1 Hs2].
  destruct (step_sim h vs o HI Hs1) as [HI' Hout].
  destruct (step h o) as [h' out] eqn:E1. destruct (vstep vs o) as [vs' out'] eqn:E2.
  cbn [fst snd] in *. subst out'. f_equal. apply IH; assumption.
Qed.

(* value-semantics reads are pure: inserting one changes no later state or output *)
Fixpoint vafter (vs : vstate A) (ops : list op) : vstate A :=
  match ops with [] => vs | o :: r => vafter (fst (vstep vs o)) r end.

Definition insert_read (i x : nat) (ops : list op) : list op := firstn i ops ++ ORead A sel x :: skipn i ops.

Lemma vrun_insert_read : forall ops i x vs, i <= length ops ->
  vrun A dflt sel apply_sel vs (insert_read i x ops)
  = firstn i (vrun A dflt sel apply_sel vs ops) ++ nth_error (vafter vs (firstn i ops)) x
    :: skipn i (vrun A dflt sel apply_sel vs ops).
Proof.
  induction ops as [|o ops IH]; intros i x vs Hi.
  - destruct i; [reflexivity|cbn in Hi; lia].
  - destruct i as [|i].
    + unfold insert_read. cbn [firstn skipn app vafter]. cbn [Heap.vrun Heap.vstep]. reflexivity.
    + unfold insert_read in *. cbn [firstn skipn app vafter Heap.vrun].
      destruct (vstep vs o) as [vs' out] eqn:E. cbn [fst firstn skipn app]. f_equal.
      apply IH. cbn in Hi. lia.
Qed.

(* C10_partial: if neither history writes into a buffer that another array still names,
   the inserted read changes no output of the original history *)
Theorem C10_partial ops i x : i <= length ops ->
  safe_run A dflt sel apply_sel (empty_heap A) ops ->
  safe_run A dflt sel apply_sel (empty_heap A) (insert_read i x ops) ->
  let out := run A dflt sel apply_sel (empty_heap A) ops in
  let out' := run A dflt sel apply_sel (empty_heap A) (insert_read i x ops) in
  firstn i out' = firstn i out /\ skipn (S i) out' = skipn i out.
Proof.
  intros Hi Hs Hs'. cbn zeta.
  rewrite (run_sim ops _ [] Inv_empty Hs), (run_sim _ _ [] Inv_empty Hs').
  rewrite vrun_insert_read by assumption.
  set (v := vrun A dflt sel apply_sel [] ops).
  assert (Hl : length (firstn i v) = i).
  { rewrite firstn_length. assert (length v = length ops).
    { unfold v. clear. generalize (@nil (list (list A))). induction ops as [|o ops IH]; intros vs; cbn; [reflexivity|].
      destruct (vstep vs o). cbn. now rewrite IH. }
    lia. }
  split.
  - rewrite firstn_app, Hl, Nat.sub_diag. cbn [firstn]. rewrite app_nil_r. rewrite firstn_all2 by lia. reflexivity.
  - change (firstn i v ++ ?e :: skipn i v) with (firstn i v ++ [e] ++ skipn i v).
    rewrite app_assoc. rewrite skipn_app. 
    assert (Hl2 : length (firstn i v ++ [nth_error (vafter [] (firstn i ops)) x]) = S i) by (rewrite app_length, Hl; cbn; lia).
    rewrite <- Hl2 at 1. rewrite skipn_all. rewrite Hl2, Nat.sub_diag. reflexivity.
Qed.
End P.

Print Assumptions C10_partial.
