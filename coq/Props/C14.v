(* C14 — property theorems only: each restates the full statement and is closed by the lemma proved in Proofs/. *)
From Coq Require Import ZArith List Bool.
From NPS Require Import ListAux PySlice NumpySem Scatter BuildIdx XorBroadcast View Index Assign Reduce Scan RaOps Heap Hash HashRun BitArr RLE RLEOps RLE2d DataClass RowsSpec AssignSpec MapSpec Denote RoundTrip RLEProof RLEPer CanonProof ToArray StepProof StartEnd BinaryProof RLConcat.
Import ListNotations.
Open Scope Z_scope.

Theorem C14_to_array_from_array :
  forall (A : Type) (dflt : A) (neqb : A -> A -> bool),
       (forall x y : A, neqb x y = false -> x = y) ->
       forall bxor : A -> A -> A,
       (forall a b c : A, bxor a (bxor b c) = bxor (bxor a b) c) ->
       (forall a b : A, bxor a b = bxor b a) ->
       (forall a : A, bxor a a = dflt) ->
       (forall a : A, bxor dflt a = a) ->
       forall a : list A, a <> [] -> to_array A dflt bxor (from_array A dflt neqb a) = a.
Proof. exact to_array_from_array. Qed.
Print Assumptions C14_to_array_from_array.

Theorem C14_from_array_canonical :
  forall (A : Type) (dflt : A) (neqb : A -> A -> bool) (a : list A),
       a <> [] ->
       let r := from_array A dflt neqb a in
       hd (-1) (fst r) = 0 /\
       last (fst r) (-1) = zlen a /\ strictly_increasing (fst r) /\ length (fst r) = S (length (snd r)).
Proof. exact from_array_canonical. Qed.
Print Assumptions C14_from_array_canonical.

Theorem C14_decode_from_array :
  forall (A : Type) (dflt : A) (neqb : A -> A -> bool),
       (forall x y : A, neqb x y = false -> x = y) ->
       forall a : list A, a <> [] -> decode A (from_array A dflt neqb a) = a.
Proof. exact decode_from_array. Qed.
Print Assumptions C14_decode_from_array.

Theorem C14_decode_from_array_R :
  forall (A : Type) (dflt : A) (neqb : A -> A -> bool),
       (forall x y z : A, neqb x y = false -> neqb y z = false -> neqb x z = false) ->
       forall a : list A, a <> [] -> Forall2 (R A neqb) (decode A (from_array A dflt neqb a)) a.
Proof. exact decode_from_array_R. Qed.
Print Assumptions C14_decode_from_array_R.

Theorem C14_to_array_correct :
  forall (G : Type) (zero : G) (xor : G -> G -> G),
       (forall a b c : G, xor a (xor b c) = xor (xor a b) c) ->
       (forall a b : G, xor a b = xor b a) ->
       (forall a : G, xor a a = zero) ->
       (forall a : G, xor zero a = a) ->
       forall (vs : list G) (ls : list Z),
       Forall (fun l : Z => 1 <= l) ls ->
       length vs = length ls ->
       ls <> [] -> to_array G zero xor (excl_prefix ls ++ [zsum ls], vs) = spec_broadcast G vs ls.
Proof. exact to_array_correct. Qed.
Print Assumptions C14_to_array_correct.

Theorem C14_join_runs_canonical :
  forall (A : Type) (eqb : A -> A -> bool),
       (forall x y : A, eqb x y = true -> x = y) ->
       forall (ev : list Z) (vs : list A),
       length ev = S (length vs) -> no_adj A eqb (snd (join_runs A eqb ev vs)).
Proof. exact join_runs_canonical. Qed.
Print Assumptions C14_join_runs_canonical.

Theorem C14_start_to_end_shape :
  forall (A : Type) (ev : list Z) (vs : list A) (e0 s e : Z),
       length ev = length vs ->
       strictly_increasing (e0 :: ev) ->
       e0 <= s -> s < e -> e <= last (e0 :: ev) 0 -> shape_ok A (start_to_end A (e0 :: ev, vs) s e) (e - s).
Proof. exact start_to_end_shape. Qed.
Print Assumptions C14_start_to_end_shape.

Theorem C14_step_subset_pos :
  forall (A : Type) (d : A) (eqb : A -> A -> bool),
       (forall x y : A, eqb x y = true -> x = y) ->
       forall k : Z,
       1 <= k ->
       forall (ls : list Z) (vs : list A),
       canon A ls vs ->
       decode A (step_subset A eqb (evs ls, vs) k) =
       map (fun q : Z => dense A d vs ls (q * k)) (ap 0 (cdiv k (zsum ls)) 1) /\
       no_adj A eqb (snd (step_subset A eqb (evs ls, vs) k)).
Proof. exact step_subset_pos. Qed.
Print Assumptions C14_step_subset_pos.

Theorem C14_apply_binary_correct :
  forall (A B C : Type) (da : A) (db : B) (ceqb : C -> C -> bool),
       (forall x y : C, ceqb x y = true -> x = y) ->
       forall (f : A -> B -> C) (lsA lsB : list Z) (vA : list A) (vB : list B),
       canon A lsA vA ->
       canon B lsB vB ->
       zsum lsA = zsum lsB ->
       lsA <> [] ->
       lsB <> [] ->
       exists r : rla C,
         apply_binary A B C da db ceqb f (evs lsA, vA) (evs lsB, vB) = Ok r /\
         decode C r = map2 f (spec_broadcast A vA lsA) (spec_broadcast B vB lsB) /\ no_adj C ceqb (snd r).
Proof. exact apply_binary_correct. Qed.
Print Assumptions C14_apply_binary_correct.

Theorem C14_rl_concat_correct :
  forall (A : Type) (ps : list (list Z * list A)),
       Forall (fun p : list Z * list A => length (snd p) = length (fst p)) ps ->
       rl_concat (map (of_runs1 A) ps) = (evs (concat (map fst ps)), concat (map snd ps)) /\
       decode A (rl_concat (map (of_runs1 A) ps)) =
       concat (map (fun p : list Z * list A => decode A (of_runs1 A p)) ps).
Proof. exact rl_concat_correct. Qed.
Print Assumptions C14_rl_concat_correct.
