From Coq Require Import ZArith List Lia.
From NPS Require Import Bits.
Import ListNotations.
Open Scope Z_scope.

(* base-2^b positional notation: dividing drops digits, reducing keeps digits (C13 windows, C11/C12 k-mer keys) *)
Lemma digits_val_app b xs ys : 0 <= b ->
  digits_val b (xs ++ ys) = digits_val b xs + 2 ^ (b * Z.of_nat (length xs)) * digits_val b ys.
Proof.
  intros Hb. induction xs as [|x xs IH]; cbn [app digits_val length].
  - rewrite Z.mul_0_r, Z.pow_0_r. lia.
  - rewrite IH, Nat2Z.inj_succ. replace (b * Z.succ (Z.of_nat (length xs))) with (b + b * Z.of_nat (length xs)) by lia.
    rewrite Z.pow_add_r by nia. ring.
Qed.

Lemma digits_nonneg b ds : 0 <= b -> Forall (digit_ok b) ds -> 0 <= digits_val b ds.
Proof. intros Hb H. apply (digits_bound b ds Hb H). Qed.

Lemma Forall_firstn {X} (P : X -> Prop) n l : Forall P l -> Forall P (firstn n l).
Proof. revert l; induction n as [|n IH]; intros [|x l] H; cbn; auto. inversion H; subst. constructor; auto. Qed.
Lemma Forall_skipn {X} (P : X -> Prop) n l : Forall P l -> Forall P (skipn n l).
Proof. revert l; induction n as [|n IH]; intros [|x l] H; cbn; auto. inversion H; subst. auto. Qed.

Lemma digits_div b ds p : 0 <= b -> Forall (digit_ok b) ds -> (p <= length ds)%nat ->
  digits_val b ds / 2 ^ (b * Z.of_nat p) = digits_val b (skipn p ds).
Proof.
  intros Hb H Hp. rewrite <- (firstn_skipn p ds) at 1. rewrite digits_val_app by assumption.
  rewrite firstn_length_le by assumption.
  pose proof (digits_bound b (firstn p ds) Hb (Forall_firstn _ p ds H)) as Hlo. rewrite firstn_length_le in Hlo by assumption.
  assert (0 < 2 ^ (b * Z.of_nat p)) by (apply Bits.pow_pos; nia).
  rewrite Z.add_comm, Z.mul_comm, Z.div_add_l by lia. rewrite Z.div_small by lia. lia.
Qed.

Lemma digits_mod b ds w : 0 <= b -> Forall (digit_ok b) ds -> (w <= length ds)%nat ->
  digits_val b ds mod 2 ^ (b * Z.of_nat w) = digits_val b (firstn w ds).
Proof.
  intros Hb H Hw. rewrite <- (firstn_skipn w ds) at 1. rewrite digits_val_app by assumption.
  rewrite firstn_length_le by assumption.
  pose proof (digits_bound b (firstn w ds) Hb (Forall_firstn _ w ds H)) as Hlo. rewrite firstn_length_le in Hlo by assumption.
  assert (0 < 2 ^ (b * Z.of_nat w)) by (apply Bits.pow_pos; nia).
  rewrite Z.mul_comm, Z.mod_add by lia. apply Z.mod_small. lia.
Qed.

Theorem digits_slice b ds p w : 0 <= b -> Forall (digit_ok b) ds -> (p + w <= length ds)%nat ->
  (digits_val b ds / 2 ^ (b * Z.of_nat p)) mod 2 ^ (b * Z.of_nat w) = digits_val b (firstn w (skipn p ds)).
Proof.
  intros Hb H Hpw. rewrite digits_div by (try assumption; lia).
  apply digits_mod; [assumption|now apply Forall_skipn|rewrite skipn_length; lia].
Qed.
Print Assumptions digits_slice.
