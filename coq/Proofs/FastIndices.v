From Coq Require Import ZifyBool.
From NPS Require Import ListAux PySlice NumpySem Scatter BuildIdx XorProof RLE ColProof.
Open Scope Z_scope.

(* C12 (and C02): RaggedView._get_flat_indices_fast (raggedshape.py L645-652), the index builder used by Counter.count once the samples
   that fall into empty buckets have been removed (`empty_removed`): ones(size), the jumps written at the row starts of the result,
   the first start written at 0, prefix sums.  On its domain (no empty row) it equals the general index builder, hence the
   concatenation of the rows' index ranges. *)
Definition fast_indices (rows : list row) : list Z :=
  let lens := map snd rows in
  let starts := map fst rows in
  let size := zsum lens in
  let b0 := repeat 1 (Z.to_nat size) in
  let b1 := scatter_set b0 (tl (excl_prefix lens)) (map2 (fun d l => d - l + 1) (diffs starts) (removelast lens)) in
  let b2 := zset b1 0 (hd 0 starts) in
  cumsum b2.

Example fi1 : fast_indices [(10,3);(4,2);(7,1)] = [10;11;12;4;5;7]. Proof. reflexivity. Qed.

Lemma filter_all {X} (f : X -> bool) l : Forall (fun x => f x = true) l -> filter f l = l.
Proof. induction 1 as [|x l Hx _ IH]; [reflexivity|]. cbn [filter]. now rewrite Hx, IH. Qed.

Lemma excl_from_lt : forall ls acc, Forall (fun l => 1 <= l) ls -> Forall (fun p => p < acc + zsum ls) (excl_from acc ls).
Proof.
  induction ls as [|l ls IH]; intros acc H; [constructor|]. inversion H as [|? ? Hl Hls]; subst. cbn [excl_from zsum].
  assert (0 <= zsum ls) by (apply zsum_nonneg; eapply Forall_impl; [|exact Hls]; cbn; intros; lia).
  constructor; [lia|]. eapply Forall_impl; [|apply (IH (acc + l) Hls)]. cbn. intros; lia.
Qed.

Lemma jumps_same : forall (rows : list row),
  map2 (fun a b => a - b + 1) (tl (map fst rows)) (removelast (map (view_end 1) rows))
  = map2 (fun d l => d - l + 1) (diffs (map fst rows)) (removelast (map snd rows)).
Proof.
  unfold diffs. induction rows as [|r rows IH]; [reflexivity|]. destruct rows as [|r2 rows]; [reflexivity|].
  change (tl (map fst (r :: r2 :: rows))) with (fst r2 :: tl (map fst (r2 :: rows))).
  change (removelast (map (view_end 1) (r :: r2 :: rows))) with (view_end 1 r :: removelast (map (view_end 1) (r2 :: rows))).
  change (removelast (map snd (r :: r2 :: rows))) with (snd r :: removelast (map snd (r2 :: rows))).
  change (removelast (map fst (r :: r2 :: rows))) with (fst r :: removelast (map fst (r2 :: rows))).
  cbn [map2]. f_equal; [unfold view_end, view_last; lia|]. exact IH.
Qed.

Theorem fast_indices_is_build_indices (rows : list row) : Forall (fun r => 1 <= snd r) rows ->
  fast_indices rows = build_indices rows 1.
Proof.
  intros H. unfold fast_indices, build_indices.
  set (lens := map snd rows). set (size := zsum lens).
  assert (Hl : Forall (fun l => 1 <= l) lens) by (unfold lens; apply Forall_forall; intros l Hl'; apply in_map_iff in Hl' as (r & <- & Hr); rewrite Forall_forall in H; now apply H).
  assert (Hsz : 0 <= size) by (apply zsum_nonneg; eapply Forall_impl; [|exact Hl]; cbn; intros; lia).
  destruct (size =? 0) eqn:E0.
  - assert (rows = []).
    { destruct rows as [|r rows]; [reflexivity|]. exfalso. inversion H as [|? ? Hr Hrs]; subst. unfold size, lens in E0. cbn [map zsum] in E0.
      assert (0 <= zsum (map snd rows)) by (apply zsum_nonneg; apply Forall_forall; intros l Hl'; apply in_map_iff in Hl' as (q & <- & Hq); rewrite Forall_forall in Hrs; specialize (Hrs q Hq); lia). lia. }
    subst rows. reflexivity.
  - assert (Hne : filter (fun t : Z * row => nonempty (snd t)) (combine (excl_prefix lens) rows) = combine (excl_prefix lens) rows).
    { apply filter_all. apply Forall_forall. intros [o r] Hin. apply in_combine_r in Hin. cbn [snd]. unfold nonempty. rewrite Forall_forall in H. specialize (H r Hin). lia. }
    rewrite Hne.
    assert (Hlen : length (excl_prefix lens) = length rows) by (unfold excl_prefix, lens; now rewrite excl_from_length, map_length).
    rewrite (map_fst_combine _ _ Hlen).
    assert (E1 : map (fun t : Z * (Z * Z) => fst (snd t)) (combine (excl_prefix lens) rows) = map fst rows) by (apply (map_f_snd_combine (@fst Z Z) (excl_prefix lens) rows Hlen)).
    assert (E2 : map (fun t : Z * row => view_end 1 (snd t)) (combine (excl_prefix lens) rows) = map (view_end 1) rows) by (apply (map_f_snd_combine (view_end 1) (excl_prefix lens) rows Hlen)).
    rewrite ?E1, ?E2.
    rewrite jumps_same. fold lens.
    set (js := map2 (fun d l => d - l + 1) (diffs (map fst rows)) (removelast lens)).
    replace (Z.to_nat (size + 1)) with (Z.to_nat size + 1)%nat by lia. rewrite repeat_app. cbn [repeat].
    assert (Hpos : Forall (fun p => 0 <= p < zlen (repeat 1 (Z.to_nat size))) (tl (excl_prefix lens))).
    { unfold zlen. rewrite repeat_length, Z2Nat.id by lia. unfold excl_prefix.
      pose proof (excl_from_lt lens 0 Hl) as L.
      assert (G : Forall (fun p => 0 <= p) (excl_from 0 lens)) by (apply excl_nonneg; [lia|]; eapply Forall_impl; [|exact Hl]; cbn; intros; lia).
      rewrite Forall_forall in L, G. apply Forall_forall. intros q Hq.
      assert (Hin : In q (excl_from 0 lens)) by (destruct (excl_from 0 lens); [destruct Hq|now right]).
      specialize (L q Hin). specialize (G q Hin). unfold size. lia. }
    rewrite (scatter_prefix _ [1] _ js Hpos).
    assert (H0 : 0 <= 0 < zlen (scatter_set (repeat 1 (Z.to_nat size)) (tl (excl_prefix lens)) js)).
    { unfold zlen. rewrite scatter_set_length, repeat_length. lia. }
    rewrite (zset_prefix _ [1] 0 _ H0).
    unfold cumsum. rewrite cumsum_from_app. cbn [cumsum_from]. now rewrite removelast_last.
Qed.

Theorem fast_indices_correct (rows : list row) : Forall (fun r => 1 <= snd r) rows -> fast_indices rows = spec_indices rows 1.
Proof.
  intros H. rewrite (fast_indices_is_build_indices rows H). apply build_indices_correct.
  eapply Forall_impl; [|exact H]. cbn. intros; lia.
Qed.
