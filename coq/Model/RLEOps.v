From NPS Require Import ListAux PySlice NumpySem Scatter BuildIdx XorBroadcast RLE.
Open Scope Z_scope.

(* C14-C16: RunLengthArray operations (runlengtharray.py) on (events, values) *)
Section Ops.
Variable A : Type.
Variable dflt : A.
Variable eqb : A -> A -> bool.            (* numpy == on values *)
Definition rla := (list Z * list A)%type.

Definition rl_len (r : rla) : Z := match tl (fst r) with [] => 0 | _ => last (fst r) 0 end.   (* __len__ *)

(* np.searchsorted on a sorted list *)
Definition ssr (l : list Z) (x : Z) : Z := zlen (filter (fun y => y <=? x) l).    (* side="right" *)
Definition ssl (l : list Z) (x : Z) : Z := zlen (filter (fun y => y <? x) l).     (* side="left" *)

(* to_array L320-346 over bit patterns *)
Variable bxor : A -> A -> A.
Definition to_array (r : rla) : list A :=
  if rl_len r =? 0 then [] else
  let '(ev, vs) := r in
  let starts := removelast ev in
  let diffs := map2 bxor (removelast vs) (tl vs) in
  let arr := scatter_set (repeat dflt (Z.to_nat (rl_len r))) (tl starts) diffs in
  let arr := zset arr (hd 0 starts) (hd dflt vs) in
  prefix_xor A dflt bxor arr.

(* _get_position L487-489 *)
Definition get_position (r : rla) (idx : Z) : res A :=
  let i := if idx <? 0 then rl_len r + idx else idx in
  np_item (snd r) (ssr (fst r) i - 1).

(* remove_empty_intervals L403-422 (delete_first=True), join_runs L425-438 *)
Fixpoint remove_empty (ev : list Z) (vs : list A) : list Z * list A :=
  match ev, vs with
  | e :: ((e' :: _) as ev'), v :: vs' =>
      let '(re, rv) := remove_empty ev' vs' in
      if e =? e' then (re, rv) else (e :: re, v :: rv)
  | _, _ => (ev, vs)
  end.
Fixpoint join_runs_aux (prev : A) (ev : list Z) (vs : list A) : list Z * list A :=
  match ev, vs with
  | e :: ev', v :: vs' =>
      let '(re, rv) := join_runs_aux v ev' vs' in
      if eqb v prev then (re, rv) else (e :: re, v :: rv)
  | _, _ => (ev, vs)
  end.
Definition join_runs (ev : list Z) (vs : list A) : list Z * list A :=
  match ev, vs with
  | e :: ev', v :: vs' => let '(re, rv) := join_runs_aux v ev' vs' in (e :: re, v :: rv)
  | _, _ => (ev, vs)
  end.

(* _start_to_end L549-563 (scalar bounds) *)
Definition zslice_l {X} (l : list X) (i j : Z) : list X := ztake (j - i) (zdrop i l).
Definition set_last {X} (l : list X) (v : X) := match l with [] => [] | _ => removelast l ++ [v] end.
Definition start_to_end (r : rla) (s e : Z) : rla :=
  let si := ssr (fst r) s - 1 in
  let ei := ssl (fst r) e in
  let vals := zslice_l (snd r) si ei in
  let evs := map (fun x => x - s) (zslice_l (fst r) si (ei + 1)) in
  (set_last (match evs with [] => [] | _ :: t => 0 :: t end) (e - s), vals).

(* _step_subset L524-547 *)
Definition step_subset (r : rla) (step : Z) : rla :=
  let k := Z.abs step in
  let '(ev, vs) := if step <? 0 then (map (fun x => last (fst r) 0 - x) (rev (fst r)), rev (snd r)) else r in
  let ev := map (fun i => (i + k - 1) / k) ev in
  let '(ev, vs) := remove_empty ev vs in
  join_runs ev vs.

(* _get_slice L494-522, incl. repair F7: bounds normalised by slice.indices *)
Definition get_slice (r : rla) (sl : pyslice) : res rla :=
  if step_of sl =? 0 then Refused else
  let n := rl_len r in
  let step := step_of sl in
  let s0 := py_start n sl in let e0 := py_stop n sl in
  let '(s, e) := if step <? 0 then (e0 + 1, s0 + 1) else (s0, e0) in
  if s >=? e then Ok ([0], []) else
  let sub := start_to_end r s e in
  Ok (if step =? 1 then sub else step_subset sub step).

End Ops.

Arguments rl_len {A}. Arguments ssr. Arguments ssl.

(* stable sort of (key, payload) pairs by key: np.argsort(kind="mergesort") then gather *)
Fixpoint insert_stable {X} (p : Z * X) (l : list (Z * X)) : list (Z * X) :=
  match l with
  | [] => [p]
  | q :: r => if fst p <=? fst q then p :: l else q :: insert_stable p r
  end.
Definition stable_sort {X} (l : list (Z * X)) : list (Z * X) := fold_right insert_stable [] l.

(* _apply_binary_func L441-451 *)
Section Bin.
Variable A B C : Type.
Variable da : A. Variable db : B. Variable dc : C.
Variable ceqb : C -> C -> bool.
Variable f : A -> B -> C.
Definition interior (ev : list Z) : list Z := tl (removelast ev).
Definition apply_binary (x : rla A) (y : rla B) : res (rla C) :=
  if negb (rl_len x =? rl_len y) then Refused else
  let '(e1, v1) := x in let '(e2, v2) := y in
  let oc := map (fun e => ssr e1 e - 1) (interior e2) in
  let nvo := map2 f (map (fun i => nth (Z.to_nat i) v1 da) oc) (tl v2) in
  let fc := map (fun e => ssr e2 e - 1) (interior e1) in
  let nvf := map2 f (tl v1) (map (fun i => nth (Z.to_nat i) v2 db) fc) in
  let events := removelast e1 ++ tl e2 in
  let values := f (hd da v1) (hd db v2) :: nvf ++ nvo in
  (* events[args], values[args[:-1]] : the last sorted event (the common end) carries no value *)
  let tagged := combine events (map Some values ++ [None]) in
  let sorted := stable_sort tagged in
  let ev' := map fst sorted in
  let vs' := flat_map (fun p => match snd p with Some v => [v] | None => [] end) (removelast sorted) in
  let '(ev2, vs2) := remove_empty C ev' vs' in
  Ok (join_runs C ceqb ev2 vs2).
End Bin.

(* scalar / unary: events unchanged *)
Definition rl_map {A B} (g : A -> B) (r : rla A) : rla B := (fst r, map g (snd r)).
(* concatenate L45-52 *)
Definition rl_concat {A} (rs : list (rla A)) : rla A :=
  let sizes := map rl_len rs in
  let offs := excl_prefix sizes in
  (flat_map (fun p => map (Z.add (snd p)) (removelast (fst (fst p)))) (combine rs offs) ++ [zsum sizes],
   flat_map (fun r => snd r) rs).
(* weighted reductions L379-400 on integer values *)
Definition rl_sum (r : rla Z) : Z := zsum (map2 Z.mul (diffs (fst r)) (snd r)).
Definition dense_decode {A} (r : rla A) : list A := decode A r.

(* any / all / max / mean (runlengtharray.py L379-400): computed on the run values only *)
Definition rl_any (r : rla bool) : bool := existsb (fun b => b) (snd r).
Definition rl_all (r : rla bool) : bool := forallb (fun b => b) (snd r).
Definition rl_max (r : rla Z) : Z := match snd r with [] => 0 | v :: vs => fold_left Z.max vs v end.
Definition rl_mean (r : rla Z) : Z * Z := (rl_sum r, rl_len r).          (* exact fraction: sum / size *)
(* np.histogram(rla, bins): histogram of the run values weighted by the run lengths; `bin_of` abstracts numpy's binning *)
Definition rl_hist (bin_of : Z -> nat) (nbins : nat) (r : rla Z) : list Z :=
  map (fun b => zsum (map2 (fun l v => if Nat.eqb (bin_of v) b then l else 0) (diffs (fst r)) (snd r))) (seq 0 nbins).
Definition dense_hist (bin_of : Z -> nat) (nbins : nat) (d : list Z) : list Z :=
  map (fun b => zsum (map (fun v => if Nat.eqb (bin_of v) b then 1 else 0) d)) (seq 0 nbins).

(* rla[list] / rla[int array] and rla[boolean array] (runlengtharray.py __getitem__: a boolean array becomes flatnonzero) *)
Definition get_positions {A} (r : rla A) (idx : list Z) : res (list A) := rsequence (map (get_position A r) idx).
Definition get_bool_mask {A} (r : rla A) (m : list bool) : res (list A) := get_positions r (flatnonzero m).

(* rla[starts:stops] (NPSIndexable.__getitem__ -> _ragged_slice -> _start_to_end with vectors): one window per (start, stop) pair.
   The vector code is the scalar code row by row (searchsorted is elementwise; ragged_slice cuts each row's window: C08). *)
(* the vector branch of _start_to_end: an empty window (stop <= start) is cut to no run at all (end_idx := start_idx), and the last boundary
   is max(stop - start, 0) *)
Definition start_to_end_v {A} (r : rla A) (s e : Z) : rla A :=
  let si := ssr (fst r) s - 1 in
  let ei := if e <=? s then si else ssl (fst r) e in
  let vals := zslice_l (snd r) si ei in
  let evs := map (fun x => x - s) (zslice_l (fst r) si (ei + 1)) in
  (set_last (match evs with [] => [] | _ :: t => 0 :: t end) (Z.max (e - s) 0), vals).
Definition rl_windows {A} (r : rla A) (ss es : list Z) : list (rla A) := map2 (start_to_end_v r) ss es.
(* rla[run-length mask] (_getitem_bool): the windows of the mask's true runs, raveled *)
Definition rl_getitem_rlmask {A} (r : rla A) (m : rla bool) : list A :=
  let starts := mask_filter (removelast (fst m)) (snd m) in
  let ends := mask_filter (tl (fst m)) (snd m) in
  concat (map (decode A) (rl_windows r starts ends)).
