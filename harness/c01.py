"""C01 — a RaggedArray holds exactly the rows it was built from: every observer of the property against Model/Geometry.v.

The model is run on element identifiers 0,1,2,... (construction and read-back only move elements); the harness maps identifiers to
real elements of each dtype (extremes, NaN, -0.0 included) and compares canonical element keys."""
import itertools, math, os, pathlib, tempfile
import vlib
from vlib import show, parse2, oracle, guarded

TRUSTED = [vlib.KERNEL_TB, vlib.AXIOMS_TB, vlib.EXTRACT_TB,
           "numpy array construction / slicing / reshape / savez+load as used by the observers (modelled as list operations, validated by every case)",
           "this harness: identifier -> element mapping per dtype, canonical element keys (float.hex, 'nan')"]
ASSUME = ["save/load goes through a real temporary .npz file under /verif/build (removed after each case); the file system is exercised, not modelled",
          "astype is compared against numpy's own conversion of each element (the oracle supplies the structure)"]
RULE = ("every vector of row lengths with <= 4 rows over {0,1,2,3} (thorough: <= 5 rows) plus seeded random shapes up to 40 rows x 12; x 7 dtypes "
        "(bool int8 int64 uint8 uint64 float32 float64) with extreme / NaN / -0.0 contents; observers: len size shape lengths iter tolist ravel astype "
        "to/from numpy save/load RaggedShape.starts/ends/lengths/size ravel/unravel_multi_index legacy offsets; malformed stream: flat size off by -2..+2, "
        "non-rectangular to_numpy; non-trivial = at least two rows and one element; distinct = distinct protocol line + dtype")
DTYPES = ["bool", "int8", "int64", "uint8", "uint64", "float32", "float64"]


def val(dt, i):
    import numpy as np
    if dt == "bool": return bool((i * 5 + 1) % 3 == 0)
    if dt.startswith(("int", "uint")):
        info = np.iinfo(dt)
        return [info.min, info.max, 0, 1, info.max - 1, info.min + 1, 7][i % 7] if i % 2 else (i * 37) % (int(info.max) + 1)
    return [0.0, -0.0, 1.5, -2.25, float("nan"), float("inf"), 1e-3, 3.0][i % 8] if i % 2 else float(i)


def key(x):
    if isinstance(x, (bool,)) or type(x).__name__ == "bool_": return bool(x)
    if isinstance(x, float) or type(x).__name__.startswith("float"):
        x = float(x)
        return "nan" if math.isnan(x) else x.hex()
    return int(x)


def krows(rows): return [[key(x) for x in r] for r in rows]


def run(R, tier, rng, impl_only=False):
    import numpy as np
    from npstructures import RaggedArray, RaggedShape
    tmpdir = vlib.BUILD / "tmp"; tmpdir.mkdir(parents=True, exist_ok=True)
    maxrows = 5 if tier == "thorough" else 4
    shapes = [list(ls) for k in range(0, maxrows + 1) for ls in itertools.product(range(4), repeat=k)]
    for _ in range(300 if tier == "thorough" else 40):
        shapes.append([rng.choice([0, 0, 1, 2, 5, 12, rng.randint(0, 12)]) for _ in range(rng.randint(1, 40))])
    cases = []          # (line, impl, post, kind, nontrivial, py)   post: function (oracle value) -> comparable value
    def add(line, tag, impl, post, kind, nt, py):
        cases.append((line, tag, impl, post, kind, nt, py))
    ident = lambda v: v
    extra = []          # cases decided by the plain list of cells alone: (line, impl, expected, nontrivial, kind, py)
    for si, ls in enumerate(shapes):
        n = sum(ls); nt = len(ls) >= 2 and n > 0
        ids = []; c = 0
        for l in ls: ids.append(list(range(c, c + l))); c += l
        # ---- geometry of the shape object (dtype independent)
        def geo():
            s = RaggedShape(ls)
            return [np.asarray(s.starts).tolist(), np.asarray(s.lengths).tolist(), np.asarray(s.ends).tolist(), int(s.size)]
        add("geo " + show(ls), "", guarded(geo), ident, "geometry", nt, f"RaggedShape({ls}).starts/lengths/ends/size")
        def mi():
            s = RaggedShape(ls)
            rows, cols = s.unravel_multi_index(np.arange(n))
            cells = [(i, j) for i, l in enumerate(ls) for j in range(l)]
            rv = s.ravel_multi_index((np.array([c[0] for c in cells], dtype=int), np.array([c[1] for c in cells], dtype=int))) if cells else np.array([], dtype=int)
            return [[[int(a), int(b)] for a, b in zip(rows, cols)], [int(x) for x in rv]]
        if ls: add("mi " + show(ls), "", guarded(mi), ident, "ravel/unravel", nt, f"RaggedShape({ls}).unravel_multi_index(arange({n})) / ravel_multi_index(all cells)")
        if ls and n >= 2:
            # queries in ANY order and with repeats, of exactly `size` positions that start at 0 and end at size-1 included: each answer is the cell of its own position
            cells = [(i, j) for i, l in enumerate(ls) for j in range(l)]
            for qname, q in (("shuffled", [0] + rng.sample(range(1, n - 1), n - 2) + [n - 1]), ("repeats", [0] + [rng.randrange(n) for _ in range(n - 2)] + [n - 1]),
                             ("reversed", list(range(n))[::-1]), ("short", [rng.randrange(n) for _ in range(max(1, n // 2))])):
                def umi(q=q):
                    rows, cols = RaggedShape(ls).unravel_multi_index(np.array(q, dtype=int))
                    return [[int(a), int(b)] for a, b in zip(rows, cols)]
                exp = [list(cells[p]) for p in q]
                extra.append((f"unravel {qname} {ls} {q}", guarded(umi), exp, nt, "unravel/any-order", f"RaggedShape({ls}).unravel_multi_index(np.array({q}))"))
        if ls:
            offs = [0] + list(itertools.accumulate(ls))
            def legacy():
                s = RaggedShape.from_dict({"offsets": np.array(offs)})
                return [np.asarray(s.starts).tolist(), np.asarray(s.lengths).tolist()]
            add("offsets " + show(offs), "", guarded(legacy), ident, "legacy-offsets", nt, f"RaggedShape.from_dict({{'offsets': {offs}}})")
        dts = DTYPES if (si < 400 or tier == "thorough") else [DTYPES[si % 7]]
        for dt in dts:
            per_dtype(add, ls, ids, dt, si, n, nt, tier, tmpdir)

    for (line, impl, exp, nt_, kind, py) in extra: R.record(line, impl, (None if impl_only else exp), (None if impl_only else exp), nt_, kind, py=py)
    if impl_only:
        for (line, tag, impl, post, kind, nt, py) in cases: R.record(line + (" @" + tag if tag else ""), impl, None, None, nt, kind, py=py)
        return
    out = oracle([c[0] for c in cases])
    for (line, tag, impl, post, kind, nt, py), o in zip(cases, out):
        m, s = parse2(o)
        try:
            m2 = post(m) if not isinstance(m, str) else m
            s2 = post(s) if not isinstance(s, str) else s
        except Exception as ex:
            m2 = s2 = "post-processing error: %r" % (ex,)
        R.record(line + (" @" + tag if tag else ""), impl, m2, s2, nt, kind, py=py)


def per_dtype(add, ls, ids, dt, si, n, nt, tier, tmpdir):
    import numpy as np
    from npstructures import RaggedArray, RaggedShape
    if True:
        if True:
            vrows = [[val(dt, i) for i in r] for r in ids]
            def tr(rows): return [[key(np.dtype(dt).type(val(dt, i)).item()) for i in r] for r in rows]
            def trflat(l): return [key(np.dtype(dt).type(val(dt, i)).item()) for i in l]
            mk = lambda: RaggedArray(vrows, dtype=dt)
            def build():
                a = mk()
                return [len(a), int(a.size), np.asarray(a.lengths).tolist(), krows(a.tolist()), [key(x) for x in a.ravel().tolist()],
                        krows([r.tolist() for r in a]), [int(a.shape[0]), np.asarray(a.shape[1]).tolist()], str(a.dtype), str(a.ravel().dtype)]
            def post_build(v):
                ln, sz, lens, rows, rav = v
                return [ln, sz, lens, tr(rows), trflat(rav), tr(rows), [ln, lens], dt, dt]
            add("build " + show(ids), dt, guarded(build), post_build, "build/" + dt, nt, f"RaggedArray({vrows!r}, dtype='{dt}')  len/size/lengths/tolist/ravel/iter/shape/dtype")
            # rows given as numpy arrays (typed rows; empty rows also as untyped np.array([])), no dtype argument
            if n:
                def build_np(untyped_empty):
                    rows_np = [np.array(r, dtype=dt) if (r or not untyped_empty) else np.array([]) for r in vrows]
                    a = RaggedArray(rows_np)
                    return [len(a), int(a.size), np.asarray(a.lengths).tolist(), krows(a.tolist()), [key(x) for x in a.ravel().tolist()],
                            krows([r.tolist() for r in a]), [int(a.shape[0]), np.asarray(a.shape[1]).tolist()], str(a.dtype), str(a.ravel().dtype)]
                for ue in (False, True):
                    add("build " + show(ids), dt + ("/nprows-untyped-empty" if ue else "/nprows"), guarded(lambda: build_np(ue)), post_build, "build-from-arrays/" + dt, nt,
                        f"RaggedArray([np.array(r, dtype='{dt}') for r in {vrows!r}])" + ("  with empty rows given as np.array([])" if ue else ""))
            # flat buffer + lengths, incl. malformed sizes
            flat = [v for r in vrows for v in r]
            for delta in (0, -2, -1, 1, 2):
                if n + delta < 0 or (delta and dt not in ("int64", "float64", "bool")): continue
                d = list(range(n + delta)); fv = [val(dt, i) for i in d]
                def fl():
                    a = RaggedArray(np.array(fv, dtype=dt), ls)
                    return [krows(a.tolist()), str(a.dtype)]
                add("flat " + show(d) + " " + show(ls), dt, guarded(fl), lambda v: None if v is None else [tr(v), dt], "flat%+d" % delta, nt,
                    f"RaggedArray(np.array({fv!r}, dtype='{dt}'), {ls})")
                if delta == 0 and ls:
                    # the row lengths given as a numpy array (of either index width): the array stays the caller's, who may reuse it afterwards
                    for ldt in ("int64", "int32"):
                        def fl_own(ldt=ldt):
                            lens = np.array(ls, dtype=ldt); a = RaggedArray(np.array(fv, dtype=dt), lens)
                            lens[:] = lens[::-1].copy(); lens += 1
                            return [krows(a.tolist()), str(a.dtype)]
                        add("flat " + show(d) + " " + show(ls), dt + "/lengths-array-" + ldt, guarded(fl_own), lambda v: None if v is None else [tr(v), dt], "flat/lengths-array-reused-by-caller", nt,
                            f"lens = np.array({ls}, dtype='{ldt}'); a = RaggedArray(np.array({fv!r}, dtype='{dt}'), lens); lens[:] = lens[::-1]; lens += 1; a.tolist()")
            # astype
            for dt2 in ("int64", "float64", "bool", "uint8"):
                if dt2 == dt or (dt.startswith("float") and dt2 != "float64" and dt2 != "bool"): continue
                def ast():
                    a = mk().astype(dt2)
                    return [krows(a.tolist()), str(a.dtype)]
                def post_ast(v, dt2=dt2):
                    with np.errstate(all="ignore"):
                        return [[[key(np.array([val(dt, i)], dtype=dt).astype(dt2)[0].item()) for i in r] for r in v[3]], dt2]
                if dt.startswith("float") and dt2 == "bool" or not dt.startswith("float"):
                    add("build " + show(ids), dt + ">" + dt2, guarded(ast), post_ast, "astype", nt, f"RaggedArray({vrows!r}, dtype='{dt}').astype('{dt2}')")
            # the converted array is a new array (as ndarray.astype): writing into it leaves the array that was built reporting its rows
            for dt2 in (dt, "int64", "float64"):
                def ast_w(dt2=dt2):
                    a = mk(); b = a.astype(dt2)
                    b.fill(1)
                    if b.size: b.ravel()[-1] = 0
                    return [krows(a.tolist()), str(a.dtype)]
                add("build " + show(ids), dt + ">" + dt2 + "/write", guarded(ast_w), lambda v: [tr(v[3]), dt], "astype-then-write-to-the-copy", nt,
                    f"a = RaggedArray({vrows!r}, dtype='{dt}'); b = a.astype('{dt2}'); b.fill(1); a.tolist()")
            # to / from numpy
            def tonp():
                m = mk().to_numpy_array()
                return [krows(m.tolist()), str(m.dtype), list(m.shape)]
            def post_tonp(v):
                if v is None: return None
                return [tr(v), dt, [len(v), len(v[0]) if v else 0]]
            add("tonumpy " + show(ids), dt, guarded(tonp), post_tonp, "to_numpy", nt, f"RaggedArray({vrows!r}, dtype='{dt}').to_numpy_array()")
            if ls and len(set(ls)) == 1:
                def fromnp():
                    m = np.array(vrows, dtype=dt).reshape(len(ls), ls[0])
                    a = RaggedArray.from_numpy_array(m)
                    return [krows(a.tolist()), str(a.dtype), np.asarray(a.lengths).tolist(), krows([a[i].tolist() for i in range(len(a))]), krows(a[::-1].tolist())]
                add("fromnumpy " + show(ids) + " " + str(ls[0]), dt, guarded(fromnp), lambda v: None if v is None else [tr(v), dt, [len(r) for r in v], tr(v), tr(v[::-1])],
                    "from_numpy", nt, f"RaggedArray.from_numpy_array(np.array({vrows!r}, dtype='{dt}').reshape({len(ls)},{ls[0]}))")
                for layout in ("fortran", "transposed-view", "strided"):
                    def fromnp2(layout=layout):
                        m = np.array(vrows, dtype=dt).reshape(len(ls), ls[0])
                        if layout == "fortran": m2 = np.asfortranarray(m)
                        elif layout == "transposed-view": m2 = np.ascontiguousarray(m.T).T
                        else:
                            big = np.zeros((len(ls), 2 * ls[0] + 1), dtype=dt); big[:, ::2][:, :ls[0]] = m; m2 = big[:, ::2][:, :ls[0]]
                        a = RaggedArray.from_numpy_array(m2)
                        return [krows(a.tolist()), str(a.dtype), np.asarray(a.lengths).tolist(), krows(a.to_numpy_array().tolist())]
                    add("fromnumpy " + show(ids) + " " + str(ls[0]), dt + "/" + layout, guarded(fromnp2), lambda v: None if v is None else [tr(v), dt, [len(r) for r in v], tr(v)],
                        "from_numpy/" + layout, nt, f"RaggedArray.from_numpy_array(<{layout} layout of np.array({vrows!r}, dtype='{dt}').reshape({len(ls)},{ls[0]})>)")
            # save / load through a real file
            if si % 3 == 0 or tier == "thorough":
                def saveload():
                    fn = str(tmpdir / f"c01_{os.getpid()}_{si}_{dt}.npz")
                    try:
                        mk().save(fn); b = RaggedArray.load(fn)
                        return [len(b), int(b.size), np.asarray(b.lengths).tolist(), krows(b.tolist()), [key(x) for x in b.ravel().tolist()], str(b.dtype)]
                    finally:
                        if os.path.exists(fn): os.remove(fn)
                def post_sl(v):
                    ln, sz, lens, rows, rav = v
                    return [ln, sz, lens, tr(rows), trflat(rav), dt]
                add("build " + show(ids), dt + "/save", guarded(saveload), post_sl, "save/load", nt, f"RaggedArray({vrows!r}, dtype='{dt}').save(f); RaggedArray.load(f)")


def run_impl_only(R, tier, rng):
    run(R, tier, rng, impl_only=True)
