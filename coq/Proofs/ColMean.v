From Coq Require Import ZifyBool.
From NPS Require Import ListAux PySlice NumpySem Scatter BuildIdx SliceAP XorProof Denote RLE RLEOps RaOps SetItem BinaryProof ColProof RLEIndex ColSum RaMean.
Open Scope Z_scope.

(* C09: mean(axis=0) = for every column below the longest row, (sum of the cells of the rows that reach it) / (number of those rows) *)
Theorem ra_col_mean_correct {C} (dv : Z -> Z -> C) (R : list (list Z)) :
  ra_col_mean dv (concat R, map zlen R)
  = map (fun j => dv (zsum (flat_map (fun r => if j <? zlen r then [zznth r j] else []) R)) (cnt (fun l => j <? l) (map zlen R)))
        (ap 0 (fold_left Z.max (map zlen R) 0) 1).
Proof.
  unfold ra_col_mean. cbn [snd]. rewrite colsum_correct, (col_counts_correct (map zlen R) (all_nonneg_zlen R)).
  rewrite (fold_max_hd (map zlen R) (all_nonneg_zlen R)). unfold spec_colsum. apply map2_maps.
Qed.
Print Assumptions ra_col_mean_correct.

Example ra_col_mean_example : ra_col_mean pair ([5; 5; 7; 4; 1; 2; 3; 3], [3; 1; 0; 4]) = [(10, 3); (7, 2); (10, 2); (3, 1)].
Proof. vm_compute. reflexivity. Qed.

(* C05: mean(axis=-1) = for every row, (sum of the row) / (length of the row) *)
From NPS Require Import Reduce ReduceProof.
Lemma fold_add_zsum : forall xs x, fold_left Z.add xs x = x + zsum xs.
Proof. induction xs as [|y xs IH]; intros x; cbn [fold_left zsum]; [lia|]. rewrite IH. lia. Qed.
Theorem ra_row_mean_correct {C} (dv : Z -> Z -> C) (R : list (list Z)) :
  ra_row_mean dv (concat R, map zlen R) = Some (map (fun r => dv (zsum r) (zlen r)) R).
Proof.
  unfold ra_row_mean. cbn [fst snd].
  rewrite (reduce_correct Z 0 Z.add 0 (concat R) (map zlen R) (all_nonneg_zlen R)).
  - f_equal. unfold spec_reduce. rewrite Denote.segments_concat_rows. clear. induction R as [|r R IH]; [reflexivity|].
    cbn [map map2]. rewrite IH. f_equal. f_equal. destruct r as [|x xs]; [reflexivity|]. cbn [fold_row zsum]. apply fold_add_zsum.
  - clear. induction R as [|r R IH]; [reflexivity|]. cbn [map zsum concat]. unfold zlen in *. rewrite app_length, Nat2Z.inj_add. lia.
Qed.
Print Assumptions ra_row_mean_correct.
Example ra_row_mean_example : ra_row_mean pair ([5; 5; 7; 4; 1; 2; 3; 3], [3; 1; 0; 4]) = Some [(17, 3); (4, 1); (0, 0); (9, 4)].
Proof. vm_compute. reflexivity. Qed.
