From Coq Require Import ZifyBool.
From NPS Require Import ListAux PySlice NumpySem Scatter BuildIdx View Index Denote Reduce ReduceProof RaOps SetItem.
Open Scope Z_scope.

(* C08: subset / boolean ragged-mask selection keeps, in order, exactly the cells whose mask is true, row by row *)
Section Subset.
Variable A : Type.

Definition b2z (b : bool) : Z := if b then 1 else 0.
Definition same_shape (R : list (list A)) (M : list (list bool)) : Prop := map (@length A) R = map (@length bool) M.

Lemma mask_filter_app (r1 r2 : list A) m1 m2 : length r1 = length m1 ->
  mask_filter (r1 ++ r2) (m1 ++ m2) = mask_filter r1 m1 ++ mask_filter r2 m2.
Proof.
  revert m1; induction r1 as [|x r1 IH]; intros [|b m1] H; cbn in H; try discriminate; [reflexivity|].
  cbn [app mask_filter]. destruct b; cbn [app]; rewrite IH by lia; reflexivity.
Qed.

Lemma mask_filter_concat : forall (R : list (list A)) M, same_shape R M ->
  mask_filter (concat R) (concat M) = concat (map2 (@mask_filter A) R M).
Proof.
  induction R as [|r R IH]; intros [|m M] H; cbn in H; try discriminate; [reflexivity|].
  injection H as H1 H2. cbn [concat map2]. rewrite mask_filter_app by exact H1. f_equal. now apply IH.
Qed.

Lemma fold_add_shift l a : fold_left Z.add l a = a + zsum l.
Proof. revert a; induction l as [|x l IH]; intros a; cbn [fold_left zsum]; [lia|]. rewrite IH. lia. Qed.
Lemma fold_row_sum (l : list Z) : fold_row Z Z.add 0 l = zsum l.
Proof. destruct l as [|x l]; [reflexivity|]. cbn [fold_row zsum]. apply fold_add_shift. Qed.

Lemma mask_count (r : list A) m : length r = length m -> zlen (mask_filter r m) = zsum (map b2z m).
Proof.
  revert m; induction r as [|x r IH]; intros [|b m] H; cbn in H; try discriminate; [reflexivity|].
  cbn [mask_filter map zsum]. destruct b; unfold zlen in *; cbn [length b2z]; rewrite <- IH by lia; lia.
Qed.

Theorem subset_correct (R : list (list A)) (M : list (list bool)) : same_shape R M ->
  ra_subset (fr_of_rows R) (concat M) = Ok (fr_of_rows (spec_subset R M)).
Proof.
  intros Hs. unfold ra_subset, fr_of_rows, spec_subset. cbn [fst snd].
  assert (Hlens : map zlen R = map zlen M).
  { unfold same_shape in Hs. unfold zlen. rewrite <- !(map_map (@length _) Z.of_nat). now rewrite Hs. }
  change (map (fun b : bool => if b then 1 else 0) (concat M)) with (map b2z (concat M)).
  rewrite (reduce_correct Z 0 Z.add 0 (map b2z (concat M)) (map zlen R)).
  - rewrite mask_filter_concat by exact Hs. do 2 f_equal.
    unfold spec_reduce. rewrite Hlens. rewrite concat_map.
    replace (map zlen M) with (map zlen (map (map b2z) M)) by (rewrite map_map; apply map_ext; intros; unfold zlen; now rewrite map_length).
    rewrite segments_concat_rows.
    clear Hlens. revert M Hs. induction R as [|r R IH]; intros [|m M] Hs; cbn in Hs; try discriminate; [reflexivity|].
    injection Hs as H1 H2. cbn [map map2]. f_equal; [|now apply IH].
    rewrite fold_row_sum. symmetry. now apply mask_count.
  - apply all_nonneg_zlen.
  - rewrite Hlens, zsum_map_zlen. unfold zlen. now rewrite map_length.
Qed.
End Subset.
Print Assumptions subset_correct.
