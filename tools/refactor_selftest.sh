#!/bin/sh
# self-validation: behaviour-preserving rewrites of the library (selftest/harmless_refactorings.diff) must leave every check silent
cd "$(dirname "$0")/.."
WT=/root/scratch/refac/wt
git -C /repo worktree remove --force $WT 2>/dev/null; rm -rf $WT; mkdir -p /root/scratch/refac
git -C /repo worktree add -q --detach $WT HEAD && git -C $WT apply "$PWD/selftest/harmless_refactorings.diff" || exit 2
(cd $WT && PYTHONPATH=$WT /venv/bin/python -m pytest -q -p no:cacheprovider 2>&1 | tail -1)
for p in C01 C02 C03 C04 C05 C06 C07 C08 C09 C10 C11 C12 C13 C14 C15 C16 C17 C18 C19; do
  out=$(VERIF_REPO=$WT ./check $p 2>&1); rc=$?
  echo "$p rc=$rc $(echo "$out" | grep -c '^VIOLATION') violation lines $(echo "$out" | grep '^VIOLATION' | cut -c1-160)"
done
git -C /repo worktree remove --force $WT; git -C /repo worktree prune
./check C02 > /dev/null   # regenerate coq/Gen from /repo itself
