From Coq Require Import ZifyBool.
From NPS Require Import ListAux PySlice NumpySem RLEOps RaOps BucketSort.
Open Scope Z_scope.

(* C07 sort: lexsort((values, row ids)) = stable sort by value, then stable sort by row id = every row sorted by itself *)

(* ---- list algebra ---- *)
Lemma filter_flat_map {X Y} (f : Y -> bool) (g : X -> list Y) l : filter f (flat_map g l) = flat_map (fun x => filter f (g x)) l.
Proof. induction l as [|x l IH]; [reflexivity|]. cbn [flat_map]. now rewrite filter_app, IH. Qed.
Lemma filter_map_comm {X Y} (f : Y -> bool) (g : X -> Y) l : filter f (map g l) = map g (filter (fun x => f (g x)) l).
Proof. induction l as [|x l IH]; [reflexivity|]. cbn [map filter]. destruct (f (g x)); cbn [map]; now rewrite IH. Qed.
Lemma map_flat_map {X Y W} (h : Y -> W) (g : X -> list Y) l : map h (flat_map g l) = flat_map (fun x => map h (g x)) l.
Proof. induction l as [|x l IH]; [reflexivity|]. cbn [flat_map]. now rewrite map_app, IH. Qed.
Lemma filter_filter_comm {X} (f g : X -> bool) l : filter f (filter g l) = filter g (filter f l).
Proof. induction l as [|x l IH]; [reflexivity|]. cbn [filter]. destruct (f x) eqn:Ef, (g x) eqn:Eg; cbn [filter]; rewrite ?Ef, ?Eg, IH; reflexivity. Qed.
Lemma filter_none {X} (f : X -> bool) l : Forall (fun x => f x = false) l -> filter f l = [].
Proof. induction 1 as [|x l Hx _ IH]; [reflexivity|]. cbn [filter]. now rewrite Hx. Qed.
Lemma filter_all {X} (f : X -> bool) l : Forall (fun x => f x = true) l -> filter f l = l.
Proof. induction 1 as [|x l Hx _ IH]; [reflexivity|]. cbn [filter]. now rewrite Hx, IH. Qed.
Lemma flat_map_ext_in' {X Y} (f g : X -> list Y) l : (forall x, In x l -> f x = g x) -> flat_map f l = flat_map g l.
Proof. induction l as [|x l IH]; intros H; [reflexivity|]. cbn [flat_map]. rewrite (H x (or_introl eq_refl)), IH; [reflexivity|]. intros y Hy. apply H. now right. Qed.
Lemma Forall_flat_map_in {X Y} (P : Y -> Prop) (g : X -> list Y) l : (forall x, In x l -> Forall P (g x)) -> Forall P (flat_map g l).
Proof. induction l as [|x l IH]; intros H; [constructor|]. cbn [flat_map]. apply Forall_app. split; [apply H; now left|apply IH; intros y Hy; apply H; now right]. Qed.
Lemma in_ap_nat i s : forall n, In i (ap_nat s 1 n) -> s <= i < s + Z.of_nat n.
Proof. intros n. revert s. induction n as [|n IH]; intros s H; [destruct H|]. cbn [ap_nat] in H. destruct H as [<-|H]; [lia|]. apply IH in H. lia. Qed.

(* ---- the two-pass sort on labelled rows ---- *)
Notation item := (Z * (Z * Z))%type.                     (* (value, (row label, value)) *)
Definition tag (i : Z) (r : list Z) : list item := map (fun x => (x, (i, x))) r.
Fixpoint labelled (k : Z) (R : list (list Z)) : list item :=
  match R with [] => [] | r :: R' => tag k r ++ labelled (k + 1) R' end.
Definition lab (q : item) : Z := fst (snd q).
Definition two_pass (E : list item) : list Z := map snd (stable_sort (map snd (stable_sort E))).
Definition sortrow (r : list Z) : list Z := map fst (stable_sort (map (fun x => (x, tt)) r)).

Section Bounds.
Variable vlo : Z.
Variable vn : nat.
Definition inb (x : Z) : Prop := vlo <= x < vlo + Z.of_nat vn.
Notation vs := (ap_nat vlo 1 vn).

Lemma sortrow_buckets r : Forall inb r -> sortrow r = flat_map (fun v => filter (fun x => x =? v) r) vs.
Proof.
  intros H. unfold sortrow. rewrite (sort_buckets unit vlo vn) by (apply Forall_map; exact H).
  unfold buckets. rewrite map_flat_map. apply flat_map_ext. intros v. unfold bucket. rewrite filter_map_comm, map_map. cbn [fst]. now rewrite map_id.
Qed.

(* what the second pass sees of one row *)
Definition phi (Ei : list item) : list Z := flat_map (fun v => map snd (map snd (bucket _ Ei v))) vs.
Lemma phi_tag i r : Forall inb r -> phi (tag i r) = sortrow r.
Proof.
  intros H. rewrite sortrow_buckets by exact H. unfold phi. apply flat_map_ext. intros v. unfold bucket, tag.
  rewrite filter_map_comm, !map_map. cbn [fst snd]. now rewrite map_id.
Qed.

Lemma labelled_labels : forall R k, Forall (fun q => k <= lab q) (labelled k R).
Proof.
  induction R as [|r R IH]; intros k; [constructor|]. cbn [labelled]. apply Forall_app. split.
  - unfold tag. apply Forall_map. apply Forall_forall. intros x _. unfold lab. cbn. lia.
  - eapply Forall_impl; [|apply (IH (k + 1))]. cbn; intros; lia.
Qed.
Lemma labelled_inb : forall R k, Forall (Forall inb) R -> Forall (fun q => inb (fst q)) (labelled k R).
Proof.
  induction R as [|r R IH]; intros k H; [constructor|]. inversion H; subst. cbn [labelled]. apply Forall_app. split; [|now apply IH].
  unfold tag. apply Forall_map. cbn [fst]. assumption.
Qed.
Lemma labelled_range : forall R k, Forall (fun q => k <= lab q < k + Z.of_nat (length R)) (labelled k R).
Proof.
  induction R as [|r R IH]; intros k; [constructor|]. cbn [labelled length]. apply Forall_app. split.
  - unfold tag. apply Forall_map. apply Forall_forall. intros x _. unfold lab. cbn. lia.
  - eapply Forall_impl; [|apply (IH (k + 1))]. cbn; intros; lia.
Qed.

Lemma per_label : forall R k, Forall (Forall inb) R ->
  flat_map (fun i => phi (filter (fun q => lab q =? i) (labelled k R))) (ap_nat k 1 (length R)) = concat (map sortrow R).
Proof.
  induction R as [|r R IH]; intros k H; [reflexivity|]. inversion H as [|? ? Hr HR]; subst.
  cbn [labelled length ap_nat flat_map map concat]. f_equal.
  - rewrite filter_app. rewrite (filter_none _ (labelled (k + 1) R)).
    + rewrite app_nil_r. unfold tag. rewrite filter_map_comm. unfold lab. cbn [fst snd].
      rewrite filter_all; [now apply phi_tag|]. apply Forall_forall. intros; lia.
    + eapply Forall_impl; [|apply (labelled_labels R (k + 1))]. cbn. intros q Hq. lia.
  - rewrite <- (IH (k + 1) HR). apply flat_map_ext_in'. intros i Hi. apply in_ap_nat in Hi. f_equal.
    rewrite filter_app. rewrite (filter_none _ (tag k r)); [reflexivity|].
    unfold tag. apply Forall_map. apply Forall_forall. intros x _. unfold lab. cbn. lia.
Qed.

Theorem two_pass_rows (R : list (list Z)) : Forall (Forall inb) R -> two_pass (labelled 0 R) = concat (map sortrow R).
Proof.
  intros H. unfold two_pass. set (E := labelled 0 R).
  rewrite (sort_buckets _ vlo vn E) by (apply labelled_inb; exact H).
  set (M := map snd (buckets _ E vlo vn)).
  rewrite (sort_buckets _ 0 (length R) M).
  2:{ unfold M. apply Forall_map. unfold buckets. apply Forall_flat_map_in. intros v _. unfold bucket.
      apply Forall_forall. intros q Hq. apply filter_In in Hq as [Hq _]. pose proof (labelled_range R 0) as Hr. rewrite Forall_forall in Hr. apply (Hr q Hq). }
  unfold buckets at 1. rewrite map_flat_map. rewrite <- (per_label R 0 H). apply flat_map_ext. intros i.
  unfold phi, M, buckets, bucket. rewrite map_flat_map, filter_flat_map, map_flat_map. apply flat_map_ext. intros v.
  rewrite filter_map_comm. cbn [fst]. f_equal. f_equal. apply filter_filter_comm.
Qed.
End Bounds.
Print Assumptions two_pass_rows.
