From Coq Require Import ZifyBool.
From NPS Require Import ListAux PySlice NumpySem Scatter BuildIdx SliceAP View Index Denote RLE RLEOps RaOps SetItem BinaryProof ScanProof ColProof ColSum LexSort SortProof.
Open Scope Z_scope.

(* C08: _as_padded_matrix pads every row to the longest row, on the chosen side *)

(* ---- numpy gather with negative wrap ---- *)
Definition wget (d : list Z) (i : Z) : Z := nth (Z.to_nat (if i <? 0 then i + zlen d else i)) d 0.
Lemma np_take_wrap (d : list Z) idx : Forall (fun i => - zlen d <= i < zlen d) idx -> np_take d idx = Ok (map (wget d) idx).
Proof.
  induction 1 as [|i idx Hi _ IH]; [reflexivity|]. unfold np_take in *. cbn [map rsequence]. rewrite IH.
  unfold np_item, py_index, py_norm_index. replace ((i <? - zlen d) || (i >=? zlen d)) with false by lia.
  rewrite (nth_error_nth' d 0) by (unfold zlen in *; destruct (i <? 0) eqn:?; lia). reflexivity.
Qed.

(* ---- scatter facts ---- *)
Lemma scatter_seq {X} (l : list X) p1 p2 v1 v2 : length p1 = length v1 ->
  scatter_set l (p1 ++ p2) (v1 ++ v2) = scatter_set (scatter_set l p1 v1) p2 v2.
Proof. revert l v1; induction p1 as [|p p1 IH]; intros l [|v v1] H; cbn in H; try discriminate; [reflexivity|]. cbn [app scatter_set]. apply IH. lia. Qed.
Lemma set_nat_prefix {X} (a b : list X) p v : (p < length a)%nat -> set_nat (a ++ b) p v = set_nat a p v ++ b.
Proof. revert p; induction a as [|x a IH]; intros [|p] H; cbn in *; try lia; [reflexivity|]. f_equal. apply IH. lia. Qed.
Lemma scatter_prefix' {X} (a b : list X) ps vs : Forall (fun p => 0 <= p < zlen a) ps ->
  scatter_set (a ++ b) ps vs = scatter_set a ps vs ++ b.
Proof.
  revert a vs; induction ps as [|p ps IH]; intros a vs H; [reflexivity|]. destruct vs as [|v vs]; [reflexivity|]. inversion H; subst.
  cbn [scatter_set]. unfold zset. rewrite set_nat_prefix by (unfold zlen in *; lia). apply IH.
  eapply Forall_impl; [|eassumption]. cbn. intros q Hq. unfold zlen in *. now rewrite set_nat_length.
Qed.
Lemma scatter_fill_range {X} (f : X) : forall z (B : list X) s, (s + z <= length B)%nat ->
  scatter_set B (ap_nat (Z.of_nat s) 1 z) (repeat f z) = firstn s B ++ repeat f z ++ skipn (s + z) B.
Proof.
  induction z as [|z IH]; intros B s H.
  - cbn [ap_nat repeat scatter_set app]. rewrite Nat.add_0_r. symmetry. apply firstn_skipn.
  - set (P := firstn s B). assert (HP : length P = s) by (unfold P; rewrite firstn_length; lia).
    destruct (skipn s B) as [|x t] eqn:Esk; [apply (f_equal (@length X)) in Esk; rewrite skipn_length in Esk; cbn in Esk; lia|].
    assert (EB : B = P ++ x :: t) by (unfold P; rewrite <- Esk; symmetry; apply firstn_skipn).
    clearbody P. clear Esk. subst B. rewrite app_length in H. cbn [length] in H.
    cbn [ap_nat repeat scatter_set]. replace (Z.of_nat s + 1) with (Z.of_nat (S s)) by lia.
    unfold zset. rewrite Nat2Z.id. rewrite <- HP at 1. rewrite <- (Nat.add_0_r (length P)). rewrite set_nat_app_shift. cbn [set_nat].
    rewrite IH by (rewrite app_length; cbn [length]; lia).
    replace (S s) with (length (P ++ [f])) by (rewrite app_length; cbn [length]; lia).
    replace (P ++ f :: t) with ((P ++ [f]) ++ t) by (now rewrite <- app_assoc).
    rewrite firstn_app, firstn_all, Nat.sub_diag. cbn [firstn]. rewrite app_nil_r.
    rewrite skipn_app, skipn_all2 by lia. cbn [app].
    replace (length (P ++ [f]) + z - length (P ++ [f]))%nat with z by lia.
    rewrite <- HP.
    rewrite skipn_app, (@skipn_all2 _ (length P + S z) P) by lia. replace (length P + S z - length P)%nat with (S z) by lia. cbn [skipn app].
    rewrite <- !app_assoc. reflexivity.
Qed.

Lemma scatter_len {X} (l : list X) : forall ps vs, length (scatter_set l ps vs) = length l.
Proof. intros ps; revert l; induction ps as [|p ps IH]; intros l [|v vs]; cbn [scatter_set]; try reflexivity. rewrite IH. unfold zset. apply set_nat_length. Qed.

(* ---- the model, row by row ---- *)
Section Pad.
Variable fill : Z.
Variable left : bool.
Variable mx n : Z.
Variable d : list Z.

Definition blockidx (s : Z) : list Z := map (fun k => Z.min (s + k) (n - 1)) (ap 0 mx 1).
Fixpoint idx_all (ls : list Z) (acc : Z) : list Z :=
  match ls with [] => [] | l :: ls' => blockidx (if left then acc + l - mx else acc) ++ idx_all ls' (acc + l) end.
Fixpoint zeroed_rel (ls : list Z) : list Z :=
  match ls with [] => [] | l :: ls' => ap (if left then 0 else l) (mx - l) 1 ++ map (Z.add mx) (zeroed_rel ls') end.
Definition pad_row (r : list Z) : list Z :=
  let pad := repeat fill (Z.to_nat (mx - zlen r)) in if left then pad ++ r else r ++ pad.

Hypothesis Hn : n = zlen d.
Hypothesis Hmx : 0 <= mx <= n.

Lemma block_len s : length (map (wget d) (blockidx s)) = Z.to_nat mx.
Proof. unfold blockidx. rewrite !map_length. apply ap_length. Qed.

(* one block, after the fill *)
Lemma block_fill (pre r post : list Z) : d = pre ++ r ++ post -> zlen r <= mx ->
  scatter_set (map (wget d) (blockidx (if left then zlen pre + zlen r - mx else zlen pre)))
              (ap (if left then 0 else zlen r) (mx - zlen r) 1) (repeat fill (Z.to_nat (mx - zlen r)))
  = pad_row r.
Proof.
  intros Hd Hr. set (l := zlen r) in *. set (z := mx - l). assert (Hl : 0 <= l) by (unfold l, zlen; lia).
  assert (Hcell : forall q, 0 <= q < l -> wget d (Z.min (zlen pre + q) (n - 1)) = nth (Z.to_nat q) r 0).
  { intros q Hq. assert (Hlt : zlen pre + q <= n - 1) by (rewrite Hn, Hd; unfold l, zlen in *; rewrite !app_length; lia).
    rewrite Z.min_l by lia. unfold wget. replace (zlen pre + q <? 0) with false by (unfold zlen; lia).
    rewrite Hd. unfold zlen. rewrite app_nth2 by lia. rewrite app_nth1 by (unfold l, zlen in *; lia). f_equal. lia. }
  assert (Hrow : forall (g : Z -> Z) s, (forall q, 0 <= q < l -> g (s + q) = nth (Z.to_nat q) r 0) -> map g (ap s l 1) = r).
  { intros g s Hg. rewrite (ap_reindex s l 1), map_map. unfold ap, l, zlen. rewrite Nat2Z.id, ap_nat_seq, map_map.
    rewrite <- (map_nth_all 0 r) at 2. apply map_ext_in. intros j Hj. apply in_seq in Hj.
    replace (0 + Z.of_nat j) with (Z.of_nat j) by lia. rewrite Z.mul_1_r, Hg by (unfold l, zlen; lia). now rewrite Nat2Z.id. }
  unfold pad_row, blockidx. fold l. fold z. rewrite map_map.
  destruct left.
  - (* left: fill the first z cells *)
    replace (ap 0 mx 1) with (ap 0 (z + l) 1) by (f_equal; unfold z; lia). rewrite (map_ap_split Z _ 0 z l) by (unfold z; lia).
    set (X := map _ (ap 0 z 1)). set (Y := map _ (ap (0 + z) l 1)).
    assert (HX : length X = Z.to_nat z) by (unfold X; rewrite map_length; apply ap_length).
    unfold ap. cbn [Z.of_nat]. change 0 with (Z.of_nat 0). rewrite scatter_fill_range by (rewrite app_length, HX; lia).
    cbn [firstn app Nat.add]. rewrite <- HX at 2. rewrite skipn_app, skipn_all, Nat.sub_diag. cbn [skipn app]. f_equal.
    unfold Y. apply Hrow. intros q Hq. rewrite <- (Hcell q Hq). f_equal. unfold z. lia.
  - (* right: fill the last z cells *)
    replace (ap 0 mx 1) with (ap 0 (l + z) 1) by (f_equal; unfold z; lia). rewrite (map_ap_split Z _ 0 l z) by (unfold z; lia).
    set (X := map _ (ap 0 l 1)). set (Y := map _ (ap (0 + l) z 1)).
    assert (HX : length X = Z.to_nat l) by (unfold X; rewrite map_length; apply ap_length).
    assert (HY : length Y = Z.to_nat z) by (unfold Y; rewrite map_length; apply ap_length).
    unfold ap. rewrite <- (Z2Nat.id l) at 1 by lia. rewrite scatter_fill_range by (rewrite app_length, HX, HY; lia).
    rewrite <- HX at 1. rewrite firstn_app, firstn_all, Nat.sub_diag. cbn [firstn]. rewrite app_nil_r.
    rewrite skipn_all2 by (rewrite app_length, HX, HY; lia). rewrite app_nil_r. f_equal.
    unfold X. apply Hrow. intros q Hq. replace (0 + q) with q by lia. apply Hcell. exact Hq.
Qed.

Lemma zeroed_bounds (r : list Z) : zlen r <= mx -> Forall (fun p => 0 <= p < mx) (ap (if left then 0 else zlen r) (mx - zlen r) 1).
Proof.
  intros H. unfold ap. rewrite ap_nat_seq. apply Forall_map. apply Forall_forall. intros j Hj. apply in_seq in Hj.
  destruct left; unfold zlen in *; lia.
Qed.

(* all blocks *)
Lemma blocks : forall (R : list (list Z)) (pre : list Z), d = pre ++ concat R -> Forall (fun r => zlen r <= mx) R ->
  segments (scatter_set (map (wget d) (idx_all (map zlen R) (zlen pre))) (zeroed_rel (map zlen R))
                        (repeat fill (length (zeroed_rel (map zlen R))))) (map (fun _ => mx) R)
  = map pad_row R.
Proof.
  induction R as [|r R IH]; intros pre Hd HR; [reflexivity|]. pose proof (Forall_inv HR) as Hr. pose proof (Forall_inv_tail HR) as HR'. cbv beta in Hr.
  cbn [map idx_all zeroed_rel]. rewrite map_app, app_length, repeat_app.
  set (B := map (wget d) (blockidx (if left then zlen pre + zlen r - mx else zlen pre))).
  set (Zb := ap (if left then 0 else zlen r) (mx - zlen r) 1).
  assert (HB : zlen B = mx) by (unfold B, zlen; rewrite block_len; lia).
  rewrite scatter_seq by (now rewrite repeat_length).
  rewrite scatter_prefix' by (rewrite HB; apply zeroed_bounds; exact Hr).
  set (a := scatter_set B Zb (repeat fill (length Zb))).
  assert (Ha : zlen a = mx) by (unfold a, zlen in *; rewrite scatter_len; exact HB).
  rewrite map_length. rewrite <- Ha at 1. rewrite scatter_app_shift.
  2:{ clear - Hmx. induction R as [|r0 R0 IHl]; [constructor|]. cbn [map zeroed_rel]. apply Forall_app. split.
      - unfold ap. rewrite ap_nat_seq. apply Forall_map. apply Forall_forall. intros j _. destruct left; unfold zlen; lia.
      - apply Forall_map. eapply Forall_impl; [|exact IHl]. cbn. intros; lia. }
  replace (mx :: map (fun _ : list Z => mx) R) with (zlen a :: map (fun _ : list Z => mx) R) by (now rewrite Ha). rewrite segments_app_first. f_equal.
  - unfold a, B, Zb. replace (length (ap (if left then 0 else zlen r) (mx - zlen r) 1)) with (Z.to_nat (mx - zlen r)) by (now rewrite ap_length).
    apply (block_fill pre r (concat R)); [exact Hd|exact Hr].
  - specialize (IH (pre ++ r)). replace (zlen (pre ++ r)) with (zlen pre + zlen r) in IH by (unfold zlen; rewrite app_length; lia).
    apply IH; [rewrite <- app_assoc; exact Hd|exact HR'].
Qed.
End Pad.

(* ---- the model's index vectors ---- *)
Lemma idx_char (left : bool) (mx n : Z) : forall ls acc,
  flat_map (fun s => map (fun k => Z.min (s + k) (n - 1)) (ap 0 mx 1))
           (if left then map (fun e => e - mx) (map2 Z.add (excl_from acc ls) ls) else excl_from acc ls)
  = idx_all left mx n ls acc.
Proof.
  induction ls as [|l ls IH]; intros acc; [destruct left; reflexivity|]. specialize (IH (acc + l)).
  destruct left; cbn [excl_from map2 map flat_map idx_all]; rewrite IH; reflexivity.
Qed.

Lemma last_ends : forall ls acc, ls <> [] -> last (map2 Z.add (excl_from acc ls) ls) 0 = acc + zsum ls.
Proof.
  induction ls as [|l ls IH]; intros acc H; [congruence|].
  destruct ls as [|l' ls']; [cbn; lia|]. specialize (IH (acc + l) ltac:(discriminate)).
  cbn [excl_from map2 zsum] in *. set (T := map2 Z.add (excl_from (acc + l + l') ls') ls') in *.
  change (last (acc + l :: acc + l + l' :: T) 0) with (last (acc + l + l' :: T) 0). rewrite IH. lia.
Qed.

Lemma ap_shift t a z : ap (t + a) z 1 = map (Z.add t) (ap a z 1).
Proof. unfold ap. rewrite !ap_nat_seq, map_map. apply map_ext. intros; lia. Qed.

Lemma zeroed_char (left : bool) (mx : Z) : forall ls i0,
  concat (map (fun r : Z * Z => ap (fst r) (snd r) 1)
              (combine (let zs := map (fun i => i * mx) (ap_nat i0 1 (length ls)) in if left then zs else map2 Z.add zs ls)
                       (map (fun l => mx - l) ls)))
  = map (Z.add (i0 * mx)) (zeroed_rel left mx ls).
Proof.
  induction ls as [|l ls IH]; intros i0; [destruct left; reflexivity|]. specialize (IH (i0 + 1)). cbn zeta in *.
  destruct left; cbn [length ap_nat map map2 combine concat zeroed_rel fst snd] in *; rewrite IH, map_app, map_map; f_equal.
  - replace (i0 * mx) with (i0 * mx + 0) at 1 by lia. apply ap_shift.
  - apply map_ext. intros; lia.
  - apply ap_shift.
  - apply map_ext. intros; lia.
Qed.

Lemma fold_max_le_sum : forall l acc, all_nonneg l -> 0 <= acc -> fold_left Z.max l acc <= Z.max acc (zsum l).
Proof.
  induction l as [|x l IH]; intros acc H Ha; cbn [fold_left zsum]; [lia|]. inversion H as [|? ? Hx Hl]; subst. cbv beta in Hx.
  pose proof (zsum_nonneg l Hl). specialize (IH (Z.max acc x) Hl ltac:(lia)). lia.
Qed.

Lemma idx_bounds (left : bool) (mx n : Z) : 0 <= mx <= n -> forall ls acc, all_nonneg ls -> 0 <= acc ->
  Forall (fun i => - n <= i < n) (idx_all left mx n ls acc).
Proof.
  intros Hm. induction ls as [|l ls IH]; intros acc H Ha; [constructor|]. inversion H as [|? ? Hl Hls]; subst. cbv beta in Hl.
  cbn [idx_all]. apply Forall_app. split; [|apply IH; [exact Hls|lia]].
  unfold blockidx, ap. rewrite ap_nat_seq, map_map. apply Forall_map. apply Forall_forall. intros j Hj. apply in_seq in Hj.
  destruct left; lia.
Qed.

Theorem padded_correct (R : list (list Z)) (fill : Z) (left : bool) :
  ra_padded (fr_of_rows R) fill left = Ok (spec_padded R fill left).
Proof.
  unfold ra_padded, fr_of_rows, spec_padded. set (lens := map zlen R). set (d := concat R).
  pose proof (all_nonneg_zlen R) as Hnn. fold lens in Hnn.
  rewrite <- (fold_max_hd lens Hnn). set (mx := fold_left Z.max lens (hd 0 lens)).
  assert (Hsum : zlen d = zsum lens) by (unfold d, lens; now rewrite zsum_map_zlen).
  assert (Hle : Forall (fun r => zlen r <= mx) R).
  { destruct (max_fold_ge lens (hd 0 lens)) as [_ H]. fold mx in H. unfold lens in H. rewrite Forall_map in H. exact H. }
  assert (Hmx : 0 <= mx <= zlen d).
  { split.
    - destruct (max_fold_ge lens (hd 0 lens)) as [H _]. fold mx in H. destruct lens as [|l0 ls0]; [cbn in *; lia|]. inversion Hnn; subst. cbn [hd] in H. lia.
    - unfold mx. rewrite (fold_max_hd lens Hnn). pose proof (fold_max_le_sum lens 0 Hnn ltac:(lia)). pose proof (zsum_nonneg lens Hnn). lia. }
  (* the gather *)
  set (lastend := last (map2 Z.add (excl_prefix lens) lens) 0).
  assert (Hlast : lastend = zlen d).
  { unfold lastend, excl_prefix. destruct lens as [|l0 ls0] eqn:El; [cbn in *; lia|]. rewrite last_ends by discriminate. lia. }
  unfold excl_prefix. rewrite (idx_char left mx lastend lens 0). rewrite Hlast.
  rewrite (np_take_wrap d) by (apply idx_bounds; [exact Hmx|exact Hnn|lia]). cbn [rbind].
  (* the fill positions *)
  rewrite flat_indices_spec.
  2:{ cbn [g_rows]. clear - Hle. apply Forall_forall. intros [a b] Hab. apply in_combine_r in Hab. cbn [snd]. unfold lens in Hab.
      rewrite map_map in Hab. apply in_map_iff in Hab as (r & <- & Hr). rewrite Forall_forall in Hle. specialize (Hle r Hr). lia. }
  cbn [g_rows g_step]. unfold spec_indices.
  pose proof (zeroed_char left mx lens 0) as Hz. cbn zeta in Hz. replace (ap 0 (zlen lens) 1) with (ap_nat 0 1 (length lens)) by (unfold ap, zlen; now rewrite Nat2Z.id).
  rewrite Hz. rewrite (map_ext (Z.add (0 * mx)) (fun x => x)) by (intros; lia). rewrite map_id.
  f_equal. replace (map (fun _ : Z => fill) (zeroed_rel left mx lens)) with (repeat fill (length (zeroed_rel left mx lens))) by (clear; induction (zeroed_rel left mx lens); cbn; congruence).
  replace (map (fun _ : Z => mx) lens) with (map (fun _ : list Z => mx) R) by (unfold lens; now rewrite map_map).
  pose proof (blocks fill left mx (zlen d) d eq_refl Hmx R [] eq_refl Hle) as Hb. change (zlen (@nil Z)) with 0 in Hb. fold lens in Hb. rewrite Hb.
  apply map_ext. intros r. unfold pad_row. reflexivity.
Qed.
Print Assumptions padded_correct.
