"""1-D RunLengthArray (C14, C15, C16): implementation vs Model/RLE.v + RLEOps.v vs the dense spec."""
import itertools
from vlib import show, parse, oracle, parse2, guarded

TRUSTED = ["Coq 8.16.1 kernel", "extraction (ExtrOcamlBasic, Z inductive) + oracle/driver.ml",
           "numpy's own dense result is used as a second oracle for slices and binary ufuncs (it must equal the Coq spec)", "this harness"]
RULE = ("every array over {0,1,2} of length 1..6 (thorough: 1..7): encode/decode, sum; slices with start, stop in {None, -n-2..n+2} and step in "
        "{None,+-1,+-2,+-3} (all for n <= 4, a seeded 20% for longer arrays; thorough: all); every integer index; seeded pairs of equal "
        "length for 8 binary ufuncs; seeded concatenations; each case is compared twice: the decoded result against the dense spec, and "
        "the (boundaries, values) representation against the model (canonical form); non-trivial = length >= 2 and at least two runs")
UFS = ["add", "subtract", "multiply", "maximum", "less", "equal", "bitwise_and", "bitwise_xor"]


def run_family(R, tier, rng, kinds):
    import numpy as np
    from npstructures import RunLengthArray
    obs = lambda r: [np.asarray(r._events).tolist(), np.asarray(r._values).tolist(), r.to_array().tolist()]
    cases = []
    maxn = 7 if tier == "thorough" else 6
    arrs = [list(a) for n in range(1, maxn + 1) for a in itertools.product([0, 1, 2], repeat=n)]
    nt = lambda a: len(a) >= 2 and len(set(a)) >= 2
    for a in arrs:
        A = np.array(a)
        def safe(f):
            try: return f()
            except Exception: return None
        r = safe(lambda: RunLengthArray.from_array(A))
        if "rt" in kinds: cases.append(("rle_rt " + show(a), [safe(lambda: obs(r)), a], "rt", nt(a)))
        if "sum" in kinds: cases.append(("rle_sum " + show(a), [safe(lambda: int(r.sum())), int(A.sum())], "sum", nt(a)))
        if ("slice" in kinds or "get" in kinds) and (len(a) <= 4 or rng.random() < .15 or tier == "thorough"):
            n = len(a); vals = [None] + list(range(-n - 2, n + 3))
            if "slice" in kinds:
                for st, sp, se in itertools.product(vals, vals, [None, 1, 2, 3, -1, -2, -3]):
                    if tier != "thorough" and len(a) > 3 and rng.random() < .8: continue
                    try: e = obs(r[st:sp:se])
                    except Exception: e = None
                    cases.append(("rle_slice " + show(a) + " " + show(st) + " " + show(sp) + " " + show(se), [e, A[st:sp:se].tolist()], "slice", nt(a)))
            if "get" in kinds:
                for i in range(-n, n):
                    cases.append(("rle_get " + show(a) + " " + str(i), [safe(lambda: int(r[i])), int(A[i])], "get", nt(a)))
    if "get" in kinds:
        # windows and run-length masks: the model (Model/RLEOps.v rl_windows / rl_getitem_rlmask) against the implementation and the dense array
        for a in arrs:
            if len(a) > 5 and rng.random() < .8: continue
            A = np.array(a); n = len(a)
            k = rng.randint(1, 3); ss = [rng.randrange(0, n) for _ in range(k)]; ee = [rng.randint(s + 1, n) for s in ss]
            if rng.random() < .4:        # empty windows (stop == start anywhere in 0..n, stop < start) next to a non-empty one
                ss += [rng.randrange(0, n + 1), n]; ee += [ss[-2], rng.randrange(0, n + 1)]
            def win(): return RunLengthArray.from_array(A)[np.array(ss):np.array(ee)].to_array().tolist()
            cases.append(("rle_windows " + show(a) + " " + show(ss) + " " + show(ee), [guarded(win), [a[s:e] for s, e in zip(ss, ee)]], "windows", nt(a)))
            m = [rng.random() < .5 for _ in a]
            if any(m):
                def rlm():
                    out = RunLengthArray.from_array(A)[RunLengthArray.from_array(np.array(m))]
                    return np.asarray(out.to_array() if hasattr(out, "to_array") else out).tolist()
                cases.append(("rle_rlmask " + show(a) + " " + show([int(b) for b in m]), [guarded(rlm), [x for x, b in zip(a, m) if b]], "rlmask", nt(a)))
    if "bin" in kinds:
        pairs = [(a, b) for a in arrs for b in arrs if len(a) == len(b)]; rng.shuffle(pairs)
        for a, b in pairs[:20000 if tier == "thorough" else 4000]:
            c = rng.randrange(8); uf = getattr(np, UFS[c]); A, B = np.array(a), np.array(b)
            try: e = obs(uf(RunLengthArray.from_array(A), RunLengthArray.from_array(B)).astype(int))
            except Exception: e = None
            cases.append(("rle_bin %d " % c + show(a) + " " + show(b), [e, uf(A, B).astype(int).tolist()], "bin", nt(a) or nt(b)))
    if "concat" in kinds:
        for _ in range(500):
            ls = [rng.choice(arrs) for _ in range(rng.randint(1, 3))]
            try: e = obs(np.concatenate([RunLengthArray.from_array(np.array(l)) for l in ls]))
            except Exception: e = None
            cases.append(("rle_concat " + show(ls), [e, [x for l in ls for x in l]], "concat", True))
    out = oracle([c[0] for c in cases])
    for (line, (iobs, dense), kind, ntc), o in zip(cases, out):
        if o.startswith("ERR"):
            R.record(line, iobs, "oracle-error: " + o[:80], "oracle-error: " + o[:80], ntc, kind); continue
        m, s = parse(o)
        if kind == "rt": s = s[0]
        if kind in ("windows", "rlmask"):
            R.record(line, iobs, m, dense, ntc, kind); continue
        if kind in ("sum", "get"):
            R.record(line, iobs, m, dense if s is None else s, ntc, kind); continue
        R.record(line + " #dense", None if iobs is None else iobs[2], None if m is None else m[2], s, ntc, kind + "/dense")
        R.record(line + " #repr", None if iobs is None else iobs[:2], None if m is None else m[:2], None if m is None else m[:2], ntc, kind + "/repr")
        if dense != s: R.internal.append({"case": line, "numpy_dense": dense, "spec": s})
