"""C13 — correspondence of BitArray (npstructures/bitarray.py) with the Coq model Model/BitArr.v."""
import vlib
from vlib import show, parse, oracle, parse2, guarded

THEOREMS = "Props/C13.v"
TRUSTED = ["Coq 8.16.1 kernel (coqc; no native_compute, vm_compute only in Examples)",
           "extraction to OCaml (ExtrOcamlBasic only; Z kept as the extracted inductive) + oracle/driver.ml (decimal parsing/printing)",
           "this harness: case generation, canonicalisation of numpy results to integer lists",
           "numpy uint64 shift/or/and semantics as modelled in Model/BitArr.v (shl64 = mod 2^64, x << 64 = 0), validated by every case of this run"]
ASSUME = ["registers are numpy uint64; values fit in b bits (the property's precondition)",
          "getlist is checked against the model only (its spec is the composition of C13_getitem and C13_unpack_pack)"]
RULE = ("b in {1,2,4,8,16,32}; lengths 0..3k+1 and 3k-1,3k,3k+1,5k+3 (k=64/b) (thorough: up to 6k+2 and random lengths up to 400); "
        "value patterns all-ones / affine / random from the run seed; input dtypes uint64,int64,uint8|uint32; every window 1..k at the "
        "boundary sizes and a seeded sample of the others (thorough: all), windows longer than the array included (no window at all); non-trivial = more than one element and not all zero; "
        "distinct = distinct protocol line")



def translator_tie():
    return vlib.translator_tie(["bits"])

def run(R, tier, rng):
    import numpy as np
    from npstructures.bitarray import BitArray
    cases = []
    def add(line, impl, kind, a):
        cases.append((line, impl, kind, len(a) > 1 and any(a)))
    for b in (1, 2, 4, 8, 16, 32):
        k = 64 // b
        lengths = list(range(0, min(3 * k + 2, 70))) + [3 * k - 1, 3 * k, 3 * k + 1, 5 * k + 3]
        if tier == "thorough":
            lengths += list(range(70, min(6 * k + 3, 400), 7)) + [rng.randrange(1, 400) for _ in range(20)]
        for n in lengths:
            for pat in range(3):
                a = [(2 ** b - 1) if pat == 0 else ((i * 7 + 3) % 2 ** b if pat == 1 else rng.randrange(2 ** b)) for i in range(n)]
                for dt in (np.uint64, np.int64, np.uint8 if b <= 8 else np.uint32):
                    try: e = [int(x) for x in BitArray.pack(np.array(a, dtype=dt), b).unpack()]
                    except Exception: e = None
                    add("bit_unpack " + show(a) + " " + str(b), e, "unpack/" + np.dtype(dt).name, a)
                p = BitArray.pack(np.array(a, dtype=np.uint64), b)
                if n:
                    idx = [rng.randrange(n) for _ in range(4)]
                    try: e = [int(p[i]) for i in idx]
                    except Exception: e = None
                    add("bit_get " + show(a) + " " + str(b) + " " + show(idx), e, "get", a)
                    try: e = [int(x) for x in p[idx].unpack()]
                    except Exception: e = None
                    add("bit_getlist " + show(a) + " " + str(b) + " " + show(idx), e, "getlist", a)
                    for start in sorted({0, max(0, k - 1), max(0, k - 2), max(0, 2 * k - 1)}):          # runs of consecutive positions that start mid-register and spill over
                        for ln in (2, k, k + 1):
                            run_ = [q for q in range(start, start + ln) if q < n]
                            if len(run_) < 2: continue
                            try: e = [int(x) for x in p[run_].unpack()]
                            except Exception: e = None
                            add("bit_getlist " + show(a) + " " + str(b) + " " + show(run_), e, "getlist-run", a)
                    # the packed array is unchanged by reading: unpack again after windows / indexing on the same object
                    try:
                        if n - 1 > 0: p.sliding_window(min(2, k))
                        e = [int(x) for x in p.unpack()]
                    except Exception: e = None
                    add("bit_unpack " + show(a) + " " + str(b), e, "unpack-after-reads", a)
                for w in range(1, k + 1):
                    if n - w + 1 <= 0 and (w not in (n + 1, n + 2, n + 3, k) or pat == 1): continue      # windows longer than the array: no position has a window (F36)
                    if tier != "thorough" and w not in (1, 2, k - 1, k, n + 1, n + 2) and rng.random() < .7: continue
                    try: e = [int(x) for x in p.sliding_window(w)]
                    except Exception: e = None
                    add("bit_window " + show(a) + " " + str(b) + " " + str(w), e, "window", a)
    # lengths beyond any plausible block size / threshold (a block boundary that is not a register boundary for some b)
    for b in (1, 2, 4, 8, 16, 32):
        k = 64 // b
        for n in (4001, 4099) + ((8193,) if tier == "thorough" else ()):
            a = [rng.randrange(2 ** b) for i in range(n)]; a[4000] = 2 ** b - 1
            p = BitArray.pack(np.array(a, dtype=np.uint64), b)
            try: e = [int(x) for x in p.unpack()]
            except Exception: e = None
            add("bit_unpack " + show(a) + " " + str(b), e, "unpack/long", a)
            idx = [rng.randrange(n) for _ in range(90)] + list(range(3990, 4010))
            try: e = [int(x) for x in p[idx].unpack()]
            except Exception: e = None
            add("bit_getlist " + show(a) + " " + str(b) + " " + show(idx), e, "getlist/long", a)
            for w in sorted({1, max(1, k - 1), k}):
                try: e = [int(x) for x in p.sliding_window(w)]
                except Exception: e = None
                add("bit_window " + show(a) + " " + str(b) + " " + str(w), e, "window/long", a)
            try: e = [int(x) for x in p.unpack()]
            except Exception: e = None
            add("bit_unpack " + show(a) + " " + str(b), e, "unpack-after-reads/long", a)
    # the bit width and the window size given as numpy integers of every width (F40): the same values as for Python ints
    for b in (2, 16):
        k = 64 // b
        for n in (5, 300):
            a = [(i * 7 + 3) % 2 ** b for i in range(n)]
            for bt in (np.uint8, np.int8, np.int64, np.uint64):
                try: e = [int(x) for x in BitArray.pack(np.array(a, dtype=np.uint64), bt(b)).unpack()]
                except Exception: e = None
                add("bit_unpack " + show(a) + " " + str(b), e, "unpack/numpy-scalar-width", a)
                for w in (1, k, min(k, n + 2)):
                    try: e = [int(x) for x in BitArray.pack(np.array(a, dtype=np.uint64), b).sliding_window(bt(w))]
                    except Exception: e = None
                    add("bit_window " + show(a) + " " + str(b) + " " + str(w), e, "window/numpy-scalar-size", a)
    out = oracle([c[0] for c in cases])
    for (line, impl, kind, nt), o in zip(cases, out):
        if o.startswith("ERR"):
            model = spec = "oracle-error: " + o[:80]
        else:
            model, spec = parse(o)
            if spec is None: spec = model
        R.record(line, impl, model, spec, nt, kind)
