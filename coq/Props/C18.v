(* C18 — property theorems only: each restates the full statement and is closed by the lemma proved in Proofs/. *)
From Coq Require Import ZArith List Bool.
From NPS Require Import ListAux PySlice NumpySem Scatter BuildIdx XorBroadcast View Index Assign Reduce Scan RaOps Heap Hash HashRun BitArr RLE RLEOps RLE2d DataClass RowsSpec AssignSpec MapSpec Denote DataClassProof DataClassAstype DataClassIter.
Import ListNotations.
Open Scope Z_scope.

Theorem C18_obj_iter_entries :
  forall (E : Type) (d : E) (k : nat) (R : list (list E)),
       (1 <= k)%nat ->
       obj_iter E (cols E d k R) =
       map (fun row : list E => Ok (map (fun j : nat => nth j row d) (seq 0 k))) R.
Proof. exact obj_iter_entries. Qed.
Print Assumptions C18_obj_iter_entries.

Theorem C18_obj_iter_length :
  forall (E : Type) (d : E) (k : nat) (R : list (list E)),
       (1 <= k)%nat -> zlen (obj_iter E (cols E d k R)) = obj_len E (cols E d k R).
Proof. exact obj_iter_length. Qed.
Print Assumptions C18_obj_iter_length.

Theorem C18_obj_select_entries :
  forall (E : Type) (d : E) (k : nat) (R : list (list E)) (s : rowsel),
       (1 <= k)%nat -> obj_select E (cols E d k R) s = rmap (cols E d k) (sel_rows s R).
Proof. exact obj_select_entries. Qed.
Print Assumptions C18_obj_select_entries.

Theorem C18_obj_item_entry :
  forall (E : Type) (d : E) (k : nat) (R : list (list E)) (i : Z),
       (1 <= k)%nat ->
       obj_item E (cols E d k R) i =
       rmap (fun row : list E => map (fun j : nat => nth j row d) (seq 0 k)) (np_item R i).
Proof. exact obj_item_entry. Qed.
Print Assumptions C18_obj_item_entry.

Theorem C18_obj_concat_entries :
  forall (E : Type) (d : E) (k : nat) (Rs : list (list (list E))),
       Rs <> [] -> obj_concat E (map (cols E d k) Rs) = cols E d k (concat Rs).
Proof. exact obj_concat_entries. Qed.
Print Assumptions C18_obj_concat_entries.

Theorem C18_obj_eqb_iff :
  forall (E : Type) (eqb : E -> E -> bool),
       (forall x y : E, eqb x y = true <-> x = y) ->
       forall o o' : obj E, length o = length o' -> obj_eqb E eqb o o' = true <-> o = o'.
Proof. exact obj_eqb_iff. Qed.
Print Assumptions C18_obj_eqb_iff.

Theorem C18_varlen_rows :
  forall blocks : list (list (list Z)),
       let W :=
         fold_left Z.max
           (map (fun b : list (list Z) => match b with
                                          | [] => 0
                                          | r :: _ => zlen r
                                          end) blocks) 0 in
       varlen_concat blocks =
       concat (map (map (fun r : list Z => repeat 0 (Z.to_nat (W - zlen r)) ++ r)) blocks).
Proof. exact varlen_rows. Qed.
Print Assumptions C18_varlen_rows.

Theorem C18_obj_astype_entries :
  forall (E : Type) (d : E) (k : nat) (R : list (list E)) (keep : list nat),
       Forall (fun j : nat => (j < k)%nat) keep ->
       obj_astype E (cols E d k R) keep =
       Ok (map (fun j : nat => map (fun row : list E => nth j row d) R) keep).
Proof. exact obj_astype_entries. Qed.
Print Assumptions C18_obj_astype_entries.

Theorem C18_obj_astype_refused :
  forall (E : Type) (d : E) (k : nat) (R : list (list E)) (keep : list nat) (j : nat),
       In j keep -> (k <= j)%nat -> obj_astype E (cols E d k R) keep = Refused.
Proof. exact obj_astype_refused. Qed.
Print Assumptions C18_obj_astype_refused.

Theorem C18_obj_astype_item :
  forall (E : Type) (d : E) (k : nat) (R : list (list E)) (keep : list nat) (i : Z),
       keep <> [] ->
       Forall (fun j : nat => (j < k)%nat) keep ->
       rbind (obj_astype E (cols E d k R) keep) (fun o' : obj E => obj_item E o' i) =
       rmap (fun row : list E => map (fun j : nat => nth j row d) keep) (np_item R i).
Proof. exact obj_astype_item. Qed.
Print Assumptions C18_obj_astype_item.
