"""C19 — results do not depend on the index-width configuration: every C02 case is run by the implementation under 64-bit and
under 32-bit row indices and the two answers are compared with each other (so a C02 defect common to both is not reported here)."""
import os, random
import vlib
from harness import c02
TRUSTED = c02.TRUSTED + ["little-endian layout of an int32 pair inside a uint64 word (Model/IdxWidth.v)"]
ASSUME = ["arrays small enough for 32-bit offsets", "the reference for a case is the implementation's own answer under the default 64-bit configuration; that answer is compared with the Coq oracle by the C02 check"]
RULE = "each case twice (np.int64 / np.int32 via ViewBase.set_dtype); " + c02.RULE
def run(R, tier, rng):
    import numpy as np
    from npstructures.raggedshape import ViewBase
    seed = rng.random()
    items, lines, impl64 = c02.collect(tier, random.Random(seed))
    os.environ["VERIF_IDX32"] = "1"; ViewBase.set_dtype(np.int32)
    try:
        items32, lines32, impl32 = c02.collect(tier, random.Random(seed))
    finally:
        ViewBase.set_dtype(np.int64); os.environ.pop("VERIF_IDX32", None)
    assert lines == lines32
    for (Rw, idx), line, i64, i32 in zip(items, lines, impl64, impl32):
        R.record(line, i32, i64, i64, len(Rw) >= 2 and idx is not Ellipsis, c02.kind_of(idx))
