From Coq Require Import ZArith List Lia.
From NPS Require Import Bits ListAux PySlice NumpySem BuildIdx SliceAP BitArr BitProof DigitSlice WindowCore.
Import ListNotations.
Open Scope Z_scope.

(* C13: sliding_window (pack a b) w lists, for every position, the w consecutive values as one base-2^b number *)

Lemma mask_eq t : 0 <= t <= W -> shr64 (2 ^ W - 1) (W - t) = 2 ^ t - 1.
Proof.
  intros Ht. unfold shr64, W in *. rewrite Z.shiftr_div_pow2 by lia.
  pose proof (Bits.pow_pos t ltac:(lia)). pose proof (Bits.pow_pos (64 - t) ltac:(lia)).
  assert (E : 2 ^ 64 = 2 ^ t * 2 ^ (64 - t)) by (rewrite <- Z.pow_add_r by lia; f_equal; lia).
  symmetry. apply (Z.div_unique _ _ _ (2 ^ (64 - t) - 1)); [lia|]. rewrite E. ring.
Qed.

Lemma map2_map {X Y U V} (f : Y -> U -> V) (g : X -> Y) (h : X -> U) l :
  map2 f (map g l) (map h l) = map (fun x => f (g x) (h x)) l.
Proof. induction l as [|x l IH]; [reflexivity|]. cbn [map map2]. now rewrite IH. Qed.

Lemma firstn_seq0 k s n : (k <= n)%nat -> firstn k (seq s n) = seq s k.
Proof. revert s n; induction k as [|k IH]; intros s [|n] H; cbn; try reflexivity; try lia. f_equal. apply IH. lia. Qed.
Lemma skipn_seq0 k s n : skipn k (seq s n) = seq (s + k) (n - k).
Proof.
  revert s n; induction k as [|k IH]; intros s n; cbn [skipn].
  - now rewrite Nat.add_0_r, Nat.sub_0_r.
  - destruct n as [|n]; [reflexivity|]. cbn [seq]. rewrite IH. f_equal. lia.
Qed.

Lemma win_go_flat b mask regs :
  win_go b mask regs = flat_map (fun r => win_row b mask (nth r regs 0) (nth_error regs (S r))) (seq 0 (length regs)).
Proof.
  induction regs as [|x regs IH]; [reflexivity|].
  change (length (x :: regs)) with (S (length regs)). change (seq 0 (S (length regs))) with (0%nat :: seq 1 (length regs)).
  cbn [win_go flat_map]. rewrite IH. rewrite <- seq_shift. rewrite !flat_map_concat_map, map_map.
  replace (hd_error regs) with (nth_error (x :: regs) 1) by (destruct regs; reflexivity). reflexivity.
Qed.

Lemma spec_window_digits a b w p : 0 <= b ->
  spec_window a b w (Z.of_nat p) = digits_val b (map (fun j => nth (p + j) a 0) (seq 0 (Z.to_nat w))).
Proof.
  intros Hb. unfold spec_window, ap.
  assert (G : forall n s, fold_right (fun j acc => acc + Z.shiftl (nth (Z.to_nat (Z.of_nat p + j)) a 0) (b * j)) 0 (ap_nat (Z.of_nat s) 1 n)
                = 2 ^ (b * Z.of_nat s) * digits_val b (map (fun j => nth (p + s + j) a 0) (seq 0 n))).
  { induction n as [|n IH]; intros s; cbn [ap_nat fold_right seq map digits_val]; [lia|].
    replace (Z.of_nat s + 1) with (Z.of_nat (S s)) by lia. rewrite IH.
    rewrite Z.shiftl_mul_pow2 by nia. rewrite <- Nat2Z.inj_add, Nat2Z.id, Nat.add_0_r.
    rewrite <- seq_shift, map_map. rewrite Nat2Z.inj_succ.
    replace (b * Z.succ (Z.of_nat s)) with (b * Z.of_nat s + b) by lia. rewrite Z.pow_add_r by nia.
    rewrite (map_ext (fun x => nth (p + S s + x) a 0) (fun x => nth (p + s + S x) a 0)) by (intros; f_equal; lia). ring. }
  specialize (G (Z.to_nat w) 0%nat). cbn [Z.of_nat] in G. rewrite G. rewrite Z.mul_0_r, Z.pow_0_r, Z.mul_1_l.
  f_equal. apply map_ext. intros j. f_equal. lia.
Qed.

Section Window.
Variable a : list Z.
Variable b w : Z.
Hypothesis Hb : 1 <= b.
Hypothesis Hdiv : b * (W / b) = W.
Hypothesis Ha : Forall (digit_ok b) a.
Hypothesis Hw : 1 <= w.
Hypothesis Hwk : w * b <= W.                              (* at most one register per window *)
Let k : nat := Z.to_nat (W / b).
Let wn : nat := Z.to_nat w.

Lemma rev_shifts_char : map (fun s => s + b) (rev (shifts b)) = map (fun i => W - b * Z.of_nat i) (seq 0 k).
Proof.
  rewrite shifts_char. fold k. apply (nth_ext _ _ 0 0).
  - now rewrite !map_length, rev_length, !map_length.
  - intros i Hi. rewrite map_length, rev_length, map_length, seq_length in Hi.
    rewrite (nth_indep _ 0 (0 + b)) by (now rewrite map_length, rev_length, map_length, seq_length).
    rewrite (map_nth (fun s => s + b)). rewrite rev_nth by (now rewrite map_length, seq_length).
    rewrite map_length, seq_length. rewrite !nth_map_seq by lia.
    pose proof (bk b Hb Hdiv) as E. fold k in E.
    replace (Z.of_nat (k - S i)) with (Z.of_nat k - Z.of_nat i - 1) by lia. lia.
Qed.

Lemma win_row_char mask reg nxt :
  win_row b mask reg nxt = map (fun i => win_cell mask reg nxt (b * Z.of_nat i) (W - b * Z.of_nat i)) (seq 0 k).
Proof. unfold win_row. rewrite rev_shifts_char, shifts_char. fold k. apply map2_map. Qed.

Lemma col_split r : col a b r (k + k) = col a b r k ++ col a b (S r) k.
Proof.
  unfold col. fold k. rewrite seq_app, map_app. f_equal. cbn [Nat.add].
  rewrite <- (map_seq_shift b (fun i => nth (r * k + i) a 0) k k). apply map_ext. intros i. f_equal. lia.
Qed.

Lemma covers : (length a <= R a b * k)%nat.
Proof.
  destruct (Nat.le_gt_cases (length a) (R a b * k)) as [H|H]; [exact H|]. exfalso.
  assert (H1 : (R a b < length (strided a 0 k))%nat) by (apply (strided_length_iff a b Hb Hdiv); fold k; lia).
  unfold R in H1. fold k in H1. lia.
Qed.

Lemma col_beyond r : (R a b <= r)%nat -> digits_val b (col a b r k) = 0.
Proof.
  intros Hr. unfold col. fold k. pose proof covers as Hc.
  assert (G : forall n, digits_val b (map (fun i => nth (r * k + i) a 0) (seq 0 n)) = 0).
  { intros n. generalize 0%nat at 1. induction n as [|n IH]; intros s; [reflexivity|]. cbn [seq map digits_val].
    rewrite IH. rewrite nth_overflow by nia. lia. }
  apply G.
Qed.

(* one cell of the result *)
Lemma cell_correct r i : (i < k)%nat ->
  let data := ba_data (pack a b) in
  (r < R a b)%nat ->
  win_cell (2 ^ (w * b) - 1) (nth r data 0) (nth_error data (S r)) (b * Z.of_nat i) (W - b * Z.of_nat i)
  = spec_window a b w (Z.of_nat (r * k + i)).
Proof.
  intros Hi data Hr. pose proof (pack_registers a b Hb Hdiv Ha) as [Hl Hn]. fold k in Hl, Hn. fold data in Hl, Hn.
  pose proof (bk b Hb Hdiv) as Ebk. fold k in Ebk. pose proof (k_pos b Hb Hdiv) as Hk. fold k in Hk.
  set (M := digits_val b (col a b r (k + k))).
  pose proof (col_ok a b Hb Ha) as Hok.
  pose proof (digits_bound b (col a b r k) ltac:(lia) (Hok r k)) as B0. rewrite col_length, Ebk in B0.
  pose proof (digits_bound b (col a b (S r) k) ltac:(lia) (Hok (S r) k)) as B1. rewrite col_length, Ebk in B1.
  assert (EM : M = digits_val b (col a b r k) + 2 ^ W * digits_val b (col a b (S r) k)).
  { unfold M. rewrite col_split, digits_val_app by lia. now rewrite col_length, Ebk. }
  assert (HW : 0 < 2 ^ W) by (apply Bits.pow_pos; unfold W; lia).
  assert (E0 : M mod 2 ^ W = nth r data 0).
  { rewrite (Hn r Hr), EM. rewrite Z.mul_comm, Z.mod_add by lia. apply Z.mod_small. lia. }
  assert (E1 : (M / 2 ^ W) mod 2 ^ W = digits_val b (col a b (S r) k)).
  { rewrite EM. rewrite Z.mul_comm, Z.div_add by lia. rewrite Z.div_small by lia. rewrite Z.add_0_l. apply Z.mod_small. lia. }
  assert (Hcell : win_cell (2 ^ (w * b) - 1) (nth r data 0) (nth_error data (S r)) (b * Z.of_nat i) (W - b * Z.of_nat i)
                  = (M / 2 ^ (b * Z.of_nat i)) mod 2 ^ (w * b)).
  { rewrite <- (window_core M (b * Z.of_nat i) (w * b)); [| unfold M; lia | nia | nia].
    unfold win_cell. rewrite E0, E1.
    destruct (Nat.lt_ge_cases (S r) (R a b)) as [Hlt|Hge].
    - rewrite (nth_error_nth' _ 0) by (rewrite Hl; exact Hlt). now rewrite (Hn (S r) Hlt).
    - assert (Enone : nth_error data (S r) = None) by (apply nth_error_None; rewrite Hl; exact Hge).
      rewrite Enone, (col_beyond (S r) Hge), shl64_0, Z.lor_0_r. reflexivity. }
  rewrite Hcell. unfold M. replace (w * b) with (b * Z.of_nat wn) by (unfold wn; lia).
  rewrite digits_slice; [|lia|apply Hok|rewrite col_length; unfold wn; nia].
  rewrite spec_window_digits by lia. fold wn. f_equal.
  unfold col. fold k. rewrite skipn_map, firstn_map, skipn_seq0, firstn_seq0 by (unfold wn; nia).
  cbn [Nat.add]. rewrite <- (map_seq_shift b (fun j => nth (r * k + j) a 0) i wn). apply map_ext. intros j. f_equal. lia.
Qed.

Lemma ztake_map_seq (f : nat -> Z) n m : 0 <= n -> (Z.to_nat n <= m)%nat ->
  ztake n (map f (seq 0 m)) = map (fun p => f (Z.to_nat p)) (ap 0 n 1).
Proof.
  intros Hn Hm. unfold ztake, ap. rewrite firstn_map, firstn_seq0 by exact Hm. rewrite ap_nat_seq, map_map.
  apply map_ext. intros j. f_equal. lia.
Qed.

Theorem sliding_window_correct : sliding_window (pack a b) w = spec_windows a b w.
Proof.
  pose proof (pack_registers a b Hb Hdiv Ha) as [Hl Hn]. fold k in Hl, Hn.
  unfold sliding_window, spec_windows. change (ba_stride (pack a b)) with b. change (ba_len (pack a b)) with (zlen a).
  rewrite mask_eq by (unfold W in *; nia). rewrite win_go_flat, Hl.
  assert (Hflat : flat_map (fun r => win_row b (2 ^ (w * b) - 1) (nth r (ba_data (pack a b)) 0) (nth_error (ba_data (pack a b)) (S r))) (seq 0 (R a b))
                  = flat_map (fun r => map (fun i => spec_window a b w (Z.of_nat (r * k + i))) (seq 0 k)) (seq 0 (R a b))).
  { rewrite !flat_map_concat_map. f_equal. apply map_ext_in. intros r Hr. apply in_seq in Hr.
    rewrite win_row_char. apply map_ext_in. intros i Hi. apply in_seq in Hi. apply cell_correct; lia. }
  rewrite Hflat. pose proof (seq_flat b (R a b) (fun p => spec_window a b w (Z.of_nat p))) as Eflat.
  cbv beta in Eflat. fold k in Eflat. rewrite Eflat.
  destruct (Z.lt_ge_cases (zlen a - w + 1) 0) as [Hneg|Hpos].
  - unfold ztake, ap. replace (Z.to_nat (zlen a - w + 1)) with 0%nat by lia. reflexivity.
  - rewrite ztake_map_seq; [|lia|pose proof covers; unfold zlen in *; lia].
    apply map_ext_in. intros p Hp. f_equal. unfold ap in Hp. rewrite ap_nat_seq in Hp. apply in_map_iff in Hp as [j [<- _]]. lia.
Qed.
End Window.
Print Assumptions sliding_window_correct.
