From Coq Require Import ZifyBool.
From NPS Require Import ListAux PySlice NumpySem Scatter BuildIdx XorProof Denote RLE RLEOps RaOps SetItem ColProof ColSum SubsetProof SortProof SubRange UniqueProof.
Open Scope Z_scope.

(* C07 unique, the reported row lengths: prefix sums of the mask read at the row starts and at the row ends - 1
   (with the wrap-around of index -1 onto the overwritten last entry) give the number of distinct values of every row *)

Definition K (r : list Z) : Z := zsum (rowmarks r).
Definition M_of (S : list (list Z)) : list Z := concat (map rowmarks S) ++ [1].

Lemma rowmarks_len r : length (rowmarks r) = length r.
Proof. destruct r; [reflexivity|]. cbn [rowmarks length]. now rewrite gm_length. Qed.
Lemma marks_concat_len S : length (concat (map rowmarks S)) = length (concat S).
Proof. induction S as [|r S IH]; [reflexivity|]. cbn [map concat]. now rewrite !app_length, rowmarks_len, IH. Qed.
Lemma zsum_concat (L : list (list Z)) : zsum (concat L) = zsum (map zsum L).
Proof. induction L as [|l L IH]; [reflexivity|]. cbn [concat map zsum]. now rewrite zsum_app, IH. Qed.
Definition C (S1 : list (list Z)) : Z := zsum (map K S1).

(* marks strictly before the rows S2, and up to their first position *)
Lemma prefix_marks S1 S2 : firstn (length (concat S1)) (M_of (S1 ++ S2)) = concat (map rowmarks S1).
Proof.
  unfold M_of. rewrite map_app, concat_app, <- app_assoc, <- marks_concat_len.
  rewrite firstn_app, firstn_all, Nat.sub_diag. cbn [firstn]. apply app_nil_r.
Qed.
Lemma prefix_marks_S S1 S2 : firstn (S (length (concat S1))) (M_of (S1 ++ S2)) = concat (map rowmarks S1) ++ [1].
Proof.
  unfold M_of. rewrite map_app, concat_app, <- app_assoc, <- marks_concat_len.
  destruct (marks_head S2) as [tail HT]. rewrite HT.
  replace (S (length (concat (map rowmarks S1)))) with (length (concat (map rowmarks S1)) + 1)%nat by lia.
  rewrite firstn_app_2. reflexivity.
Qed.
Lemma C_char S1 : zsum (concat (map rowmarks S1)) = C S1.
Proof. unfold C, K. now rewrite zsum_concat, map_map. Qed.

Lemma K_char r : K r = zlen (dedup_sorted r).
Proof.
  unfold K. destruct r as [|x t]; [reflexivity|]. cbn [rowmarks zsum].
  assert (G : forall t p, zsum (gm (Some p) t) = zlen (kf p t)).
  { induction t0 as [|y t0 IH]; intros p; [reflexivity|]. cbn [gm zsum kf]. unfold neq01. destruct (p =? y); rewrite IH; unfold zlen; cbn [length]; lia. }
  rewrite G. unfold zlen. rewrite <- (map_length fst (dedup_sorted (x :: t))), dedup_values. cbn [length]. lia.
Qed.

Section Lens.
Variable Rs : list (list Z).
Let M := M_of Rs.
Let n := zlen (concat Rs).
Let total := cumsum M.
Let total' := set_last total 0.

Lemma M_len : length M = S (length (concat Rs)).
Proof. unfold M, M_of. rewrite app_length, marks_concat_len. cbn. lia. Qed.
Lemma total_at p : (p < length M)%nat -> nth p total 0 = zsum (firstn (S p) M).
Proof. intros H. unfold total, cumsum. rewrite cumsum_from_nth by exact H. lia. Qed.
Lemma total_len : length total = length M.
Proof. unfold total, cumsum. generalize 0. induction M as [|x l IH]; intros a; cbn; auto. Qed.
Lemma total'_low p : (p < length (concat Rs))%nat -> nth p total' 0 = nth p total 0.
Proof.
  intros H. unfold total', set_last. pose proof total_len as HL. rewrite M_len in HL.
  destruct total as [|t0 tl_] eqn:E; [cbn in HL; lia|]. rewrite <- E in *.
  rewrite removelast_firstn_len. rewrite app_nth1 by (rewrite firstn_length, HL; lia).
  apply nth_firstn_lt'. rewrite HL. cbn. lia.
Qed.
End Lens.

Definition tot (Rs : list (list Z)) : list Z := cumsum (M_of Rs).
Definition tot' (Rs : list (list Z)) : list Z := set_last (tot Rs) 0.

Lemma tot'_last Rs : nth (length (concat Rs)) (tot' Rs) 0 = 0.
Proof.
  unfold tot', set_last. pose proof (total_len Rs) as HL. rewrite M_len in HL. fold (tot Rs) in HL.
  destruct (tot Rs) as [|t0 tl_] eqn:E; [cbn in HL; lia|]. rewrite <- E in *.
  assert (Hr : length (removelast (tot Rs)) = length (concat Rs)) by (rewrite removelast_firstn_len, firstn_length, HL; cbn; lia).
  rewrite <- Hr. rewrite app_nth2 by lia. now rewrite Nat.sub_diag.
Qed.
Lemma tot'_len Rs : zlen (tot' Rs) = zlen (concat Rs) + 1.
Proof.
  unfold tot', set_last. pose proof (total_len Rs) as HL. rewrite M_len in HL. fold (tot Rs) in HL.
  destruct (tot Rs) as [|t0 tl_] eqn:E; [cbn in HL; lia|]. rewrite <- E in *. unfold zlen.
  rewrite app_length, removelast_firstn_len, firstn_length, HL. cbn. lia.
Qed.

Lemma C_app S1 r : C (S1 ++ [r]) = C S1 + K r.
Proof. unfold C. rewrite map_app, zsum_app. cbn. lia. Qed.

Lemma lens_rows : forall S2 S1,
  let Rs := S1 ++ S2 in let a := zlen (concat S1) in let ls := map zlen S2 in
  map2 Z.sub (map (fun e => wrap_get (tot' Rs) (e - 1)) (map2 Z.add (excl_from a ls) ls))
             (map (fun s => zznth (tot Rs) s - 1) (excl_from a ls)) = map K S2.
Proof.
  induction S2 as [|r S2 IH]; intros S1; cbn zeta; [reflexivity|].
  cbn [map excl_from map2]. f_equal.
  - (* this row *)
    set (Rs := S1 ++ r :: S2).
    assert (Hn : (length (concat S1) + length r <= length (concat Rs))%nat).
    { unfold Rs. rewrite concat_app. cbn [concat]. rewrite !app_length. lia. }
    assert (Hstart : zznth (tot Rs) (zlen (concat S1)) = C S1 + 1).
    { unfold zznth, zlen. rewrite Nat2Z.id. unfold tot. rewrite (total_at Rs) by (rewrite M_len; lia).
      unfold Rs. rewrite prefix_marks_S, zsum_app, C_char. cbn. lia. }
    rewrite Hstart.
    assert (Ers : Rs = (S1 ++ [r]) ++ S2) by (unfold Rs; now rewrite <- app_assoc).
    assert (Hcat : length (concat (S1 ++ [r])) = (length (concat S1) + length r)%nat) by (rewrite concat_app; cbn [concat]; rewrite !app_length; cbn; lia).
    assert (Hend : wrap_get (tot' Rs) (zlen (concat S1) + zlen r - 1) = C (S1 ++ [r])).
    { unfold wrap_get. destruct (zlen (concat S1) + zlen r - 1 <? 0) eqn:Eneg.
      - (* nothing before the end of this row: index -1 wraps onto the overwritten last entry *)
        assert (H0 : length (concat S1) = 0%nat /\ length r = 0%nat) by (unfold zlen in Eneg; lia). destruct H0 as [H1 H2].
        rewrite tot'_len. unfold zznth. replace (Z.to_nat (zlen (concat Rs) + 1 + (zlen (concat S1) + zlen r - 1))) with (length (concat Rs)) by (unfold zlen; lia).
        rewrite tot'_last. symmetry. rewrite <- C_char.
        assert (Hnil : concat (map rowmarks (S1 ++ [r])) = []) by (apply length_zero_iff_nil; rewrite marks_concat_len, Hcat; lia).
        now rewrite Hnil.
      - unfold zznth. replace (Z.to_nat (zlen (concat S1) + zlen r - 1)) with (length (concat S1) + length r - 1)%nat by (unfold zlen in *; lia).
        unfold tot'. rewrite (total'_low Rs) by (unfold zlen in Eneg; lia).
        rewrite (total_at Rs) by (rewrite M_len; unfold zlen in Eneg; lia).
        replace (S (length (concat S1) + length r - 1)) with (length (concat (S1 ++ [r]))) by (rewrite Hcat; unfold zlen in Eneg; lia).
        rewrite Ers, prefix_marks. apply C_char. }
    rewrite Hend, C_app. lia.
  - (* the later rows *)
    specialize (IH (S1 ++ [r])). cbn zeta in IH. rewrite <- app_assoc in IH. cbn [app] in IH.
    replace (zlen (concat (S1 ++ [r]))) with (zlen (concat S1) + zlen r) in IH by (unfold zlen; rewrite concat_app; cbn [concat]; rewrite !app_length; cbn; lia).
    exact IH.
Qed.

Theorem unique_lens (Rs : list (list Z)) :
  let starts := excl_prefix (map zlen Rs) in
  map2 Z.sub (map (fun e => wrap_get (tot' Rs) (e - 1)) (map2 Z.add starts (map zlen Rs))) (map (fun s => zznth (tot Rs) s - 1) starts)
  = map (fun r => zlen (dedup_sorted r)) Rs.
Proof.
  cbn zeta. pose proof (lens_rows Rs []) as H. cbn zeta in H. cbn [app concat] in H. change (zlen (@nil Z)) with 0 in H.
  unfold excl_prefix. rewrite H. apply map_ext. intros r. apply K_char.
Qed.
Print Assumptions unique_lens.

(* ---- the whole of np.unique(ra, axis=-1, return_counts=True) ---- *)
Theorem unique_correct (R : list (list Z)) :
  ra_unique (fr_of_rows R) = Ok (fr_of_rows (fst (spec_unique R)), fr_of_rows (snd (spec_unique R))).
Proof.
  unfold ra_unique. unfold fr_of_rows at 1.
  set (U := map (fun r => dedup_sorted r) (spec_sort R)).
  assert (Hu1 : fst (spec_unique R) = map (map fst) U).
  { unfold U, spec_unique, spec_sort. cbv zeta. cbn [fst]. rewrite !map_map. reflexivity. }
  assert (Hu2 : snd (spec_unique R) = map (map snd) U).
  { unfold U, spec_unique, spec_sort. cbv zeta. cbn [snd]. rewrite !map_map. reflexivity. }
  assert (Hz1 : map zlen (map (map fst) U) = map (fun r => zlen (dedup_sorted r)) (spec_sort R)).
  { unfold U. rewrite !map_map. apply map_ext. intros r. unfold zlen. now rewrite map_length. }
  assert (Hz2 : map zlen (map (map snd) U) = map (fun r => zlen (dedup_sorted r)) (spec_sort R)).
  { unfold U. rewrite !map_map. apply map_ext. intros r. unfold zlen. now rewrite map_length. }
  unfold fr_of_rows. rewrite Hu1, Hu2, Hz1, Hz2.
  destruct (zsum (map zlen R) =? 0) eqn:Ez.
  - assert (Hd : concat R = []).
    { apply Z.eqb_eq in Ez. rewrite zsum_map_zlen in Ez. destruct (concat R); [reflexivity|unfold zlen in Ez; cbn in Ez; lia]. }
    assert (Hall : Forall (fun r => r = []) R).
    { clear - Hd. induction R as [|r R IH]; [constructor|]. cbn [concat] in Hd. apply app_eq_nil in Hd as [H1 H2]. constructor; auto. }
    rewrite Hd. unfold U. clear - Hall.
    assert (E : concat (map (map fst) (map (fun r => dedup_sorted r) (spec_sort R))) = []
                /\ concat (map (map snd) (map (fun r => dedup_sorted r) (spec_sort R))) = []
                /\ map (fun r => zlen (dedup_sorted r)) (spec_sort R) = map zlen R).
    { induction Hall as [|r R Hr _ IH]; [repeat split|]. subst r. destruct IH as (I1 & I2 & I3). cbn. repeat split; try assumption. now f_equal. }
    destruct E as (E1 & E2 & E3). now rewrite E1, E2, E3.
  - change (concat R, map zlen R) with (fr_of_rows R). rewrite sort_correct. cbn [rbind]. unfold fr_of_rows. cbn [fst snd].
    set (S := spec_sort R) in *.
    assert (Hl : map zlen S = map zlen R).
    { unfold S, spec_sort. rewrite map_map. apply map_ext. intros r. unfold zlen. now rewrite map_length, sort_length, map_length. }
    assert (Hne : concat S <> []).
    { intros E. apply Z.eqb_neq in Ez. apply Ez. rewrite <- Hl, zsum_map_zlen, E. reflexivity. }
    change (fun x y : Z => if x =? y then 0 else 1) with neq01. rewrite (m0_char (concat S) Hne).
    change (fun b : Z => negb (b =? 0)) with nzb. rewrite <- Hl.
    pose proof (force_starts S None) as Hm. cbn zeta in Hm. unfold excl_prefix in *. rewrite Hm.
    fold (M_of S). fold (tot S). fold (tot' S).
    pose proof (unique_lens S) as HL. cbn zeta in HL. unfold excl_prefix in HL. rewrite HL.
    assert (A1 : mask_filter (concat S) (map nzb (removelast (M_of S))) = concat (map (map fst) U)).
    { unfold M_of. rewrite removelast_last, concat_map. rewrite mask_filter_concat.
      - unfold U. fold S. rewrite !map_map. f_equal. generalize S as T. intros T. induction T as [|r T IH]; [reflexivity|]. cbn [map map2]. now rewrite keep_row, IH.
      - unfold same_shape. rewrite !map_map. apply map_ext. intros r. rewrite map_length. now rewrite rowmarks_len. }
    assert (A2 : diff1 (flatnonzero (map nzb (M_of S))) = concat (map (map snd) U)).
    { unfold U, M_of, flatnonzero. fold S. rewrite map_map. apply unique_mask_counts. }
    rewrite A1, A2. reflexivity.
Qed.
Print Assumptions unique_correct.
