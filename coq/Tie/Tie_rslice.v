From Coq Require Import ZArith Bool List Lia ZifyBool.
From NPS Require Import ListAux PySlice NumpySem BuildIdx RaOps Kernels K_rslice.
Import ListNotations.
Open Scope Z_scope.
(* Tie 1 for C08 (ragged_slice): the per-row arithmetic of raggedslice.py, re-translated from the CURRENT source, is the arithmetic of
   Model/RaOps.v ra_ragged_slice (the lambdas below are that definition's, verbatim); the defaults starts=None / ends=None equal the
   explicit bounds 0 / row length, so that the theorem about explicit bounds (ragged_slice_correct) covers them. *)
Ltac same := match goal with |- ?a = ?a => reflexivity | |- _ => solve [lia] | |- _ => f_equal; same end.

Lemma tie_rslice_row bs be s e :
  gen_rslice_row bs be (Some s) (Some e) =
  (let st := Z.add bs s in
   let en := (fun e p => if e <? 0 then snd p + e else Z.min (fst p + e) (snd p)) e (bs, be) in
   (st, (fun e s => Z.max (e - s) 0) en st)).
Proof. unfold gen_rslice_row. cbv zeta beta. cbn [fst snd]. brk; same. Qed.

(* starts=None is "from the first element of the row" *)
Lemma tie_rslice_default_start bs be e : gen_rslice_row bs be None (Some e) = gen_rslice_row bs be (Some 0) (Some e).
Proof. unfold gen_rslice_row. cbv zeta. brk; same. Qed.
(* ends=None is "to the last element of the row" (base_ends - base_starts is the row's length) *)
Lemma tie_rslice_default_end bs be s : bs <= be -> gen_rslice_row bs be (Some s) None = gen_rslice_row bs be (Some s) (Some (be - bs)).
Proof. intros H. unfold gen_rslice_row. cbv zeta. brk; same. Qed.
Lemma tie_rslice_default_both bs be : bs <= be -> gen_rslice_row bs be None None = gen_rslice_row bs be (Some 0) (Some (be - bs)).
Proof. intros H. unfold gen_rslice_row. cbv zeta. brk; same. Qed.

(* the whole vectors handed to RaggedView by ra_ragged_slice are the kernel applied row by row *)
Lemma tie_rslice_rows : forall (bs lens starts ends : list Z), length lens = length bs -> length starts = length bs -> length ends = length bs ->
  let be := map2 Z.add bs lens in
  let st := map2 Z.add bs starts in
  let en := map2 (fun e p => if e <? 0 then snd p + e else Z.min (fst p + e) (snd p)) ends (combine bs be) in
  let lens' := map2 (fun e s => Z.max (e - s) 0) en st in
  combine st lens' = map2 (fun bb se => gen_rslice_row (fst bb) (snd bb) (Some (fst se)) (Some (snd se))) (combine bs be) (combine starts ends).
Proof.
  induction bs as [|b bs IH]; intros [|l lens] [|s starts] [|e ends] H1 H2 H3; cbn in H1, H2, H3; try discriminate; [reflexivity|].
  cbn zeta in *. cbn [map2 combine fst snd]. f_equal; [|apply IH; lia].
  rewrite tie_rslice_row. reflexivity.
Qed.
