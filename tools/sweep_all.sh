#!/bin/sh
# mutation sweep over every source file, a few files at a time (self-validation; run from a snapshot with `vp run`)
cd "$(dirname "$0")/.."
[ -x oracle/oracle ] || ./setup.sh
LIMIT=${1:-50}
mkdir -p selftest
run() { /venv/bin/python tools/mutation_sweep.py "$1" "$2" "$LIMIT" > "selftest/sweep_$(echo $1 | tr '/' '_' | sed 's/.py$//').log" 2>&1; }
run npstructures/bitarray.py C13 &
run npstructures/hashtable.py C11,C12 &
run npstructures/npdataclasses.py C18 &
run npstructures/util.py C14,C07,C16 &
wait
run npstructures/runlengtharray.py C15,C14,C16,C17 &
run npstructures/raggedshape.py C02,C03,C06,C01,C12,C19 &
run npstructures/raggedarray/__init__.py C05,C04,C07,C09,C01,C08 &
wait
run npstructures/raggedarray/indexablearray.py C02,C03,C06,C08,C09 &
run npstructures/raggedarray/base.py C06,C10,C01 &
run npstructures/raggedarray/raggedslice.py C08,C15 &
run npstructures/arrayfunctions.py C07,C08,C05 &
run npstructures/mixin.py C08,C15 &
wait
tail -n 1 selftest/sweep_*.log
