(* C10 — property theorems only: each restates the full statement and is closed by the lemma proved in Proofs/. *)
From Coq Require Import ZArith List Bool.
From NPS Require Import ListAux PySlice NumpySem Scatter BuildIdx XorBroadcast View Index Assign Reduce Scan RaOps Heap Hash HashRun BitArr RLE RLEOps RLE2d DataClass RowsSpec AssignSpec MapSpec Denote HeapProof HeapRun HeapRunProof.
Import ListNotations.
Open Scope Z_scope.

Theorem C10_run_sim :
  forall (A : Type) (dflt : A) (sel : Type)
         (apply_sel : forall X : Type, sel -> list (list X) -> list (list X)),
       (forall (X Y : Type) (f : X -> Y) (s : sel) (r : list (list X)),
        apply_sel Y s (map (map f) r) = map (map f) (apply_sel X s r)) ->
       forall (ops : list (op A sel)) (h : heap A) (vs : list (list (list A))),
       Inv A dflt h vs ->
       safe_run A dflt sel apply_sel h ops ->
       run A dflt sel apply_sel h ops = vrun A dflt sel apply_sel vs ops.
Proof. exact run_sim. Qed.
Print Assumptions C10_run_sim.

Theorem C10_C10_partial :
  forall (A : Type) (dflt : A) (sel : Type)
         (apply_sel : forall X : Type, sel -> list (list X) -> list (list X)),
       (forall (X Y : Type) (f : X -> Y) (s : sel) (r : list (list X)),
        apply_sel Y s (map (map f) r) = map (map f) (apply_sel X s r)) ->
       forall (ops : list (op A sel)) (i x : nat),
       (i <= length ops)%nat ->
       safe_run A dflt sel apply_sel (empty_heap A) ops ->
       safe_run A dflt sel apply_sel (empty_heap A) (insert_read A sel i x ops) ->
       let out := run A dflt sel apply_sel (empty_heap A) ops in
       let out' := run A dflt sel apply_sel (empty_heap A) (insert_read A sel i x ops) in
       firstn i out' = firstn i out /\ skipn (S i) out' = skipn i out.
Proof. exact C10_partial. Qed.
Print Assumptions C10_C10_partial.

Theorem C10_apply_hsel_natural :
  forall (X Y : Type) (f : X -> Y) (s : hsel) (r : list (list X)),
       apply_hsel Y s (map (map f) r) = map (map f) (apply_hsel X s r).
Proof. exact apply_hsel_natural. Qed.
Print Assumptions C10_apply_hsel_natural.

Theorem C10_safe_runb_iff :
  forall (A : Type) (dflt : A) (sel : Type)
         (apply_sel : forall X : Type, sel -> list (list X) -> list (list X)) (ops : list (op A sel))
         (h : heap A), safe_runb A dflt sel apply_sel h ops = true <-> safe_run A dflt sel apply_sel h ops.
Proof. exact safe_runb_iff. Qed.
Print Assumptions C10_safe_runb_iff.

Theorem C10_C10_partial_concrete :
  forall (A : Type) (dflt : A) (ops : list (op A hsel)) (i x : nat),
       (i <= length ops)%nat ->
       safe_runb A dflt hsel apply_hsel (empty_heap A) ops = true ->
       safe_runb A dflt hsel apply_hsel (empty_heap A) (insert_read A hsel i x ops) = true ->
       let out := run A dflt hsel apply_hsel (empty_heap A) ops in
       let out' := run A dflt hsel apply_hsel (empty_heap A) (insert_read A hsel i x ops) in
       firstn i out' = firstn i out /\ skipn (S i) out' = skipn i out.
Proof. exact C10_partial_concrete. Qed.
Print Assumptions C10_C10_partial_concrete.

Theorem C10_heap_run_is_value_semantics :
  forall (A : Type) (dflt : A) (ops : list (op A hsel)),
       safe_runb A dflt hsel apply_hsel (empty_heap A) ops = true ->
       run A dflt hsel apply_hsel (empty_heap A) ops = vrun A dflt hsel apply_hsel [] ops.
Proof. exact heap_run_is_value_semantics. Qed.
Print Assumptions C10_heap_run_is_value_semantics.

Theorem C10_C10_refuted :
  exists (ops : list (op Z hsel)) (i x : nat),
         (i <= length ops)%nat /\
         skipn (S i) (run Z 0 hsel apply_hsel (empty_heap Z) (insert_read Z hsel i x ops)) <>
         skipn i (run Z 0 hsel apply_hsel (empty_heap Z) ops).
Proof. exact C10_refuted. Qed.
Print Assumptions C10_C10_refuted.
