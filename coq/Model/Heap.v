From Coq Require Import List Arith Bool Lia.
Import ListNotations.

(* C10 prototype: lazy views share the parent's buffer until first read.
   Geometry is abstracted: a view is a list of rows of buffer positions; a selection is any
   function on lists of rows that is natural in the element type (row/column selection is). *)
Section Heap.
Variable A : Type.
Variable dflt : A.

Definition prow := list nat.
Record arr := { a_buf : nat ; a_rows : list prow ; a_contig : bool }.
Record heap := { bufs : list (list A) ; arrs : list arr }.

(* selections: index into a fixed family, natural in the element type *)
Variable sel : Type.
Variable apply_sel : forall X : Type, sel -> list (list X) -> list (list X).
Hypothesis apply_sel_natural : forall X Y (f : X -> Y) s r,
  apply_sel Y s (map (map f) r) = map (map f) (apply_sel X s r).

Inductive op :=
| OBuild (r : list (list A))
| OSelect (x : nat) (s : sel)          (* b = a[s]   : lazy, shares the buffer *)
| ORead (x : nat)                      (* repr / tolist / ravel / ufunc ... : materialises, returns content *)
| OAssign (x : nat) (s : sel) (v : A). (* a[s] = v : materialises a, then writes into a's buffer *)

Definition get_buf (h : heap) (b : nat) : list A := nth b (bufs h) [].
Definition get_arr (h : heap) (x : nat) : option arr := nth_error (arrs h) x.
Definition content_arr (h : heap) (a : arr) : list (list A) :=
  map (map (fun p => nth p (get_buf h (a_buf a)) dflt)) (a_rows a).
Definition content (h : heap) (x : nat) : option (list (list A)) :=
  option_map (content_arr h) (get_arr h x).

(* consecutive positions for rows of the given lengths *)
Fixpoint consec (from : nat) (lens : list nat) : list prow :=
  match lens with [] => [] | l :: ls => seq from l :: consec (from + l) ls end.

Fixpoint set_nth {X} (l : list X) (n : nat) (v : X) : list X :=
  match l, n with [] , _ => [] | _ :: r, O => v :: r | x :: r, S n' => x :: set_nth r n' v end.

Definition materialise (h : heap) (x : nat) : heap :=
  match get_arr h x with
  | None => h
  | Some a =>
      if a_contig a then h else
      let c := content_arr h a in
      let nb := length (bufs h) in
      {| bufs := bufs h ++ [concat c] ;
         arrs := set_nth (arrs h) x {| a_buf := nb ; a_rows := consec 0 (map (@length A) c) ; a_contig := true |} |}
  end.

Definition write_positions (b : list A) (ps : list nat) (v : A) : list A :=
  fold_left (fun b p => set_nth b p v) ps b.

Definition step (h : heap) (o : op) : heap * option (list (list A)) :=
  match o with
  | OBuild r =>
      ({| bufs := bufs h ++ [concat r] ;
          arrs := arrs h ++ [{| a_buf := length (bufs h) ; a_rows := consec 0 (map (@length A) r) ; a_contig := true |}] |}, None)
  | OSelect x s =>
      match get_arr h x with
      | None => (h, None)
      | Some a => ({| bufs := bufs h ;
                      arrs := arrs h ++ [{| a_buf := a_buf a ; a_rows := apply_sel nat s (a_rows a) ; a_contig := false |}] |}, None)
      end
  | ORead x => let h' := materialise h x in (h', content h' x)
  | OAssign x s v =>
      let h' := materialise h x in
      match get_arr h' x with
      | None => (h', None)
      | Some a =>
          let ps := concat (apply_sel nat s (a_rows a)) in
          ({| bufs := set_nth (bufs h') (a_buf a) (write_positions (get_buf h' (a_buf a)) ps v) ; arrs := arrs h' |}, None)
      end
  end.

Fixpoint run (h : heap) (ops : list op) : list (option (list (list A))) :=
  match ops with [] => [] | o :: r => let '(h', out) := step h o in out :: run h' r end.

(* ---------- value semantics ---------- *)
Definition vstate := list (list (list A)).
Definition assign_val (c : list (list A)) (s : sel) (v : A) : list (list A) :=
  let pos := consec 0 (map (@length A) c) in
  let nb := write_positions (concat c) (concat (apply_sel nat s pos)) v in
  map (map (fun p => nth p nb dflt)) pos.

Definition vstep (vs : vstate) (o : op) : vstate * option (list (list A)) :=
  match o with
  | OBuild r => (vs ++ [r], None)
  | OSelect x s => match nth_error vs x with None => (vs, None) | Some c => (vs ++ [apply_sel A s c], None) end
  | ORead x => (vs, nth_error vs x)
  | OAssign x s v => match nth_error vs x with None => (vs, None) | Some c => (set_nth vs x (assign_val c s v), None) end
  end.
Fixpoint vrun (vs : vstate) (ops : list op) : list (option (list (list A))) :=
  match ops with [] => [] | o :: r => let '(vs', out) := vstep vs o in out :: vrun vs' r end.

(* ---------- safety: no write into a buffer that another array still names ---------- *)
Definition unshared (h : heap) (x : nat) : Prop :=
  forall a, get_arr h x = Some a -> forall y b, y <> x -> get_arr h y = Some b -> a_buf b <> a_buf a.
Definition safe_op (h : heap) (o : op) : Prop :=
  match o with OAssign x _ _ => unshared (materialise h x) x | _ => True end.
Fixpoint safe_run (h : heap) (ops : list op) : Prop :=
  match ops with [] => True | o :: r => safe_op h o /\ safe_run (fst (step h o)) r end.

Definition empty_heap : heap := {| bufs := [] ; arrs := [] |}.
End Heap.

(* ---- the refuting witness of C10 (matches the real code: [[99,99],[5]] vs [[3,4],[5]]) ---- *)
Inductive rsel := RowSlice (from to : nat) | Row (i : nat).
Definition apply_rsel (X : Type) (s : rsel) (r : list (list X)) : list (list X) :=
  match s with RowSlice a b => firstn (b - a) (skipn a r) | Row i => firstn 1 (skipn i r) end.

Definition prog (with_read : bool) : list (op nat rsel) :=
  [OBuild nat rsel [[0;1;2];[3;4];[5];[6;7]]; OSelect nat rsel 0 (RowSlice 1 3)]
  ++ (if with_read then [ORead nat rsel 1] else [])
  ++ [OAssign nat rsel 0 (Row 1) 99; ORead nat rsel 1].

Example C10_refuted_witness :
  last (run nat 0 rsel apply_rsel (empty_heap nat) (prog false)) None = Some [[99;99];[5]] /\
  last (run nat 0 rsel apply_rsel (empty_heap nat) (prog true)) None = Some [[3;4];[5]].
Proof. split; vm_compute; reflexivity. Qed.
