(* C04 — property theorems only: each restates the full statement and is closed by the lemma proved in Proofs/. *)
From Coq Require Import ZArith List Bool.
From NPS Require Import ListAux PySlice NumpySem Scatter BuildIdx XorBroadcast View Index Assign Reduce Scan RaOps Heap Hash HashRun BitArr RLE RLEOps RLE2d DataClass RowsSpec AssignSpec MapSpec Denote UfuncProof XorProof.
Import ListNotations.
Open Scope Z_scope.

Theorem C04_ufunc2_correct :
  forall (A B C : Type) (bzero : B) (bxor : B -> B -> B),
       (forall a b c : B, bxor a (bxor b c) = bxor (bxor a b) c) ->
       (forall a b : B, bxor a b = bxor b a) ->
       (forall a : B, bxor a a = bzero) ->
       (forall a : B, bxor bzero a = a) ->
       forall (f : A -> B -> C) (R : list (list A)) (y : operand B),
       operand_wf B y -> rmap fr_rows (ufunc2 A B C bzero bxor f (fr_of_rows R) y) = spec_ufunc2 A B C f R y.
Proof. exact ufunc2_correct. Qed.
Print Assumptions C04_ufunc2_correct.

Theorem C04_raw_broadcast_correct :
  forall (G : Type) (zero : G) (xor : G -> G -> G),
       (forall a b c : G, xor a (xor b c) = xor (xor a b) c) ->
       (forall a b : G, xor a b = xor b a) ->
       (forall a : G, xor a a = zero) ->
       (forall a : G, xor zero a = a) ->
       forall (vals : list G) (ls : list Z),
       length vals = length ls ->
       all_nonneg ls -> raw_broadcast G zero xor vals ls = spec_broadcast G vals ls.
Proof. exact raw_broadcast_correct. Qed.
Print Assumptions C04_raw_broadcast_correct.
