From NPS Require Import ListAux PySlice Scatter BuildIdx XorProof Reduce.
Open Scope Z_scope.

Section RP.
Variable A : Type.
Variable dflt : A.
Variable op : A -> A -> A.
Notation zslice := (zslice A).
Notation fold1 := (fold1 A dflt op).
Notation reduceat_aux := (reduceat_aux A dflt op).
Notation reduceat := (reduceat A dflt op).
Notation fold_row := (fold_row A op).

(* every segment of reduceat over the row starts ends where the row ends, also the last one *)
Lemma reduceat_rows d : forall ls acc, acc + zsum ls = zlen d ->
  reduceat_aux d (excl_from acc ls)
  = map2 (fun s l => if s <? s + l then fold1 (zslice d s (s + l)) else znth dflt d s) (excl_from acc ls) ls.
Proof.
  induction ls as [|l ls IH]; intros acc H; [reflexivity|].
  cbn [excl_from Reduce.reduceat_aux map2 zsum] in *. f_equal.
  - destruct ls as [|l' ls']; cbn [excl_from zsum] in *.
    + replace (zlen d) with (acc + l) by lia. reflexivity.
    + reflexivity.
  - apply IH. lia.
Qed.

Lemma segments_zslice (d : list A) : forall ls acc, all_nonneg ls -> 0 <= acc ->
  segments (zdrop acc d) ls = map2 (fun s l => zslice d s (s + l)) (excl_from acc ls) ls.
Proof.
  induction ls as [|l ls IH]; intros acc Hnn Hacc; [reflexivity|].
  inversion Hnn as [|? ? Hl Hnn']; subst.
  cbn [segments excl_from map2]. f_equal.
  - unfold Reduce.zslice. f_equal. lia.
  - rewrite <- IH by (assumption || lia). f_equal. apply zdrop_zdrop; lia.
Qed.

Lemma fold_row_fold1 e r : r <> [] -> fold_row e r = fold1 r.
Proof. destruct r; [congruence|reflexivity]. Qed.

Lemma zslice_nil_iff d s l : 0 <= s -> 0 <= l -> s + l <= zlen d -> (zslice d s (s + l) = [] <-> l = 0).
Proof.
  intros Hs Hl Hb. unfold Reduce.zslice, ztake, zdrop. replace (s + l - s) with l by lia. split.
  - intros E. apply (f_equal (@length A)) in E. rewrite firstn_length, skipn_length in E. cbn in E. unfold zlen in Hb. lia.
  - intros ->. reflexivity.
Qed.

(* patched reduceat over all starts = per-row folds *)
Lemma patched_rows e d : forall ls acc, all_nonneg ls -> 0 <= acc -> acc + zsum ls = zlen d ->
  map2 (fun l v => if l =? 0 then e else v) ls
    (map2 (fun s l => if s <? s + l then fold1 (zslice d s (s + l)) else znth dflt d s) (excl_from acc ls) ls)
  = map (fold_row e) (segments (zdrop acc d) ls).
Proof.
  induction ls as [|l ls IH]; intros acc Hnn Hacc H; [reflexivity|].
  inversion Hnn as [|? ? Hl Hnn']; subst. cbn [zsum] in H.
  pose proof (zsum_nonneg ls Hnn') as Hs.
  cbn [excl_from map2 segments map]. f_equal.
  - destruct (l =? 0) eqn:E.
    + apply Z.eqb_eq in E. subst l. reflexivity.
    + apply Z.eqb_neq in E. replace (acc <? acc + l) with true by (symmetry; apply Z.ltb_lt; lia).
      assert (Hne : ztake l (zdrop acc d) <> []).
      { intros C. apply (f_equal (@length A)) in C. unfold ztake, zdrop in C.
        rewrite firstn_length, skipn_length in C. cbn in C. unfold zlen in H. lia. }
      rewrite fold_row_fold1 by exact Hne. unfold Reduce.zslice. do 2 f_equal. lia.
  - rewrite IH by (assumption || lia). do 2 f_equal. symmetry. apply zdrop_zdrop; lia.
Qed.

Lemma last_bounds ls : ls <> [] -> all_nonneg ls -> 0 <= last ls 1 <= zsum ls.
Proof.
  induction ls as [|x xs IH]; intros Hne Hnn; [congruence|]. inversion Hnn as [|? ? Hx Hxs]; subst.
  destruct xs as [|y ys]; [cbn; lia|].
  specialize (IH ltac:(congruence) Hxs). cbn [last zsum] in *. lia.
Qed.

Lemma starts_valid (d : list A) ls acc : all_nonneg ls -> 0 <= acc -> acc + zsum ls = zlen d -> last ls 1 <> 0 ->
  forallb (fun i => (0 <=? i) && (i <? zlen d)) (excl_from acc ls) = true.
Proof.
  intros Hnn; revert acc; induction Hnn as [|l ls Hl Hnn IH]; intros acc Hacc H Hlast; [reflexivity|].
  cbn [zsum] in H. pose proof (zsum_nonneg ls Hnn) as Hs.
  cbn [excl_from forallb]. apply andb_true_iff. split.
  - destruct ls as [|l' ls']; cbn [last zsum] in *; apply andb_true_iff; split; try (apply Z.leb_le; lia); apply Z.ltb_lt.
    + lia.
    + pose proof (last_bounds (l' :: ls') ltac:(congruence) Hnn) as Hb.
      cbn [last zsum] in *. lia.
  - destruct ls as [|l' ls']; [reflexivity|]. apply IH; [lia|lia|exact Hlast].
Qed.

Lemma last_snoc {X} (l : list X) x d : last (l ++ [x]) d = x.
Proof. apply last_last. Qed.

Lemma repeat_snoc {X} (x : X) n : repeat x n ++ [x] = repeat x (S n).
Proof. induction n as [|n IH]; [reflexivity|]. cbn [repeat app]. f_equal. exact IH. Qed.

Lemma trailing_zeros_decomp ls : zsum ls <> 0 -> last ls 1 = 0 ->
  exists ls1 m, ls = ls1 ++ repeat 0 m /\ (1 <= m)%nat /\ ls1 <> [] /\ last ls1 1 <> 0.
Proof.
  induction ls as [|x ls IH] using rev_ind; intros Hs Hl; [cbn in Hs; lia|].
  rewrite last_snoc in Hl. subst x. rewrite zsum_app in Hs. cbn [zsum] in Hs.
  destruct (Z.eq_dec (last ls 1) 0) as [E|E].
  - destruct (IH ltac:(lia) E) as (ls1 & m & -> & Hm & Hne & Hlast).
    exists ls1, (S m). rewrite <- app_assoc, repeat_snoc. repeat split; auto; lia.
  - exists ls, 1%nat. repeat split; auto. intros ->. cbn in Hs. lia.
Qed.

Lemma excl_from_zeros acc m : excl_from acc (repeat 0 m) = repeat acc m.
Proof. revert acc; induction m as [|m IH]; intros acc; cbn; [reflexivity|]. f_equal. rewrite IH. f_equal. lia. Qed.
Lemma zsum_zeros m : zsum (repeat 0 m) = 0.
Proof. induction m; cbn [repeat zsum]; lia. Qed.
Lemma segments_zeros (d : list A) m : segments d (repeat 0 m) = repeat [] m.
Proof. revert d; induction m as [|m IH]; intros d; cbn; [reflexivity|]. f_equal. apply IH. Qed.
Lemma segments_app (d : list A) a b : all_nonneg a ->
  segments d (a ++ b) = segments d a ++ segments (zdrop (zsum a) d) b.
Proof.
  intros Ha; revert d; induction Ha as [|l a Hl Ha IH]; intros d; cbn [app segments zsum].
  - reflexivity.
  - f_equal. rewrite IH. f_equal. f_equal. pose proof (zsum_nonneg a Ha). apply zdrop_zdrop; lia.
Qed.
Lemma map2_patch_zeros (e : A) m r : length r = m ->
  map2 (fun l v => if l =? 0 then e else v) (repeat 0 m) r = repeat e m.
Proof. revert r; induction m as [|m IH]; intros [|v r] H; cbn in *; try discriminate; auto. f_equal. apply IH. lia. Qed.
Lemma filter_lt_all l x : Forall (fun y => y < x) l -> filter (fun y => y <? x) l = l.
Proof. induction 1 as [|y l Hy _ IH]; cbn; [reflexivity|]. replace (y <? x) with true by (symmetry; apply Z.ltb_lt; lia). now rewrite IH. Qed.
Lemma filter_lt_none x m : filter (fun y => y <? x) (repeat x m) = [].
Proof. induction m; cbn; [reflexivity|]. now rewrite Z.ltb_irrefl. Qed.
Lemma forallb_lt (d : list A) l : forallb (fun i => (0 <=? i) && (i <? zlen d)) l = true -> Forall (fun y => y < zlen d) l.
Proof.
  induction l as [|y l IH]; cbn; intros H; constructor; apply andb_true_iff in H; destruct H as [H1 H2].
  - apply andb_true_iff in H1. destruct H1 as [_ H1]. now apply Z.ltb_lt.
  - now apply IH.
Qed.

Theorem reduce_correct (e : A) (d : list A) ls : all_nonneg ls -> zsum ls = zlen d ->
  reduce_model A dflt op e d ls = Some (spec_reduce A op e d ls).
Proof.
  intros Hnn Hsum. unfold reduce_model, spec_reduce.
  destruct (zsum ls =? 0) eqn:Ez.
  - (* all rows empty *)
    apply Z.eqb_eq in Ez. f_equal.
    assert (Hall : ls = repeat 0 (length ls)).
    { clear - Hnn Ez. induction Hnn as [|l ls Hl Hnn IH]; [reflexivity|]. cbn [zsum] in Ez.
      pose proof (zsum_nonneg ls Hnn). assert (l = 0) by lia. subst l. cbn. f_equal. apply IH. lia. }
    rewrite Hall at 1 3. rewrite segments_zeros, map2_patch_zeros by (rewrite repeat_length; unfold zlen; lia).
    clear. induction (length ls); cbn; congruence.
  - apply Z.eqb_neq in Ez.
    destruct (last ls 1 =? 0) eqn:El.
    + (* trailing empty rows *)
      apply Z.eqb_eq in El.
      destruct (trailing_zeros_decomp ls Ez El) as (ls1 & m & -> & Hm & Hne & Hlast).
      apply all_nonneg_app in Hnn. destruct Hnn as [Hnn1 _].
      rewrite zsum_app, zsum_zeros in Hsum. rewrite Z.add_0_r in Hsum.
      unfold excl_prefix. rewrite excl_from_app, excl_from_zeros. rewrite Z.add_0_l.
      assert (Hv : forallb (fun i => (0 <=? i) && (i <? zlen d)) (excl_from 0 ls1) = true)
        by (apply starts_valid; auto; lia).
      assert (Elast : last (excl_from 0 ls1 ++ repeat (zsum ls1) m) 0 = zsum ls1).
      { destruct m as [|m]; [lia|]. rewrite <- repeat_snoc, app_assoc. apply last_snoc. }
      rewrite Elast. unfold Reduce.searchsorted_left.
      rewrite filter_app, filter_lt_all, filter_lt_none, app_nil_r by (rewrite Hsum; now apply forallb_lt).
      unfold ztake, zlen. rewrite Nat2Z.id. rewrite firstn_app, firstn_all, Nat.sub_diag. cbn [firstn]. rewrite app_nil_r.
      unfold Reduce.reduceat. rewrite Hv. f_equal.
      rewrite reduceat_rows by lia.
      rewrite excl_from_length, app_length, repeat_length.
      replace (Z.to_nat (Z.of_nat (length ls1 + m) - Z.of_nat (length ls1))) with m by lia.
      rewrite map2_app by (rewrite map2_length; rewrite excl_from_length; reflexivity).
      rewrite map2_patch_zeros by apply repeat_length.
      rewrite segments_app, map_app, segments_zeros by assumption.
      rewrite (patched_rows e d ls1 0) by (auto; lia). f_equal.
      clear. induction m; cbn; congruence.
    + (* last row non-empty *)
      apply Z.eqb_neq in El.
      unfold Reduce.reduceat, excl_prefix. rewrite starts_valid by (auto; lia). f_equal.
      rewrite reduceat_rows by lia. now rewrite (patched_rows e d ls 0) by (auto; lia).
Qed.
End RP.
Print Assumptions reduce_correct.
