From Coq Require Import ZifyBool.
From NPS Require Import ListAux PySlice NumpySem Scatter BuildIdx SliceAP View Index RLE XorProof.
Open Scope Z_scope.

(* ---------- what a representation denotes ---------- *)
Section D.
Variable A : Type.
Variable dflt : A.

Definition row_cells (d : list A) (c : Z) (r : row) : list A := map (znth dflt d) (ap (fst r) (snd r) c).
Definition denote (a : ra A) : list (list A) := map (row_cells (ra_data a) (g_step (ra_geom a))) (g_rows (ra_geom a)).

Definition row_ok (n c : Z) (r : row) : Prop :=
  0 <= snd r /\ forall k, 0 <= k < snd r -> 0 <= fst r + k * c < n.
Definition WF (a : ra A) : Prop :=
  Forall (row_ok (zlen (ra_data a)) (g_step (ra_geom a))) (g_rows (ra_geom a)) /\
  match ra_geom a with
  | GContig rows => rows = combine (excl_prefix (map snd rows)) (map snd rows) /\ zsum (map snd rows) = zlen (ra_data a)
  | _ => True
  end.

(* ---------- np_take on in-range non-negative positions is plain gathering ---------- *)
Lemma py_index_in_range (l : list A) i : 0 <= i < zlen l -> py_index l i = Some (znth dflt l i).
Proof.
  intros H. unfold py_index, py_norm_index.
  replace ((i <? - zlen l) || (i >=? zlen l)) with false by lia.
  replace (i <? 0) with false by lia.
  unfold znth, zlen in *. apply nth_error_nth'. lia.
Qed.

Lemma np_take_in_range (l : list A) idx : Forall (fun i => 0 <= i < zlen l) idx ->
  np_take l idx = Ok (map (znth dflt l) idx).
Proof.
  induction 1 as [|i idx Hi _ IH]; [reflexivity|].
  unfold np_take in *. cbn [map rsequence]. unfold np_item at 1. rewrite py_index_in_range by assumption. now rewrite IH.
Qed.

(* positions of an arithmetic progression *)
Lemma ap_nat_forall (P : Z -> Prop) s c n : (forall k, (k < n)%nat -> P (s + Z.of_nat k * c)) -> Forall P (ap_nat s c n).
Proof.
  revert s; induction n as [|n IH]; intros s H; cbn; constructor.
  - specialize (H O ltac:(lia)). cbn in H. now rewrite Z.add_0_r in H.
  - apply IH. intros k Hk. specialize (H (S k) ltac:(lia)).
    replace (s + c + Z.of_nat k * c) with (s + Z.of_nat (S k) * c) by (rewrite Nat2Z.inj_succ; ring). exact H.
Qed.

Lemma row_ok_positions n c r : row_ok n c r -> Forall (fun p => 0 <= p < n) (ap (fst r) (snd r) c).
Proof. intros [Hl H]. unfold ap. apply ap_nat_forall. intros k Hk. apply H. lia. Qed.

Lemma spec_indices_positions n c rows : Forall (row_ok n c) rows -> Forall (fun p => 0 <= p < n) (spec_indices rows c).
Proof.
  induction 1 as [|r rows Hr _ IH]; unfold spec_indices in *; cbn [map concat]; [constructor|].
  apply Forall_app. split; [now apply row_ok_positions|exact IH].
Qed.

(* splitting the gathered buffer back into rows *)
Lemma ap_zlen s n c : 0 <= n -> zlen (ap s n c) = n.
Proof. intros. unfold zlen, ap. rewrite ap_nat_length. lia. Qed.

Lemma segments_concat_rows (rows : list (list A)) : segments (concat rows) (map zlen rows) = rows.
Proof.
  induction rows as [|r rows IH]; [reflexivity|]. cbn [map concat segments]. f_equal.
  - unfold ztake, zlen. rewrite Nat2Z.id. rewrite firstn_app, firstn_all, Nat.sub_diag. cbn. apply app_nil_r.
  - unfold zdrop, zlen. rewrite Nat2Z.id. rewrite skipn_app, skipn_all, Nat.sub_diag. cbn. exact IH.
Qed.

Lemma flat_indices_spec (g : geom) : Forall (fun r => 0 <= snd r) (g_rows g) ->
  flat_indices g = spec_indices (g_rows g) (g_step g).
Proof.
  intros H. unfold flat_indices. destruct (g_rows g) as [|r rows] eqn:E; [reflexivity|].
  now apply build_indices_correct.
Qed.

Lemma gather_rows (d : list A) c rows : Forall (row_ok (zlen d) c) rows ->
  map (znth dflt d) (spec_indices rows c) = concat (map (row_cells d c) rows).
Proof. intros _. unfold spec_indices. rewrite concat_map, map_map. reflexivity. Qed.

Lemma row_cells_zlen d c r : 0 <= snd r -> zlen (row_cells d c r) = snd r.
Proof. intros H. unfold row_cells, zlen. rewrite map_length. unfold ap. rewrite ap_nat_length. lia. Qed.

(* L1/L2: materialisation keeps the denotation and produces a well-formed contiguous array *)
Lemma Forall_row_ok_nonneg n c rows : Forall (row_ok n c) rows -> Forall (fun r => 0 <= snd r) rows.
Proof. intros H. eapply Forall_impl; [|exact H]. now intros r [H1 _]. Qed.

Lemma skipn_cons_nth (d : list A) n : (n < length d)%nat -> skipn n d = nth n d dflt :: skipn (S n) d.
Proof. revert n; induction d as [|x d IH]; intros [|n] H; cbn in *; try lia; auto. apply IH. lia. Qed.

Lemma ap_unit_cells_nat (d : list A) : forall n acc, (acc + n <= length d)%nat ->
  map (znth dflt d) (ap_nat (Z.of_nat acc) 1 n) = firstn n (skipn acc d).
Proof.
  induction n as [|n IH]; intros acc H; [reflexivity|].
  cbn [ap_nat map]. rewrite (skipn_cons_nth d acc) by lia. cbn [firstn]. f_equal.
  - unfold znth. now rewrite Nat2Z.id.
  - replace (Z.of_nat acc + 1) with (Z.of_nat (S acc)) by lia. apply IH. lia.
Qed.

Lemma ap_unit_cells (d : list A) acc l : 0 <= acc -> 0 <= l -> acc + l <= zlen d ->
  row_cells d 1 (acc, l) = ztake l (zdrop acc d).
Proof.
  intros Ha Hl Hb. unfold row_cells, ap, ztake, zdrop. cbn [fst snd].
  rewrite <- (Z2Nat.id acc) at 1 by lia. apply ap_unit_cells_nat. unfold zlen in Hb. lia.
Qed.

Lemma contig_cells (d : list A) : forall ls acc, all_nonneg ls -> 0 <= acc -> acc + zsum ls <= zlen d ->
  map (row_cells d 1) (combine (excl_from acc ls) ls) = segments (zdrop acc d) ls.
Proof.
  induction ls as [|l ls IH]; intros acc Hnn Ha Hb; [reflexivity|].
  inversion Hnn as [|? ? Hl Hnn']; subst. cbn [zsum] in Hb. pose proof (zsum_nonneg ls Hnn').
  cbn [excl_from combine map segments]. f_equal.
  - apply ap_unit_cells; lia.
  - rewrite IH by (assumption || lia). f_equal. symmetry. apply zdrop_zdrop; lia.
Qed.

Lemma map_zlen_cells d c rows : Forall (fun r => 0 <= snd r) rows -> map zlen (map (row_cells d c) rows) = map snd rows.
Proof. induction 1 as [|r rows Hr _ IH]; [reflexivity|]. cbn [map]. now rewrite row_cells_zlen, IH. Qed.

Lemma g_lengths_contig ls : g_lengths (contig_of_lengths ls) = ls.
Proof. unfold g_lengths, contig_of_lengths. cbn [g_rows]. apply map_snd_combine. unfold excl_prefix. now rewrite excl_from_length. Qed.

Lemma gather_view (a : ra A) : WF a ->
  np_take (ra_data a) (flat_indices (ra_geom a)) = Ok (concat (denote a)).
Proof.
  intros [Hrows _]. rewrite flat_indices_spec by (eapply Forall_row_ok_nonneg; exact Hrows).
  rewrite np_take_in_range by (now apply spec_indices_positions).
  f_equal. now apply gather_rows.
Qed.

Lemma rows_of_denote (a : ra A) : WF a -> rows_of a = Ok (denote a).
Proof.
  intros HW. pose proof HW as [Hrows Hc]. pose proof (Forall_row_ok_nonneg _ _ _ Hrows) as Hnn.
  pose proof (gather_view a HW) as Hg.
  unfold rows_of, materialise. unfold denote in *.
  destruct (ra_geom a) as [rows|rows|rows c] eqn:Eg; cbn [rmap g_rows g_step g_lengths] in *.
  - destruct Hc as [Hcomb Hsum]. f_equal. rewrite Eg. cbn [g_lengths g_rows]. rewrite Hcomb at 2. unfold excl_prefix.
    rewrite contig_cells; [reflexivity| |lia|lia]. apply Forall_map. exact Hnn.
  - rewrite Hg. cbn [rmap ra_data ra_geom g_lengths contig_of_lengths g_rows]. f_equal.
    rewrite g_lengths_contig. unfold g_lengths. cbn [g_rows].
    rewrite <- (map_zlen_cells (ra_data a) 1 rows Hnn). apply segments_concat_rows.
  - rewrite Hg. cbn [rmap ra_data ra_geom g_lengths contig_of_lengths g_rows]. f_equal.
    rewrite g_lengths_contig. unfold g_lengths. cbn [g_rows].
    rewrite <- (map_zlen_cells (ra_data a) c rows Hnn). apply segments_concat_rows.
Qed.
End D.
