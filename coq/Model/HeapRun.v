From NPS Require Import ListAux PySlice NumpySem Heap.
From Coq Require Import List Arith Bool.
Import ListNotations.

(* C10: the heap machine of Model/Heap.v instantiated at the concrete selector grammar used by the histories of the
   correspondence run: a row selector (slice / integer list / mask / all) optionally followed by a column slice. *)
Inductive hsel := HSel (r : rowsel) (c : option pyslice).
Definition apply_hsel (X : Type) (s : hsel) (rows : list (list X)) : list (list X) :=
  match s with
  | HSel r c =>
      match sel_rows r rows with
      | Refused => []
      | Ok rs => match c with None => rs | Some sl => map (fun row => slice_list row sl) rs end
      end
  end.

(* boolean version of Heap.safe_run: no assignment writes into a buffer that another array still names *)
Section Safe.
Variable A : Type.
Variable dflt : A.
Variable sel : Type.
Variable apply_sel : forall X : Type, sel -> list (list X) -> list (list X).
Definition unsharedb (h : heap A) (x : nat) : bool :=
  match get_arr A h x with
  | None => true
  | Some a => forallb (fun yb => Nat.eqb (fst yb) x || negb (Nat.eqb (a_buf (snd yb)) (a_buf a)))
                      (combine (seq 0 (length (arrs A h))) (arrs A h))
  end.
Definition safe_opb (h : heap A) (o : op A sel) : bool :=
  match o with OAssign _ _ x _ _ => unsharedb (materialise A dflt h x) x | _ => true end.
Fixpoint safe_runb (h : heap A) (ops : list (op A sel)) : bool :=
  match ops with [] => true | o :: r => safe_opb h o && safe_runb (fst (step A dflt sel apply_sel h o)) r end.
End Safe.

Definition heap_run (ops : list (op Z hsel)) :=
  (run Z 0%Z hsel apply_hsel (empty_heap Z) ops,
   vrun Z 0%Z hsel apply_hsel [] ops,
   safe_runb Z 0%Z hsel apply_hsel (empty_heap Z) ops).
