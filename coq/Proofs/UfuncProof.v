From Coq Require Import ZifyBool.
From NPS Require Import ListAux PySlice NumpySem Scatter BuildIdx XorBroadcast XorProof Denote RLE RLEOps Scan RaOps ScanProof SetItem.
Open Scope Z_scope.

(* C04: element-wise ufuncs act row by row, with column broadcasting; parametric in the element op *)
Section U.
Variable A B C : Type.
Variable bzero : B. Variable bxor : B -> B -> B.
Hypothesis bxor_assoc : forall a b c, bxor a (bxor b c) = bxor (bxor a b) c.
Hypothesis bxor_comm : forall a b, bxor a b = bxor b a.
Hypothesis bxor_nilp : forall a, bxor a a = bzero.
Hypothesis bxor_zero_l : forall a, bxor bzero a = a.
Variable f : A -> B -> C.

Lemma map2_repeat (l : list A) v : map2 f l (repeat v (length l)) = map (fun a => f a v) l.
Proof. induction l as [|x l IH]; cbn; [reflexivity|]. now rewrite IH. Qed.

Lemma segments_map {X Y} (g : X -> Y) (d : list X) ls : segments (map g d) ls = map (map g) (segments d ls).
Proof.
  revert d; induction ls as [|l ls IH]; intros d; [reflexivity|]. cbn [segments map]. f_equal.
  - unfold ztake. now rewrite firstn_map.
  - unfold zdrop. rewrite <- IH. f_equal. now rewrite skipn_map.
Qed.

Lemma segments_map2 (R : list (list A)) (S : list (list B)) : map zlen S = map zlen R ->
  segments (map2 f (concat R) (concat S)) (map zlen R) = map2 (map2 f) R S.
Proof.
  revert S; induction R as [|r R IH]; intros [|s S] H; cbn in H; try discriminate; [reflexivity|].
  injection H as H1 H2. cbn [concat map map2].
  assert (E : map2 f (r ++ concat R) (s ++ concat S) = map2 f r s ++ map2 f (concat R) (concat S)).
  { apply map2_app. unfold zlen in H1. lia. }
  rewrite E. replace (zlen r) with (zlen (map2 f r s)) by (unfold zlen in *; rewrite map2_length; lia).
  rewrite segments_app_first. f_equal. now apply IH.
Qed.

(* a RaggedArray operand satisfies the constructor's invariant (C01: a mismatching buffer is rejected) *)
Definition operand_wf (y : operand B) : Prop :=
  match y with ORagged (d, lens) => zsum lens = zlen d | _ => True end.

Theorem ufunc2_correct (R : list (list A)) (y : operand B) : operand_wf y ->
  rmap fr_rows (ufunc2 A B C bzero bxor f (fr_of_rows R) y) = spec_ufunc2 A B C f R y.
Proof.
  intros Hwf. unfold ufunc2, spec_ufunc2, fr_of_rows, fr_rows. cbn [fst snd]. rewrite rmap_rmap. cbn [fst snd].
  destruct y as [v|l|[d lens']]; cbn [expand_operand rmap].
  - rewrite map2_repeat, segments_map, segments_concat_rows. reflexivity.
  - destruct l as [|v [|w l]].
    + rewrite map_length. destruct R as [|r R]; cbn [length Nat.eqb rmap]; [reflexivity|reflexivity].
    + cbn [rmap]. rewrite map2_repeat, segments_map, segments_concat_rows. reflexivity.
    + rewrite map_length. destruct (Nat.eqb (length (v :: w :: l)) (length R)) eqn:E; cbn [rmap]; [|reflexivity].
      apply Nat.eqb_eq in E. f_equal.
      rewrite (raw_broadcast_correct B bzero bxor bxor_assoc bxor_comm bxor_nilp bxor_zero_l)
        by (try apply all_nonneg_zlen; now rewrite map_length).
      now apply map2_rows.
  - cbn [snd]. destruct (list_eq_dec Z.eq_dec lens' (map zlen R)) as [->|Hne]; cbn [rmap]; [|reflexivity].
    f_equal. cbn [fr_rows fst snd].
    assert (Hd : all_nonneg (map zlen R)) by apply all_nonneg_zlen.
    cbn [operand_wf] in Hwf.
    rewrite <- (segments_concat d (map zlen R) Hd Hwf) at 1.
    apply segments_map2. now apply segments_lengths.
Qed.
End U.
Print Assumptions ufunc2_correct.
