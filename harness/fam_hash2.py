"""HashTable / HashSet / Counter against a plain Python dict (the property's own model), across key dtypes and value dtypes (C11, C12).
The Coq refinement theorem (table_is_dictionary, count_history) is about the bucket model run by fam_hash; this family drives the
implementation through histories with narrow and unsigned key dtypes, out-of-range queries, float values, like-functions, addition,
equality and conversions, and compares every observable with the dictionary."""
import collections
from vlib import guarded
from harness import fam_ra2


def key(x):
    """numeric key: table values are compared by value (5 == 5.0), keys are integers"""
    k = fam_ra2.key(x)
    if isinstance(k, str) and k != "nan":
        f = float.fromhex(k)
        if f == int(f): return int(f)
    return k


def kl(a):
    import numpy as np
    if isinstance(a, np.ndarray): a = a.tolist()
    if isinstance(a, (list, tuple)): return [kl(x) for x in a]
    return key(a)

KEYDT = ["int8", "int16", "int32", "int64", "uint8", "uint16", "uint32", "uint64"]
RULE2 = ("dict-model histories: key dtypes int8..int64 / uint8..uint64 with keys at the extremes of the dtype and congruent modulo the modulus; moduli "
         "{default,1,2,3,n,2n-1,7}; int and float (dyadic) values, scalar or per-key; queries as arrays of the key dtype, int64 arrays (absent keys beyond "
         "the key dtype's range included), python lists and scalars; operations: lookup, lookup with absent key, assignment (vector / scalar), fill, contains, "
         "HashSet.contains, zeros_like / ones_like (the history continues on the new table), +, +=, ==, items, to_dict, Counter.count batches "
         "(the same samples also re-split and re-ordered); uint64 keys are queried with uint64 arrays only (numpy promotes int64 % uint64 to float64)")


def keypool(dt, rng):
    import numpy as np
    info = np.iinfo(dt)
    lo, hi = int(info.min), int(info.max)
    pool = {lo, hi, hi - 1, lo + 1, 0, 1, 2, 5, 7, 12, 17, 24, min(hi, 100), min(hi, 2 ** 31 + 3), min(hi, 2 ** 62)}
    if lo < 0: pool |= {-1, -3, -8, max(lo, -(2 ** 62))}
    return sorted(pool)


def run_family2(R, tier, rng, counter):
    import numpy as np
    from npstructures import HashTable, Counter
    from npstructures.hashtable import HashSet
    n_hist = (1200 if tier == "thorough" else 300)
    for trial in range(n_hist):
        kdt = KEYDT[trial % len(KEYDT)]
        pool = keypool(kdt, rng)
        k = rng.randint(1, min(6, len(pool)))
        if trial % 4 == 3:          # a larger key set (some code paths depend on the number of keys relative to a batch)
            extra = [x for x in range(int(max(np.iinfo(kdt).min, -40)), int(min(np.iinfo(kdt).max, 90))) if x not in pool]
            pool = sorted(set(pool) | set(rng.sample(extra, min(len(extra), 40))))
            k = rng.randint(12, min(30, len(pool)))
        if trial % 16 == 7 and np.iinfo(kdt).bits == 8:      # so many keys that the default modulus 2n-1 is beyond the key dtype's range
            pool = list(range(int(np.iinfo(kdt).min), int(np.iinfo(kdt).max) + 1)); k = rng.randint(66, 110)
        keys = rng.sample(pool, k)
        mod = rng.choice([None, 1, 2, 3, k, 2 * k - 1, 7])
        if trial % 16 == 7 and np.iinfo(kdt).bits == 8: mod = None
        elif trial % 8 == 5 and np.iinfo(kdt).bits < 64: mod = int(np.iinfo(kdt).max) + rng.choice([1, 2, 73])     # an explicit modulus beyond the key dtype's range
        fl = (not counter) and rng.random() < .4
        mkv = (lambda: rng.choice([0.5, -1.75, 2.0, 0.25, 3.5, 1e10])) if fl else (lambda: rng.randint(-5, 70000))
        scalar = rng.choice([None, 0, 5]) if not counter else rng.choice([None, 0, 0, 5])
        vals = [mkv() for _ in keys] if scalar is None else None
        vdt = float if fl else int
        arrk = lambda l: np.array(l, dtype=kdt)
        info = np.iinfo(kdt)
        absent_in = [x for x in pool if x not in keys][:4]
        absent_out = [int(info.max) + 1 + (keys[0] - int(info.min)), int(info.min) - 1 - (int(info.max) - keys[0]), keys[0] + 2 ** (info.bits), keys[0] - 2 ** (info.bits)] if info.bits < 64 else []
        absent_out = [x for x in absent_out if -2 ** 63 <= x < 2 ** 63]
        def build():
            if counter: return Counter(arrk(keys), (np.array(vals) if scalar is None else scalar), mod=mod)
            return HashTable(arrk(keys), (np.array(vals, dtype=vdt) if scalar is None else scalar), mod=mod, value_dtype=vdt)
        t = guarded(build)
        model = dict(zip(keys, vals if scalar is None else [scalar] * k))
        desc = f"{'Counter' if counter else 'HashTable'}({kdt} {keys}, {vals if scalar is None else scalar}, mod={mod})"
        name = f"hist{trial} {desc}"
        if t is None:
            R.record(name + " :: construct", None, "ok", "ok", True, "construct", py=desc); continue
        steps = []
        def q_variants(q):
            """the same query as an array of the key dtype / an int64 array / a python list"""
            v = [("kdt", lambda: arrk(q))]
            if kdt != "uint64": v += [("i64", lambda: np.array(q, dtype=np.int64)), ("list", lambda: list(q))]
            return v
        nops = rng.randint(2, 8)
        for step in range(nops):
            kind = rng.choice(["get", "get", "get1", "getabs", "getabs_out", "set", "sets", "fill", "contains", "like", "add", "eq", "items"] + (["count"] * 6 if counter else []))
            nt = k >= 2
            lab = f"{name} :: step{step} {kind} after [{'; '.join(steps)}]"
            if kind == "get":
                q = [rng.choice(keys) for _ in range(rng.randint(1, 5))]
                vn, mkq = rng.choice(q_variants(q))
                R.record(lab + f" {vn}{q}", guarded(lambda: kl(np.asarray(t[mkq()]))), kl([model[x] for x in q]), kl([model[x] for x in q]), nt, "lookup/" + vn + "/" + kdt, py=f"{desc}; {'; '.join(steps)}; t[{vn}:{q}]")
            elif kind == "get1":
                x = rng.choice(keys)
                for vn, mkx in (("py", lambda: int(x)), ("np", lambda: np.dtype(kdt).type(x))):
                    R.record(lab + f" {vn}:{x}", guarded(lambda: kl(np.asarray(t[mkx()]).ravel())), [key(model[x])], [key(model[x])], nt, "lookup-scalar/" + kdt, py=f"{desc}; {'; '.join(steps)}; t[{x}]")
            elif kind in ("getabs", "getabs_out"):
                ab = absent_in if kind == "getabs" else absent_out
                if not ab: continue
                q = [rng.choice(keys) for _ in range(rng.randint(0, 3))] + [rng.choice(ab)]; rng.shuffle(q)
                vs = [v for v in q_variants(q) if v[0] != "kdt" or kind == "getabs"]
                if not vs: continue
                vn, mkq = rng.choice(vs)
                R.record(lab + f" {vn}{q}", guarded(lambda: kl(np.asarray(t[mkq()]))), None, None, nt, "lookup-absent/" + kind + "/" + kdt, py=f"{desc}; {'; '.join(steps)}; t[{vn}:{q}]  (contains an absent key: must be refused)")
            elif kind == "set":
                q = rng.sample(keys, rng.randint(1, k)); v = [mkv() for _ in q]
                ok = guarded(lambda: t.__setitem__(arrk(q), np.array(v, dtype=vdt)) or 1)
                if ok: model.update(zip(q, v))
                steps.append(f"t[{q}]={v}")
                R.record(lab + f" {q}={v}", ok, 1, 1, nt, "assign", py=f"{desc}; {'; '.join(steps)}")
            elif kind == "sets":
                q = rng.sample(keys, rng.randint(1, k)); v = mkv()
                if rng.random() < .4: q = [rng.choice(keys[:max(1, k // 2)]) for _ in range(k)]        # repeats, len(q) == number of keys
                ok = guarded(lambda: t.__setitem__(arrk(q), v) or 1)
                if ok: model.update((x, v) for x in q)
                steps.append(f"t[{q}]={v}")
                R.record(lab + f" {q}={v}", ok, 1, 1, nt, "assign-scalar", py=f"{desc}; {'; '.join(steps)}")
            elif kind == "fill":
                v = mkv(); ok = guarded(lambda: t.fill(v) or 1)
                if ok: model = {x: v for x in model}
                steps.append(f"t.fill({v})"); R.record(lab, ok, 1, 1, nt, "fill")
            elif kind == "contains":
                q = [rng.choice(keys + absent_in) for _ in range(4)]
                qo = q + absent_out[:2]
                vs = q_variants(q)
                vn, mkq = rng.choice(vs)
                R.record(lab + f" {vn}{q}", guarded(lambda: [bool(b) for b in t.contains(mkq())]), [x in model for x in q], [x in model for x in q], nt, "contains/" + kdt, py=f"{desc}.contains({vn}:{q})")
                if kdt != "uint64" and absent_out:
                    R.record(lab + f" i64{qo}", guarded(lambda: [bool(b) for b in t.contains(np.array(qo, dtype=np.int64))]), [x in model for x in qo], [x in model for x in qo], nt, "contains-out-of-range/" + kdt,
                             py=f"{desc}.contains(np.array({qo}))")
                hs = guarded(lambda: HashSet(arrk(keys), mod=mod))
                if hs is not None:
                    R.record(lab + f" hashset {vn}{q}", guarded(lambda: [bool(b) for b in hs.contains(mkq())]), [x in model for x in q], [x in model for x in q], nt, "hashset/" + kdt, py=f"HashSet({kdt} {keys}, mod={mod}).contains({vn}:{q})")
                    if kdt != "uint64" and absent_out:
                        R.record(lab + f" hashset i64{qo}", guarded(lambda: [bool(b) for b in hs.contains(np.array(qo, dtype=np.int64))]), [x in model for x in qo], [x in model for x in qo], nt, "hashset-out-of-range/" + kdt,
                                 py=f"HashSet({kdt} {keys}, mod={mod}).contains(np.array({qo}))")
                    x = rng.choice(q)
                    R.record(lab + f" hashset scalar {x}", guarded(lambda: bool(hs.contains(int(x)))), x in model, x in model, nt, "hashset-scalar/" + kdt, py=f"HashSet({kdt} {keys}, mod={mod}).contains({x})")
            elif kind == "like":
                which = rng.choice(["zeros_like", "ones_like"])
                t2 = guarded(lambda: getattr(np, which)(t))
                if t2 is None:
                    R.record(lab + " " + which, None, "ok", "ok", nt, "like"); continue
                # the source table is unchanged; the history continues on the new table
                R.record(lab + " source-unchanged", guarded(lambda: kl(np.asarray(t[arrk(keys)]))), kl([model[x] for x in keys]), kl([model[x] for x in keys]), nt, "like/source", py=f"{desc}; np.{which}(t); t[keys]")
                t = t2; model = {x: (0 if which == "zeros_like" else 1) for x in model}; steps.append(f"t=np.{which}(t)")
                R.record(lab + " " + which, guarded(lambda: kl(np.asarray(t[arrk(keys)]))), kl([model[x] for x in keys]), kl([model[x] for x in keys]), nt, "like/" + which, py=f"{desc}; {'; '.join(steps)}; t[keys]")
            elif kind == "add" and not counter and rng.random() < .3:
                # sum of two like-tables (scalar-valued), then an assignment: the value dtype must survive
                def addlike():
                    s2 = np.zeros_like(t) + np.ones_like(t)
                    v = mkv(); s2[arrk(keys[:1])] = v
                    return kl(np.asarray(s2[arrk(keys)]))
                vv = None
                # the assigned value is drawn inside addlike; recompute the expectation with the same generator state
                st = rng.getstate(); v_exp = mkv(); rng.setstate(st)
                exp = kl([v_exp] + [1] * (k - 1))
                R.record(lab + " like+like then assign", guarded(addlike), exp, exp, nt, "add-like", py=f"{desc}; s = np.zeros_like(t) + np.ones_like(t); s[[{keys[0]}]] = {v_exp}; s[keys]")
            elif kind == "add" and not counter:
                v2 = [mkv() for _ in keys]
                def add():
                    o = HashTable(arrk(keys), np.array(v2, dtype=vdt), mod=mod)
                    # addition requires the same bucket layout; build the other table the same way
                    s = t + o
                    r = kl(np.asarray(s[arrk(keys)]))
                    z = t + np.zeros_like(t)
                    z[arrk(keys[:1])] = 12345; z.fill(77)
                    return [r, kl(np.asarray(t[arrk(keys)])), kl(np.asarray(o[arrk(keys)]))]
                if isinstance(getattr(t, "_values", None), (int, float)): continue
                exp_add = [kl([model[x] + y for x, y in zip(keys, v2)]), kl([model[x] for x in keys]), kl(v2)]
                R.record(lab + f" +{v2}", guarded(add), exp_add, exp_add, nt, "add", py=f"{desc}; {'; '.join(steps)}; (t + HashTable(keys, {v2}))[keys]")
            elif kind == "iadd":
                v = rng.randint(1, 5)
                def iadd():
                    nonlocal t
                    t += v; return 1
                ok = guarded(iadd)
                if ok: model = {x: y + v for x, y in model.items()}
                steps.append(f"t+={v}"); R.record(lab, ok, 1, 1, nt, "iadd")
            elif kind == "eq" and not counter:
                same = rng.random() < .5
                v2 = [model[x] for x in keys]
                if not same: v2[rng.randrange(k)] += 1
                if isinstance(getattr(t, "_values", None), (int, float)):
                    if not same: continue
                else:
                    def eq():
                        o = HashTable(arrk(keys), np.array(v2, dtype=vdt), mod=mod); return bool(t == o)
                    R.record(lab + f" =={v2}", guarded(eq), same, same, nt, "eq", py=f"{desc}; {'; '.join(steps)}; t == HashTable(keys, {v2})")
                # the same dictionary built from the keys in another order and with another modulus (other buckets, other order inside the buckets)
                perm = list(range(k)); rng.shuffle(perm)
                mod2 = rng.choice([mod, 1, 2, 3, 7, None])
                def eq2():
                    o = HashTable(arrk([keys[i] for i in perm]), np.array([v2[i] for i in perm], dtype=vdt), mod=mod2); return [bool(t == o), bool(o == t)]
                R.record(lab + f" ==permuted{v2} mod2={mod2}", guarded(eq2), [same, same], [same, same], nt, "eq/other-layout",
                         py=f"{desc}; {'; '.join(steps)}; t == HashTable({[keys[i] for i in perm]}, {[v2[i] for i in perm]}, mod={mod2})")
            elif kind == "items":
                exp = sorted([key(a), key(b)] for a, b in model.items())
                R.record(lab + " items", guarded(lambda: sorted([key(a), key(b)] for a, b in t.items())), exp, exp, nt, "items")
                R.record(lab + " to_dict", guarded(lambda: sorted([key(a), key(b)] for a, b in t.to_dict().items())), exp, exp, nt, "to_dict")
            elif kind == "count":
                s = [rng.choice(keys + keys + absent_in) for _ in range(rng.randint(0, 9))]
                vs = q_variants(s) if s else [("kdt", lambda: arrk(s))]
                vn, mks = rng.choice(vs)
                if absent_out and rng.random() < .35:       # samples beyond the key dtype's range (congruent to keys modulo 2^bits), as an int64 array: not keys
                    s = s + [rng.choice(absent_out) for _ in range(rng.randint(1, 3))]; rng.shuffle(s)
                    vn, mks = "i64-out-of-range", (lambda s=s: np.array(s, dtype=np.int64))
                ok = guarded(lambda: t.count(mks()) or 1)
                if ok:
                    for x in s:
                        if x in model: model[x] += 1
                steps.append(f"count({vn}:{s})")
                R.record(lab + f" {vn}{s}", ok, 1, 1, nt, "count/" + vn, py=f"{desc}; {'; '.join(steps)}")
                R.record(lab + " totals", guarded(lambda: kl(np.asarray(t[arrk(keys)]))), kl([model[x] for x in keys]), kl([model[x] for x in keys]), nt, "count-totals/" + kdt, py=f"{desc}; {'; '.join(steps)}; t[keys]")
        # final state
        R.record(name + f" :: final after [{'; '.join(steps)}]", guarded(lambda: kl(np.asarray(t[arrk(keys)]))), kl([model[x] for x in keys]), kl([model[x] for x in keys]), k >= 2, "final/" + kdt,
                 py=f"{desc}; {'; '.join(steps)}; t[keys]")
        if counter and trial % 3 == 0:
            # the same multiset of samples: one call / split into calls / reversed order -> identical totals (and independent of the modulus)
            samples = [rng.choice(keys + keys + absent_in) for _ in range(rng.randint(3, 20))]
            exp = collections.Counter(x for x in samples if x in keys)
            init = 0 if scalar is None else scalar
            expect = [init + exp[x] for x in keys]
            for how in ("one", "split", "reversed", "mod+1"):
                def totals():
                    c = Counter(arrk(keys), init, mod=(mod if how != "mod+1" else (mod or k) + 1))
                    ss = samples[::-1] if how == "reversed" else samples
                    if how == "split":
                        cut = sorted(rng.sample(range(len(ss) + 1), 2))
                        for part in (ss[:cut[0]], ss[cut[0]:cut[1]], ss[cut[1]:]): c.count(arrk(part))
                    else: c.count(arrk(ss))
                    return kl(np.asarray(c[arrk(keys)]))
                R.record(f"{name} :: batches {how} {samples}", guarded(totals), expect, expect, k >= 2, "batches/" + how, py=f"Counter({kdt} {keys}, {init}, mod={mod}).count({samples}) [{how}]")


def extra_stage(R, tier, rng, counter):
    """deterministic cases: who owns the arrays given to the constructor, sums of tables whose colliding keys were given in another order,
    float constants without an explicit value dtype, signed samples of the key type's own width against unsigned keys"""
    import numpy as np
    from npstructures import HashTable, Counter
    def val(x): return kl(np.asarray(x))
    KS = [(list(range(4)), None), (list(range(7)), None), ([5, 10, 21, 3, 13], 5), ([13, 3, 21, 10, 5], 5), ([0, 7, 14, 3], 7), ([2, 9, 4], 1)]
    for keys, mod in KS:
        n = len(keys); tag = f"{keys} mod={mod}"
        if not counter:
            # (1) the value array belongs to the caller; two tables built from it are independent
            def own():
                v = np.arange(10, 10 + n); v0 = v.copy()
                t1 = HashTable(keys, v, mod=mod); t2 = HashTable(keys, v, mod=mod)
                t1[keys[1 % n]] = 99
                a = [val(t2[keys]), val(v)]
                v[:] = -1
                return a + [val(t2[keys]), val(t1[keys])]
            exp1 = [10 + i for i in range(n)]; exp_t1 = list(exp1); exp_t1[1 % n] = 99
            R.record(f"own-values HashTable {tag}", guarded(own), [kl(exp1), kl(exp1), kl(exp1), kl(exp_t1)], [kl(exp1), kl(exp1), kl(exp1), kl(exp_t1)], n >= 2, "ownership/values",
                     py=f"v = np.arange(10, {10 + n}); t1 = HashTable({keys}, v, mod={mod}); t2 = HashTable({keys}, v, mod={mod}); t1[{keys[1 % n]}] = 99; t2[keys]; v; v[:] = -1; t2[keys]; t1[keys]")
            # (2) t1 + t2 where t2 holds the same keys in another order: refused, or the sum of the dictionaries
            perm = keys[::-1]
            def add():
                t1 = HashTable(keys, np.arange(1, n + 1), mod=mod); t2 = HashTable(perm, np.arange(100, 100 * (n + 1), 100), mod=mod)
                try: s = t1 + t2
                except Exception: return "refused-or-correct"
                d = {int(k): int(v) for k, v in s.items()}
                want = {k: (i + 1) + 100 * (perm.index(k) + 1) for i, k in enumerate(keys)}
                return "refused-or-correct" if d == want else ["wrong sum", sorted(d.items())]
            R.record(f"add-permuted {tag}", guarded(add), "refused-or-correct", "refused-or-correct", n >= 2, "add/other-key-order",
                     py=f"HashTable({keys}, arange(1..), mod={mod}) + HashTable({perm}, arange(100, .., 100), mod={mod})")
            # (3) a float constant without an explicit value dtype, then one assignment
            for c0, newv in ((0.5, 8.25), (2.75, -1.5), (1e10, 0.125)):
                def fl():
                    t = HashTable(keys, c0, mod=mod); before = val(t[keys])
                    t[keys[-1]] = newv
                    return [before, val(t[keys]), val(t[[keys[0]]])]
                e_after = [c0] * n; e_after[-1] = newv
                R.record(f"float-constant {c0} {tag}", guarded(fl), [kl([c0] * n), kl(e_after), kl([e_after[0]])], [kl([c0] * n), kl(e_after), kl([e_after[0]])], n >= 2, "float-constant-then-assign",
                         py=f"t = HashTable({keys}, {c0}, mod={mod}); t[keys]; t[{keys[-1]}] = {newv}; t[keys]")
        else:
            # (1') the array of initial counts belongs to the caller; two counters built from it are independent
            def ownc():
                init = np.arange(5, 5 + n); i0 = init.copy()
                a = Counter(keys, init, mod=mod); b = Counter(keys, init, mod=mod)
                a.count([keys[0], keys[0], keys[-1]])
                return [val(b[keys]), val(init), val(a[keys])]
            ea = [5 + i for i in range(n)]; ea2 = list(ea); ea2[0] += 2; ea2[-1] += 1
            if n == 1: ea2 = [ea[0] + 3]
            R.record(f"own-initial Counter {tag}", guarded(ownc), [kl(ea), kl(ea), kl(ea2)], [kl(ea), kl(ea), kl(ea2)], n >= 2, "ownership/initial-counts",
                     py=f"init = np.arange(5, {5 + n}); a = Counter({keys}, init, mod={mod}); b = Counter({keys}, init, mod={mod}); a.count([{keys[0]}, {keys[0]}, {keys[-1]}]); b[keys]; init; a[keys]")
    if not counter:
        # (5) a table built from ONE constant without a value dtype, then integers that no double can hold are assigned and read back
        for keys, mod in KS:
            n = len(keys); big = [2 ** 53 + 1, -(2 ** 62) - 1, 2 ** 62 + 3]
            def bigassign():
                t = HashTable(keys, 0, mod=mod); t[keys[0]] = big[0]
                out = [val(t[keys])]
                t[[keys[-1]]] = np.array([big[1]]); out.append(val(t[keys])); t[keys[0]] = big[2]; out.append(val(t[[keys[0]]]))
                return out
            e1 = [0] * n; e1[0] = big[0]; e2 = list(e1); e2[-1] = big[1]
            if n == 1: e2 = [big[1]]
            R.record(f"constant-table big ints HashTable({keys}, 0, mod={mod})", guarded(bigassign), [kl(e1), kl(e2), kl([big[2]])], [kl(e1), kl(e2), kl([big[2]])], n >= 2, "constant-then-assign/big-int",
                     py=f"t = HashTable({keys}, 0, mod={mod}); t[{keys[0]}] = 2**53+1; t[keys]; t[[{keys[-1]}]] = [-(2**62)-1]; t[keys]; t[{keys[0]}] = 2**62+3; t[[{keys[0]}]]")
        # (4) membership of ONE Python int that the key dtype cannot hold (default and explicit modulus): not a member, never an error (F37)
        from npstructures.hashtable import HashSet
        for kdt in ("int8", "uint8", "int16", "uint32"):
            info = np.iinfo(kdt); ks = [1, 2, 3, int(info.max), int(info.min)] if info.min < 0 else [1, 2, 3, int(info.max)]
            for mod in (None, 3, 7):
                qs = [2, int(info.max), int(info.max) + 1, 200, 2 ** 40, -300, int(info.min) - 1, 0, 4]
                def mem():
                    hs = HashSet(np.array(ks, dtype=kdt), mod=mod); return [bool(hs.contains(q)) for q in qs]
                em = [q in ks for q in qs]
                R.record(f"scalar-membership HashSet({kdt} {ks}, mod={mod}) {qs}", guarded(mem), em, em, True, "contains/python-int-beyond-dtype",
                         py=f"hs = HashSet(np.array({ks}, dtype='{kdt}'), mod={mod}); [hs.contains(q) for q in {qs}]")
                def look():
                    t = HashTable(np.array(ks, dtype=kdt), np.arange(10, 10 + len(ks)), mod=mod); return [val(t[k]) for k in ks]
                el = [kl([10 + i]) for i in range(len(ks))]
                R.record(f"scalar-lookup HashTable({kdt} {ks}, mod={mod})", guarded(look), el, el, True, "lookup/python-int-scalar",
                         py=f"t = HashTable(np.array({ks}, dtype='{kdt}'), arange(10, ...), mod={mod}); [t[k] for k in {ks}]")
    if counter:
        for keys, mod in KS:
            n = len(keys); tag = f"{keys} mod={mod}"
            # (2') per-key initial values that are not whole numbers (dyadic, so every total is exact): initial value + occurrences
            finit = [0.5 + 0.75 * i - (2.0 if i % 2 else 0.0) for i in range(n)]
            batch = [keys[0], keys[-1], keys[0], 999]
            def cf():
                c = Counter(keys, np.array(finit), mod=mod); before = val(c[keys]); c.count(batch); return [before, val(c[keys])]
            ef = list(finit); ef[0] += 2 if n > 1 else 3
            if n > 1: ef[-1] += 1
            R.record(f"float-initial Counter {tag}", guarded(cf), [kl(finit), kl(ef)], [kl(finit), kl(ef)], n >= 2, "count/float-per-key-initial",
                     py=f"c = Counter({keys}, np.array({finit}), mod={mod}); c[keys]; c.count({batch}); c[keys]")
            # (3') samples given as floats: a whole number equal to a key is that key, a fraction is no key at all
            fs = [float(keys[0]), keys[0] + 0.5, keys[-1] - 0.001, float(keys[-1]), -0.5, keys[0] + 0.999]
            def cfs():
                c = Counter(keys, mod=mod); c.count(np.array(fs)); return val(c[keys])
            efs = [0] * n; efs[0] += 1; efs[-1] += 1
            R.record(f"float-samples Counter {tag}", guarded(cfs), kl(efs), kl(efs), n >= 2, "count/float-samples",
                     py=f"c = Counter({keys}, mod={mod}); c.count(np.array({fs})); c[keys]")
            # (4') the initial value given as a narrow numpy integer SCALAR: a start value, not a storage width -- 51 more occurrences than it could hold
            for sc_t, sc in (("int8", 100), ("int16", 32760), ("uint8", 250), ("int32", 7)):
                def cns():
                    c = Counter(keys, getattr(np, sc_t)(sc), mod=mod); before = val(c[keys])
                    c.count([keys[0]] * 51 + [999]); mid = val(c[keys]); c.count([keys[0]] * 51 + [keys[-1]]); return [before, mid, val(c[keys])]
                e0 = [sc] * n; e1 = list(e0); e1[0] += 51; e2 = list(e1); e2[0] += 51; e2[-1] += 1
                R.record(f"narrow-scalar-initial np.{sc_t}({sc}) Counter {tag}", guarded(cns), [kl(e0), kl(e1), kl(e2)], [kl(e0), kl(e1), kl(e2)], n >= 2, "count/narrow-scalar-initial",
                         py=f"c = Counter({keys}, np.{sc_t}({sc}), mod={mod}); c[keys]; c.count([{keys[0]}]*51 + [999]); c[keys]; c.count([{keys[0]}]*51 + [{keys[-1]}]); c[keys]")
            # (5') per-key initial counts in a non-native byte order / a strided or read-only array: later batches must still land in the counter
            base = [3 + 2 * i for i in range(n)]
            for how, mkinit in (("big-endian i8", lambda: np.array(base, dtype=">i8")), ("big-endian i4", lambda: np.array(base, dtype=">i4")),
                                ("strided", lambda: np.repeat(np.array(base), 2)[::2]), ("read-only", lambda: (lambda a: (a.setflags(write=False), a)[1])(np.array(base))),
                                ("frombuffer", lambda: np.frombuffer(np.array(base, dtype=">i8").tobytes(), dtype=">i8"))):
                def cbe():
                    c = Counter(keys, mkinit(), mod=mod); before = val(c[keys])
                    c.count([keys[0], 999, keys[-1]]); mid = val(c[keys]); c.count([keys[0], keys[0]]); return [before, mid, val(c[keys])]
                e1 = list(base); e1[0] += 1; e1[-1] += 1; e2 = list(e1); e2[0] += 2
                if n == 1: e1 = [base[0] + 2]; e2 = [base[0] + 4]
                R.record(f"initial-array {how} Counter {tag}", guarded(cbe), [kl(base), kl(e1), kl(e2)], [kl(base), kl(e1), kl(e2)], n >= 2, "count/initial-array-layout",
                         py=f"c = Counter({keys}, <{how} array of {base}>, mod={mod}); c[keys]; c.count([{keys[0]}, 999, {keys[-1]}]); c[keys]; c.count([{keys[0]}, {keys[0]}]); c[keys]")
        # signed samples of the key type's own width against unsigned keys: a negative sample is never a key
        for kdt, sdt in (("uint8", "int8"), ("uint16", "int16"), ("uint32", "int32"), ("uint64", "int64")):
            bits = np.iinfo(kdt).bits
            keys = [int(np.iinfo(kdt).max), 5, 2 ** (bits - 1) + 3, 1]
            for mod in (None, 3):
                samples = [-1, 5, 5, -(2 ** (bits - 1)) + 3, 1, -1, -128 if bits > 8 else -127]
                def cnt():
                    c = Counter(np.array(keys, dtype=kdt), mod=mod); c.count(np.array(samples, dtype=sdt))
                    return val(c[np.array(keys, dtype=kdt)])
                R.record(f"signed-samples Counter({kdt} {keys}, mod={mod}).count({sdt} {samples})", guarded(cnt), kl([0, 2, 0, 1]), kl([0, 2, 0, 1]), True, "count/signed-samples-unsigned-keys",
                         py=f"c = Counter(np.array({keys}, dtype='{kdt}'), mod={mod}); c.count(np.array({samples}, dtype='{sdt}')); c[keys]")


def big_stage(R, tier, rng, counter):
    """tables and batches beyond any plausible size threshold (hundreds to thousands of keys, queries and samples in arbitrary order with
    repeats, non-keys in empty buckets, sparse later batches), compared with the dictionary"""
    import numpy as np
    from npstructures import HashTable, Counter
    def val(x): return kl(np.asarray(x))
    A = lambda l: np.array(l, dtype=np.int64)
    reps = 3 if tier == "thorough" else 1
    for rep in range(reps):
        for nk, mod in ((60, None), (700, None), (1500, 701), (2100, None), (700, 97)):
            keys = rng.sample(range(-5000, 20000), nk)
            keyset = set(keys)
            absent = [x for x in rng.sample(range(-6000, 30000), 400) if x not in keyset]
            tag = f"nk={nk} mod={mod} rep={rep}"
            if not counter:
                vals = [rng.randint(-10 ** 6, 10 ** 6) for _ in keys]
                d = dict(zip(keys, vals))
                for nq in (513, 600, 2000, 5000):
                    q = [rng.choice(keys) for _ in range(nq)]
                    def look():
                        t = HashTable(A(keys), A(vals), mod=mod); return val(t[A(q)])
                    e = kl([d[k] for k in q])
                    R.record(f"big-lookup {tag} nq={nq}", guarded(look), e, e, True, "big/lookup-random-order",
                             py=f"keys={keys!r}; vals={vals!r}; q={q!r}; HashTable(keys, vals, mod={mod})[q]")
                    qa = rng.sample(keys, min(nq, nk)); va = [rng.randint(-99, 99) for _ in qa]
                    def assign():
                        t = HashTable(A(keys), A(vals), mod=mod); t[A(qa)] = A(va); return val(t[A(keys)])
                    d2 = dict(d); d2.update(zip(qa, va)); e2 = kl([d2[k] for k in keys])
                    R.record(f"big-assign {tag} n={len(qa)}", guarded(assign), e2, e2, True, "big/assign-random-order",
                             py=f"keys={keys!r}; vals={vals!r}; q={qa!r}; v={va!r}; t=HashTable(keys, vals, mod={mod}); t[q]=v; t[keys]")
                def absent_q():
                    t = HashTable(A(keys), A(vals), mod=mod)
                    try: t[A([rng.choice(keys) for _ in range(700)] + [absent[0]])]; return "accepted"
                    except Exception: return "refused"
                R.record(f"big-lookup-absent {tag}", guarded(absent_q), "refused", "refused", True, "big/lookup-absent",
                         py=f"keys={keys!r}; HashTable(keys, ..., mod={mod})[700 keys + [{absent[0]}]]")
                def cont():
                    t = HashTable(A(keys), A(vals), mod=mod); qq = keys[:300] + absent[:300]
                    return val(t.contains(A(qq)))
                ec = kl([True] * len(keys[:300]) + [False] * len(absent[:300]))
                R.record(f"big-contains {tag}", guarded(cont), ec, ec, True, "big/contains",
                         py=f"keys={keys!r}; HashTable(keys, ..., mod={mod}).contains(keys[:300] + {absent[:300]!r})")
            else:
                for init_kind in ("default", "scalar", "array"):
                    init = {"default": None, "scalar": 3, "array": [rng.randint(0, 9) for _ in keys]}[init_kind]
                    base = dict(zip(keys, init if isinstance(init, list) else [init or 0] * nk))
                    # batches: a big one (> 4096 samples, keys + non-keys, few distinct values so that repeats dominate), a sparse one with repeats, a medium one
                    hot = rng.sample(keys, 5) + absent[:3]
                    b1 = [rng.choice(hot) for _ in range(5200)] + [rng.choice(keys + absent) for _ in range(300)]; rng.shuffle(b1)
                    b2 = [keys[-1]] * 3 + [absent[5], keys[1]]
                    b3 = [rng.choice(keys + absent[:50]) for _ in range(900)]
                    for order in ((b1, b2, b3), (b2, b3, b1), (b3, b2, b2, b1)):
                        def cnt():
                            c = Counter(A(keys), mod=mod) if init is None else Counter(A(keys), (A(init) if isinstance(init, list) else init), mod=mod)
                            out = []
                            for b in order:
                                c.count(A(b)); out.append(val(c[A(keys)]))
                            return out
                        tot = collections.Counter(); e = []
                        for b in order:
                            tot.update(x for x in b if x in keyset); e.append(kl([base[k] + tot[k] for k in keys]))
                        R.record(f"big-count {tag} init={init_kind} batches={[len(b) for b in order]}", guarded(cnt), e, e, True, "big/count-batches",
                                 py=f"keys={keys!r}; init={init!r}; batches={[list(b) for b in order]!r}; c=Counter(keys, init, mod={mod}); for b in batches: c.count(b); c[keys]")
    if counter:
        # one bucket for everything (mod=1) and batches whose gathered bucket cells run into the millions, of sizes that no round part count divides
        for nk, sizes in ((2100, (2001, 2503)), (1031, (4099,))):
            keys = rng.sample(range(-5000, 20000), nk); keyset = set(keys); outs = [x for x in range(20001, 20040)]
            for nsamp in sizes:
                batch = [rng.choice(keys) for _ in range(nsamp - 7)] + [keys[-1]] * 4 + [outs[0], keys[0], keys[0]]
                tot = collections.Counter(x for x in batch if x in keyset); e = kl([tot[k] for k in keys])
                def one():
                    c = Counter(A(keys), mod=1); c.count(A(batch)); return val(c[A(keys)])
                R.record(f"one-bucket big batch nk={nk} samples={nsamp}", guarded(one), e, e, True, "big/one-bucket-batch",
                         py=f"keys={keys!r}; batch={batch!r}; c=Counter(keys, mod=1); c.count(batch); c[keys]")
