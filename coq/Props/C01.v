(* C01 — property theorems only: each restates the full statement and is closed by the lemma proved in Proofs/. *)
From Coq Require Import ZArith List Bool.
From NPS Require Import ListAux PySlice NumpySem Scatter BuildIdx XorBroadcast View Index Assign Reduce Scan RaOps Heap Hash HashRun BitArr RLE RLEOps RLE2d DataClass RowsSpec AssignSpec MapSpec Denote Shape BuildIdx.
Import ListNotations.
Open Scope Z_scope.

Theorem C01_geometry_starts :
  forall ls : list Z, sh_starts (shape_codes ls) = excl_prefix ls.
Proof. exact geometry_starts. Qed.
Print Assumptions C01_geometry_starts.

Theorem C01_geometry_lengths :
  forall ls : list Z, sh_lengths (shape_codes ls) = ls.
Proof. exact geometry_lengths. Qed.
Print Assumptions C01_geometry_lengths.

Theorem C01_geometry_size :
  forall ls : list Z, sh_size (shape_codes ls) = zsum ls.
Proof. exact geometry_size. Qed.
Print Assumptions C01_geometry_size.

Theorem C01_build_indices_correct :
  forall (rows : list (Z * Z)) (step : Z),
       Forall (fun r : Z * Z => 0 <= snd r) rows -> build_indices rows step = spec_indices rows step.
Proof. exact build_indices_correct. Qed.
Print Assumptions C01_build_indices_correct.
