#!/venv/bin/python
"""Fail-closed Python-AST -> Gallina translator for the arithmetic kernels of npstructures (DESIGN.md 2.3).

  translate.py <repo root> <output .v>

Every kernel is a method whose body is scalar / elementwise integer arithmetic with `None` tests.  The body is executed symbolically,
statement by statement, in continuation style (an `if` on a run-time condition becomes a Gallina `if` whose two arms each contain the rest
of the body; a test `x is None` on an optional parameter is resolved statically, once per None-pattern of the optional parameters, and
the patterns become the arms of one `match`).  Vector expressions over `self.starts / self.lengths` are translated per row: every
whitelisted numpy function is elementwise.  Anything outside the whitelist raises Unsupported and the translator exits non-zero."""
import ast, itertools, os, sys


class Unsupported(Exception):
    pass


class Kernel:
    def __init__(self, path, cls, fn, gname, params, opt, attrs=None, selfmap=None, calls=None, ret="Z", drop_asserts=True, branch=None, pre=None, uint=None):
        self.path, self.cls, self.fn, self.gname = path, cls, fn, gname
        self.params = params          # [(gallina name, type)] in order; type 'Z' | 'optZ' | 'bool'
        self.opt = opt                # python-level name of every optional parameter -> gallina parameter name
        self.attrs = attrs or {}      # ('obj', 'attr') -> python-level variable it reads, e.g. ('col_slice','start') -> 'cs_start'
        self.selfmap = selfmap or {}  # self.attr -> gallina term
        self.calls = calls or {}      # method name -> function(args gallina) -> gallina
        self.ret = ret
        self.branch = branch          # optional: (predicate on statement) selecting a sub-body
        self.pre = pre or {}          # python variable -> (gallina, type) known on entry
        self.uint = uint              # register width w: the kernel computes in numpy's unsigned w-bit type (casts and `<<` wrap mod 2^w, `~x` is 2^w-1-x)


RESERVED = {"end", "L", "at", "in", "as", "fun", "let", "match", "with", "return", "if", "then", "else", "mod", "Type", "Set", "Prop", "fix", "for"}
def gname(n): return n + "_" if n in RESERVED else n


class Tr:
    def __init__(self, k, env, none):
        self.k, self.env, self.none = k, dict(env), set(none)

    def name(self, n):
        if n in self.none: raise Unsupported(f"use of {n} while it is None")
        if n in self.env: return self.env[n]
        raise Unsupported(f"unknown name {n}")

    def expr(self, e):
        """-> (gallina, type)"""
        k = self.k
        if isinstance(e, ast.Constant):
            if isinstance(e.value, bool): return ("true" if e.value else "false", "bool")
            if isinstance(e.value, int): return (f"({e.value})", "Z")
            raise Unsupported("constant " + repr(e.value))
        if isinstance(e, ast.Name): return self.name(e.id)
        if isinstance(e, ast.Attribute) and isinstance(e.value, ast.Name):
            if e.value.id in ("self", "cls"):
                if "self." + e.attr in self.env: return self.env["self." + e.attr]
                if e.attr in k.selfmap: return (k.selfmap[e.attr], "Z")
                raise Unsupported(f"self.{e.attr}")
            if (e.value.id, e.attr) in k.attrs: return self.name(k.attrs[(e.value.id, e.attr)])
            raise Unsupported(f"{e.value.id}.{e.attr}")
        if isinstance(e, ast.Call) and ("call:" + ast.unparse(e)) in k.calls:
            return (k.calls["call:" + ast.unparse(e)], "Z")                              # a non-elementwise call named by the kernel (its result is a parameter)
        if isinstance(e, ast.UnaryOp):
            v, t = self.expr(e.operand)
            if isinstance(e.op, ast.USub) and t == "Z": return (f"(- {v})", "Z")
            if isinstance(e.op, (ast.Invert, ast.Not)) and t == "bool": return (f"(negb {v})", "bool")
            if isinstance(e.op, ast.Invert) and t == "Z" and k.uint: return (f"(2 ^ {k.uint} - 1 - {v})", "Z")
            raise Unsupported(ast.dump(e)[:80])
        if isinstance(e, ast.BinOp):
            a, ta = self.expr(e.left); b, tb = self.expr(e.right)
            ops = {ast.Add: "+", ast.Sub: "-", ast.Mult: "*", ast.FloorDiv: "/", ast.Mod: "mod"}
            if type(e.op) in ops and ta == tb == "Z": return (f"({a} {ops[type(e.op)]} {b})", "Z")
            if isinstance(e.op, ast.RShift) and ta == tb == "Z" and k.uint: return (f"(Z.shiftr {a} {b})", "Z")
            if isinstance(e.op, ast.LShift) and ta == tb == "Z" and k.uint: return (f"((Z.shiftl {a} {b}) mod 2 ^ {k.uint})", "Z")
            if isinstance(e.op, ast.BitAnd) and ta == tb == "Z" and k.uint: return (f"(Z.land {a} {b})", "Z")
            if isinstance(e.op, ast.BitOr) and ta == tb == "Z" and k.uint: return (f"(Z.lor {a} {b})", "Z")
            if isinstance(e.op, ast.Pow) and ta == tb == "Z" and k.uint: return (f"({a} ^ {b})", "Z")
            if isinstance(e.op, ast.BitAnd) and ta == tb == "bool": return (f"({a} && {b})", "bool")
            if isinstance(e.op, ast.BitOr) and ta == tb == "bool": return (f"({a} || {b})", "bool")
            raise Unsupported(ast.dump(e)[:80])
        if isinstance(e, ast.BoolOp):
            vs = [self.expr(v) for v in e.values]
            vs = [(f"(negb ({v} =? 0))", "bool") if t == "Z" else (v, t) for v, t in vs]       # truthiness of an integer (len(...) and ...)
            if all(t == "bool" for _, t in vs):
                op = " && " if isinstance(e.op, ast.And) else " || "
                return ("(" + op.join(v for v, _ in vs) + ")", "bool")
            raise Unsupported(ast.dump(e)[:80])
        if isinstance(e, ast.Compare) and len(e.ops) == 1:
            a, ta = self.expr(e.left); b, tb = self.expr(e.comparators[0])
            ops = {ast.Lt: "<?", ast.LtE: "<=?", ast.Gt: ">?", ast.GtE: ">=?", ast.Eq: "=?"}
            if ta == tb == "Z":
                if type(e.ops[0]) in ops: return (f"({a} {ops[type(e.ops[0])]} {b})", "bool")
                if isinstance(e.ops[0], ast.NotEq): return (f"(negb ({a} =? {b}))", "bool")
            raise Unsupported(ast.dump(e)[:80])
        if isinstance(e, ast.Call) and isinstance(e.func, ast.Attribute) and isinstance(e.func.value, ast.Name) and e.func.value.id in ("np", "_np"):
            f = e.func.attr; args = [self.expr(a) for a in e.args]
            ts = [t for _, t in args]; vs = [v for v, _ in args]
            if f in ("minimum", "maximum") and ts == ["Z", "Z"]: return (f"(Z.{f[:3]} {vs[0]} {vs[1]})", "Z")
            if f == "clip" and ts == ["Z", "Z", "Z"]: return (f"(Z.min (Z.max {vs[0]} {vs[1]}) {vs[2]})", "Z")
            if f in ("mod", "remainder") and ts == ["Z", "Z"]: return (f"({vs[0]} mod {vs[1]})", "Z")
            if f == "floor_divide" and ts == ["Z", "Z"]: return (f"({vs[0]} / {vs[1]})", "Z")
            if f in ("add", "subtract", "multiply") and ts == ["Z", "Z"]: return (f"({vs[0]} {dict(add='+', subtract='-', multiply='*')[f]} {vs[1]})", "Z")
            if f == "negative" and ts == ["Z"]: return (f"(- {vs[0]})", "Z")
            if f in ("logical_and", "bitwise_and") and ts == ["bool", "bool"]: return (f"({vs[0]} && {vs[1]})", "bool")
            if f in ("logical_or", "bitwise_or") and ts == ["bool", "bool"]: return (f"({vs[0]} || {vs[1]})", "bool")
            if f in ("logical_not", "invert") and ts == ["bool"]: return (f"(negb {vs[0]})", "bool")
            if f == "sign" and ts == ["Z"]: return (f"(Z.sgn {vs[0]})", "Z")
            if f in ("abs", "absolute") and ts == ["Z"]: return (f"(Z.abs {vs[0]})", "Z")
            if f == "where" and ts == ["bool", "Z", "Z"]: return (f"(if {vs[0]} then {vs[1]} else {vs[2]})", "Z")
            if f == "ones_like" and ts == ["Z"]: return ("(1)", "Z")
            if f == "zeros_like" and ts == ["Z"]: return ("(0)", "Z")
            if f in ("asanyarray", "asarray") and len(ts) >= 1 and ts[0] == "Z": return (vs[0], "Z")
            if f in ("any", "all") and ts == ["bool"]: return (vs[0], "bool")          # per row: reduction of a one-element mask
            if f == "min" and ts == ["Z"] and vs[0] in k.calls.get("np.min", {}): return (k.calls["np.min"][vs[0]], "Z")
            if f == "arange" and "np.arange" in k.calls and len(ts) == 1: return (k.calls["np.arange"], "Z")       # per element: the element's own position
            raise Unsupported(f"np.{f}{ts}")
        if k.uint and isinstance(e, ast.Call) and ast.unparse(e.func) in ("self._dtype", "cls._dtype") and len(e.args) == 1 and not e.keywords:
            v, t = self.expr(e.args[0])
            if t == "Z": return (f"({v} mod 2 ^ {k.uint})", "Z")                       # conversion to the unsigned register type
        if k.uint and isinstance(e, ast.Call) and isinstance(e.func, ast.Attribute) and e.func.attr == "astype" and len(e.args) == 1 \
           and ast.unparse(e.args[0]) in ("self._dtype", "cls._dtype"):
            v, t = self.expr(e.func.value)
            if t == "Z": return (f"({v} mod 2 ^ {k.uint})", "Z")
        if isinstance(e, ast.Call) and isinstance(e.func, ast.Attribute) and e.func.attr == "ravel" and not e.args:
            return self.expr(e.func.value)                                              # per element: a reshape
        if isinstance(e, ast.Call) and isinstance(e.func, ast.Name) and e.func.id == "int" and len(e.args) == 1 and not e.keywords:
            v, t = self.expr(e.args[0])
            if t == "Z": return (v, "Z")                                                # int(x) of an integer: the value itself
        if isinstance(e, ast.Call) and isinstance(e.func, ast.Name) and e.func.id == "abs":
            v, t = self.expr(e.args[0])
            if t == "Z": return (f"(Z.abs {v})", "Z")
        if isinstance(e, ast.Call) and isinstance(e.func, ast.Name) and e.func.id == "len" and len(e.args) == 1:
            key = "len:" + ast.unparse(e.args[0])
            if key in k.calls: return (k.calls[key], "Z")
        if isinstance(e, ast.Call) and isinstance(e.func, ast.Attribute) and isinstance(e.func.value, ast.Name) and e.func.value.id == "self" and e.func.attr in k.calls:
            return (k.calls[e.func.attr], "Z")
        if isinstance(e, ast.IfExp):
            st = self.static(e.test)
            if st is not None: return self.expr(e.body if st else e.orelse)
            c, tc = self.expr(e.test); a, ta = self.expr(e.body); b, tb = self.expr(e.orelse)
            if tc == "bool" and ta == tb: return (f"(if {c} then {a} else {b})", ta)
        if isinstance(e, ast.Subscript) and isinstance(e.slice, ast.Name) and ast.unparse(e) in k.calls:
            return (k.calls[ast.unparse(e)], "Z")          # e.g. self._shape.lengths[row] -> the row's length (per-row translation)
        if isinstance(e, (ast.Attribute, ast.Subscript)) and ast.unparse(e) in k.calls:
            return (k.calls[ast.unparse(e)], "Z")
        raise Unsupported(ast.dump(e)[:100])

    def static(self, test):
        """resolve `x is None` / `x is not None` on an optional parameter; None if the test is dynamic"""
        if isinstance(test, ast.Compare) and len(test.ops) == 1 and isinstance(test.ops[0], (ast.Is, ast.IsNot)) \
           and isinstance(test.comparators[0], ast.Constant) and test.comparators[0].value is None:
            l = test.left
            nm = l.id if isinstance(l, ast.Name) else self.k.attrs.get((l.value.id, l.attr)) if isinstance(l, ast.Attribute) and isinstance(l.value, ast.Name) else None
            if nm is None: raise Unsupported("None test on " + ast.dump(l)[:60])
            isnone = nm in self.none
            if not isnone and nm not in self.env: raise Unsupported(f"None test on unknown {nm}")
            return isnone if isinstance(test.ops[0], ast.Is) else not isnone
        if isinstance(test, ast.Call) and isinstance(test.func, ast.Name) and test.func.id == "isinstance":
            key = "isinstance:" + ast.unparse(test)
            if key in self.k.calls: return self.k.calls[key]
        return None


def block(tr, stmts, k):
    """gallina text of the value returned by executing stmts (continuation style)"""
    if not stmts: raise Unsupported("fell off the end of the kernel without return")
    s, rest = stmts[0], stmts[1:]
    if isinstance(s, ast.Expr) and isinstance(s.value, ast.Constant): return block(tr, rest, k)      # docstring
    if isinstance(s, ast.Expr) and isinstance(s.value, ast.Call) and ast.unparse(s.value) in ("self.ravel()",): return block(tr, rest, k)   # materialisation: no arithmetic
    if isinstance(s, ast.Assert): return block(tr, rest, k)                                            # becomes a hypothesis of the tie lemma
    if isinstance(s, ast.Assign) and len(s.targets) == 1:
        tg = s.targets[0]
        if isinstance(tg, ast.Tuple) and isinstance(s.value, ast.Call) and "tuplecall:" + ast.unparse(s.value) in k.calls:
            vals = k.calls["tuplecall:" + ast.unparse(s.value)]                         # start, end, _ = s.indices(len(self)): the results are parameters
            new = Tr(k, tr.env, tr.none)
            for t_, v_ in zip(tg.elts, vals):
                if v_ is not None: new.env[t_.id] = (v_, "Z"); new.none.discard(t_.id)
            return block(new, rest, k)
        if isinstance(tg, ast.Tuple) and isinstance(s.value, ast.Tuple) and len(tg.elts) == len(s.value.elts):
            new = Tr(k, tr.env, tr.none); lets = []
            for t_, v_ in zip(tg.elts, s.value.elts):
                # a tuple of plain reads of optional attributes: rename
                if isinstance(v_, ast.Attribute) and isinstance(v_.value, ast.Name) and (v_.value.id, v_.attr) in k.attrs:
                    src = k.attrs[(v_.value.id, v_.attr)]
                    if src in tr.none: new.none.add(t_.id); new.env.pop(t_.id, None)
                    else: new.env[t_.id] = tr.name(src); new.none.discard(t_.id)
                else:
                    v, ty = tr.expr(v_); lets.append((gname(t_.id), v)); new.env[t_.id] = (gname(t_.id), ty); new.none.discard(t_.id)
            body = block(new, rest, k)
            if len(lets) == 1: return f"let {lets[0][0]} := {lets[0][1]} in\n  {body}"
            if lets:                                                                    # simultaneous, as in Python (a, b = b, a)
                return "let '(" + ", ".join(n for n, _ in lets) + ") := (" + ", ".join(v for _, v in lets) + f") in\n  {body}"
            return body
        if isinstance(tg, ast.Tuple) and isinstance(s.value, ast.GeneratorExp):     # row, col = (np.asanyarray(v) for v in (row, col)): identity per row
            return block(tr, rest, k)
        if isinstance(tg, ast.Attribute) and isinstance(tg.value, ast.Name) and tg.value.id == "self":
            if tg.attr in k.selfmap or not isinstance(s.value, (ast.BinOp, ast.Call, ast.UnaryOp, ast.Constant)) or tg.attr in k.calls.get("skip_attrs", ()):
                return block(tr, rest, k)                                               # plain storing of an argument (self._data = data): nothing to compute
            v, ty = tr.expr(s.value); g = "self" + tg.attr
            new = Tr(k, tr.env, tr.none); new.env["self." + tg.attr] = (g, ty)
            return f"let {g} := {v} in\n  {block(new, rest, k)}"
        if isinstance(tg, ast.Name):
            # reading an optional attribute into a local keeps its None-ness
            v_ = s.value
            if isinstance(v_, ast.Attribute) and isinstance(v_.value, ast.Name) and (v_.value.id, v_.attr) in k.attrs and k.attrs[(v_.value.id, v_.attr)] in tr.none:
                new = Tr(k, tr.env, tr.none | {tg.id}); new.env.pop(tg.id, None)
                return block(new, rest, k)
            if isinstance(v_, ast.Name) and v_.id in tr.none:
                new = Tr(k, tr.env, tr.none | {tg.id}); new.env.pop(tg.id, None)
                return block(new, rest, k)
            v, ty = tr.expr(v_)
            g = gname(tg.id)
            new = Tr(k, tr.env, tr.none - {tg.id}); new.env[tg.id] = (g, ty)
            return f"let {g} := {v} in\n  {block(new, rest, k)}"
    if isinstance(s, ast.AugAssign) and isinstance(s.target, ast.Subscript) and "aug:" + ast.unparse(s.target) in k.calls:
        nm = k.calls["aug:" + ast.unparse(s.target)]                                    # res[:-1] |= x  : per element of the addressed part, res = res | x
        v, ty = tr.expr(ast.BinOp(left=ast.Name(id=nm), op=s.op, right=s.value))
        new = Tr(k, tr.env, tr.none); new.env[nm] = (nm, ty)
        return f"let {nm} := {v} in\n  {block(new, rest, k)}"
    if isinstance(s, ast.AugAssign) and isinstance(s.target, ast.Name):
        v, ty = tr.expr(ast.BinOp(left=s.target, op=s.op, right=s.value))
        new = Tr(k, tr.env, tr.none); new.env[s.target.id] = (s.target.id, ty)
        return f"let {s.target.id} := {v} in\n  {block(new, rest, k)}"
    if isinstance(s, ast.If):
        st = tr.static(s.test)
        if st is not None: return block(tr, (s.body if st else s.orelse) + rest, k)
        c, tc = tr.expr(s.test)
        if tc != "bool": raise Unsupported("non-boolean test")
        return f"(if {c}\n   then {block(tr, s.body + rest, k)}\n   else {block(tr, s.orelse + rest, k)})"
    if isinstance(s, ast.Raise): return "None" if k.ret.startswith("option") else (_ for _ in ()).throw(Unsupported("raise in a total kernel"))
    if isinstance(s, ast.Return):
        v = s.value
        wrap = (lambda x: f"Some {x}") if k.ret.startswith("option") else (lambda x: x)
        if v is not None and "return:" + ast.unparse(v) in k.calls: return k.calls["return:" + ast.unparse(v)]
        if isinstance(v, ast.Call) and ast.unparse(v.func) == "self.__class__":
            parts = [tr.expr(a)[0] for a in v.args]
            if len(parts) == 2: parts.append(k.selfmap.get("__default_step__", "(1)"))
            return wrap("(" + ", ".join(parts) + ")")
        if isinstance(v, ast.Call) and isinstance(v.func, ast.Attribute) and ast.unparse(v.func) == "self._pos_col_slice":
            raise Unsupported("call of _pos_col_slice must be cut by the kernel's branch selector")
        if isinstance(v, ast.Tuple):
            return wrap("(" + ", ".join(tr.expr(a)[0] if not (isinstance(a, ast.Constant) and a.value is None) else "tt" for a in v.elts) + ")")
        return wrap(tr.expr(v)[0])
    raise Unsupported(ast.dump(s)[:100])


def find(tree, cls, fn):
    if cls is None:             # a module-level function
        for n in tree.body:
            if isinstance(n, ast.FunctionDef) and n.name == fn: return n
        raise Unsupported(f"function {fn} not found")
    for n in tree.body:
        if isinstance(n, ast.ClassDef) and n.name == cls:
            for m in n.body:
                if isinstance(m, ast.FunctionDef) and m.name == fn: return m
    raise Unsupported(f"{cls}.{fn} not found")


def gen_kernel(k, repo):
    tree = ast.parse(open(os.path.join(repo, k.path)).read())
    fn = find(tree, k.cls, k.fn)
    body = fn.body
    if k.branch: body = k.branch(body)
    optnames = list(k.opt)
    sig = " ".join(f"({n} : {'option Z' if t == 'optZ' else t})" for n, t in k.params)
    out = [f"Definition {k.gname} {sig} : {k.ret} :="]
    def arm(pattern):
        env = dict(k.pre)
        for n, t in k.params:
            if t != "optZ": env[n] = (n, t)
        none = set()
        for pyname, isnone in zip(optnames, pattern):
            if isnone: none.add(pyname)
            else: env[pyname] = (pyname + "_v", "Z")
        return block(Tr(k, env, none), body, k)
    if not optnames:
        out.append("  " + arm(()) + ".")
    else:
        out.append("  match " + ", ".join(k.opt[n] for n in optnames) + " with")
        for pattern in itertools.product([True, False], repeat=len(optnames)):
            pats = ", ".join("None" if isnone else f"Some {n}_v" for n, isnone in zip(optnames, pattern))
            out.append(f"  | {pats} =>\n  " + arm(pattern))
        out.append("  end.")
    return "\n".join(out)


def after(pred):
    """sub-body: the statements after the first statement satisfying pred"""
    def f(body):
        for i, s in enumerate(body):
            if pred(s): return body[i + 1:]
        raise Unsupported("branch selector found nothing")
    return f


def inside_if(pred):
    def f(body):
        for s in body:
            if isinstance(s, ast.If) and pred(s): return s.body
        raise Unsupported("branch selector found nothing")
    return f


def widen_only(body):
    """drop a statement `if <test on dtypes>: keys = keys.astype(np.int64)`: a widening of the element type changes no value over Z.
    Anything else inside such an `if` is not dropped (the kernel then fails to translate: fail closed)."""
    out = []
    for s in body:
        if isinstance(s, ast.If) and ".dtype" in ast.unparse(s.test):
            if not s.orelse and [ast.unparse(b) for b in s.body] == ["keys = keys.astype(np.int64)"]: continue
            raise Unsupported("dtype-dependent branch that does more than widen: " + ast.unparse(s)[:80])
        out.append(s)
    return out


RS = "npstructures/raggedshape.py"
CS = {("col_slice", "start"): "cs_start", ("col_slice", "stop"): "cs_stop", ("col_slice", "step"): "cs_step"}
KERNELS = [
    # RaggedView2._calculate_lengths(col_slice): the length of every row after a column slice
    Kernel(RS, "RaggedView2", "_calculate_lengths", "gen_calc_len", [("len_", "Z"), ("start0", "optZ"), ("stop0", "optZ"), ("step", "Z")],
           {"cs_start": "start0", "cs_stop": "stop0"}, attrs=CS, selfmap={"lengths": "len_"}, pre={"cs_step": ("step", "Z")}),
    # RaggedView2._pos_col_slice(col_slice): (start, length, column step) of a row after a positive-step column slice
    Kernel(RS, "RaggedView2", "_pos_col_slice", "gen_pos_col_slice", [("s_", "Z"), ("len_", "Z"), ("c_", "Z"), ("start0", "optZ"), ("stop0", "optZ"), ("step", "Z")],
           {"cs_start": "start0", "cs_stop": "stop0"}, attrs=CS, selfmap={"lengths": "len_", "starts": "s_", "col_step": "c_"}, pre={"cs_step": ("step", "Z")}, ret="(Z * Z * Z)"),
    # RaggedView2.col_slice, negative-step branch (everything after `if step > 0: return self._pos_col_slice(...)`)
    Kernel(RS, "RaggedView2", "col_slice", "gen_neg_col_slice", [("s_", "Z"), ("len_", "Z"), ("c_", "Z"), ("start0", "optZ"), ("stop0", "optZ"), ("step", "Z")],
           {"cs_start": "start0", "cs_stop": "stop0"}, attrs=CS, selfmap={"lengths": "len_", "starts": "s_", "col_step": "c_"},
           pre={"cs_step": ("step", "Z"), "step": ("step", "Z")}, ret="(Z * Z * Z)",
           calls={"_calculate_lengths": "(gen_calc_len len_ start0 stop0 step)"},
           branch=after(lambda s: isinstance(s, ast.If) and "self._pos_col_slice" in ast.unparse(s))),
    # RaggedView2.col_slice, integer column: guard (True = refused) and the selected cell of a row
    Kernel(RS, "RaggedView2", "col_slice", "gen_col_int", [("s_", "Z"), ("len_", "Z"), ("c_", "Z"), ("minlen", "Z"), ("nrows", "Z"), ("idx", "Z")],
           {}, attrs={}, selfmap={"lengths": "len_", "starts": "s_", "col_step": "c_"}, pre={"col_slice": ("idx", "Z")}, ret="option (Z * Z * Z)",
           calls={"np.min": {"len_": "minlen"}, "len:self.lengths": "nrows"},
           branch=inside_if(lambda s: "isinstance(col_slice, Number)" in ast.unparse(s.test))),
    # RaggedView2.ends
    Kernel(RS, "RaggedView2", "ends", "gen_ends", [("s_", "Z"), ("len_", "Z"), ("c_", "Z")], {}, selfmap={"lengths": "len_", "starts": "s_", "col_step": "c_"}),
    # HashTable._get_hash / _get_mod
    Kernel("npstructures/hashtable.py", "HashTable", "_get_hash", "gen_hash", [("keys", "Z"), ("mod_", "Z")], {}, selfmap={"_mod": "mod_"},
           calls={"isinstance:isinstance(keys, int)": False}, branch=lambda body: widen_only(body)),
    # ... and the branch taken for a Python int query (the modulus as a Python int)
    Kernel("npstructures/hashtable.py", "HashTable", "_get_hash", "gen_hash_pyint", [("keys", "Z"), ("mod_", "Z")], {}, selfmap={"_mod": "mod_"},
           calls={"isinstance:isinstance(keys, int)": True}, branch=lambda body: widen_only(body)),
    # RunLengthArray._get_position: negative wrap of the index
    Kernel("npstructures/runlengtharray.py", "RunLengthArray", "_get_position", "gen_rle_wrap", [("idx", "Z"), ("n_", "Z")], {},
           calls={"len:self": "n_", "self._ends[-1]": "n_"}, branch=lambda body: [ast.Return(value=body[0].value)]),
]


BA = "npstructures/bitarray.py"
BITSELF = {"_offset": "off_", "_n_entries_per_register": "epr_", "_bit_stride": "stride_", "_mask": "mask_", "_register_size": "(64)", "_shifts": "shift_"}


def with_return(*exprs, cut=None):
    """the body (up to the first statement satisfying `cut`, if given) followed by `return (exprs)`"""
    def f(body):
        if cut is not None:
            for i, s in enumerate(body):
                if cut(s): body = body[:i]; break
            else: raise Unsupported("branch selector found nothing")
        vals = [ast.parse(x, mode="eval").body for x in exprs]
        return list(body) + [ast.Return(value=vals[0] if len(vals) == 1 else ast.Tuple(elts=vals, ctx=ast.Load()))]
    return f


def loop_body(pred, bind, *exprs):
    """one iteration of the first matching `for` loop, per element: the statements before the loop, `bind` (the loop variable as the
    element of the sequence it runs over), the loop body, then `return (exprs)`"""
    def f(body):
        for i, s in enumerate(body):
            if isinstance(s, ast.For) and pred(s):
                return with_return(*exprs)(list(body[:i]) + ast.parse(bind).body + list(s.body))
        raise Unsupported("no matching loop")
    return f


KERNELS += [
    # BitArray.__init__: the derived constants (stride, mask, offset, entries per register, the shift of entry i_)
    Kernel(BA, "BitArray", "__init__", "gen_bit_init", [("bit_stride", "Z"), ("offset", "Z"), ("i_", "Z")], {}, selfmap={"_register_size": "(64)"}, uint=64,
           calls={"np.arange": "i_"}, ret="(Z * Z * Z * Z * Z)",
           branch=with_return("self._bit_stride", "self._mask", "self._offset", "self._n_entries_per_register", "self._shifts")),
    # BitArray.__getitem__ with an integer: register, offset in the register, shift and mask
    Kernel(BA, "BitArray", "__getitem__", "gen_bit_get", [("data_", "Z -> Z"), ("idx", "Z"), ("off_", "Z"), ("epr_", "Z"), ("stride_", "Z"), ("mask_", "Z")], {},
           selfmap=BITSELF, uint=64,
           calls={"self._data[register_idx]": "(data_ register_idx)", "isinstance:isinstance(idx, list)": False, "isinstance:isinstance(idx, Number)": True}),
    # ... with an integer array: the same cell, per element (the cells are then packed again)
    Kernel(BA, "BitArray", "__getitem__", "gen_bit_get_arr", [("data_", "Z -> Z"), ("idx", "Z"), ("off_", "Z"), ("epr_", "Z"), ("stride_", "Z"), ("mask_", "Z")], {},
           selfmap=BITSELF, uint=64,
           calls={"self._data[register_idx]": "(data_ register_idx)", "isinstance:isinstance(idx, list)": False, "isinstance:isinstance(idx, Number)": False,
                  "isinstance:isinstance(idx, np.ndarray)": True},
           branch=lambda body: [x for s in body for x in ([s] if not (isinstance(s, ast.If) and "np.ndarray" in ast.unparse(s.test)) else
                                                          with_return("array", cut=lambda t: isinstance(t, ast.Return))(s.body))]),
    # BitArray.unpack: one cell of (data[:, None] >> shifts) & mask
    Kernel(BA, "BitArray", "unpack", "gen_bit_unpack", [("reg_", "Z"), ("shift_", "Z"), ("mask_", "Z")], {}, selfmap=BITSELF, uint=64,
           calls={"self._data[:, None]": "reg_", "values[:self._shape[0]]": "values"}),
    # BitArray.pack: the shift of entry i_ and one step of the loop `bits[:size] |= x << shift`
    Kernel(BA, "BitArray", "pack", "gen_bit_pack", [("bits", "Z"), ("x_", "Z"), ("bit_stride", "Z"), ("i_", "Z")], {}, selfmap={"_register_size": "(64)"}, uint=64,
           calls={"np.arange": "i_", "array[i::n_entries_per_register]": "x_", "aug:bits[:size]": "bits",
                  "array[0::n_entries_per_register]": "bits", "array[i::n_entries_per_register].size": "(0)"},
           branch=loop_body(lambda s: "enumerate(shifts[1:], 1)" in ast.unparse(s.iter), "shift = shifts", "bits")),
    # BitArray.sliding_window: a cell of a register that has a successor, and of the last register
    Kernel(BA, "BitArray", "sliding_window", "gen_bit_window", [("reg_", "Z"), ("nxt_", "Z"), ("shift_", "Z"), ("rshift_", "Z"), ("window_size", "Z"), ("stride_", "Z")], {},
           selfmap=BITSELF, uint=64,
           calls={"self._data[:, None]": "reg_", "self._data[1:, None]": "nxt_", "self._shifts[::-1]": "rshift_", "aug:res[:-1]": "res",
                  "res.ravel()[:max(self._shape[0] - int(window_size) + 1, 0)]": "res"}),
    Kernel(BA, "BitArray", "sliding_window", "gen_bit_window_last", [("reg_", "Z"), ("shift_", "Z"), ("rshift_", "Z"), ("window_size", "Z"), ("stride_", "Z")], {},
           selfmap=BITSELF, uint=64,
           calls={"self._data[:, None]": "reg_", "self._shifts[::-1]": "rshift_", "res.ravel()[:max(self._shape[0] - int(window_size) + 1, 0)]": "res"},
           branch=lambda body: [s for s in body if not (isinstance(s, ast.AugAssign) and ast.unparse(s.target) == "res[:-1]")]),
]

KERNELS += [
    # IndexableArray._get_element: refusal (safe mode) and the flat position of cell (row, col), per pair
    Kernel("npstructures/raggedarray/indexablearray.py", "IndexableArray", "_get_element", "gen_get_element",
           [("row", "Z"), ("col", "Z"), ("nrows", "Z"), ("len_", "Z"), ("s_", "Z")], {}, selfmap={"_safe_mode": "(1)"}, ret="option (Z * unit)",
           calls={"self._shape.n_rows": "nrows", "self._shape.lengths[row]": "len_", "self._shape.starts[row]": "s_"}),
]

RL = "npstructures/runlengtharray.py"
KERNELS += [
    # RunLengthArray._get_slice: the window [start, end) in forward coordinates, None when it is empty
    Kernel(RL, "RunLengthArray", "_get_slice", "gen_rle_slice_bounds", [("start0", "Z"), ("end0", "Z"), ("step0", "optZ")], {"s_step": "step0"},
           attrs={("s", "step"): "s_step"}, ret="option (Z * Z)",
           calls={"tuplecall:s.indices(len(self))": ["start0", "end0", None],
                  "return:self.__class__(np.array([0]), np.empty_like(self._values, shape=(0,)))": "None"},
           branch=with_return("(start, end)", cut=lambda s: "_start_to_end" in ast.unparse(s))),
    # RunLengthArray._step_subset: the new position of one boundary
    Kernel(RL, "RunLengthArray", "_step_subset", "gen_rle_step_idx", [("x_", "Z"), ("xr_", "Z"), ("last_", "Z"), ("step", "Z")], {},
           selfmap={"_events": "x_", "_values": "(0)"}, calls={"indices[-1]": "last_", "indices[::-1]": "xr_", "values[::-1]": "(0)"},
           branch=with_return("indices", cut=lambda s: "remove_empty_intervals" in ast.unparse(s))),
    # IndexableMixin._step_subset (2-D / ragged variant)
    Kernel(RL, "IndexableMixin", "_step_subset", "gen_rl2_step_idx", [("x_", "Z"), ("xr_", "Z"), ("last_", "Z"), ("step", "Z")], {},
           pre={"indices": ("x_", "Z"), "values": ("(0)", "Z")},
           calls={"indices[..., -1][..., np.newaxis]": "last_", "indices[..., ::-1]": "xr_", "values[..., ::-1]": "(0)"},
           branch=with_return("indices", cut=lambda s: "remove_empty_intervals" in ast.unparse(s))),
]

def rslice_arith(body):
    """ragged_slice: the per-row arithmetic between the input-kind dispatch (`if isinstance(array, RaggedArray): ... else: ...`, which only
    defines base_starts / base_ends) and the gather (`indices, shape = RaggedView(starts, lengths).get_flat_indices()`); the kernel returns
    the (start, length) pair handed to RaggedView"""
    i0 = next((i for i, s in enumerate(body) if isinstance(s, ast.If) and "isinstance(array, RaggedArray)" in ast.unparse(s.test)), None)
    i1 = next((i for i, s in enumerate(body) if isinstance(s, ast.Assign) and "RaggedView(starts, lengths)" in ast.unparse(s.value)), None)
    if i0 is None or i1 is None or i1 <= i0: raise Unsupported("ragged_slice: dispatch / gather statements not found")
    return body[i0 + 1:i1] + [ast.Return(value=ast.Tuple(elts=[ast.Name(id="starts"), ast.Name(id="lengths")]))]


KERNELS += [
    # ragged_slice(array, starts, ends): start and length of every row's window (both bounds optional; negative ends from the row end)
    Kernel("npstructures/raggedarray/raggedslice.py", None, "ragged_slice", "gen_rslice_row", [("base_starts", "Z"), ("base_ends", "Z"), ("starts0", "optZ"), ("ends0", "optZ")],
           {"starts": "starts0", "ends": "ends0"}, ret="(Z * Z)", branch=rslice_arith),
]

def window_arith(body):
    """RunLengthArray._start_to_end, vector branch: the two searchsorted results, the empty-window cut of end_idx, and the last boundary
    written into every row; the gathers (ragged_slice) between them are left out - they are C08's theorem"""
    def find(pred):
        for s in ast.walk(ast.Module(body=body, type_ignores=[])):
            if isinstance(s, ast.Assign) and pred(s): return s
        raise Unsupported("_start_to_end: statement not found")
    a0 = find(lambda s: ast.unparse(s.targets[0]) == "start_idx")
    a1 = find(lambda s: ast.unparse(s.targets[0]) == "end_idx" and "searchsorted" in ast.unparse(s.value))
    a2 = find(lambda s: ast.unparse(s.targets[0]) == "end_idx" and "np.where" in ast.unparse(s.value))
    a3 = find(lambda s: ast.unparse(s.targets[0]) == "events[..., -1]")
    return [a0, a1, a2, ast.Return(value=ast.Tuple(elts=[ast.Name(id="start_idx"), ast.Name(id="end_idx"), a3.value]))]


KERNELS += [
    Kernel("npstructures/runlengtharray.py", "RunLengthArray", "_start_to_end", "gen_rle_window", [("ssr_", "Z"), ("ssl_", "Z"), ("start", "Z"), ("end_", "Z")], {},
           ret="(Z * Z * Z)", pre={"end": ("end_", "Z")},
           calls={"call:np.searchsorted(self._events, start, side='right')": "ssr_", "call:np.searchsorted(self._events, end, side='left')": "ssl_"}, branch=window_arith),
]

GROUPS = {"view": ["gen_calc_len", "gen_pos_col_slice", "gen_neg_col_slice", "gen_col_int", "gen_ends"], "hash": ["gen_hash", "gen_hash_pyint"], "elem": ["gen_get_element"], "rslice": ["gen_rslice_row"], "rle": ["gen_rle_wrap", "gen_rle_slice_bounds", "gen_rle_step_idx", "gen_rl2_step_idx", "gen_rle_window"],
          "bits": ["gen_bit_init", "gen_bit_get", "gen_bit_get_arr", "gen_bit_unpack", "gen_bit_pack", "gen_bit_window", "gen_bit_window_last"]}


def main():
    """translate.py <repo root> <output dir>: writes K_<group>.v for every group; a kernel that cannot be translated is reported on stdout as
    `FAILED <kernel>: <reason>` and left out (the tie lemma that needs it then does not compile: fail closed)"""
    repo, outd = sys.argv[1], sys.argv[2]
    byname = {k.gname: k for k in KERNELS}
    for g, names in GROUPS.items():
        parts = ["(* GENERATED by tools/translate.py from the current sources of npstructures - do not edit *)",
                 "From Coq Require Import ZArith Bool.\nOpen Scope Z_scope.\nOpen Scope bool_scope.\n"]
        for n in names:
            k = byname[n]
            try:
                parts.append(f"(* {k.path}: {k.cls}.{k.fn} *)\n" + gen_kernel(k, repo) + "\n")
            except Unsupported as e:
                print(f"FAILED {n}: Unsupported: {e}"); parts.append(f"(* {n}: NOT TRANSLATED: {str(e)[:200].replace('*)', '* )')} *)\n")
            except (SyntaxError, OSError, AttributeError, IndexError, KeyError, TypeError) as e:
                print(f"FAILED {n}: {type(e).__name__}: {e}"); parts.append(f"(* {n}: NOT TRANSLATED *)\n")
        new = "\n".join(parts)
        path = os.path.join(outd, f"K_{g}.v")
        if not os.path.exists(path) or open(path).read() != new:
            open(path, "w").write(new)
    print("done")


if __name__ == "__main__":
    main()
