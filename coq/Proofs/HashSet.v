From Coq Require Import ZifyBool.
From NPS Require Import ListAux PySlice NumpySem BuildIdx RLE Hash MapSpec Denote SetItem SliceAP HashProof HashInit.
Open Scope Z_scope.

(* C11: assignment changes the assigned keys only; the key set never changes *)
Section HS.
Variable V : Type.
Variable dv : V.
Notation aget := (aget V).
Notation aset := (aset V).
Notation Inv := (Inv V dv).
Notation table := (table V).

Lemma aget_aset d k v k' : aget (aset d k v) k' = if k' =? k then (match aget d k with Some _ => Some v | None => None end) else aget d k'.
Proof.
  induction d as [|[a b] d IH]; [cbn; destruct (k' =? k); reflexivity|].
  cbn [MapSpec.aset]. destruct (a =? k) eqn:E1.
  - cbn [MapSpec.aget]. rewrite E1. destruct (a =? k') eqn:E2; destruct (k' =? k) eqn:E3; try reflexivity; lia.
  - cbn [MapSpec.aget]. rewrite E1, IH. destruct (a =? k') eqn:E2; destruct (k' =? k) eqn:E3; try reflexivity; lia.
Qed.

(* cells *)
Lemma set_nth_length {X} (l : list X) n v : length (Hash.set_nth l n v) = length l.
Proof. revert n; induction l as [|x l IH]; intros [|n]; cbn; auto. Qed.
Lemma nth_set_nth_eq {X} (l : list X) n v d : (n < length l)%nat -> nth n (Hash.set_nth l n v) d = v.
Proof. revert n; induction l as [|x l IH]; intros [|n] H; cbn in *; try lia; auto. apply IH; lia. Qed.
Lemma nth_set_nth_neq {X} (l : list X) n m v d : n <> m -> nth n (Hash.set_nth l m v) d = nth n l d.
Proof. revert n m; induction l as [|x l IH]; intros [|n] [|m] H; cbn; auto; try lia. Qed.

Lemma cell_set_same (vb : list (list V)) h j v : (Z.to_nat h < length vb)%nat -> (Z.to_nat j < length (nth (Z.to_nat h) vb []))%nat ->
  cell dv (set_cell vb (h, j) v) (h, j) = v.
Proof. intros H1 H2. unfold cell, set_cell. cbn [fst snd]. rewrite nth_set_nth_eq by assumption. now apply nth_set_nth_eq. Qed.
Lemma cell_set_other (vb : list (list V)) p q v : (Z.to_nat (fst p), Z.to_nat (snd p)) <> (Z.to_nat (fst q), Z.to_nat (snd q)) ->
  cell dv (set_cell vb p v) q = cell dv vb q.
Proof.
  intros H. unfold cell, set_cell. destruct (Nat.eq_dec (Z.to_nat (fst q)) (Z.to_nat (fst p))) as [E|E].
  - rewrite E. destruct (Nat.lt_ge_cases (Z.to_nat (fst p)) (length vb)) as [Hl|Hl].
    + rewrite nth_set_nth_eq by assumption. apply nth_set_nth_neq. intros C. apply H. now rewrite C, E.
    + rewrite !(nth_overflow _ []) by (rewrite ?set_nth_length; lia). cbn. destruct (Z.to_nat (snd q)); reflexivity.
  - now rewrite nth_set_nth_neq by assumption.
Qed.
Lemma set_cell_shape (vb : list (list V)) p v : map (@length V) (set_cell vb p v) = map (@length V) vb.
Proof.
  unfold set_cell. generalize (Z.to_nat (fst p)) as n. generalize (Z.to_nat (snd p)) as m. intros m n.
  revert n; induction vb as [|r vb IH]; intros [|n]; cbn; auto.
  - now rewrite set_nth_length.
  - f_equal. destruct n; cbn in *; [destruct vb; cbn; [reflexivity|now rewrite set_nth_length]|].
    specialize (IH (S n)). cbn in IH. exact IH.
Qed.

Lemma index_of_unique row j k : NoDup row -> nth_error row j = Some k -> index_of k row = Z.of_nat j.
Proof.
  revert j; induction row as [|x row IH]; intros j Hnd H; [destruct j; discriminate|].
  inversion Hnd as [|? ? Hx Hnd']; subst. cbn [index_of]. destruct j as [|j]; cbn [nth_error] in H.
  - injection H as ->. now rewrite Z.eqb_refl.
  - destruct (x =? k) eqn:E; [assert (x = k) by lia; subst x; exfalso; apply Hx; eapply nth_error_In; eauto|].
    rewrite (IH j Hnd' H). lia.
Qed.

Definition with_vals (t : table) (vb : list (list V)) : table := {| t_mod := t_mod t ; t_keys := t_keys t ; t_vals := VAligned vb |}.

Lemma slot_with_vals t vb k : slot V (with_vals t vb) k = slot V t k.
Proof. reflexivity. Qed.

Lemma write_one t d vb k v : Inv t d -> t_vals t = VAligned vb -> present V d k = true ->
  Inv (with_vals t (set_cell vb (slot V t k) v)) (aset d k v).
Proof.
  intros HI Ev Hp. pose proof HI as [Hb (Hkeys & Hv)]. rewrite Ev in Hv. destruct Hv as [Hshape Hcells].
  pose proof Hb as (Hm & Hl & Hnd & Hbk).
  assert (Hak : aget d k <> None) by (unfold present in Hp; destruct (aget d k); congruence).
  assert (Hin : In k (bucket V t k)) by (apply (In_bucket V dv t d k HI); exact Hak).
  destruct (nth_index_of k (bucket V t k) 0 Hin) as [Hn Hr].
  split; [exact Hb|]. split; cbn [with_vals t_keys t_vals t_mod].
  - intros k'. rewrite aget_aset. destruct (k' =? k) eqn:E.
    + assert (k' = k) by lia. subst k'. rewrite Hkeys. destruct (aget d k); [split; congruence|congruence].
    + apply Hkeys.
  - split; [now rewrite set_cell_shape|].
    intros h j k' Hh Hj Hnth. rewrite aget_aset.
    assert (Hink' : In k' (nth (Z.to_nat h) (t_keys t) [])) by (eapply nth_error_In; eauto).
    assert (Hhash : hash (t_mod t) k' = h) by (apply (Hbk h k' Hh); exact Hink').
    assert (Hidx : index_of k' (nth (Z.to_nat h) (t_keys t) []) = j).
    { rewrite (index_of_unique _ (Z.to_nat j) k'); [lia| |exact Hnth]. eapply (NoDup_bucket V dv t d); eauto. }
    destruct (k' =? k) eqn:E.
    + assert (k' = k) by lia. subst k'. destruct (aget d k) eqn:Ea; [|congruence]. f_equal.
      assert (Es : slot V t k = (h, j)). { unfold slot, bucket. rewrite Hhash. now rewrite Hidx. }
      rewrite Es. symmetry. apply cell_set_same.
      * assert (length vb = length (t_keys t)) by (rewrite <- (map_length (@length V)), Hshape; now rewrite map_length).
        unfold zlen in Hl. lia.
      * assert (E2 : length (nth (Z.to_nat h) vb []) = length (nth (Z.to_nat h) (t_keys t) [])).
        { rewrite <- (map_nth (@length V)), <- (map_nth (@length Z)). cbn [length]. now rewrite Hshape. }
        rewrite E2. apply nth_error_Some. congruence.
    + rewrite cell_set_other; [now apply Hcells|].
      unfold slot, bucket. cbn [fst snd]. intros C. injection C as C1 C2.
      assert (Hh2 : hash (t_mod t) k = h) by (pose proof (hash_range (t_mod t) k Hm); lia).
      rewrite Hh2 in C2. fold (bucket V t k) in Hr.
      assert (nth (Z.to_nat j) (nth (Z.to_nat h) (t_keys t) []) 0 = k).
      { unfold bucket in Hn. rewrite Hh2 in Hn. rewrite <- Hn. f_equal. lia. }
      apply nth_error_nth with (d := 0) in Hnth. lia.
Qed.

Lemma nth_map_map {X Y} (g : X -> Y) (K : list (list X)) n : nth n (map (map g) K) [] = map g (nth n K []).
Proof. exact (map_nth (map g) K [] n). Qed.

(* materialising a scalar-valued table keeps the invariant *)
Lemma fill_values_inv t d : Inv t d -> Inv (with_vals t (fill_values V t)) d.
Proof.
  intros HI. pose proof HI as [Hb (Hkeys & Hv)]. split; [exact Hb|]. split; cbn [with_vals t_keys t_vals t_mod]; [exact Hkeys|].
  unfold fill_values. destruct (t_vals t) as [v|vb] eqn:Ev; [|exact Hv].
  split; [rewrite map_map; apply map_ext; intros r; now rewrite map_length|].
  intros h j k Hh Hj Hnth. rewrite (Hv k).
  - f_equal. unfold cell. cbn [fst snd].
    assert (Hlt : (Z.to_nat j < length (nth (Z.to_nat h) (t_keys t) []))%nat) by (apply nth_error_Some; congruence).
    rewrite nth_map_map. rewrite (nth_indep _ dv ((fun _ : Z => v) 0)) by (rewrite map_length; exact Hlt).
    symmetry. exact (map_nth (fun _ : Z => v) (nth (Z.to_nat h) (t_keys t) []) 0 (Z.to_nat j)).
  - apply in_concat. exists (nth (Z.to_nat h) (t_keys t) []). split; [|eapply nth_error_In; eauto].
    apply nth_In. destruct (Nat.lt_ge_cases (Z.to_nat h) (length (t_keys t))) as [Hl|Hl]; [exact Hl|].
    rewrite (nth_overflow (t_keys t)) in Hnth by lia. destruct (Z.to_nat j); discriminate.
Qed.

Lemma writes t d : forall ks vs vb, Inv (with_vals t vb) d -> forallb (present V d) ks = true -> length ks = length vs ->
  Inv (with_vals t (set_cells vb (map (slot V t) ks) vs)) (fold_left (fun d kv => aset d (fst kv) (snd kv)) (combine ks vs) d).
Proof.
  intros ks. revert d. induction ks as [|k ks IH]; intros d vs vb HI Hp Hl; destruct vs as [|v vs]; try discriminate; [exact HI|].
  cbn [forallb] in Hp. apply andb_true_iff in Hp. destruct Hp as [Hpk Hps]. injection Hl as Hl.
  cbn [map set_cells combine fold_left fst snd].
  pose proof (write_one (with_vals t vb) d vb k v HI eq_refl Hpk) as H1. rewrite slot_with_vals in H1.
  apply (IH (aset d k v) vs (set_cell vb (slot V t k) v) H1); [|exact Hl].
  (* presence is unchanged by assignment *)
  apply forallb_forall. intros k' Hk'. rewrite forallb_forall in Hps. specialize (Hps k' Hk'). unfold present in *.
  rewrite aget_aset. destruct (k' =? k) eqn:E; [|exact Hps].
  unfold present in Hpk. destruct (aget d k); [reflexivity|discriminate].
Qed.

Theorem setv_correct t d ks vs : Inv t d ->
  match setv V t ks vs, spec_setv V d ks vs with
  | Ok t', Ok d' => Inv t' d'
  | Refused, Refused => True
  | _, _ => False
  end.
Proof.
  intros HI. unfold setv, spec_setv. rewrite (get_indices_correct V dv t d ks HI).
  assert (Hpres : forallb (amem V d) ks = forallb (present V d) ks) by (apply forallb_ext'; intros k; reflexivity).
  rewrite Hpres. destruct (forallb (present V d) ks) eqn:Ep; cbn [rbind andb]; [|exact I].
  rewrite map_length. destruct (Nat.eqb (length ks) (length vs)) eqn:El; cbn [negb]; [|exact I].
  apply Nat.eqb_eq in El.
  change {| t_mod := t_mod t; t_keys := t_keys t; t_vals := VAligned (set_cells (fill_values V t) (map (slot V t) ks) vs) |}
    with (with_vals t (set_cells (fill_values V t) (map (slot V t) ks) vs)).
  apply writes; [now apply fill_values_inv|exact Ep|exact El].
Qed.

(* histories: after any sequence of lookups and assignments the table answers like the dictionary *)
Inductive op := OGet (ks : list Z) | OSet (ks : list Z) (vs : list V).
Definition tstep (t : table) (o : op) : table * option (res (list V)) :=
  match o with
  | OGet ks => (t, Some (getv V dv t ks))
  | OSet ks vs => match setv V t ks vs with Ok t' => (t', None) | Refused => (t, None) end
  end.
Definition dstep (d : assoc V) (o : op) : assoc V * option (res (list V)) :=
  match o with
  | OGet ks => (d, Some (spec_getv V d ks))
  | OSet ks vs => match spec_setv V d ks vs with Ok d' => (d', None) | Refused => (d, None) end
  end.
Fixpoint trun (t : table) (ops : list op) := match ops with [] => [] | o :: r => let '(t', out) := tstep t o in out :: trun t' r end.
Fixpoint drun (d : assoc V) (ops : list op) := match ops with [] => [] | o :: r => let '(d', out) := dstep d o in out :: drun d' r end.

Theorem history_correct : forall ops t d, Inv t d -> trun t ops = drun d ops.
Proof.
  induction ops as [|o ops IH]; intros t d HI; [reflexivity|]. destruct o as [ks|ks vs]; cbn [trun drun tstep dstep].
  - rewrite (getv_correct V dv t d ks HI). f_equal. now apply IH.
  - pose proof (setv_correct t d ks vs HI) as H.
    destruct (setv V t ks vs) as [t'|], (spec_setv V d ks vs) as [d'|]; try contradiction; f_equal; now apply IH.
Qed.

Corollary table_is_dictionary keys vals m t ops : NoDup keys -> mk V keys vals m = Ok t ->
  trun t ops = drun (combine keys vals) ops.
Proof. intros Hnd Hmk. apply history_correct. eapply Inv_mk; eauto. Qed.
End HS.
Print Assumptions table_is_dictionary.
