(* C05 — property theorems only: each restates the full statement and is closed by the lemma proved in Proofs/. *)
From Coq Require Import ZArith List Bool.
From NPS Require Import ListAux PySlice NumpySem Scatter BuildIdx XorBroadcast View Index Assign Reduce Scan RaOps Heap Hash HashRun BitArr RLE RLEOps RLE2d DataClass RowsSpec AssignSpec MapSpec Denote ReduceProof ArgmaxProof ColMean RaMean.
Import ListNotations.
Open Scope Z_scope.

Theorem C05_reduce_correct :
  forall (A : Type) (dflt : A) (op : A -> A -> A) (e : A) (d : list A) (ls : list Z),
       all_nonneg ls -> zsum ls = zlen d -> reduce_model A dflt op e d ls = Some (spec_reduce A op e d ls).
Proof. exact reduce_correct. Qed.
Print Assumptions C05_reduce_correct.

Theorem C05_ra_row_mean_correct :
  forall (C : Type) (dv : Z -> Z -> C) (R : list (list Z)),
       ra_row_mean dv (concat R, map zlen R) = Some (map (fun r : list Z => dv (zsum r) (zlen r)) R).
Proof. exact (@ra_row_mean_correct). Qed.
Print Assumptions C05_ra_row_mean_correct.

Theorem C05_first_occurrences :
  forall (R : list (list Z)) (ms : list Z) (k : Z) (prev : option Z) (pre : list Z),
       (forall (r : list Z) (m : Z), In (r, m) (combine R ms) -> r <> [] -> In m r) ->
       match prev with
       | Some p => p < k
       | None => True
       end ->
       map (fun i : Z => nth (Z.to_nat i) (pre ++ nz_cols R ms) 0)
         (fnz_from (zlen pre) (change_mask prev (nz_rows k R ms))) = arg_spec R ms.
Proof. exact first_occurrences. Qed.
Print Assumptions C05_first_occurrences.

Theorem C05_argmax_correct :
  forall (R : list (list Z)) (ms : list Z),
       length ms = length R ->
       (forall (r : list Z) (m : Z), In (r, m) (combine R ms) -> r <> [] -> m = zmax_list r) ->
       arg_model R ms = argmax_rows R.
Proof. exact argmax_correct. Qed.
Print Assumptions C05_argmax_correct.

Theorem C05_argmin_correct :
  forall (R : list (list Z)) (ms : list Z),
       length ms = length R ->
       (forall (r : list Z) (m : Z), In (r, m) (combine R ms) -> r <> [] -> m = zminl r) ->
       arg_model R ms = argmin_rows R.
Proof. exact argmin_correct. Qed.
Print Assumptions C05_argmin_correct.
