From NPS Require Import ListAux PySlice NumpySem Scatter BuildIdx View Index RLE XorBroadcast RowsSpec Assign.
Open Scope Z_scope.

(* C03 spec: tag every cell with its row-major position, read the tags with the selector (C02's spec),
   write the values to exactly those cells in that order, leave everything else alone *)
Definition tagged {A} (r : list (list A)) : list (list Z) :=
  segments (ap 0 (zlen (concat r)) 1) (map zlen r).

Definition spec_expand {A} (cells : result Z) (v : value A) : res (list Z * list A) :=
  match cells, v with
  | RScalar p, VScalar x => Ok ([p], [x])
  | RScalar _, _ => Refused
  | RFlat ps, VScalar x => Ok (ps, repeat x (length ps))
  | RFlat ps, VFlat l => rmap (fun l' => (ps, l')) (bcast1 (length ps) l)
  | RFlat ps, VCol [x] => Ok (ps, repeat x (length ps))
  | RFlat _, _ => Refused
  | RRagged rows, VScalar x => Ok (concat rows, repeat x (length (concat rows)))
  | RRagged rows, VFlat l => rmap (fun l' => (concat rows, l')) (bcast1 (length (concat rows)) l)
  | RRagged rows, VCol [x] => Ok (concat rows, repeat x (length (concat rows)))
  | RRagged rows, VCol l =>
      if Nat.eqb (length l) (length rows) then Ok (concat rows, spec_broadcast A l (map zlen rows)) else Refused
  | RRagged rows, VRagged r =>
      if list_eq_dec Z.eq_dec (map zlen r) (map zlen rows) then Ok (concat rows, concat r) else Refused
  end.

Definition spec_setitem {A} (r : list (list A)) (idx : index) (v : value A) : res (list (list A)) :=
  rbind (spec_getitem (tagged r) idx) (fun cells =>
  rbind (spec_expand cells v) (fun pv =>
  if Nat.eqb (length (fst pv)) (length (snd pv))       (* one value per addressed cell *)
  then Ok (segments (scatter_set (concat r) (fst pv) (snd pv)) (map zlen r))
  else Refused)).
