From Coq Require Import ZifyBool.
From NPS Require Import ListAux PySlice NumpySem Scatter BuildIdx SliceAP View Index RLE XorBroadcast XorProof Denote SelRows MaterialiseWF Kernels ColSlice RowsSpec GetItem Assign AssignSpec SetItem.
Open Scope Z_scope.

(* C06: a derived (lazy) array is well formed and denotes what the spec says; hence chains of any depth,
   and every further operation, behave as on a freshly built array *)
Section C.
Variable A : Type.
Variable dflt : A.
Notation WF := (Denote.WF A).
Notation denote := (Denote.denote A dflt).

Definition derived (g : gres A) : option (ra A) := match g with GLazy a | GWhole a => Some a | _ => None end.

Lemma getitem_derived_wf (a : ra A) idx g a' : WF a -> getitem a idx = Ok g -> derived g = Some a' -> WF a'.
Proof.
  intros HW Hg Hd.
  destruct idx as [[i|s]|r c|m|]; cbn [getitem] in Hg.
  - destruct (materialise a) as [a0|]; [|discriminate]. cbn [rbind] in Hg.
    destruct (np_item _ i); cbn [rmap] in Hg; [injection Hg as <-; discriminate|discriminate].
  - destruct s as [sl|il|mk|].
    4:{ destruct (materialise_wf A dflt a HW) as (a0 & Em & HW0 & _ & _). rewrite Em in Hg. cbn [rmap] in Hg.
        injection Hg as <-. cbn [derived] in Hd. injection Hd as <-. exact HW0. }
    all: match type of Hg with rmap _ (select_rows_geom _ ?s) = _ =>
           pose proof (select_rows_denote A dflt a s HW) as Hs; destruct (select_rows_geom (ra_geom a) s) as [g'|] eqn:E; [|discriminate];
           destruct (sel_rows s (denote a)); [|discriminate] end;
      destruct Hs as (g'' & Eg & HW' & _); injection Eg as <-; cbn [rmap] in Hg; injection Hg as <-;
      cbn [derived] in Hd; injection Hd as <-; exact HW'.
  - destruct (is_int_typed r c) eqn:Et.
    + destruct (element_pairs r c) as [[pairs sc]|]; [|discriminate].
      destruct (get_elements a pairs) as [l|]; [|discriminate]. cbn [rbind] in Hg.
      destruct sc; [destruct l as [|x [|y l]]; try discriminate|]; injection Hg as <-; discriminate.
    + set (r' := match r with RMany RAll => RMany (RSlice all_slice) | _ => r end) in *.
      pose proof (view_rows_denote A dflt a r' HW) as Hv.
      destruct (view_rows_geom (ra_geom a) r') as [[rows cs]|] eqn:Ev; [|discriminate]. cbn [rbind] in Hg.
      destruct (spec_rows (denote a) r') as [[R' sq]|]; [|discriminate].
      destruct Hv as (rows0 & E0 & Hok & _). injection E0 as <- Ecs. subst cs.
      assert (Hsl : forall sl, col_slice_sl rows (g_step (ra_geom a)) sl = Ok (GView2 (map (col_kernel (g_step (ra_geom a)) sl) rows) (g_step (ra_geom a) * step_of sl)) ->
                    WF {| ra_data := ra_data a; ra_geom := GView2 (map (col_kernel (g_step (ra_geom a)) sl) rows) (g_step (ra_geom a) * step_of sl) |}).
      { intros sl Esl. assert (E0 : step_of sl <> 0).
        { unfold col_slice_sl in Esl. destruct (step_of sl =? 0) eqn:E; [discriminate|lia]. }
        destruct (col_slice_rows A dflt (ra_data a) (g_step (ra_geom a)) sl rows Hok E0) as [Hok2 _]. split; [exact Hok2|exact I]. }
      destruct c as [j|sl| |js]; cbn [rbind] in Hg.
      * destruct (col_slice_int rows _ j) as [g2|]; [|discriminate]. cbn [rbind] in Hg.
        destruct r; destruct (np_take _ _); cbn [rmap] in Hg; try discriminate; injection Hg as <-; discriminate.
      * destruct (Z.eq_dec (step_of sl) 0) as [E0|E0].
        { unfold col_slice_sl in Hg. replace (step_of sl =? 0) with true in Hg by lia. discriminate. }
        rewrite col_slice_sl_eq in Hg by assumption. cbn [rbind] in Hg.
        destruct r as [i|s0].
        -- destruct (np_take _ _); cbn [rmap] in Hg; try discriminate; injection Hg as <-; discriminate.
        -- injection Hg as <-. cbn [derived] in Hd. injection Hd as <-. apply Hsl. now apply col_slice_sl_eq.
      * assert (E0 : step_of all_slice <> 0) by (cbn; lia).
        rewrite col_slice_sl_eq in Hg by assumption. cbn [rbind] in Hg.
        destruct r as [i|s0].
        -- destruct (np_take _ _); cbn [rmap] in Hg; try discriminate; injection Hg as <-; discriminate.
        -- injection Hg as <-. cbn [derived] in Hd. injection Hd as <-. apply Hsl. now apply col_slice_sl_eq.
      * discriminate.
  - destruct (materialise a) as [a0|]; [|discriminate]. cbn [rbind] in Hg.
    destruct (np_take _ _); cbn [rmap] in Hg; [injection Hg as <-; discriminate|discriminate].
  - destruct (materialise_wf A dflt a HW) as (a0 & Em & HW0 & _ & _). rewrite Em in Hg. cbn [rmap] in Hg.
    injection Hg as <-. cbn [derived] in Hd. injection Hd as <-. exact HW0.
Qed.

(* one lazy step denotes the spec's selection *)
Theorem derived_denote (a : ra A) idx g a' : WF a -> index_ok A (denote a) idx ->
  getitem a idx = Ok g -> derived g = Some a' ->
  WF a' /\ spec_getitem (denote a) idx = Ok (RRagged (denote a')).
Proof.
  intros HW Hiok Hg Hd. pose proof (getitem_derived_wf a idx g a' HW Hg Hd) as HW'. split; [exact HW'|].
  rewrite <- (getitem_correct A dflt a idx HW Hiok). unfold model_obs. rewrite Hg. cbn [rbind].
  destruct g; try discriminate; cbn [derived] in Hd; injection Hd as ->; cbn [observe]; now rewrite (rows_of_denote A dflt a' HW').
Qed.

(* chains of selections of any depth *)
Fixpoint chain_model (a : ra A) (idxs : list index) : res (ra A) :=
  match idxs with
  | [] => Ok a
  | idx :: rest => match getitem a idx with
                   | Ok g => match derived g with Some a' => chain_model a' rest | None => Refused end
                   | Refused => Refused
                   end
  end.
Fixpoint chain_spec (R : list (list A)) (idxs : list index) : res (list (list A)) :=
  match idxs with
  | [] => Ok R
  | idx :: rest => match spec_getitem R idx with Ok (RRagged R') => chain_spec R' rest | _ => Refused end
  end.
Fixpoint chain_ok (R : list (list A)) (idxs : list index) : Prop :=
  match idxs with
  | [] => True
  | idx :: rest => index_ok A R idx /\ match spec_getitem R idx with Ok (RRagged R') => chain_ok R' rest | _ => True end
  end.

Theorem chain_correct : forall idxs (a a' : ra A), WF a -> chain_ok (denote a) idxs ->
  chain_model a idxs = Ok a' -> WF a' /\ chain_spec (denote a) idxs = Ok (denote a').
Proof.
  induction idxs as [|idx rest IH]; intros a a' HW Hok H; cbn [chain_model chain_spec chain_ok] in *.
  - injection H as <-. split; [assumption|reflexivity].
  - destruct Hok as [Hiok Hrest]. destruct (getitem a idx) as [g|] eqn:Eg; [|discriminate].
    destruct (derived g) as [a1|] eqn:Ed; [|discriminate].
    destruct (derived_denote a idx g a1 HW Hiok Eg Ed) as [HW1 Hs]. rewrite Hs in *. now apply IH.
Qed.

(* indistinguishability: operations only see the denoted rows *)
Corollary indistinguishable_read (a b : ra A) idx : WF a -> WF b -> denote a = denote b -> index_ok A (denote a) idx ->
  model_obs A a idx = model_obs A b idx.
Proof.
  intros Ha Hb E Hi. rewrite (getitem_correct A dflt a idx Ha Hi).
  rewrite E in Hi. rewrite (getitem_correct A dflt b idx Hb Hi). now rewrite E.
Qed.
End C.
Print Assumptions chain_correct.
