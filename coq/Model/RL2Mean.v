From NPS Require Import ListAux NumpySem RLE RLEOps RLE2d.
Open Scope Z_scope.

(* RunLengthRaggedArray.mean(axis=0) (runlengtharray.py L884-886): `self.sum(axis=0) / self.col_counts()` -- the binary ufunc path of
   RunLengthArray (_apply_binary_func) applied to the two column arrays.  The division itself is a parameter: the model fixes which
   sum meets which count, in which order, and how the two boundary lists are merged. *)
Section Mean.
Variable C : Type.
Variable ceqb : C -> C -> bool.
Variable dv : Z -> Z -> C.
Definition rl2_col_mean (x : rl2) : res (rla C) := apply_binary Z Z C 0 0 ceqb dv (rl2_col_sum x) (rl2_col_counts x).
End Mean.
