From Coq Require Import ZifyBool.
From NPS Require Import ListAux PySlice NumpySem Scatter BuildIdx View Index Denote RaOps SetItem DiffProof RSliceProof.
Open Scope Z_scope.

(* C08: ragged_slice of a 1-D and of a 2-D input (raggedslice.py, the two other arms of the input dispatch) *)
Section RSI.
Variable A : Type.
Variable dflt : A.
Notation triple := (triple A).

Lemma ra_ragged_slice_is_gen (a : flat_ra A) starts ends :
  ra_ragged_slice a starts ends = rslice_gen (fst a) (excl_prefix (snd a)) (map2 Z.add (excl_prefix (snd a)) (snd a)) starts ends.
Proof. reflexivity. Qed.

(* ---------- 1-D input: window i is d[s_i : e_i] ---------- *)
Definition win_row (n : Z) (se : Z * Z) : row :=
  (fst se, Z.max ((if snd se <? 0 then n + snd se else Z.min (snd se) n) - fst se) 0).

Lemma rows_1d (n : Z) : forall (starts ends : list Z), length starts = length ends ->
  let bs := map (fun _ : Z => 0) starts in let be := map (fun _ : Z => n) starts in
  let st := map2 Z.add bs starts in
  let en := map2 (fun e p => if e <? 0 then snd p + e else Z.min (fst p + e) (snd p)) ends (combine bs be) in
  let lens := map2 (fun e s => Z.max (e - s) 0) en st in
  combine st lens = map (win_row n) (combine starts ends) /\ lens = map snd (map (win_row n) (combine starts ends)).
Proof.
  induction starts as [|s starts IH]; intros [|e ends] H; cbn in H; try discriminate; [split; reflexivity|].
  cbn zeta in *. cbn [map map2 combine fst snd]. destruct (IH ends ltac:(lia)) as [I1 I2].
  assert (Hh : (0 + s, Z.max ((if e <? 0 then n + e else Z.min (0 + e) n) - (0 + s)) 0) = win_row n (s, e))
    by (unfold win_row; cbn [fst snd]; f_equal; destruct (e <? 0); lia).
  split.
  - rewrite <- Hh. f_equal. exact I1.
  - rewrite <- Hh. cbn [snd]. f_equal. exact I2.
Qed.

Definition within1 (n : Z) (se : Z * Z) : Prop := 0 <= fst se <= n /\ - n <= snd se.

Theorem ragged_slice_1d_correct (d : list A) (starts ends : list Z) : length starts = length ends ->
  Forall (within1 (zlen d)) (combine starts ends) ->
  ra_ragged_slice_1d d starts ends = Ok (fr_of_rows (map (fun se => spec_row A (d, se)) (combine starts ends))).
Proof.
  intros Hl H. unfold ra_ragged_slice_1d, rslice_gen. destruct (rows_1d (zlen d) starts ends Hl) as [R1 R2]. cbn zeta in R1, R2.
  rewrite R1, R2. clear R1 R2.
  set (W := combine starts ends) in *. clearbody W. clear starts ends Hl.
  assert (Hrow : forall se, within1 (zlen d) se ->
            row_ok (zlen d) 1 (win_row (zlen d) se) /\ row_cells A dflt d 1 (win_row (zlen d) se) = spec_row A (d, se)).
  { intros [s e] [Hs He]. cbn [fst snd] in Hs, He.
    pose proof (rows_ok A [(d, (s, e))] [] []) as Hok. pose proof (cells A dflt [(d, (s, e))] [] []) as Hc.
    assert (HT : Forall (within A) [(d, (s, e))]) by (constructor; [split; cbn; lia|constructor]).
    specialize (Hok HT). specialize (Hc HT). cbn [map concat app rs_rows t_row t_start t_end fst snd] in Hok, Hc.
    rewrite app_nil_r in Hok, Hc. change (zlen (@nil A)) with 0 in Hok, Hc.
    inversion Hok as [|? ? Hr _]; subst. injection Hc as Hc.
    unfold win_row. cbn [fst snd]. rewrite ?app_nil_r in Hr, Hc. split; assumption. }
  pose proof (gather_view A dflt {| ra_data := d; ra_geom := GRows (map (win_row (zlen d)) W) |}) as Hg. cbn [ra_data ra_geom] in Hg.
  rewrite Hg.
  - cbn [rmap]. unfold denote, fr_of_rows. cbn [ra_data ra_geom g_rows g_step]. do 2 f_equal.
    + rewrite map_map. f_equal. apply map_ext_in. intros se Hin. rewrite Forall_forall in H. exact (proj2 (Hrow se (H se Hin))).
    + rewrite !map_map. apply map_ext_in. intros se Hin. rewrite Forall_forall in H. destruct (Hrow se (H se Hin)) as [_ Hc].
      rewrite <- Hc. unfold win_row. cbn [snd fst]. rewrite row_cells_zlen by (cbn; lia). reflexivity.
  - split; [|exact I]. cbn [ra_data ra_geom g_rows g_step]. apply Forall_forall. intros r Hin. apply in_map_iff in Hin. destruct Hin as [se [<- Hin]].
    rewrite Forall_forall in H. exact (proj1 (Hrow se (H se Hin))).
Qed.

(* ---------- 2-D input: a matrix with rows of width w is the ragged array of its rows ---------- *)
Lemma excl_from_const (w : Z) : forall (n : nat) acc k, excl_from acc (repeat w n) = map (fun i => acc + (Z.of_nat i - Z.of_nat k) * w) (seq k n).
Proof.
  induction n as [|n IH]; intros acc k; [reflexivity|]. cbn [repeat excl_from seq map]. f_equal; [lia|].
  rewrite (IH (acc + w) (S k)). apply map_ext. intros i. lia.
Qed.

Lemma map2_add_const (f : nat -> Z) (w : Z) : forall l, map (fun b => b + w) (map f l) = map2 Z.add (map f l) (repeat w (length l)).
Proof. induction l as [|i l IH]; [reflexivity|]. cbn [map length repeat map2]. f_equal. exact IH. Qed.

Theorem ragged_slice_2d_is_ragged (M : list (list A)) (w : Z) starts ends : Forall (fun r => zlen r = w) M ->
  ra_ragged_slice_2d M w starts ends = ra_ragged_slice (fr_of_rows M) starts ends.
Proof.
  intros H. rewrite ra_ragged_slice_is_gen. unfold ra_ragged_slice_2d, fr_of_rows. cbn [fst snd].
  assert (El : map zlen M = repeat w (length M)).
  { induction H as [|r M Hr _ IH]; [reflexivity|]. cbn [map length repeat]. now rewrite Hr, IH. }
  rewrite El. unfold excl_prefix. rewrite (excl_from_const w (length M) 0 0).
  assert (Eb : map (fun i => 0 + (Z.of_nat i - Z.of_nat 0) * w) (seq 0 (length M)) = map (fun i => Z.of_nat i * w) (seq 0 (length M))) by (apply map_ext; intros i; change (Z.of_nat 0) with 0; rewrite Z.sub_0_r; lia).
  rewrite Eb. f_equal.
  pose proof (map2_add_const (fun i => Z.of_nat i * w) w (seq 0 (length M))) as Hc. rewrite seq_length in Hc. exact Hc.
Qed.

Corollary ragged_slice_2d_correct (T : list triple) (w : Z) : Forall (within A) T -> Forall (fun t => zlen (t_row A t) = w) T ->
  ra_ragged_slice_2d (map (t_row A) T) w (map (t_start A) T) (map (t_end A) T)
  = Ok (fr_of_rows (spec_ragged_slice (map (t_row A) T) (map (t_start A) T) (map (t_end A) T))).
Proof.
  intros H Hw. rewrite ragged_slice_2d_is_ragged by (rewrite Forall_map; exact Hw). now apply ragged_slice_correct.
Qed.
End RSI.

Example rs1d : ra_ragged_slice_1d [10; 11; 12; 13; 14] [1; 0; 3] [3; -1; 3] = Ok ([11; 12; 10; 11; 12; 13], [2; 4; 0]). Proof. reflexivity. Qed.
Example rs2d : ra_ragged_slice_2d [[1; 2; 3]; [4; 5; 6]] 3 [0; 1] [2; -1] = Ok ([1; 2; 5], [2; 1]). Proof. reflexivity. Qed.
