(* C15 — property theorems only: each restates the full statement and is closed by the lemma proved in Proofs/. *)
From Coq Require Import ZArith List Bool.
From NPS Require Import ListAux PySlice NumpySem Scatter BuildIdx XorBroadcast View Index Assign Reduce Scan RaOps Heap Hash HashRun BitArr RLE RLEOps RLE2d DataClass RowsSpec AssignSpec MapSpec Denote RLEIndex RLEIndex2 RLEWindows RLEWindowsVecProof GetSlice StartEnd StepProof StepNeg.
Import ListNotations.
Open Scope Z_scope.

Theorem C15_get_position_correct :
  forall (A : Type) (d : A) (vs : list A) (ls : list Z) (i : Z),
       Forall (fun l : Z => 1 <= l) ls ->
       length vs = length ls ->
       ls <> [] ->
       let n := zsum ls in
       - n <= i < n ->
       get_position A (excl_prefix ls ++ [zsum ls], vs) i =
       Ok (nth (Z.to_nat (if i <? 0 then n + i else i)) (spec_broadcast A vs ls) d).
Proof. exact get_position_correct. Qed.
Print Assumptions C15_get_position_correct.

Theorem C15_get_positions_correct :
  forall (A : Type) (d : A) (vs : list A) (ls idx : list Z),
       Forall (fun l : Z => 1 <= l) ls ->
       length vs = length ls ->
       ls <> [] ->
       Forall (fun i : Z => - zsum ls <= i < zsum ls) idx ->
       get_positions (excl_prefix ls ++ [zsum ls], vs) idx =
       Ok
         (map (fun i : Z => nth (Z.to_nat (if i <? 0 then zsum ls + i else i)) (spec_broadcast A vs ls) d)
            idx).
Proof. exact get_positions_correct. Qed.
Print Assumptions C15_get_positions_correct.

Theorem C15_get_bool_mask_correct :
  forall A : Type,
       A ->
       forall (vs : list A) (ls : list Z) (m : list bool),
       Forall (fun l : Z => 1 <= l) ls ->
       length vs = length ls ->
       ls <> [] ->
       zlen m = zsum ls ->
       get_bool_mask (excl_prefix ls ++ [zsum ls], vs) m = Ok (mask_filter (spec_broadcast A vs ls) m).
Proof. exact get_bool_mask_correct. Qed.
Print Assumptions C15_get_bool_mask_correct.

Theorem C15_rl_windows_decode :
  forall (A : Type) (ev : list Z) (vs : list A) (ss es : list Z),
       length ev = length vs ->
       strictly_increasing (0 :: ev) ->
       Forall (fun se : Z * Z => 0 <= fst se /\ (fst se < snd se -> snd se <= last (0 :: ev) 0))
         (combine ss es) ->
       length ss = length es ->
       map (decode A) (rl_windows (0 :: ev, vs) ss es) =
       map2 (fun s e : Z => ztake (e - s) (zdrop s (decode A (0 :: ev, vs)))) ss es.
Proof. exact rl_windows_decode. Qed.
Print Assumptions C15_rl_windows_decode.

Theorem C15_start_to_end_vec_is_rows :
  forall A : Type,
       A ->
       forall (e0 : Z) (ev : list Z) (vs : list A) (ss es : list Z),
       length ev = length vs ->
       length ss = length es ->
       Forall (fun s : Z => e0 <= s) ss ->
       RLEWindowsVec.start_to_end_vec (e0 :: ev, vs) ss es = Ok (rl_windows (e0 :: ev, vs) ss es).
Proof. exact start_to_end_vec_is_rows. Qed.
Print Assumptions C15_start_to_end_vec_is_rows.

Theorem C15_start_to_end_vec_decode :
  forall A : Type,
       A ->
       forall (ev : list Z) (vs : list A) (ss es : list Z),
       length ev = length vs ->
       strictly_increasing (0 :: ev) ->
       length ss = length es ->
       Forall (fun se : Z * Z => 0 <= fst se /\ (fst se < snd se -> snd se <= last (0 :: ev) 0))
         (combine ss es) ->
       exists rows : list (rla A),
         RLEWindowsVec.start_to_end_vec (0 :: ev, vs) ss es = Ok rows /\
         map (decode A) rows = map2 (fun s e : Z => ztake (e - s) (zdrop s (decode A (0 :: ev, vs)))) ss es.
Proof. exact start_to_end_vec_decode. Qed.
Print Assumptions C15_start_to_end_vec_decode.

Theorem C15_rl_getitem_rlmask_correct :
  forall (A : Type) (ev : list Z) (vs : list A) (lsM : list Z) (bsM : list bool),
       length ev = length vs ->
       strictly_increasing (0 :: ev) ->
       Forall (fun l : Z => 1 <= l) lsM ->
       length bsM = length lsM ->
       zsum lsM = last (0 :: ev) 0 ->
       zlen (decode A (0 :: ev, vs)) = last (0 :: ev) 0 ->
       rl_getitem_rlmask (0 :: ev, vs) (excl_prefix lsM ++ [zsum lsM], bsM) =
       mask_filter (decode A (0 :: ev, vs)) (decode bool (excl_prefix lsM ++ [zsum lsM], bsM)).
Proof. exact rl_getitem_rlmask_correct. Qed.
Print Assumptions C15_rl_getitem_rlmask_correct.

Theorem C15_get_slice_correct :
  forall (A : Type) (d : A) (eqb : A -> A -> bool),
       (forall x y : A, eqb x y = true -> x = y) ->
       forall (ls : list Z) (vs : list A),
       BinaryProof.canon A ls vs ->
       ls <> [] ->
       forall sl : pyslice,
       step_of sl <> 0 ->
       exists r' : rla A,
         get_slice A eqb (BinaryProof.evs ls, vs) sl = Ok r' /\
         decode A r' = py_getslice d (decode A (BinaryProof.evs ls, vs)) sl.
Proof. exact get_slice_correct. Qed.
Print Assumptions C15_get_slice_correct.

Theorem C15_start_to_end_decode :
  forall (A : Type) (ev : list Z) (vs : list A) (e0 s e : Z),
       length ev = length vs ->
       strictly_increasing (e0 :: ev) ->
       e0 <= s ->
       s < e ->
       e <= last (e0 :: ev) 0 ->
       decode A (start_to_end A (e0 :: ev, vs) s e) =
       ztake (e - s) (zdrop (s - e0) (decode A (e0 :: ev, vs))).
Proof. exact start_to_end_decode. Qed.
Print Assumptions C15_start_to_end_decode.

Theorem C15_start_to_end_shape :
  forall (A : Type) (ev : list Z) (vs : list A) (e0 s e : Z),
       length ev = length vs ->
       strictly_increasing (e0 :: ev) ->
       e0 <= s -> s < e -> e <= last (e0 :: ev) 0 -> shape_ok A (start_to_end A (e0 :: ev, vs) s e) (e - s).
Proof. exact start_to_end_shape. Qed.
Print Assumptions C15_start_to_end_shape.

Theorem C15_step_subset_pos :
  forall (A : Type) (d : A) (eqb : A -> A -> bool),
       (forall x y : A, eqb x y = true -> x = y) ->
       forall k : Z,
       1 <= k ->
       forall (ls : list Z) (vs : list A),
       BinaryProof.canon A ls vs ->
       decode A (step_subset A eqb (BinaryProof.evs ls, vs) k) =
       map (fun q : Z => BinaryProof.dense A d vs ls (q * k)) (ap 0 (cdiv k (zsum ls)) 1) /\
       CanonProof.no_adj A eqb (snd (step_subset A eqb (BinaryProof.evs ls, vs) k)).
Proof. exact step_subset_pos. Qed.
Print Assumptions C15_step_subset_pos.

Theorem C15_step_subset_neg :
  forall (A : Type) (d : A) (eqb : A -> A -> bool),
       (forall x y : A, eqb x y = true -> x = y) ->
       forall (ls : list Z) (vs : list A),
       BinaryProof.canon A ls vs ->
       ls <> [] ->
       forall k : Z,
       1 <= k ->
       decode A (step_subset A eqb (BinaryProof.evs ls, vs) (- k)) =
       map (fun q : Z => nth (Z.to_nat (q * k)) (rev (spec_broadcast A vs ls)) d) (ap 0 (cdiv k (zsum ls)) 1).
Proof. exact step_subset_neg. Qed.
Print Assumptions C15_step_subset_neg.
