"""C12 — Counter totals equal the number of occurrences seen so far (histories)."""
import vlib
from harness import fam_hash, fam_hash2
TRUSTED = fam_hash.TRUSTED
ASSUME = ["keys are unique (the constructor's precondition) and |key| <= 2**62"]
RULE = fam_hash2.RULE2 + " || " + "Counter histories; " + fam_hash.RULE
def run(R, tier, rng):
    fam_hash2.run_family2(R, tier, rng, True)
    fam_hash.run_family(R, tier, rng, counter=True)


def translator_tie():
    return vlib.translator_tie(["hash"])
