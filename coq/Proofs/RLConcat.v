From Coq Require Import ZifyBool.
From NPS Require Import ListAux PySlice NumpySem Scatter BuildIdx XorBroadcast XorProof RLE RLEProof RLEOps BinaryProof ReverseProof StepNeg.
Open Scope Z_scope.

(* C16: np.concatenate of RunLengthArrays decodes to the concatenation, and its boundaries stay canonical *)
Section Cat.
Variable A : Type.
Definition of_runs1 (p : list Z * list A) : rla A := (evs (fst p), snd p).

Lemma rl_len_evs' ls (vs : list A) : rl_len (evs ls, vs) = zsum ls.
Proof.
  unfold rl_len. cbn [fst]. destruct ls as [|l ls]; [reflexivity|].
  assert (H : exists a b t, evs (l :: ls) = a :: b :: t).
  { unfold evs, excl_prefix. cbn [excl_from app]. destruct ls; cbn [excl_from app]; do 3 eexists; reflexivity. }
  destruct H as (a & b & t & E). pose proof (last_last (excl_prefix (l :: ls)) (zsum (l :: ls)) 0) as HL. fold (evs (l :: ls)) in HL.
  rewrite E in *. cbn [tl]. exact HL.
Qed.
Lemma removelast_evs ls : removelast (evs ls) = excl_prefix ls.
Proof. unfold evs. apply removelast_last. Qed.

Lemma concat_events : forall (ps : list (list Z * list A)) off,
  flat_map (fun p => map (Z.add (snd p)) (removelast (fst (fst p)))) (combine (map of_runs1 ps) (excl_from off (map (fun p => rl_len (of_runs1 p)) ps)))
  = excl_from off (concat (map fst ps)).
Proof.
  induction ps as [|[ls vs] ps IH]; intros off; [reflexivity|]. cbn [map combine excl_from flat_map concat fst snd].
  unfold of_runs1 at 1. cbn [fst snd]. rewrite removelast_evs. unfold excl_prefix. rewrite <- excl_from_shift2, Z.add_0_r.
  rewrite excl_from_app. f_equal. unfold of_runs1 at 2. cbn [fst snd]. rewrite rl_len_evs'. apply IH.
Qed.

Theorem rl_concat_correct (ps : list (list Z * list A)) : Forall (fun p => length (snd p) = length (fst p)) ps ->
  rl_concat (map of_runs1 ps) = (evs (concat (map fst ps)), concat (map snd ps))
  /\ decode A (rl_concat (map of_runs1 ps)) = concat (map (fun p => decode A (of_runs1 p)) ps).
Proof.
  intros H.
  assert (E : rl_concat (map of_runs1 ps) = (evs (concat (map fst ps)), concat (map snd ps))).
  { unfold rl_concat. rewrite map_map. unfold excl_prefix. rewrite concat_events. f_equal.
    - unfold evs, excl_prefix. f_equal. f_equal. clear H. induction ps as [|[ls vs] ps IH]; [reflexivity|].
      cbn [map zsum concat]. rewrite zsum_app, IH. f_equal. apply rl_len_evs'.
    - rewrite flat_map_concat_map, map_map. reflexivity. }
  split; [exact E|]. rewrite E. clear E. unfold decode. cbn [fst snd]. rewrite diffs_evs.
  induction H as [|[ls vs] ps Hp _ IH]; [reflexivity|]. cbn [map concat fst snd] in *.
  rewrite spec_broadcast_app by exact Hp. f_equal; [|exact IH]. unfold of_runs1. cbn [fst snd]. now rewrite diffs_evs.
Qed.
End Cat.
Print Assumptions rl_concat_correct.
