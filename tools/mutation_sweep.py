"""Mutation sweep: single-point AST mutants of selected functions of the REPAIRED tree; for each mutant that still passes the pinned
tests, run the prototype checks of the properties anchored there and record whether it is flagged."""
import ast, copy, json, os, shutil, subprocess, sys, time
BASE = "/root/scratch/repo_fix"; WORK = "/root/scratch/mutsweep/tree"; STAGE = "/root/scratch/stage"
TARGETS = json.loads(sys.argv[1])      # [[relpath, [function names], [properties]], ...]
LIMIT = int(sys.argv[2]) if len(sys.argv) > 2 else 40
OUT = sys.argv[3] if len(sys.argv) > 3 else "/root/scratch/mutsweep/result.json"
CMP = {ast.Lt: ast.LtE, ast.LtE: ast.Lt, ast.Gt: ast.GtE, ast.GtE: ast.Gt, ast.Eq: ast.NotEq, ast.NotEq: ast.Eq}
BIN = {ast.Add: ast.Sub, ast.Sub: ast.Add, ast.Mult: ast.FloorDiv, ast.FloorDiv: ast.Mult, ast.BitAnd: ast.BitOr, ast.BitOr: ast.BitAnd, ast.LShift: ast.RShift, ast.RShift: ast.LShift}

def mutants(tree, fnames):
    """yield (description, mutated tree)"""
    sites = []
    for node in ast.walk(tree):
        if isinstance(node, ast.FunctionDef) and node.name in fnames:
            for sub in ast.walk(node):
                if isinstance(sub, ast.Compare) and type(sub.ops[0]) in CMP: sites.append((sub, "cmp"))
                elif isinstance(sub, ast.BinOp) and type(sub.op) in BIN: sites.append((sub, "bin"))
                elif isinstance(sub, ast.AugAssign) and type(sub.op) in BIN: sites.append((sub, "aug"))
                elif isinstance(sub, ast.Constant) and isinstance(sub.value, bool): sites.append((sub, "bool"))
                elif isinstance(sub, ast.Constant) and isinstance(sub.value, int): sites.append((sub, "int+")); sites.append((sub, "int-"))
                elif isinstance(sub, ast.Constant) and sub.value in ("left", "right"): sites.append((sub, "side"))
                elif isinstance(sub, ast.UnaryOp) and isinstance(sub.op, (ast.USub, ast.Invert, ast.Not)): sites.append((sub, "unary"))
    for node, kind in sites:
        saved = copy.copy(node.__dict__)
        try:
            if kind == "cmp": node.ops = [CMP[type(node.ops[0])]()] + node.ops[1:]
            elif kind in ("bin", "aug"): node.op = BIN[type(node.op)]()
            elif kind == "bool": node.value = not node.value
            elif kind == "int+": node.value = node.value + 1
            elif kind == "int-": node.value = node.value - 1
            elif kind == "side": node.value = "left" if node.value == "right" else "right"
            elif kind == "unary":
                node.__class__ = ast.Expr; continue_ = True
                node.__class__ = ast.UnaryOp
                # replace -x by x: emulate by turning the op into UAdd where legal
                if isinstance(node.op, ast.USub): node.op = ast.UAdd()
                else:
                    node.__dict__.update(saved); continue
            yield "%s@%d" % (kind, getattr(node, "lineno", 0)), tree
        finally:
            node.__dict__.clear(); node.__dict__.update(saved)

def run(cmd, env=None, timeout=600):
    try:
        p = subprocess.run(cmd, shell=True, capture_output=True, text=True, timeout=timeout, env=env)
        return p.returncode, p.stdout + p.stderr
    except subprocess.TimeoutExpired:
        return 124, "timeout"

results = []
for rel, fnames, props in TARGETS:
    src = open(os.path.join(BASE, rel)).read(); tree = ast.parse(src)
    seen = set(); n = 0
    for desc, mt in mutants(tree, set(fnames)):
        code = ast.unparse(mt)
        if code in seen or code == ast.unparse(ast.parse(src)): continue
        seen.add(code); n += 1
        if n > LIMIT: break
        shutil.rmtree(WORK, ignore_errors=True); shutil.copytree(BASE, WORK, ignore=shutil.ignore_patterns("__pycache__", ".git"))
        open(os.path.join(WORK, rel), "w").write(code)
        rc, out = run(f"cd {WORK} && timeout 300 /venv/bin/python -m pytest -q -x -p no:cacheprovider --timeout=120 2>&1 | tail -1")
        tests_pass = " failed" not in out and "error" not in out.lower() and "passed" in out
        rec = {"file": rel, "mutant": desc, "tests_pass": tests_pass, "checks": {}}
        if tests_pass:
            for p in props:
                env = dict(os.environ, VERIF_ROOT=STAGE, VERIF_REPO=WORK)
                rc, out = run(f"{STAGE}/fw/check {p}", env=env)
                rec["checks"][p] = "flagged" if rc == 1 and "VIOLATION" in out else ("clean" if rc == 0 else "error:" + out[-200:])
        results.append(rec); print(json.dumps(rec), flush=True)
        json.dump(results, open(OUT, "w"), indent=1)
shutil.rmtree(WORK, ignore_errors=True)
surv = [r for r in results if r["tests_pass"]]
print("mutants", len(results), "pass pinned tests", len(surv), "flagged by a check", sum(any(v == "flagged" for v in r["checks"].values()) for r in surv))
