"""C02 — indexing reads exactly the addressed cells, or refuses.  Ties: translator (kernels) + correspondence."""
import itertools, multiprocessing, os, subprocess
import vlib
from vlib import show, parse, oracle, parse2, guarded

TRUSTED = ["Coq 8.16.1 kernel", "extraction (ExtrOcamlBasic, Z inductive) + oracle/driver.ml",
           "tools/translate.py (Python ast -> Gallina, fail-closed) for RaggedView2._calculate_lengths / _pos_col_slice / col_slice (negative step, integer column) / ends",
           "numpy indexing primitives as modelled in Lib/NumpySem.v (validated by every case)", "this harness"]
ASSUME = ["element values are the flat positions 0..n-1 (parametricity: getitem only moves elements)"]
RULE = ("12 shapes (three with equal-length neighbouring rows), row lists with repeats and permutations; index expressions on lazily derived arrays (the two-step chains of C06) and on fresh arrays: 9 shapes with empty rows in every position x every row selector (Ellipsis, ints -n-1..n, slices over 6x6x5 bounds/steps, "
        "int lists, masks) x every column selector (none, Ellipsis, ints, slices over 8x8x7, int lists) + a[()] ; quick: seeded 1/8 sample "
        "of the slice x slice block, everything else complete; (row list, column list) pairs of unequal length where one has length 1 are not generated (numpy broadcasting of index lists is outside the modelled grammar); non-trivial = array has >= 2 rows and the index is not a bare Ellipsis")
SHAPES = [[3,0,2,1],[0,2],[2,0],[0,0],[1,3],[0],[2],[],[0,1,0,0,2],[2,2,3],[1,1,1,1],[2,2,2]]


def translator_tie():
    return vlib.translator_tie(["view", "elem"])


def enc_rsel(r):
    if r is Ellipsis: return [4]
    if isinstance(r, int): return [0, r]
    if isinstance(r, slice): return [1, r.start, r.stop, r.step]
    if r and isinstance(r[0], bool): return [3, [int(b) for b in r]]
    return [2, r]
def enc_csel(c):
    if c is Ellipsis: return [2]
    if isinstance(c, int): return [0, c]
    if isinstance(c, slice): return [1, c.start, c.stop, c.step]
    return [3, c]
def enc_index(idx):
    if isinstance(idx, tuple): return [3] if len(idx) == 0 else [1, enc_rsel(idx[0]), enc_csel(idx[1])]
    return [0, enc_rsel(idx)]


def gen(ls, tier, rng):
    R = []; c = 0
    for l in ls: R.append(list(range(c, c + l))); c += l
    nr = len(R); mx = max(ls) if ls else 0
    B = [None, -nr - 1, -1, 0, 1, nr + 1]
    rowsels = [Ellipsis] + list(range(-nr - 1, nr + 1)) + [slice(a, b, s) for a in B for b in B for s in [None, 1, 2, -1, -2]]
    rowsels += [[i] for i in range(-nr, nr)] + [[i, j] for i in range(-nr, nr) for j in range(-nr, nr)][:30] + [[nr], [-nr - 1]]
    if nr >= 2:      # longer lists: repeats, permutations, ascending runs
        rowsels += [[0, 0, nr - 1], list(range(nr))[::-1], [0] + list(range(nr)), list(range(nr)) + [0], [i for i in range(nr) for _ in (0, 1)], [0, nr - 1, 1 % nr, nr - 1]]
        if nr >= 4: rowsels += [[0, 2, 1, 3], [1, 0, 3, 2]]
    rowsels += [list(m) for m in itertools.product([True, False], repeat=nr)][:16] if nr else []
    # boolean masks of the wrong length are refused (also when the surplus entries are all False)
    rowsels += [[True] * (nr + 1), [True] * nr + [False], [False] * (nr + 2)] + ([[True] * (nr - 1)] if nr >= 2 else [])
    C = [None, -mx - 1, -2, -1, 0, 1, 2, mx + 1]
    colsels = [None, Ellipsis] + list(range(-mx - 1, mx + 1)) + [slice(a, b, s) for a in C for b in C for s in [None, 1, 2, 3, -1, -2, -3]]
    colsels += [[0], [0, 0], [-1, 0]]
    for rs in rowsels:
        for cs in colsels:
            if isinstance(rs, list) and isinstance(cs, list) and not (rs and isinstance(rs[0], bool)) and len(rs) != len(cs) and 1 in (len(rs), len(cs)):
                continue        # numpy broadcasts a length-1 index list against the other: outside the modelled index grammar
            if tier != "thorough" and isinstance(rs, slice) and isinstance(cs, slice) and rng.random() < 7 / 8: continue
            yield R, (rs if cs is None else (rs, cs))
    yield R, ()
    # integers (and one-element lists) further out of range than one past the end: refused, never wrapped a second time
    for i in sorted({-nr - 2, -nr - 3, -2 * nr, -2 * nr + 1, -2 * nr - 1, -3 * nr, nr + 1, 2 * nr, 2 * nr + 1} - set(range(-nr - 1, nr + 1))):
        for cs in (None, 0, -1, slice(None), slice(1, None), slice(None, None, -1)):
            yield R, (i if cs is None else (i, cs))
            yield R, ([i] if cs is None else ([i], cs))
    # bounds and steps at the edge of the 32-bit range (legal in both index-width configurations)
    M = 2 ** 31 - 1
    HB = [None, M, -M, -M - 1, M - 1, 2]
    for rs in [slice(None), Ellipsis] + ([[nr - 1, 0]] if nr else []):
        for a in HB:
            for b in HB:
                for st in (None, 1, 2, -1, -2, M, -M):
                    if a in (None, 2) and b in (None, 2) and st in (None, 1, 2, -1, -2): continue
                    if tier != "thorough" and rng.random() < .5: continue
                    yield R, (rs, slice(a, b, st))


def impl_chunk(args):
    import numpy as np
    from npstructures import RaggedArray
    if os.environ.get("VERIF_IDX32"):           # C19: the 32-bit index configuration
        from npstructures.raggedshape import ViewBase
        ViewBase.set_dtype(np.int32)
    def to_py(idx):
        def c(x):
            if isinstance(x, list) and x and isinstance(x[0], bool): return np.array(x)
            if isinstance(x, list) and len(x) == 0: return np.array([], dtype=int)
            return x
        return tuple(c(x) for x in idx) if isinstance(idx, tuple) else c(idx)
    def canon(x):
        if isinstance(x, RaggedArray): return [2, x.tolist()]
        if isinstance(x, np.ndarray): return [1, x.tolist()] if x.ndim else [0, x.item()]
        return [0, int(x)]
    out = []
    for R, idx in args:
        try: e = canon(RaggedArray(R, dtype=int)[to_py(idx)])
        except Exception: e = None
        out.append(e)
    return out


def collect(tier, rng):
    """the generated cases, their protocol lines and the implementation's answers under the current index configuration"""
    items = [it for ls in SHAPES for it in gen(ls, tier, rng)]
    chunks = [items[i:i + 4000] for i in range(0, len(items), 4000)]
    with multiprocessing.Pool(16) as pool:
        impl = [e for part in pool.map(impl_chunk, chunks) for e in part]
    lines = ["getitem " + show(R) + " " + show(enc_index(idx)) for R, idx in items]
    return items, lines, impl


def kind_of(idx):
    return "a[()]" if idx == () else (type(idx[0]).__name__ + "," + type(idx[1]).__name__ if isinstance(idx, tuple) else type(idx).__name__)


def same_object_stage(Rn, tier, rng):
    """the same index expression evaluated twice on ONE derived array, with a materialising read in between (cached views must not go stale)"""
    import numpy as np
    from npstructures import RaggedArray
    from harness import c06
    def canon(x):
        if isinstance(x, RaggedArray): return [2, x.tolist()]
        if isinstance(x, np.ndarray): return [1, x.tolist()] if x.ndim else [0, x.item()]
        return [0, int(x)]
    for B in c06.PBASES:
        for l1 in c06.p_lazies(len(B)):
            rows = guarded(lambda: RaggedArray(B, dtype=int)[c06._to_py(l1)].tolist())
            if not isinstance(rows, list) or (rows and not isinstance(rows[0], list)): continue
            nr = len(rows); mx = max([len(r) for r in rows] + [0])
            idxs = [(Ellipsis, slice(None, 2)), (slice(None), slice(1, None)), (slice(None), slice(None, None, -1)), (Ellipsis, slice(None, None, 2)), (slice(None), 0), (Ellipsis, -1),
                    slice(1, None), slice(None, None, -1), (slice(None, None, -1), slice(None, 2)), ([0, nr - 1] if nr else slice(None), slice(0, 2)), 0, -1, (0, 0), (nr - 1, -1), Ellipsis]
            for idx in idxs:
                for mid in ("tolist", "row0", "ravel", "sum"):
                    def seq(mk):
                        d = mk(); r1 = guarded(lambda: canon(d[c06._to_py(idx)]))
                        guarded(lambda: d.tolist() if mid == "tolist" else d[0] if mid == "row0" else d.ravel() if mid == "ravel" else d.sum(axis=-1))
                        r2 = guarded(lambda: canon(d[c06._to_py(idx)]))
                        return [r1, r2]
                    impl = seq(lambda: RaggedArray(B, dtype=int)[c06._to_py(l1)]); ref = seq(lambda: RaggedArray(rows, dtype=int))
                    Rn.record(f"twice {show(B)} {show(enc_index(l1))} {idx!r} via {mid}", impl, ref, ref, nr >= 2, "same-object-twice",
                              py=f"d = RaggedArray({B})[{l1!r}]; d[{idx!r}]; d.{mid}; d[{idx!r}]   vs the same on RaggedArray({rows})")


def spellings_stage(Rn, tier, rng):
    """numpy's other spellings of the same index: 1-tuples, numpy integer scalars, 0-d arrays, integer / boolean ndarrays for lists, an Ellipsis
    between the row and the column selector; each must read what the plain spelling reads (the oracle is asked the plain spelling)"""
    import numpy as np
    from npstructures import RaggedArray
    def canon(x):
        if isinstance(x, RaggedArray): return [2, x.tolist()]
        if isinstance(x, np.ndarray): return [1, x.tolist()] if x.ndim else [0, x.item()]
        return [0, int(x)]
    def arr(x):
        return np.array(x) if x else np.array([], dtype=int)
    cases = []
    for ls in SHAPES:
        R = []; c = 0
        for l in ls: R.append(list(range(c, c + l))); c += l
        nr = len(R); mx = max(ls) if ls else 0
        ints = sorted({0, nr - 1, -1, -nr, nr, -nr - 1}) if nr else [0]
        lists = [[0], [nr - 1, 0], [-1, -1, 0]] if nr else [[]]
        masks = [[(i % 2 == 0) for i in range(nr)], [(i % 3 != 1) for i in range(nr)], [False] * nr] if nr else []
        slices = [slice(None, None, -1), slice(1, None), slice(None, None, 2)]
        csels = [0, -1, slice(None, 2), slice(None, None, -1), slice(1, None, 2)]
        for i in ints:
            for name, sp in (("(i,)", (i,)), ("np.int64(i)", np.int64(i)), ("np.array(i)", np.array(i)), ("(np.int32(i),)", (np.int32(i),))):
                cases.append((R, i, name, sp))
            for cs in csels:
                for name, sp in (("(i, ..., c)", (i, Ellipsis, cs)), ("(np.int64(i), c)", (np.int64(i), cs if not isinstance(cs, int) else np.int64(cs)))):
                    cases.append((R, (i, cs), name, sp))
        for l in lists:
            for name, sp in (("np.array(list)", arr(l)), ("(list,)", (l,)), ("(np.array(list),)", (arr(l),)), ("np.array(list, int32)", np.array(l, dtype=np.int32))):
                cases.append((R, l, name, sp))
            for cs in csels:
                if isinstance(cs, int): continue
                cases.append((R, (l, cs), "(np.array(list), ..., c)", (arr(l), Ellipsis, cs)))
        for m in masks:
            cases.append((R, m, "python list of bool", list(m)))                   # a mask spelled as a plain Python list (not an ndarray)
            cases.append((R, m, "list of np.bool_", [np.bool_(b) for b in m]))
            cases.append((R, m, "(np.array(mask),)", (np.array(m),)))
            for cs in csels:
                if isinstance(cs, int): continue
                cases.append((R, (m, cs), "(np.array(mask), ..., c)", (np.array(m), Ellipsis, cs)))
        for sl in slices:
            cases.append((R, sl, "(slice,)", (sl,)))
            for cs in csels:
                cases.append((R, (sl, cs), "(slice, ..., c)", (sl, Ellipsis, cs)))
        cases.append((R, (), "()", ()))
        ne = [i for i, l in enumerate(ls) if l > 0]
        if ne:   # (row array, column array) pairs with negative entries; the arrays are the caller's
            rl = [ne[0], ne[-1], ne[0] - nr]; cl = [-1, 0, -ls[ne[0]]]
            cases.append((R, (rl, cl), "(np.array(rows), np.array(cols))", (np.array(rl), np.array(cl))))
    # narrow numpy integer scalars as a column index of a long, lazily derived strided array (no arithmetic may be done in the scalar's own type)
    long_rows = [list(range(300)), list(range(1000, 1250)), list(range(5000, 5290))]
    for cstep in (2, 3, -2):
        for j in (np.int8(100), np.int8(-100), np.uint8(70), np.int16(90), np.int8(0)):
            exp = guarded(lambda: [r[::cstep][int(j)] for r in long_rows])
            got = guarded(lambda: np.asarray(RaggedArray(long_rows)[:, ::cstep][:, j]).tolist())
            Rn.record(f"long-rows [:, ::{cstep}][:, {type(j).__name__}({int(j)})]", got, exp, exp, True, "spelling/narrow-scalar-on-strided-view",
                      py=f"RaggedArray([range(300), range(1000,1250), range(5000,5290)])[:, ::{cstep}][:, np.{type(j).__name__}({int(j)})]")
            if int(j) >= 0:      # get_column_values: the rows that reach the column
                exp2 = [r[::cstep][int(j)] for r in long_rows if len(r[::cstep]) > int(j)]
                got2 = guarded(lambda: np.asarray(RaggedArray(long_rows)[:, ::cstep].get_column_values(j)).tolist())
                Rn.record(f"long-rows [:, ::{cstep}].get_column_values({type(j).__name__}({int(j)}))", got2, exp2, exp2, True, "spelling/narrow-scalar-on-strided-view")
    lines = ["getitem " + show(R) + " " + show(enc_index(idx)) for R, idx, _, _ in cases]
    out = oracle(lines)
    for (R, idx, name, sp), line, o in zip(cases, lines, out):
        if o.startswith("ERR"): m = s_ = "oracle-error: " + o[:80]
        else: m, s_ = parse(o)
        before = [x.copy() for x in sp if isinstance(x, np.ndarray)] if isinstance(sp, tuple) else ([sp.copy()] if isinstance(sp, np.ndarray) else [])
        impl = guarded(lambda: canon(RaggedArray(R, dtype=int)[sp]))
        after = [x for x in sp if isinstance(x, np.ndarray)] if isinstance(sp, tuple) else ([sp] if isinstance(sp, np.ndarray) else [])
        if any(not np.array_equal(b, a) for b, a in zip(before, after)): impl = ["the index arrays were modified", [a.tolist() for a in after]]
        Rn.record(line + " spelled " + name, impl, m, s_, len(R) >= 2, "spelling/" + name, py=f"RaggedArray({R})[{sp!r}]   (plain spelling: {idx!r})")


def ufunc_origin_stage(Rn, tier, rng):
    """the array under the index is the RESULT of a ufunc / operator (a + 0, -(-a), maximum(a, a), a * 1): the same reads, the same refusals
    as on the freshly built array (element pairs in and out of range, rows, row + column selectors)"""
    import numpy as np
    from npstructures import RaggedArray
    def canon(x):
        if isinstance(x, RaggedArray): return [2, x.tolist()]
        if isinstance(x, np.ndarray): return [1, x.tolist()] if x.ndim else [0, x.item()]
        return [0, int(x)]
    origins = [("a + 0", lambda a: a + 0), ("-(-a)", lambda a: -(-a)), ("np.maximum(a, a)", lambda a: np.maximum(a, a)), ("(a * 1)[:]", lambda a: (a * 1)[:])]
    cases = []
    for ls in SHAPES:
        R = []; c = 0
        for l in ls: R.append(list(range(c, c + l))); c += l
        nr = len(R); mx = max(ls) if ls else 0
        idxs = [(i, j) for i in range(-nr - 1, nr + 1) for j in range(-mx - 1, mx + 1)]
        idxs += [i for i in range(-nr - 1, nr + 1)] + [(slice(None), j) for j in range(-mx - 1, mx + 1)] + [(slice(1, None), slice(None, None, -1)), ([0, nr - 1] if nr else [], slice(1, None))]
        for idx in idxs:
            for oname, of in origins:
                cases.append((R, idx, oname, of))
    lines = ["getitem " + show(R) + " " + show(enc_index(idx)) for R, idx, _, _ in cases]
    out = oracle(lines)
    for (R, idx, oname, of), line, o in zip(cases, lines, out):
        if o.startswith("ERR"): m = s_ = "oracle-error: " + o[:80]
        else: m, s_ = parse(o)
        sp = tuple(np.array(x, dtype=int) if isinstance(x, list) else x for x in idx) if isinstance(idx, tuple) else idx      # dtype: an empty list is an empty INTEGER index
        impl = guarded(lambda: canon(of(RaggedArray(R, dtype=int))[sp]))
        Rn.record(line + " on " + oname, impl, m, s_, len(R) >= 2, "ufunc-result/" + oname, py=f"a = RaggedArray({R}); ({oname})[{idx!r}]")


def run(Rn, tier, rng):
    from harness import c06
    spellings_stage(Rn, tier, rng)
    ufunc_origin_stage(Rn, tier, rng)
    c06._run_chains(Rn, tier, rng)          # the same index grammar on lazily derived arrays ("for every ragged array")
    same_object_stage(Rn, tier, rng)
    items, lines, impl = collect(tier, rng)
    out = oracle(lines)
    for (R, idx), line, i, o in zip(items, lines, impl, out):
        if o.startswith("ERR"): m = s = "oracle-error: " + o[:80]
        else: m, s = parse(o)
        Rn.record(line, i, m, s, len(R) >= 2 and idx is not Ellipsis, kind_of(idx))
