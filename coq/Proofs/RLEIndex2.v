From Coq Require Import ZifyBool.
From NPS Require Import ListAux PySlice NumpySem Scatter BuildIdx XorBroadcast RLE RLEOps RLEIndex SliceAP RLEProof RLEPer.
Open Scope Z_scope.

(* C15: indexing a run-length array with a list of integers / a boolean array = the same index on the dense array *)
Section I.
Variable A : Type.
Variable d : A.

Theorem get_positions_correct (vs : list A) (ls idx : list Z) :
  Forall (fun l => 1 <= l) ls -> length vs = length ls -> ls <> [] ->
  Forall (fun i => - zsum ls <= i < zsum ls) idx ->
  get_positions (excl_prefix ls ++ [zsum ls], vs) idx
  = Ok (map (fun i => nth (Z.to_nat (if i <? 0 then zsum ls + i else i)) (spec_broadcast A vs ls) d) idx).
Proof.
  intros Hl Hlen Hne Hidx. unfold get_positions.
  induction Hidx as [|i idx Hi _ IH]; [reflexivity|]. cbn [map rsequence].
  rewrite (get_position_correct A d vs ls i Hl Hlen Hne Hi). cbn zeta. rewrite IH. reflexivity.
Qed.

(* positions of the true entries of a mask, and the elements they select *)
Lemma fnz_from_spec : forall (m : list bool) off (l : list A), length l = length m ->
  map (fun p => nth (Z.to_nat (p - off)) l d) (fnz_from off m) = mask_filter l m.
Proof.
  induction m as [|b m IH]; intros off l Hl; destruct l as [|x l]; try discriminate; [reflexivity|].
  cbn [fnz_from mask_filter]. destruct b; cbn [map].
  - f_equal; [replace (off - off) with 0 by lia; reflexivity|].
    rewrite <- (IH (off + 1) l) by (cbn in Hl; lia). apply map_ext_in. intros p Hp.
    assert (off + 1 <= p) by (pose proof (fnz_from_ge (off + 1) m) as G; rewrite Forall_forall in G; now apply G).
    replace (Z.to_nat (p - off)) with (S (Z.to_nat (p - (off + 1)))) by lia. reflexivity.
  - rewrite <- (IH (off + 1) l) by (cbn in Hl; lia). apply map_ext_in. intros p Hp.
    assert (off + 1 <= p) by (pose proof (fnz_from_ge (off + 1) m) as G; rewrite Forall_forall in G; now apply G).
    replace (Z.to_nat (p - off)) with (S (Z.to_nat (p - (off + 1)))) by lia. reflexivity.
Qed.

Lemma spec_broadcast_length (vs : list A) : forall ls, all_nonneg ls -> length vs = length ls -> zlen (spec_broadcast A vs ls) = zsum ls.
Proof.
  unfold spec_broadcast. induction vs as [|v vs IH]; intros [|l ls] Hnn Hlen; try discriminate; [reflexivity|].
  inversion Hnn; subst. cbn [map2 concat zsum]. unfold zlen in *. rewrite app_length, repeat_length.
  rewrite Nat2Z.inj_add, (IH ls) by (auto; cbn in Hlen; lia). lia.
Qed.

Theorem get_bool_mask_correct (vs : list A) (ls : list Z) (m : list bool) :
  Forall (fun l => 1 <= l) ls -> length vs = length ls -> ls <> [] -> zlen m = zsum ls ->
  get_bool_mask (excl_prefix ls ++ [zsum ls], vs) m = Ok (mask_filter (spec_broadcast A vs ls) m).
Proof.
  intros Hl Hlen Hne Hm. unfold get_bool_mask, flatnonzero.
  assert (Hnn : all_nonneg ls) by (eapply Forall_impl; [|exact Hl]; cbn; intros; lia).
  assert (Hr : Forall (fun i => - zsum ls <= i < zsum ls) (fnz_from 0 m)).
  { pose proof (fnz_from_ge 0 m) as G. pose proof (fnz_lt m 0) as L. rewrite Forall_forall in *. intros p Hp. specialize (G p Hp). specialize (L p Hp). lia. }
  rewrite (get_positions_correct vs ls _ Hl Hlen Hne Hr). f_equal.
  rewrite <- (fnz_from_spec m 0 (spec_broadcast A vs ls)).
  - apply map_ext_in. intros p Hp. pose proof (fnz_from_ge 0 m) as G. rewrite Forall_forall in G. specialize (G p Hp).
    replace (p <? 0) with false by lia. now rewrite Z.sub_0_r.
  - pose proof (spec_broadcast_length vs ls Hnn Hlen). unfold zlen in *. lia.
Qed.
End I.
