From Coq Require Import ZifyBool.
From NPS Require Import ListAux PySlice NumpySem Scatter BuildIdx XorBroadcast XorProof Denote RLE RLEProof RLEOps SetItem.
Open Scope Z_scope.

(* C15: rla[i] — searchsorted(events, i, side="right") - 1 is the run that contains position i *)
Section RI.
Variable A : Type.
Variable d : A.

Lemma filter_le_all_gt p l : Forall (fun y => p < y) l -> filter (fun y => y <=? p) l = [].
Proof. induction 1 as [|y l Hy _ IH]; [reflexivity|]. cbn [filter]. replace (y <=? p) with false by lia. exact IH. Qed.

Lemma nth_repeat_lt (v : A) n m : (n < m)%nat -> nth n (repeat v m) d = v.
Proof. revert n; induction m as [|m IH]; intros n H; [lia|]. destruct n; cbn; [reflexivity|apply IH; lia]. Qed.

Lemma filter_length_le' {X} (f : X -> bool) l : (length (filter f l) <= length l)%nat.
Proof. induction l as [|x l IH]; cbn; [lia|]. destruct (f x); cbn; lia. Qed.

Lemma run_lookup : forall ls vs acc p, Forall (fun l => 1 <= l) ls -> length vs = length ls -> acc <= p < acc + zsum ls ->
  nth (Z.to_nat (ssr (excl_from acc ls ++ [acc + zsum ls]) p - 1)) vs d = nth (Z.to_nat (p - acc)) (spec_broadcast A vs ls) d.
Proof.
  induction ls as [|l ls IH]; intros vs acc p Hl Hlen Hp; [cbn [zsum] in Hp; lia|].
  destruct vs as [|v vs]; [discriminate|]. injection Hlen as Hlen. inversion Hl as [|? ? Hl0 Hl']; subst. cbn [zsum] in Hp.
  assert (Hnn : all_nonneg ls) by (eapply Forall_impl; [|exact Hl']; cbn; intros; lia).
  pose proof (zsum_nonneg ls Hnn) as Hs.
  cbn [excl_from app]. unfold ssr. cbn [filter]. replace (acc <=? p) with true by lia.
  unfold spec_broadcast. cbn [map2 concat]. fold (spec_broadcast A vs ls).
  destruct (Z.lt_ge_cases p (acc + l)) as [Hlt|Hge].
  - (* inside the first run *)
    rewrite filter_le_all_gt.
    + replace (Z.to_nat (zlen [acc] - 1)) with 0%nat by (unfold zlen; cbn; lia). cbn [nth].
      rewrite app_nth1 by (rewrite repeat_length; lia). symmetry. apply nth_repeat_lt. lia.
    + apply Forall_app. split; [|constructor; [cbn [zsum]; lia|constructor]].
      eapply Forall_impl; [|apply (excl_from_bounds (acc + l) ls Hnn)]. cbn; intros; lia.
  - (* in a later run *)
    specialize (IH vs (acc + l) p Hl' Hlen ltac:(lia)). unfold ssr in IH.
    replace (acc + l + zsum ls) with (acc + (l + zsum ls)) in IH by lia.
    set (c := zlen (filter (fun y => y <=? p) (excl_from (acc + l) ls ++ [acc + (l + zsum ls)]))) in *.
    assert (Hc : 1 <= c).
    { unfold c. destruct ls as [|l' ls']; [cbn [zsum] in Hp; lia|]. cbn [excl_from app filter]. replace (acc + l <=? p) with true by lia.
      unfold zlen. cbn [length]. lia. }
    assert (Ez : zlen (acc :: filter (fun y => y <=? p) (excl_from (acc + l) ls ++ [acc + (l + zsum ls)])) = 1 + c)
      by (unfold c, zlen; cbn [length]; lia).
    cbn [zsum]. rewrite Ez. replace (Z.to_nat (1 + c - 1)) with (S (Z.to_nat (c - 1))) by lia. cbn [nth]. rewrite IH.
    rewrite app_nth2 by (rewrite repeat_length; lia). rewrite repeat_length. f_equal. lia.
Qed.

(* rla[i] for a canonical run-length array given by its run lengths, negative indices from the end *)
Theorem get_position_correct (vs : list A) (ls : list Z) (i : Z) : Forall (fun l => 1 <= l) ls -> length vs = length ls -> ls <> [] ->
  let n := zsum ls in - n <= i < n ->
  get_position A (excl_prefix ls ++ [zsum ls], vs) i = Ok (nth (Z.to_nat (if i <? 0 then n + i else i)) (spec_broadcast A vs ls) d).
Proof.
  intros Hl Hlen Hne n Hi.
  assert (Hnn : all_nonneg ls) by (eapply Forall_impl; [|exact Hl]; cbn; intros; lia).
  assert (Hrl : rl_len (excl_prefix ls ++ [zsum ls], vs) = n).
  { unfold rl_len. cbn [fst]. destruct ls as [|l0 ls']; [congruence|]. rewrite excl_cons. cbn [app tl].
    destruct (map (Z.add l0) (excl_prefix ls') ++ [zsum (l0 :: ls')]) eqn:E; [destruct (map _ _); discriminate|].
    rewrite <- E. change (0 :: map (Z.add l0) (excl_prefix ls') ++ [zsum (l0 :: ls')]) with ((0 :: map (Z.add l0) (excl_prefix ls')) ++ [zsum (l0 :: ls')]).
    apply last_last. }
  unfold get_position. rewrite Hrl. cbn [fst snd]. set (p := if i <? 0 then n + i else i).
  assert (Hp : 0 <= p < n) by (unfold p; destruct (i <? 0) eqn:?; lia).
  pose proof (run_lookup ls vs 0 p Hl Hlen ltac:(fold n; lia)) as Hrun.
  replace (0 + zsum ls) with (zsum ls) in Hrun by lia. fold (excl_prefix ls) in Hrun. replace (p - 0) with p in Hrun by lia.
  (* the run index is a valid position of the values *)
  set (c := ssr (excl_prefix ls ++ [zsum ls]) p) in *.
  assert (Hc : 1 <= c <= zlen vs).
  { unfold c, ssr. destruct ls as [|l0 ls']; [congruence|]. rewrite excl_cons. cbn [app filter]. replace (0 <=? p) with true by lia.
    split; [unfold zlen; cbn [length]; lia|].
    assert (Hf : zlen (filter (fun y => y <=? p) (map (Z.add l0) (excl_prefix ls') ++ [zsum (l0 :: ls')])) <= zlen ls').
    { rewrite filter_app. cbn [filter]. replace (zsum (l0 :: ls') <=? p) with false by (fold n; lia). rewrite app_nil_r.
      unfold zlen. pose proof (filter_length_le' (fun y => y <=? p) (map (Z.add l0) (excl_prefix ls'))) as H.
      rewrite map_length in H. unfold excl_prefix in *. rewrite excl_from_length in H. lia. }
    unfold zlen in *. cbn [length] in *. lia. }
  unfold np_item, py_index, py_norm_index.
  replace ((c - 1 <? - zlen vs) || (c - 1 >=? zlen vs)) with false by lia. replace (c - 1 <? 0) with false by lia.
  rewrite (nth_error_nth' _ d) by (unfold zlen in Hc; lia). f_equal. exact Hrun.
Qed.
End RI.
Print Assumptions get_position_correct.
