From Coq Require Import Extraction ExtrOcamlBasic.
From NPS Require Import ListAux PySlice NumpySem Shape Scatter BuildIdx View Index RowsSpec XorBroadcast Reduce RLE Assign AssignSpec Hash MapSpec HashRun BitArr RLEOps Scan RaOps RLEWindowsVec RLE2d RL2Any RL2Mean RL2RowAgg RaMean DataClass IdxWidth Geometry HeapRun Heap DataClassProof Struct2 FastIndices.
Definition getitem_model_Z (r : list (list Z)) (idx : index) : res (result Z) :=
  rbind (getitem (ra_of_rows r) idx) observe.
Definition getitem_spec_Z (r : list (list Z)) (idx : index) : res (result Z) := spec_getitem r idx.
(* two-step chains: first selection lazily, then a second index on the derived array *)
Definition chain_model_Z (r : list (list Z)) (i1 i2 : index) : res (result Z) :=
  rbind (getitem (ra_of_rows r) i1) (fun g =>
  match g with
  | GLazy a | GWhole a => rbind (getitem a i2) observe
  | _ => Refused
  end).
Definition chain_spec_Z (r : list (list Z)) (i1 i2 : index) : res (result Z) :=
  rbind (spec_getitem r i1) (fun x => match x with RRagged r' => spec_getitem r' i2 | _ => Refused end).
Definition setitem_model_Z (r : list (list Z)) (idx : index) (v : value Z) : res (list (list Z)) :=
  rbind (setitem Z 0%Z Z.lxor (ra_of_rows r) idx v) rows_of.
Definition setitem_spec_Z (r : list (list Z)) (idx : index) (v : value Z) : res (list (list Z)) := spec_setitem r idx v.
Definition bit_unpack (a : list Z) (b : Z) := unpack (pack a b).
Definition bit_get (a : list Z) (b : Z) (idx : list Z) := rsequence (map (get (pack a b)) idx).
Definition bit_getlist (a : list Z) (b : Z) (idx : list Z) := rmap unpack (getlist (pack a b) idx).
Definition bit_window (a : list Z) (b w : Z) := sliding_window (pack a b) w.
Definition zneqb (x y : Z) := negb (Z.eqb x y).
Definition rle_encode (a : list Z) : rla Z := from_array Z 0%Z zneqb a.
Definition rle_to_array (r : rla Z) : list Z := to_array Z 0%Z Z.lxor r.
Definition rle_slice (a : list Z) (sl : pyslice) : res (rla Z) := get_slice Z Z.eqb (rle_encode a) sl.
Definition rle_slice_spec (a : list Z) (sl : pyslice) : res (list Z) := np_slice a sl.
Definition rle_get (a : list Z) (i : Z) : res Z := get_position Z (rle_encode a) i.
Definition zop (code : Z) (x y : Z) : Z :=
  match code with
  | 0 => x + y | 1 => x - y | 2 => x * y | 3 => Z.max x y
  | 4 => if x <? y then 1 else 0 | 5 => if x =? y then 1 else 0 | 6 => Z.land x y | _ => Z.lxor x y
  end%Z.
Definition rle_bin (code : Z) (a b : list Z) : res (rla Z) :=
  apply_binary Z Z Z 0%Z 0%Z Z.eqb (zop code) (rle_encode a) (rle_encode b).
Definition rle_bin_spec (code : Z) (a b : list Z) : list Z := map2 (zop code) a b.
Definition rle_concat_Z (ls : list (list Z)) : rla Z := rl_concat (map rle_encode ls).
Definition rle_sum_Z (a : list Z) : Z := rl_sum (rle_encode a).
Definition rle_decode (r : rla Z) : list Z := decode Z r.
Definition fr (r : list (list Z)) : flat_ra Z := fr_of_rows r.
Definition op_ufunc (code : Z) (x : list (list Z)) (y : operand Z) : res (list (list Z)) * res (list (list Z)) :=
  (rmap fr_rows (ufunc2 Z Z Z 0%Z Z.lxor (zop code) (fr x) y), spec_ufunc2 Z Z Z (zop code) x y).
Definition op_reduce (code : Z) (x : list (list Z)) : option (list Z) * list Z :=
  let '(op, e) := match code with 0 => (Z.add, 0) | 1 => (Z.mul, 1) | 2 => (Z.lxor, 0) | _ => (Z.land, -1) end%Z in
  (reduce_model Z 0%Z op e (concat x) (map zlen x), spec_reduce Z op e (concat x) (map zlen x)).
Definition op_cumsum (x : list (list Z)) := (cumsum_model Z 0%Z Z.add Z.sub Z.lxor (concat x) (map zlen x), spec_cumsum Z 0%Z Z.add x).
Definition op_accumulate (code : Z) (x : list (list Z)) :=
  let '(op, i0, i1) := match code with 0 => (Z.add, Z.sub, Z.add) | 1 => (Z.sub, Z.sub, Z.add) | _ => (Z.lxor, Z.lxor, Z.lxor) end%Z in
  (row_accumulate Z 0%Z Z.lxor op i0 i1 (concat x) (map zlen x), spec_accumulate Z op x).
Definition op_diff (n : Z) (x : list (list Z)) := (rmap fr_rows (ra_diff n (fr x)), spec_diff n x).
Definition op_sort (x : list (list Z)) := (rmap fr_rows (ra_sort (fr x)), spec_sort x).
Definition op_unique (x : list (list Z)) := (rmap (fun p => (fr_rows (fst p), fr_rows (snd p))) (ra_unique (fr x)), spec_unique x).
Definition op_nonzero (x : list (list Z)) := (ra_nonzero (fr x), spec_nonzero x).
Definition op_subset (x : list (list Z)) (m : list (list bool)) := (rmap fr_rows (ra_subset (fr x) (concat m)), spec_subset x m).
Definition op_rslice1d (d : list Z) (st en : list Z) :=
  (rmap fr_rows (ra_ragged_slice_1d d st en), spec_ragged_slice (map (fun _ => d) st) st en).
Definition op_rslice2d (x : list (list Z)) (w : Z) (st en : list Z) := (rmap fr_rows (ra_ragged_slice_2d x w st en), spec_ragged_slice x st en).
Definition op_rslice (x : list (list Z)) (st en : list Z) := (rmap fr_rows (ra_ragged_slice (fr x) st en), spec_ragged_slice x st en).
Definition op_padded (x : list (list Z)) (fill : Z) (left : bool) := (ra_padded (fr x) fill left, spec_padded x fill left).
Definition op_colsum (x : list (list Z)) := (ra_colsum (fr x), spec_colsum x).
Definition op_colmean (x : list (list Z)) :=
  (ra_col_mean pair (fr x), map (fun j => (zsum (map (fun r => nth j r 0%Z) x), zlen (filter (fun r => Nat.ltb j (length r)) x))) (seq 0 (fold_left Nat.max (map (@length Z) x) O))).
Definition op_rowmean (x : list (list Z)) := (ra_row_mean pair (fr x), map (fun r => (zsum r, zlen r)) x).
Definition op_colcounts (x : list (list Z)) := (ra_col_counts (map zlen x), spec_col_counts x).
Definition op_where (x : list (list Z)) (m : list (list bool)) (y : list (list Z)) := (rmap fr_rows (ra_where (fr_of_rows m) (fr x) (fr y)), spec_where m x y).
Definition op_where_s (x : list (list Z)) (m : list (list bool)) (y : Z) := (rmap fr_rows (ra_where_s (fr_of_rows m) (fr x) y), spec_where_s m x y).
Definition op_like (x : list (list Z)) (c : Z) := (fr_rows (ra_like (fr x) c), map (fun r : list Z => repeat c (length r)) x).
Definition op_concat1 (xs : list (list (list Z))) := fr_rows (ra_concat1 xs).
Definition op_fastidx (starts lens : list Z) := let rows := combine starts lens in (fast_indices rows, spec_indices rows 1).
(* the vector code of _start_to_end as written (Model/RLEWindowsVec.v; = rl_windows row by row: start_to_end_vec_is_rows) *)
Definition rle_windows_Z (a ss es : list Z) : list (list Z) := match start_to_end_vec (rle_encode a) ss es with Ok rows => map (decode Z) rows | Refused => [] end.
Definition rle_rlmask_Z (a : list Z) (m : list bool) : list Z := rl_getitem_rlmask (rle_encode a) (from_array bool false xorb m).
Definition op_argmax (x : list (list Z)) := (arg_model x (map zmax_list x), argmax_rows x).
Definition op_argmin (x : list (list Z)) := (arg_model x (map zminl x), argmin_rows x).
Definition rl2_obs (x : rl2) := (r_idx x, r_val x, rl2_decode x).
Definition rl2_intervals (st en : list Z) (n v : Z) := (rl2_obs (from_intervals st en n v), map (fun se => indicator_row n v (fst se) (snd se)) (combine st en)).

(* ---- C01 ---- *)
Definition geo_model (ls : list Z) := let c := shape_codes ls in ((sh_starts c, sh_lengths c), (sh_ends c, sh_size c)).
Definition geo_spec (ls : list Z) := ((excl_prefix ls, ls), (incl_prefix ls, zsum ls)).
Definition build_model (r : list (list Z)) := let a := build_rows r in ((o_len a, o_size a), (o_lengths a, (o_rows a, o_ravel a))).
Definition build_spec (r : list (list Z)) := ((zlen r, zlen (concat r)), (map zlen r, (r, concat r))).
Definition flat_model (d ls : list Z) : res (list (list Z)) := rmap o_rows (build_flat d ls).
Definition flat_spec (d ls : list Z) : res (list (list Z)) := if zsum ls =? zlen d then Ok (segments d ls) else Refused.
Definition tonumpy_model (r : list (list Z)) : res (list (list Z)) := o_to_numpy (build_rows r).
Definition tonumpy_spec (r : list (list Z)) : res (list (list Z)) :=
  match r with [] => Ok [] | x :: _ => if forallb (fun y => zlen y =? zlen x) r then Ok r else Refused end.
Definition fromnumpy_model (m : list (list Z)) (k : Z) : res (list (list Z)) := rmap o_rows (from_numpy m k).
Definition offsets_model (offs : list Z) := let c := shape_from_offsets offs in (sh_starts c, sh_lengths c).
Definition offsets_spec (offs : list Z) := (removelast offs, diff1 offs).
Definition mi_model (ls : list Z) :=
  let c := shape_codes ls in
  (map (unravel_mi c) (ap 0 (sh_size c) 1), map (fun ij => ravel_mi c (fst ij) (snd ij)) (cells_of ls)).
Definition mi_spec (ls : list Z) := (cells_of ls, ap 0 (zsum ls) 1).
(* ---- C18 ---- *)
(* any(axis=0) of a matrix: the code's representation (boundaries, values as 0/1) and its dense decoding; spec: the column-wise OR of the rows *)
Definition rl2_any_Z (rows : list (list Z)) : (list Z * list Z) * list Z * list Z :=
  let r := col_any (from_matrix rows) in
  let b2z (b : bool) := if b then 1 else 0 in
  ((fst r, map b2z (snd r)), map b2z (decode bool r),
   match rows with [] => [] | r0 :: _ => map (fun j => b2z (existsb (fun row => negb (nth j row 0 =? 0)) rows)) (seq 0 (length r0)) end).
(* mean(axis=0) of the ragged variant: the code's representation with every value kept as the pair (column sum, column count) -- two pairs
   are "equal" (joined by the binary path) when they are the same fraction -- its decoding, and the specification on the dense rows *)
Definition rl2_mean_Z (rows : list (list Z)) : option ((list Z * list (Z * Z)) * list (Z * Z)) * list (Z * Z) :=
  let ceqb (a b : Z * Z) := (fst a * snd b =? fst b * snd a)%Z in
  (match rl2_col_mean (Z * Z) ceqb pair (from_ragged rows) with Ok r => Some (r, decode (Z * Z) r) | Refused => None end,
   map (fun j => (zsum (map (fun row => nth j row 0%Z) rows), zlen (filter (fun row => Nat.ltb j (length row)) rows)))
       (seq 0 (fold_left Nat.max (map (@length Z) rows) O))).
Definition rl2_rowagg (x : rl2) : list Z * list Z * list (Z * Z) :=
  let b2z (b : bool) := if b then 1%Z else 0%Z in (map b2z (rl2_any_rows x), map b2z (rl2_all_rows x), rl2_mean_rows pair x).
Definition dc_new (o : list (list Z)) : res Z := rmap (obj_len Z) (mk_obj Z o).
Definition dc_new_spec (o : list (list Z)) : res Z :=
  match o with [] => Ok 0%Z | f :: r => if forallb (fun g => zlen g =? zlen f) r then Ok (zlen f) else Refused end.
Definition dc_entries (o : list (list Z)) : list (list Z) := entries Z o (match o with [] => O | f :: _ => length f end).
Definition dc_select (o : list (list Z)) (s : rowsel) := obj_select Z o s.
Definition dc_select_spec (o : list (list Z)) (s : rowsel) := rmap (cols Z 0%Z (length o)) (sel_rows s (dc_entries o)).
Definition dc_item (o : list (list Z)) (i : Z) := obj_item Z o i.
Definition dc_astype (o : list (list Z)) (keep : list Z) := (obj_astype Z o (map Z.to_nat keep), rmap (fun R => map (fun j => map (fun row : list Z => nth (Z.to_nat j) row 0%Z) R) keep) (if forallb (fun j => (0 <=? j)%Z && (j <? Z.of_nat (length o))%Z) keep then Ok (dc_entries o) else Refused)).
Definition dc_iter (o : list (list Z)) := obj_iter Z o.
Definition dc_item_spec (o : list (list Z)) (i : Z) := np_item (dc_entries o) i.
Definition dc_concat (os : list (list (list Z))) := obj_concat Z os.
Definition dc_eq (o o' : list (list Z)) : bool := Nat.eqb (length o) (length o') && obj_eqb Z Z.eqb o o'.
Definition dc_concat_spec (os : list (list (list Z))) := cols Z 0%Z (match os with [] => O | o :: _ => length o end) (flat_map dc_entries os).
Extraction "oracle_core.ml" geo_model geo_spec build_model build_spec flat_model flat_spec tonumpy_model tonumpy_spec fromnumpy_model offsets_model offsets_spec mi_model mi_spec heap_run dc_new dc_new_spec dc_select dc_select_spec dc_item dc_item_spec dc_iter dc_astype dc_concat dc_concat_spec dc_eq from_ragged from_matrix rl2_obs rl2_select rl2_elem rl2_col rl2_sum rl2_max rl2_argmax rl2_ravel rl2_concat rl2_map rl2_map_col rl2_col_counts rl2_col_sum rl2_col_range rl2_intervals rl2_any_Z rl2_mean_Z rl2_rowagg varlen_concat op_ufunc op_reduce op_cumsum op_accumulate op_diff op_sort op_unique op_nonzero op_subset op_rslice op_rslice1d op_rslice2d op_padded op_colsum op_colcounts op_colmean op_rowmean op_argmax op_argmin rle_windows_Z rle_rlmask_Z op_fastidx op_where op_where_s op_like op_concat1 rle_encode rle_to_array rle_slice rle_slice_spec rle_get rle_bin rle_bin_spec rle_concat_Z rle_sum_Z rle_decode bit_unpack bit_get bit_getlist bit_window spec_windows Z.add Z.mul Z.opp Z.div_eucl Z.ltb hash_model hash_spec hash_eq hash_add setitem_model_Z setitem_spec_Z getitem_model_Z getitem_spec_Z chain_model_Z chain_spec_Z shape_codes sh_starts sh_lengths sh_size excl_prefix.
