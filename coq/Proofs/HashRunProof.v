From Coq Require Import ZifyBool Permutation.
From NPS Require Import ListAux PySlice NumpySem BuildIdx RLE Hash MapSpec HashRun SetItem HashProof HashInit HashSet HashEq HashItems CounterProof.
Open Scope Z_scope.

(* C11 / C12 capstone: the whole history machine that the correspondence runs (lookups, assignments of vectors and of one value, fill,
   contains, count, items) refines the same history on the dictionary: equal outputs, items up to order.  So the extracted
   `hash_model` and `hash_spec`, which the check compares with the implementation and with each other, are PROVED to agree. *)
Notation InvZ := (HashProof.Inv Z 0).

Definition out_equiv (a b : hout) : Prop :=
  match a, b with OItems l1, OItems l2 => Permutation l1 l2 | _, _ => a = b end.

Lemma aget_some_In (d : assoc Z) k v : aget Z d k = Some v -> In (k, v) d.
Proof.
  induction d as [|[k' v'] d IH]; cbn [aget]; [discriminate|]. destruct (k' =? k) eqn:E.
  - intros H. injection H as <-. left. f_equal. lia.
  - intros H. right. now apply IH.
Qed.
Lemma NoDup_pairs {X Y} (l : list (X * Y)) : NoDup (map fst l) -> NoDup l.
Proof. induction l as [|p l IH]; intros H; [constructor|]. cbn [map] in H. inversion H as [|? ? Hx Hn]; subst. constructor; [|now apply IH]. intros C. apply Hx. now apply in_map. Qed.

Lemma items_perm t d : InvZ t d -> NoDup (map fst d) -> Permutation (items Z 0 t) d.
Proof.
  intros HI Hnd. destruct (items_correct Z 0 t d HI) as [Hn Hiff]. apply NoDup_Permutation; [now apply NoDup_pairs|now apply NoDup_pairs|].
  intros [k v]. rewrite Hiff. split; [apply aget_some_In|now apply aget_in].
Qed.

(* fill: every key gets the value; the key set is untouched *)
Lemma aget_map_const (d : assoc Z) v k : aget Z (map (fun kv => (fst kv, v)) d) k = match aget Z d k with Some _ => Some v | None => None end.
Proof. induction d as [|[k' v'] d IH]; [reflexivity|]. cbn [map aget fst]. destruct (k' =? k); [reflexivity|exact IH]. Qed.
Lemma fill_inv t d v : InvZ t d -> InvZ (fill Z t v) (map (fun kv => (fst kv, v)) d).
Proof.
  intros [Hb (Hk & Hv)]. split; [exact Hb|]. unfold vals_ok, fill. cbn [t_keys t_vals t_mod]. split.
  - intros k. rewrite aget_map_const, Hk. destruct (aget Z d k); split; congruence.
  - destruct (t_vals t) as [c|vb].
    + intros k Hin. rewrite aget_map_const. apply Hk in Hin. destruct (aget Z d k); congruence.
    + destruct Hv as [Hs Hc]. split.
      * rewrite <- Hs, map_map. apply map_ext. intros r. now rewrite map_length.
      * intros h j k Hh Hj Hn. rewrite aget_map_const. rewrite (Hc h j k Hh Hj Hn). f_equal. unfold cell. cbn [fst snd].
        rewrite nth_map_map.
        (* position j exists in row h of the values because it exists in the keys' row *)
        assert (Hlen : length (nth (Z.to_nat h) vb []) = length (nth (Z.to_nat h) (t_keys t) [])) by (apply nth_len_eq; exact Hs).
        assert (Hjl : (Z.to_nat j < length (nth (Z.to_nat h) vb []))%nat) by (rewrite Hlen; apply nth_error_Some; congruence).
        assert (Hin : In (nth (Z.to_nat j) (map (fun _ : Z => v) (nth (Z.to_nat h) vb [])) 0) (map (fun _ : Z => v) (nth (Z.to_nat h) vb []))) by (apply nth_In; rewrite map_length; exact Hjl).
        apply in_map_iff in Hin. destruct Hin as (x & Hx & _). now rewrite <- Hx.
Qed.

(* a table built with one constant value *)
Lemma map_fst_const (keys : list Z) (v : Z) : map fst (map (fun k => (k, v)) keys) = keys.
Proof. rewrite map_map. cbn [fst]. apply map_id. Qed.
Lemma Inv_mk_scalar keys v m t : NoDup keys -> mk_scalar Z keys v m = Ok t -> InvZ t (map (fun k => (k, v)) keys).
Proof.
  intros Hnd H. unfold mk_scalar in H. destruct (m <=? 0) eqn:Em; [discriminate|]. injection H as <-.
  assert (Hmk : mk Z keys keys m = Ok {| t_mod := m ; t_keys := map (map fst) (buckets m (combine keys keys)) ; t_vals := VAligned (map (map snd) (buckets m (combine keys keys))) |}).
  { unfold mk. rewrite Em, Nat.eqb_refl. reflexivity. }
  pose proof (Inv_mk Z 0 keys keys m _ Hnd Hmk) as [Hb (Hk & _)]. cbn [t_mod t_keys t_vals] in *.
  split; [exact Hb|]. unfold vals_ok. cbn [t_keys t_vals].
  assert (Hiff : forall k, In k (concat (map (map fst) (buckets m (combine keys keys)))) <-> In k keys).
  { intros k. rewrite Hk, (aget_some_in Z). rewrite map_fst_combine by reflexivity. reflexivity. }
  split.
  - intros k. rewrite Hiff, (aget_some_in Z), map_fst_const. reflexivity.
  - intros k Hin. apply Hiff in Hin. apply (aget_in Z); [now rewrite map_fst_const|]. apply in_map_iff. exists k. split; [reflexivity|exact Hin].
Qed.

(* the key list of the dictionary never changes *)
Lemma aset_keys (d : assoc Z) k v : map fst (aset Z d k v) = map fst d.
Proof. induction d as [|[k' v'] d IH]; [reflexivity|]. cbn [aset]. destruct (k' =? k); cbn [map fst]; [reflexivity|now rewrite IH]. Qed.
Lemma fold_aset_keys : forall (kvs : list (Z * Z)) (d : assoc Z), map fst (fold_left (fun d kv => aset Z d (fst kv) (snd kv)) kvs d) = map fst d.
Proof. induction kvs as [|kv kvs IH]; intros d; [reflexivity|]. cbn [fold_left]. now rewrite IH, aset_keys. Qed.
Lemma spec_setv_keys (d d' : assoc Z) ks vs : spec_setv Z d ks vs = Ok d' -> map fst d' = map fst d.
Proof. unfold spec_setv. destruct (_ && _); [|discriminate]. intros H. injection H as <-. apply fold_aset_keys. Qed.
Lemma spec_count_keys (d : assoc Z) s : map fst (spec_count d s) = map fst d.
Proof. unfold spec_count. rewrite map_map. reflexivity. Qed.
Lemma fill_keys (d : assoc Z) (v : Z) : map fst (map (fun kv : Z * Z => (fst kv, v)) d) = map fst d.
Proof. rewrite map_map. reflexivity. Qed.

Theorem hash_run_refines : forall ops t d, InvZ t d -> NoDup (map fst d) -> Forall2 out_equiv (hrun t ops) (srun d ops).
Proof.
  induction ops as [|o ops IH]; intros t d HI Hnd; [constructor|]. cbn [hrun srun].
  destruct o as [ks|ks vs|ks v|v|ks|s|]; cbn [hstep sstep].
  - (* lookup *) rewrite (getv_correct Z 0 t d ks HI). constructor; [reflexivity|now apply IH].
  - (* assignment of a vector *)
    pose proof (setv_correct Z 0 t d ks vs HI) as H.
    destruct (setv Z t ks vs) as [t'|], (spec_setv Z d ks vs) as [d'|] eqn:Es; try contradiction; (constructor; [reflexivity|]).
    + apply IH; [exact H|]. now rewrite (spec_setv_keys d d' ks vs Es).
    + now apply IH.
  - (* assignment of one value to several keys *)
    unfold set_scalar. pose proof (setv_correct Z 0 t d ks (map (fun _ => v) ks) HI) as H.
    destruct (setv Z t ks (map (fun _ => v) ks)) as [t'|], (spec_setv Z d ks (map (fun _ => v) ks)) as [d'|] eqn:Es; try contradiction; (constructor; [reflexivity|]).
    + apply IH; [exact H|]. now rewrite (spec_setv_keys d d' ks _ Es).
    + now apply IH.
  - (* fill *) constructor; [reflexivity|]. apply IH; [now apply fill_inv|now rewrite fill_keys].
  - (* contains *) constructor; [|now apply IH]. cbn [out_equiv]. f_equal. rewrite (contains_present Z 0 t d ks HI). apply map_ext. intros k. reflexivity.
  - (* count *) constructor; [reflexivity|]. apply IH; [now apply count_correct|now rewrite spec_count_keys].
  - (* items *) constructor; [cbn [out_equiv]; now apply items_perm|now apply IH].
Qed.

(* the two functions the check extracts and runs *)
Corollary hash_model_refines_spec keys vals scalar m ops : NoDup keys -> (scalar = None -> length keys = length vals) ->
  match hash_model keys vals scalar m ops with
  | Ok outs => Forall2 out_equiv outs (hash_spec keys vals scalar ops)
  | Refused => (match m with Some x => x | None => default_mod (zlen keys) end) <= 0
  end.
Proof.
  intros Hnd Hlen. unfold hash_model, hash_spec. set (m' := match m with Some x => x | None => default_mod (zlen keys) end).
  destruct scalar as [v|].
  - destruct (mk_scalar Z keys v m') as [t|] eqn:E; cbn [rmap].
    + apply hash_run_refines; [exact (Inv_mk_scalar keys v m' t Hnd E)|now rewrite map_fst_const].
    + unfold mk_scalar in E. destruct (m' <=? 0) eqn:Em; [lia|discriminate].
  - specialize (Hlen eq_refl). destruct (mk Z keys vals m') as [t|] eqn:E; cbn [rmap].
    + apply hash_run_refines; [exact (Inv_mk Z 0 keys vals m' t Hnd E)|]. now rewrite map_fst_combine.
    + unfold mk in E. rewrite Hlen, Nat.eqb_refl in E. cbn [negb] in E. rewrite Bool.orb_false_r in E. destruct (m' <=? 0) eqn:Em; [lia|discriminate].
Qed.
Print Assumptions hash_model_refines_spec.
