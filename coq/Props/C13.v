(* C13 — Bit-packing is lossless and position-addressable.  Property theorems only; proofs live in Proofs/. *)
From Coq Require Import ZArith List.
From NPS Require Import Bits ListAux PySlice NumpySem BitArr BitProof WindowProof.
Import ListNotations.
Open Scope Z_scope.

Theorem C13_unpack_pack : forall (a : list Z) (b : Z), 1 <= b -> b * (W / b) = W -> Forall (digit_ok b) a ->
  unpack (pack a b) = a.
Proof. exact unpack_pack. Qed.
Print Assumptions C13_unpack_pack.

Theorem C13_getitem : forall (a : list Z) (b : Z), 1 <= b -> b * (W / b) = W -> Forall (digit_ok b) a ->
  forall idx, 0 <= idx < zlen a -> get (pack a b) idx = Ok (nth (Z.to_nat idx) a 0).
Proof. exact get_correct. Qed.
Print Assumptions C13_getitem.

Theorem C13_sliding_window : forall (a : list Z) (b w : Z), 1 <= b -> b * (W / b) = W -> Forall (digit_ok b) a ->
  1 <= w -> w * b <= W -> sliding_window (pack a b) w = spec_windows a b w.
Proof. exact sliding_window_correct. Qed.
Print Assumptions C13_sliding_window.

(* the hypotheses are satisfiable by a non-trivial state: 2-bit values, 40 of them (more than one register), window 3 *)
Example C13_nonvacuous :
  let a := map (fun i => (i * 7 + 3) mod 4) (ap 0 40 1) in
  1 <= 2 /\ 2 * (W / 2) = W /\ Forall (digit_ok 2) a /\ 3 * 2 <= W.
Proof. cbv zeta. repeat split; try (vm_compute; congruence). apply Forall_forall. intros x Hx.
  apply in_map_iff in Hx as (i & <- & _). unfold digit_ok. change (2 ^ 2) with 4. apply Z.mod_pos_bound. reflexivity. Qed.

(* ---- supporting theorems the property theorem rests on (generated) ---- *)
From Coq Require Import ZArith List Bool.
From NPS Require Import ListAux PySlice NumpySem Scatter BuildIdx XorBroadcast View Index Assign Reduce Scan RaOps Heap Hash HashRun BitArr RLE RLEOps RLE2d DataClass RowsSpec AssignSpec MapSpec Denote Bits BitProof BitGetList WindowCore DigitSlice WindowProof.
Import ListNotations.
Open Scope Z_scope.

Theorem C13_getlist_correct :
  forall (a : list Z) (b : Z),
       1 <= b ->
       b * (W / b) = W ->
       Forall (digit_ok b) a ->
       forall idx : list Z,
       Forall (fun i : Z => 0 <= i < zlen a) idx ->
       rmap unpack (getlist (pack a b) idx) = Ok (map (fun i : Z => nth (Z.to_nat i) a 0) idx).
Proof. exact getlist_correct. Qed.
Print Assumptions C13_getlist_correct.

Theorem C13_pack_registers :
  forall (a : list Z) (b : Z),
       1 <= b -> b * (W / b) = W -> Forall (digit_ok b) a -> Inv a b (Z.to_nat (W / b)) (ba_data (pack a b)).
Proof. exact pack_registers. Qed.
Print Assumptions C13_pack_registers.

Theorem C13_window_core :
  forall M s t : Z,
       0 <= M ->
       0 <= s < W ->
       0 <= t <= W ->
       Z.land (Z.lor (shr64 (M mod 2 ^ W) s) (shl64 ((M / 2 ^ W) mod 2 ^ W) (W - s))) (2 ^ t - 1) =
       (M / 2 ^ s) mod 2 ^ t.
Proof. exact window_core. Qed.
Print Assumptions C13_window_core.

Theorem C13_digits_slice :
  forall (b : Z) (ds : list Z) (p w : nat),
       0 <= b ->
       Forall (digit_ok b) ds ->
       (p + w <= length ds)%nat ->
       (digits_val b ds / 2 ^ (b * Z.of_nat p)) mod 2 ^ (b * Z.of_nat w) =
       digits_val b (firstn w (skipn p ds)).
Proof. exact digits_slice. Qed.
Print Assumptions C13_digits_slice.
