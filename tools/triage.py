import json, sys, collections
p = sys.argv[1]
v = json.load(open(f'/verif/build/viol_{p}.json'))
g = collections.defaultdict(list)
for x in v:
    c = x['case'].split()
    g[' '.join(c[:2]) if not c[1][0].isdigit() else c[0] + ' ' + c[1]].append(x)
for k, xs in sorted(g.items(), key=lambda kv: -len(kv[1])):
    xs.sort(key=lambda x: len(x['case']))
    x = xs[0]
    print(f"== {k}: {len(xs)}"); print("  case:", x['case'][:300]); print("  py:", (x.get('python') or '')[:300]); print("  impl:", json.dumps(x.get('implementation'))[:300]); print("  spec:", json.dumps(x.get('spec'))[:300])
