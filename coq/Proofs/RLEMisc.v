From Coq Require Import ZifyBool.
From NPS Require Import ListAux PySlice NumpySem Scatter BuildIdx XorBroadcast XorProof Denote RLE RLEProof RLEOps RaOps RLE2d SetItem.
Open Scope Z_scope.

(* C16: unary ufuncs and ufuncs with a scalar act on the run values only *)
Lemma spec_broadcast_map {A B} (g : A -> B) vs ls : spec_broadcast B (map g vs) ls = map g (spec_broadcast A vs ls).
Proof.
  revert ls; induction vs as [|v vs IH]; intros [|l ls]; try reflexivity.
  unfold spec_broadcast in *. cbn [map map2 concat]. rewrite map_app, IH. f_equal.
  clear. induction (Z.to_nat l); cbn; congruence.
Qed.
Theorem rl_map_correct {A B} (g : A -> B) (r : rla A) : decode B (rl_map g r) = map g (decode A r).
Proof. unfold decode, rl_map. cbn [fst snd]. apply spec_broadcast_map. Qed.

(* C16: the length-weighted sum *)
Lemma zsum_repeat v n : zsum (repeat v n) = Z.of_nat n * v.
Proof. induction n as [|n IH]; cbn [repeat zsum]; lia. Qed.
Theorem rl_sum_correct (r : rla Z) : all_nonneg (diffs (fst r)) -> length (snd r) = length (diffs (fst r)) ->
  rl_sum r = zsum (decode Z r).
Proof.
  unfold rl_sum, decode. generalize (diffs (fst r)) as ls. generalize (snd r) as vs. clear.
  induction vs as [|v vs IH]; intros [|l ls] Hnn Hlen; try discriminate; [reflexivity|].
  inversion Hnn; subst. unfold spec_broadcast in *. cbn [map2 zsum concat]. rewrite zsum_app, zsum_repeat.
  rewrite <- IH by (auto; cbn in Hlen; lia). rewrite Z2Nat.id by lia. lia.
Qed.

(* C17: the ragged encoder decodes row by row to the input *)
Theorem from_ragged_decode (rows : list (list Z)) : Forall (fun r => r <> []) rows ->
  rl2_decode (from_ragged rows) = rows.
Proof.
  intros Hne. unfold rl2_decode, rl2_rows, from_ragged. cbn [r_idx r_val r_len].
  induction Hne as [|row rows Hr _ IH]; [reflexivity|]. cbn [map map2]. f_equal; [|exact IH].
  unfold row_rla. cbn [r_len].
  (* one row: run_starts/values are exactly RunLengthArray.from_array's events/values *)
  destruct row as [|x xs]; [congruence|].
  pose proof (decode_from_array Z 0 (fun a b => negb (a =? b))) as Hd.
  assert (Hneq : forall a b : Z, negb (a =? b) = false -> a = b) by (intros; lia).
  specialize (Hd Hneq (x :: xs) ltac:(congruence)). rewrite from_array_cons in Hd.
  (* the 2-D encoder's change mask is the same neighbour mask *)
  assert (Hm : forall y ys, change_mask (Some y) ys = nmask Z (fun a b => negb (a =? b)) y ys).
  { intros y ys; revert y; induction ys as [|z ys IHy]; intros y; [reflexivity|]. cbn [change_mask nmask]. now rewrite IHy. }
  unfold run_starts, flatnonzero. cbn [change_mask fnz_from]. rewrite Hm. replace (0 + 1) with 1 by lia.
  replace (zlen (x :: xs)) with (1 + zlen xs) by (unfold zlen; cbn [length]; lia).
  replace (map (fun p => nth (Z.to_nat p) (x :: xs) 0) (0 :: fnz_from 1 (nmask Z (fun a b => negb (a =? b)) x xs)))
    with (map (znth 0 (x :: xs)) (0 :: fnz_from 1 (nmask Z (fun a b => negb (a =? b)) x xs))) by reflexivity.
  exact Hd.
Qed.
Print Assumptions from_ragged_decode.
