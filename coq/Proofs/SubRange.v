From Coq Require Import ZifyBool Permutation.
From NPS Require Import ListAux PySlice NumpySem Scatter BuildIdx SliceAP XorBroadcast XorProof Denote MaterialiseWF RLE RLEProof RLEOps SetItem CanonProof RLEIndex RoundTrip BinaryProof StepProof ReverseProof StepNeg.
Open Scope Z_scope.

(* searchsorted on a strictly increasing list *)
Lemma si_all_gt : forall l x, strictly_increasing (x :: l) -> Forall (fun y => x < y) l.
Proof.
  induction l as [|y l IH]; intros x H; [constructor|]. destruct H as [H1 H2]. constructor; [exact H1|].
  eapply Forall_impl; [|apply (IH y H2)]. cbn; intros; lia.
Qed.

(* number of elements <= x, for x between the i-th and (i+1)-th element *)
Lemma ssr_spec : forall l i x, strictly_increasing l -> (i < length l)%nat -> nth i l 0 <= x ->
  (forall j, (i < j < length l)%nat -> x < nth j l 0) -> ssr l x = Z.of_nat (S i).
Proof.
  induction l as [|a l IH]; intros i x Hs Hi Hle Hgt; [cbn in Hi; lia|]. unfold ssr. cbn [filter].
  destruct i as [|i].
  - cbn [nth] in Hle. replace (a <=? x) with true by lia.
    rewrite filter_le_all_gt; [reflexivity|]. apply Forall_forall. intros y Hy. apply In_nth with (d := 0) in Hy. destruct Hy as (j & Hj & <-).
    apply (Hgt (S j)). cbn [length]. lia.
  - cbn [nth] in Hle. assert (Hax : a <= x).
    { pose proof (si_all_gt l a Hs) as Hf. rewrite Forall_forall in Hf. assert (In (nth i l 0) l) by (apply nth_In; cbn in Hi; lia). specialize (Hf _ H). lia. }
    replace (a <=? x) with true by lia.
    assert (Hs' : strictly_increasing l) by (destruct l; [exact I|destruct Hs; assumption]).
    specialize (IH i x Hs' ltac:(cbn in Hi; lia) Hle). unfold ssr in IH. unfold zlen in *. cbn [length]. rewrite Nat2Z.inj_succ, IH; [lia|].
    intros j Hj. apply (Hgt (S j)). cbn [length]. lia.
Qed.
Lemma filter_lt_prefix : forall l x, strictly_increasing l -> exists i, (i <= length l)%nat /\ ssl l x = Z.of_nat i /\
  (forall j, (j < i)%nat -> nth j l 0 < x) /\ (forall j, (i <= j < length l)%nat -> x <= nth j l 0).
Proof.
  induction l as [|a l IH]; intros x Hs.
  - exists 0%nat. cbn. repeat split; try lia; intros; lia.
  - assert (Hs' : strictly_increasing l) by (destruct l; [exact I|destruct Hs; assumption]).
    destruct (Z.lt_ge_cases a x) as [Hlt|Hge].
    + destruct (IH x Hs') as (i & Hi & Hc & H1 & H2). exists (S i). unfold ssl in *. cbn [filter]. replace (a <? x) with true by lia.
      unfold zlen in *. cbn [length]. repeat split; try lia.
      * intros [|j] Hj; cbn [nth]; [lia|apply H1; lia].
      * intros [|j] Hj; [lia|]. cbn [nth]. apply H2. cbn [length] in Hj. lia.
    + exists 0%nat. unfold ssl. cbn [filter]. replace (a <? x) with false by lia.
      pose proof (si_all_gt l a Hs) as Hf.
      assert (E : filter (fun y => y <? x) l = []).
      { clear - Hf Hge. induction Hf as [|y l Hy _ IHl]; [reflexivity|]. cbn [filter]. replace (y <? x) with false by lia. exact IHl. }
      rewrite E. repeat split; try (cbn; lia); try (intros; lia).
      intros [|j] Hj; cbn [nth]; [lia|]. rewrite Forall_forall in Hf. assert (In (nth j l 0) l) by (apply nth_In; cbn [length] in Hj; lia). specialize (Hf _ H). lia.
Qed.

Section SR.
Variable A : Type.
Variable d : A.

(* a run-length array whose runs agree with a function h *)
Lemma decode_of_pointwise (h : Z -> A) : forall (V : list A) (B : list Z) b0,
  length B = length V -> CanonProof.weakly_increasing (b0 :: B) ->
  (forall j q, (j < length V)%nat -> nth j (b0 :: B) 0 <= q < nth (S j) (b0 :: B) 0 -> h q = nth j V d) ->
  decode A (b0 :: B, V) = map h (ap b0 (last (b0 :: B) 0 - b0) 1).
Proof.
  induction V as [|v V IH]; intros B b0 Hlen Hw Hp.
  - destruct B; [|discriminate]. cbn [last]. replace (b0 - b0) with 0 by lia. reflexivity.
  - destruct B as [|b1 B]; [discriminate|]. injection Hlen as Hlen. destruct Hw as [H01 Hw].
    rewrite decode_cons2. rewrite (IH B b1 Hlen Hw).
    2:{ intros j q Hj Hq. apply (Hp (S j) q); [cbn [length]; lia|exact Hq]. }
    change (last (b0 :: b1 :: B) 0) with (last (b1 :: B) 0).
    assert (Hl : b1 <= last (b1 :: B) 0).
    { clear - Hw. revert b1 Hw. induction B as [|x B IHB]; intros b1 Hw; [cbn; lia|]. destruct Hw as [H1 H2]. specialize (IHB x H2).
      change (last (b1 :: x :: B) 0) with (last (x :: B) 0). lia. }
    replace (last (b1 :: B) 0 - b0) with ((b1 - b0) + (last (b1 :: B) 0 - b1)) by lia.
    rewrite (map_ap_split A h) by lia. replace (b0 + (b1 - b0)) with b1 by lia. f_equal.
    symmetry. apply (map_ap_const A h); [lia|]. intros q Hq. apply (Hp 0%nat q); [cbn [length]; lia|cbn [nth]; lia].
Qed.

Lemma nth_firstn_lt' {X} (dx : X) : forall (l : list X) n j, (j < n)%nat -> nth j (firstn n l) dx = nth j l dx.
Proof. induction l as [|x l IH]; intros n j H; [destruct n, j; reflexivity|]. destruct n; [lia|]. destruct j; [reflexivity|]. cbn. apply IH. lia. Qed.

(* basic slices *)
Lemma nth_zslice {X} (dx : X) (l : list X) a b j : 0 <= a -> (j < Z.to_nat (b - a))%nat -> (Z.to_nat a + j < length l)%nat ->
  nth j (zslice_l l a b) dx = nth (Z.to_nat a + j) l dx.
Proof.
  intros Ha Hj Hl. unfold zslice_l, ztake, zdrop. rewrite nth_firstn_lt' by assumption. 
  revert j Hj Hl. generalize (Z.to_nat a) as na. clear. intros na. revert l. induction na as [|na IH]; intros l j Hj Hl; [reflexivity|].
  destruct l as [|x l]; [cbn in Hl; lia|]. cbn [skipn Nat.add nth]. apply IH; [exact Hj|cbn [length] in Hl; lia].
Qed.
Lemma zslice_length {X} (l : list X) a b : 0 <= a -> a <= b -> b <= zlen l -> length (zslice_l l a b) = Z.to_nat (b - a).
Proof. intros Ha Hab Hb. unfold zslice_l, ztake, zdrop, zlen in *. rewrite firstn_length, skipn_length. lia. Qed.

End SR.
