"""C03 — assignment writes exactly the addressed cells and nothing else."""
import vlib
import itertools, multiprocessing
import numpy as np
from vlib import show, parse, oracle, parse2, guarded
from harness.c02 import enc_index

TRUSTED = ["Coq 8.16.1 kernel", "extraction (ExtrOcamlBasic, Z inductive) + oracle/driver.ml", "numpy fancy assignment (last write wins) as modelled in Lib/Scatter.v", "this harness"]
ASSUME = ["element values are flat positions; assigned values are distinct negative integers, so every written cell is identifiable"]
RULE = ("7 shapes x the C02 index grammar (reduced bounds) x up to 9 value kinds per index: scalar, flat of the right / wrong length, length-1 flat, "
        "column of the right / wrong height, length-1 column, ragged of the right / wrong shape; quick: seeded 1/4 of the slice x slice block; "
        "non-trivial = at least two rows and the index selects something; distinct = distinct protocol line")

def to_py(idx):
    def c(x):
        if isinstance(x, list) and x and isinstance(x[0], bool): return np.array(x)
        if isinstance(x, list) and len(x) == 0: return np.array([], dtype=int)
        return x
    return tuple(c(x) for x in idx) if isinstance(idx, tuple) else c(idx)
def canon(x):
    from npstructures import RaggedArray
    if isinstance(x, RaggedArray): return [2, x.tolist()]
    if isinstance(x, np.ndarray): return [1, x.tolist()] if x.ndim else [0, x.item()]
    return [0, int(x)]
def gen(tier, rng):
    shapes = [[3,0,2,1],[0,2],[2,0],[1,3],[0,1,0,0,2],[0,0],[]]
    for ls in shapes:
        R = []; c = 0
        for l in ls: R.append(list(range(c, c+l))); c += l
        nr = len(R); mx = max(ls) if ls else 0
        rowsels = [Ellipsis] + list(range(-nr-1, nr+1)) + [slice(a,b,s) for a in [None,-1,0,1] for b in [None,-1,1,nr+1] for s in [None,1,2,-1,-2]]
        rowsels += [[i] for i in range(-nr, nr)] + ([[0,nr-1],[nr-1,0],[0,0]] if nr else []) + [list(m) for m in itertools.product([True,False], repeat=nr)][:16]
        colsels = [None, Ellipsis] + list(range(-mx-1, mx+1)) + [slice(a,b,s) for a in [None,-2,-1,0,1,2,mx+1] for b in [None,-2,-1,0,1,2,mx+1] for s in [None,1,2,-1,-2]] + [[0],[0,0]]
        for rs in rowsels:
            for cs in colsels:
                if tier != 'thorough' and isinstance(rs, slice) and isinstance(cs, slice) and rng.random() < 3 / 4: continue
                yield R, (rs if cs is None else (rs, cs))
        yield R, ()
        for i in sorted({-nr - 2, -2 * nr, -2 * nr + 1, -2 * nr - 1, nr + 1, 2 * nr} - set(range(-nr - 1, nr + 1))):      # far out of range: refused, nothing written
            for cs in (None, 0, slice(None)):
                yield R, (i if cs is None else (i, cs))
def values_for(R, idx, sel):
    """value kinds for a selection result `sel` (canonical [kind, payload]) or None if refused"""
    vals = [("s", [0, -1])]
    if sel is None: return vals + [("f", [1, [-2, -3]])]
    k, p = sel
    if k == 0: return vals + [("f1", [1, [-2]])]
    if k == 1:
        n = len(p)
        return vals + [("f", [1, [-10-i for i in range(n)]]), ("f+1", [1, [-10-i for i in range(n+1)]]), ("f1", [1, [-7]]), ("c1", [2, [-8]])]
    n = sum(len(r) for r in p)
    out = vals + [("f", [1, [-10-i for i in range(n)]]), ("f+1", [1, [-10-i for i in range(n+1)]]),
                  ("c", [2, [-20-i for i in range(len(p))]]), ("c+1", [2, [-20-i for i in range(len(p)+1)]]), ("c1", [2, [-8]]),
                  ("r", [3, [[-30-i*10-j for j in range(len(r))] for i, r in enumerate(p)]])]
    if p: out.append(("r-bad", [3, [[-30-i*10-j for j in range(len(r) + (1 if i == 0 else 0))] for i, r in enumerate(p)]]))
    if len(p) >= 2 and n:       # the same number of cells in all, but other row lengths (one cell moved to the next row): refused, and nothing written
        k0 = next(i for i, r in enumerate(p) if r); k1 = (k0 + 1) % len(p)
        lens2 = [len(r) for r in p]; lens2[k0] -= 1; lens2[k1] += 1
        out.append(("r-shifted", [3, [[-50-i*10-j for j in range(l)] for i, l in enumerate(lens2)]]))
    return out
def _unused_to_value(v):
    k, p = v
    if k == 0: return p
    if k == 1: return np.array(p, dtype=int)
    if k == 2: return np.array(p, dtype=int).reshape(-1, 1)
    return RaggedArray(p, dtype=int)

def impl_chunk(items):
    from npstructures import RaggedArray
    global RaggedArray_
    out = []
    for R, idx in items:
        try: sel = canon(RaggedArray(R, dtype=int)[to_py(idx)])
        except Exception: sel = None
        for name, v in values_for(R, idx, sel):
            a = RaggedArray(R, dtype=int)
            try:
                k, p = v
                val = p if k == 0 else np.array(p, dtype=int) if k == 1 else np.array(p, dtype=int).reshape(-1, 1) if k == 2 else RaggedArray(p, dtype=int)
                a[to_py(idx)] = val; e = a.tolist()
            except Exception: e = ["refused", a.tolist()]          # a refused assignment must leave the array as it was (no partial write)
            # a boolean row mask spelled as a plain Python list must write the same cells as the ndarray spelling
            rs0 = idx[0] if isinstance(idx, tuple) and len(idx) == 2 else idx
            if isinstance(rs0, list) and rs0 and isinstance(rs0[0], bool):
                a2 = RaggedArray(R, dtype=int)
                try:
                    raw = (list(rs0), to_py(idx)[1]) if isinstance(idx, tuple) else list(rs0)
                    a2[raw] = val; e2 = a2.tolist()
                except Exception: e2 = ["refused", a2.tolist()]
                if e2 != e: e = {"ndarray mask": e, "python-list mask": e2}
            out.append(("setitem " + show(R) + " " + show(enc_index(idx)) + " " + show(v), e, len(R) >= 2 and sel not in (None, [1, []], [2, []]), name, R))
    return out

def run(Rn, tier, rng):
    from harness import c06, fam_ra2
    self_assign_stage(Rn, tier, rng)
    huge_stage(Rn, tier, rng)
    c06.big_derived_stage(Rn, tier, rng)
    fam_ra2.run_c03(Rn, tier, rng)            # dtype-wide assignments (floats with 1e16 / inf, extremes), mask assignment with per-cell values
    c06.run_programs(Rn, tier, rng, observe=False, assign=True)     # assignments into lazily derived arrays (views with repeated rows included)
    items = [it for it in gen(tier, rng) if not (isinstance(it[1], tuple) and len(it[1]) == 2 and isinstance(it[1][0], list) and isinstance(it[1][1], list)
             and not (it[1][0] and isinstance(it[1][0][0], bool)) and len(it[1][0]) != len(it[1][1]) and 1 in (len(it[1][0]), len(it[1][1])))]
    chunks = [items[i:i + 1500] for i in range(0, len(items), 1500)]
    with multiprocessing.Pool(16) as pool:
        cases = [c for part in pool.map(impl_chunk, chunks) for c in part]
    out = oracle([c[0] for c in cases])
    for (line, impl, nt, kind, R0), o in zip(cases, out):
        if o.startswith("ERR"): m = s = "oracle-error: " + o[:80]
        else:
            m, s = parse(o)
            if m is None: m = ["refused", R0]           # refused by the model / the specification: nothing is written
            if s is None: s = ["refused", R0]
        Rn.record(line, impl, m, s, nt, kind)


def self_assign_stage(Rn, tier, rng):
    """the array itself as the value (a[sel] = a) with selections that permute its cells: the same as assigning an independent copy.
    The cell every selected position refers to is read off an identity array through the same selection (C02)."""
    from npstructures import RaggedArray
    bases = [[[1, 2, 3], [4, 5], [6, 7, 8]], [[1, 2], [3, 4], [5, 6]], [[1, 2, 3, 4]], [[1], [2, 3], [4]], [[], [1, 2], []]]
    sels = [("[:, ::-1]", (slice(None), slice(None, None, -1))), ("[::-1]", slice(None, None, -1)), ("[[1, 0, 2]]", [1, 0, 2]), ("[...]", Ellipsis), ("[:]", slice(None)),
            ("[::-1, ::-1]", (slice(None, None, -1), slice(None, None, -1)))]
    for B in bases:
        lens = [len(r) for r in B]
        ids = []; c = 0
        for l in lens: ids.append(list(range(c, c + l))); c += l
        flat_old = [v for r in B for v in r]
        for sname, sel in sels:
            idx = (np.array(sel) if isinstance(sel, list) else sel)
            try: target = RaggedArray(ids, dtype=int)[idx].tolist()
            except Exception: continue
            if [len(r) for r in target] != lens: continue                       # the selection must have the array's own shape
            new_flat = list(flat_old)
            for trow, vrow in zip(target, B):
                for t, v in zip(trow, vrow): new_flat[t] = v
            want = []; c = 0
            for l in lens: want.append(new_flat[c:c + l]); c += l
            for vname in ("itself", "a copy"):
                def f():
                    a = RaggedArray(B, dtype=int)
                    a[idx] = a if vname == "itself" else RaggedArray(B, dtype=int)
                    return a.tolist()
                Rn.record(f"self-assign {B}{sname} = {vname}", guarded(f), want, want, True, "self-assignment/" + vname, py=f"a = RaggedArray({B}); a{sname} = " + ("a" if vname == "itself" else f"RaggedArray({B})") + "; a.tolist()")


def huge_stage(Rn, tier, rng):
    """more selected rows than any chunk size in the index builder (the library splits work at 100000 rows): the addressed rows receive the
    values, every skipped row (one of them directly before an empty selected row) keeps its content; compared with plain lists, reported as
    the number of differing rows"""
    from npstructures import RaggedArray
    n = 100003
    lens = [(1 if i % 7 else 0) if i % 11 else 3 for i in range(n)]; lens[1] = 2; lens[2] = 0; lens[0] = 1
    rows = []; c = 0
    for l in lens: rows.append(list(range(c, c + l))); c += l
    flat = np.arange(c, dtype=np.int64)
    sels = {"all-but-row-1 (index array)": [0] + list(range(2, n)), "every row (slice)": slice(None), "even rows": slice(0, None, 2),
            "mask without rows 1, 50000": [i not in (1, 50000) for i in range(n)]}
    for name, sel in sels.items():
        chosen = list(range(n))[sel] if isinstance(sel, slice) else ([i for i, b in enumerate(sel) if b] if isinstance(sel[0], bool) else sel)
        for vname in ("scalar", "column"):
            col = [1000000 + 3 * i for i in range(len(chosen))]
            def f():
                a = RaggedArray(flat.copy(), lens)
                idx = sel if isinstance(sel, slice) else np.array(sel)
                a[idx] = -5 if vname == "scalar" else np.array(col).reshape(-1, 1)
                got = a.tolist()
                want = [list(r) for r in rows]
                for k, i in enumerate(chosen): want[i] = [(-5 if vname == "scalar" else col[k])] * len(rows[i])
                bad = [i for i in range(n) if got[i] != want[i]] if len(got) == n else ["row count", len(got)]
                return [len(bad), bad[:5]]
            Rn.record(f"huge-setitem {n} rows [{name}] = {vname}", guarded(f), [0, []], [0, []], True, "huge/" + vname,
                      py=f"lens = [(1 if i % 7 else 0) if i % 11 else 3 for i in range({n})]; lens[1] = 2; lens[2] = 0; lens[0] = 1; a = RaggedArray(np.arange(sum(lens)), lens); a[{name}] = {vname}; differing rows vs plain lists")


def translator_tie():
    return vlib.translator_tie(["view", "elem"])
