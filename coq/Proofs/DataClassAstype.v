From Coq Require Import ZifyBool.
From NPS Require Import ListAux PySlice NumpySem SelRows DataClass DataClassProof.
Open Scope Z_scope.

(* C18: astype to a class with a subset of the fields, in any order: entry i of the result is entry i of the source restricted to those
   fields, each value under its own name *)
Section DCA.
Variable E : Type.
Variable d : E.

Lemma nth_cols k (R : list (list E)) j : (j < k)%nat -> nth j (cols E d k R) [] = map (fun row => nth j row d) R.
Proof.
  intros H. unfold cols. rewrite (nth_indep _ [] (map (fun row : list E => nth 0%nat row d) R)) by (rewrite map_length, seq_length; exact H).
  rewrite (map_nth (fun j => map (fun row : list E => nth j row d) R) (seq 0 k) 0%nat j). now rewrite seq_nth.
Qed.

Theorem obj_astype_entries k (R : list (list E)) keep : Forall (fun j => (j < k)%nat) keep ->
  obj_astype E (cols E d k R) keep = Ok (map (fun j => map (fun row => nth j row d) R) keep).
Proof.
  intros H. unfold obj_astype.
  assert (Hl : length (cols E d k R) = k) by (unfold cols; now rewrite map_length, seq_length).
  rewrite Hl. replace (forallb (fun j => Nat.ltb j k) keep) with true.
  - f_equal. apply map_ext_in. intros j Hj. rewrite Forall_forall in H. now apply nth_cols, H.
  - symmetry. apply forallb_forall. intros j Hj. rewrite Forall_forall in H. apply Nat.ltb_lt. now apply H.
Qed.
Theorem obj_astype_refused k (R : list (list E)) keep j : In j keep -> (k <= j)%nat -> obj_astype E (cols E d k R) keep = Refused.
Proof.
  intros Hin Hj. unfold obj_astype. assert (Hl : length (cols E d k R) = k) by (unfold cols; now rewrite map_length, seq_length). rewrite Hl.
  replace (forallb (fun j => Nat.ltb j k) keep) with false; [reflexivity|]. symmetry. apply Bool.not_true_is_false. intros C.
  rewrite forallb_forall in C. specialize (C j Hin). apply Nat.ltb_lt in C. lia.
Qed.
(* ... and indexing the converted object *)
Theorem obj_astype_item k (R : list (list E)) keep i : keep <> [] -> Forall (fun j => (j < k)%nat) keep ->
  rbind (obj_astype E (cols E d k R) keep) (fun o' => obj_item E o' i) = rmap (fun row => map (fun j => nth j row d) keep) (np_item R i).
Proof.
  intros Hne H. rewrite (obj_astype_entries k R keep H). cbn [rbind]. unfold obj_item. rewrite map_map.
  rewrite (map_ext _ (fun j => rmap (fun row => nth j row d) (np_item R i))) by (intros j; apply np_item_map).
  pose proof (rsequence_const (np_item R i) (map (fun j => fun row : list E => nth j row d) keep)) as Hc.
  rewrite map_map in Hc. rewrite Hc by (destruct keep; [congruence|discriminate]).
  destruct (np_item R i); cbn [rmap]; [|reflexivity]. now rewrite map_map.
Qed.
End DCA.
Print Assumptions obj_astype_item.

Example astype_example :
  obj_astype Z (cols Z 0 3 [[1; 10; 100]; [2; 20; 200]]) [2%nat; 0%nat] = Ok [[100; 200]; [1; 2]].
Proof. reflexivity. Qed.
