(* C19 — property theorems only: each restates the full statement and is closed by the lemma proved in Proofs/. *)
From Coq Require Import ZArith List Bool.
From NPS Require Import ListAux PySlice NumpySem Scatter BuildIdx XorBroadcast View Index Assign Reduce Scan RaOps Heap Hash HashRun BitArr RLE RLEOps RLE2d DataClass RowsSpec AssignSpec MapSpec Denote IdxWidth.
Import ListNotations.
Open Scope Z_scope.

Theorem C19_index_rows_width_independent :
  forall (rows : list row) (s : rowsel), Forall fits32 rows -> index_rows32 rows s = index_rows64 rows s.
Proof. exact index_rows_width_independent. Qed.
Print Assumptions C19_index_rows_width_independent.

Theorem C19_excl_prefix_in32 :
  forall ls : list Z,
       all_nonneg ls -> zsum ls < 2 ^ 31 -> Forall in32 (excl_prefix ls) /\ Forall in32 (cumsum ls).
Proof. exact excl_prefix_in32. Qed.
Print Assumptions C19_excl_prefix_in32.
