From Coq Require Import ZifyBool Permutation.
From NPS Require Import ListAux PySlice NumpySem Scatter BuildIdx XorBroadcast RLE RLEProof RLEOps CanonProof SliceAP BinaryProof RaOps RLE2d RL2Any.
Open Scope Z_scope.

(* C17: _col_any - the sweep over separately sorted starts and ends computes the union of the paired intervals *)

(* ---------- the kept starts / ends are the blocks of a merge ---------- *)
Fixpoint blocks (cs ce : Z) (rest : list (Z * Z)) : list (Z * Z) :=
  match rest with
  | [] => [(cs, ce)]
  | (s, e) :: r => if s >? ce then (cs, ce) :: blocks s e r else blocks cs e r
  end.

Fixpoint starts_after (St En : list Z) : list Z :=          (* St without its head, En: start i+1 is kept iff it lies beyond end i *)
  match St, En with s' :: St', e :: En' => (if s' >? e then [s'] else []) ++ starts_after St' En' | _, _ => [] end.
Fixpoint ends_kept (St En : list Z) : list Z :=             (* St without its head, En: end i is kept iff start i+1 lies beyond it; the last end always *)
  match En with
  | [] => []
  | e :: En' => match St with
               | s' :: St' => (if s' >? e then [e] else []) ++ ends_kept St' En'
               | [] => [e]
               end
  end.

Lemma valid_next_cons s s' St e En : valid_next (s :: s' :: St) (e :: En) = (s' >? e) :: valid_next (s' :: St) En.
Proof. reflexivity. Qed.

Lemma kept_ends_mask : forall St s En, length En = Datatypes.S (length St) -> mask_filter En (valid_next (s :: St) En) = ends_kept St En.
Proof.
  induction St as [|s' St IH]; intros s En H.
  - destruct En as [|e [|e2 En]]; cbn in H; try discriminate. reflexivity.
  - destruct En as [|e En]; [discriminate|]. cbn [length] in H. rewrite valid_next_cons. cbn [mask_filter ends_kept].
    rewrite (IH s' En ltac:(lia)). destruct (s' >? e); reflexivity.
Qed.

Lemma removelast_valid_next : forall St s En, length En = Datatypes.S (length St) ->
  mask_filter St (removelast (valid_next (s :: St) En)) = starts_after St En.
Proof.
  induction St as [|s' St IH]; intros s En H.
  - destruct En as [|e [|e2 En]]; cbn in H; try discriminate. reflexivity.
  - destruct En as [|e En]; [discriminate|]. cbn [length] in H. rewrite valid_next_cons.
    assert (Hne : valid_next (s' :: St) En <> []) by (destruct St, En; cbn; discriminate).
    destruct (valid_next (s' :: St) En) as [|b l] eqn:Ev; [congruence|].
    change (removelast ((s' >? e) :: b :: l)) with ((s' >? e) :: removelast (b :: l)). rewrite <- Ev.
    cbn [mask_filter starts_after]. rewrite (IH s' En ltac:(lia)). destruct (s' >? e); reflexivity.
Qed.

Lemma blocks_split : forall St En s e, length En = length St ->
  map fst (blocks s e (combine St En)) = s :: starts_after St (e :: En) /\ map snd (blocks s e (combine St En)) = ends_kept St (e :: En).
Proof.
  induction St as [|s' St IH]; intros [|e' En] s e H; cbn in H; try discriminate; [split; reflexivity|].
  cbn [combine blocks starts_after ends_kept]. destruct (IH En s' e' ltac:(lia)) as [I1 I2].
  destruct (s' >? e) eqn:G.
  - cbn [map fst snd app]. rewrite I1, I2. split; reflexivity.
  - cbn [app]. destruct (IH En s e' ltac:(lia)) as [J1 J2]. rewrite J1, J2. split; [|reflexivity].
    (* the kept starts after s do not depend on which start heads the current block *)
    reflexivity.
Qed.

(* ---------- what the assembled run-length array decodes to ---------- *)
Fixpoint dense_blocks (cur : Z) (B : list (Z * Z)) (L : Z) : list bool :=
  match B with
  | [] => repeat false (Z.to_nat (L - cur))
  | (s, e) :: B' => repeat false (Z.to_nat (s - cur)) ++ repeat true (Z.to_nat (e - s)) ++ dense_blocks e B' L
  end.
Definition pair_idx (B : list (Z * Z)) : list Z := concat (map (fun se => [fst se; snd se]) B).
Definition pair_vals (B : list (Z * Z)) : list bool := concat (map (fun _ : Z * Z => [true; false]) B).

Lemma decode_uniform : forall B cur L, decode bool (cur :: pair_idx B ++ [L], false :: pair_vals B) = dense_blocks cur B L.
Proof.
  induction B as [|[s e] B IH]; intros cur L.
  - cbn [pair_idx pair_vals map concat app dense_blocks]. rewrite decode_cons2. unfold decode. cbn. now rewrite app_nil_r.
  - cbn [pair_idx pair_vals map concat app dense_blocks fst snd]. fold (pair_idx B). fold (pair_vals B).
    rewrite decode_cons2. f_equal. rewrite decode_cons2. f_equal. apply IH.
Qed.

(* appending the closing boundary when the last boundary already is L adds a run of length 0 *)
Lemma decode_close : forall (idx : list Z) (vals : list bool) L, length vals = length idx -> idx <> [] -> last idx 0 = L ->
  decode bool (idx ++ [L], vals) = decode bool (idx, removelast vals).
Proof.
  induction idx as [|i idx IH]; intros vals L Hl Hne Hlast; [congruence|].
  destruct vals as [|v vals]; [discriminate|]. destruct idx as [|i2 idx].
  - destruct vals; [|discriminate]. cbn [last] in Hlast. subst. cbn [app removelast]. rewrite decode_cons2. replace (Z.to_nat (L - L)) with 0%nat by lia. reflexivity.
  - destruct vals as [|v2 vals]; [discriminate|]. cbn [app]. rewrite decode_cons2.
    change (removelast (v :: v2 :: vals)) with (v :: removelast (v2 :: vals)). rewrite decode_cons2. f_equal.
    apply (IH (v2 :: vals) L); [cbn in *; lia|discriminate|exact Hlast].
Qed.

Definition close (L : Z) (iv : list Z * list bool) : list Z * list bool :=
  if last (fst iv) 0 =? L then (fst iv, removelast (snd iv)) else (fst iv ++ [L], snd iv).
Lemma decode_closed idx vals L : length vals = length idx -> idx <> [] -> decode bool (close L (idx, vals)) = decode bool (idx ++ [L], vals).
Proof.
  intros Hl Hne. unfold close. cbn [fst snd]. destruct (last idx 0 =? L) eqn:E; [|reflexivity]. symmetry. apply decode_close; [assumption|assumption|lia].
Qed.

(* the code's assembly from the kept starts and ends *)
Definition assemble (B : list (Z * Z)) (L : Z) : list Z * list bool :=
  let idx := pair_idx B in let vals := pair_vals B in
  close L (match B with
           | (s0, _) :: _ => if s0 =? 0 then (idx, vals) else (0 :: idx, false :: vals)
           | [] => (0 :: idx, false :: vals)
           end).

Lemma pair_lengths B : length (pair_vals B) = length (pair_idx B).
Proof. induction B as [|[s e] B IH]; [reflexivity|]. cbn [pair_idx pair_vals map concat app length]. fold (pair_idx B) (pair_vals B). now rewrite IH. Qed.

Theorem decode_assemble B L : decode bool (assemble B L) = dense_blocks 0 B L.
Proof.
  unfold assemble. rewrite <- decode_uniform. destruct B as [|[s0 e0] B].
  - rewrite decode_closed; [reflexivity|reflexivity|discriminate].
  - destruct (s0 =? 0) eqn:E0.
    + assert (s0 = 0) by lia. subst s0. rewrite decode_closed; [|apply pair_lengths|cbn; discriminate].
      cbn [pair_idx pair_vals map concat app fst snd]. rewrite (decode_cons2 bool 0 0). replace (Z.to_nat (0 - 0)) with 0%nat by lia. reflexivity.
    + rewrite decode_closed; [reflexivity|cbn [length]; now rewrite pair_lengths|discriminate].
Qed.

(* ---------- the code's selection and assembly is `assemble` of the merged blocks ---------- *)
Definition merged (starts ends : list Z) : list (Z * Z) :=
  match starts, ends with s0 :: St, e0 :: En => blocks s0 e0 (combine St En) | _, _ => [] end.

(* the part of col_any after the two sorts *)
Definition sweep (starts ends : list Z) (L : Z) : list Z * list bool :=
  let vn := valid_next starts ends in
  let vp := match starts with [] => [] | _ => true :: removelast vn end in
  let ks := mask_filter starts vp in
  let ke := mask_filter ends vn in
  let idx := concat (map2 (fun s e => [s; e]) ks ke) in
  let vals := concat (map (fun _ => [true; false]) ks) in
  let '(idx, vals) := match ks with
                      | s0 :: _ => if s0 =? 0 then (idx, vals) else (0 :: idx, false :: vals)
                      | [] => (0 :: idx, false :: vals)
                      end in
  if last idx 0 =? L then (idx, removelast vals) else (idx ++ [L], vals).

Lemma map2_fst_snd (B : list (Z * Z)) : concat (map2 (fun s e => [s; e]) (map fst B) (map snd B)) = pair_idx B.
Proof. induction B as [|[s e] B IH]; [reflexivity|]. cbn [map map2 concat fst snd pair_idx app]. fold (pair_idx B). now rewrite IH. Qed.
Lemma vals_fst (B : list (Z * Z)) : concat (map (fun _ : Z => [true; false]) (map fst B)) = pair_vals B.
Proof. induction B as [|[s e] B IH]; [reflexivity|]. cbn [map concat pair_vals app]. fold (pair_vals B). now rewrite IH. Qed.

Theorem sweep_is_assemble starts ends L : length ends = length starts -> sweep starts ends L = assemble (merged starts ends) L.
Proof.
  intros Hl. destruct starts as [|s0 St]; destruct ends as [|e0 En]; try discriminate; [reflexivity|].
  unfold sweep, merged. cbv zeta.
  rewrite (kept_ends_mask St s0 (e0 :: En) ltac:(cbn in *; lia)).
  match goal with |- context [mask_filter (s0 :: St) (true :: ?l)] => change (mask_filter (s0 :: St) (true :: l)) with (s0 :: mask_filter St l) end.
  rewrite (removelast_valid_next St s0 (e0 :: En) ltac:(cbn in *; lia)).
  destruct (blocks_split St En s0 e0 ltac:(cbn in *; lia)) as [B1 B2].
  set (B := blocks s0 e0 (combine St En)) in *. rewrite <- B1, <- B2.
  rewrite map2_fst_snd, vals_fst.
  unfold assemble, close. destruct B as [|[b0 b1] B']; [discriminate B1|]. cbn [map fst] in B1. injection B1 as -> _.
  cbn [map fst]. destruct (s0 =? 0); reflexivity.
Qed.

(* col_any is: join every row, sort the starts and the ends of the True runs, pad the ends, sweep *)
Lemma col_any_is_sweep (x : rl2) (L : Z) : r_len x = Some L ->
  let rows := map2 row_join (r_idx x) (map (map (fun v => negb (v =? 0))) (r_val x)) in
  let starts := zsort (flat_map (fun r => mask_filter (fst r) (snd r)) rows) in
  let ends0 := zsort (flat_map (fun r => mask_filter (tl (fst r)) (map negb (tl (snd r)))) rows) in
  col_any x = sweep starts (ends0 ++ repeat L (length starts - length ends0)) L.
Proof. intros HL. unfold col_any, sweep. rewrite HL. reflexivity. Qed.

(* ---------- pointwise: a position is True iff a block covers it ---------- *)
Definition covered (B : list (Z * Z)) (p : Z) : bool := existsb (fun se => (fst se <=? p) && (p <? snd se)) B.
Fixpoint chain (cur : Z) (B : list (Z * Z)) (L : Z) : Prop :=
  match B with [] => cur <= L | (s, e) :: B' => cur <= s /\ s <= e /\ chain e B' L end.

Lemma chain_le : forall B cur L, chain cur B L -> cur <= L.
Proof. induction B as [|[s e] B IH]; intros cur L H; [exact H|]. destruct H as (H1 & H2 & H3). specialize (IH e L H3). lia. Qed.
Lemma chain_not_before : forall B cur L p, chain cur B L -> p < cur -> covered B p = false.
Proof.
  induction B as [|[s e] B IH]; intros cur L p H Hp; [reflexivity|]. destruct H as (H1 & H2 & H3).
  unfold covered. cbn [existsb fst snd]. replace (s <=? p) with false by lia. cbn [andb orb]. apply (IH e L p H3). lia.
Qed.
Lemma in_ap s n p : In p (ap s n 1) -> s <= p < s + Z.max n 0.
Proof. unfold ap. rewrite SliceAP.ap_nat_seq. intros H. apply in_map_iff in H as (j & <- & Hj). apply in_seq in Hj. lia. Qed.

Lemma dense_blocks_covered : forall B cur L, chain cur B L -> dense_blocks cur B L = map (covered B) (ap cur (L - cur) 1).
Proof.
  induction B as [|[s e] B IH]; intros cur L H.
  - cbn [dense_blocks]. symmetry. apply map_ap_const; [cbn in H; lia|reflexivity].
  - destruct H as (H1 & H2 & H3). pose proof (chain_le B e L H3) as HeL. cbn [dense_blocks].
    replace (L - cur) with ((s - cur) + ((e - s) + (L - e))) by lia.
    rewrite (map_ap_split bool (covered ((s, e) :: B)) cur (s - cur) ((e - s) + (L - e))) by lia.
    replace (cur + (s - cur)) with s by lia.
    rewrite (map_ap_split bool (covered ((s, e) :: B)) s (e - s) (L - e)) by lia. replace (s + (e - s)) with e by lia.
    f_equal; [|f_equal].
    + symmetry. apply map_ap_const; [lia|]. intros p Hp. unfold covered. cbn [existsb fst snd]. replace (s <=? p) with false by lia. cbn [andb orb].
      apply (chain_not_before B e L p H3). lia.
    + symmetry. apply map_ap_const; [lia|]. intros p Hp. unfold covered. cbn [existsb fst snd]. replace (s <=? p) with true by lia. replace (p <? e) with true by lia. reflexivity.
    + rewrite (IH e L H3). apply map_ext_in. intros p Hp. apply in_ap in Hp. unfold covered. cbn [existsb fst snd]. replace (p <? e) with false by lia.
      now rewrite Bool.andb_false_r.
Qed.

(* ---------- merging the paired, separately sorted starts and ends keeps the union ---------- *)
Fixpoint okrest (cs ce : Z) (rest : list (Z * Z)) : Prop :=      (* starts and ends both weakly increasing, every start before its end *)
  match rest with [] => True | (s, e) :: r => cs <= s /\ ce <= e /\ s <= e /\ okrest s e r end.

Lemma okrest_weaken : forall rest cs cs' ce, okrest cs ce rest -> cs' <= cs -> okrest cs' ce rest.
Proof. destruct rest as [|[s e] r]; intros cs cs' ce H Hc; [exact I|]. destruct H as (H1 & H2 & H3 & H4). repeat split; try assumption; lia. Qed.
Lemma okrest_raise : forall rest cs s e, okrest s e rest -> cs <= s -> okrest cs e rest.
Proof. intros rest cs s e H Hc. now apply (okrest_weaken rest s cs e). Qed.

Lemma blocks_covered : forall rest cs ce p, cs <= ce -> okrest cs ce rest -> covered (blocks cs ce rest) p = covered ((cs, ce) :: rest) p.
Proof.
  induction rest as [|[s e] r IH]; intros cs ce p Hc H; [reflexivity|]. destruct H as (H1 & H2 & H3 & H4). cbn [blocks].
  destruct (s >? ce) eqn:G.
  - unfold covered at 1. cbn [existsb fst snd]. fold (covered (blocks s e r) p). rewrite (IH s e p H3 H4). reflexivity.
  - rewrite (IH cs e p ltac:(lia) (okrest_raise r cs s e H4 H1)). unfold covered. cbn [existsb fst snd].
    destruct (existsb _ r); [now rewrite !Bool.orb_true_r|]. rewrite !Bool.orb_false_r. lia.
Qed.

Lemma blocks_chain : forall rest cs ce cur L, cur <= cs -> cs <= ce -> okrest cs ce rest -> ce <= L -> Forall (fun se => snd se <= L) rest ->
  chain cur (blocks cs ce rest) L.
Proof.
  induction rest as [|[s e] r IH]; intros cs ce cur L Hcur Hc H HL HF.
  - cbn. lia.
  - destruct H as (H1 & H2 & H3 & H4). inversion HF as [|? ? He HF']; subst. cbn [snd] in He. cbn [blocks]. destruct (s >? ce) eqn:G.
    + cbn [chain]. repeat split; [lia|lia|]. apply IH; try assumption; lia.
    + apply IH; try assumption; try lia. now apply (okrest_raise r cs s e).
Qed.

(* the sweep on sorted, paired starts and ends decodes to the union of the paired intervals *)
Theorem sweep_correct (s0 e0 : Z) (St En : list Z) (L : Z) : length En = length St -> 0 <= s0 -> s0 <= e0 -> okrest s0 e0 (combine St En) ->
  e0 <= L -> Forall (fun e => e <= L) En ->
  decode bool (sweep (s0 :: St) (e0 :: En) L) = map (covered ((s0, e0) :: combine St En)) (ap 0 L 1).
Proof.
  intros Hl H0 H1 Hok HL HF.
  rewrite (sweep_is_assemble (s0 :: St) (e0 :: En) L ltac:(cbn; lia)), decode_assemble. unfold merged.
  assert (HF' : Forall (fun se : Z * Z => snd se <= L) (combine St En)).
  { apply Forall_forall. intros [s e] Hin. apply in_combine_r in Hin. rewrite Forall_forall in HF. cbn. now apply HF. }
  rewrite (dense_blocks_covered _ 0 L (blocks_chain (combine St En) s0 e0 0 L H0 H1 Hok HL HF')). rewrite Z.sub_0_r.
  apply map_ext. intros p. apply blocks_covered; assumption.
Qed.

(* ---------- counting: a position is covered iff more starts than ends lie at or before it ---------- *)
Definition cle (l : list Z) (p : Z) : Z := zlen (filter (fun x => x <=? p) l).

Lemma cle_cons x l p : cle (x :: l) p = (if x <=? p then 1 else 0) + cle l p.
Proof. unfold cle. cbn [filter]. destruct (x <=? p); unfold zlen; cbn [length]; lia. Qed.
Lemma cle_nonneg l p : 0 <= cle l p. Proof. unfold cle, zlen. lia. Qed.
Lemma filter_perm (f : Z -> bool) l l' : Permutation l l' -> Permutation (filter f l) (filter f l').
Proof.
  intros H. induction H as [|x l l' H IH|x y l|l l' l'' H1 IH1 H2 IH2]; cbn [filter].
  - reflexivity.
  - destruct (f x); [now apply perm_skip|exact IH].
  - destruct (f y), (f x); try apply perm_swap; reflexivity.
  - etransitivity; eassumption.
Qed.
Lemma cle_perm l l' p : Permutation l l' -> cle l p = cle l' p.
Proof. intros H. unfold cle, zlen. f_equal. apply Permutation_length. now apply filter_perm. Qed.
Lemma cle_all_gt l p : Forall (fun x => p < x) l -> cle l p = 0.
Proof. induction 1 as [|x l Hx _ IH]; [reflexivity|]. rewrite cle_cons, IH. replace (x <=? p) with false by lia. reflexivity. Qed.

(* original intervals *)
Lemma intervals_le (I : list (Z * Z)) p : Forall (fun se => fst se < snd se) I -> cle (map snd I) p <= cle (map fst I) p.
Proof. induction 1 as [|[s e] I H _ IH]; [reflexivity|]. cbn [map fst snd] in *. rewrite !cle_cons. destruct (e <=? p) eqn:?; destruct (s <=? p) eqn:?; lia. Qed.
Lemma intervals_count (I : list (Z * Z)) p : Forall (fun se => fst se < snd se) I -> covered I p = (cle (map snd I) p <? cle (map fst I) p).
Proof.
  intros H. pose proof (intervals_le I p H) as Hle. induction H as [|[s e] I H HI IH]; [reflexivity|]. cbn [map fst snd] in *.
  unfold covered. cbn [existsb fst snd]. fold (covered I p). pose proof (intervals_le I p HI) as Hle'. rewrite (IH Hle'). rewrite !cle_cons.
  destruct (s <=? p) eqn:E1; destruct (p <? e) eqn:E2; destruct (e <=? p) eqn:E3; cbn [andb orb]; try lia.
Qed.

(* zipped sorted starts / ends *)
Fixpoint dominated (s e : Z) (Zs : list (Z * Z)) : Prop := match Zs with [] => True | (s', e') :: r => s <= s' /\ e <= e' /\ dominated s e r end.
Lemma okrest_dominated : forall rest cs ce, okrest cs ce rest -> dominated cs ce rest.
Proof.
  induction rest as [|[s e] r IH]; intros cs ce H; [exact I|]. destruct H as (H1 & H2 & H3 & H4). cbn [dominated]. repeat split; try assumption.
  specialize (IH s e H4). clear -IH H1 H2. induction r as [|[s' e'] r IHr]; [exact I|]. destruct IH as (A & B & C). cbn [dominated]. repeat split; try lia. now apply IHr.
Qed.
Lemma dominated_starts s e Zs p : dominated s e Zs -> p < s -> cle (map fst Zs) p = 0.
Proof. intros H Hp. apply cle_all_gt. induction Zs as [|[s' e'] r IH]; [constructor|]. destruct H as (A & B & C). cbn [map fst]. constructor; [lia|now apply IH]. Qed.
Lemma dominated_ends s e Zs p : dominated s e Zs -> p < e -> cle (map snd Zs) p = 0.
Proof. intros H Hp. apply cle_all_gt. induction Zs as [|[s' e'] r IH]; [constructor|]. destruct H as (A & B & C). cbn [map snd]. constructor; [lia|now apply IH]. Qed.
Lemma dominated_uncovered s e Zs p : dominated s e Zs -> p < s -> covered Zs p = false.
Proof. intros H Hp. induction Zs as [|[s' e'] r IH]; [reflexivity|]. destruct H as (A & B & C). unfold covered. cbn [existsb fst snd]. replace (s' <=? p) with false by lia. cbn [andb orb]. now apply IH. Qed.

Lemma covered_cons x l p : covered (x :: l) p = ((fst x <=? p) && (p <? snd x)) || covered l p.
Proof. reflexivity. Qed.

Lemma zipped_count : forall Zs s e p, s <= e -> okrest s e Zs -> covered ((s, e) :: Zs) p = (cle (map snd ((s, e) :: Zs)) p <? cle (map fst ((s, e) :: Zs)) p).
Proof.
  induction Zs as [|[s' e'] r IH]; intros s e p Hse H.
  - unfold covered. cbn [existsb map fst snd]. rewrite !cle_cons. unfold cle. cbn. destruct (s <=? p) eqn:?; destruct (p <? e) eqn:?; destruct (e <=? p) eqn:?; cbn; lia.
  - pose proof (okrest_dominated _ _ _ H) as Hd. destruct H as (H1 & H2 & H3 & H4).
    change (map snd ((s, e) :: (s', e') :: r)) with (e :: map snd ((s', e') :: r)). change (map fst ((s, e) :: (s', e') :: r)) with (s :: map fst ((s', e') :: r)).
    rewrite !cle_cons. rewrite (covered_cons (s, e)). cbn [fst snd].
    destruct (Z.lt_ge_cases p s) as [Hps|Hps].
    + (* before the first start: nothing covers, no start counted *)
      rewrite (dominated_starts s e ((s', e') :: r) p Hd Hps). rewrite (dominated_uncovered s e ((s', e') :: r) p Hd Hps).
      pose proof (cle_nonneg (map snd ((s', e') :: r)) p). replace (s <=? p) with false by lia. destruct (e <=? p); cbn [andb orb]; lia.
    + destruct (Z.lt_ge_cases p e) as [Hpe|Hpe].
      * rewrite (dominated_ends s e ((s', e') :: r) p Hd Hpe). pose proof (cle_nonneg (map fst ((s', e') :: r)) p).
        replace (s <=? p) with true by lia. replace (p <? e) with true by lia. replace (e <=? p) with false by lia. cbn [andb orb]. lia.
      * rewrite (IH s' e' p H3 H4). replace (s <=? p) with true by lia. replace (p <? e) with false by lia. replace (e <=? p) with true by lia. cbn [andb orb]. lia.
Qed.

(* ---------- sorted starts and ends of real intervals pair up: start i lies at or before end i ---------- *)
Fixpoint zsorted (l : list Z) : Prop := match l with x :: ((y :: _) as r) => x <= y /\ zsorted r | _ => True end.
Lemma zsorted_tail x l : zsorted (x :: l) -> zsorted l. Proof. destruct l; [intros; exact I|intros [_ H]; exact H]. Qed.
Lemma zsorted_all_ge : forall l x, zsorted (x :: l) -> Forall (fun y => x <= y) l.
Proof.
  induction l as [|y l IH]; intros x H; [constructor|]. destruct H as [Hxy H]. constructor; [exact Hxy|].
  eapply Forall_impl; [|apply (IH y H)]. cbn; intros; lia.
Qed.

Lemma sorted_okrest : forall St En s e, zsorted (s :: St) -> zsorted (e :: En) -> length En = length St ->
  (forall p, cle (e :: En) p <= cle (s :: St) p) -> s <= e /\ okrest s e (combine St En).
Proof.
  induction St as [|s' St IH]; intros [|e' En] s e HS HE Hl Hc; cbn in Hl; try discriminate.
  - split; [|exact I]. specialize (Hc e). rewrite !cle_cons in Hc. unfold cle in Hc. cbn in Hc. destruct (s <=? e) eqn:?; destruct (e <=? e) eqn:?; lia.
  - assert (Hse : s <= e).
    { destruct (Z.le_gt_cases s e) as [H|H]; [exact H|exfalso]. specialize (Hc e).
      rewrite (cle_cons e), (cle_all_gt (s :: s' :: St) e) in Hc.
      - pose proof (cle_nonneg (e' :: En) e). replace (e <=? e) with true in Hc by lia. lia.
      - constructor; [lia|]. eapply Forall_impl; [|apply (zsorted_all_ge (s' :: St) s HS)]. cbn; intros; lia. }
    assert (Hc' : forall p, cle (e' :: En) p <= cle (s' :: St) p).
    { intros p. specialize (Hc p). rewrite (cle_cons e), (cle_cons s) in Hc. destruct (e <=? p) eqn:Ee.
      - destruct (s <=? p); lia.
      - rewrite (cle_all_gt (e' :: En) p); [apply cle_nonneg|]. eapply Forall_impl; [|apply (zsorted_all_ge (e' :: En) e HE)]. cbn; intros; lia. }
    destruct (IH En s' e' (zsorted_tail _ _ HS) (zsorted_tail _ _ HE) ltac:(lia) Hc') as [Hs'e' Hok].
    split; [exact Hse|]. cbn [combine okrest]. destruct HS as [Hss' _]. destruct HE as [Hee' _]. repeat split; assumption.
Qed.

Lemma zsort_perm l : Permutation l (zsort l).
Proof.
  unfold zsort. pose proof (sort_perm (map (fun x : Z => (x, tt)) l)) as H. apply (Permutation_map fst) in H. rewrite map_map in H. cbn [fst] in H. now rewrite map_id in H.
Qed.
Lemma zsort_sorted l : zsorted (zsort l).
Proof.
  unfold zsort. pose proof (sort_sorted (map (fun x : Z => (x, tt)) l)) as H. induction (stable_sort _) as [|p r IH]; [exact I|].
  destruct r as [|q r]; [exact I|]. destruct H as [Hpq H]. cbn [map zsorted]. split; [exact Hpq|]. apply IH. exact H.
Qed.

(* ---------- the sweep over ANY sorted arrangement of the starts and of the ends of a family of intervals decodes to their union ---------- *)
Lemma map_fst_combine' : forall (a b : list Z), length a = length b -> map fst (combine a b) = a.
Proof. induction a as [|x a IH]; intros [|y b] H; cbn in H; try discriminate; [reflexivity|]. cbn [combine map fst]. f_equal. apply IH. lia. Qed.
Lemma map_snd_combine' : forall (a b : list Z), length a = length b -> map snd (combine a b) = b.
Proof. induction a as [|x a IH]; intros [|y b] H; cbn in H; try discriminate; [reflexivity|]. cbn [combine map snd]. f_equal. apply IH. lia. Qed.

Theorem sweep_intervals (I : list (Z * Z)) (St En : list Z) (L : Z) :
  Permutation St (map fst I) -> Permutation En (map snd I) -> zsorted St -> zsorted En ->
  Forall (fun se => 0 <= fst se /\ fst se < snd se /\ snd se <= L) I -> 0 <= L ->
  decode bool (sweep St En L) = map (covered I) (ap 0 L 1).
Proof.
  intros PS PE HS HE HI HL.
  assert (Hlen : length En = length St).
  { apply Permutation_length in PS. apply Permutation_length in PE. rewrite map_length in *. lia. }
  assert (Hlt : Forall (fun se : Z * Z => fst se < snd se) I) by (eapply Forall_impl; [|exact HI]; cbn; intros; lia).
  destruct St as [|s0 St]; destruct En as [|e0 En]; try discriminate.
  - (* no interval at all *)
    apply Permutation_nil in PS. destruct I; [|discriminate].
    rewrite (sweep_is_assemble [] [] L eq_refl), decode_assemble. cbn [merged].
    rewrite (dense_blocks_covered [] 0 L HL). now rewrite Z.sub_0_r.
  - assert (Hc : forall p, cle (e0 :: En) p <= cle (s0 :: St) p).
    { intros p. rewrite (cle_perm _ _ p PS), (cle_perm _ _ p PE). now apply intervals_le. }
    destruct (sorted_okrest St En s0 e0 HS HE ltac:(cbn in Hlen; lia) Hc) as [Hse Hok].
    assert (H0 : 0 <= s0).
    { assert (Hin : In s0 (map fst I)) by (eapply Permutation_in; [exact PS|now left]). apply in_map_iff in Hin as (se & <- & Hin).
      rewrite Forall_forall in HI. specialize (HI se Hin). lia. }
    assert (HEL : Forall (fun e => e <= L) (e0 :: En)).
    { apply Forall_forall. intros e Hin. assert (Hin' : In e (map snd I)) by (eapply Permutation_in; [exact PE|exact Hin]).
      apply in_map_iff in Hin' as (se & <- & Hin'). rewrite Forall_forall in HI. specialize (HI se Hin'). lia. }
    inversion HEL as [|? ? He0 HEn]; subst.
    rewrite (sweep_correct s0 e0 St En L ltac:(cbn in Hlen; lia) H0 Hse Hok He0 HEn).
    apply map_ext. intros p. rewrite (zipped_count (combine St En) s0 e0 p Hse Hok).
    cbn [map fst snd]. rewrite (map_fst_combine' St En) by (cbn in Hlen; lia). rewrite (map_snd_combine' St En) by (cbn in Hlen; lia).
    rewrite (cle_perm _ _ p PS), (cle_perm _ _ p PE). symmetry. now apply intervals_count.
Qed.
Print Assumptions sweep_intervals.
