From Coq Require Import ZifyBool.
From NPS Require Import ListAux PySlice NumpySem SelRows BuildIdx XorProof.
Open Scope Z_scope.

(* C19: the int32 configuration.  ViewBase._index_rows (raggedshape.py L160-164) reads each (start, length)
   pair of int32 codes as one little-endian uint64 word, gathers words, and splits them again. *)
Definition pack32 (r : row) : Z := fst r + snd r * 2 ^ 32.
Definition unpack32 (w : Z) : row := (w mod 2 ^ 32, w / 2 ^ 32).
Definition index_rows32 (rows : list row) (s : rowsel) : res (list row) :=
  rmap (map unpack32) (sel_rows s (map pack32 rows)).
Definition index_rows64 (rows : list row) (s : rowsel) : res (list row) := sel_rows s rows.

Definition fits32 (r : row) : Prop := 0 <= fst r < 2 ^ 31 /\ 0 <= snd r < 2 ^ 31.

Lemma unpack_pack r : fits32 r -> unpack32 (pack32 r) = r.
Proof.
  intros [[H1 H2] [H3 H4]]. destruct r as [s l]. unfold unpack32, pack32. cbn [fst snd] in *.
  assert (E : 2 ^ 31 < 2 ^ 32) by reflexivity.
  f_equal.
  - rewrite Z.mod_add by lia. apply Z.mod_small. lia.
  - rewrite Z.div_add by lia. rewrite Z.div_small by lia. lia.
Qed.

Theorem index_rows_width_independent rows s : Forall fits32 rows -> index_rows32 rows s = index_rows64 rows s.
Proof.
  intros H. unfold index_rows32, index_rows64. rewrite sel_rows_map.
  destruct (sel_rows s rows) as [rows'|] eqn:E; cbn [rmap]; [|reflexivity].
  f_equal. rewrite map_map. rewrite <- (map_id rows') at 2. apply map_ext_in. intros r Hr.
  apply unpack_pack. rewrite Forall_forall in H. apply H. eapply sel_rows_In; eauto.
Qed.

(* every number the geometry code computes for an array that fits in int32 stays inside int32 *)
Definition in32 (x : Z) : Prop := - 2 ^ 31 <= x < 2 ^ 31.
Lemma excl_prefix_in32 ls : all_nonneg ls -> zsum ls < 2 ^ 31 -> Forall in32 (excl_prefix ls) /\ Forall in32 (cumsum ls).
Proof.
  intros Hnn Hs. split.
  - eapply Forall_impl; [|apply (XorProof.excl_from_bounds 0 ls Hnn)]. cbn. unfold in32. intros; lia.
  - eapply Forall_impl; [|apply (XorProof.cumsum_from_bounds 0 ls Hnn)]. cbn. unfold in32. intros; lia.
Qed.
Print Assumptions index_rows_width_independent.
