(* C02 — indexing reads exactly the addressed cells, or refuses.  Property theorem only; proof in Proofs/GetItem.v. *)
From NPS Require Import ListAux PySlice NumpySem View Index RowsSpec Denote GetItem.

(* index_ok: a ragged boolean mask has the array's row lengths (what the library requires of a mask operand) *)
Theorem C02_getitem : forall (A : Type) (dflt : A) (a : ra A) (idx : index),
  WF A a -> index_ok A (denote A dflt a) idx -> model_obs A a idx = spec_getitem (denote A dflt a) idx.
Proof. exact getitem_correct. Qed.
Print Assumptions C02_getitem.

(* ---- supporting theorems the property theorem rests on (generated) ---- *)
From Coq Require Import ZArith List Bool.
From NPS Require Import ListAux PySlice NumpySem Scatter BuildIdx XorBroadcast View Index Assign Reduce Scan RaOps Heap Hash HashRun BitArr RLE RLEOps RLE2d DataClass RowsSpec AssignSpec MapSpec Denote Kernels SliceAP ColSlice SelRows GetItem SetItem.
Import ListNotations.
Open Scope Z_scope.

Theorem C02_col_kernel_spec :
  forall (c : Z) (sl : pyslice) (s L : Z),
       0 <= L ->
       step_of sl <> 0 ->
       snd (col_kernel c sl (s, L)) = py_count L sl /\
       (0 < py_count L sl -> fst (col_kernel c sl (s, L)) = s + py_start L sl * c).
Proof. exact col_kernel_spec. Qed.
Print Assumptions C02_col_kernel_spec.

Theorem C02_ap_getslice :
  forall (s L c : Z) (sl : pyslice),
       0 <= L ->
       step_of sl <> 0 ->
       map (znth 0 (ap s L c)) (py_positions L sl) =
       ap (s + py_start L sl * c) (py_count L sl) (step_of sl * c).
Proof. exact ap_getslice. Qed.
Print Assumptions C02_ap_getslice.

Theorem C02_col_slice_row :
  forall (A : Type) (dflt : A) (d : list A) (n c : Z) (sl : pyslice) (s L : Z),
       row_ok n c (s, L) ->
       step_of sl <> 0 ->
       let r' := col_kernel c sl (s, L) in
       row_cells A dflt d (c * step_of sl) r' = slice_list (row_cells A dflt d c (s, L)) sl /\
       row_ok n (c * step_of sl) r'.
Proof. exact col_slice_row. Qed.
Print Assumptions C02_col_slice_row.

Theorem C02_build_indices_correct :
  forall (rows : list (Z * Z)) (step : Z),
       Forall (fun r : Z * Z => 0 <= snd r) rows -> build_indices rows step = spec_indices rows step.
Proof. exact build_indices_correct. Qed.
Print Assumptions C02_build_indices_correct.

Theorem C02_resolve_ok :
  forall (A : Type) (dflt : A) (a' : ra A) (idx : index) (t : target),
       WF A a' ->
       MaterialiseWF.is_contig (ra_geom a') ->
       index_ok A (denote A dflt a') idx -> resolve a' idx = Ok t -> target_ok (zlen (ra_data a')) t.
Proof. exact resolve_ok. Qed.
Print Assumptions C02_resolve_ok.

Theorem C02_resolve_cells :
  forall (A : Type) (dflt : A) (a' : ra A) (idx : index),
       WF A a' ->
       MaterialiseWF.is_contig (ra_geom a') ->
       index_ok A (denote A dflt a') idx ->
       spec_getitem (tagged (denote A dflt a')) idx =
       match resolve a' idx with
       | Ok t => Ok (cells_of t)
       | Refused => Refused
       end.
Proof. exact resolve_cells. Qed.
Print Assumptions C02_resolve_cells.

Theorem C02_sel_rows_In :
  forall (X : Type) (s : rowsel) (l l' : list X),
       sel_rows s l = Ok l' -> forall x : X, In x l' -> In x l.
Proof. exact (@sel_rows_In). Qed.
Print Assumptions C02_sel_rows_In.
