From NPS Require Import ListAux PySlice NumpySem.
Open Scope Z_scope.

(* C18: npdataclass (npdataclasses.py): a table is a list of equally long columns; E = one entry of a field *)
Section DC.
Variable E : Type.
Definition obj := list (list E).                                     (* fields -> entries *)
Definition same_lens (o : obj) : bool :=
  match o with [] => true | f :: r => forallb (fun g => Nat.eqb (length g) (length f)) r end.
Definition mk_obj (o : obj) : res obj := if same_lens o then Ok o else Refused.     (* _assert_same_lens *)
Definition obj_len (o : obj) : Z := match o with [] => 0 | f :: _ => zlen f end.     (* __len__ *)
(* __getitem__: the same selector on every field *)
Definition obj_select (o : obj) (s : rowsel) : res obj := rsequence (map (sel_rows s) o).
Definition obj_item (o : obj) (i : Z) : res (list E) := rsequence (map (fun f => np_item f i) o).
(* __iter__ (L136-137): (self[i] for i in range(len(self))) *)
Definition obj_iter (o : obj) : list (res (list E)) := map (fun i => obj_item o (Z.of_nat i)) (seq 0 (Z.to_nat (obj_len o))).
(* np.concatenate: field-wise *)
Fixpoint transpose_cols (os : list obj) (nfields : nat) : obj :=
  match nfields with O => [] | S k => concat (map (fun o => hd [] o) os) :: transpose_cols (map (@tl (list E)) os) k end.
Definition obj_concat (os : list obj) : obj := match os with [] => [] | o :: _ => transpose_cols os (length o) end.
(* astype (L93-99): the fields of the target class, looked up BY NAME in the source (a field = its position in the source; `keep` lists
   the source positions in the target's declared order); a name the source does not have is refused *)
Definition obj_astype (o : obj) (keep : list nat) : res obj :=
  if forallb (fun j => Nat.ltb j (length o)) keep then Ok (map (fun j => nth j o []) keep) else Refused.
(* entries = transpose: entry i consists of the i-th element of every field *)
Definition heads (o : obj) : list E := flat_map (fun f => match f with e :: _ => [e] | [] => [] end) o.
Fixpoint entries (o : obj) (n : nat) : list (list E) :=
  match n with O => [] | S k => heads o :: entries (map (@tl E) o) k end.
End DC.

(* VarLenArray concatenate (L21-35): right-align, zero-pad on the left *)
Definition varlen_concat (blocks : list (list (list Z))) : list (list Z) :=
  let widths := map (fun b => match b with [] => 0 | r :: _ => zlen r end) blocks in
  let W := fold_left Z.max widths 0 in
  flat_map (fun b => map (fun r => repeat 0 (Z.to_nat (W - zlen r)) ++ r) b) blocks.

(* __eq__ (npdataclass FinalClass.__eq__): same shape and all cells equal, field by field *)
Section DCEq.
Variable E : Type.
Variable eqb : E -> E -> bool.
Fixpoint list_eqb (a b : list E) : bool :=
  match a, b with [], [] => true | x :: a', y :: b' => eqb x y && list_eqb a' b' | _, _ => false end.
Fixpoint obj_eqb (o o' : list (list E)) : bool :=
  match o, o' with [], _ => true | _, [] => true | f :: r, g :: r' => list_eqb f g && obj_eqb r r' end.   (* zip stops at the shorter *)
End DCEq.
