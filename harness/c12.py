"""C12 — Counter totals equal the number of occurrences seen so far (histories)."""
import vlib
from harness import fam_hash, fam_hash2
TRUSTED = fam_hash.TRUSTED
ASSUME = ["keys are unique (the constructor's precondition) and |key| <= 2**62"]
RULE = fam_hash2.RULE2 + " || " + "Counter histories; " + fam_hash.RULE
def fast_index_stage(R, tier, rng):
    """RaggedView._get_flat_indices_fast (the gather used by Counter.count after the empty buckets are removed) against Proofs/FastIndices.v"""
    import numpy as np
    from npstructures.raggedshape import RaggedView
    from vlib import show, parse2, oracle, guarded
    cases = []
    for _ in range(2000 if tier == 'thorough' else 400):
        k = rng.randint(1, 6); lens = [rng.randint(1, 4) for _ in range(k)]; starts = [rng.randint(0, 30) for _ in range(k)]
        def impl():
            v = RaggedView(np.array(starts), np.array(lens)); v.empty_removed = True
            idx, shape = v.get_flat_indices(); return [int(x) for x in idx]
        cases.append(('fastidx ' + show(starts) + ' ' + show(lens), guarded(impl), k >= 2))
    out = oracle([c[0] for c in cases])
    for (line, impl, nt), o in zip(cases, out):
        m, s = parse2(o); R.record(line, impl, m, s, nt, 'fast-indices', py='RaggedView(starts, lengths) with empty_removed: get_flat_indices()  ' + line)


def run(R, tier, rng):
    fast_index_stage(R, tier, rng)
    fam_hash2.extra_stage(R, tier, rng, True)
    fam_hash2.big_stage(R, tier, rng, True)
    fam_hash2.run_family2(R, tier, rng, True)
    fam_hash.run_family(R, tier, rng, counter=True)


def translator_tie():
    return vlib.translator_tie(["hash"])
