From NPS Require Import ListAux NumpySem BuildIdx RaOps.
Open Scope Z_scope.

(* RaggedArray.mean(axis=0) (raggedarray/__init__.py): `s = self.sum(axis=0); lengths = self.col_counts(); return s / lengths` -- the element-wise
   quotient of the two column arrays; the division itself (float64, after `astype(float)`) is a parameter *)
Definition ra_col_mean {C} (dv : Z -> Z -> C) (a : flat_ra Z) : list C := map2 dv (ra_colsum a) (ra_col_counts (snd a)).

(* RaggedArray.mean(axis=-1): `s = self.sum(axis=-1); lengths = self._shape.lengths; return s / lengths` -- the row sums (the reduceat-based
   reduction of Model/Reduce.v with np.add) divided element-wise by the row lengths *)
From NPS Require Import Reduce.
Definition ra_row_mean {C} (dv : Z -> Z -> C) (a : flat_ra Z) : option (list C) :=
  match reduce_model Z 0 Z.add 0 (fst a) (snd a) with Some s => Some (map2 dv s (snd a)) | None => None end.
