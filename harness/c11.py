"""C11 — HashTable is a dictionary over a fixed set of integer keys (histories)."""
import vlib
from harness import fam_hash, fam_hash2
TRUSTED = fam_hash.TRUSTED
ASSUME = ["keys are unique (the constructor's precondition) and |key| <= 2**62"]
RULE = fam_hash2.RULE2 + " || " + "HashTable histories; " + fam_hash.RULE
def run(R, tier, rng):
    fam_hash2.run_family2(R, tier, rng, False)
    fam_hash.run_family(R, tier, rng, counter=False)


def translator_tie():
    return vlib.translator_tie(["hash"])
