From NPS Require Import ListAux PySlice Scatter BuildIdx XorBroadcast.
Open Scope Z_scope.

(* ---------- generic list / scatter lemmas ---------- *)
Lemma zset_length {A} (l : list A) p v : length (zset l p v) = length l.
Proof. apply set_nat_length. Qed.
Lemma scatter_set_length {A} (l : list A) ps vs : length (scatter_set l ps vs) = length l.
Proof. revert l vs; induction ps as [|p ps IH]; intros l [|v vs]; cbn; auto. rewrite IH. apply zset_length. Qed.

Lemma set_nat_prefix {A} (a ext : list A) p v : (p < length a)%nat -> set_nat (a ++ ext) p v = set_nat a p v ++ ext.
Proof. revert p; induction a as [|x a IH]; intros [|p] H; cbn in *; try lia; auto. f_equal. apply IH. lia. Qed.
Lemma zset_prefix {A} (a ext : list A) p v : 0 <= p < zlen a -> zset (a ++ ext) p v = zset a p v ++ ext.
Proof. intros H. unfold zset, zlen in *. apply set_nat_prefix. lia. Qed.
Lemma scatter_prefix {A} (a ext : list A) ps vs : Forall (fun p => 0 <= p < zlen a) ps ->
  scatter_set (a ++ ext) ps vs = scatter_set a ps vs ++ ext.
Proof.
  revert a vs; induction ps as [|p ps IH]; intros a [|v vs] H; cbn; auto. inversion H; subst.
  rewrite zset_prefix by assumption. apply IH. eapply Forall_impl; [|eassumption].
  cbn; intros q Hq. unfold zlen in *. now rewrite zset_length.
Qed.
Lemma scatter_set_app {A} (b : list A) ps1 ps2 vs1 vs2 : length ps1 = length vs1 ->
  scatter_set b (ps1 ++ ps2) (vs1 ++ vs2) = scatter_set (scatter_set b ps1 vs1) ps2 vs2.
Proof.
  revert b vs1; induction ps1 as [|p ps1 IH]; intros b [|v vs1] H; cbn in *; try discriminate; auto.
Qed.
Lemma map2_app {A B C} (f : A -> B -> C) a1 a2 b1 b2 : length a1 = length b1 ->
  map2 f (a1 ++ a2) (b1 ++ b2) = map2 f a1 b1 ++ map2 f a2 b2.
Proof. revert b1; induction a1 as [|x a1 IH]; intros [|y b1] H; cbn in *; try discriminate; auto. f_equal. apply IH. lia. Qed.
Lemma map2_length {A B C} (f : A -> B -> C) a b : length a = length b -> length (map2 f a b) = length a.
Proof. revert b; induction a as [|x a IH]; intros [|y b] H; cbn in *; try discriminate; auto. Qed.
Lemma map2_ext_in {A B C} (f g : A -> B -> C) a b : (forall x, In x a -> forall y, f x y = g x y) -> map2 f a b = map2 g a b.
Proof.
  revert b; induction a as [|x a IH]; intros [|y b] H; cbn; auto. f_equal; [apply H; now left|].
  apply IH. intros x' Hx'. apply H. now right.
Qed.
Lemma znth_app_prefix {A} (d : A) a ext p : 0 <= p < zlen a -> znth d (a ++ ext) p = znth d a p.
Proof. intros H. unfold znth, zlen in *. apply app_nth1. lia. Qed.
Lemma znth_app_at {A} (d : A) a x ext : znth d (a ++ x :: ext) (zlen a) = x.
Proof. unfold znth, zlen. rewrite Nat2Z.id, app_nth2 by lia. now rewrite Nat.sub_diag. Qed.
Lemma set_nat_twice {A} (l : list A) p v w : set_nat (set_nat l p v) p w = set_nat l p w.
Proof. revert p; induction l as [|x l IH]; intros [|p]; cbn; auto. now rewrite IH. Qed.
Lemma zset_twice {A} (l : list A) p v w : zset (zset l p v) p w = zset l p w.
Proof. apply set_nat_twice. Qed.
Lemma zset_last {A} (a : list A) x v : zset (a ++ [x]) (zlen a) v = a ++ [v].
Proof. unfold zset, zlen. rewrite Nat2Z.id. induction a; cbn; congruence. Qed.
Lemma znth_repeat {A} (d : A) n p : znth d (repeat d n) p = d.
Proof. unfold znth. generalize (Z.to_nat p). induction n; intros [|k]; cbn; auto. Qed.
Lemma map2_snd {A B} (ps : list A) (vs : list B) : length ps = length vs -> map2 (fun _ v => v) ps vs = vs.
Proof. revert vs; induction ps as [|p ps IH]; intros [|v vs] H; cbn in *; try discriminate; auto. f_equal. apply IH. lia. Qed.

(* prefix sums: bounds *)
Lemma cumsum_from_bounds acc ls : all_nonneg ls -> Forall (fun p => acc <= p <= acc + zsum ls) (cumsum_from acc ls).
Proof.
  intros H; revert acc; induction H as [|l ls Hl Hls IH]; intros acc; cbn [cumsum_from zsum]; constructor.
  - pose proof (zsum_nonneg ls Hls). lia.
  - eapply Forall_impl; [|apply IH]. cbn; intros; lia.
Qed.
Lemma excl_from_bounds acc ls : all_nonneg ls -> Forall (fun p => acc <= p <= acc + zsum ls) (excl_from acc ls).
Proof.
  intros H; revert acc; induction H as [|l ls Hl Hls IH]; intros acc; cbn [excl_from zsum]; constructor.
  - pose proof (zsum_nonneg ls Hls). lia.
  - eapply Forall_impl; [|apply IH]. cbn; intros; lia.
Qed.
Lemma excl_from_app acc a b : excl_from acc (a ++ b) = excl_from acc a ++ excl_from (acc + zsum a) b.
Proof. revert acc; induction a as [|x a IH]; intros acc; cbn [app excl_from zsum]; [f_equal; lia|]. rewrite IH. do 3 f_equal. lia. Qed.
Lemma all_nonneg_app a b : all_nonneg (a ++ b) <-> all_nonneg a /\ all_nonneg b.
Proof. apply Forall_app. Qed.

Section XorP.
Variable G : Type.
Variable zero : G.
Variable xor : G -> G -> G.
Hypothesis xor_assoc : forall a b c, xor a (xor b c) = xor (xor a b) c.
Hypothesis xor_comm : forall a b, xor a b = xor b a.
Hypothesis xor_nilp : forall a, xor a a = zero.
Hypothesis xor_zero_l : forall a, xor zero a = a.

Notation pxor_from := (pxor_from G xor).
Notation prefix_xor := (prefix_xor G zero xor).
Notation scatter_xor := (scatter_xor G zero xor).

Lemma xor_zero_r' a : xor a zero = a. Proof. now rewrite xor_comm. Qed.
Lemma xor_cancel' a b : xor a (xor a b) = b. Proof. now rewrite xor_assoc, xor_nilp. Qed.

Lemma pxor_from_app acc a b : pxor_from acc (a ++ b) = pxor_from acc a ++ pxor_from (fold_left xor a acc) b.
Proof. revert acc; induction a as [|x a IH]; intros acc; cbn; [reflexivity|]. now rewrite IH. Qed.
Lemma pxor_zeros acc n : pxor_from acc (repeat zero n) = repeat acc n.
Proof. induction n as [|n IH]; cbn; [reflexivity|]. now rewrite xor_zero_r', IH. Qed.

(* the three intermediate arrays of _raw_broadcast *)
Definition B1 (vals : list G) (ls : list Z) :=
  scatter_xor (repeat zero (Z.to_nat (zsum ls + 1))) (rev (incl_prefix ls)) (rev vals).
Definition B2 vals ls := zset (B1 vals ls) 0 zero.
Definition B3 vals ls := scatter_xor (B2 vals ls) (excl_prefix ls) vals.

Lemma B1_simpl vals ls : length vals = length ls ->
  B1 vals ls = scatter_set (repeat zero (Z.to_nat (zsum ls + 1))) (rev (incl_prefix ls)) (rev vals).
Proof.
  intros H. unfold B1, XorBroadcast.scatter_xor. f_equal.
  rewrite (map2_ext_in _ (fun _ v => v)).
  - apply map2_snd. unfold incl_prefix, cumsum. now rewrite !rev_length, cumsum_from_length.
  - intros p _ v. now rewrite znth_repeat, xor_zero_l.
Qed.

Lemma B1_length vals ls : length (B1 vals ls) = Z.to_nat (zsum ls + 1).
Proof. unfold B1, XorBroadcast.scatter_xor. now rewrite scatter_set_length, repeat_length. Qed.
Lemma B2_length vals ls : length (B2 vals ls) = Z.to_nat (zsum ls + 1).
Proof. unfold B2. now rewrite zset_length, B1_length. Qed.
Lemma B3_length vals ls : length (B3 vals ls) = Z.to_nat (zsum ls + 1).
Proof. unfold B3, XorBroadcast.scatter_xor. now rewrite scatter_set_length, B2_length. Qed.

Definition ext (v : G) (l : Z) : list G := repeat zero (Z.to_nat (l - 1)) ++ [v].

(* adding one non-empty row on the right extends all three arrays *)
Lemma B1_snoc_pos vals ls v l : length vals = length ls -> all_nonneg ls -> 1 <= l ->
  B1 (vals ++ [v]) (ls ++ [l]) = B1 vals ls ++ ext v l.
Proof.
  intros Hlen Hnn Hl. pose proof (zsum_nonneg ls Hnn) as Hs.
  rewrite !B1_simpl by (rewrite ?app_length; cbn; lia).
  unfold incl_prefix, cumsum. rewrite cumsum_from_app, !rev_app_distr. cbn [cumsum_from rev app].
  cbn [scatter_set]. rewrite zsum_app. cbn [zsum].
  replace (0 + zsum ls + l) with (zsum ls + l) by lia.
  set (b0 := repeat zero (Z.to_nat (zsum ls + 1))).
  assert (Eb0 : repeat zero (Z.to_nat (zsum ls + (l + 0) + 1)) = b0 ++ repeat zero (Z.to_nat (l - 1)) ++ [zero]).
  { unfold b0. replace (Z.to_nat (zsum ls + (l + 0) + 1)) with (Z.to_nat (zsum ls + 1) + (Z.to_nat (l - 1) + 1))%nat by lia.
    rewrite !repeat_split. reflexivity. }
  rewrite Eb0.
  assert (Hb0 : zlen b0 = zsum ls + 1) by (unfold zlen, b0; rewrite repeat_length; lia).
  replace (zsum ls + l) with (zlen (b0 ++ repeat zero (Z.to_nat (l - 1))))
    by (unfold zlen in *; rewrite app_length, repeat_length; lia).
  rewrite app_assoc, zset_last, <- app_assoc.
  apply scatter_prefix. apply Forall_rev.
  eapply Forall_impl; [|apply (cumsum_from_bounds 0 ls Hnn)]. cbn; intros; lia.
Qed.

Lemma B2_snoc_pos vals ls v l : length vals = length ls -> all_nonneg ls -> 1 <= l ->
  B2 (vals ++ [v]) (ls ++ [l]) = B2 vals ls ++ ext v l.
Proof.
  intros Hlen Hnn Hl. unfold B2. rewrite B1_snoc_pos by assumption.
  apply zset_prefix. unfold zlen. rewrite B1_length. pose proof (zsum_nonneg ls Hnn). lia.
Qed.

Lemma excl_prefix_snoc ls l : excl_prefix (ls ++ [l]) = excl_prefix ls ++ [zsum ls].
Proof. unfold excl_prefix. rewrite excl_from_app. cbn [excl_from]. do 2 f_equal. Qed.

(* one step of the starts-scatter, common to both cases *)
Lemma B3_snoc_gen vals ls v l (b2' e : list G) : length vals = length ls -> all_nonneg ls ->
  b2' = B2 vals ls ++ e ->
  scatter_xor b2' (excl_prefix (ls ++ [l])) (vals ++ [v])
  = zset (B3 vals ls) (zsum ls) (xor (znth zero (B2 vals ls) (zsum ls)) v) ++ e.
Proof.
  intros Hlen Hnn ->. pose proof (zsum_nonneg ls Hnn) as Hs.
  assert (HB2 : zlen (B2 vals ls) = zsum ls + 1) by (unfold zlen; rewrite B2_length; lia).
  assert (Hst : Forall (fun p => 0 <= p < zlen (B2 vals ls)) (excl_prefix ls)).
  { eapply Forall_impl; [|apply (excl_from_bounds 0 ls Hnn)]. cbn; intros; lia. }
  unfold XorBroadcast.scatter_xor. rewrite excl_prefix_snoc.
  assert (Hl2 : length (excl_prefix ls) = length vals) by (unfold excl_prefix; rewrite excl_from_length; lia).
  rewrite map2_app by assumption.
  rewrite scatter_set_app by (rewrite map2_length; auto).
  cbn [map2 scatter_set].
  rewrite (map2_ext_in _ (fun p v0 => xor (znth zero (B2 vals ls) p) v0)).
  2:{ intros p Hp w. rewrite znth_app_prefix; [reflexivity|]. rewrite Forall_forall in Hst. now apply Hst. }
  rewrite scatter_prefix by assumption.
  rewrite znth_app_prefix by lia.
  fold (XorBroadcast.scatter_xor G zero xor (B2 vals ls) (excl_prefix ls) vals). fold (B3 vals ls).
  apply zset_prefix. unfold zlen. rewrite B3_length. lia.
Qed.

Lemma B3_snoc_pos vals ls v l : length vals = length ls -> all_nonneg ls -> 1 <= l ->
  B3 (vals ++ [v]) (ls ++ [l]) = zset (B3 vals ls) (zsum ls) (xor (znth zero (B2 vals ls) (zsum ls)) v) ++ ext v l.
Proof. intros. unfold B3 at 1. apply B3_snoc_gen; auto. now apply B2_snoc_pos. Qed.

(* appending an empty row *)
Lemma cumsum_last acc ls x : rev (cumsum_from acc (ls ++ [x])) = (acc + zsum ls + x) :: rev (cumsum_from acc ls).
Proof. rewrite cumsum_from_app, rev_app_distr. reflexivity. Qed.

Lemma B1_snoc_zero vals ls w x v : length vals = length ls ->
  B1 ((vals ++ [w]) ++ [v]) ((ls ++ [x]) ++ [0]) = B1 (vals ++ [w]) (ls ++ [x]).
Proof.
  intros Hlen. rewrite !B1_simpl by (rewrite ?app_length; cbn; lia).
  unfold incl_prefix, cumsum. rewrite (cumsum_last 0 (ls ++ [x]) 0), !rev_app_distr. cbn [rev app].
  rewrite (cumsum_last 0 ls x). cbn [scatter_set].
  rewrite (zsum_app (ls ++ [x]) [0]). cbn [zsum].
  replace (zsum (ls ++ [x]) + (0 + 0) + 1) with (zsum (ls ++ [x]) + 1) by lia.
  replace (0 + zsum (ls ++ [x]) + 0) with (0 + zsum ls + x) by (rewrite zsum_app; cbn [zsum]; lia).
  now rewrite zset_twice.
Qed.

Lemma B2_snoc_zero vals ls v : length vals = length ls ->
  B2 (vals ++ [v]) (ls ++ [0]) = B2 vals ls.
Proof.
  intros Hlen. unfold B2.
  destruct ls as [|l0 ls0] using rev_ind.
  - destruct vals; [|discriminate]. cbn. reflexivity.
  - clear IHls0. destruct vals as [|w0 vals0] using rev_ind; [rewrite app_length in Hlen; cbn in Hlen; lia|].
    clear IHvals0. rewrite !app_length in Hlen. cbn in Hlen.
    rewrite B1_snoc_zero by lia. reflexivity.
Qed.

Lemma B3_snoc_zero vals ls v : length vals = length ls -> all_nonneg ls ->
  B3 (vals ++ [v]) (ls ++ [0]) = zset (B3 vals ls) (zsum ls) (xor (znth zero (B2 vals ls) (zsum ls)) v).
Proof.
  intros Hlen Hnn. unfold B3 at 1.
  rewrite (B3_snoc_gen vals ls v 0 _ []); auto; [apply app_nil_r|].
  rewrite app_nil_r. now apply B2_snoc_zero.
Qed.

Lemma removelast_zset_last {A} (b : list A) n x : 0 <= n -> zlen b = n + 1 -> removelast (zset b n x) = removelast b.
Proof.
  intros Hn H. destruct b as [|y b] using rev_ind; [unfold zlen in H; cbn in H; lia|]. clear IHb.
  assert (n = zlen b) by (unfold zlen in *; rewrite app_length in H; cbn in H; lia). subst n.
  rewrite zset_last, !removelast_last. reflexivity.
Qed.

Lemma zset_last_decomp {A} (b : list A) n x : 0 <= n -> zlen b = n + 1 -> zset b n x = removelast b ++ [x].
Proof.
  intros Hn H. destruct b as [|y b] using rev_ind; [unfold zlen in H; cbn in H; lia|]. clear IHb.
  assert (n = zlen b) by (unfold zlen in *; rewrite app_length in H; cbn in H; lia). subst n.
  now rewrite zset_last, removelast_last.
Qed.

Lemma fold_xor_zeros acc n : fold_left xor (repeat zero n) acc = acc.
Proof. induction n as [|n IH]; cbn; [reflexivity|]. now rewrite xor_zero_r'. Qed.

Definition vals_of (rows : list (G * Z)) := map fst rows.
Definition lens_of (rows : list (G * Z)) := map snd rows.

Theorem raw_broadcast_inv rows : all_nonneg (lens_of rows) ->
  prefix_xor (removelast (B3 (vals_of rows) (lens_of rows))) = spec_broadcast G (vals_of rows) (lens_of rows)
  /\ fold_left xor (removelast (B3 (vals_of rows) (lens_of rows))) zero
     = znth zero (B2 (vals_of rows) (lens_of rows)) (zsum (lens_of rows)).
Proof.
  induction rows as [|[v l] rows IH] using rev_ind; intros Hnn.
  - cbn. split; reflexivity.
  - unfold vals_of, lens_of in *. rewrite !map_app in *. cbn [map fst snd] in *.
    apply all_nonneg_app in Hnn. destruct Hnn as [Hnn Hl]. inversion Hl as [|? ? Hl0 _]; subst.
    destruct (IH Hnn) as [IHa IHb]. clear IH.
    set (vals := map fst rows) in *. set (ls := map snd rows) in *.
    assert (Hlen : length vals = length ls) by (unfold vals, ls; now rewrite !map_length).
    pose proof (zsum_nonneg ls Hnn) as Hs.
    assert (HB3 : zlen (B3 vals ls) = zsum ls + 1) by (unfold zlen; rewrite B3_length; lia).
    assert (Hspec : spec_broadcast G (vals ++ [v]) (ls ++ [l]) = spec_broadcast G vals ls ++ repeat v (Z.to_nat l)).
    { unfold spec_broadcast. rewrite map2_app by assumption. cbn [map2]. rewrite concat_app. cbn [concat]. now rewrite app_nil_r. }
    rewrite Hspec, zsum_app. cbn [zsum].
    destruct (Z.eq_dec l 0) as [->|Hne].
    + rewrite B3_snoc_zero, B2_snoc_zero by assumption.
      rewrite removelast_zset_last by assumption. cbn [Z.to_nat repeat]. rewrite app_nil_r.
      split; [exact IHa|]. rewrite IHb. f_equal. lia.
    + assert (Hl1 : 1 <= l) by lia.
      rewrite B3_snoc_pos, B2_snoc_pos by assumption.
      rewrite zset_last_decomp by assumption.
      set (R := removelast (B3 vals ls)) in *. set (x := xor (znth zero (B2 vals ls) (zsum ls)) v).
      unfold ext. rewrite (app_assoc (R ++ [x])), removelast_last, <- app_assoc.
      split.
      * unfold XorBroadcast.prefix_xor. rewrite pxor_from_app. fold prefix_xor. rewrite IHa. f_equal.
        cbn [app XorBroadcast.pxor_from]. rewrite IHb. unfold x. rewrite xor_cancel', pxor_zeros.
        replace (Z.to_nat l) with (S (Z.to_nat (l - 1))) by lia. reflexivity.
      * rewrite fold_left_app. cbn [app fold_left]. rewrite IHb. unfold x. rewrite xor_cancel', fold_xor_zeros.
        symmetry.
        assert (HB2 : zlen (B2 vals ls) = zsum ls + 1) by (unfold zlen; rewrite B2_length; lia).
        rewrite app_assoc.
        replace (zsum ls + (l + 0)) with (zlen (B2 vals ls ++ repeat zero (Z.to_nat (l - 1))))
          by (unfold zlen in *; rewrite app_length, repeat_length; lia).
        apply znth_app_at.
Qed.

Theorem raw_broadcast_correct vals ls : length vals = length ls -> all_nonneg ls ->
  raw_broadcast G zero xor vals ls = spec_broadcast G vals ls.
Proof.
  intros Hlen Hnn.
  pose proof (raw_broadcast_inv (combine vals ls)) as H. unfold vals_of, lens_of in H.
  rewrite map_fst_combine, map_snd_combine in H by assumption.
  destruct (H Hnn) as [Ha _]. exact Ha.
Qed.
End XorP.

Print Assumptions raw_broadcast_correct.
