"""Regenerates coq/Props/Cxx.v from the lemma names below: every property theorem restates the full statement (as printed by `Check`)
and is closed by `exact <lemma>` with `Print Assumptions` beneath.  Usage: gen_props.py [C01 C08 ...]  (default: all listed; C02 and C13 are written by hand)."""
import subprocess, re, sys, textwrap, os, pathlib
ROOT = pathlib.Path(__file__).resolve().parents[1]
os.chdir(ROOT / "coq"); (ROOT / "build").mkdir(exist_ok=True)
TMP = str(ROOT / "build" / "_chk.v")
# property -> (imports, [(theorem, module-qualified or plain name)])
SPEC = {
 "C02": ("Kernels SliceAP ColSlice SelRows GetItem SetItem", ["col_kernel_spec","ap_getslice","col_slice_row","build_indices_correct","resolve_ok","resolve_cells","sel_rows_In"]),
 "C13": ("Bits BitProof BitGetList WindowCore DigitSlice WindowProof", ["getlist_correct","pack_registers","window_core","digits_slice"]),
 "C01": ("Shape BuildIdx Geometry GeomProof", ["geometry_starts","geometry_lengths","geometry_size","build_rows_observers","build_flat_accept","build_flat_reject","to_numpy_spec","from_numpy_roundtrip","legacy_offsets_shape","unravel_all","ravel_all","build_indices_correct"]),
 "C03": ("SetItem XorProof", ["setitem_correct","getitem_factor","resolve_cells","raw_broadcast_correct"]),
 "C04": ("UfuncProof XorProof", ["ufunc2_correct","raw_broadcast_correct"]),
 "C05": ("ReduceProof ArgmaxProof ColMean RaMean", ["reduce_correct","ra_row_mean_correct","first_occurrences","argmax_correct","argmin_correct"]),
 "C06": ("Chain MaterialiseWF NoWriteThrough", ["derived_denote","chain_correct","indistinguishable_read","materialise_wf","rows_of_denote","assign_leaves_older_arrays_unchanged"]),
 "C07": ("ScanProof AccumProof DiffProof SortProof BucketSort LexSort UniqueProof UniqueLens", ["cumsum_correct","accumulate_correct","diff_correct","sort_buckets","two_pass_rows","index_array_char","sort_correct","unique_correct"]),
 "C08": ("StructProof SubsetProof RSliceProof RSliceInputs NonzeroProof PaddedProof Struct2 Struct2Proof", ["concat0_correct","concat1_correct","like_correct","where_correct","where_scalar_correct","subset_correct","ragged_slice_correct","ragged_slice_1d_correct","ragged_slice_2d_is_ragged","ragged_slice_2d_correct","nonzero_correct","padded_correct"]),
 "C09": ("ColProof ColSum ColMean RaMean Struct2 Struct2Proof", ["col_counts_correct","colsum_correct","ra_col_mean_correct","get_column_values_correct"]),
 "C10": ("HeapProof HeapRun HeapRunProof", ["run_sim","C10_partial","apply_hsel_natural","safe_runb_iff","C10_partial_concrete","heap_run_is_value_semantics","C10_refuted"]),
 "C11": ("HashInit HashSet HashProof HashEq HashAdd HashItems CounterProof HashRunProof", ["Inv_mk","table_is_dictionary","getv_correct","write_one","setv_correct","tbl_eq_correct","tbl_add_correct","tbl_add_refusal","tbl_add_lookup","tbl_like_correct","items_correct","hash_run_refines","hash_model_refines_spec"]),
 "C12": ("CounterProof FastIndices HashRunProof", ["count_correct","count_history","totals_of_batches","totals_split_and_order_invariant","fast_indices_is_build_indices","fast_indices_correct","hash_run_refines"]),
 "C14": ("RoundTrip RLEProof RLEPer CanonProof ToArray StepProof StartEnd BinaryProof RLConcat", ["to_array_from_array","from_array_canonical","decode_from_array","decode_from_array_R","to_array_correct","join_runs_canonical","start_to_end_shape","step_subset_pos","apply_binary_correct","rl_concat_correct"]),
 "C15": ("RLEIndex RLEIndex2 RLEWindows RLEWindowsVecProof GetSlice StartEnd StepProof StepNeg", ["get_position_correct","get_positions_correct","get_bool_mask_correct","rl_windows_decode","start_to_end_vec_is_rows","start_to_end_vec_decode","rl_getitem_rlmask_correct","get_slice_correct","start_to_end_decode","start_to_end_shape","step_subset_pos","step_subset_neg"]),
 "C16": ("BinaryProof RLEMisc RLConcat RLEReduce", ["apply_binary_correct","rl_map_correct","rl_sum_correct","rl_any_correct","rl_all_correct","rl_max_correct","rl_mean_correct","rl_hist_correct","rl_concat_correct"]),
 "C17": ("RLEMisc BinaryProof RL2Proof RL2Col RL2Ravel RL2Elem RL2Argmax MatrixDecode ColProof RL2ColSum RL2ColCounts RL2Intervals RL2Range RL2RangeStep RL2RangeOpen RL2AnyProof RL2AnyRows RL2Mean RL2ColMean RL2RowAgg RL2RowAggProof RL2RowAggMatrix", ["from_ragged_decode","from_matrix_decode","rl2_select_correct","rl2_map_correct","rl2_concat_correct","rl2_sum_correct","rl2_max_argmax_correct","rl2_col_correct","rl2_ravel_correct","rl2_elem_correct","rl2_col_sum_correct","rl2_col_sum_matrix_correct","rl2_col_counts_correct","rl2_col_mean_correct","rl2_any_rows_correct","rl2_all_rows_correct","rl2_mean_rows_correct","ragged_row_aggregates","matrix_row_aggregates","from_intervals_decode","rl2_col_range_pos1_partial","rl2_col_range_pos_partial","rl2_col_range_pos","rl2_col_range_neg_inside","rl2_col_range_neg","col_any_is_sweep","sweep_intervals","col_any_correct","col_any_matrix","col_range_row_is_start_to_end"]),
 "C18": ("DataClassProof DataClassAstype DataClassIter", ["obj_iter_entries","obj_iter_length","obj_select_entries","obj_item_entry","obj_concat_entries","obj_eqb_iff","varlen_rows","obj_astype_entries","obj_astype_refused","obj_astype_item"]),
 "C19": ("IdxWidth Shape", ["index_rows_width_independent","excl_prefix_in32","wrap32_id","shape_codes_width_independent","geometry_additions_width_independent"]),
}
HEADER = "From Coq Require Import ZArith List Bool.\nFrom NPS Require Import ListAux PySlice NumpySem Scatter BuildIdx XorBroadcast View Index Assign Reduce Scan RaOps Heap Hash HashRun BitArr RLE RLEOps RLE2d DataClass RowsSpec AssignSpec MapSpec Denote {mods}.\nImport ListNotations.\nOpen Scope Z_scope.\n"
def check(mods, name):
    src = HEADER.format(mods=mods) + f"Set Printing Width 110.\nCheck {name}.\n"
    open(TMP,"w").write(src)
    r = subprocess.run(["coqc","-Q",".","NPS",TMP],capture_output=True,text=True)
    if r.returncode: return None, r.stderr[-400:]
    out = r.stdout
    i = out.index(name.lstrip('@')); body = out[i+len(name.lstrip('@')):]
    body = body.split("\nwhere\n")[0]
    body = body.strip()
    assert body.startswith(":"), body[:50]
    return body[1:].strip(), None
for prop,(mods,ths) in SPEC.items():
    if len(sys.argv) > 1 and prop not in sys.argv[1:]: continue
    hand = ROOT / "tools" / "props_hand" / f"{prop}.v"
    lines=[f"(* {prop} — property theorems only: each restates the full statement and is closed by the lemma proved in Proofs/. *)", HEADER.format(mods=mods)]
    if hand.exists():
        lines = [hand.read_text(), "(* ---- supporting theorems the property theorem rests on (generated) ---- *)", HEADER.format(mods=mods)]
    for t in ths:
        ty, err = check(mods, t)
        if ty is None: print(prop, t, "CHECK FAILED", err); continue
        ex = t
        if re.search(r"\?[A-Za-z_]", ty):
            ty, err = check(mods, "@"+t); ex = "(@"+t+")"
            if ty is None or re.search(r"\?[A-Za-z_]", ty): print(prop, t, "skipped", err); continue
        lines.append(f"Theorem {prop}_{t} :\n  {ty}.\nProof. exact {ex}. Qed.\nPrint Assumptions {prop}_{t}.\n")
    open(f"Props/{prop}.v","w").write("\n".join(lines))
    r = subprocess.run(["coqc","-Q",".","NPS",f"Props/{prop}.v"],capture_output=True,text=True)
    print(prop, "OK" if r.returncode==0 else "FAIL: "+r.stderr[-300:].replace("\n"," | "), r.stdout.count("Closed under"))
