#!/venv/bin/python
"""Validate candidate breaking changes and run the checks against them.

  seed_eval.py import <src_dir> <id>     validate <src_dir>/{patch.diff,demo.py,meta.json} in a scratch worktree of /repo
                                         (suite still passes, demo fails with / passes without) and keep it as /verif/seeded/<id>/
  seed_eval.py run [<id> ...] [--tier quick] [--props C02,C06]
                                         apply each kept change to a scratch worktree (outside /repo and /verif), run the property's
                                         check with VERIF_REPO pointing at it, record caught / missed in /verif/seeded/RESULTS.json
Scratch worktrees live under /root/scratch/seedwt and are removed after use.
"""
import json, os, pathlib, shutil, subprocess, sys, time
ROOT = pathlib.Path(__file__).resolve().parents[1]
SEEDED = ROOT / "seeded"
SCR = pathlib.Path("/root/scratch/seedwt")
PY = "/venv/bin/python"


def sh(cmd, cwd=None, env=None, timeout=1800):
    p = subprocess.run(cmd, shell=isinstance(cmd, str), cwd=cwd, env=env, capture_output=True, text=True, timeout=timeout)
    return p.returncode, p.stdout + p.stderr


def worktree(name):
    SCR.mkdir(parents=True, exist_ok=True)
    d = SCR / name
    if d.exists(): drop(d)
    rc, out = sh(["git", "-C", "/repo", "worktree", "add", "-q", "--detach", str(d), "HEAD"])
    assert rc == 0, out
    return d


def drop(d):
    sh(["git", "-C", "/repo", "worktree", "remove", "--force", str(d)])
    shutil.rmtree(d, ignore_errors=True)
    sh(["git", "-C", "/repo", "worktree", "prune"])


def apply_patch(d, patch):
    """apply a kept change to a scratch worktree; when the repository moved on (fix: commits) and the context no longer matches exactly,
    fall back to a 3-way merge on the recorded blobs (never a fuzzy `patch`: a hunk that lands in the wrong function silently changes the
    mutant) and refresh the stored patch so that it applies to the current HEAD"""
    rc, out = sh(["git", "-C", str(d), "apply", str(patch)])
    if rc == 0: return True, ""
    rc, out2 = sh(["git", "-C", str(d), "apply", "--3way", str(patch)])
    if rc == 0:
        sh(["git", "-C", str(d), "reset", "-q"])
        rc2, diff = sh(["git", "-C", str(d), "diff"])
        if rc2 == 0 and diff.strip() and "<<<<<<<" not in diff and str(patch).startswith(str(SEEDED)):
            pathlib.Path(patch).write_text(diff)
            return True, "applied by 3-way merge; stored patch refreshed"
    return False, out + out2


def suite(d):
    env = dict(os.environ, PYTHONPATH=str(d))
    rc, out = sh(f"cd {d} && {PY} -m pytest -q -p no:cacheprovider --timeout=900 2>&1 | tail -3", env=env)
    last = [l for l in out.splitlines() if "passed" in l or "failed" in l or "error" in l]
    return (last[-1] if last else out[-200:])


def demo(d, demo_py):
    env = dict(os.environ, PYTHONPATH=str(d), PYTHONHASHSEED="0")
    rc, out = sh([PY, str(demo_py)], cwd=str(d), env=env, timeout=600)
    return rc, out[-600:]


def cmd_import(src, sid):
    src = pathlib.Path(src)
    meta = json.loads((src / "meta.json").read_text())
    d = worktree("imp_" + sid)
    try:
        rc0, o0 = demo(d, src / "demo.py")
        okp, out = apply_patch(d, src / "patch.diff")
        if not okp:
            print(sid, "patch does not apply:", out[-300:]); return False
        s = suite(d)
        rc1, o1 = demo(d, src / "demo.py")
        ok = ("141 passed" in s and "failed" not in s) and rc0 == 0 and rc1 != 0
        print(f"{sid}: suite[{s.strip()}] demo_without={rc0} demo_with={rc1} -> {'KEEP' if ok else 'REJECT'}")
        if not ok:
            print(o0[-300:], o1[-300:]); return False
        out = SEEDED / sid; out.mkdir(parents=True, exist_ok=True)
        shutil.copy(src / "patch.diff", out / "patch.diff"); shutil.copy(src / "demo.py", out / "demo.py")
        meta.update({"id": sid, "breaks_property": meta.get("property"), "validated": {
            "base_commit": sh(["git", "-C", "/repo", "rev-parse", "--short", "HEAD"])[1].strip(),
            "ran": ["git apply patch.diff in a scratch worktree of /repo HEAD", "pytest (pinned suite): " + s.strip(),
                    f"demo.py without the change: exit {rc0}", f"demo.py with the change: exit {rc1}"],
            "demo_output_with_change": o1[-400:]}})
        (out / "meta.json").write_text(json.dumps(meta, indent=1))
        return True
    finally:
        drop(d)


def cmd_run(ids, tier, props):
    res_f = pathlib.Path(os.environ.get("SEED_RESULTS", str(SEEDED / "RESULTS.json")))
    results = json.loads(res_f.read_text()) if res_f.exists() else {}
    ids = ids or sorted(p.name for p in SEEDED.iterdir() if (p / "patch.diff").exists())
    for sid in ids:
        meta = json.loads((SEEDED / sid / "meta.json").read_text())
        plist = props or [meta["breaks_property"]]
        d = worktree("run_" + sid)
        try:
            okp, out = apply_patch(d, SEEDED / sid / "patch.diff")
            if not okp:
                print(sid, "patch does not apply any more:", out[-200:]); continue
            for p in plist:
                t0 = time.time()
                env = dict(os.environ, VERIF_REPO=str(d), VERIF_TIER=tier)
                rc, out = sh([str(ROOT / "check"), p, "--tier", tier], cwd=str(ROOT), env=env, timeout=7200)
                vio = [l for l in out.splitlines() if l.startswith("VIOLATION")]
                detail = ""
                if vio:
                    try:
                        rp = json.loads(pathlib.Path(vio[0].split("replay=")[1].split()[0]).read_text())
                        v = rp["violation"]; detail = (v.get("python") or v.get("case") or "")[:300]
                    except Exception as e: detail = "?"
                results.setdefault(sid, {})[p + "/" + tier] = {"caught": bool(vio) and rc == 1, "exit": rc, "line": vio[0] if vio else "",
                                                              "smallest_failing_case": detail, "wall_s": round(time.time() - t0, 1)}
                print(f"{sid} {p}/{tier}: {'CAUGHT' if vio else 'MISSED'} rc={rc} {time.time() - t0:.0f}s  {detail[:160]}")
                sys.stdout.flush()
        finally:
            drop(d)
        res_f.write_text(json.dumps(results, indent=1, sort_keys=True))
    # the evidence files were rewritten by runs against modified trees: they must be regenerated on /repo before committing


def cmd_verify(ids):
    """re-validate the kept changes against the current /repo HEAD: the patch applies, the pinned suite passes, the demo fails with it"""
    ids = ids or sorted(p.name for p in SEEDED.iterdir() if (p / "patch.diff").exists())
    bad = []
    for sid in ids:
        d = worktree("ver_" + sid)
        try:
            okp, out = apply_patch(d, SEEDED / sid / "patch.diff")
            if not okp: print(sid, "DOES NOT APPLY"); bad.append(sid); continue
            s_ = suite(d); rc1, _ = demo(d, SEEDED / sid / "demo.py")
            ok = "141 passed" in s_ and "failed" not in s_ and rc1 != 0
            print(sid, "ok" if ok else f"INVALID suite[{s_.strip()}] demo_with={rc1}"); sys.stdout.flush()
            if not ok: bad.append(sid)
        finally:
            drop(d)
    print("invalid:", bad)


if __name__ == "__main__":
    a = sys.argv[1:]
    if a[0] == "verify": cmd_verify(a[1:]); sys.exit(0)
    if a[0] == "import": sys.exit(0 if cmd_import(a[1], a[2]) else 1)
    if a[0] == "run":
        tier = "quick"; props = None; ids = []
        i = 1
        while i < len(a):
            if a[i] == "--tier": tier = a[i + 1]; i += 2
            elif a[i] == "--props": props = a[i + 1].split(","); i += 2
            else: ids.append(a[i]); i += 1
        cmd_run(ids, tier, props)
