From Coq Require Import ZifyBool.
From NPS Require Import ListAux PySlice NumpySem Scatter BuildIdx XorBroadcast XorProof Denote RLE RLEProof RLEOps SetItem ToArray.
Open Scope Z_scope.

(* C14: from_array then to_array (the code's own XOR decoder) is the identity, and the encoding is canonical *)
Section RT.
Variable A : Type.
Variable dflt : A.
Variable neqb : A -> A -> bool.
Hypothesis neqb_false_eq : forall x y, neqb x y = false -> x = y.
Variable bxor : A -> A -> A.
Hypothesis bxor_assoc : forall a b c, bxor a (bxor b c) = bxor (bxor a b) c.
Hypothesis bxor_comm : forall a b, bxor a b = bxor b a.
Hypothesis bxor_nilp : forall a, bxor a a = dflt.
Hypothesis bxor_zero_l : forall a, bxor dflt a = a.

(* strictly increasing boundary lists are prefix sums of their (positive) differences *)
Lemma strict_diffs : forall ev e0, strictly_increasing (e0 :: ev) -> ev <> [] ->
  Forall (fun l => 1 <= l) (diffs (e0 :: ev)) /\ e0 :: ev = excl_from e0 (diffs (e0 :: ev)) ++ [last (e0 :: ev) 0]
  /\ e0 + zsum (diffs (e0 :: ev)) = last (e0 :: ev) 0 /\ length (diffs (e0 :: ev)) = length ev.
Proof.
  induction ev as [|e1 ev IH]; intros e0 Hs Hne; [congruence|]. destruct Hs as [H01 Hs].
  rewrite diffs_cons2. destruct ev as [|e2 ev].
  - cbn. repeat split; try lia. constructor; [lia|constructor].
  - destruct (IH e1 Hs ltac:(congruence)) as (I1 & I2 & I3 & I4).
    cbn [excl_from zsum length]. replace (e0 + (e1 - e0)) with e1 by lia.
    repeat split.
    + constructor; [lia|exact I1].
    + change (last (e0 :: e1 :: e2 :: ev) 0) with (last (e1 :: e2 :: ev) 0). cbn [app]. f_equal. exact I2.
    + change (last (e0 :: e1 :: e2 :: ev) 0) with (last (e1 :: e2 :: ev) 0). lia.
    + cbn [length] in *. lia.
Qed.

Lemma fnz_strict off m : strictly_increasing (fnz_from off m).
Proof.
  revert off; induction m as [|b m IH]; intros off; [exact I|]. cbn [fnz_from]. destruct b; [|apply IH].
  specialize (IH (off + 1)). pose proof (fnz_from_ge (off + 1) m) as Hge.
  destruct (fnz_from (off + 1) m) as [|x r] eqn:E; [exact I|]. split; [inversion Hge; lia|exact IH].
Qed.

Lemma strict_app_last l x : strictly_increasing l -> Forall (fun y => y < x) l -> strictly_increasing (l ++ [x]).
Proof.
  induction l as [|a l IH]; intros Hs Hf; [exact I|]. inversion Hf as [|? ? Ha Hf']; subst.
  destruct l as [|b l]; [cbn; auto|]. destruct Hs as [Hab Hs]. cbn [app]. split; [exact Hab|]. apply IH; assumption.
Qed.

Lemma fnz_lt off m : Forall (fun p => p < off + zlen m) (fnz_from off m).
Proof.
  revert off; induction m as [|b m IH]; intros off; [constructor|]. cbn [fnz_from].
  assert (H : Forall (fun p => p < off + zlen (b :: m)) (fnz_from (off + 1) m)).
  { eapply Forall_impl; [|apply IH]. cbn. intros p Hp. unfold zlen in *. cbn [length]. lia. }
  destruct b; [constructor; [unfold zlen; cbn [length]; lia|exact H]|exact H].
Qed.

Theorem to_array_from_array (a : list A) : a <> [] -> to_array A dflt bxor (from_array A dflt neqb a) = a.
Proof.
  intros Hne. rewrite <- (decode_from_array A dflt neqb neqb_false_eq a Hne) at 2.
  destruct a as [|x xs]; [congruence|]. rewrite from_array_cons.
  set (T := fnz_from 1 (nmask A neqb x xs)). set (n := 1 + zlen xs).
  assert (Hstrict : strictly_increasing (0 :: T ++ [n])).
  { change (0 :: T ++ [n]) with ((0 :: T) ++ [n]). apply strict_app_last.
    - pose proof (fnz_strict 1 (nmask A neqb x xs)) as H1. pose proof (fnz_from_ge 1 (nmask A neqb x xs)) as H2. fold T in H1, H2.
      destruct T as [|t T']; [exact I|]. split; [inversion H2; lia|exact H1].
    - constructor; [unfold n, zlen; lia|]. pose proof (fnz_lt 1 (nmask A neqb x xs)) as H. fold T in H.
      eapply Forall_impl; [|exact H]. cbn. intros p Hp. unfold n, zlen in *. rewrite nmask_length in Hp. lia. }
  destruct (strict_diffs (T ++ [n]) 0 Hstrict ltac:(destruct T; discriminate)) as (D1 & D2 & D3 & D4).
  set (ls := diffs (0 :: T ++ [n])) in *.
  assert (Elast : last (0 :: T ++ [n]) 0 = n).
  { change (0 :: T ++ [n]) with ((0 :: T) ++ [n]). apply last_last. }
  rewrite Elast in D2, D3.
  unfold RLE.decode. cbn [fst snd]. fold ls.
  assert (Eev : 0 :: T ++ [n] = excl_prefix ls ++ [zsum ls]) by (unfold excl_prefix; rewrite D2 at 1; do 2 f_equal; lia).
  rewrite Eev. apply (to_array_correct A dflt bxor bxor_assoc bxor_comm bxor_nilp bxor_zero_l).
  - exact D1.
  - rewrite D4, map_length, app_length. cbn [length]. lia.
  - intros C. rewrite C in D4. cbn in D4. rewrite app_length in D4. cbn in D4. lia.
Qed.

(* canonical form: boundaries start at 0, increase strictly, end at the length *)
Theorem from_array_canonical (a : list A) : a <> [] ->
  let r := from_array A dflt neqb a in
  hd (-1) (fst r) = 0 /\ last (fst r) (-1) = zlen a /\ strictly_increasing (fst r) /\ length (fst r) = S (length (snd r)).
Proof.
  intros Hne. destruct a as [|x xs]; [congruence|]. rewrite from_array_cons. cbn zeta. cbn [fst snd].
  set (T := fnz_from 1 (nmask A neqb x xs)).
  repeat split.
  - change (0 :: T ++ [1 + zlen xs]) with ((0 :: T) ++ [1 + zlen xs]). rewrite last_last. unfold zlen. cbn [length]. lia.
  - change (0 :: T ++ [1 + zlen xs]) with ((0 :: T) ++ [1 + zlen xs]). apply strict_app_last.
    + pose proof (fnz_strict 1 (nmask A neqb x xs)) as H1. pose proof (fnz_from_ge 1 (nmask A neqb x xs)) as H2. fold T in H1, H2.
      destruct T as [|t T']; [exact I|]. split; [inversion H2; lia|exact H1].
    + constructor; [unfold zlen; lia|]. pose proof (fnz_lt 1 (nmask A neqb x xs)) as H. fold T in H.
      eapply Forall_impl; [|exact H]. cbn. intros p Hp. unfold zlen in *. rewrite nmask_length in Hp. lia.
  - cbn [length]. rewrite app_length, map_length. cbn [length]. lia.
Qed.
End RT.
Print Assumptions to_array_from_array.
