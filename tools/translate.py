"""Prototype: fail-closed Python-AST -> Gallina translator for elementwise integer kernels."""
import ast, sys, textwrap

class Unsupported(Exception): pass

SRC = open(sys.argv[1]).read()
TREE = ast.parse(SRC)

def find(cls, fn):
    for n in TREE.body:
        if isinstance(n, ast.ClassDef) and n.name == cls:
            for m in n.body:
                if isinstance(m, ast.FunctionDef) and m.name == fn:
                    return m
    raise Unsupported(f"{cls}.{fn} not found")

# typing environment: name -> 'Z' | 'optZ' | 'bool'
class Tr:
    def __init__(self, env, selfmap):
        self.env = dict(env); self.selfmap = selfmap  # self.attr -> gallina name
    def expr(self, e):
        """returns (gallina, type)"""
        if isinstance(e, ast.Constant):
            if isinstance(e.value, bool): return ("true" if e.value else "false", 'bool')
            if isinstance(e.value, int): return (f"({e.value})", 'Z')
            raise Unsupported(ast.dump(e))
        if isinstance(e, ast.Name):
            if e.id in self.env: return (e.id, self.env[e.id])
            raise Unsupported(f"unknown name {e.id}")
        if isinstance(e, ast.Attribute) and isinstance(e.value, ast.Name) and e.value.id == 'self':
            if e.attr in self.selfmap: return (self.selfmap[e.attr], 'Z')
            raise Unsupported(f"self.{e.attr}")
        if isinstance(e, ast.UnaryOp):
            v, t = self.expr(e.operand)
            if isinstance(e.op, ast.USub) and t == 'Z': return (f"(- {v})", 'Z')
            if isinstance(e.op, (ast.Invert, ast.Not)) and t == 'bool': return (f"(negb {v})", 'bool')
            raise Unsupported(ast.dump(e))
        if isinstance(e, ast.BinOp):
            a, ta = self.expr(e.left); b, tb = self.expr(e.right)
            ops = {ast.Add: '+', ast.Sub: '-', ast.Mult: '*', ast.FloorDiv: '/'}
            if type(e.op) in ops and ta == tb == 'Z': return (f"({a} {ops[type(e.op)]} {b})", 'Z')
            if isinstance(e.op, ast.BitAnd) and ta == tb == 'bool': return (f"({a} && {b})", 'bool')
            if isinstance(e.op, ast.BitOr) and ta == tb == 'bool': return (f"({a} || {b})", 'bool')
            raise Unsupported(ast.dump(e))
        if isinstance(e, ast.Compare) and len(e.ops) == 1:
            a, ta = self.expr(e.left); b, tb = self.expr(e.comparators[0])
            ops = {ast.Lt: '<?', ast.LtE: '<=?', ast.Gt: '>?', ast.GtE: '>=?', ast.Eq: '=?'}
            if ta == tb == 'Z':
                if type(e.ops[0]) in ops: return (f"({a} {ops[type(e.ops[0])]} {b})", 'bool')
                if isinstance(e.ops[0], ast.NotEq): return (f"(negb ({a} =? {b}))", 'bool')
            raise Unsupported(ast.dump(e))
        if isinstance(e, ast.Call) and isinstance(e.func, ast.Attribute) and isinstance(e.func.value, ast.Name) and e.func.value.id == 'np':
            f = e.func.attr; args = [self.expr(a) for a in e.args]
            ts = [t for _, t in args]; vs = [v for v, _ in args]
            if f in ('minimum', 'maximum') and ts == ['Z', 'Z']: return (f"(Z.{f[:3]} {vs[0]} {vs[1]})", 'Z')
            if f == 'clip' and ts == ['Z', 'Z', 'Z']: return (f"(Z.min (Z.max {vs[0]} {vs[1]}) {vs[2]})", 'Z')   # numpy: minimum(maximum(x, lo), hi)
            if f == 'sign' and ts == ['Z']: return (f"(Z.sgn {vs[0]})", 'Z')
            if f == 'abs' and ts == ['Z']: return (f"(Z.abs {vs[0]})", 'Z')
            if f == 'where' and ts == ['bool', 'Z', 'Z']: return (f"(if {vs[0]} then {vs[1]} else {vs[2]})", 'Z')
            if f == 'ones_like' and ts == ['Z']: return ("1", 'Z')
            raise Unsupported(f"np.{f}{ts}")
        if isinstance(e, ast.IfExp):
            c, tc = self.cond(e.test); a, ta = self.expr(e.body); b, tb = self.expr(e.orelse)
            if ta == tb: return (f"(if {c} then {a} else {b})", ta)
        raise Unsupported(ast.dump(e))
    def cond(self, e):
        return self.expr(e)

def translate_calc_len(fn):
    """_calculate_lengths(self, col_slice): straight-line with None tests -> we specialise on the
    None-pattern of (start, stop) by symbolic execution over 'optZ' names."""
    out = []
    # four None-patterns; step None handled by caller (col_slice passes concrete step)
    for sn in (True, False):
        for en in (True, False):
            env = {'step': 'Z'}
            if not sn: env['start'] = 'Z'
            if not en: env['stop'] = 'Z'
            none = {n for n, isn in (('start', sn), ('stop', en)) if isn}
            t = Tr(env, {'lengths': 'len_'})
            lets = []
            def run(stmts):
                for s in stmts:
                    if isinstance(s, ast.Expr) and isinstance(s.value, ast.Constant): continue  # docstring
                    if isinstance(s, ast.Assert): continue   # step != 0 : becomes theorem hypothesis (recorded)
                    if isinstance(s, ast.Assign) and len(s.targets) == 1:
                        tg = s.targets[0]
                        if isinstance(tg, ast.Tuple):   # start, stop, step = (col_slice.start, ...)
                            continue
                        v, ty = t.expr(s.value); lets.append((tg.id, v)); t.env[tg.id] = ty; none.discard(tg.id); continue
                    if isinstance(s, ast.AugAssign) and isinstance(s.op, ast.BitOr):
                        v, ty = t.expr(ast.BinOp(left=s.target, op=ast.BitOr(), right=s.value)); lets.append((s.target.id, v)); continue
                    if isinstance(s, ast.If):
                        # test of the form `x is None` or comparison
                        te = s.test
                        if isinstance(te, ast.Compare) and isinstance(te.ops[0], ast.Is) and isinstance(te.comparators[0], ast.Constant) and te.comparators[0].value is None:
                            nm = te.left.id
                            if nm == 'step': run(s.orelse) if False else None; continue  # step never None here
                            if nm in none: run(s.body)
                            else: run(s.orelse)
                            continue
                        # elif chain on Z comparisons: both branches assign the same single name
                        c, _ = t.expr(te)
                        def single(b):
                            if len(b) == 1 and isinstance(b[0], ast.Assign): return b[0].targets[0].id, t.expr(b[0].value)[0]
                            if len(b) == 0: return None
                            raise Unsupported("if-branch shape")
                        b1 = single(s.body); b2 = single(s.orelse)
                        nm = b1[0]
                        els = b2[1] if b2 else nm
                        lets.append((nm, f"(if {c} then {b1[1]} else {els})")); continue
                    if isinstance(s, ast.Return):
                        v, _ = t.expr(s.value); lets.append((None, v)); continue
                    raise Unsupported(ast.dump(s)[:80])
            run(fn.body)
            body = "\n".join(f"  let {n} := {v} in" for n, v in lets[:-1]) + f"\n  {lets[-1][1]}"
            out.append(((sn, en), body))
    return out

fn = find('RaggedView2', '_calculate_lengths')
variants = dict(translate_calc_len(fn))
def arm(sn, en):
    return variants[(sn, en)]
out = []
out.append("(* GENERATED by tools/translate.py from npstructures/raggedshape.py — do not edit *)")
out.append("From Coq Require Import ZArith Bool.\nOpen Scope Z_scope.\n")
out.append("Definition gen_calc_len (len_ : Z) (start0 stop0 : option Z) (step : Z) : Z :=")
out.append("  match start0, stop0 with")
out.append("  | None, None =>\n" + arm(True, True))
out.append("  | None, Some stop =>\n" + arm(True, False))
out.append("  | Some start, None =>\n" + arm(False, True))
out.append("  | Some start, Some stop =>\n" + arm(False, False))
out.append("  end.")
open(sys.argv[2], "w").write("\n".join(out) + "\n")
print("wrote", sys.argv[2])
