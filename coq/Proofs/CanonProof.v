From Coq Require Import ZifyBool.
From NPS Require Import ListAux PySlice NumpySem Scatter BuildIdx XorBroadcast XorProof Denote RLE RLEProof RLEOps SetItem.
Open Scope Z_scope.

(* C14 (canonicalisation helpers, shared by C15 and C16): remove_empty_intervals and join_runs keep the decoded
   array; the first removes every empty run, the second every pair of equal neighbours *)
Section Canon.
Variable A : Type.
Variable eqb : A -> A -> bool.
Hypothesis eqb_eq : forall x y, eqb x y = true -> x = y.
Notation decode := (decode A).
Notation remove_empty := (remove_empty A).
Notation join_runs := (join_runs A eqb).

Lemma decode_cons2 e e' ev v vs : decode (e :: e' :: ev, v :: vs) = repeat v (Z.to_nat (e' - e)) ++ decode (e' :: ev, vs).
Proof. unfold RLE.decode. cbn [fst snd]. rewrite diffs_cons2. reflexivity. Qed.

Lemma remove_empty_cons2 e e' ev v vs :
  remove_empty (e :: e' :: ev) (v :: vs) = let '(re, rv) := remove_empty (e' :: ev) vs in if e =? e' then (re, rv) else (e :: re, v :: rv).
Proof. reflexivity. Qed.

Theorem remove_empty_decode : forall ev vs, length ev = S (length vs) ->
  decode (remove_empty ev vs) = decode (ev, vs) /\ length (fst (remove_empty ev vs)) = S (length (snd (remove_empty ev vs)))
  /\ hd 0 (fst (remove_empty ev vs)) = hd 0 ev.
Proof.
  induction ev as [|e ev IH]; intros vs Hlen; [discriminate|].
  destruct ev as [|e' ev]; destruct vs as [|v vs]; cbn in Hlen; try discriminate; try lia.
  - cbn [RLEOps.remove_empty]. repeat split; reflexivity.
  - rewrite remove_empty_cons2. injection Hlen as Hlen. destruct (IH vs ltac:(cbn; lia)) as (IH1 & IH2 & IH3).
    destruct (remove_empty (e' :: ev) vs) as [re rv] eqn:E. cbn [fst snd] in *.
    destruct (e =? e') eqn:Ee.
    + assert (e = e') by lia. subst e'. rewrite decode_cons2. replace (Z.to_nat (e - e)) with 0%nat by lia. cbn [repeat app fst snd].
      split; [exact IH1|]. split; [exact IH2|exact IH3].
    + cbn [fst snd length hd]. split; [|split; [lia|reflexivity]].
      rewrite decode_cons2. destruct re as [|r0 re]; [cbn in IH2; lia|]. cbn [hd] in IH3. subst r0.
      rewrite decode_cons2. now rewrite IH1.
Qed.


(* ---------- join_runs ---------- *)
Notation join_runs_aux := (join_runs_aux A eqb).
Fixpoint weakly_increasing (l : list Z) : Prop := match l with x :: ((y :: _) as r) => x <= y /\ weakly_increasing r | _ => True end.

Lemma aux_cons prev e ev v vs :
  join_runs_aux prev (e :: ev) (v :: vs) = let '(re, rv) := join_runs_aux v ev vs in if eqb v prev then (re, rv) else (e :: re, v :: rv).
Proof. reflexivity. Qed.

(* the result keeps the last event and only contains input events *)
Lemma aux_shape : forall ev vs prev, length ev = S (length vs) ->
  let r := join_runs_aux prev ev vs in
  length (fst r) = S (length (snd r)) /\ Forall (fun x => In x ev) (fst r).
Proof.
  induction ev as [|e ev IH]; intros vs prev Hlen; [discriminate|]. destruct vs as [|v vs].
  - destruct ev; [|discriminate]. cbn. split; [reflexivity|constructor; [now left|constructor]].
  - rewrite aux_cons. cbn in Hlen. injection Hlen as Hlen. specialize (IH vs v Hlen). cbn zeta in IH.
    destruct (join_runs_aux v ev vs) as [re rv]. cbn [fst snd] in *. destruct IH as [I1 I2].
    assert (I2' : Forall (fun x => In x (e :: ev)) re) by (eapply Forall_impl; [|exact I2]; cbn; intros; now right).
    destruct (eqb v prev); cbn [fst snd length]; split; auto. constructor; [now left|exact I2'].
Qed.

Lemma weakly_all_ge e ev : weakly_increasing (e :: ev) -> Forall (fun x => e <= x) ev.
Proof.
  revert e; induction ev as [|y ev IH]; intros e H; [constructor|]. destruct H as [H1 H2].
  constructor; [exact H1|]. eapply Forall_impl; [|apply (IH y H2)]. cbn; intros; lia.
Qed.

Lemma repeat_add {X} (x : X) a b : repeat x (a + b) = repeat x a ++ repeat x b.
Proof. induction a; cbn; congruence. Qed.

Lemma aux_decode : forall ev vs prev e0, length ev = S (length vs) -> weakly_increasing (e0 :: ev) ->
  decode (e0 :: fst (join_runs_aux prev ev vs), prev :: snd (join_runs_aux prev ev vs)) = decode (e0 :: ev, prev :: vs).
Proof.
  induction ev as [|e1 ev IH]; intros vs prev e0 Hlen Hw; [discriminate|]. destruct vs as [|v1 vs].
  - destruct ev; [reflexivity|discriminate].
  - rewrite aux_cons. cbn in Hlen. injection Hlen as Hlen. destruct Hw as [Hw1 Hw2].
    pose proof (IH vs v1 e1 Hlen Hw2) as IHd. pose proof (aux_shape ev vs v1 Hlen) as Hsh. cbn zeta in Hsh.
    destruct (join_runs_aux v1 ev vs) as [re rv]. cbn [fst snd] in *. destruct Hsh as [S1 S2].
    destruct (eqb v1 prev) eqn:E; cbn [fst snd].
    + apply eqb_eq in E. subst v1. rewrite decode_cons2. rewrite <- IHd.
      destruct re as [|r0 re']; [cbn in S1; lia|]. rewrite !decode_cons2.
      assert (Hr0 : e1 <= r0).
      { inversion S2 as [|? ? Hin _]; subst. pose proof (weakly_all_ge e1 ev Hw2) as Hge. rewrite Forall_forall in Hge. now apply Hge. }
      rewrite app_assoc, <- repeat_add. do 2 f_equal. lia.
    + rewrite !decode_cons2. now rewrite IHd.
Qed.

Theorem join_runs_decode ev vs : length ev = S (length vs) -> weakly_increasing ev ->
  decode (join_runs ev vs) = decode (ev, vs).
Proof.
  intros Hlen Hw. destruct ev as [|e ev]; [discriminate|]. destruct vs as [|v vs]; [reflexivity|].
  unfold RLEOps.join_runs. cbn in Hlen. injection Hlen as Hlen.
  pose proof (aux_decode ev vs v e Hlen Hw) as H. destruct (join_runs_aux v ev vs) as [re rv]. exact H.
Qed.

(* afterwards no two neighbouring runs carry the same value (numpy's test is values[1:] == values[:-1]) *)
Fixpoint no_adj (l : list A) : Prop := match l with x :: ((y :: _) as r) => eqb y x = false /\ no_adj r | _ => True end.
Lemma aux_no_adjacent : forall ev vs prev, length ev = S (length vs) ->
  match snd (join_runs_aux prev ev vs) with [] => True | w :: _ => eqb w prev = false end /\
  no_adj (snd (join_runs_aux prev ev vs)).
Proof.
  induction ev as [|e ev IH]; intros vs prev Hlen; [discriminate|]. destruct vs as [|v vs].
  - destruct ev; [cbn; auto|discriminate].
  - rewrite aux_cons. cbn in Hlen. injection Hlen as Hlen. specialize (IH vs v Hlen).
    destruct (join_runs_aux v ev vs) as [re rv]. cbn [snd] in *. destruct IH as [I1 I2].
    destruct (eqb v prev) eqn:E; cbn [snd].
    + split; [|exact I2]. destruct rv as [|w rv']; [exact I|]. apply eqb_eq in E. now subst.
    + split; [exact E|]. destruct rv as [|w rv']; [exact I|]. cbn [no_adj]. split; [exact I1|exact I2].
Qed.
Theorem join_runs_canonical ev vs : length ev = S (length vs) -> no_adj (snd (join_runs ev vs)).
Proof.
  intros Hlen. destruct ev as [|e ev]; [discriminate|]. destruct vs as [|v vs]; [exact I|].
  unfold RLEOps.join_runs. cbn in Hlen. injection Hlen as Hlen.
  destruct (aux_no_adjacent ev vs v Hlen) as [H1 H2]. destruct (join_runs_aux v ev vs) as [re rv]. cbn [snd] in *.
  destruct rv as [|w rv']; [exact I|]. cbn [no_adj]. split; assumption.
Qed.
End Canon.
Print Assumptions remove_empty_decode.
Print Assumptions join_runs_decode.
