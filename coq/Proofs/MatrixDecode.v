From Coq Require Import ZifyBool.
From NPS Require Import ListAux PySlice NumpySem Scatter BuildIdx XorBroadcast XorProof RLE RLEProof RLEOps RaOps RLE2d.
Open Scope Z_scope.

(* C17, matrix variant: RunLength2dArray.from_array stores run STARTS only and always forces the last column to start a run (the row end
   is the common row length).  Extra boundaries between equal neighbours do not change what a row decodes to: decoding is correct for
   every boundary mask that covers the true change points. *)
Section Gen.
Variable A : Type.
Variable dflt : A.
Variable neqb : A -> A -> bool.
Hypothesis neqb_false_eq : forall x y, neqb x y = false -> x = y.

Fixpoint covers (prev : A) (a : list A) (m : list bool) : Prop :=
  match a, m with
  | [], [] => True
  | x :: xs, b :: m' => (b = false -> neqb prev x = false) /\ covers x xs m'
  | _, _ => False
  end.

Lemma enc_dec_gen : forall xs x pre m, covers x xs m ->
  let a := pre ++ x :: xs in let s := zlen pre in
  let idx := s :: fnz_from (s + 1) m in
  spec_broadcast A (map (znth dflt a) idx) (diffs (idx ++ [s + 1 + zlen xs])) = x :: xs.
Proof.
  induction xs as [|y ys IH]; intros x pre m Hc; cbn zeta.
  - destruct m; [|destruct Hc]. cbn [fnz_from map app]. rewrite diffs_cons2. rewrite znth_app_at, (spec_broadcast_cons A).
    replace (Z.to_nat (zlen pre + 1 + zlen (@nil A) - zlen pre)) with 1%nat by (unfold zlen; cbn [length]; lia).
    reflexivity.
  - destruct m as [|b m]; [destruct Hc|]. destruct Hc as [Hb Hc].
    specialize (IH y (pre ++ [x]) m Hc). cbn zeta in IH.
    assert (Hz : zlen (pre ++ [x]) = zlen pre + 1) by (unfold zlen; rewrite app_length; cbn; lia).
    rewrite Hz in IH. rewrite <- app_assoc in IH. cbn [app] in IH.
    replace (zlen pre + 1 + 1) with (zlen pre + 2) in IH by lia.
    replace (zlen pre + 1 + zlen (y :: ys)) with (zlen pre + 2 + zlen ys) by (unfold zlen; cbn [length]; lia).
    cbn [fnz_from]. replace (zlen pre + 1 + 1) with (zlen pre + 2) by lia.
    set (T := fnz_from (zlen pre + 2) m) in *.
    set (a := pre ++ x :: y :: ys) in *.
    assert (Hx : znth dflt a (zlen pre) = x) by apply znth_app_at.
    assert (Hy : znth dflt a (zlen pre + 1) = y).
    { unfold a. change (pre ++ x :: y :: ys) with (pre ++ [x] ++ y :: ys). rewrite app_assoc, <- Hz. apply znth_app_at. }
    destruct b.
    + cbn [map app]. rewrite diffs_cons2. rewrite Hx. cbn [map app] in IH.
      rewrite (spec_broadcast_cons A). replace (Z.to_nat (zlen pre + 1 - zlen pre)) with 1%nat by lia. cbn [repeat app].
      f_equal. exact IH.
    + specialize (Hb eq_refl). apply neqb_false_eq in Hb. cbn [map app] in *.
      rewrite Hx. rewrite Hy in IH. rewrite Hb.
      destruct (T ++ [zlen pre + 2 + zlen ys]) as [|t0 r] eqn:ET; [destruct T; discriminate|].
      rewrite diffs_cons2 in *. rewrite (spec_broadcast_cons A) in *.
      assert (Ht0 : zlen pre + 2 <= t0).
      { assert (F : Forall (fun p => zlen pre + 2 <= p) (T ++ [zlen pre + 2 + zlen ys])).
        { apply Forall_app. split; [apply fnz_from_ge|]. constructor; [unfold zlen; lia|constructor]. }
        rewrite ET in F. now inversion F. }
      replace (Z.to_nat (t0 - zlen pre)) with (S (Z.to_nat (t0 - (zlen pre + 1)))) by lia.
      cbn [repeat app]. f_equal. exact IH.
Qed.
End Gen.

Definition zneq (a b : Z) : bool := negb (a =? b).
Lemma zneq_false a b : zneq a b = false -> a = b. Proof. unfold zneq. lia. Qed.

Lemma change_mask_covers : forall ys y, covers Z zneq y ys (change_mask (Some y) ys).
Proof. induction ys as [|z ys IH]; intros y; cbn [change_mask covers]; [exact I|]. split; [auto|apply IH]. Qed.

(* forcing more boundaries keeps the covering property *)
Lemma covers_force_last : forall ys y m, covers Z zneq y ys m -> covers Z zneq y ys (force_last m).
Proof.
  induction ys as [|z ys IH]; intros y m H; destruct m as [|b m]; cbn [covers] in H; try destruct H; [exact I|].
  unfold force_last. destruct ys as [|z2 ys].
  - destruct m; [|destruct H0]. cbn. split; [discriminate|exact I].
  - destruct m as [|b2 m]; [destruct H0|].
    change (removelast (b :: b2 :: m) ++ [true]) with (b :: (removelast (b2 :: m) ++ [true])).
    cbn [covers]. split; [exact H|]. specialize (IH z (b2 :: m) H0). unfold force_last in IH. exact IH.
Qed.

Theorem from_matrix_decode (rows : list (list Z)) (n : Z) : 1 <= n -> Forall (fun r => zlen r = n) rows ->
  rl2_decode (from_matrix rows) = rows.
Proof.
  intros Hn Hall. unfold rl2_decode, rl2_rows, from_matrix. cbn [r_idx r_val r_len].
  assert (Hlen : match rows with [] => 0 | r :: _ => zlen r end = n \/ rows = []).
  { destruct rows as [|r rows]; [now right|left]. now inversion Hall. }
  destruct Hlen as [Hlen|Hnil]; [|subst rows; reflexivity]. rewrite Hlen. clear Hlen.
  induction Hall as [|row rows Hr _ IH]; [reflexivity|]. cbn [map map2]. f_equal; [|exact IH].
  unfold row_rla. cbn [r_len].
  destruct row as [|x xs]; [unfold zlen in Hr; cbn in Hr; lia|].
  assert (Hm : force_last (change_mask None (x :: xs)) = true :: match xs with [] => [] | _ => force_last (change_mask (Some x) xs) end).
  { cbn [change_mask]. unfold force_last. destruct xs as [|y ys]; [reflexivity|].
    cbn [change_mask]. change (removelast (true :: (if y =? x then false else true) :: change_mask (Some y) ys) ++ [true])
      with (true :: (removelast ((if y =? x then false else true) :: change_mask (Some y) ys) ++ [true])). reflexivity. }
  rewrite Hm. unfold flatnonzero. cbn [fnz_from]. replace (0 + 1) with 1 by lia.
  set (m := match xs with [] => [] | _ => force_last (change_mask (Some x) xs) end).
  assert (Hc : covers Z zneq x xs m).
  { unfold m. destruct xs as [|y ys]; [exact I|]. apply covers_force_last, change_mask_covers. }
  pose proof (enc_dec_gen Z 0 zneq zneq_false xs x [] m Hc) as E. cbn zeta in E. cbn [app] in E.
  unfold zlen at 1 2 3 in E. cbn [length Z.of_nat] in E. replace (0 + 1) with 1 in E by lia.
  unfold decode. cbn [fst snd].
  replace n with (1 + zlen xs) by (unfold zlen in *; cbn [length] in Hr; lia).
  replace (map (fun p => nth (Z.to_nat p) (x :: xs) 0) (0 :: fnz_from 1 m)) with (map (znth 0 (x :: xs)) (0 :: fnz_from 1 m)) by reflexivity.
  exact E.
Qed.
