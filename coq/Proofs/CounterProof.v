From Coq Require Import ZifyBool.
From NPS Require Import ListAux PySlice NumpySem BuildIdx RLE Hash MapSpec Denote MaterialiseWF SetItem SliceAP XorProof HashProof HashInit HashSet.
Open Scope Z_scope.

(* C12: Counter.count adds, for every key, the number of its occurrences among the samples *)
Notation InvZ := (HashProof.Inv Z 0).

(* ---------- ragged addressing: cell (h, j) of rows R sits at excl_prefix[h] + j of concat R ---------- *)
Lemma concat_nth {X} (dx : X) : forall (R : list (list X)) h j, (h < length R)%nat -> (j < length (nth h R []))%nat ->
  nth (Z.to_nat (nth h (excl_prefix (map zlen R)) 0) + j) (concat R) dx = nth j (nth h R []) dx.
Proof.
  assert (G : forall (R : list (list X)) acc h j, (h < length R)%nat -> (j < length (nth h R []))%nat -> 0 <= acc ->
             forall pre, zlen pre = acc ->
             nth (Z.to_nat (nth h (excl_from acc (map zlen R)) 0) + j) (pre ++ concat R) dx = nth j (nth h R []) dx).
  { induction R as [|r R IH]; intros acc h j Hh Hj Hacc pre Hpre; [cbn in Hh; lia|].
    destruct h as [|h]; cbn [map excl_from nth concat] in *.
    - rewrite app_nth2 by (unfold zlen in Hpre; lia). rewrite app_nth1 by (unfold zlen in Hpre; lia). f_equal. unfold zlen in Hpre. lia.
    - rewrite app_assoc. apply (IH (acc + zlen r) h j); [cbn [length] in Hh; lia|exact Hj|unfold zlen; lia|].
      unfold zlen in *. rewrite app_length. lia. }
  intros R h j Hh Hj. apply (G R 0 h j Hh Hj ltac:(lia) [] eq_refl).
Qed.

(* occurrences *)
Definition occ (k : Z) (l : list Z) : Z := zlen (filter (Z.eqb k) l).
Lemma occ_cons k x l : occ k (x :: l) = (if k =? x then 1 else 0) + occ k l.
Proof. unfold occ, zlen. cbn [filter]. destruct (k =? x); cbn [length]; lia. Qed.

Lemma aget_spec_count d s k : aget Z (spec_count d s) k = option_map (fun v => v + occ k s) (aget Z d k).
Proof.
  unfold spec_count. induction d as [|[k' v] d IH]; [reflexivity|]. cbn [map MapSpec.aget fst snd].
  destruct (k' =? k) eqn:E; [|exact IH]. cbn [option_map]. assert (k' = k) by lia. subst. unfold occ, zlen. reflexivity.
Qed.

Section CP.
Variable t : table Z.
Variable d : assoc Z.
Hypothesis HI : InvZ t d.
Let m := t_mod t.
Let K := t_keys t.
Let lens := map zlen K.
Let starts := excl_prefix lens.
Definition pos (k : Z) : Z := nth (Z.to_nat (hash m k)) starts 0 + index_of k (bucket Z t k).
Definition hit (k : Z) : list Z := if present Z d k then [pos k] else [].

Lemma m_pos : 0 < m. Proof. destruct HI as [(H & _) _]. exact H. Qed.
Lemma K_len : zlen K = m. Proof. destruct HI as [(_ & H & _) _]. exact H. Qed.

Lemma raw_hit k :
  map (fun j => nth (Z.to_nat (hash m k)) starts 0 + j) (match_offsets 0 (nth (Z.to_nat (hash m k)) K []) k) = hit k.
Proof.
  unfold hit, present, pos. pose proof (In_bucket Z 0 t d k HI) as Hin. fold m K in Hin. fold (bucket Z t k) in Hin.
  change (nth (Z.to_nat (hash m k)) K []) with (bucket Z t k).
  destruct (aget Z d k) as [v|] eqn:E.
  - rewrite match_offsets_in; [reflexivity|eapply (NoDup_bucket Z 0 t d); eauto|]. apply Hin. congruence.
  - rewrite match_offsets_notin; [reflexivity|]. intros C. apply Hin in C. congruence.
Qed.

Lemma flat_char (samples : list Z) :
  flat_map (fun k => map (fun j => nth (Z.to_nat (hash m k)) starts 0 + j) (match_offsets 0 (nth (Z.to_nat (hash m k)) K []) k))
           (filter (fun k => negb (nth (Z.to_nat (hash m k)) lens 0 =? 0)) samples)
  = flat_map hit samples.
Proof.
  induction samples as [|k s IH]; [reflexivity|]. cbn [filter flat_map].
  destruct (negb (nth (Z.to_nat (hash m k)) lens 0 =? 0)) eqn:E.
  - cbn [flat_map]. now rewrite raw_hit, IH.
  - rewrite IH. rewrite <- raw_hit.
    assert (Hb : nth (Z.to_nat (hash m k)) K [] = []).
    { apply negb_false_iff, Z.eqb_eq in E. unfold lens in E.
      destruct (Nat.lt_ge_cases (Z.to_nat (hash m k)) (length K)) as [Hl|Hl].
      - rewrite (nth_indep _ 0 (zlen (@nil Z))) in E by (now rewrite map_length). rewrite map_nth in E.
        destruct (nth (Z.to_nat (hash m k)) K []); [reflexivity|unfold zlen in E; cbn in E; lia].
      - now apply nth_overflow. }
    rewrite Hb. reflexivity.
Qed.

(* where a present key sits in the flattened buckets *)
Lemma pos_key k : present Z d k = true ->
  0 <= pos k < zsum lens /\ nth (Z.to_nat (pos k)) (concat K) 0 = k /\
  (Z.to_nat (hash m k) < length K)%nat /\ (Z.to_nat (index_of k (bucket Z t k)) < length (bucket Z t k))%nat.
Proof.
  intros Hp. assert (Hak : aget Z d k <> None) by (unfold present in Hp; destruct (aget Z d k); congruence).
  assert (Hin : In k (bucket Z t k)) by (apply (In_bucket Z 0 t d k HI); exact Hak).
  destruct (nth_index_of k (bucket Z t k) 0 Hin) as [Hn Hr].
  pose proof (hash_range m k m_pos) as Hh. pose proof K_len as HK.
  assert (Hhl : (Z.to_nat (hash m k) < length K)%nat) by (unfold zlen in HK; lia).
  assert (Hjl : (Z.to_nat (index_of k (bucket Z t k)) < length (bucket Z t k))%nat) by (unfold zlen in Hr; lia).
  pose proof (concat_nth 0 K (Z.to_nat (hash m k)) (Z.to_nat (index_of k (bucket Z t k))) Hhl Hjl) as Hc.
  fold lens starts in Hc. change (nth (Z.to_nat (hash m k)) K []) with (bucket Z t k) in Hc. rewrite Hn in Hc.
  assert (Hsb : 0 <= nth (Z.to_nat (hash m k)) starts 0 /\ nth (Z.to_nat (hash m k)) starts 0 + zlen (bucket Z t k) <= zsum lens).
  { assert (Hlen : (Z.to_nat (hash m k) < length lens)%nat) by (unfold lens; now rewrite map_length).
    pose proof (MaterialiseWF.contig_rows_bounds lens 0) as Hb.
    assert (Hcomb : In (nth (Z.to_nat (hash m k)) starts 0, zlen (bucket Z t k)) (combine starts lens)).
    { assert (E : zlen (bucket Z t k) = nth (Z.to_nat (hash m k)) lens 0).
      { unfold lens. rewrite (nth_indep _ 0 (zlen (@nil Z))) by (now rewrite map_length). now rewrite map_nth. }
      rewrite E. rewrite <- (combine_nth starts lens (Z.to_nat (hash m k)) 0 0) by (unfold starts, excl_prefix; now rewrite excl_from_length).
      apply nth_In. rewrite combine_length. unfold starts, excl_prefix. rewrite excl_from_length. lia. }
    specialize (Hb _ _ (all_nonneg_zlen K) ltac:(lia) Hcomb). lia. }
  unfold pos. split; [unfold zlen in *; lia|]. split; [|split; assumption].
  etransitivity; [|exact Hc]. f_equal. lia.
Qed.

Lemma pos_inj k k' : present Z d k = true -> present Z d k' = true -> pos k = pos k' -> k = k'.
Proof.
  intros H1 H2 E. destruct (pos_key k H1) as (_ & E1 & _). destruct (pos_key k' H2) as (_ & E2 & _). rewrite E in E1. congruence.
Qed.

(* how often the slot of a present key is hit = how often the key occurs *)
Lemma occ_hits k' samples : present Z d k' = true -> occ (pos k') (flat_map hit samples) = occ k' samples.
Proof.
  intros Hp. induction samples as [|k s IH]; [reflexivity|]. cbn [flat_map]. unfold occ in *. rewrite filter_app.
  unfold zlen in *. rewrite app_length, Nat2Z.inj_add, IH. cbn [filter]. unfold hit at 1.
  destruct (present Z d k) eqn:Ek.
  - cbn [filter]. destruct (pos k' =? pos k) eqn:E1; destruct (k' =? k) eqn:E2; cbn [length]; try lia.
    + exfalso. assert (k' = k) by (apply pos_inj; auto; lia). lia.
    + exfalso. assert (k' = k) by lia. subst. lia.
  - cbn [filter length]. destruct (k' =? k) eqn:E2; [assert (k' = k) by lia; subst; congruence|lia].
Qed.
End CP.

Lemma Inv_ext t d d' : (forall k, aget Z d' k = aget Z d k) -> InvZ t d -> InvZ t d'.
Proof.
  intros E [Hb (Hk & Hv)]. split; [exact Hb|]. split.
  - intros k. rewrite E. apply Hk.
  - destruct (t_vals t) as [v|vb]; [intros k Hin; rewrite E; now apply Hv|].
    destruct Hv as [Hs Hc]. split; [exact Hs|]. intros h j k Hh Hj Hn. rewrite E. now apply Hc.
Qed.

Lemma nth_map2_add (a b : list Z) p : length a = length b -> (p < length a)%nat -> nth p (map2 Z.add a b) 0 = nth p a 0 + nth p b 0.
Proof.
  revert b p; induction a as [|x a IH]; intros [|y b] p Hl Hp; cbn in *; try lia; try discriminate.
  destruct p as [|p]; [reflexivity|]. apply IH; lia.
Qed.
Lemma map2_add_length (a b : list Z) : length a = length b -> length (map2 Z.add a b) = length a.
Proof. revert b; induction a as [|x a IH]; intros [|y b] H; cbn in *; try discriminate; auto. Qed.
Lemma nth_map_seq' {X} (f : nat -> X) dx n r : (r < n)%nat -> nth r (map f (seq 0 n)) dx = f r.
Proof.
  intros H. rewrite (nth_indep _ dx (f 0%nat)) by (now rewrite map_length, seq_length).
  rewrite (map_nth f (seq 0 n) 0%nat r). now rewrite seq_nth.
Qed.
Lemma nth_bincount n flat p : (p < n)%nat -> nth p (bincount_at n flat) 0 = occ (Z.of_nat p) flat.
Proof. intros H. unfold bincount_at. rewrite (nth_map_seq' _ 0 n p H). reflexivity. Qed.

Theorem count_correct t d samples : InvZ t d -> InvZ (count t samples) (spec_count d samples).
Proof.
  intros HI. unfold count. cbv zeta. rewrite (flat_char t d HI samples).
  set (m := t_mod t). set (K := t_keys t). set (lens := map zlen K). set (starts := excl_prefix lens).
  pose proof HI as [Hb (Hkeys & Hv)]. pose proof Hb as (Hm & HKl & Hnd & Hbk).
  destruct (flat_map (hit t d) samples) as [|f0 flat'] eqn:Eflat.
  - (* no sample is a key *)
    apply (Inv_ext t d); [|exact HI]. intros k. rewrite aget_spec_count.
    destruct (aget Z d k) as [v|] eqn:Ea; [|reflexivity]. cbn [option_map]. f_equal.
    assert (Hp : present Z d k = true) by (unfold present; now rewrite Ea).
    pose proof (occ_hits t d HI k samples Hp) as Ho. rewrite Eflat in Ho. unfold occ in Ho at 1. cbn in Ho. lia.
  - rewrite <- Eflat. set (flat := flat_map (hit t d) samples) in *.
    set (size := Z.to_nat (zsum lens)). set (inc := bincount_at size flat).
    assert (Hinc : length inc = size) by (unfold inc, bincount_at; now rewrite map_length, seq_length).
    set (old := match t_vals t with VOne v => map (fun _ => v) inc | VAligned vb => concat vb end).
    assert (Hs0 : 0 <= zsum lens) by (apply zsum_nonneg, all_nonneg_zlen).
    assert (Hold : length old = size).
    { unfold old. destruct (t_vals t) as [v|vb] eqn:Ev; [now rewrite map_length|].
      destruct Hv as [Hshape _]. unfold size, lens, K.
      rewrite <- (zsum_map_zlen vb) || idtac.
      assert (E : map zlen vb = map zlen (t_keys t)).
      { clear - Hshape. revert Hshape. generalize (t_keys t). induction vb as [|r vb IH]; intros [|r' K'] H; cbn in *; try discriminate; [reflexivity|].
        injection H as H1 H2. unfold zlen. rewrite H1. f_equal. now apply IH. }
      rewrite <- E. rewrite zsum_map_zlen. unfold zlen. lia. }
    set (X := map2 Z.add old inc).
    assert (HX : length X = size) by (unfold X; rewrite map2_add_length; lia).
    assert (HzX : zsum lens = zlen X) by (unfold zlen; rewrite HX; unfold size; lia).
    split; [exact Hb|]. unfold vals_ok. cbn [t_keys t_vals t_mod]. fold K m. split.
    + intros k. rewrite aget_spec_count. pose proof (Hkeys k) as Hk. fold K in Hk. rewrite Hk. destruct (aget Z d k); cbn; split; congruence.
    + split.
      * apply lengths_of_zlen. rewrite segments_lengths by (apply all_nonneg_zlen || exact HzX). reflexivity.
      * intros h j k' Hh Hj Hn.
        assert (Hink : In k' (nth (Z.to_nat h) K [])) by (eapply nth_error_In; eauto).
        assert (Hhash : hash m k' = h) by (apply (Hbk h k' Hh); exact Hink).
        assert (Hidx : index_of k' (nth (Z.to_nat h) K []) = j).
        { rewrite (index_of_unique _ (Z.to_nat j) k'); [lia| |exact Hn]. eapply (NoDup_bucket Z 0 t d); eauto. }
        assert (Hpres : present Z d k' = true).
        { unfold present. assert (aget Z d k' <> None) by (apply Hkeys; apply in_concat; exists (nth (Z.to_nat h) K []); split; [apply nth_In; unfold zlen in HKl; lia|exact Hink]).
          destruct (aget Z d k'); congruence. }
        destruct (pos_key t d HI k' Hpres) as (Hpr & _ & Hhl & Hjl). fold m K lens starts in Hpr, Hhl.
        assert (Epos : pos t k' = nth (Z.to_nat h) starts 0 + j).
        { unfold pos, bucket. fold m K lens starts. rewrite Hhash. now rewrite Hidx. }
        (* the new cell *)
        assert (Ecell : cell 0 (segments X lens) (h, j) = nth (Z.to_nat (pos t k')) X 0).
        { unfold cell. cbn [fst snd].
          pose proof (concat_nth 0 (segments X lens) (Z.to_nat h) (Z.to_nat j)) as Hc.
          rewrite segments_lengths, segments_concat in Hc by (apply all_nonneg_zlen || exact HzX). fold starts in Hc.
          rewrite <- Hc.
          - f_equal. rewrite Epos. assert (0 <= nth (Z.to_nat h) starts 0).
            { destruct (Nat.lt_ge_cases (Z.to_nat h) (length starts)) as [Hl|Hl]; [|rewrite nth_overflow by lia; lia].
              pose proof (excl_from_bounds 0 lens (all_nonneg_zlen K)) as Hbd. fold (excl_prefix lens) in Hbd. fold starts in Hbd.
              rewrite Forall_forall in Hbd. specialize (Hbd _ (nth_In starts 0 Hl)). lia. }
            lia.
          - rewrite <- (map_length zlen), segments_lengths by (apply all_nonneg_zlen || exact HzX). unfold lens. rewrite map_length. unfold zlen in HKl. lia.
          - assert (Hlr : zlen (nth (Z.to_nat h) (segments X lens) []) = zlen (nth (Z.to_nat h) K [])).
            { rewrite <- (map_nth zlen (segments X lens) [] (Z.to_nat h)), <- (map_nth zlen K [] (Z.to_nat h)).
              now rewrite segments_lengths by (apply all_nonneg_zlen || exact HzX). }
            assert ((Z.to_nat j < length (nth (Z.to_nat h) K []))%nat) by (apply nth_error_Some; congruence).
            unfold zlen in Hlr. lia. }
        rewrite Ecell. unfold X. rewrite nth_map2_add by (lia || (rewrite Hold; unfold size; lia)).
        unfold inc. rewrite nth_bincount by (unfold size; lia). rewrite Z2Nat.id by lia.
        fold flat. unfold flat. rewrite (occ_hits t d HI k' samples Hpres).
        rewrite aget_spec_count.
        (* the old value of this cell *)
        assert (Eold : aget Z d k' = Some (nth (Z.to_nat (pos t k')) old 0)).
        { unfold old. destruct (t_vals t) as [v|vb] eqn:Ev.
          - rewrite (Hv k') by (apply in_concat; exists (nth (Z.to_nat h) K []); split; [apply nth_In; unfold zlen in HKl; lia|exact Hink]).
            f_equal. symmetry. rewrite (nth_indep _ 0 ((fun _ : Z => v) 0)) by (rewrite map_length, Hinc; unfold size; lia).
            exact (map_nth (fun _ : Z => v) inc 0 (Z.to_nat (pos t k'))).
          - destruct Hv as [Hshape Hcells]. rewrite (Hcells h j k' Hh Hj Hn). f_equal. unfold cell. cbn [fst snd].
            assert (E : map zlen vb = lens).
            { unfold lens, K. clear - Hshape. revert Hshape. generalize (t_keys t). induction vb as [|r vb IH]; intros [|r' K'] H; cbn in *; try discriminate; [reflexivity|].
              injection H as H1 H2. unfold zlen. rewrite H1. f_equal. now apply IH. }
            pose proof (concat_nth 0 vb (Z.to_nat h) (Z.to_nat j)) as Hc. rewrite E in Hc. fold starts in Hc.
            rewrite <- Hc.
            + f_equal. rewrite Epos. assert (0 <= nth (Z.to_nat h) starts 0).
              { destruct (Nat.lt_ge_cases (Z.to_nat h) (length starts)) as [Hl|Hl]; [|rewrite nth_overflow by lia; lia].
                pose proof (excl_from_bounds 0 lens (all_nonneg_zlen K)) as Hbd. fold (excl_prefix lens) in Hbd. fold starts in Hbd.
                rewrite Forall_forall in Hbd. specialize (Hbd _ (nth_In starts 0 Hl)). lia. }
              lia.
            + rewrite <- (map_length zlen), E. unfold lens. rewrite map_length. unfold zlen in HKl. lia.
            + assert (Hlr : zlen (nth (Z.to_nat h) vb []) = zlen (nth (Z.to_nat h) K [])).
              { rewrite <- (map_nth zlen vb [] (Z.to_nat h)), <- (map_nth zlen K [] (Z.to_nat h)). now rewrite E. }
              assert ((Z.to_nat j < length (nth (Z.to_nat h) K []))%nat) by (apply nth_error_Some; congruence).
              unfold zlen in Hlr. lia. }
        rewrite Eold. reflexivity.
Qed.
Print Assumptions count_correct.

(* any sequence of batches; totals only depend on the multiset of all samples *)
Theorem count_history : forall batches t d, InvZ t d ->
  InvZ (fold_left count batches t) (fold_left spec_count batches d).
Proof. induction batches as [|b bs IH]; intros t d HI; [exact HI|]. cbn [fold_left]. apply IH. now apply count_correct. Qed.

Lemma occ_app k a b : occ k (a ++ b) = occ k a + occ k b.
Proof. unfold occ, zlen. rewrite filter_app, app_length. lia. Qed.

Theorem totals_of_batches : forall batches d k,
  aget Z (fold_left spec_count batches d) k = option_map (fun v => v + occ k (concat batches)) (aget Z d k).
Proof.
  induction batches as [|b bs IH]; intros d k; cbn [fold_left concat].
  - destruct (aget Z d k); cbn [option_map]; [f_equal; unfold occ, zlen; cbn; lia|reflexivity].
  - rewrite IH, aget_spec_count, occ_app. destruct (aget Z d k); cbn [option_map]; [f_equal; lia|reflexivity].
Qed.

Require Import Permutation.
Lemma occ_perm k a b : Permutation a b -> occ k a = occ k b.
Proof.
  intros H. induction H as [|x a b _ IH|x y a|a b c _ IH1 _ IH2]; [reflexivity| | |congruence].
  - rewrite !occ_cons. lia.
  - rewrite !occ_cons. lia.
Qed.
Corollary totals_split_and_order_invariant bs bs' d k : Permutation (concat bs) (concat bs') ->
  aget Z (fold_left spec_count bs d) k = aget Z (fold_left spec_count bs' d) k.
Proof. intros H. rewrite !totals_of_batches. now rewrite (occ_perm k _ _ H). Qed.
Print Assumptions totals_split_and_order_invariant.
