#!/usr/bin/env python3
"""Writes /verif/MANIFEST.json from the table below (run by hand after changing what a check covers)."""
import json, pathlib
ROOT = pathlib.Path(__file__).resolve().parents[1]

COMMON_NOTE = ("Trusted base: Coq 8.16.1 kernel (coqc full .vo build; vm_compute only in Examples/witnesses; no native_compute; coqchk -o in the "
               "thorough tier); axioms: none (every Print Assumptions answers 'Closed under the global context', parsed on every run); "
               "extraction with ExtrOcamlBasic only (no Extract Constant; Z/N/positive/nat stay inductive) + oracle/driver.ml; the Python harness "
               "(case generators, canonicalisation, term<->Python mapping); numpy primitive semantics as modelled in coq/Lib (validated by every "
               "correspondence case); numpy's own element operations/result dtypes where the property says 'what numpy gives'. "
               "Modelled, not verified: numpy itself, CPython slice semantics as transcribed in Lib/PySlice.v, file I/O. See DESIGN.md section 6.")

# id -> (technique, level text, design ref, extra note)
CHECKS = {
 "C01": ("Coq proof (geometry, observers, flat accept/reject, numpy round trip, ravel/unravel bijection) + correspondence of the extracted model with the implementation",
         "Theorems (Props/C01.v): the codes built by RaggedShape.__init__ are the exclusive-prefix-sum geometry for every length vector; every observer of a built array returns the rows; "
         "a flat buffer is accepted iff its size matches and then splits into the segments; to/from numpy; legacy offsets; flat<->(row,col) maps are mutually inverse in row-major order. "
         "Correspondence only: astype, dtype preservation, save/load through a real file.", "4.1, 10.3", ""),
 "C02": ("Coq proof of getitem_correct over the whole index grammar on every well-formed representation + five kernels re-translated from the source and tied by decision-procedure lemmas + correspondence",
         "getitem_correct: the model returns what the selectors give on the plain list of rows, refusals in both directions; resolve_cells: no cell outside the addressed rows/columns. "
         "Kernels of the column-slice family are re-translated from raggedshape.py on every run and proved equal to the hand model. Also run: lazily derived arrays, the same index twice on one object.", "4.2, 10.3", ""),
 "C03": ("Coq proof of setitem_correct (refinement to list-of-rows assignment) + translator tie + correspondence incl. a dtype-wide family",
         "setitem_correct: the addressed cells receive the values (scalar / flat / column / ragged), everything else, row count and lengths unchanged; mismatching ragged values refused; "
         "raw_broadcast_correct for the column case. Correspondence only: value dtypes (floats with 1e16/inf), per-cell values through a ragged mask, assignment into derived arrays.", "4.3, 10.3", ""),
 "C04": ("Coq proof of ufunc2_correct (parametric in the element operation) + correspondence over dtype pairs with numpy as the element-level oracle",
         "ufunc2_correct: ufunc(ra, scalar / (n,1) column / equal-shape ragged) is the row-wise map2 for any element operation; mismatching shapes refused. "
         "Result dtype and element operation are numpy's own applied to row i alone (the property's wording); 22 binary, 8 unary ufuncs, operators, both sides, views and ufunc results as operands, two ufuncs in a row.", "4.4, 10.3", ""),
 "C05": ("Coq proof of reduce_correct, ra_row_mean_correct (mean along the rows) (law-free folds), argmax_correct/argmin_correct + correspondence incl. reduce-mutate-reduce sequences",
         "reduce_correct: reduceat + identity patch-up equals the per-row left fold with the identity on empty rows for every placement of empty rows; argmax/argmin pipeline. "
         "Correspondence only: keepdims / axis=None / mean wrappers, result dtypes, arrays unchanged by reductions.", "4.5, 10.3", ""),
 "C06": ("Coq proof of chain_correct (selection chains of any depth on lazy views), indistinguishable_read, and assign_leaves_older_arrays_unchanged (heap machine) + correspondence on programs",
         "Every lazily derived representation is well formed and denotes the spec's selection; two representations with equal rows are indistinguishable by any index; an assignment never "
         "changes an older array in any reachable heap. ~75 observations, observation sequences and 18 assignments on derived arrays against fresh equal arrays.", "4.6, 10.3", ""),
 "C07": ("Coq proofs cumsum_correct, accumulate_correct, diff_correct, sort_correct, unique_correct + correspondence incl. scan-mutate-scan sequences",
         "Each scan/reordering equals the per-row numpy definition for every placement of empty rows; cumsum/accumulate over abstract groups (integer wrap-around inside the theorem); "
         "float accumulate through the padded matrix compared bit-exactly with numpy per row.", "4.7, 10.3", ""),
 "C08": ("Coq proofs concat0/concat1/like/where/where_scalar/subset/ragged_slice (ragged, 1-D and 2-D inputs)/nonzero/padded_correct + ragged_slice window arithmetic re-translated and tied + correspondence",
         "Structural functions are polymorphic list functions; theorems state row-structure preservation. ragged_slice is proved for ragged, 1-D and 2-D inputs; its per-row arithmetic (defaults included) is re-translated from raggedslice.py on every run. Correspondence only: NPSArray[starts:ends], empty_like, dtype pairs of where.", "4.8, 10.3", ""),
 "C09": ("Coq proofs colsum_correct, col_counts_correct, ra_col_mean_correct, get_column_values_correct + correspondence incl. integers beyond 2^53 and float32 precision cases",
         "Column sums count every row that reaches the column once; col_counts is the suffix count of lengths; get_column_values lists the j-th elements in row order. Correspondence only: the one division of mean, dtype branches.", "4.9, 10.3", ""),
 "C10": ("Coq proof of run_sim / C10_partial_concrete (heap-with-lazy-views machine refines value semantics on safe histories, concrete selector grammar, sound boolean guard) + C10_refuted witness + correspondence on history pairs",
         "The full statement is false of the faithful model (C10_refuted, reproduced on the real code: known finding K1); C10_partial_concrete proves it for histories in which no "
         "write hits a buffer another array still names. History pairs with/without an inserted read (20 read kinds that return their own results) are run on the implementation and on the model.", "4.10, 10.3", ""),
 "C11": ("Coq proof table_is_dictionary (refinement of the bucket table to an association list over every history), tbl_eq_correct (== decides dictionary equality), tbl_add_correct (+ is the key-wise sum or refused), tbl_like_correct + hash kernel tie + correspondence on histories (oracle and dict-model families)",
         "Invariant established by the constructor for every duplicate-free key set and modulus, preserved by assignment; lookups equal the dictionary's; absent keys refused. "
         "Equality of two tables (any moduli, any bucket order) equals equality of their dictionaries. Sums of two tables on the same key array equal the key-wise sum of the dictionaries; zeros_like/ones_like keep the key set. Correspondence only: key dtypes other than int64, float values, +=, HashSet.", "4.11, 10.3", ""),
 "C12": ("Coq proof count_correct / count_history / split-and-order invariance, fast_indices_correct + correspondence on batch histories",
         "After any sequence of batches every key reports initial + occurrences in the concatenation; non-keys contribute nothing; the fast index builder equals the general one.", "4.12, 10.3", ""),
 "C13": ("Coq proof unpack_pack, get_correct, getlist_correct, sliding_window_correct over Z with explicit mod 2^64 + nine bitarray.py kernels re-translated from the source and tied + correspondence",
         "Registers as base-2^b digit strings; windows across register boundaries via the two-register shift lemma; any length. The shift/mask/register arithmetic of __init__, __getitem__, pack, unpack and sliding_window is re-translated from bitarray.py on every run (uint64 wrap explicit) and proved equal to the model.", "4.13, 10.3", ""),
 "C14": ("Coq proof to_array_from_array, from_array_canonical, decode_from_array_R (float PER), canonical-form theorems of slicing / stepping / binary ufuncs / concatenation + dtype-wide correspondence incl. NaN/-0.0",
         "The code's decoder inverts its encoder for every non-empty array; boundaries canonical; no equal neighbours where promised. Canonical form is checked on every RunLengthArray the library returns.", "4.14, 10.3", ""),
 "C15": ("Coq proof get_slice_correct (every slice, every bound), get_position(s)_correct, get_bool_mask_correct, rl_windows_decode (empty windows included), start_to_end_vec_is_rows (the vector window code as written = the scalar code row by row), rl_getitem_rlmask_correct + slice-bounds / step-subset / index-wrap kernels re-translated and tied + correspondence",
         "Run-length slicing decodes to Python's dense[a:b:c] for all bounds and steps; integer / list / mask / run-length-mask / window indexing equal the dense indexing.", "4.15, 10.3", ""),
 "C16": ("Coq proof apply_binary_correct (arbitrary unrelated boundaries), rl_map/sum/any/all/max/mean/hist/concat_correct + dtype-wide correspondence",
         "Merged-boundary binary ufunc decodes to map2 of the dense arrays and has no equal neighbours; reductions on run values equal reductions of the decoded array.", "4.16, 10.3", ""),
 "C17": ("Coq proofs from_ragged_decode, from_matrix_decode, rl2_select/map/concat/sum/max_argmax/col/ravel/elem, rl2_col_sum(_matrix)_correct, rl2_col_counts_correct, from_intervals_decode, rl2_col_range_pos (every positive-step column slice that is non-empty in every row: Python's slice of every dense row), rl2_col_range_neg (negative steps with every given bound inside the rows, open bounds included), col_any_matrix (any(axis=0) of the matrix variant), rl2_col_mean_correct (mean(axis=0) = sum(axis=0)/col_counts() through the binary path, the division a parameter), rl2_any/all/mean_rows_correct with ragged_row_aggregates and matrix_row_aggregates (any, all, mean along the rows of every encoded array) + step-subset kernel tie + correspondence (model and dense numpy), and the dense data",
         "Row-wise lock-step representation; column sums (sorted change events + running sums) and column counts decode to the dense column sums / counts for every column. from_intervals decodes to the indicator matrix. Column ranges are proved as the property states them (any positive-step slice; negative steps with bounds inside the rows); any(axis=0) on the matrix variant is modelled as written (Model/RL2Any.v) and proved (col_any_matrix: the column-wise OR of the rows, through the interval-union sweep theorem sweep_intervals); float column sums are compared bit for bit with numpy's.", "4.17, 10.3", ""),
 "C18": ("Coq proof obj_select_entries / obj_item_entry / obj_concat_entries / obj_eqb_iff / obj_astype_* / obj_iter_entries / varlen_rows + correspondence on run-time generated dataclasses",
         "Applying one selector to every field equals selecting entries of the table; concatenation concatenates the tables; astype keeps every value under its own field name; iteration yields the entries in order; VarLenArray concatenation right-aligns.", "4.18, 10.3", ""),
 "C19": ("Coq proof index_rows_width_independent, shape_codes_width_independent, geometry_additions_width_independent + all C01-C09 case sets run under both index widths (separate processes and in-process switch)",
         "Packed 64-bit gather of (start,length) pairs equals gathering the pairs when entries fit 31 bits; the int32 geometry arithmetic equals the unbounded one for arrays that fit; "
         "the implementation is compared with itself across configurations.", "4.19, 10.3", ""),
}

def main():
    notapp = json.loads((ROOT / "tools" / "not_applicable.json").read_text()) if (ROOT / "tools" / "not_applicable.json").exists() else []
    na_ids = {e["property_id"] for e in notapp}
    checks = []
    for pid, (tech, text, ref, extra) in CHECKS.items():
        if pid in na_ids: continue
        checks.append({
            "property_id": pid,
            "quick_cmd": f"./check {pid} --tier quick",
            "thorough_cmd": f"./check {pid} --tier thorough",
            "evidence_file": f"/verif/evidence/{pid}.json",
            "replay_cmd_template": f"./check {pid} --replay {{path}}",
            "engine": "coq-proof+correspondence",
            "level_claimed": {"category": "proof", "text": text, "design_ref": "DESIGN.md section " + ref},
            "level_note": COMMON_NOTE + (" " + extra if extra else ""),
            "technique": tech,
        })
    m = {"version": 1,
         "setup_cmd": "./setup.sh",
         "hooks": {"guard": "NPSTRUCTURES_VERIF", "enable": "no hooks are needed: the checks import npstructures from /repo's working tree (PYTHONPATH=/repo); the guard name is reserved",
                   "baseline_off_cmd": "cd /repo && /venv/bin/python -m pytest -ra -q -p no:cacheprovider --timeout=900 --continue-on-collection-errors",
                   "source_commits": [], "add_only": True},
         "engines": [{"name": "coq-proof+correspondence", "path": "/verif/check", "serves_properties": [c["property_id"] for c in checks],
                      "kind_free_text": "Coq 8.16.1 development (coq/), extracted OCaml oracle (oracle/), Python differential harness (harness/), Python-AST->Gallina translator (tools/translate.py)"}],
         "checks": checks,
         "notes": "49 `fix:` commits in /repo repair the genuine defects found (F1-F41, known_findings.json, status fixed); one design-level defect (lazy-view aliasing, C10) is a known finding.",
         "not_applicable": notapp}
    (ROOT / "MANIFEST.json").write_text(json.dumps(m, indent=1) + "\n")
    print("MANIFEST.json:", len(checks), "checks;", len(notapp), "not applicable")

if __name__ == "__main__":
    main()
