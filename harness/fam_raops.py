"""Array functions of RaggedArray (C04, C05, C07, C08, C09): implementation vs Model/RaOps.v, Scan.v, Reduce.v."""
import itertools, warnings
from vlib import show, parse, oracle, parse2, guarded
warnings.simplefilter("ignore")

TRUSTED = ["Coq 8.16.1 kernel", "extraction (ExtrOcamlBasic, Z inductive) + oracle/driver.ml",
           "numpy element operations and result dtypes (the oracle computes structure; values are integers)", "this harness"]
VALS = [3, -1, 3, 0, 2, 2, -5, 7, 1, 1, 0, 4, 9, -2, 6]
UFS = ["add", "subtract", "multiply", "maximum", "less", "equal", "bitwise_and", "bitwise_xor"]
RULE = ("every shape of <= 4 rows with row lengths in {0,1,3} (thorough: <= 5 rows, lengths {0,1,2,4}), values from a fixed alphabet with "
        "duplicates, zeros and negatives; per shape every operation of the property with scalar / column / ragged operands, seeded masks "
        "and windows; non-trivial = at least two rows and at least one element; distinct = distinct protocol line")


def run_family(R, tier, rng, ops):
    import numpy as np
    from npstructures import RaggedArray, ragged_slice
    cases = []
    def L(x):
        if isinstance(x, tuple): return [L(y) for y in x]
        if isinstance(x, RaggedArray): return x.tolist()
        return np.asarray(x).tolist()
    def add(op, line, f, kind="pair", rows=None):
        if op not in ops: return
        try: e = f()
        except Exception: e = None
        cases.append((line, e, kind, op, rows))
    lens_alpha, maxrows = ([0, 1, 2, 4], 5) if tier == "thorough" else ([0, 1, 3], 4)
    shapes = [ls for k in range(0, maxrows + 1) for ls in itertools.product(lens_alpha, repeat=k)]
    for ls in shapes:
        Rw = []; c = 0
        for l in ls: Rw.append([VALS[(c + k) % len(VALS)] for k in range(l)]); c += l
        mk = lambda: RaggedArray(Rw, dtype=int)
        n = len(Rw)
        if "ufunc" in ops:
            for code, name in enumerate(UFS):
                uf = getattr(np, name)
                add("ufunc", "ufunc %d %s [0 5]" % (code, show(Rw)), lambda: L(uf(mk(), 5).astype(int)), rows=Rw)
                if n:
                    col = [rng.randint(-3, 3) for _ in Rw]
                    add("ufunc", "ufunc %d %s [1 %s]" % (code, show(Rw), show(col)), lambda: L(uf(mk(), np.array(col)[:, None]).astype(int)), rows=Rw)
                    add("ufunc", "ufunc %d %s [1 %s]" % (code, show(Rw), show(col + [1])), lambda: L(uf(mk(), np.array(col + [1])[:, None]).astype(int)), rows=Rw)
                R2 = [[rng.randint(-3, 3) for _ in r] for r in Rw]
                add("ufunc", "ufunc %d %s [2 %s]" % (code, show(Rw), show(R2)), lambda: L(uf(mk(), RaggedArray(R2, dtype=int)).astype(int)), rows=Rw)
        for code, name in enumerate(["add", "multiply", "bitwise_xor", "bitwise_and"]):
            uf = getattr(np, name)
            add("reduce", "reduce %d %s" % (code, show(Rw)), lambda: L(uf.reduce(mk(), axis=-1)), rows=Rw)
        add("cumsum", "cumsum " + show(Rw), lambda: L(np.cumsum(mk(), axis=-1)), rows=Rw)
        for code, name in enumerate(["add", "subtract", "bitwise_xor"]):
            uf = getattr(np, name)
            add("accumulate", "accumulate %d %s" % (code, show(Rw)), lambda: L(uf.accumulate(mk(), axis=-1)), rows=Rw)
        for k in range(4): add("diff", "diff %d %s" % (k, show(Rw)), lambda: L(np.diff(mk(), n=k, axis=-1)), rows=Rw)
        add("sort", "sort " + show(Rw), lambda: L(mk().sort(axis=-1)), rows=Rw)
        add("unique", "unique " + show(Rw), lambda: L(np.unique(mk(), axis=-1, return_counts=True)), rows=Rw)
        add("nonzero", "nonzero " + show(Rw), lambda: L(np.nonzero(mk())), rows=Rw)
        M = [[rng.random() < .5 for _ in r] for r in Rw]
        add("subset", "subset %s %s" % (show(Rw), show(M)), lambda: L(mk().subset(RaggedArray(M, dtype=bool))), rows=Rw)
        Y = [[rng.randint(-3, 3) for _ in r] for r in Rw]
        add("where", "where %s %s %s" % (show(Rw), show(M), show(Y)), lambda: L(np.where(RaggedArray(M, dtype=bool), mk(), RaggedArray(Y, dtype=int))), rows=Rw)
        add("where", "where_s %s %s 9" % (show(Rw), show(M)), lambda: L(np.where(RaggedArray(M, dtype=bool), mk(), 9)), rows=Rw)
        add("like", "like %s 0" % show(Rw), lambda: L(np.zeros_like(mk())), rows=Rw); add("like", "like %s 1" % show(Rw), lambda: L(np.ones_like(mk())), rows=Rw)
        add("concat1", "concat1 [%s %s]" % (show(Rw), show(Y)), lambda: L(np.concatenate([mk(), RaggedArray(Y, dtype=int)], axis=-1)), rows=Rw)
        add("concat1", "concat1 [%s %s %s]" % (show(Rw), show(Y), show(Rw[:-1] if Rw else [])), lambda: L(np.concatenate([mk(), RaggedArray(Y, dtype=int), RaggedArray(Rw[:-1], dtype=int)], axis=1)), rows=Rw)
        if n:
            st = [rng.randint(0, len(r)) for r in Rw]
            en = [rng.choice([rng.randint(s, len(r)), -rng.randint(1, max(1, len(r)))]) if len(r) else s for s, r in zip(st, Rw)]
            add("rslice", "rslice %s %s %s" % (show(Rw), show(st), show(en)), lambda: L(ragged_slice(mk(), np.array(st), np.array(en))), rows=Rw)
            # a 1-D input (every window cut from the same array) and a 2-D input (a matrix: rows of one width); bounds given or defaulted
            d1 = [rng.randint(-9, 9) for _ in range(rng.randint(1, 7))]; k1 = rng.randint(1, 4)
            st1 = [rng.randint(0, len(d1)) for _ in range(k1)]; en1 = [rng.choice([rng.randint(s, len(d1)), -rng.randint(1, len(d1))]) for s in st1]
            add("rslice", "rslice1d %s %s %s" % (show(d1), show(st1), show(en1)), lambda: L(ragged_slice(np.array(d1), np.array(st1), np.array(en1))), rows=[d1] * 2)
            add("rslice", "rslice1d %s %s %s" % (show(d1), show([0] * k1), show(en1)), lambda: L(ragged_slice(np.array(d1), None, np.array(en1))), rows=[d1] * 2)
            add("rslice", "rslice1d %s %s %s" % (show(d1), show(st1), show([len(d1)] * k1)), lambda: L(ragged_slice(np.array(d1), np.array(st1))), rows=[d1] * 2)
            w2 = rng.randint(1, 4); n2 = rng.randint(1, 4)
            M2 = [[rng.randint(-9, 9) for _ in range(w2)] for _ in range(n2)]
            st2 = [rng.randint(0, w2) for _ in range(n2)]; en2 = [rng.choice([rng.randint(s, w2), -rng.randint(1, w2)]) for s in st2]
            add("rslice", "rslice2d %s %d %s %s" % (show(M2), w2, show(st2), show(en2)), lambda: L(ragged_slice(np.array(M2), np.array(st2), np.array(en2))), rows=M2)
            add("rslice", "rslice2d %s %d %s %s" % (show(M2), w2, show([0] * n2), show(en2)), lambda: L(ragged_slice(np.array(M2), None, np.array(en2))), rows=M2)
            add("rslice", "rslice2d %s %d %s %s" % (show(M2), w2, show(st2), show([w2] * n2)), lambda: L(ragged_slice(np.array(M2), np.array(st2))), rows=M2)
            if max(ls) > 0:
                for left in (0, 1):
                    add("padded", "padded %s 7 %d" % (show(Rw), left), lambda: L(mk().as_padded_matrix(fill_value=7, side="left" if left else "right")), rows=Rw)
                add("colsum", "colsum " + show(Rw), lambda: [int(x) for x in mk().sum(axis=0)], rows=Rw)
                add("colcounts", "colcounts " + show(Rw), lambda: L(mk().col_counts()), rows=Rw)
                add("colmean", "colmean " + show(Rw), lambda: [float(x) for x in np.asarray(mk().mean(axis=0), dtype=float)], rows=Rw)
                Rbig = [[{3: 2 ** 53 + 1, -5: -(2 ** 62), 7: 2 ** 60 + 1}.get(v, v) for v in r] for r in Rw]   # sums that are not float64 values
                add("colsum", "colsum " + show(Rbig), lambda: [int(x) for x in RaggedArray(Rbig, dtype=np.int64).sum(axis=0)], rows=Rbig)
            if all(len(r) for r in Rw):
                add("rowmean", "rowmean " + show(Rw), lambda: [float(x) for x in np.asarray(mk().mean(axis=-1), dtype=float)], rows=Rw)
            add("argmax", "argmax " + show(Rw), lambda: L(mk().argmax(axis=-1)), rows=Rw)
            add("argmin", "argmin " + show(Rw), lambda: L(mk().argmin(axis=-1)), rows=Rw)
    out = oracle([c[0] for c in cases])
    for (line, impl, kind, op, rows), o in zip(cases, out):
        nt = len(rows) >= 2 and any(rows)
        if o.startswith("ERR"):
            R.record(line, impl, "oracle-error: " + o[:80], "oracle-error: " + o[:80], nt, op); continue
        m, s = parse(o)
        if kind == "single": s = m
        if op in ("colmean", "rowmean") and m is not None:       # the model and the specification keep the exact fraction (column sum, column count); the division is numpy's
            m = [float(np.float64(a_) / np.float64(b_)) for a_, b_ in m]; s = [float(np.float64(a_) / np.float64(b_)) for a_, b_ in s]
        if op in ("argmax", "argmin") and impl is None and not any(rows): continue      # numpy itself refuses when every row is empty
        R.record(line, impl, m, s, nt, op)
