From Coq Require Import ZifyBool.
From NPS Require Import ListAux PySlice NumpySem Scatter BuildIdx XorBroadcast XorProof SelRows RLE RLEProof RLEOps RaOps RLE2d BinaryProof StepNeg RLEIndex RL2Proof RL2Col.
Open Scope Z_scope.

(* C17: x[i, j] is element j (negative from the end) of row i (negative from the end) of the decoded array;
   an out-of-range row is refused *)
Theorem rl2_elem_correct (rows : list (list Z * list Z)) (i j : Z) :
  Forall (fun p => canon Z (fst p) (snd p) /\ fst p <> []) rows ->
  match np_item rows i with
  | Refused => rl2_elem (of_runs rows) i j = Refused
  | Ok (ls, vs) =>
      let n := zsum ls in
      - n <= j < n ->
      rl2_elem (of_runs rows) i j = Ok (nth (Z.to_nat (if j <? 0 then n + j else j)) (spec_broadcast Z vs ls) 0)
  end.
Proof.
  intros H. unfold rl2_elem, rl2_row, of_runs. cbn [r_idx r_val r_len]. rewrite !np_item_map.
  destruct (np_item rows i) as [[ls vs]|] eqn:E; cbn [rmap rbind]; [|reflexivity].
  intros Hj. unfold row_rla. cbn [r_len fst snd].
  apply np_item_In in E. rewrite Forall_forall in H. destruct (H _ E) as [[Hl Hlen] Hne]. cbn [fst snd] in *.
  apply (get_position_correct Z 0 vs ls j Hl Hlen Hne Hj).
Qed.
Print Assumptions rl2_elem_correct.
