(* C12 — property theorems only: each restates the full statement and is closed by the lemma proved in Proofs/. *)
From Coq Require Import ZArith List Bool.
From NPS Require Import ListAux PySlice NumpySem Scatter BuildIdx XorBroadcast View Index Assign Reduce Scan RaOps Heap Hash HashRun BitArr RLE RLEOps RLE2d DataClass RowsSpec AssignSpec MapSpec Denote CounterProof FastIndices HashRunProof.
Import ListNotations.
Open Scope Z_scope.

Theorem C12_count_correct :
  forall (t : table Z) (d : assoc Z) (samples : list Z),
       InvZ t d -> InvZ (count t samples) (spec_count d samples).
Proof. exact count_correct. Qed.
Print Assumptions C12_count_correct.

Theorem C12_count_history :
  forall (batches : list (list Z)) (t : table Z) (d : assoc Z),
       InvZ t d -> InvZ (fold_left count batches t) (fold_left spec_count batches d).
Proof. exact count_history. Qed.
Print Assumptions C12_count_history.

Theorem C12_totals_of_batches :
  forall (batches : list (list Z)) (d : assoc Z) (k : Z),
       aget Z (fold_left spec_count batches d) k =
       option_map (fun v : Z => v + occ k (concat batches)) (aget Z d k).
Proof. exact totals_of_batches. Qed.
Print Assumptions C12_totals_of_batches.

Theorem C12_totals_split_and_order_invariant :
  forall (bs bs' : list (list Z)) (d : assoc Z) (k : Z),
       Permutation.Permutation (concat bs) (concat bs') ->
       aget Z (fold_left spec_count bs d) k = aget Z (fold_left spec_count bs' d) k.
Proof. exact totals_split_and_order_invariant. Qed.
Print Assumptions C12_totals_split_and_order_invariant.

Theorem C12_fast_indices_is_build_indices :
  forall rows : list row,
       Forall (fun r : Z * Z => 1 <= snd r) rows -> fast_indices rows = build_indices rows 1.
Proof. exact fast_indices_is_build_indices. Qed.
Print Assumptions C12_fast_indices_is_build_indices.

Theorem C12_fast_indices_correct :
  forall rows : list row,
       Forall (fun r : Z * Z => 1 <= snd r) rows -> fast_indices rows = spec_indices rows 1.
Proof. exact fast_indices_correct. Qed.
Print Assumptions C12_fast_indices_correct.

Theorem C12_hash_run_refines :
  forall (ops : list hop) (t : table Z) (d : assoc Z),
       InvZ t d -> NoDup (map fst d) -> Forall2 out_equiv (hrun t ops) (srun d ops).
Proof. exact hash_run_refines. Qed.
Print Assumptions C12_hash_run_refines.
