From Coq Require Import ZifyBool Permutation.
From NPS Require Import ListAux PySlice NumpySem Scatter BuildIdx SliceAP XorBroadcast XorProof Denote MaterialiseWF RLE RLEProof RLEOps SetItem CanonProof RLEIndex RoundTrip BinaryProof StepProof ReverseProof.
Open Scope Z_scope.

(* C15: _step_subset with a negative step = mirror, then stride *)
Section Neg.
Variable A : Type.
Variable d : A.
Variable eqb : A -> A -> bool.
Hypothesis eqb_eq : forall x y, eqb x y = true -> x = y.

Lemma diffs_evs_gen : forall ls acc, diffs (excl_from acc ls ++ [acc + zsum ls]) = ls.
Proof.
  induction ls as [|l ls IH]; intros acc; [reflexivity|].
  cbn [excl_from app zsum]. destruct ls as [|l' ls'].
  - cbn [excl_from app zsum]. rewrite diffs_cons2. unfold diffs. cbn [tl removelast map2]. f_equal. lia.
  - specialize (IH (acc + l)). cbn [excl_from app] in *. rewrite diffs_cons2. f_equal; [lia|].
    replace (acc + (l + zsum (l' :: ls'))) with (acc + l + zsum (l' :: ls')) by lia. exact IH.
Qed.
Lemma diffs_evs ls : diffs (evs ls) = ls.
Proof. unfold evs, excl_prefix. pose proof (diffs_evs_gen ls 0) as H. now replace (0 + zsum ls) with (zsum ls) in H by lia. Qed.

Lemma zsum_rev ls : zsum (rev ls) = zsum ls.
Proof. induction ls as [|l ls IH]; [reflexivity|]. cbn [rev zsum]. rewrite zsum_app. cbn [zsum]. lia. Qed.

(* a boundary list is determined by its first element and its differences *)
Lemma ev_from_diffs : forall ev e0, e0 :: ev = excl_from e0 (diffs (e0 :: ev)) ++ [last (e0 :: ev) 0].
Proof.
  induction ev as [|e1 ev IH]; intros e0; [reflexivity|]. rewrite diffs_cons2. cbn [excl_from app].
  change (last (e0 :: e1 :: ev) 0) with (last (e1 :: ev) 0). f_equal. replace (e0 + (e1 - e0)) with e1 by lia. apply IH.
Qed.

Lemma mirror_evs ls : ls <> [] -> map (fun x => zsum ls - x) (rev (evs ls)) = evs (rev ls).
Proof.
  intros Hne. set (n := zsum ls).
  assert (Hlast : last (evs ls) 0 = n) by (unfold evs; apply last_last).
  assert (Hhd : hd 0 (evs ls) = 0) by (unfold evs, excl_prefix; destruct ls; [congruence|reflexivity]).
  set (M := map (fun x => n - x) (rev (evs ls))).
  assert (HdM : diffs M = rev ls) by (unfold M; rewrite diffs_mirror, diffs_evs; reflexivity).
  (* head and last of the mirrored list *)
  assert (Hrev : rev (evs ls) = n :: rev (excl_prefix ls)) by (unfold evs; rewrite rev_app_distr; reflexivity).
  assert (HM : M = 0 :: tl M /\ last M 0 = n).
  { unfold M. rewrite Hrev. cbn [map tl]. split; [f_equal; lia|].
    destruct ls as [|l0 ls']; [congruence|]. rewrite excl_cons. cbn [rev]. rewrite map_app. cbn [map].
    change ((n - n) :: (map (fun x => n - x) (rev (map (Z.add l0) (excl_prefix ls'))) ++ [n - 0]))
      with (((n - n) :: map (fun x => n - x) (rev (map (Z.add l0) (excl_prefix ls')))) ++ [n - 0]).
    rewrite last_last. lia. }
  destruct HM as [HM0 HMl]. rewrite HM0. rewrite (ev_from_diffs (tl M) 0). rewrite <- HM0, HdM, HMl.
  unfold evs, excl_prefix. now rewrite zsum_rev.
Qed.

Variable ls : list Z.
Variable vs : list A.
Hypothesis Hc : canon A ls vs.
Hypothesis Hne : ls <> [].
Variable k : Z.
Hypothesis Hk : 1 <= k.

Theorem step_subset_neg :
  decode A (step_subset A eqb (evs ls, vs) (- k))
  = map (fun q => nth (Z.to_nat (q * k)) (rev (spec_broadcast A vs ls)) d) (ap 0 (cdiv k (zsum ls)) 1).
Proof.
  unfold step_subset. replace (- k <? 0) with true by lia. replace (Z.abs (- k)) with k by lia. cbn [fst snd].
  assert (Hlast : last (evs ls) 0 = zsum ls) by (unfold evs; apply last_last). rewrite Hlast.
  rewrite (mirror_evs ls Hne).
  assert (Hc' : canon A (rev ls) (rev vs)).
  { destruct Hc as [Hl Hlen]. split; [now apply Forall_rev|now rewrite !rev_length]. }
  assert (Hne' : rev ls <> []) by (destruct ls; [congruence|cbn; destruct (rev l); discriminate]).
  pose proof (step_subset_pos A d eqb eqb_eq k Hk (rev ls) (rev vs) Hc') as [H _].
  unfold step_subset in H. replace (k <? 0) with false in H by lia. replace (Z.abs k) with k in H by lia. cbn [fst snd] in H.
  rewrite H. rewrite zsum_rev. apply map_ext. intros q. unfold dense. f_equal.
  destruct Hc as [_ Hlen]. now apply spec_broadcast_rev.
Qed.
End Neg.
Print Assumptions step_subset_neg.
