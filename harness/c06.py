"""C06 — a derived array behaves exactly like a freshly built equal array: two-step selection chains through lazy views."""
from vlib import show, parse, oracle, parse2, guarded
from harness.c02 import enc_index

TRUSTED = ["Coq 8.16.1 kernel", "extraction (ExtrOcamlBasic, Z inductive) + oracle/driver.ml", "this harness"]
ASSUME = ["element values are flat positions (parametricity)", "chains of depth 2 are run; the theorem (chain_correct) covers every depth"]
RULE = ("3 base arrays x 14 first selections that return lazy views (row slices with steps, fancy rows, masks, column slices with either "
        "sign of step, combinations, Ellipsis) x every second index of a reduced C02 grammar on the derived shape; non-trivial = the first "
        "selection is not the identity; distinct = distinct protocol line")
BASES = [[[0, 1, 2, 3], [], [4, 5], [6, 7, 8], [9]], [[], [0, 1], [2]], [[0, 1, 2], [3, 4, 5]]]


def lazies(nr):
    return [slice(1, None), slice(None, None, -1), slice(None, None, 2), [nr - 1, 0, 0], [True] + [False] * (nr - 2) + [True] if nr >= 2 else [True] * nr,
            (slice(None), slice(None, None, 2)), (slice(None), slice(None, None, -1)), (slice(None), slice(1, None)), ([0, nr - 1], slice(1, 3)),
            (slice(None), slice(None, None, -2)), (slice(None, None, 2), slice(None, None, 1)), (Ellipsis, slice(0, 2)), (slice(None, None, -1), slice(-2, None)), Ellipsis]


def seconds(nr, mx):
    s = [Ellipsis, ()] + list(range(-nr - 1, nr + 1)) + [slice(None, None, -1), slice(1, None), slice(None, None, 2), [nr - 1, 0] if nr else [], [True] * nr]
    for rs in [slice(None), slice(None, None, -1), [nr - 1, 0] if nr else slice(None), 0, nr - 1, Ellipsis, [True] * nr]:
        for cs in list(range(-mx - 1, mx + 1)) + [slice(None, None, -1), slice(1, None), slice(None, None, 2), slice(None, -1), slice(None, None, -2), slice(-2, None), slice(1, None, -1), Ellipsis]:
            s.append((rs, cs))
    s.append(([0, nr - 1], [0, 0]))
    return s


def run(R, tier, rng):
    import numpy as np
    from npstructures import RaggedArray
    def to_py(idx):
        def c(x):
            if isinstance(x, list) and x and isinstance(x[0], bool): return np.array(x)
            if isinstance(x, list) and len(x) == 0: return np.array([], dtype=int)
            return x
        return tuple(c(x) for x in idx) if isinstance(idx, tuple) else c(idx)
    def canon(x):
        if isinstance(x, RaggedArray): return [2, x.tolist()]
        if isinstance(x, np.ndarray): return [1, x.tolist()] if x.ndim else [0, x.item()]
        return [0, int(x)]
    cases = []
    for B in BASES:
        for l1 in lazies(len(B)):
            try: R1 = RaggedArray(B, dtype=int)[to_py(l1)].tolist()
            except Exception: continue
            nr = len(R1); mx = max([len(r) for r in R1] + [0])
            for l2 in seconds(nr, mx):
                if isinstance(l2, list) and len(l2) == 0: continue
                try: e = canon(RaggedArray(B, dtype=int)[to_py(l1)][to_py(l2)])
                except Exception: e = None
                cases.append(("chain " + show(B) + " " + show(enc_index(l1)) + " " + show(enc_index(l2)), e, l1 is not Ellipsis, type(l1).__name__))
    out = oracle([c[0] for c in cases])
    for (line, impl, nt, kind), o in zip(cases, out):
        if o.startswith("ERR"): m = s = "oracle-error: " + o[:80]
        else: m, s = parse(o)
        R.record(line, impl, m, s, nt, kind)
