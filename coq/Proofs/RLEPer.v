From Coq Require Import ZifyBool.
From NPS Require Import ListAux PySlice Scatter BuildIdx XorBroadcast XorProof RLE RLEProof.
Open Scope Z_scope.

(* C14 for element types whose numpy "!=" is not the negation of identity (floats: NaN != NaN, 0.0 == -0.0):
   decoding the encoding returns, position by position, the same element or one that "==" it. *)
Section Per.
Variable A : Type.
Variable dflt : A.
Variable neqb : A -> A -> bool.
Hypothesis eq_trans' : forall x y z, neqb x y = false -> neqb y z = false -> neqb x z = false.

Definition R (x z : A) : Prop := x = z \/ neqb x z = false.
Notation nmask := (nmask A neqb).

Lemma R_step x y z : neqb x y = false -> R y z -> R x z.
Proof. intros E [<-|H]; right; [exact E|now apply (eq_trans' x y z)]. Qed.

Lemma Forall2_repeat x n (l : list A) : length l = n -> Forall (R x) l -> Forall2 R (repeat x n) l.
Proof. intros <- H. induction H as [|z l Hz _ IH]; cbn; constructor; assumption. Qed.

Lemma Forall2_split n (l1 l2 l : list A) : Forall2 R l1 (firstn n l) -> Forall2 R l2 (skipn n l) -> Forall2 R (l1 ++ l2) l.
Proof. intros H1 H2. rewrite <- (firstn_skipn n l). now apply Forall2_app. Qed.

Lemma fnz_lt : forall m off, Forall (fun p => p < off + zlen m) (fnz_from off m).
Proof.
  induction m as [|b m IH]; intros off; [constructor|]. cbn [fnz_from].
  assert (H : Forall (fun p => p < off + zlen (b :: m)) (fnz_from (off + 1) m)).
  { eapply Forall_impl; [|apply (IH (off + 1))]. cbn. intros p Hp. unfold zlen in *. cbn [length]. lia. }
  destruct b; [constructor; [unfold zlen; cbn [length]; lia|exact H]|exact H].
Qed.

Lemma enc_dec_R : forall xs x pre,
  let a := pre ++ x :: xs in let s := zlen pre in
  let T := fnz_from (s + 1) (nmask x xs) in let E := T ++ [s + 1 + zlen xs] in
  exists t0 r, E = t0 :: r /\ s + 1 <= t0 <= s + 1 + zlen xs /\
    Forall (R x) (firstn (Z.to_nat (t0 - s)) (x :: xs)) /\
    Forall2 R (spec_broadcast A (map (znth dflt a) T) (diffs E)) (skipn (Z.to_nat (t0 - s)) (x :: xs)).
Proof.
  induction xs as [|y ys IH]; intros x pre; cbn zeta.
  - cbn [nmask fnz_from app]. exists (zlen pre + 1 + zlen (@nil A)), []. change (zlen (@nil A)) with 0.
    repeat split; try lia. + replace (Z.to_nat (zlen pre + 1 + 0 - zlen pre)) with 1%nat by lia. cbn. constructor; [now left|constructor].
    + replace (Z.to_nat (zlen pre + 1 + 0 - zlen pre)) with 1%nat by lia. cbn. constructor.
  - specialize (IH y (pre ++ [x])). cbn zeta in IH.
    assert (Hz : zlen (pre ++ [x]) = zlen pre + 1) by (unfold zlen; rewrite app_length; cbn; lia).
    rewrite Hz in IH. rewrite <- app_assoc in IH. cbn [app] in IH.
    replace (zlen pre + 1 + 1) with (zlen pre + 2) in IH by lia.
    replace (zlen pre + 1 + zlen (y :: ys)) with (zlen pre + 2 + zlen ys) by (unfold zlen; cbn [length]; lia).
    replace (zlen pre + 1 + 1 + zlen ys) with (zlen pre + 2 + zlen ys) in IH by lia.
    cbn [nmask fnz_from]. replace (zlen pre + 1 + 1) with (zlen pre + 2) by lia.
    set (T' := fnz_from (zlen pre + 2) (nmask y ys)) in *. set (a := pre ++ x :: y :: ys) in *. set (s := zlen pre) in *.
    destruct IH as (t0' & r' & HE & Hb & Hf & Ht).
    assert (Hy : znth dflt a (s + 1) = y).
    { unfold a. change (pre ++ x :: y :: ys) with (pre ++ [x] ++ y :: ys). rewrite app_assoc. rewrite <- Hz. apply znth_app_at. }
    destruct (neqb x y) eqn:Exy.
    + exists (s + 1), (T' ++ [s + 2 + zlen ys]). cbn [app]. repeat split; try (unfold zlen; cbn [length]; lia).
      * replace (Z.to_nat (s + 1 - s)) with 1%nat by lia. cbn. constructor; [now left|constructor].
      * replace (Z.to_nat (s + 1 - s)) with 1%nat by lia. cbn [skipn map]. rewrite HE, diffs_cons2, spec_broadcast_cons, Hy.
        apply (Forall2_split (Z.to_nat (t0' - (s + 1)))).
        -- apply Forall2_repeat; [|exact Hf]. rewrite firstn_length. unfold zlen in *. cbn [length]. lia.
        -- rewrite HE in Ht. exact Ht.
    + exists t0', r'. repeat split; try (unfold zlen in *; cbn [length]; lia); [exact HE| |].
      * replace (Z.to_nat (t0' - s)) with (S (Z.to_nat (t0' - (s + 1)))) by lia. cbn [firstn]. constructor; [now left|].
        eapply Forall_impl; [|exact Hf]. intros z Hzr. now apply (R_step x y z).
      * replace (Z.to_nat (t0' - s)) with (S (Z.to_nat (t0' - (s + 1)))) by lia. cbn [skipn]. exact Ht.
Qed.

Theorem decode_from_array_R (a : list A) : a <> [] -> Forall2 R (decode A (from_array A dflt neqb a)) a.
Proof.
  destruct a as [|x xs]; [congruence|]. intros _. rewrite from_array_cons. unfold decode. cbn [fst snd].
  destruct (enc_dec_R xs x []) as (t0 & r & HE & Hb & Hf & Ht). cbn [app] in *. change (zlen (@nil A)) with 0 in *.
  replace (0 + 1) with 1 in * by lia. replace (1 + zlen xs) with (1 + zlen xs) by reflexivity.
  cbn [map]. rewrite HE, diffs_cons2, spec_broadcast_cons. cbn [znth Z.to_nat nth].
  apply (Forall2_split (Z.to_nat (t0 - 0))).
  - apply Forall2_repeat; [|exact Hf]. rewrite firstn_length. unfold zlen in *. cbn [length]. lia.
  - rewrite HE in Ht. exact Ht.
Qed.
End Per.
Print Assumptions decode_from_array_R.
