"""C09 — column aggregates: correspondence of the implementation with the Coq models."""
import vlib
from harness import fam_raops, fam_ra2
TRUSTED = fam_raops.TRUSTED
ASSUME = ["integer element values (element operations and result dtypes are numpy's own; floats only with exactly representable results)"]
RULE = "operations: colsum colcounts colmean; " + fam_raops.RULE
def run(R, tier, rng):
    fam_raops.run_family(R, tier, rng, set("colsum colcounts colmean".split()))
    fam_ra2.run_c09(R, tier, rng)


def translator_tie():
    return vlib.translator_tie(["view"])
