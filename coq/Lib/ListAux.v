From Coq Require Export ZArith List Bool Lia.
Export ListNotations.
Open Scope Z_scope.

(* ---------- basic numeric list functions (numpy primitives on 1-D int arrays) ---------- *)
Fixpoint zsum (l : list Z) : Z := match l with [] => 0 | x :: xs => x + zsum xs end.

(* np.cumsum *)
Fixpoint cumsum_from (acc : Z) (l : list Z) : list Z :=
  match l with [] => [] | x :: xs => (acc + x) :: cumsum_from (acc + x) xs end.
Definition cumsum := cumsum_from 0.

(* exclusive prefix sums: [0; l0; l0+l1; ...] of the same length as l *)
Fixpoint excl_from (acc : Z) (l : list Z) : list Z :=
  match l with [] => [] | x :: xs => acc :: excl_from (acc + x) xs end.
Definition excl_prefix := excl_from 0.

Definition zlen {A} (l : list A) : Z := Z.of_nat (length l).

(* firstn/skipn with Z arguments, numpy-slice style on non-negative bounds *)
Definition ztake {A} (n : Z) (l : list A) := firstn (Z.to_nat n) l.
Definition zdrop {A} (n : Z) (l : list A) := skipn (Z.to_nat n) l.

(* split a flat buffer into rows of the given lengths *)
Fixpoint segments {A} (d : list A) (ls : list Z) : list (list A) :=
  match ls with
  | [] => []
  | l :: ls' => ztake l d :: segments (zdrop l d) ls'
  end.

Definition all_nonneg (ls : list Z) := Forall (fun l => 0 <= l) ls.

Lemma zsum_app a b : zsum (a ++ b) = zsum a + zsum b.
Proof. induction a as [|x a IH]; cbn [app zsum]; lia. Qed.

Lemma zsum_nonneg ls : all_nonneg ls -> 0 <= zsum ls.
Proof. induction 1 as [|x l Hx _ IH]; cbn [zsum]; lia. Qed.

Lemma cumsum_from_length acc l : length (cumsum_from acc l) = length l.
Proof. revert acc; induction l as [|x l IH]; intros; cbn; [reflexivity|]. now rewrite IH. Qed.

Lemma excl_from_length acc l : length (excl_from acc l) = length l.
Proof. revert acc; induction l as [|x l IH]; intros; cbn; [reflexivity|]. now rewrite IH. Qed.

Lemma cumsum_from_shift2 a b l : cumsum_from (a + b) l = map (Z.add a) (cumsum_from b l).
Proof.
  revert b; induction l as [|x l IH]; intros b; cbn [cumsum_from map]; [reflexivity|].
  f_equal; [lia|]. rewrite <- IH. f_equal; lia.
Qed.
Lemma cumsum_from_shift acc l : cumsum_from acc l = map (Z.add acc) (cumsum_from 0 l).
Proof. rewrite <- cumsum_from_shift2. f_equal; lia. Qed.

Lemma excl_from_shift2 a b l : excl_from (a + b) l = map (Z.add a) (excl_from b l).
Proof.
  revert b; induction l as [|x l IH]; intros b; cbn [excl_from map]; [reflexivity|].
  f_equal. rewrite <- IH. f_equal; lia.
Qed.
Lemma excl_from_shift acc l : excl_from acc l = map (Z.add acc) (excl_from 0 l).
Proof. rewrite <- excl_from_shift2. f_equal; lia. Qed.

(* removelast = a[:-1] *)
Lemma excl_is_pad_cumsum acc l : l <> [] ->
  excl_from acc l = acc :: removelast (cumsum_from acc l).
Proof.
  revert acc; induction l as [|x l IH]; intros acc H; [congruence|].
  cbn [excl_from cumsum_from]. f_equal.
  destruct l as [|y l]; [reflexivity|].
  rewrite IH by congruence. cbn. reflexivity.
Qed.

Lemma segments_concat {A} (d : list A) ls :
  all_nonneg ls -> zsum ls = zlen d -> concat (segments d ls) = d.
Proof.
  revert d; induction ls as [|l ls IH]; intros d Hn Hs.
  - cbn in *. unfold zlen in Hs. destruct d; [reflexivity|cbn in Hs; lia].
  - inversion Hn as [|? ? Hl Hn']; subst. cbn [segments concat].
    rewrite IH; [apply firstn_skipn|assumption|].
    cbn [zsum] in Hs. unfold zdrop, zlen in *. rewrite skipn_length.
    pose proof (zsum_nonneg ls Hn'). lia.
Qed.

Lemma segments_lengths {A} (d : list A) ls :
  all_nonneg ls -> zsum ls = zlen d -> map zlen (segments d ls) = ls.
Proof.
  revert d; induction ls as [|l ls IH]; intros d Hn Hs; [reflexivity|].
  inversion Hn as [|? ? Hl Hn']; subst. cbn [segments map].
  pose proof (zsum_nonneg ls Hn') as Hp. cbn [zsum] in Hs. unfold zlen in *.
  f_equal.
  - unfold ztake. rewrite firstn_length. lia.
  - apply IH; [assumption|]. unfold zdrop. rewrite skipn_length. lia.
Qed.

Lemma skipn_skipn' {A} (a b : nat) (l : list A) : skipn a (skipn b l) = skipn (b + a) l.
Proof. revert l; induction b as [|b IH]; intros l; cbn; [reflexivity|]. destruct l; [now destruct a|apply IH]. Qed.
Lemma zdrop_zdrop {A} (a b : Z) (l : list A) : 0 <= a -> 0 <= b -> zdrop a (zdrop b l) = zdrop (b + a) l.
Proof. intros. unfold zdrop. rewrite skipn_skipn'. f_equal. lia. Qed.
