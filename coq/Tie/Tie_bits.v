From Coq Require Import ZArith Bool Lia List.
From NPS Require Import ListAux PySlice NumpySem BuildIdx BitArr Struct2Proof K_bits.
Import ListNotations.
Open Scope Z_scope.
(* Tie 1 for C13: the arithmetic of BitArray (bitarray.py) re-translated from the CURRENT source (Gen/K_bits.v) equals the definitions of
   Model/BitArr.v that the C13 theorems are about.  numpy's uint64 arithmetic is explicit in the generated terms (casts and `<<` are
   taken mod 2^64); the hypotheses are the ranges in which the code is used: a stride between 1 and 64 bits, indices, values and
   registers that fit a register. *)

Remark pow64_pos : 0 < 2 ^ 64. Proof. reflexivity. Qed.
Remark pow64_val : 2 ^ 64 = 18446744073709551616. Proof. reflexivity. Qed.
(* the scripts are decision procedures: every `x mod 2^64` whose argument is in range is removed by lia, the rest is congruence + lia,
   so that equivalent rewrites of the arithmetic do not break them *)
Ltac unwrap := repeat match goal with |- context [?x mod 2 ^ 64] => rewrite (Z.mod_small x (2 ^ 64)) by (rewrite ?pow64_val in *; lia) end.
Ltac same := match goal with |- ?a = ?a => reflexivity | |- _ => solve [lia] | |- _ => f_equal; same end.
Remark mask_range b : 1 <= b <= 64 -> 0 <= 2 ^ b - 1 < 2 ^ 64.
Proof. intros H. assert (2 ^ b <= 2 ^ 64) by (apply Z.pow_le_mono_r; lia). assert (0 < 2 ^ b) by (apply Z.pow_pos_nonneg; lia). lia. Qed.

(* __init__: stride, mask, offset, entries per register, and the shift of entry i *)
Lemma tie_bit_init b i : 1 <= b <= 64 -> gen_bit_init b 0 i = (b, mask_of b, 0, W / b, b * i).
Proof.
  intros H. unfold gen_bit_init, mask_of, W. cbv zeta. pose proof (mask_range b H) as Hm.
  unwrap. same.
Qed.
Lemma tie_bit_shifts b : 1 <= b <= 64 ->
  shifts b = map (fun i => snd (gen_bit_init b 0 (Z.of_nat i))) (seq 0 (Z.to_nat (W / b))).
Proof. intros H. unfold shifts. apply map_ext. intros i. now rewrite tie_bit_init. Qed.

(* __getitem__ with an integer / with an integer array (per element) *)
Lemma tie_bit_get (p : bitarray) idx : 1 <= ba_stride p <= 64 -> 0 <= idx < 2 ^ 64 -> idx / (W / ba_stride p) < zlen (ba_data p) ->
  get p idx = Ok (gen_bit_get (fun i => nth (Z.to_nat i) (ba_data p) 0) idx 0 (W / ba_stride p) (ba_stride p) (mask_of (ba_stride p))).
Proof.
  intros Hb Hi Hr. unfold get, gen_bit_get, shr64. cbv zeta.
  assert (0 < W / ba_stride p) by (apply Z.div_str_pos; unfold W; lia).
  rewrite (np_item_in_range _ _ 0) by (split; [apply Z.div_pos; lia|exact Hr]). cbn [rmap]. unwrap. same.
Qed.
Lemma tie_bit_get_arr data idx off epr b m : gen_bit_get_arr data idx off epr b m = gen_bit_get data idx off epr b m.
Proof. reflexivity. Qed.

(* unpack: one cell; the whole function is the model's *)
Lemma tie_bit_unpack (p : bitarray) :
  unpack p = ztake (ba_len p) (flat_map (fun reg => map (fun s => gen_bit_unpack reg s (mask_of (ba_stride p))) (shifts (ba_stride p))) (ba_data p)).
Proof. reflexivity. Qed.

(* pack: one step of the loop on one register *)
Lemma tie_bit_pack bits x b i : 1 <= b <= 64 -> 0 <= bits < 2 ^ 64 -> 0 <= x < 2 ^ 64 -> 0 <= b * i < 2 ^ 64 ->
  gen_bit_pack bits x b i = Z.lor bits (shl64 x (b * i)).
Proof.
  intros Hb Hbits Hx Hs. unfold gen_bit_pack, shl64, wrap64, W. cbv zeta. unwrap. same.
Qed.

(* sliding_window: a cell of a register with a successor, and of the last register *)
Lemma tie_bit_window reg nxt s rs w b : 0 <= W - w * b < 2 ^ 64 ->
  gen_bit_window reg nxt s rs w b = win_cell (shr64 (2 ^ W - 1) (W - w * b)) reg (Some nxt) s (rs + b).
Proof. intros H. unfold gen_bit_window, win_cell, shr64, shl64, wrap64, W in *. cbv zeta. unwrap. same. Qed.
Lemma tie_bit_window_last reg s rs w b : 0 <= W - w * b < 2 ^ 64 ->
  gen_bit_window_last reg s rs w b = win_cell (shr64 (2 ^ W - 1) (W - w * b)) reg None s (rs + b).
Proof. intros H. unfold gen_bit_window_last, win_cell, shr64, W in *. cbv zeta. unwrap. same. Qed.
(* ... and the rows of the model are made of these cells *)
Lemma tie_bit_win_row b mask reg nxt : win_row b mask reg nxt = map2 (win_cell mask reg nxt) (shifts b) (map (fun s => s + b) (rev (shifts b))).
Proof. reflexivity. Qed.
