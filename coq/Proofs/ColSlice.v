From Coq Require Import ZifyBool.
From NPS Require Import ListAux PySlice NumpySem Scatter BuildIdx SliceAP View Index XorProof Denote Kernels.
Open Scope Z_scope.

Section CS.
Variable A : Type.
Variable dflt : A.
Notation row_cells := (row_cells A dflt).
Notation row_ok := Denote.row_ok.

(* slice_list on a list = gathering at the slice positions *)
Lemma flat_map_singleton {X Y} (f : X -> Y) (l : list X) : flat_map (fun x => [f x]) l = map f l.
Proof. induction l; cbn; congruence. Qed.

Lemma slice_list_positions (l : list A) sl : step_of sl <> 0 ->
  slice_list l sl = map (znth dflt l) (py_positions (zlen l) sl).
Proof.
  intros Hk. unfold slice_list.
  assert (H : Forall (fun p => 0 <= p < zlen l) (py_positions (zlen l) sl)).
  { unfold py_positions, ap. apply ap_nat_forall. intros k Hkk.
    apply py_positions_range; [unfold zlen; lia|assumption|lia]. }
  induction H as [|p ps Hp _ IH]; [reflexivity|]. cbn [flat_map map]. rewrite IH. 
  unfold znth. unfold zlen in Hp. rewrite (nth_error_nth' l dflt) by lia. reflexivity.
Qed.

Lemma znth_map {X} (f : X -> A) (dx : X) (l : list X) p : 0 <= p < zlen l -> znth dflt (map f l) p = f (znth dx l p).
Proof.
  intros H. unfold znth, zlen in *. rewrite (nth_indep _ dflt (f dx)) by (rewrite map_length; lia). apply map_nth.
Qed.

Lemma col_slice_row (d : list A) n c sl s L : row_ok n c (s, L) -> step_of sl <> 0 ->
  let r' := col_kernel c sl (s, L) in
  row_cells d (c * step_of sl) r' = slice_list (row_cells d c (s, L)) sl /\ row_ok n (c * step_of sl) r'.
Proof.
  intros [HL Hpos] Hk. cbn [fst snd] in *. cbn zeta.
  destruct (col_kernel_spec c sl s L HL Hk) as [Hlen Hstart].
  destruct (col_kernel c sl (s, L)) as [s' L'] eqn:E. cbn [fst snd] in *. subst L'.
  assert (Hz : zlen (row_cells d c (s, L)) = L) by (apply row_cells_zlen; cbn; lia).
  rewrite slice_list_positions by assumption. rewrite Hz.
  destruct (Z.eq_dec (py_count L sl) 0) as [E0|E0].
  - (* empty selection *)
    unfold Denote.row_cells, py_positions. cbn [fst snd]. rewrite E0. unfold ap. cbn. split; [reflexivity|].
    split; cbn [fst snd]; [lia|]. intros k Hkk. lia.
  - assert (Hc : 0 < py_count L sl).
    { assert (0 <= py_count L sl); [|lia]. unfold py_count. repeat match goal with |- context[if ?b then _ else _] => destruct b eqn:? end; try lia.
      all: match goal with |- 0 <= ?x / ?y + 1 => assert (0 <= x / y) by (apply Z.div_pos; lia); lia end. }
    rewrite (Hstart Hc). split.
    + unfold Denote.row_cells. cbn [fst snd]. rewrite (Z.mul_comm c (step_of sl)).
      rewrite <- (ap_getslice s L c sl HL Hk). rewrite map_map.
      apply map_ext_in. intros p Hp.
      assert (Hr : 0 <= p < L).
      { unfold py_positions, ap in Hp. apply In_nth with (d := 0) in Hp. destruct Hp as (k & Hk1 & Hk2).
        rewrite ap_nat_length in Hk1. rewrite ap_nat_nth in Hk2 by assumption. subst p.
        apply py_positions_range; [assumption|assumption|lia]. }
      symmetry. apply znth_map. rewrite ap_zlen; lia.
    + split; cbn [fst snd]; [lia|]. intros k Hkk.
      pose proof (py_positions_range L sl k HL Hk Hkk) as Hp.
      specialize (Hpos (py_start L sl + k * step_of sl) Hp).
      replace (s + py_start L sl * c + k * (c * step_of sl)) with (s + (py_start L sl + k * step_of sl) * c) by ring. exact Hpos.
Qed.
End CS.
