From Coq Require Import ZifyBool.
From NPS Require Import ListAux PySlice NumpySem Scatter BuildIdx XorBroadcast XorProof Denote Reduce ReduceProof RLE RLEOps Scan RaOps ScanProof SetItem UfuncProof.
Open Scope Z_scope.

(* C08: structural functions preserve row structure and element order (polymorphic in the element type) *)
Section St.
Variable A : Type.

Lemma segments_app_rows (R S : list (list A)) :
  segments (concat R ++ concat S) (map zlen R ++ map zlen S) = R ++ S.
Proof.
  induction R as [|r R IH]; cbn [concat map app]; [apply segments_concat_rows|].
  rewrite <- app_assoc. rewrite segments_app_first. now rewrite IH.
Qed.

Theorem concat0_correct (Rs : list (list (list A))) :
  fr_rows (ra_concat0 (map fr_of_rows Rs)) = concat Rs.
Proof.
  unfold fr_rows, ra_concat0. cbn [fst snd].
  induction Rs as [|R Rs IH]; [reflexivity|]. cbn [map flat_map concat fr_of_rows fst snd].
  rewrite <- IH. clear IH.
  generalize (flat_map fst (map fr_of_rows Rs)) as d. generalize (flat_map snd (map fr_of_rows Rs)) as ls. intros ls d.
  induction R as [|r R IHR]; [reflexivity|]. cbn [concat map app]. rewrite <- app_assoc, segments_app_first. now rewrite IHR.
Qed.

(* subset: cells kept by the mask, row lengths = per-row counts of true cells (through C05's reduction) *)
Lemma mask_filter_app (a b : list A) (m n : list bool) : length a = length m ->
  mask_filter (a ++ b) (m ++ n) = mask_filter a m ++ mask_filter b n.
Proof. revert m; induction a as [|x a IH]; intros [|c m] H; cbn in *; try discriminate; [reflexivity|]. destruct c; cbn; now rewrite IH by lia. Qed.

Definition count_true (m : list bool) : Z := zsum (map (fun b : bool => if b then 1 else 0) m).
Lemma mask_filter_zlen (r : list A) (m : list bool) : length r = length m -> zlen (mask_filter r m) = count_true m.
Proof.
  revert m; induction r as [|x r IH]; intros [|c m] H; cbn in *; try discriminate; [reflexivity|].
  unfold count_true in *. cbn [map zsum]. destruct c; [unfold zlen in *; cbn [length]; rewrite Nat2Z.inj_succ, (IH m) by lia; lia|rewrite IH by lia; lia].
Qed.

Lemma fold_add_sum l x : fold_left Z.add l x = x + zsum l.
Proof. revert x; induction l as [|y l IH]; intros x; cbn [fold_left zsum]; [lia|]. rewrite IH. lia. Qed.

End St.
Print Assumptions concat0_correct.
