From Coq Require Import ZifyBool.
From NPS Require Import ListAux PySlice NumpySem Scatter BuildIdx SliceAP XorBroadcast XorProof Denote RLE RLEProof RLEOps SetItem CanonProof RLEIndex.
Open Scope Z_scope.

(* C15: negative steps first reverse the run-length array: boundaries e -> n - e in reverse order, values reversed *)
Section Rev.
Variable A : Type.

Lemma spec_broadcast_app (v1 v2 : list A) l1 l2 : length v1 = length l1 ->
  spec_broadcast A (v1 ++ v2) (l1 ++ l2) = spec_broadcast A v1 l1 ++ spec_broadcast A v2 l2.
Proof. intros H. unfold spec_broadcast. rewrite map2_app by assumption. apply concat_app. Qed.

Lemma rev_repeat (x : A) n : rev (repeat x n) = repeat x n.
Proof. induction n as [|n IH]; [reflexivity|]. cbn [repeat rev]. rewrite IH. clear. induction n; cbn; congruence. Qed.

Lemma spec_broadcast_rev : forall (vs : list A) ls, length vs = length ls ->
  spec_broadcast A (rev vs) (rev ls) = rev (spec_broadcast A vs ls).
Proof.
  induction vs as [|v vs IH]; intros [|l ls] H; try discriminate; [reflexivity|]. cbn [rev].
  rewrite spec_broadcast_app by (rewrite !rev_length; cbn in H; lia). rewrite IH by (cbn in H; lia).
  unfold spec_broadcast at 2 3. cbn [map2 concat]. rewrite rev_app_distr, app_nil_r, rev_repeat. reflexivity.
Qed.

(* differences of the mirrored boundary list are the reversed differences *)
Lemma diffs_snoc ev a b : diffs (ev ++ [a; b]) = diffs (ev ++ [a]) ++ [b - a].
Proof.
  induction ev as [|e ev IH]; [reflexivity|]. destruct ev as [|e' ev]; [reflexivity|].
  cbn [app] in *. rewrite !diffs_cons2. now rewrite IH.
Qed.
Lemma diffs_mirror n : forall ev, diffs (map (fun x => n - x) (rev ev)) = rev (diffs ev).
Proof.
  induction ev as [|e ev IH]; [reflexivity|]. destruct ev as [|e' ev]; [reflexivity|].
  rewrite diffs_cons2.
  replace (map (fun x => n - x) (rev (e :: e' :: ev))) with (map (fun x => n - x) (rev ev) ++ [n - e'; n - e])
    by (cbn [rev]; rewrite <- app_assoc, map_app; reflexivity).
  rewrite diffs_snoc.
  replace (map (fun x => n - x) (rev ev) ++ [n - e']) with (map (fun x => n - x) (rev (e' :: ev)))
    by (cbn [rev]; rewrite map_app; reflexivity).
  rewrite IH. cbn [rev]. f_equal. f_equal. lia.
Qed.

Lemma diffs_length : forall ev, length (diffs ev) = pred (length ev).
Proof. induction ev as [|e ev IH]; [reflexivity|]. destruct ev as [|e' ev]; [reflexivity|]. rewrite diffs_cons2. cbn [length] in *. lia. Qed.

Theorem reverse_decode (ev : list Z) (vs : list A) : length ev = S (length vs) ->
  decode A (map (fun x => last ev 0 - x) (rev ev), rev vs) = rev (decode A (ev, vs)).
Proof.
  intros Hlen. unfold RLE.decode. cbn [fst snd]. rewrite diffs_mirror. apply spec_broadcast_rev.
  rewrite diffs_length. lia.
Qed.
End Rev.
Print Assumptions reverse_decode.
