From Coq Require Import ZifyBool.
From NPS Require Import ListAux PySlice NumpySem Scatter BuildIdx View Index Denote XorBroadcast RLE RLEProof RLEOps RaOps RLEWindowsVec SetItem DiffProof RSliceProof RSliceInputs RLEIndex SubRange StartEnd RLEWindows.
Open Scope Z_scope.

(* C15: the vector window code is the scalar window code row by row (so rl_windows_decode is about what the code does) *)
Section WV.
Variable A : Type.
Variable dflt : A.

(* a window of a 1-D array as ragged_slice cuts it = the plain slice, for non-negative bounds *)
Lemma spec_row_is_zslice {X} (l : list X) s e : 0 <= s -> 0 <= e -> spec_row X (l, (s, e)) = zslice_l l s e.
Proof.
  intros Hs He. unfold spec_row, t_row, t_start, t_end, zslice_l. cbn [fst snd]. replace (e <? 0) with false by lia.
  unfold ztake, zdrop. destruct (Z.le_gt_cases e (zlen l)) as [H|H].
  - rewrite Z.min_l by lia. f_equal. lia.
  - rewrite Z.min_r by lia. rewrite !firstn_all2; [reflexivity| |]; rewrite skipn_length; unfold zlen in *; lia.
Qed.

Lemma ssr_le_len l x : ssr l x <= zlen l.
Proof. induction l as [|y l IH]; [unfold ssr, zlen; cbn; lia|]. rewrite ssr_cons. unfold zlen in *. cbn [length]. destruct (y <=? x); lia. Qed.

(* the two index vectors the code hands to ragged_slice, as a list of (si, ei) pairs computed row by row *)
Definition idx_pair (E : list Z) (se : Z * Z) : Z * Z :=
  let si := ssr E (fst se) - 1 in (si, if snd se <=? fst se then si else ssl E (snd se)).

Lemma vec_indices (E : list Z) : forall ss es, length ss = length es ->
  let si := map (fun s => ssr E s - 1) ss in
  let ei := map2 (fun se si_ => if snd se <=? fst se then si_ else ssl E (snd se)) (combine ss es) si in
  combine si ei = map (idx_pair E) (combine ss es) /\ combine si (map (Z.add 1) ei) = map (fun se => (fst (idx_pair E se), 1 + snd (idx_pair E se))) (combine ss es)
  /\ length si = length ei.
Proof.
  induction ss as [|s ss IH]; intros [|e es] H; cbn in H; try discriminate; [repeat split|].
  cbn zeta in *. cbn [map combine map2 fst snd]. destruct (IH es ltac:(lia)) as (I1 & I2 & I3). unfold idx_pair at 1 3 4. cbn [fst snd].
  repeat split; [f_equal; exact I1|f_equal; exact I2|cbn [length]; f_equal; exact I3].
Qed.

Theorem start_to_end_vec_is_rows (e0 : Z) (ev : list Z) (vs : list A) (ss es : list Z) :
  length ev = length vs -> length ss = length es -> Forall (fun s => e0 <= s) ss ->
  start_to_end_vec (e0 :: ev, vs) ss es = Ok (rl_windows (e0 :: ev, vs) ss es).
Proof.
  intros Hlen Hl Hs. unfold start_to_end_vec. cbn [fst snd]. set (E := e0 :: ev).
  destruct (vec_indices E ss es Hl) as (V1 & V2 & V3). cbn zeta in V1, V2, V3.
  set (si := map (fun s => ssr E s - 1) ss) in *.
  set (ei := map2 (fun se si_ => if snd se <=? fst se then si_ else ssl E (snd se)) (combine ss es) si) in *.
  assert (HzE : zlen E = zlen vs + 1) by (unfold E, zlen; cbn [length]; lia).
  (* every index pair is a legal window of both arrays *)
  assert (Hp : forall se, In se (combine ss es) -> 0 <= fst (idx_pair E se) <= zlen vs /\ 0 <= snd (idx_pair E se)).
  { intros [s e] Hin. unfold idx_pair. cbn [fst snd].
    assert (e0 <= s) by (rewrite Forall_forall in Hs; apply Hs; eapply in_combine_l; exact Hin).
    assert (1 <= ssr E s) by (unfold E; rewrite ssr_cons; pose proof (ssr_nonneg ev s); replace (e0 <=? s) with true by lia; lia).
    pose proof (ssr_le_len E s). pose proof (ssl_nonneg E e). destruct (e <=? s); lia. }
  assert (Hw1 : Forall (within1 (zlen vs)) (combine si ei)).
  { rewrite V1. apply Forall_forall. intros p Hin. apply in_map_iff in Hin. destruct Hin as (se & <- & Hin). destruct (Hp se Hin). unfold within1. cbn [fst snd]. lia. }
  assert (Hw2 : Forall (within1 (zlen E)) (combine si (map (Z.add 1) ei))).
  { rewrite V2. apply Forall_forall. intros p Hin. apply in_map_iff in Hin. destruct Hin as (se & <- & Hin). destruct (Hp se Hin). unfold within1. cbn [fst snd]. lia. }
  rewrite (ragged_slice_1d_correct A dflt vs si ei V3 Hw1).
  rewrite (ragged_slice_1d_correct Z 0 E si (map (Z.add 1) ei) ltac:(rewrite map_length; exact V3) Hw2).
  unfold fr_rows, fr_of_rows. cbn [fst snd]. rewrite !(segments_concat_rows). rewrite V1, V2, !map_map. f_equal.
  unfold rl_windows. clear V1 V2 V3 Hw1 Hw2 si ei.
  revert es Hl Hp. induction ss as [|s ss IH]; intros [|e es] Hl Hp; cbn in Hl; try discriminate; [reflexivity|].
  cbn [combine map map2]. inversion Hs as [|? ? Hs0 Hs']; subst. f_equal.
  - destruct (Hp (s, e) (or_introl eq_refl)) as [Hp1 Hp2]. unfold idx_pair in *. cbn [fst snd] in *.
    rewrite (spec_row_is_zslice vs) by lia. rewrite (spec_row_is_zslice E) by lia.
    unfold start_to_end_v. cbn [fst snd]. fold E. cbv zeta.
    replace (1 + (if e <=? s then ssr E s - 1 else ssl E e)) with ((if e <=? s then ssr E s - 1 else ssl E e) + 1) by lia. reflexivity.
  - apply IH; [exact Hs'|lia|]. intros se Hin. apply Hp. now right.
Qed.
End WV.
Print Assumptions start_to_end_vec_is_rows.

(* with rl_windows_decode: what the vector code returns decodes, row by row, to the dense windows *)
Corollary start_to_end_vec_decode (A : Type) (dflt : A) (ev : list Z) (vs : list A) (ss es : list Z) :
  length ev = length vs -> strictly_increasing (0 :: ev) -> length ss = length es ->
  Forall (fun se => 0 <= fst se /\ (fst se < snd se -> snd se <= last (0 :: ev) 0)) (combine ss es) ->
  exists rows, start_to_end_vec (0 :: ev, vs) ss es = Ok rows /\
               map (decode A) rows = map2 (fun s e => ztake (e - s) (zdrop s (decode A (0 :: ev, vs)))) ss es.
Proof.
  intros Hlen Hsi Hl H. eexists. split.
  - apply (start_to_end_vec_is_rows A dflt 0 ev vs ss es Hlen Hl).
    apply Forall_forall. intros s Hin. rewrite Forall_forall in H.
    destruct (In_nth ss s 0 Hin) as (i & Hi & Hn). specialize (H (s, nth i es 0)). cbn [fst snd] in H. apply H.
    rewrite <- Hn. rewrite <- (combine_nth ss es i 0 0 Hl). apply nth_In. rewrite combine_length. lia.
  - apply (RLEWindows.rl_windows_decode A ev vs ss es Hlen Hsi H Hl).
Qed.

Example vec_windows_ex : start_to_end_vec ([0; 2; 3; 5], [7; 8; 9]) [1; 2; 0; 5] [1; 4; 5; 3]
  = Ok [([0], []); ([0; 1; 2], [8; 9]); ([0; 2; 3; 5], [7; 8; 9]); ([0], [])]. Proof. reflexivity. Qed.
