(* C07 — property theorems only: each restates the full statement and is closed by the lemma proved in Proofs/. *)
From Coq Require Import ZArith List Bool.
From NPS Require Import ListAux PySlice NumpySem Scatter BuildIdx XorBroadcast View Index Assign Reduce Scan RaOps Heap Hash HashRun BitArr RLE RLEOps RLE2d DataClass RowsSpec AssignSpec MapSpec Denote ScanProof AccumProof DiffProof SortProof BucketSort LexSort UniqueProof UniqueLens.
Import ListNotations.
Open Scope Z_scope.

Theorem C07_cumsum_correct :
  forall (G : Type) (gzero : G) (gadd gsub bxor : G -> G -> G),
       (forall a b c : G, gadd a (gadd b c) = gadd (gadd a b) c) ->
       (forall a : G, gadd gzero a = a) ->
       (forall a b : G, gsub (gadd a b) a = b) ->
       (forall a b c : G, bxor a (bxor b c) = bxor (bxor a b) c) ->
       (forall a b : G, bxor a b = bxor b a) ->
       (forall a : G, bxor a a = gzero) ->
       (forall a : G, bxor gzero a = a) ->
       forall R : list (list G),
       cumsum_model G gzero gadd gsub bxor (concat R) (map zlen R) = spec_cumsum G gzero gadd R.
Proof. exact cumsum_correct. Qed.
Print Assumptions C07_cumsum_correct.

Theorem C07_accumulate_correct :
  forall (G : Type) (gzero : G) (op inv0 inv1 bxor : G -> G -> G),
       (forall u v : G, inv1 u (inv0 v u) = v) ->
       (forall x y c : G, inv1 (op x y) c = op (inv1 x c) y) ->
       (forall a b c : G, bxor a (bxor b c) = bxor (bxor a b) c) ->
       (forall a b : G, bxor a b = bxor b a) ->
       (forall a : G, bxor a a = gzero) ->
       (forall a : G, bxor gzero a = a) ->
       forall R : list (list G),
       row_accumulate G gzero bxor op inv0 inv1 (concat R) (map zlen R) = spec_accumulate G op R.
Proof. exact accumulate_correct. Qed.
Print Assumptions C07_accumulate_correct.

Theorem C07_diff_correct :
  forall (n : nat) (R : list (list Z)),
       ra_diff (Z.of_nat n) (fr_of_rows R) = Ok (fr_of_rows (spec_diff (Z.of_nat n) R)).
Proof. exact diff_correct. Qed.
Print Assumptions C07_diff_correct.

Theorem C07_sort_buckets :
  forall (X : Type) (lo : Z) (n : nat) (l : list (Z * X)),
       Forall (fun q : Z * X => lo <= fst q < lo + Z.of_nat n) l -> stable_sort l = buckets X l lo n.
Proof. exact sort_buckets. Qed.
Print Assumptions C07_sort_buckets.

Theorem C07_two_pass_rows :
  forall (vlo : Z) (vn : nat) (R : list (list Z)),
       Forall (Forall (inb vlo vn)) R -> two_pass (labelled 0 R) = concat (map sortrow R).
Proof. exact two_pass_rows. Qed.
Print Assumptions C07_two_pass_rows.

Theorem C07_index_array_char :
  forall ls : list Z, all_nonneg ls -> index_array ls = lab_list 0 ls.
Proof. exact index_array_char. Qed.
Print Assumptions C07_index_array_char.

Theorem C07_sort_correct :
  forall R : list (list Z), ra_sort (fr_of_rows R) = Ok (fr_of_rows (spec_sort R)).
Proof. exact sort_correct. Qed.
Print Assumptions C07_sort_correct.

Theorem C07_unique_correct :
  forall R : list (list Z),
       ra_unique (fr_of_rows R) = Ok (fr_of_rows (fst (spec_unique R)), fr_of_rows (snd (spec_unique R))).
Proof. exact unique_correct. Qed.
Print Assumptions C07_unique_correct.
