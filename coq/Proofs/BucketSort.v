From Coq Require Import ZifyBool.
From NPS Require Import ListAux PySlice NumpySem RLEOps.
Open Scope Z_scope.

(* numpy's stable argsort (kind="mergesort") / lexsort, characterised: a stable sort by an integer key is the
   concatenation, in key order, of the sub-lists with each key (original order inside a key class). *)
Section Bucket.
Variable X : Type.
Notation item := (Z * X)%type.
Definition bucket (l : list item) (k : Z) : list item := filter (fun q => fst q =? k) l.
Definition buckets (l : list item) (lo : Z) (n : nat) : list item := flat_map (bucket l) (ap_nat lo 1 n).

Lemma insert_front (p : item) L : Forall (fun q => fst p <= fst q) L -> insert_stable p L = p :: L.
Proof. intros H. destruct L as [|q L]; [reflexivity|]. inversion H; subst. cbn [insert_stable]. now replace (fst p <=? fst q) with true by lia. Qed.
Lemma insert_skip (p : item) B R : Forall (fun q => fst q < fst p) B -> insert_stable p (B ++ R) = B ++ insert_stable p R.
Proof.
  induction 1 as [|q B Hq _ IH]; [reflexivity|]. cbn [app insert_stable]. replace (fst p <=? fst q) with false by lia. now rewrite IH.
Qed.

Lemma bucket_keys l k : Forall (fun q => fst q = k) (bucket l k).
Proof. apply Forall_forall. intros q Hq. apply filter_In in Hq as [_ Hq]. lia. Qed.
Lemma buckets_ge l : forall n lo, Forall (fun q => lo <= fst q) (buckets l lo n).
Proof.
  induction n as [|n IH]; intros lo; [constructor|]. unfold buckets. cbn [ap_nat flat_map]. apply Forall_app. split.
  - eapply Forall_impl; [|apply bucket_keys]. cbn; intros; lia.
  - eapply Forall_impl; [|apply (IH (lo + 1))]. cbn; intros; lia.
Qed.
Lemma buckets_other (p : item) l : forall n lo, fst p < lo -> buckets (p :: l) lo n = buckets l lo n.
Proof.
  induction n as [|n IH]; intros lo H; [reflexivity|]. unfold buckets in *. cbn [ap_nat flat_map]. rewrite IH by lia. f_equal.
  unfold bucket. cbn [filter]. now replace (fst p =? lo) with false by lia.
Qed.

Lemma insert_buckets (p : item) l : forall n lo, lo <= fst p < lo + Z.of_nat n ->
  insert_stable p (buckets l lo n) = buckets (p :: l) lo n.
Proof.
  induction n as [|n IH]; intros lo H; [lia|]. unfold buckets in *. cbn [ap_nat flat_map].
  destruct (Z.eq_dec (fst p) lo) as [E|E].
  - (* p opens its own bucket *)
    fold (buckets l (lo + 1) n). fold (buckets (p :: l) (lo + 1) n). rewrite buckets_other by lia.
    unfold bucket at 2. cbn [filter]. replace (fst p =? lo) with true by lia. cbn [app]. fold (bucket l lo).
    apply insert_front. apply Forall_app. split.
    + eapply Forall_impl; [|apply bucket_keys]. cbn; intros; lia.
    + eapply Forall_impl; [|apply (buckets_ge l n (lo + 1))]. cbn; intros; lia.
  - rewrite insert_skip by (eapply Forall_impl; [|apply bucket_keys]; cbn; intros; lia).
    rewrite IH by lia. f_equal. unfold bucket. cbn [filter]. now replace (fst p =? lo) with false by lia.
Qed.

Lemma buckets_nil : forall n lo, buckets [] lo n = [].
Proof. induction n as [|n IH]; intros lo; [reflexivity|]. unfold buckets in *. cbn [ap_nat flat_map]. now rewrite IH. Qed.

Theorem sort_buckets lo n : forall l, Forall (fun q => lo <= fst q < lo + Z.of_nat n) l -> stable_sort l = buckets l lo n.
Proof.
  induction l as [|p l IH]; intros H; [now rewrite buckets_nil|]. inversion H as [|? ? Hp Hl]; subst.
  unfold stable_sort in *. cbn [fold_right]. rewrite IH by exact Hl. now apply insert_buckets.
Qed.
End Bucket.
Print Assumptions sort_buckets.
