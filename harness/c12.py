"""C12 — Counter totals equal the number of occurrences seen so far (histories)."""
from harness import fam_hash
TRUSTED = fam_hash.TRUSTED
ASSUME = ["keys are unique (the constructor's precondition) and |key| <= 2**62"]
RULE = "Counter histories; " + fam_hash.RULE
def run(R, tier, rng): fam_hash.run_family(R, tier, rng, counter=True)
