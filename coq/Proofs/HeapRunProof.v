From NPS Require Import ListAux PySlice NumpySem SelRows Heap HeapRun HeapProof.
From Coq Require Import List Arith Bool Lia.
Import ListNotations.
Close Scope Z_scope.
Open Scope nat_scope.

(* C10: the abstract theorems of HeapProof.v instantiated at the concrete selector grammar of the histories that are run
   against the implementation, and the boolean guard computed by the oracle shown sound and complete. *)

(* the concrete selections are natural in the element type: the Section hypothesis of HeapProof.v is discharged *)
Lemma apply_hsel_natural : forall X Y (f : X -> Y) (s : hsel) (r : list (list X)),
  apply_hsel Y s (map (map f) r) = map (map f) (apply_hsel X s r).
Proof.
  intros X Y f [rs cs] r. unfold apply_hsel. rewrite (sel_rows_map (map f) rs r).
  destruct (sel_rows rs r) as [rows|]; cbn [rmap]; [|reflexivity].
  destruct cs as [sl|]; [|reflexivity].
  rewrite !map_map. apply map_ext. intros row. apply slice_list_map.
Qed.

Section Safe.
Variable A : Type.
Variable dflt : A.
Variable sel : Type.
Variable apply_sel : forall X : Type, sel -> list (list X) -> list (list X).

Lemma combine_seq_nth {X} (l : list X) : forall from y b, In (y, b) (combine (seq from (length l)) l) <-> (from <= y /\ nth_error l (y - from) = Some b).
Proof.
  induction l as [|x l IH]; intros from y b; cbn [length seq combine].
  - split; [intros []|]. intros [_ H]. destruct (y - from); discriminate.
  - split.
    + intros [E|H]; [inversion E; subst; split; [lia|]; now rewrite Nat.sub_diag|].
      apply IH in H as [Hle Hn]. split; [lia|]. replace (y - from) with (S (y - S from)) by lia. exact Hn.
    + intros [Hle Hn]. destruct (Nat.eq_dec y from) as [->|Hne].
      * left. rewrite Nat.sub_diag in Hn. cbn in Hn. now inversion Hn.
      * right. apply IH. split; [lia|]. replace (y - from) with (S (y - S from)) in Hn by lia. exact Hn.
Qed.

Lemma unsharedb_iff (h : heap A) x : unsharedb A h x = true <-> unshared A h x.
Proof.
  unfold unsharedb, unshared. destruct (get_arr A h x) as [a|] eqn:E.
  - rewrite forallb_forall. split.
    + intros H a' Ha y b Hy Hb. inversion Ha; subst a'.
      assert (Hin : In (y, b) (combine (seq 0 (length (arrs A h))) (arrs A h))).
      { apply combine_seq_nth. split; [lia|]. rewrite Nat.sub_0_r. exact Hb. }
      apply H in Hin. cbn [fst snd] in Hin. apply orb_true_iff in Hin as [Hin|Hin].
      * apply Nat.eqb_eq in Hin. contradiction.
      * apply negb_true_iff, Nat.eqb_neq in Hin. exact Hin.
    + intros H [y b] Hin. apply combine_seq_nth in Hin as [_ Hn]. rewrite Nat.sub_0_r in Hn. cbn [fst snd].
      destruct (Nat.eq_dec y x) as [->|Hne]; [rewrite Nat.eqb_refl; reflexivity|].
      apply orb_true_iff. right. apply negb_true_iff, Nat.eqb_neq. apply (H a eq_refl y b Hne Hn).
  - split; [intros _ a Ha; discriminate|reflexivity].
Qed.

Lemma safe_opb_iff h o : safe_opb A dflt sel h o = true <-> safe_op A dflt sel h o.
Proof. destruct o; cbn [safe_opb safe_op]; try (split; auto; fail). apply unsharedb_iff. Qed.

Theorem safe_runb_iff : forall ops h, safe_runb A dflt sel apply_sel h ops = true <-> safe_run A dflt sel apply_sel h ops.
Proof.
  induction ops as [|o ops IH]; intros h; cbn [safe_runb safe_run]; [split; auto|].
  rewrite andb_true_iff, safe_opb_iff, IH. reflexivity.
Qed.
End Safe.

(* the statement for the histories the oracle runs: when the oracle reports both histories safe, the inserted read changes no output *)
Theorem C10_partial_concrete (A : Type) (dflt : A) (ops : list (op A hsel)) (i x : nat) : i <= length ops ->
  safe_runb A dflt hsel apply_hsel (empty_heap A) ops = true ->
  safe_runb A dflt hsel apply_hsel (empty_heap A) (insert_read A hsel i x ops) = true ->
  let out := run A dflt hsel apply_hsel (empty_heap A) ops in
  let out' := run A dflt hsel apply_hsel (empty_heap A) (insert_read A hsel i x ops) in
  firstn i out' = firstn i out /\ skipn (S i) out' = skipn i out.
Proof.
  intros Hi H1 H2. apply (C10_partial A dflt hsel apply_hsel apply_hsel_natural ops i x Hi); apply (proj1 (safe_runb_iff A dflt hsel apply_hsel _ _)); assumption.
Qed.

(* and on safe histories the heap machine computes exactly what value semantics computes *)
Theorem heap_run_is_value_semantics (A : Type) (dflt : A) (ops : list (op A hsel)) :
  safe_runb A dflt hsel apply_hsel (empty_heap A) ops = true ->
  run A dflt hsel apply_hsel (empty_heap A) ops = vrun A dflt hsel apply_hsel [] ops.
Proof.
  intros H. apply (run_sim A dflt hsel apply_hsel apply_hsel_natural ops (empty_heap A) []); [apply Inv_empty|apply (proj1 (safe_runb_iff A dflt hsel apply_hsel ops (empty_heap A))); exact H].
Qed.

(* the full statement of C10 (without the guard) is FALSE of the faithful model: inserting one read changes a later output.
   The same history on the real code gives [[99,99],[5]] without the read and [[3,4],[5]] with it (known finding K1). *)
Definition k1_history : list (op Z hsel) :=
  [ OBuild Z hsel [[0;1;2];[3;4];[5];[6;7]]%Z ;
    OSelect Z hsel 0 (HSel (RSlice {| sl_start := Some 1%Z ; sl_stop := Some 3%Z ; sl_step := None |}) None) ;
    OAssign Z hsel 0 (HSel (RList [1%Z]) None) 99%Z ;
    ORead Z hsel 1 ].
Theorem C10_refuted :
  exists (ops : list (op Z hsel)) (i x : nat), i <= length ops /\
    skipn (S i) (run Z 0%Z hsel apply_hsel (empty_heap Z) (insert_read Z hsel i x ops)) <> skipn i (run Z 0%Z hsel apply_hsel (empty_heap Z) ops).
Proof.
  exists k1_history, 2, 1. split; [cbn; lia|]. vm_compute. discriminate.
Qed.
(* the witness is outside the guard, as it must be *)
Example k1_history_unsafe : safe_runb Z 0%Z hsel apply_hsel (empty_heap Z) k1_history = false.
Proof. vm_compute. reflexivity. Qed.
(* non-vacuity of C10_partial_concrete: a history with selections, a read and an assignment that is safe with and without the inserted read *)
Example safe_history_exists :
  let ops := [ OBuild Z hsel [[0;1;2];[3;4]]%Z ; OSelect Z hsel 0 (HSel RAll None) ; ORead Z hsel 1 ; OAssign Z hsel 0 (HSel (RList [0%Z]) None) 7%Z ; ORead Z hsel 0 ] in
  safe_runb Z 0%Z hsel apply_hsel (empty_heap Z) ops = true /\ safe_runb Z 0%Z hsel apply_hsel (empty_heap Z) (insert_read Z hsel 1 0 ops) = true.
Proof. vm_compute. split; reflexivity. Qed.
