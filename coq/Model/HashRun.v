From NPS Require Import ListAux PySlice NumpySem BuildIdx RLE Hash MapSpec.
Open Scope Z_scope.
(* histories over a table of integers: the same operation list is run on the model and on the spec *)
Inductive hop :=
| HGet (ks : list Z) | HSet (ks vs : list Z) | HSetS (ks : list Z) (v : Z) | HFill (v : Z)
| HContains (ks : list Z) | HCount (samples : list Z) | HItems.
Inductive hout := OVals (r : res (list Z)) | OBools (l : list bool) | ODone (ok : bool) | OItems (l : list (Z * Z)).

Definition hstep (t : table Z) (o : hop) : table Z * hout :=
  match o with
  | HGet ks => (t, OVals (getv Z 0 t ks))
  | HSet ks vs => match setv Z t ks vs with Ok t' => (t', ODone true) | Refused => (t, ODone false) end
  | HSetS ks v => match set_scalar Z t ks v with Ok t' => (t', ODone true) | Refused => (t, ODone false) end
  | HFill v => (fill Z t v, ODone true)
  | HContains ks => (t, OBools (contains Z t ks))
  | HCount s => (count t s, ODone true)
  | HItems => (t, OItems (items Z 0 t))
  end.
Fixpoint hrun (t : table Z) (ops : list hop) : list hout :=
  match ops with [] => [] | o :: r => let '(t', out) := hstep t o in out :: hrun t' r end.

Definition sstep (d : assoc Z) (o : hop) : assoc Z * hout :=
  match o with
  | HGet ks => (d, OVals (spec_getv Z d ks))
  | HSet ks vs => match spec_setv Z d ks vs with Ok d' => (d', ODone true) | Refused => (d, ODone false) end
  | HSetS ks v => match spec_setv Z d ks (map (fun _ => v) ks) with Ok d' => (d', ODone true) | Refused => (d, ODone false) end
  | HFill v => (map (fun kv => (fst kv, v)) d, ODone true)
  | HContains ks => (d, OBools (map (amem Z d) ks))
  | HCount s => (spec_count d s, ODone true)
  | HItems => (d, OItems d)
  end.
Fixpoint srun (d : assoc Z) (ops : list hop) : list hout :=
  match ops with [] => [] | o :: r => let '(d', out) := sstep d o in out :: srun d' r end.

Definition hash_model (keys vals : list Z) (scalar : option Z) (m : option Z) (ops : list hop) : res (list hout) :=
  let m' := match m with Some x => x | None => default_mod (zlen keys) end in
  rmap (fun t => hrun t ops) (match scalar with Some v => mk_scalar Z keys v m' | None => mk Z keys vals m' end).
Definition hash_spec (keys vals : list Z) (scalar : option Z) (ops : list hop) : list hout :=
  srun (match scalar with Some v => map (fun k => (k, v)) keys | None => combine keys vals end) ops.

(* two tables compared with == : the code's answer (Hash.tbl_eq) and the answer on the dictionaries *)
Definition opt_eqb (a b : option Z) : bool := match a, b with Some x, Some y => x =? y | None, None => true | _, _ => false end.
Definition dict_eqb (d1 d2 : assoc Z) : bool := forallb (fun k => opt_eqb (aget Z d1 k) (aget Z d2 k)) (map fst d1 ++ map fst d2).
Definition hash_eq (k1 v1 : list Z) (s1 m1 : option Z) (k2 v2 : list Z) (s2 m2 : option Z) : option (bool * bool) :=
  let md (m : option Z) (k : list Z) := match m with Some x => x | None => default_mod (zlen k) end in
  let tb k v s m := match s with Some c => mk_scalar Z k c (md m k) | None => mk Z k v (md m k) end in
  let dc (k v : list Z) (s : option Z) := match s with Some c => map (fun x => (x, c)) k | None => combine k v end in
  match tb k1 v1 s1 m1, tb k2 v2 s2 m2 with
  | Ok t1, Ok t2 => Some (tbl_eq Z Z.eqb 0 t1 t2, dict_eqb (dc k1 v1 s1) (dc k2 v2 s2))
  | _, _ => None
  end.

(* two tables added with + : the code's answer (Hash.tbl_add: refused unless the key arrays coincide; items of the sum otherwise) and the
   key-wise sum of the two dictionaries *)
Definition hash_add (k1 v1 : list Z) (s1 : option Z) (k2 v2 : list Z) (s2 : option Z) (m : option Z) : option (res (list (Z * Z)) * list (Z * Z)) :=
  let md (k : list Z) := match m with Some x => x | None => default_mod (zlen k) end in
  let tb k v s := match s with Some c => mk_scalar Z k c (md k) | None => mk Z k v (md k) end in
  let dc (k v : list Z) (s : option Z) := match s with Some c => map (fun x => (x, c)) k | None => combine k v end in
  match tb k1 v1 s1, tb k2 v2 s2 with
  | Ok t1, Ok t2 => Some (rmap (items Z 0) (tbl_add Z Z.add t1 t2),
                          map (fun kv => (fst kv, snd kv + match aget Z (dc k2 v2 s2) (fst kv) with Some v => v | None => 0 end)) (dc k1 v1 s1))
  | _, _ => None
  end.
