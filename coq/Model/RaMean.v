From NPS Require Import ListAux NumpySem BuildIdx RaOps.
Open Scope Z_scope.

(* RaggedArray.mean(axis=0) (raggedarray/__init__.py): `s = self.sum(axis=0); lengths = self.col_counts(); return s / lengths` -- the element-wise
   quotient of the two column arrays; the division itself (float64, after `astype(float)`) is a parameter *)
Definition ra_col_mean {C} (dv : Z -> Z -> C) (a : flat_ra Z) : list C := map2 dv (ra_colsum a) (ra_col_counts (snd a)).
