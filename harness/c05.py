"""C05 — row reductions and argmax/argmin: correspondence of the implementation with the Coq models."""
from harness import fam_raops, fam_ra2
TRUSTED = fam_raops.TRUSTED
ASSUME = ["integer element values (element operations and result dtypes are numpy's own; floats only with exactly representable results)"]
RULE = "operations: reduce argmax argmin rowmean; " + fam_raops.RULE
def run(R, tier, rng):
    fam_raops.run_family(R, tier, rng, set("reduce argmax argmin rowmean".split()))
    fam_ra2.run_c05(R, tier, rng)
    fam_ra2.both_variants(lambda R_, t_, r_: fam_ra2.run_sequences(R_, t_, r_, 'reduce'))(R, tier, rng)
