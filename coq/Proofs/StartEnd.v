From Coq Require Import ZifyBool.
From NPS Require Import ListAux PySlice NumpySem Scatter BuildIdx XorBroadcast RLE RLEProof RLEOps CanonProof RLEIndex SubRange.
Open Scope Z_scope.

(* C15: RunLengthArray._start_to_end (runlengtharray.py L549-563): the runs cut to the window [s, e) *)
Section SE.
Variable A : Type.
Notation decode := (decode A).

(* ---- small list facts ---- *)
Lemma diffs_shift t : forall ev, diffs (map (fun x => x - t) ev) = diffs ev.
Proof.
  induction ev as [|a ev IH]; [reflexivity|]. destruct ev as [|b ev]; [reflexivity|].
  cbn [map] in *. rewrite !diffs_cons2, IH. f_equal. lia.
Qed.
Lemma decode_shift t ev vs : decode (map (fun x => x - t) ev, vs) = decode (ev, vs).
Proof. unfold RLE.decode. cbn [fst snd]. now rewrite diffs_shift. Qed.

Lemma firstn_repeat_le {X} (x : X) n m : (n <= m)%nat -> firstn n (repeat x m) = repeat x n.
Proof. revert m; induction n as [|n IH]; intros m H; [reflexivity|]. destruct m; [lia|]. cbn. f_equal. apply IH. lia. Qed.
Lemma skipn_repeat {X} (x : X) n m : skipn n (repeat x m) = repeat x (m - n).
Proof. revert m; induction n as [|n IH]; intros m; [now rewrite Nat.sub_0_r|]. destruct m; [reflexivity|]. cbn. apply IH. Qed.
Lemma firstn_snoc {X} (d : X) : forall (l : list X) n, (n < length l)%nat -> firstn (S n) l = firstn n l ++ [nth n l d].
Proof. induction l as [|x l IH]; intros n H; [cbn in H; lia|]. destruct n; [reflexivity|]. cbn [firstn nth app]. f_equal. apply IH. cbn in H. lia. Qed.

Lemma si_tail a l : strictly_increasing (a :: l) -> strictly_increasing l.
Proof. destruct l; [intros; exact I|intros [_ H]; exact H]. Qed.
Lemma si_last_ge : forall l a, strictly_increasing (a :: l) -> a <= last (a :: l) 0.
Proof.
  induction l as [|b l IH]; intros a H; [cbn; lia|]. destruct H as [H1 H2]. specialize (IH b H2).
  change (last (a :: b :: l) 0) with (last (b :: l) 0). lia.
Qed.
Lemma filter_lt_all_ge e l : Forall (fun y => e <= y) l -> filter (fun y => y <? e) l = [].
Proof. induction 1 as [|y l Hy _ IH]; [reflexivity|]. cbn [filter]. replace (y <? e) with false by lia. exact IH. Qed.
Lemma si_all_ge a l e : strictly_increasing (a :: l) -> e <= a -> Forall (fun y => e <= y) l.
Proof. intros H He. eapply Forall_impl; [|apply (si_all_gt l a H)]. cbn; intros; lia. Qed.

(* on an increasing list the elements below e form a prefix *)
Lemma sorted_prefix e : forall l, strictly_increasing l -> firstn (length (filter (fun y => y <? e) l)) l = filter (fun y => y <? e) l.
Proof.
  induction l as [|a l IH]; intros H; [reflexivity|]. cbn [filter]. destruct (a <? e) eqn:E.
  - cbn [length firstn]. f_equal. apply IH. now apply si_tail in H.
  - rewrite (filter_lt_all_ge e l) by (apply (si_all_ge a l e H); lia). reflexivity.
Qed.
Lemma below_count_lt e : forall l a, strictly_increasing (a :: l) -> e <= last (a :: l) 0 ->
  (length (filter (fun y => (y <? e)%Z) (a :: l)) < length (a :: l))%nat.
Proof.
  induction l as [|b l IH]; intros a H He.
  - cbn [last] in He. cbn [filter]. replace (a <? e) with false by lia. cbn. lia.
  - destruct H as [H1 H2]. change (last (a :: b :: l) 0) with (last (b :: l) 0) in He. specialize (IH b H2 He).
    cbn [filter] in *. destruct (a <? e); cbn [length] in *; [lia|].
    pose proof (filter_length_le' (fun y => y <? e) (b :: l)). cbn [filter length] in *. lia.
Qed.

(* ---- cutting the tail: keep the boundaries below e, close with e ---- *)
Lemma ztake_cons {X} (x : X) l n : 0 <= n -> ztake (1 + n) (x :: l) = x :: ztake n l.
Proof. intros H. unfold ztake. replace (Z.to_nat (1 + n)) with (S (Z.to_nat n)) by lia. reflexivity. Qed.
Lemma zdrop_cons {X} (x : X) l n : 0 <= n -> zdrop (1 + n) (x :: l) = zdrop n l.
Proof. intros H. unfold zdrop. replace (Z.to_nat (1 + n)) with (S (Z.to_nat n)) by lia. reflexivity. Qed.

Lemma trunc_decode e : forall B (V : list A) b0, length B = length V -> strictly_increasing (b0 :: B) -> b0 < e -> e <= last (b0 :: B) 0 ->
  decode (b0 :: filter (fun y => y <? e) B ++ [e], ztake (1 + zlen (filter (fun y => y <? e) B)) V)
  = ztake (e - b0) (decode (b0 :: B, V)).
Proof.
  induction B as [|b1 B IH]; intros V b0 Hlen Hsi Hlt Hle; [cbn [last] in Hle; lia|].
  destruct V as [|v V]; [discriminate|]. injection Hlen as Hlen. pose proof Hsi as [H01 Hsi'].
  change (last (b0 :: b1 :: B) 0) with (last (b1 :: B) 0) in Hle.
  rewrite (decode_cons2 A b0 b1 B v V). cbn [filter]. destruct (b1 <? e) eqn:E.
  - cbn [app]. replace (zlen (b1 :: filter (fun y => y <? e) B)) with (1 + zlen (filter (fun y => y <? e) B)) by (unfold zlen; cbn [length]; lia).
    rewrite ztake_cons by (unfold zlen; lia). rewrite (decode_cons2 A b0 b1). rewrite IH by (assumption || lia).
    unfold ztake. rewrite firstn_app, List.repeat_length. rewrite (@firstn_all2 _ (Z.to_nat (e - b0)) (repeat v (Z.to_nat (b1 - b0)))) by (rewrite List.repeat_length; lia). f_equal. f_equal. lia.
  - rewrite (filter_lt_all_ge e B) by (apply (si_all_ge b1 B e Hsi'); lia). cbn [app]. change (zlen (@nil Z)) with 0.
    rewrite ztake_cons by lia. unfold ztake at 1. cbn [Z.to_nat firstn].
    rewrite (decode_cons2 A b0 e [] v []). unfold RLE.decode at 1. cbn [fst snd]. cbn. rewrite app_nil_r.
    unfold ztake. rewrite firstn_app, List.repeat_length. replace (Z.to_nat (e - b0) - Z.to_nat (b1 - b0))%nat with 0%nat by lia.
    cbn [firstn]. rewrite app_nil_r. symmetry. apply firstn_repeat_le. lia.
Qed.

(* ---- unfolding the implementation on the first run ---- *)
Lemma ssr_cons a l x : ssr (a :: l) x = (if a <=? x then 1 else 0) + ssr l x.
Proof. unfold ssr. cbn [filter]. destruct (a <=? x); unfold zlen; cbn [length]; lia. Qed.
Lemma ssl_cons a l x : ssl (a :: l) x = (if a <? x then 1 else 0) + ssl l x.
Proof. unfold ssl. cbn [filter]. destruct (a <? x); unfold zlen; cbn [length]; lia. Qed.
Lemma ssr_nonneg l x : 0 <= ssr l x. Proof. unfold ssr, zlen. lia. Qed.
Lemma ssl_nonneg l x : 0 <= ssl l x. Proof. unfold ssl, zlen. lia. Qed.
Lemma zslice_cons {X} (x : X) l i j : 0 <= i -> zslice_l (x :: l) (1 + i) (1 + j) = zslice_l l i j.
Proof. intros H. unfold zslice_l. rewrite zdrop_cons by exact H. f_equal. lia. Qed.

Lemma start_to_end_skip e0 e1 ev (v : A) vs s e : e0 < e1 -> e1 <= s -> s < e ->
  start_to_end A (e0 :: e1 :: ev, v :: vs) s e = start_to_end A (e1 :: ev, vs) s e.
Proof.
  intros H01 H1s Hse. unfold start_to_end. cbn [fst snd].
  rewrite (ssr_cons e0), (ssl_cons e0). replace (e0 <=? s) with true by lia. replace (e0 <? e) with true by lia.
  pose proof (ssr_nonneg ev s). pose proof (ssl_nonneg (e1 :: ev) e).
  assert (Hge : 1 <= ssr (e1 :: ev) s) by (rewrite ssr_cons; replace (e1 <=? s) with true by lia; lia).
  replace (1 + ssr (e1 :: ev) s - 1) with (1 + (ssr (e1 :: ev) s - 1)) by lia.
  rewrite zslice_cons by lia. replace (1 + ssl (e1 :: ev) e + 1) with (1 + (ssl (e1 :: ev) e + 1)) by lia.
  rewrite zslice_cons by lia. reflexivity.
Qed.

Lemma start_to_end_first e0 B (V : list A) s e : strictly_increasing (e0 :: B) -> e0 <= s -> Forall (fun y => s < y) B ->
  s < e -> e <= last (e0 :: B) 0 -> B <> [] ->
  start_to_end A (e0 :: B, V) s e
  = (0 :: map (fun x => x - s) (filter (fun y => y <? e) B) ++ [e - s], ztake (1 + zlen (filter (fun y => y <? e) B)) V).
Proof.
  intros Hsi H0s Hgt Hse Hle Hne. unfold start_to_end. cbn [fst snd].
  rewrite ssr_cons, ssl_cons. replace (e0 <=? s) with true by lia. replace (e0 <? e) with true by lia.
  assert (Hz : ssr B s = 0) by (unfold ssr; now rewrite filter_le_all_gt).
  rewrite Hz. replace (1 + 0 - 1) with 0 by lia.
  set (F := filter (fun y => y <? e) B). unfold ssl. fold F.
  f_equal.
  - (* events *)
    unfold zslice_l. replace (1 + zlen F + 1 - 0) with (1 + (1 + zlen F)) by lia. unfold zdrop. cbn [Z.to_nat skipn].
    rewrite ztake_cons by (unfold zlen; lia). cbn [map].
    destruct B as [|b1 B']; [congruence|]. pose proof (si_tail _ _ Hsi) as HsiB.
    assert (HleB : e <= last (b1 :: B') 0) by exact Hle.
    pose proof (below_count_lt e B' b1 HsiB HleB) as Hcnt. fold F in Hcnt.
    unfold ztake. replace (Z.to_nat (1 + zlen F)) with (S (length F)) by (unfold zlen; lia).
    rewrite (firstn_snoc 0) by exact Hcnt. unfold F at 1. rewrite sorted_prefix by exact HsiB. fold F.
    rewrite map_app. cbn [map]. unfold set_last.
    change (0 :: map (fun x => x - s) F ++ [nth (length F) (b1 :: B') 0 - s]) with ((0 :: map (fun x => x - s) F) ++ [nth (length F) (b1 :: B') 0 - s]).
    destruct ((0 :: map (fun x : Z => x - s) F) ++ [nth (length F) (b1 :: B') 0 - s]) eqn:El; [destruct F; discriminate|].
    rewrite <- El. rewrite removelast_last. reflexivity.
  - unfold zslice_l. unfold zdrop. cbn [Z.to_nat skipn]. f_equal. lia.
Qed.

(* ---- the window of the decoded array ---- *)
Theorem start_to_end_decode : forall ev (vs : list A) e0 s e, length ev = length vs -> strictly_increasing (e0 :: ev) ->
  e0 <= s -> s < e -> e <= last (e0 :: ev) 0 ->
  decode (start_to_end A (e0 :: ev, vs) s e) = ztake (e - s) (zdrop (s - e0) (decode (e0 :: ev, vs))).
Proof.
  induction ev as [|e1 ev IH]; intros vs e0 s e Hlen Hsi H0s Hse Hle; [cbn [last] in Hle; lia|].
  destruct vs as [|v vs]; [discriminate|]. injection Hlen as Hlen. pose proof Hsi as [H01 Hsi'].
  change (last (e0 :: e1 :: ev) 0) with (last (e1 :: ev) 0) in Hle.
  rewrite (decode_cons2 A e0 e1 ev v vs).
  destruct (Z.le_gt_cases e1 s) as [H1s|Hs1].
  - rewrite start_to_end_skip by lia. rewrite IH by (assumption || lia). f_equal.
    unfold zdrop. rewrite skipn_app, List.repeat_length. rewrite (@skipn_all2 _ (Z.to_nat (s - e0)) (repeat v (Z.to_nat (e1 - e0)))) by (rewrite List.repeat_length; lia). cbn [app]. f_equal. lia.
  - rewrite start_to_end_first; [|exact Hsi|exact H0s| |exact Hse|exact Hle|discriminate].
    2:{ constructor; [lia|]. eapply Forall_impl; [|apply (si_all_gt ev e1 Hsi')]. cbn; intros; lia. }
    assert (Eshift : (0 :: map (fun x => x - s) (filter (fun y => y <? e) (e1 :: ev)) ++ [e - s])
                     = map (fun x => x - s) (s :: filter (fun y => y <? e) (e1 :: ev) ++ [e])).
    { cbn [map]. rewrite map_app. cbn [map]. f_equal. lia. }
    rewrite Eshift, decode_shift.
    rewrite trunc_decode; [|cbn [length]; lia|split; [lia|exact Hsi']|exact Hse|exact Hle].
    f_equal. rewrite (decode_cons2 A s e1 ev v vs).
    unfold zdrop. rewrite skipn_app, List.repeat_length, skipn_repeat.
    replace (Z.to_nat (s - e0) - Z.to_nat (e1 - e0))%nat with 0%nat by lia. cbn [skipn]. f_equal. f_equal. lia.
Qed.

(* ---- the result is again a well-formed boundary list ---- *)
Lemma si_cons a l : Forall (fun y => a < y) l -> strictly_increasing l -> strictly_increasing (a :: l).
Proof. intros Hf Hs. destruct l as [|b l]; [exact I|]. inversion Hf; subst. split; assumption. Qed.
Lemma si_snoc y : forall l, strictly_increasing l -> Forall (fun x => x < y) l -> strictly_increasing (l ++ [y]).
Proof.
  induction l as [|a l IH]; intros Hs Hf; [exact I|]. inversion Hf as [|? ? Ha Hl]; subst. cbn [app].
  apply si_cons; [|apply IH; [now apply si_tail in Hs|exact Hl]].
  apply Forall_app. split; [now apply si_all_gt|constructor; [exact Ha|constructor]].
Qed.
Lemma si_filter (f : Z -> bool) : forall l, strictly_increasing l -> strictly_increasing (filter f l).
Proof.
  induction l as [|a l IH]; intros Hs; [exact I|]. cbn [filter]. pose proof (IH (si_tail _ _ Hs)) as Hf. destruct (f a); [|exact Hf].
  apply si_cons; [|exact Hf]. pose proof (si_all_gt l a Hs) as Hg. rewrite Forall_forall in *. intros y Hy. apply filter_In in Hy as [Hy _]. now apply Hg.
Qed.
Lemma si_map_shift t : forall l, strictly_increasing l -> strictly_increasing (map (fun x => x - t) l).
Proof.
  induction l as [|a l IH]; intros Hs; [exact I|]. destruct l as [|b l]; [exact I|]. destruct Hs as [H1 H2].
  cbn [map] in *. split; [lia|]. now apply IH.
Qed.
Lemma last_snoc0 (l : list Z) y : last (l ++ [y]) 0 = y. Proof. apply last_last. Qed.

Definition shape_ok (r : rla A) (n : Z) : Prop :=
  hd (-1) (fst r) = 0 /\ strictly_increasing (fst r) /\ length (fst r) = S (length (snd r)) /\ last (fst r) 0 = n /\ snd r <> [].

Theorem start_to_end_shape : forall ev (vs : list A) e0 s e, length ev = length vs -> strictly_increasing (e0 :: ev) ->
  e0 <= s -> s < e -> e <= last (e0 :: ev) 0 -> shape_ok (start_to_end A (e0 :: ev, vs) s e) (e - s).
Proof.
  induction ev as [|e1 ev IH]; intros vs e0 s e Hlen Hsi H0s Hse Hle; [cbn [last] in Hle; lia|].
  destruct vs as [|v vs]; [discriminate|]. injection Hlen as Hlen. pose proof Hsi as [H01 Hsi'].
  change (last (e0 :: e1 :: ev) 0) with (last (e1 :: ev) 0) in Hle.
  destruct (Z.le_gt_cases e1 s) as [H1s|Hs1].
  - rewrite start_to_end_skip by lia. apply IH; assumption || lia.
  - assert (Hgt : Forall (fun y => s < y) (e1 :: ev)).
    { constructor; [lia|]. eapply Forall_impl; [|apply (si_all_gt ev e1 Hsi')]. cbn; intros; lia. }
    rewrite start_to_end_first; [|exact Hsi|exact H0s|exact Hgt|exact Hse|exact Hle|discriminate].
    set (F := filter (fun y => y <? e) (e1 :: ev)).
    assert (HF : Forall (fun y => s < y < e) F).
    { apply Forall_forall. intros y Hy. apply filter_In in Hy as [Hy1 Hy2]. rewrite Forall_forall in Hgt. specialize (Hgt y Hy1). lia. }
    pose proof (below_count_lt e ev e1 Hsi' Hle) as Hcnt. fold F in Hcnt.
    unfold shape_ok. cbn [fst snd hd]. repeat split.
    + change (0 :: map (fun x => x - s) F ++ [e - s]) with ((0 :: map (fun x => x - s) F) ++ [e - s]).
      apply si_snoc.
      * apply si_cons; [|apply si_map_shift, si_filter, Hsi'].
        apply Forall_forall. intros y Hy. apply in_map_iff in Hy as (x & <- & Hx). rewrite Forall_forall in HF. specialize (HF x Hx). lia.
      * constructor; [lia|]. apply Forall_forall. intros y Hy. apply in_map_iff in Hy as (x & <- & Hx). rewrite Forall_forall in HF. specialize (HF x Hx). lia.
    + cbn [length]. rewrite app_length, map_length. cbn [length]. unfold ztake. rewrite firstn_length. cbn [length] in *. unfold zlen. lia.
    + change (0 :: map (fun x => x - s) F ++ [e - s]) with ((0 :: map (fun x => x - s) F) ++ [e - s]). apply last_snoc0.
    + rewrite ztake_cons by (unfold zlen; lia). discriminate.
Qed.
End SE.
Print Assumptions start_to_end_decode.
Print Assumptions start_to_end_shape.
