#!/bin/sh
# run every check of MANIFEST.json (quick by default) a few at a time; prints one line per check
cd "$(dirname "$0")/.."
TIER=${1:-quick}; PAR=${2:-6}
mkdir -p build/runall
ls harness/c[0-9][0-9].py | sed 's/.*\/c\([0-9]*\).py/C\1/' | xargs -P "$PAR" -I{} sh -c 'start=$(date +%s); ./check {} --tier '"$TIER"' > build/runall/{}.out 2>&1; rc=$?; echo "{} rc=$rc $(( $(date +%s) - start ))s $(grep -c "^VIOLATION" build/runall/{}.out) violations $(grep -c "^KNOWN-FINDING" build/runall/{}.out) known"'
