From Coq Require Import ZifyBool.
From NPS Require Import ListAux PySlice NumpySem Scatter BuildIdx SliceAP XorProof Denote RLE RLEOps RaOps SetItem BinaryProof ColProof RLEIndex.
Open Scope Z_scope.

(* C09: column sums — the column index of every flat position (unravel_multi_index) and bincount with weights *)

(* ---- the column index of every flat position ---- *)
Lemma ssr_cons' a l x : ssr (a :: l) x = (if a <=? x then 1 else 0) + ssr l x.
Proof. unfold ssr. cbn [filter]. destruct (a <=? x); unfold zlen; cbn [length]; lia. Qed.

Lemma excl_from_ge : forall ls acc, all_nonneg ls -> Forall (fun s => acc <= s) (excl_from acc ls).
Proof.
  induction ls as [|l ls IH]; intros acc H; [constructor|]. inversion H; subst. cbn [excl_from]. constructor; [lia|].
  eapply Forall_impl; [|apply (IH (acc + l)); assumption]. cbn; intros; lia.
Qed.

Lemma unravel_cols : forall ls acc, all_nonneg ls ->
  map (fun p => p - zznth (excl_from acc ls) (ssr (excl_from acc ls) p - 1)) (ap acc (zsum ls) 1)
  = concat (map (fun l => ap 0 l 1) ls).
Proof.
  induction ls as [|l ls IH]; intros acc H; [reflexivity|]. inversion H as [|? ? Hl Hls]; subst.
  pose proof (zsum_nonneg ls Hls) as Hs.
  cbn [excl_from zsum map concat]. rewrite (map_ap_split Z _ acc l (zsum ls)) by lia. f_equal.
  - (* positions of the first row *)
    rewrite (ap_reindex acc l 1). rewrite map_map. rewrite <- (map_id (ap 0 l 1)) at 2. apply map_ext_in. intros q Hq.
    assert (Hq' : 0 <= q < l) by (unfold ap in Hq; rewrite ap_nat_seq in Hq; apply in_map_iff in Hq as (j & <- & Hj); apply in_seq in Hj; lia).
    rewrite ssr_cons'. replace (acc <=? acc + q * 1) with true by lia.
    assert (Hz : ssr (excl_from (acc + l) ls) (acc + q * 1) = 0).
    { unfold ssr. rewrite filter_le_all_gt; [reflexivity|]. eapply Forall_impl; [|apply (excl_from_ge ls (acc + l) Hls)]. cbn; intros; lia. }
    rewrite Hz. unfold zznth. cbn [Z.add Z.sub Z.to_nat nth]. cbn. lia.
  - (* later rows *)
    rewrite <- (IH (acc + l) Hls). apply map_ext_in. intros p Hp.
    assert (Hp' : acc + l <= p < acc + l + zsum ls).
    { unfold ap in Hp. rewrite ap_nat_seq in Hp. apply in_map_iff in Hp as (j & <- & Hj). apply in_seq in Hj. lia. }
    rewrite ssr_cons'. replace (acc <=? p) with true by lia.
    assert (Hge : 1 <= ssr (excl_from (acc + l) ls) p).
    { destruct ls as [|l' ls']; [cbn [zsum] in Hp'; lia|]. cbn [excl_from]. rewrite ssr_cons'. replace (acc + l <=? p) with true by lia.
      unfold ssr, zlen. lia. }
    f_equal. unfold zznth. replace (Z.to_nat (1 + ssr (excl_from (acc + l) ls) p - 1)) with (S (Z.to_nat (ssr (excl_from (acc + l) ls) p - 1))) by lia.
    reflexivity.
Qed.

(* ---- bincount with weights, row by row ---- *)
Definition pick (j : Z) (c w : Z) : Z := if c =? j then w else 0.

Lemma row_pick j : forall (r : list Z) s, zsum (map2 (pick j) (ap s (zlen r) 1) r)
  = if (s <=? j) && (j <? s + zlen r) then zznth r (j - s) else 0.
Proof.
  induction r as [|x r IH]; intros s.
  - cbn. replace (zlen (@nil Z)) with 0 by reflexivity. destruct ((s <=? j) && (j <? s + 0)) eqn:E; [lia|reflexivity].
  - unfold ap. replace (Z.to_nat (zlen (x :: r))) with (S (Z.to_nat (zlen r))) by (unfold zlen; cbn [length]; lia).
    cbn [ap_nat map2 zsum]. fold (ap (s + 1) (zlen r) 1). rewrite IH. unfold pick at 1, zznth.
    replace (zlen (x :: r)) with (1 + zlen r) by (unfold zlen; cbn [length]; lia).
    destruct (s =? j) eqn:E1.
    + replace (j - s) with 0 by lia. cbn [Z.to_nat nth].
      replace ((s + 1 <=? j) && (j <? s + 1 + zlen r)) with false by lia.
      replace ((s <=? j) && (j <? s + (1 + zlen r))) with true by (unfold zlen; lia). lia.
    + destruct ((s + 1 <=? j) && (j <? s + 1 + zlen r)) eqn:E2.
      * replace ((s <=? j) && (j <? s + (1 + zlen r))) with true by lia.
        replace (Z.to_nat (j - s)) with (S (Z.to_nat (j - (s + 1)))) by lia. cbn [nth]. lia.
      * replace ((s <=? j) && (j <? s + (1 + zlen r))) with false by lia. lia.
Qed.

Lemma ap_length s n : length (ap s n 1) = Z.to_nat n. Proof. unfold ap. apply ap_nat_length. Qed.

Lemma colsum_rows j : 0 <= j -> forall R : list (list Z),
  zsum (map2 (pick j) (concat (map (fun l => ap 0 l 1) (map zlen R))) (concat R))
  = zsum (flat_map (fun r => if j <? zlen r then [zznth r j] else []) R).
Proof.
  intros Hj. induction R as [|r R IH]; [reflexivity|]. cbn [map concat flat_map].
  rewrite map2_app by (rewrite ap_length; unfold zlen; lia). rewrite !zsum_app, IH. f_equal.
  rewrite row_pick. replace (0 <=? j) with true by lia. replace (j - 0) with j by lia. cbn [andb].
  replace (0 + zlen r) with (zlen r) by lia. destruct (j <? zlen r); cbn [zsum]; lia.
Qed.

Lemma fold_max_hd : forall l, all_nonneg l -> fold_left Z.max l (hd 0 l) = fold_left Z.max l 0.
Proof.
  intros [|x l] H; [reflexivity|]. inversion H; subst. cbn [hd fold_left]. f_equal. lia.
Qed.

Theorem colsum_correct (R : list (list Z)) : ra_colsum (concat R, map zlen R) = spec_colsum R.
Proof.
  unfold ra_colsum, spec_colsum. cbn [fst snd]. rewrite fold_max_hd by apply all_nonneg_zlen.
  apply map_ext_in. intros j Hj.
  assert (Hj0 : 0 <= j) by (unfold ap in Hj; rewrite ap_nat_seq in Hj; apply in_map_iff in Hj as (i & <- & _); lia).
  unfold excl_prefix. rewrite (unravel_cols (map zlen R) 0 (all_nonneg_zlen R)). apply (colsum_rows j Hj0).
Qed.
Print Assumptions colsum_correct.
