From NPS Require Import ListAux PySlice NumpySem Scatter BuildIdx.
Open Scope Z_scope.

(* the three geometry classes of raggedshape.py; a row is (start, length) *)
Inductive geom :=
| GContig (rows : list row)               (* RaggedShape: rows tile the buffer *)
| GRows (rows : list row)                 (* RaggedView: arbitrary rows, unit step *)
| GView2 (rows : list row) (cstep : Z).   (* RaggedView2: arbitrary rows, common column step *)
Definition g_rows (g : geom) : list row := match g with GContig r | GRows r => r | GView2 r _ => r end.
Definition g_step (g : geom) : Z := match g with GView2 _ c => c | _ => 1 end.
Definition g_lengths (g : geom) : list Z := map snd (g_rows g).

Definition contig_of_lengths (ls : list Z) : geom := GContig (combine (excl_prefix ls) ls).

(* ---------------- column-slice kernels (hand model; Gen/K_view.v is proved equal to these) -------------- *)
Definition norm_bound (L : Z) (o : option Z) (d : Z) : Z :=
  match o with None => d | Some s => if s <? 0 then L + s else s end.

(* RaggedView2._calculate_lengths, incl. repair F1 *)
Definition calc_len (L : Z) (start0 stop0 : option Z) (step : Z) : Z :=
  let start := norm_bound L start0 (if step >=? 0 then 0 else L - 1) in
  let stop := norm_bound L stop0 (if step >=? 0 then L else -1) in
  let mask := negb (Z.sgn (stop - start) =? Z.sgn step) in
  let mask := mask || ((start <? 0) && (step <? 0)) in
  let mask := mask || ((start >=? L) && (step >? 0)) in
  let mask := mask || ((stop <=? 0) && (step >? 0)) in
  let mask := mask || ((stop >=? L) && (step <? 0)) in
  let mask := mask || (L =? 0) in
  let start := Z.max (Z.min start (L - 1)) 0 in
  let d := if step >=? 0 then 0 else -1 in
  let stop := Z.max (Z.min stop (L + d)) (0 + d) in
  let LL := stop - start in
  if mask then 0 else (Z.abs LL - 1) / Z.abs step + 1.

(* RaggedView2._pos_col_slice, one row *)
Definition pos_col_slice (c : Z) (start0 stop0 : option Z) (step : Z) (r : row) : row :=
  let '(s, L) := r in
  let start := match start0 with None => 0 | Some st => if st >=? 0 then Z.min st L else Z.max (L + st) 0 end in
  let stop := match stop0 with None => L | Some sp => if sp <? 0 then Z.max (L + sp) 0 else Z.min L sp end in
  (s + c * start, Z.max 0 ((stop - start + (step - 1)) / step)).

(* RaggedView2.col_slice, negative-step branch, one row *)
Definition neg_col_slice (c : Z) (start0 stop0 : option Z) (step : Z) (r : row) : row :=
  let '(s, L) := r in
  let cs := Z.max (Z.min (L - 1) (norm_bound L start0 (L - 1))) 0 in
  (s + c * cs, calc_len L start0 stop0 step).

Definition zmin_list (l : list Z) : Z := match l with [] => 0 | x :: r => fold_left Z.min r x end.

(* RaggedView2.col_slice *)
Definition col_slice_int (rows : list row) (c : Z) (idx : Z) : res geom :=
  let m := zmin_list (map snd rows) in
  if negb (Nat.eqb (length rows) 0) && ((idx >=? m) || (idx <? - m)) then Refused
  else if idx >=? 0 then Ok (GView2 (map (fun r => (fst r + idx * c, 1)) rows) 1)
  else Ok (GView2 (map (fun r => (fst r + (snd r + idx) * c, 1)) rows) 1).
Definition col_slice_sl (rows : list row) (c : Z) (sl : pyslice) : res geom :=
  let step := step_of sl in
  if step =? 0 then Refused
  else if step >? 0 then Ok (GView2 (map (pos_col_slice c (sl_start sl) (sl_stop sl) step) rows) (c * step))
  else Ok (GView2 (map (neg_col_slice c (sl_start sl) (sl_stop sl) step) rows) (step * c)).

(* flat gather indices of a view (RaggedView.get_flat_indices / RaggedView2._get_flat_indices) *)
Definition flat_indices (g : geom) : list Z :=
  match g_rows g with [] => [] | rows => build_indices rows (g_step g) end.
