From Coq Require Import ZifyBool.
From NPS Require Import ListAux PySlice NumpySem Scatter BuildIdx XorBroadcast XorProof RLE RLEProof RLEOps RaOps RLE2d CanonProof RL2Proof.
Open Scope Z_scope.

(* C17: RunLength2dArray.from_intervals (runlengtharray.py L755-782).  Row k gets 1, 2 or 3 boundaries: a leading 0 when the interval
   does not start at 0, the start, and the end when it lies before the row end; the values are 0 / value / 0 accordingly.
   The construction is modelled in Model/RLE2d.v (interval_row, from_intervals). *)
Lemma interval_row_decode n value s e : 0 <= s <= e -> e <= n ->
  let '(idx, vals) := interval_row n value (s, e) in decode Z (idx ++ [n], vals) = indicator_row n value s e.
Proof.
  intros Hs He. unfold interval_row, indicator_row.
  destruct (s >? 0) eqn:Es; destruct (e <? n) eqn:Ee; unfold zset; cbn -[Z.sub decode repeat Z.to_nat];
    change (Z.to_nat 3) with 3%nat; change (Z.to_nat (3 - 1)) with 2%nat; change (Z.to_nat 2) with 2%nat; change (Z.to_nat (2 - 1)) with 1%nat;
    change (Z.to_nat 1) with 1%nat; change (Z.to_nat 0) with 0%nat; cbn [repeat set_nat app]; rewrite !decode_cons2; change (decode Z ([n], [])) with (@nil Z); rewrite app_nil_r.
  - (* 0, s, e | n *) replace (s - 0) with s by lia. reflexivity.
  - (* 0, s | n : e = n *) assert (e = n) by lia. subst e. replace (s - 0) with s by lia. replace (n - n) with 0 by lia. cbn [Z.to_nat repeat]. now rewrite app_nil_r.
  - (* s = 0: 0, e | n *) assert (s = 0) by lia. subst s. cbn [Z.to_nat repeat app]. reflexivity.
  - (* 0 | n *) assert (s = 0) by lia. assert (e = n) by lia. subst s e. replace (n - n) with 0 by lia. cbn [Z.to_nat repeat app]. now rewrite app_nil_r.
Qed.

Theorem from_intervals_decode (starts ends : list Z) (n value : Z) :
  length starts = length ends -> Forall (fun se => 0 <= fst se <= snd se /\ snd se <= n) (combine starts ends) ->
  rl2_decode (from_intervals starts ends n value) = map (fun se => indicator_row n value (fst se) (snd se)) (combine starts ends).
Proof.
  intros _ H. unfold from_intervals, rl2_decode, rl2_rows. cbn [r_idx r_val r_len]. rewrite map2_combine, !map_map.
  induction H as [|[s e] l [Hs He] _ IH]; [reflexivity|]. cbn [map combine fst snd] in *. f_equal; [|exact IH].
  unfold row_rla. cbn [r_len]. pose proof (interval_row_decode n value s e Hs He) as Hd. destruct (interval_row n value (s, e)) as [idx vals]. exact Hd.
Qed.
Print Assumptions from_intervals_decode.

Example from_intervals_example :
  rl2_decode (from_intervals [0; 2; 0; 3] [2; 5; 5; 3] 5 7) = [[7; 7; 0; 0; 0]; [0; 0; 7; 7; 7]; [7; 7; 7; 7; 7]; [0; 0; 0; 0; 0]].
Proof. reflexivity. Qed.
