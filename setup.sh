#!/bin/sh
# MANIFEST.setup_cmd: build the Coq development (full .vo build), extract the oracle, compile it.  Offline, files on disk only.
set -e
cd "$(dirname "$0")"
mkdir -p build evidence replays
cd coq
coq_makefile -f _CoqProject -o Makefile > /dev/null
timeout 3000 make -j16 > ../build/make.log 2>&1 || { tail -30 ../build/make.log; exit 1; }
cd ../oracle
cp ../coq/oracle_core.ml ../coq/oracle_core.mli .
ocamlfind ocamlopt -O3 -package str oracle_core.mli oracle_core.ml driver.ml -o oracle 2>/dev/null || \
ocamlfind ocamlopt -package str oracle_core.mli oracle_core.ml driver.ml -o oracle
echo "setup ok"
