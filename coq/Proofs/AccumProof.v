From Coq Require Import ZifyBool.
From NPS Require Import ListAux PySlice NumpySem Scatter BuildIdx XorBroadcast XorProof Denote Scan SetItem ScanProof.
Open Scope Z_scope.

(* C07: ufunc.accumulate restarted at every row (RaggedArray._row_accumulate, with repair F6) *)
Section AP.
Variable G : Type.
Variable gzero : G.
Variable op inv0 inv1 : G -> G -> G.
Variable bxor : G -> G -> G.
(* what the library's INVERSE_FUNCS table has to satisfy: add -> (subtract, add), subtract -> (subtract, add), xor -> (xor, xor) *)
Hypothesis L1 : forall u v, inv1 u (inv0 v u) = v.
Hypothesis L2 : forall x y c, inv1 (op x y) c = op (inv1 x c) y.
Hypothesis bxor_assoc : forall a b c, bxor a (bxor b c) = bxor (bxor a b) c.
Hypothesis bxor_comm : forall a b, bxor a b = bxor b a.
Hypothesis bxor_nilp : forall a, bxor a a = gzero.
Hypothesis bxor_zero_l : forall a, bxor gzero a = a.

Notation scan_from := (scan_from G op).
Notation accumulate := (accumulate G op).
Notation znthG := (znthG G gzero).

(* the global scan seen from inside: an optional carried value *)
Definition scan_opt (c : option G) (l : list G) : list G :=
  match c with None => accumulate l | Some a => scan_from a l end.
Definition firstv (c : option G) (x : G) : G := match c with None => x | Some a => op a x end.
Definition carry (c : option G) (r : list G) : option G :=
  match r with [] => c | x :: xs => Some (fold_left op xs (firstv c x)) end.

Lemma scan_from_app a l m : scan_from a (l ++ m) = scan_from a l ++ scan_from (fold_left op l a) m.
Proof. revert a; induction l as [|x l IH]; intros a; cbn; [reflexivity|]. now rewrite IH. Qed.
Lemma scan_from_length a l : length (scan_from a l) = length l.
Proof. revert a; induction l; intros; cbn; auto. Qed.
Lemma scan_opt_cons c x xs : scan_opt c (x :: xs) = firstv c x :: scan_from (firstv c x) xs.
Proof. destruct c; reflexivity. Qed.
Lemma scan_opt_length c l : length (scan_opt c l) = length l.
Proof. destruct l as [|x xs]; [destruct c; reflexivity|]. rewrite scan_opt_cons. cbn. now rewrite scan_from_length. Qed.
Lemma scan_opt_app c l m : scan_opt c (l ++ m) = scan_opt c l ++ scan_opt (carry c l) m.
Proof.
  destruct l as [|x xs]; [destruct c; reflexivity|]. cbn [app]. rewrite !scan_opt_cons. cbn [carry scan_opt app].
  f_equal. apply scan_from_app.
Qed.

Fixpoint rows_acc (c : option G) (R : list (list G)) : list (list G) :=
  match R with [] => [] | r :: R' => scan_opt c r :: rows_acc (carry c r) R' end.
Lemma rows_acc_concat c R : scan_opt c (concat R) = concat (rows_acc c R).
Proof.
  revert c; induction R as [|r R IH]; intros c; [destruct c; reflexivity|]. cbn [concat rows_acc].
  now rewrite scan_opt_app, IH.
Qed.
Lemma rows_acc_zlen c R : map zlen (rows_acc c R) = map zlen R.
Proof. revert c; induction R as [|r R IH]; intros c; [reflexivity|]. cbn [map rows_acc]. f_equal; [unfold zlen; now rewrite scan_opt_length|apply IH]. Qed.
Lemma rows_acc_length c R : length (rows_acc c R) = length R.
Proof. revert c; induction R; intros; cbn; auto. Qed.

(* the per-row offsets are only looked at on non-empty rows *)
Fixpoint offs_ok (c : option G) (R : list (list G)) (os : list G) : Prop :=
  match R, os with
  | [], [] => True
  | r :: R', o :: os' => (forall x xs, r = x :: xs -> o = inv0 x (firstv c x)) /\ offs_ok (carry c r) R' os'
  | _, _ => False
  end.

Lemma translate_scan o u xs : map (fun y => inv1 y o) (scan_from u xs) = scan_from (inv1 u o) xs.
Proof. revert u; induction xs as [|x xs IH]; intros u; cbn; [reflexivity|]. now rewrite IH, L2. Qed.

Lemma rows_fix c R os : offs_ok c R os ->
  map2 (fun r o => map (fun y => inv1 y o) r) (rows_acc c R) os = map accumulate R.
Proof.
  revert c os; induction R as [|r R IH]; intros c [|o os] H; cbn in H; try contradiction; [reflexivity|].
  destruct H as [Ho Hrest]. cbn [rows_acc map2 map]. f_equal; [|now apply IH].
  destruct r as [|x xs]; [destruct c; reflexivity|].
  rewrite scan_opt_cons. cbn [map Scan.accumulate]. rewrite (Ho x xs eq_refl), L1, translate_scan, L1. reflexivity.
Qed.

Lemma offs_char2 R : forall (pd pc : list G) c N, length pd = length pc -> N = zlen pd + zlen (concat R) ->
  offs_ok c R (map (fun s => inv0 (znthG (pd ++ concat R) s) (znthG (pc ++ scan_opt c (concat R)) s))
                   (map (fun s => Z.min s (N - 1)) (excl_from (zlen pd) (map zlen R)))).
Proof.
  induction R as [|r R IH]; intros pd pc c N Hlen HN; [exact I|].
  cbn [map excl_from offs_ok concat]. split.
  - intros x xs ->. cbn [app]. rewrite scan_opt_cons.
    assert (Hmin : Z.min (zlen pd) (N - 1) = zlen pd).
    { subst N. unfold zlen. cbn [concat app length]. lia. }
    rewrite Hmin. unfold Scan.znthG, zlen. rewrite Nat2Z.id.
    rewrite app_nth2 by lia. rewrite Nat.sub_diag. rewrite Hlen, app_nth2 by lia. rewrite Nat.sub_diag. reflexivity.
  - rewrite scan_opt_app.
    specialize (IH (pd ++ r) (pc ++ scan_opt c r) (carry c r) N).
    rewrite <- !app_assoc in IH.
    replace (zlen (pd ++ r)) with (zlen pd + zlen r) in IH by (unfold zlen; rewrite app_length; lia).
    apply IH.
    + rewrite !app_length, scan_opt_length. lia.
    + subst N. unfold zlen. cbn [concat]. rewrite !app_length. lia.
Qed.

Lemma map2_map' {X Y U V} (f : Y -> U -> V) (g : X -> Y) (h : X -> U) l :
  map2 f (map g l) (map h l) = map (fun x => f (g x) (h x)) l.
Proof. induction l as [|x l IH]; [reflexivity|]. cbn [map map2]. now rewrite IH. Qed.

Theorem accumulate_correct (R : list (list G)) :
  row_accumulate G gzero bxor op inv0 inv1 (concat R) (map zlen R) = spec_accumulate G op R.
Proof.
  unfold row_accumulate, spec_accumulate.
  destruct (zsum (map zlen R) =? 0) eqn:Ez.
  - rewrite segments_concat_rows.
    assert (Hall : Forall (fun r => r = []) R).
    { apply Z.eqb_eq in Ez. clear - Ez. induction R as [|r R IH]; [constructor|]. cbn [map zsum] in Ez.
      pose proof (zsum_nonneg (map zlen R) (all_nonneg_zlen R)). assert (zlen r = 0) by (unfold zlen in *; lia).
      constructor; [destruct r; [reflexivity|unfold zlen in *; cbn in *; lia]|apply IH; lia]. }
    clear Ez. induction Hall as [|r R Hr _ IH]; [reflexivity|]. subst r. cbn [map Scan.accumulate]. f_equal. exact IH.
  - rewrite map2_map'. unfold excl_prefix.
    pose proof (offs_char2 R [] [] None (zsum (map zlen R)) eq_refl) as Hok. cbn [app] in Hok.
    change (zlen (@nil G)) with 0 in Hok. cbn [scan_opt] in Hok.
    specialize (Hok ltac:(rewrite zsum_map_zlen; lia)).
    set (os := map _ (map _ (excl_from 0 (map zlen R)))) in *.
    assert (Hlen : length os = length R) by (unfold os; rewrite !map_length, excl_from_length, map_length; reflexivity).
    rewrite (raw_broadcast_correct G gzero bxor bxor_assoc bxor_comm bxor_nilp bxor_zero_l)
      by (try apply all_nonneg_zlen; rewrite Hlen; now rewrite map_length).
    pose proof (rows_acc_concat None R) as Hc. cbn [scan_opt] in Hc. rewrite Hc, <- (rows_acc_zlen None R).
    rewrite map2_rows by (rewrite Hlen; symmetry; apply rows_acc_length).
    now apply rows_fix.
Qed.
End AP.
Print Assumptions accumulate_correct.

(* the three entries of INVERSE_FUNCS meet the laws on integers *)
Example laws_add : (forall u v, Z.add u (Z.sub v u) = v) /\ (forall x y c, Z.add (Z.add x y) c = Z.add (Z.add x c) y). Proof. split; intros; lia. Qed.
Example laws_sub : (forall u v, Z.add u (Z.sub v u) = v) /\ (forall x y c, Z.add (Z.sub x y) c = Z.sub (Z.add x c) y). Proof. split; intros; lia. Qed.
Example laws_xor : (forall u v, Z.lxor u (Z.lxor v u) = v) /\ (forall x y c, Z.lxor (Z.lxor x y) c = Z.lxor (Z.lxor x c) y).
Proof.
  split; intros.
  - rewrite (Z.lxor_comm v u), <- Z.lxor_assoc, Z.lxor_nilpotent. apply Z.lxor_0_l.
  - rewrite !Z.lxor_assoc. f_equal. apply Z.lxor_comm.
Qed.
(* IEEE addition does not satisfy L2 (it is not associative): the theorem does not cover float accumulate,
   and the implementation indeed differs from numpy there (finding F15). *)
