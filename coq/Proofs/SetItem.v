From Coq Require Import ZifyBool.
From NPS Require Import ListAux PySlice NumpySem Scatter BuildIdx SliceAP View Index RLE XorBroadcast XorProof Denote SelRows MaterialiseWF Kernels ColSlice RowsSpec GetItem Assign AssignSpec.
Open Scope Z_scope.

(* setitem resolves its index with the same functions as getitem; on the identity buffer
   0,1,2,... gathering returns the positions themselves, so C02's theorem describes the written cells *)
Section S.
Notation WFz := (WF Z).
Notation denotez := (denote Z 0).

Definition id_array {A} (a : ra A) : ra Z := {| ra_data := ap 0 (zlen (ra_data a)) 1 ; ra_geom := ra_geom a |}.

Lemma ap_unit_zlen n : 0 <= n -> zlen (ap 0 n 1) = n.
Proof. intros. now apply ap_zlen. Qed.

Lemma id_array_WF {A} (a : ra A) : WF A a -> WFz (id_array a).
Proof.
  intros [H1 H2]. unfold id_array. split; cbn [ra_data ra_geom].
  - rewrite ap_unit_zlen by (unfold zlen; lia). exact H1.
  - destruct (ra_geom a); auto. destruct H2 as [H2 H3]. split; [exact H2|]. rewrite ap_unit_zlen by (unfold zlen; lia). exact H3.
Qed.

Lemma znth_id n p : 0 <= p < n -> znth 0 (ap 0 n 1) p = p.
Proof. intros H. rewrite znth_ap by lia. lia. Qed.

Lemma take_id n ps : 0 <= n -> Forall (fun p => 0 <= p < n) ps -> np_take (ap 0 n 1) ps = Ok ps.
Proof.
  intros Hn H. rewrite (np_take_in_range Z 0) by (rewrite ap_unit_zlen by assumption; exact H).
  f_equal. induction H as [|p ps Hp _ IH]; [reflexivity|]. cbn [map]. now rewrite znth_id, IH.
Qed.

(* ---------- getitem = (materialise where the code does) ; resolve ; gather ---------- *)
Section F.
Variable A : Type.
Variable dflt : A.
Notation WF := (WF A).
Notation denote := (denote A dflt).

Definition materialises_first (idx : index) : bool :=
  match idx with
  | IEmpty | IRow (RMany RAll) | IRow (ROne _) | IMask _ => true
  | IRow (RMany _) => false
  | IRowCol r c => is_int_typed r c
  end.

Definition gather_target (a : ra A) (t : target) : res (result A) :=
  match t with
  | TFlat ps true => rbind (np_take (ra_data a) ps) (fun l => match l with [x] => Ok (RScalar x) | _ => Refused end)
  | TFlat ps false => rmap RFlat (np_take (ra_data a) ps)
  | TShaped ps lens => rmap (fun d => RRagged (segments d lens)) (np_take (ra_data a) ps)
  end.

Definition positions (t : target) : list Z := match t with TFlat ps _ | TShaped ps _ => ps end.

Lemma np_take_all (d : list A) : np_take d (ap 0 (zlen d) 1) = Ok d.
Proof.
  rewrite (np_take_in_range A dflt).
  - f_equal. pose proof (ap_unit_cells A dflt d 0 (zlen d)) as H. unfold Denote.row_cells in H. cbn [fst snd] in H.
    rewrite H by (unfold zlen; lia). unfold ztake, zdrop, zlen. cbn [Z.to_nat skipn]. rewrite Nat2Z.id. apply firstn_all.
  - unfold ap. apply ap_nat_forall. intros k Hk. unfold zlen in *. lia.
Qed.

Lemma rmap_rmap {X Y W} (f : X -> Y) (g : Y -> W) (r : res X) : rmap g (rmap f r) = rmap (fun x => g (f x)) r.
Proof. destruct r; reflexivity. Qed.
Lemma rbind_rmap {X Y W} (f : X -> Y) (g : Y -> res W) (r : res X) : rbind (rmap f r) g = rbind r (fun x => g (f x)).
Proof. destruct r; reflexivity. Qed.
Lemma rbind_rbind {X Y W} (r : res X) (f : X -> res Y) (g : Y -> res W) : rbind (rbind r f) g = rbind r (fun x => rbind (f x) g).
Proof. destruct r; reflexivity. Qed.

(* observing a lazily selected array = gathering at its flat indices *)
Lemma observe_lazy_gather (a : ra A) g' : (forall rows, g' <> GContig rows) ->
  observe (GLazy {| ra_data := ra_data a ; ra_geom := g' |})
  = gather_target a (TShaped (flat_indices g') (g_lengths g')).
Proof.
  intros Hnc. cbn [observe gather_target]. unfold rows_of, materialise. cbn [ra_geom ra_data].
  destruct g' as [rows|rows|rows c]; [exfalso; now apply (Hnc rows)| |];
    rewrite !rmap_rmap; cbn [ra_data ra_geom]; now rewrite (g_lengths_contig).
Qed.

Definition pre (a : ra A) (idx : index) : res (ra A) := if materialises_first idx then materialise a else Ok a.

Lemma select_rows_not_contig g s g' : select_rows_geom g s = Ok g' -> forall rows, g' <> GContig rows.
Proof.
  destruct g; cbn [select_rows_geom]; destruct (sel_rows s _); cbn [rmap]; intros H; try discriminate; injection H as <-; discriminate.
Qed.

Theorem getitem_factor (a : ra A) idx : WF a ->
  model_obs A a idx = rbind (pre a idx) (fun a0 => rbind (resolve a0 idx) (gather_target a0)).
Proof.
  intros HW. unfold model_obs, pre.
  destruct (materialise_wf A dflt a HW) as (a' & Em & HW' & Hcg & Hd).
  assert (Hmat' : materialise a' = Ok a').
  { unfold materialise. destruct (ra_geom a'); try contradiction. reflexivity. }
  destruct idx as [[i|s]|r c|m|]; cbn [materialises_first].
  - (* one row *)
    cbn [getitem resolve]. rewrite Em. cbn [rbind]. rewrite !rbind_rmap.
    destruct (np_item (g_rows (ra_geom a')) i) as [r|] eqn:E; cbn [rbind observe gather_target rmap]; [|reflexivity].
    destruct (contig_row_slice A dflt a' r HW' Hcg (np_item_In _ _ _ E)) as [Hs Hst]. rewrite Hs.
    destruct HW' as [Hrows _]. rewrite Forall_forall in Hrows. pose proof (Hrows r (np_item_In _ _ _ E)) as Hr. rewrite Hst in Hr.
    rewrite (np_take_in_range A dflt) by (now apply row_ok_positions). reflexivity.
  - destruct s as [sl|il|mk|]; cbn [getitem resolve materialises_first].
    4:{ rewrite Em. cbn [rmap rbind observe gather_target]. unfold rows_of. rewrite Hmat'. cbn [rmap].
        now rewrite np_take_all. }
    all: cbn [rbind]; rewrite !rbind_rmap;
      match goal with |- context[select_rows_geom ?g ?s] => destruct (select_rows_geom g s) as [g'|] eqn:E end;
      cbn [rbind]; [|reflexivity];
      apply observe_lazy_gather; eapply select_rows_not_contig; eauto.
  - destruct (is_int_typed r c) eqn:Et.
    + cbn [getitem resolve]. rewrite Et, Em. cbn [rbind].
      destruct (element_pairs r c) as [[pairs sc]|]; [|reflexivity].
      unfold get_elements. rewrite Em. cbn [rbind]. rewrite !rbind_rbind, rbind_rmap.
      destruct (rsequence (map (fun p => element_flat (g_rows (ra_geom a')) (fst p) (snd p)) pairs)) as [flat|]; cbn [rbind gather_target]; [|reflexivity].
      destruct sc.
      * destruct (np_take (ra_data a') flat) as [[|x [|y l]]|]; reflexivity.
      * destruct (np_take (ra_data a') flat); reflexivity.
    + cbn [getitem resolve rbind]. rewrite Et. rewrite !rbind_rbind.
      destruct (view_rows_geom (ra_geom a) match r with RMany RAll => RMany (RSlice all_slice) | _ => r end) as [[rows cs]|]; cbn [rbind]; [|reflexivity].
      rewrite rbind_rbind, rbind_rmap.
      destruct c as [j|sl| |js]; cbn [rbind].
      * destruct (col_slice_int rows cs j) as [g2|]; cbn [rbind]; [|reflexivity].
        destruct r as [i|s0]; cbn [gather_target]; destruct (np_take (ra_data a) (flat_indices g2)); reflexivity.
      * destruct (col_slice_sl rows cs sl) as [g2|] eqn:Eg2; cbn [rbind]; [|reflexivity].
        destruct r as [i|s0].
        -- cbn [gather_target]. destruct (np_take (ra_data a) (flat_indices g2)); reflexivity.
        -- apply observe_lazy_gather. unfold col_slice_sl in Eg2. destruct (step_of sl =? 0); [discriminate|].
           destruct (step_of sl >? 0); injection Eg2 as <-; discriminate.
      * destruct (col_slice_sl rows cs all_slice) as [g2|] eqn:Eg2; cbn [rbind]; [|reflexivity].
        destruct r as [i|s0].
        -- cbn [gather_target]. destruct (np_take (ra_data a) (flat_indices g2)); reflexivity.
        -- apply observe_lazy_gather. unfold col_slice_sl in Eg2. destruct (step_of all_slice =? 0); [discriminate|].
           destruct (step_of all_slice >? 0); injection Eg2 as <-; discriminate.
      * reflexivity.
  - cbn [getitem resolve]. rewrite Em. cbn [rbind rmap observe gather_target].
    destruct (np_take (ra_data a') (flatnonzero (concat m))); reflexivity.
  - cbn [getitem resolve]. rewrite Em. cbn [rmap rbind observe gather_target]. unfold rows_of. rewrite Hmat'. cbn [rmap].
    now rewrite np_take_all.
Qed.

(* ---------- where resolve points: always inside the buffer ---------- *)
Definition target_ok (n : Z) (t : target) : Prop :=
  Forall (fun p => 0 <= p < n) (positions t) /\
  match t with
  | TShaped ps lens => all_nonneg lens /\ zsum lens = zlen ps
  | TFlat ps true => length ps = 1%nat
  | TFlat _ false => True
  end.

Lemma zlen_spec_indices rows c : Forall (fun r => 0 <= snd r) rows -> zlen (spec_indices rows c) = zsum (map snd rows).
Proof.
  induction 1 as [|r rows Hr _ IH]; [reflexivity|]. unfold spec_indices in *. cbn [map concat zsum].
  unfold zlen in *. rewrite app_length, Nat2Z.inj_add, IH. f_equal. unfold ap. rewrite ap_nat_length. lia.
Qed.

Lemma geom_target_ok (a : ra A) g2 : (forall rows, g2 <> GContig rows) ->
  Forall (Denote.row_ok (zlen (ra_data a)) (g_step g2)) (g_rows g2) ->
  target_ok (zlen (ra_data a)) (TShaped (flat_indices g2) (g_lengths g2)) /\
  target_ok (zlen (ra_data a)) (TFlat (flat_indices g2) false).
Proof.
  intros _ Hok. pose proof (Forall_row_ok_nonneg _ _ _ Hok) as Hnn.
  rewrite flat_indices_spec by assumption.
  pose proof (spec_indices_positions _ _ _ Hok) as Hr.
  split; split; cbn [positions]; auto. split.
  - unfold g_lengths. now apply Forall_map.
  - symmetry. now apply zlen_spec_indices.
Qed.

Lemma elements_in_range (a' : ra A) pairs flat : WF a' -> is_contig (ra_geom a') ->
  rsequence (map (fun p => element_flat (g_rows (ra_geom a')) (fst p) (snd p)) pairs) = Ok flat ->
  Forall (fun p => 0 <= p < zlen (ra_data a')) flat /\ length flat = length pairs.
Proof.
  intros HW Hcg. revert flat; induction pairs as [|[i j] pairs IH]; intros flat H; cbn [map rsequence fst snd] in H.
  - injection H as <-. split; [constructor|reflexivity].
  - pose proof (element_pair A dflt a' i j HW Hcg) as Hp.
    destruct (element_flat (g_rows (ra_geom a')) i j) as [p|]; [|discriminate].
    destruct (rsequence (map (fun p => element_flat (g_rows (ra_geom a')) (fst p) (snd p)) pairs)) as [fl|]; [|discriminate].
    injection H as <-. destruct (IH fl eq_refl) as [I1 I2]. destruct Hp as [Hr _].
    split; [constructor; assumption|cbn; now rewrite I2].
Qed.

Lemma pairs_scalar r c pairs : element_pairs r c = Some (pairs, true) -> length pairs = 1%nat.
Proof.
  destruct r as [i|[ | | | ]], c; cbn; intros H; try discriminate; try (injection H as <-; reflexivity).
  destruct (Nat.eqb _ _); discriminate.
Qed.

Theorem resolve_ok (a' : ra A) idx t : WF a' -> is_contig (ra_geom a') -> index_ok A (denote a') idx ->
  resolve a' idx = Ok t -> target_ok (zlen (ra_data a')) t.
Proof.
  intros HW Hcg Hiok Hres. pose proof HW as [Hrows Hc].
  assert (Hwhole : target_ok (zlen (ra_data a')) (TShaped (ap 0 (zlen (ra_data a')) 1) (g_lengths (ra_geom a')))).
  { destruct (ra_geom a') as [rows| |] eqn:Eg; try contradiction. destruct Hc as [_ Hsum].
    split; cbn [positions].
    - unfold ap. apply ap_nat_forall. intros k Hk. unfold zlen in *. lia.
    - split; [unfold g_lengths; cbn [g_rows]; apply Forall_map; eapply Forall_row_ok_nonneg; exact Hrows|].
      unfold g_lengths. cbn [g_rows]. rewrite Hsum. symmetry. apply ap_zlen. unfold zlen; lia. }
  destruct idx as [[i|s]|r c|m|]; cbn [resolve] in Hres.
  - destruct (np_item (g_rows (ra_geom a')) i) as [r|] eqn:E; [|discriminate]. injection Hres as <-.
    destruct (contig_row_slice A dflt a' r HW Hcg (np_item_In _ _ _ E)) as [_ Hst].
    rewrite Forall_forall in Hrows. pose proof (Hrows r (np_item_In _ _ _ E)) as Hr. rewrite Hst in Hr.
    split; cbn [positions]; [now apply row_ok_positions|exact I].
  - destruct s as [sl|il|mk|]; try (injection Hres as <-; exact Hwhole).
    all: match type of Hres with rmap _ (select_rows_geom _ ?s) = _ =>
           pose proof (select_rows_denote A dflt a' s HW) as Hs; destruct (select_rows_geom (ra_geom a') s) as [g'|] eqn:E; [|discriminate];
           destruct (sel_rows s (denote a')); [|discriminate] end;
      destruct Hs as (g'' & Eg & [Hok _] & _); injection Eg as <-; injection Hres as <-;
      apply (geom_target_ok (with_geom A a' g')); [eapply select_rows_not_contig; eauto|exact Hok].
  - destruct (is_int_typed r c) eqn:Et.
    + destruct (element_pairs r c) as [[pairs sc]|] eqn:Ep; [|discriminate].
      destruct (rsequence (map (fun p => element_flat (g_rows (ra_geom a')) (fst p) (snd p)) pairs)) as [flat|] eqn:Ef; [|discriminate].
      injection Hres as <-. destruct (elements_in_range a' pairs flat HW Hcg Ef) as [Hr Hl].
      split; cbn [positions]; [exact Hr|]. destruct sc; [|exact I]. rewrite Hl. eapply pairs_scalar; eauto.
    + set (r' := match r with RMany RAll => RMany (RSlice all_slice) | _ => r end) in *.
      pose proof (view_rows_denote A dflt a' r' HW) as Hv.
      destruct (view_rows_geom (ra_geom a') r') as [[rows cs]|] eqn:Ev; [|discriminate]. cbn [rbind] in Hres.
      destruct (spec_rows (denote a') r') as [[R' sq]|]; [|discriminate].
      destruct Hv as (rows0 & E0 & Hok & _). injection E0 as <- Ecs. subst cs.
      destruct c as [j|sl| |js]; cbn [rmap] in Hres.
      * pose proof (col_int_rows A dflt (ra_data a') (g_step (ra_geom a')) j rows Hok) as Hc2.
        destruct (col_slice_int rows (g_step (ra_geom a')) j) as [g2|] eqn:Eg2; [|discriminate]. destruct Hc2 as (Hst & Hok2 & _).
        rewrite <- Hst in Hok2.
        assert (Hnc : forall rws, g2 <> GContig rws).
        { unfold col_slice_int in Eg2. destruct (_ && _) in Eg2; [discriminate|]. destruct (j >=? 0); injection Eg2 as <-; discriminate. }
        destruct (geom_target_ok a' g2 Hnc Hok2) as [_ Hf]. cbn [rmap] in Hres. injection Hres as <-. destruct r; exact Hf.
      * unfold col_slice_sl in Hres. destruct (Z.eq_dec (step_of sl) 0) as [E0|E0]; [replace (step_of sl =? 0) with true in Hres by lia; discriminate|].
        fold (col_slice_sl rows (g_step (ra_geom a')) sl) in Hres. rewrite col_slice_sl_eq in Hres by assumption. cbn [rmap] in Hres.
        destruct (col_slice_rows A dflt (ra_data a') (g_step (ra_geom a')) sl rows Hok E0) as [Hok2 _].
        set (g2 := GView2 (map (col_kernel (g_step (ra_geom a')) sl) rows) (g_step (ra_geom a') * step_of sl)) in *.
        destruct (geom_target_ok a' g2 ltac:(discriminate) Hok2) as [Hs Hf]. injection Hres as <-. destruct r; [exact Hf|exact Hs].
      * assert (E0 : step_of all_slice <> 0) by (cbn; lia).
        rewrite col_slice_sl_eq in Hres by assumption. cbn [rmap] in Hres.
        destruct (col_slice_rows A dflt (ra_data a') (g_step (ra_geom a')) all_slice rows Hok E0) as [Hok2 _].
        set (g2 := GView2 (map (col_kernel (g_step (ra_geom a')) all_slice) rows) (g_step (ra_geom a') * step_of all_slice)) in *.
        destruct (geom_target_ok a' g2 ltac:(discriminate) Hok2) as [Hs Hf]. injection Hres as <-. destruct r; [exact Hf|exact Hs].
      * discriminate.
  - injection Hres as <-. cbn [index_ok] in Hiok.
    assert (Hlen : length (concat m) = length (ra_data a')).
    { rewrite <- (contig_data_concat A dflt a' HW Hcg). clear - Hiok. revert m Hiok.
      induction (denote a') as [|r R IH]; intros [|mr m] H; cbn in *; try discriminate; [reflexivity|].
      injection H as H1 H2. rewrite !app_length, (IH m H2). lia. }
    destruct (fnz_gather A dflt [] (ra_data a') (concat m) Hlen) as [Hr _]. split; [exact Hr|exact I].
  - injection Hres as <-. exact Hwhole.
Qed.

End F.

(* ---------- the identity buffer: gathering returns positions ---------- *)
Section F2.
Variable A : Type.
Variable dflt : A.
Notation WF := (Denote.WF A).
Notation denote := (Denote.denote A dflt).
Definition cells_of (t : target) : result Z :=
  match t with
  | TFlat ps true => RScalar (hd 0 ps)
  | TFlat ps false => RFlat ps
  | TShaped ps lens => RRagged (segments ps lens)
  end.

Lemma gather_id (a' : ra A) t : target_ok (zlen (ra_data a')) t -> gather_target Z (id_array a') t = Ok (cells_of t).
Proof.
  intros [Hr Hs]. assert (Hn : 0 <= zlen (ra_data a')) by (unfold zlen; lia).
  destruct t as [ps [|]|ps lens]; cbn [gather_target cells_of positions id_array ra_data] in *; rewrite take_id by assumption; cbn [rbind rmap]; try reflexivity.
  destruct ps as [|p [|q ps]]; try discriminate. reflexivity.
Qed.

Lemma resolve_id (a' : ra A) idx : resolve (id_array a') idx = resolve a' idx.
Proof.
  assert (Hz : zlen (ra_data (id_array a')) = zlen (ra_data a')) by (cbn [id_array ra_data]; apply ap_unit_zlen; unfold zlen; lia).
  destruct idx as [[i|[ | | | ]]|r c|m|]; cbn [resolve id_array ra_geom]; rewrite ?Hz; reflexivity.
Qed.

Lemma zsum_map_zlen {X} (R : list (list X)) : zsum (map zlen R) = zlen (concat R).
Proof. induction R as [|r R IH]; [reflexivity|]. cbn [map zsum concat]. unfold zlen in *. rewrite app_length. lia. Qed.
Lemma all_nonneg_zlen {X} (R : list (list X)) : all_nonneg (map zlen R).
Proof. apply Forall_map. apply Forall_forall. intros r _. unfold zlen. lia. Qed.
Lemma tagged_zlen {X} (R : list (list X)) : map zlen (tagged R) = map zlen R.
Proof.
  unfold tagged. apply segments_lengths; [apply all_nonneg_zlen|].
  rewrite zsum_map_zlen, ap_zlen by (unfold zlen; lia). reflexivity.
Qed.
Lemma lengths_of_zlen {X Y} : forall (l1 : list (list X)) (l2 : list (list Y)),
  map zlen l1 = map zlen l2 -> map (@length X) l1 = map (@length Y) l2.
Proof.
  induction l1 as [|x l1 IH]; intros [|y l2] H; cbn in *; try discriminate; [reflexivity|].
  injection H as H1 H2. f_equal; [unfold zlen in H1; lia|now apply IH].
Qed.

Lemma denote_id (a' : ra A) : WF a' -> is_contig (ra_geom a') -> Denote.denote Z 0 (id_array a') = tagged (denote a').
Proof.
  intros HW Hcg. pose proof (rows_of_denote Z 0 (id_array a') (id_array_WF a' HW)) as H.
  unfold rows_of, materialise in H. cbn [id_array ra_geom ra_data] in H.
  destruct (ra_geom a') as [rows| |] eqn:Eg; try contradiction. cbn [rmap ra_data ra_geom] in H.
  injection H as H. rewrite <- H. unfold tagged.
  rewrite (contig_data_concat A dflt a' HW) by (rewrite Eg; exact I).
  f_equal. unfold Denote.denote. rewrite Eg. cbn [g_lengths g_rows g_step].
  symmetry. apply (map_zlen_cells A dflt). destruct HW as [Hrows _]. rewrite Eg in Hrows. eapply Forall_row_ok_nonneg. exact Hrows.
Qed.

Theorem resolve_cells (a' : ra A) idx : WF a' -> is_contig (ra_geom a') -> index_ok A (denote a') idx ->
  spec_getitem (tagged (denote a')) idx =
  match resolve a' idx with Ok t => Ok (cells_of t) | Refused => Refused end.
Proof.
  intros HW Hcg Hiok.
  assert (HWi : Denote.WF Z (id_array a')) by now apply id_array_WF.
  assert (Hcgi : is_contig (ra_geom (id_array a'))) by exact Hcg.
  assert (Hioki : index_ok Z (Denote.denote Z 0 (id_array a')) idx).
  { destruct idx; cbn [index_ok] in *; auto. rewrite denote_id by assumption. rewrite <- Hiok.
    apply lengths_of_zlen. apply tagged_zlen. }
  rewrite <- denote_id by assumption.
  rewrite <- (getitem_correct Z 0 (id_array a') idx HWi Hioki).
  rewrite (getitem_factor Z 0 (id_array a') idx HWi).
  assert (Hpre : pre Z (id_array a') idx = Ok (id_array a')).
  { unfold pre, materialise. destruct (materialises_first idx); [|reflexivity].
    cbn [id_array ra_geom]. destruct (ra_geom a'); try contradiction. reflexivity. }
  rewrite Hpre. cbn [rbind]. rewrite resolve_id.
  destruct (resolve a' idx) as [t|] eqn:Er; cbn [rbind]; [|reflexivity].
  apply gather_id. eapply (resolve_ok A dflt); eauto.
Qed.

(* ---------- values ---------- *)
Variable xor : A -> A -> A.
Hypothesis xor_assoc : forall a b c, xor a (xor b c) = xor (xor a b) c.
Hypothesis xor_comm : forall a b, xor a b = xor b a.
Hypothesis xor_nilp : forall a, xor a a = dflt.
Hypothesis xor_zero_l : forall a, xor dflt a = a.

Lemma segments_shape (ps : list Z) lens : all_nonneg lens -> zsum lens = zlen ps ->
  concat (segments ps lens) = ps /\ map zlen (segments ps lens) = lens /\ length (segments ps lens) = length lens.
Proof.
  intros H1 H2. split; [now apply segments_concat|]. split; [now apply segments_lengths|].
  rewrite <- (map_length zlen). now rewrite segments_lengths.
Qed.

Lemma expand_spec (n : Z) t (v : value A) : target_ok n t ->
  expand A dflt xor t v = spec_expand (cells_of t) v.
Proof.
  intros [_ Hs]. destruct t as [ps [|]|ps lens]; cbn [cells_of] in *.
  - destruct ps as [|p [|q ps]]; try discriminate. destruct v; reflexivity.
  - destruct v as [x|l1|l2|r]; [reflexivity|reflexivity| |reflexivity]. destruct l2 as [|x [|y l2]]; reflexivity.
  - destruct Hs as [Hnn Hsum]. destruct (segments_shape ps lens Hnn Hsum) as (Hc & Hz & Hl).
    destruct v as [x|l|l|r]; cbn [expand spec_expand]; rewrite ?Hc, ?Hz, ?Hl; try reflexivity.
    destruct l as [|x [|y l]]; try reflexivity.
    + destruct (Nat.eqb (length (@nil A)) (length lens)) eqn:E; [|reflexivity].
      rewrite (raw_broadcast_correct A dflt xor) by (auto; apply Nat.eqb_eq in E; exact E). reflexivity.
    + destruct (Nat.eqb (length (x :: y :: l)) (length lens)) eqn:E; [|reflexivity].
      rewrite (raw_broadcast_correct A dflt xor) by (auto; apply Nat.eqb_eq in E; exact E). reflexivity.
Qed.

Theorem setitem_correct (a : ra A) idx (v : value A) : WF a -> index_ok A (denote a) idx ->
  rbind (setitem A dflt xor a idx v) rows_of = spec_setitem (denote a) idx v.
Proof.
  intros HW Hiok. unfold setitem, spec_setitem.
  destruct (materialise_wf A dflt a HW) as (a' & Em & HW' & Hcg & Hd).
  rewrite Em. cbn [rbind]. rewrite <- Hd in *.
  rewrite (resolve_cells a' idx HW' Hcg Hiok).
  destruct (resolve a' idx) as [t|] eqn:Er; cbn [rbind]; [|reflexivity].
  pose proof (resolve_ok A dflt a' idx t HW' Hcg Hiok Er) as Hok.
  rewrite (expand_spec _ t v Hok).
  destruct (spec_expand (cells_of t) v) as [[ps vs]|]; cbn [rbind fst snd]; [|reflexivity].
  destruct (Nat.eqb (length ps) (length vs)); cbn [rbind]; [|reflexivity].
  unfold rows_of, materialise. cbn [ra_geom ra_data].
  destruct (ra_geom a') as [rows| |] eqn:Eg; try contradiction. cbn [rmap ra_data ra_geom].
  rewrite (contig_data_concat A dflt a' HW') by (rewrite Eg; exact I).
  do 2 f_equal. unfold Denote.denote. rewrite Eg. cbn [g_lengths g_rows g_step].
  symmetry. apply (map_zlen_cells A dflt). destruct HW' as [Hrows _]. rewrite Eg in Hrows. eapply Forall_row_ok_nonneg. exact Hrows.
Qed.
End F2.
End S.
Print Assumptions setitem_correct.
