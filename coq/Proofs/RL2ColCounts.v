From Coq Require Import ZifyBool Permutation.
From NPS Require Import ListAux PySlice NumpySem Scatter BuildIdx SliceAP XorBroadcast XorProof RLE RLEProof RLEOps RaOps RLE2d CanonProof BinaryProof StepNeg SortProof RLEIndex ArgmaxProof RL2Proof RL2Col ColProof RL2ColSum.
Open Scope Z_scope.

(* C17: RunLengthRaggedArray.col_counts (runlengtharray.py L903-907): np.unique of the row lengths with counts, the number of rows
   minus the running counts, as a run-length array over the columns.  The theorem: it decodes, for every column j below the longest
   row, to the number of rows that are longer than j. *)

Definition neg (p : Z * Z) : Z * Z := (fst p, - snd p).

Lemma dedup_unfold x r : dedup_sorted (x :: r) =
  match dedup_sorted r with (y, c) :: t => if x =? y then (y, c + 1) :: t else (x, 1) :: (y, c) :: t | [] => [(x, 1)] end.
Proof. reflexivity. Qed.

Lemma dedup_fsum s j : fsum (map neg (dedup_sorted s)) j = - cnt (fun l => l <=? j) s.
Proof.
  induction s as [|x r IH]; [reflexivity|]. rewrite dedup_unfold, cnt_cons. cbv beta. destruct (dedup_sorted r) as [|[y c] t].
  - cbn [map] in *. rewrite fsum_cons. cbn [fst snd neg]. change (fsum [] j) with 0 in *. destruct (x <=? j); lia.
  - cbn [map] in IH. rewrite fsum_cons in IH. cbn [fst snd neg] in IH.
    destruct (x =? y) eqn:E; cbn [map]; rewrite !fsum_cons; cbn [fst snd neg].
    + assert (x = y) by lia. subst y. destruct (x <=? j); lia.
    + destruct (x <=? j); destruct (y <=? j); lia.
Qed.

Fixpoint zsorted (lo : Z) (s : list Z) : Prop := match s with [] => True | x :: r => lo <= x /\ zsorted x r end.

Lemma dedup_hd : forall r x, exists c t, dedup_sorted (x :: r) = (x, c) :: t.
Proof.
  induction r as [|y r IH]; intros x; [now exists 1, []|]. destruct (IH y) as (c & t & E). rewrite dedup_unfold, E.
  destruct (x =? y) eqn:Exy; [assert (x = y) by lia; subst y|]; eauto.
Qed.
Lemma dedup_sorted_from : forall s lo, zsorted lo s -> sorted_from lo (map neg (dedup_sorted s)).
Proof.
  induction s as [|x r IH]; intros lo Hs; [exact I|]. destruct Hs as [Hlo Hs]. rewrite dedup_unfold.
  destruct r as [|y r']; [cbn; split; [lia|exact I]|].
  destruct (dedup_hd r' y) as (c & t & E). specialize (IH x Hs). rewrite E in *. cbn [map sorted_from fst snd neg] in IH.
  destruct IH as [Hxy Ht]. destruct (x =? y) eqn:Exy; cbn [map sorted_from fst snd neg].
  - split; [lia|exact Ht].
  - split; [lia|]. split; [lia|exact Ht].
Qed.
Lemma dedup_keys : forall s u, In u (map fst (dedup_sorted s)) <-> In u s.
Proof.
  induction s as [|x r IH]; intros u; [reflexivity|]. rewrite dedup_unfold. specialize (IH u). destruct (dedup_sorted r) as [|[y c] t].
  - cbn in *. tauto.
  - destruct (x =? y) eqn:E; cbn [map fst In] in *; [assert (x = y) by lia; subst y|]; tauto.
Qed.

Lemma last_In' {X} (l : list X) d : l <> [] -> In (last l d) l.
Proof. intros H. rewrite (app_removelast_last d H) at 2. apply in_or_app. right. now left. Qed.
Lemma sorted_from_last : forall S lo d, sorted_from lo S -> Forall (fun q => fst q <= fst (last S d)) S.
Proof.
  induction S as [|q S IH]; intros lo d H; [constructor|]. destruct H as [_ H]. destruct S as [|q' S'].
  - constructor; [cbn; lia|constructor].
  - change (last (q :: q' :: S') d) with (last (q' :: S') d). constructor; [|apply (IH _ d H)].
    pose proof (sorted_from_all _ _ H) as Hall. rewrite Forall_forall in Hall. apply Hall. apply last_In'. discriminate.
Qed.
Lemma sorted_from_prefix : forall A B lo, sorted_from lo (A ++ B) -> sorted_from lo A.
Proof. induction A as [|q A IH]; intros B lo H; [exact I|]. destruct H as [H1 H2]. split; [exact H1|]. eapply IH. exact H2. Qed.

Lemma sorted_keys_zsorted : forall (S : list (Z * unit)) lo, sorted_keys S -> match S with [] => True | q :: _ => lo <= fst q end -> zsorted lo (map fst S).
Proof.
  induction S as [|q S IH]; intros lo Hs Hlo; [exact I|]. cbn [map zsorted]. split; [exact Hlo|].
  destruct S as [|q' S']; [exact I|]. destruct Hs as [Hqq Hs]. apply IH; [exact Hs|exact Hqq].
Qed.
Lemma cnt_perm P l l' : Permutation l l' -> cnt P l = cnt P l'.
Proof. induction 1 as [|x l l' _ IH|x y l|l l' l'' _ IH1 _ IH2]; [reflexivity| | |lia]; rewrite !cnt_cons; lia. Qed.
Lemma cnt_compl P l : cnt P l + cnt (fun x => negb (P x)) l = zlen l.
Proof. induction l as [|x l IH]; [reflexivity|]. rewrite !cnt_cons. unfold zlen in *. cbn [length]. destruct (P x); cbn [negb]; lia. Qed.
Lemma cumsum_opp N : forall cs a, map (fun c => N - c) (cumsum_from a cs) = cumsum_from (N - a) (map Z.opp cs).
Proof. induction cs as [|c cs IH]; intros a; [reflexivity|]. cbn [cumsum_from map]. rewrite IH. replace (N - a + - c) with (N - (a + c)) by lia. reflexivity. Qed.
Lemma cumsum_from_snoc : forall l a z, cumsum_from a (l ++ [z]) = cumsum_from a l ++ [a + zsum l + z].
Proof. induction l as [|x l IH]; intros a z; cbn [app cumsum_from zsum]; [f_equal; lia|]. rewrite IH. do 3 f_equal. lia. Qed.

Theorem rl2_col_counts_correct (x : rl2) :
  let lens := map (fun ev => last ev 0) (r_idx x) in
  lens <> [] -> all_nonneg lens ->
  decode Z (rl2_col_counts x) = map (fun j => cnt (fun l => j <? l) lens) (ap 0 (fold_left Z.max lens 0) 1).
Proof.
  intros lens Hne Hnn. unfold rl2_col_counts. fold lens.
  set (N := zlen (r_idx x)). assert (HN : N = zlen lens) by (unfold N, lens, zlen; now rewrite map_length).
  set (T := stable_sort (map (fun l => (l, tt)) lens)). set (s := map fst T).
  assert (Hperm : Permutation lens s).
  { unfold s, T. rewrite <- sort_perm. rewrite map_map. cbn [fst]. now rewrite map_id. }
  assert (Hs0 : Forall (fun l => 0 <= l) s) by (eapply Permutation_Forall; eassumption).
  assert (Hsorted : zsorted 0 s).
  { unfold s. apply sorted_keys_zsorted; [apply sort_sorted|]. destruct T as [|q T'] eqn:ET; [exact I|]. unfold s in Hs0. cbn [map] in Hs0. now inversion Hs0. }
  assert (Hsne : s <> []) by (intros E; rewrite E in Hperm; apply Permutation_sym, Permutation_nil in Hperm; contradiction).
  set (U := dedup_sorted s).
  assert (HUne : U <> []). { unfold U. destruct s as [|a r]; [congruence|]. destruct (dedup_hd r a) as (c & t & E). rewrite E. discriminate. }
  pose proof (dedup_sorted_from s 0 Hsorted) as HfromU. fold U in HfromU.
  rewrite (app_removelast_last (0, 0) HUne) in *. set (U' := removelast U) in *. destruct (last U (0, 0)) as [um cm] eqn:Elast.
  (* the representation: boundaries 0, u1..um; values N, N - c1, ... *)
  rewrite !map_app. cbn [map fst snd]. unfold cumsum. rewrite cumsum_from_snoc.
  change (0 :: cumsum_from 0 (map snd U') ++ [0 + zsum (map snd U') + cm]) with ((0 :: cumsum_from 0 (map snd U')) ++ [0 + zsum (map snd U') + cm]).
  rewrite map_app. cbn [map]. match goal with |- context [removelast (?a :: ?l ++ [?z])] => change (removelast (a :: l ++ [z])) with (removelast ((a :: l) ++ [z])); rewrite removelast_last end. rewrite cumsum_opp.
  assert (Em1 : map fst U' = map fst (map neg U')) by (rewrite map_map; reflexivity).
  assert (Em2 : map Z.opp (map snd U') = map snd (map neg U')) by (rewrite !map_map; reflexivity).
  rewrite Em1, Em2. replace (N - 0) with (0 + N) by lia.
  change ((0 + N) :: cumsum_from (0 + N) (map snd (map neg U'))) with (cumsum_from 0 (N :: map snd (map neg U'))).
  rewrite map_app in HfromU. cbn [map] in HfromU.
  pose proof (sorted_from_last _ 0 (0, 0) HfromU) as Hle. rewrite last_last in Hle. cbn [fst snd neg] in Hle.
  apply Forall_app in Hle. destruct Hle as [Hle _].
  (* um is the largest length *)
  assert (Hum_in : In um s).
  { apply dedup_keys. fold U. rewrite (app_removelast_last (0, 0) HUne), Elast, map_app. apply in_or_app. right. now left. }
  assert (Hum0 : 0 <= um) by (rewrite Forall_forall in Hs0; now apply Hs0).
  assert (Hall_le : forall l, In l s -> l <= um).
  { intros l Hl. apply dedup_keys in Hl. fold U in Hl. rewrite (app_removelast_last (0, 0) HUne), Elast in Hl. fold U' in Hl.
    rewrite map_app in Hl. apply in_app_or in Hl. destruct Hl as [Hl|[<-|[]]]; [|cbn; lia].
    apply in_map_iff in Hl. destruct Hl as (q & <- & Hq). rewrite Forall_forall in Hle. specialize (Hle (neg q) (in_map neg _ _ Hq)). exact Hle. }
  assert (Emax : fold_left Z.max lens 0 = um).
  { pose proof (max_fold_ge lens 0) as [Hge Hall]. pose proof (max_in lens 0) as Hin.
    assert (um <= fold_left Z.max lens 0).
    { rewrite Forall_forall in Hall. apply Hall. eapply Permutation_in; [apply Permutation_sym; exact Hperm|exact Hum_in]. }
    destruct Hin as [E0|Hin]; [lia|]. specialize (Hall_le _ (Permutation_in _ Hperm Hin)). lia. }
  rewrite Emax.
  rewrite (events_decode (map neg U') 0 N 0 um (sorted_from_prefix _ _ _ HfromU) Hle Hum0).
  replace (um - 0) with um by lia. apply map_ext_in. intros j Hj.
  assert (Hj0 : 0 <= j < um).
  { unfold ap in Hj. apply In_nth with (d := 0) in Hj. destruct Hj as (k & Hk & Ek). rewrite ap_nat_length in Hk. rewrite ap_nat_nth in Ek by exact Hk. lia. }
  rewrite fsum_cons. cbn [fst snd]. replace (0 <=? j) with true by lia.
  pose proof (dedup_fsum s j) as Hd. fold U in Hd. rewrite (app_removelast_last (0, 0) HUne), Elast in Hd. fold U' in Hd.
  rewrite map_app, fsum_app in Hd. cbn [map] in Hd. rewrite fsum_cons in Hd. cbn [fst snd neg] in Hd.
  replace (um <=? j) with false in Hd by lia. change (fsum [] j) with 0 in Hd.
  pose proof (cnt_compl (fun l => l <=? j) s) as Hc. cbv beta in Hc.
  rewrite (cnt_perm _ _ _ Hperm).
  assert (Ec : cnt (fun x => negb (x <=? j)) s = cnt (fun l => j <? l) s).
  { unfold cnt. f_equal. apply filter_ext. intros a. destruct (a <=? j) eqn:E1; destruct (j <? a) eqn:E2; cbn [negb]; try reflexivity; lia. }
  assert (zlen s = N) by (rewrite HN; unfold zlen; now rewrite (Permutation_length Hperm)).
  lia.
Qed.
Print Assumptions rl2_col_counts_correct.

Example col_counts_example :
  let x := {| r_idx := [[0; 2; 5]; [0]; [0; 1; 2]; [0; 5]] ; r_val := [[1; 2]; []; [3; 4]; [7]] ; r_len := None |} in
  decode Z (rl2_col_counts x) = [3; 3; 2; 2; 2].
Proof. reflexivity. Qed.
