From NPS Require Import ListAux.
Open Scope Z_scope.

(* CPython: PySlice_Unpack + PySlice_AdjustIndices.  step <> 0 is a precondition (Python raises ValueError). *)
Record pyslice := { sl_start : option Z ; sl_stop : option Z ; sl_step : option Z }.

Definition step_of (s : pyslice) : Z := match sl_step s with None => 1 | Some k => k end.

Definition adj (len step : Z) (o : option Z) (is_start : bool) : Z :=
  match o with
  | None => if step <? 0 then (if is_start then len - 1 else -1) else (if is_start then 0 else len)
  | Some v =>
     if v <? 0 then
       (if v + len <? 0 then (if step <? 0 then -1 else 0) else v + len)
     else if v >=? len then (if step <? 0 then len - 1 else len) else v
  end.

Definition py_start (len : Z) (s : pyslice) := adj len (step_of s) (sl_start s) true.
Definition py_stop (len : Z) (s : pyslice) := adj len (step_of s) (sl_stop s) false.
Definition py_count (len : Z) (s : pyslice) : Z :=
  let st := py_start len s in let e := py_stop len s in let k := step_of s in
  if k <? 0 then (if e <? st then (st - e - 1) / (- k) + 1 else 0)
  else (if st <? e then (e - st - 1) / k + 1 else 0).

(* arithmetic progression start, start+step, ... (n terms) *)
Fixpoint ap_nat (start step : Z) (n : nat) : list Z :=
  match n with O => [] | S n' => start :: ap_nat (start + step) step n' end.
Definition ap (start n step : Z) : list Z := ap_nat start step (Z.to_nat n).

(* positions selected by a slice in a sequence of length len *)
Definition py_positions (len : Z) (s : pyslice) : list Z := ap (py_start len s) (py_count len s) (step_of s).

Definition znth {A} (d : A) (l : list A) (i : Z) : A := nth (Z.to_nat i) l d.

(* list slicing l[start:stop:step] *)
Definition py_getslice {A} (d : A) (l : list A) (s : pyslice) : list A :=
  map (znth d l) (py_positions (zlen l) s).

(* integer indexing with negative wrap; None = IndexError *)
Definition py_norm_index (len i : Z) : option Z :=
  if (i <? - len) || (i >=? len) then None else Some (if i <? 0 then i + len else i).
Definition py_index {A} (l : list A) (i : Z) : option A :=
  match py_norm_index (zlen l) i with None => None | Some j => nth_error l (Z.to_nat j) end.

Definition SL a b c := {| sl_start := a; sl_stop := b; sl_step := c |}.
Example ex1 : py_getslice 0 [10;11;12;13;14] (SL (Some 1) None (Some 2)) = [11;13]. Proof. reflexivity. Qed.
Example ex2 : py_getslice 0 [10;11;12;13;14] (SL None None (Some (-2))) = [14;12;10]. Proof. reflexivity. Qed.
Example ex3 : py_getslice 0 [10;11;12;13;14] (SL (Some 9) (Some (-9)) (Some (-1))) = [14;13;12;11;10]. Proof. reflexivity. Qed.
Example ex4 : py_getslice 0 (@nil Z) (SL (Some 1) None (Some (-1))) = []. Proof. reflexivity. Qed.
