From NPS Require Import ListAux PySlice NumpySem BuildIdx RLE.
Open Scope Z_scope.

(* C11 / C12: HashTable, HashSet, Counter (hashtable.py), on top of the row/cell semantics proved in C01-C03.
   keys live in `m` buckets (rows of a ragged array); values are one scalar for all keys, or bucket-aligned *)
Section Hash.
Variable V : Type.
Variable veq : V -> V -> bool.

Inductive tvals := VOne (v : V) | VAligned (vb : list (list V)).
Record table := { t_mod : Z ; t_keys : list (list Z) ; t_vals : tvals }.

Definition hash (m k : Z) : Z := k mod m.                     (* _get_hash; numpy % is floor-mod *)
Definition default_mod (n : Z) : Z := 2 * n - 1.              (* _get_mod *)

(* bucket h = keys whose hash is h, in (stable) argsort order; lengths from the hash histogram *)
Definition bucket_of {X} (m : Z) (kx : list (Z * X)) (h : Z) : list (Z * X) :=
  filter (fun p => hash m (fst p) =? h) kx.
Definition buckets {X} (m : Z) (kx : list (Z * X)) : list (list (Z * X)) :=
  map (bucket_of m kx) (ap 0 m 1).

Definition mk (keys : list Z) (vals : list V) (m : Z) : res table :=
  if (m <=? 0) || negb (Nat.eqb (length keys) (length vals)) then Refused else
  let b := buckets m (combine keys vals) in
  Ok {| t_mod := m ; t_keys := map (map fst) b ; t_vals := VAligned (map (map snd) b) |}.
Definition mk_scalar (keys : list Z) (v : V) (m : Z) : res table :=
  if m <=? 0 then Refused else
  Ok {| t_mod := m ; t_keys := map (map fst) (buckets m (combine keys keys)) ; t_vals := VOne v |}.

(* positions j with row[j] = k *)
Fixpoint match_offsets (off : Z) (row : list Z) (k : Z) : list Z :=
  match row with [] => [] | x :: r => if x =? k then off :: match_offsets (off + 1) r k else match_offsets (off + 1) r k end.

(* _get_indices, vector form: (hashes, offsets) or IndexError when fewer matches than queries *)
Definition get_indices (t : table) (ks : list Z) : res (list (Z * Z)) :=
  let hs := map (hash (t_mod t)) ks in
  let ms := flat_map (fun k => let h := hash (t_mod t) k in
                               map (fun j => (h, j)) (match_offsets 0 (nth (Z.to_nat h) (t_keys t) []) k)) ks in
  if (length ms <? length ks)%nat then Refused else Ok ms.

Definition cell {X} (dx : X) (b : list (list X)) (p : Z * Z) : X := nth (Z.to_nat (snd p)) (nth (Z.to_nat (fst p)) b []) dx.

Definition contains_all (t : table) (ks : list Z) : bool :=
  forallb (fun k => existsb (Z.eqb k) (nth (Z.to_nat (hash (t_mod t) k)) (t_keys t) [])) ks.

(* __getitem__ with a vector of keys (incl. repair F11: membership is checked on the scalar path too) *)
Definition getv (dv : V) (t : table) (ks : list Z) : res (list V) :=
  match t_vals t with
  | VOne v => if contains_all t ks then Ok (map (fun _ => v) ks) else Refused
  | VAligned vb => rmap (map (cell dv vb)) (get_indices t ks)
  end.

(* contains / HashSet.contains *)
Definition contains (t : table) (ks : list Z) : list bool :=
  map (fun k => existsb (Z.eqb k) (nth (Z.to_nat (hash (t_mod t) k)) (t_keys t) [])) ks.

(* _fill_values then values[indices] = value *)
Definition fill_values (t : table) : list (list V) :=
  match t_vals t with VOne v => map (map (fun _ => v)) (t_keys t) | VAligned vb => vb end.
Fixpoint set_nth {X} (l : list X) (n : nat) (v : X) : list X :=
  match l, n with [], _ => [] | _ :: r, O => v :: r | x :: r, S n' => x :: set_nth r n' v end.
Definition set_cell {X} (b : list (list X)) (p : Z * Z) (v : X) : list (list X) :=
  set_nth b (Z.to_nat (fst p)) (set_nth (nth (Z.to_nat (fst p)) b []) (Z.to_nat (snd p)) v).
Fixpoint set_cells {X} (b : list (list X)) (ps : list (Z * Z)) (vs : list X) : list (list X) :=
  match ps, vs with p :: ps', v :: vs' => set_cells (set_cell b p v) ps' vs' | _, _ => b end.
Definition setv (t : table) (ks : list Z) (vs : list V) : res table :=
  rbind (get_indices t ks) (fun ps =>
  if negb (Nat.eqb (length ps) (length vs)) then Refused else
  Ok {| t_mod := t_mod t ; t_keys := t_keys t ; t_vals := VAligned (set_cells (fill_values t) ps vs) |}).
Definition set_scalar (t : table) (ks : list Z) (v : V) : res table := setv t ks (map (fun _ => v) ks).
Definition fill (t : table) (v : V) : table :=
  {| t_mod := t_mod t ; t_keys := t_keys t ;
     t_vals := match t_vals t with VOne _ => VOne v | VAligned vb => VAligned (map (map (fun _ => v)) vb) end |}.
Definition items (dv : V) (t : table) : list (Z * V) := combine (concat (t_keys t)) (concat (fill_values t)).

(* __eq__ (after repair F29): as dictionaries - as many keys, every key of self is a key of other, and the values looked up through
   both tables agree *)
Fixpoint list_eqb_v (a b : list V) : bool :=
  match a, b with [], [] => true | x :: a', y :: b' => veq x y && list_eqb_v a' b' | _, _ => false end.
Definition tbl_eq (dv : V) (t1 t2 : table) : bool :=
  let keys := concat (t_keys t1) in
  if negb (Nat.eqb (length keys) (length (concat (t_keys t2)))) || negb (forallb (fun b => b) (contains t2 keys)) then false else
  match getv dv t1 keys, getv dv t2 keys with Ok a, Ok b => list_eqb_v a b | _, _ => false end.

(* __add__ (L161-169): refused unless the two key arrays are equal (same buckets, same order inside them); then the values are added
   position by position (a constant is broadcast), and the result is built on the same key array (its modulus is the number of buckets) *)
Variable vadd : V -> V -> V.
Fixpoint zlist_eqb (a b : list Z) : bool :=
  match a, b with [], [] => true | x :: a', y :: b' => (x =? y) && zlist_eqb a' b' | _, _ => false end.
Fixpoint rows_eqb (a b : list (list Z)) : bool :=
  match a, b with [], [] => true | x :: a', y :: b' => zlist_eqb x y && rows_eqb a' b' | _, _ => false end.
Definition vals_add (a b : tvals) : tvals :=
  match a, b with
  | VOne x, VOne y => VOne (vadd x y)
  | VOne x, VAligned vb => VAligned (map (map (vadd x)) vb)
  | VAligned va, VOne y => VAligned (map (map (fun v => vadd v y)) va)
  | VAligned va, VAligned vb => VAligned (map2 (map2 vadd) va vb)
  end.
Definition tbl_add (t1 t2 : table) : res table :=
  if rows_eqb (t_keys t1) (t_keys t2)
  then Ok {| t_mod := zlen (t_keys t1) ; t_keys := t_keys t1 ; t_vals := vals_add (t_vals t1) (t_vals t2) |}
  else Refused.
(* np.zeros_like / np.ones_like (L209-218): a table on the same key array holding one constant *)
Definition tbl_like (t : table) (v : V) : table := {| t_mod := zlen (t_keys t) ; t_keys := t_keys t ; t_vals := VOne v |}.
End Hash.
Arguments t_mod {V}. Arguments t_keys {V}. Arguments t_vals {V}. Arguments VOne {V}. Arguments VAligned {V}.

(* Counter.count (hashtable.py L240-282): counts are integers *)
Definition bincount_at (n : nat) (idx : list Z) : list Z :=
  map (fun p => Z.of_nat (length (filter (Z.eqb (Z.of_nat p)) idx))) (seq 0 n).
Definition count (t : table Z) (samples : list Z) : table Z :=
  let m := t_mod t in
  let lens := map zlen (t_keys t) in
  let starts := excl_prefix lens in
  (* samples whose bucket is non-empty; for each, the flat position of every matching key *)
  let live := filter (fun k => negb (nth (Z.to_nat (hash m k)) lens 0 =? 0)) samples in
  let flat := flat_map (fun k => let h := hash m k in
                        map (fun j => nth (Z.to_nat h) starts 0 + j) (match_offsets 0 (nth (Z.to_nat h) (t_keys t) []) k)) live in
  match flat with
  | [] => t                                             (* if not rows.size: return *)
  | _ =>
    let size := Z.to_nat (zsum lens) in
    let inc := bincount_at size flat in
    let old := match t_vals t with
               | VOne v => map (fun _ => v) inc
               | VAligned vb => concat vb
               end in
    {| t_mod := m ; t_keys := t_keys t ; t_vals := VAligned (segments (map2 Z.add old inc) lens) |}
  end.
