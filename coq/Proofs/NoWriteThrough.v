From NPS Require Import ListAux PySlice NumpySem Heap HeapProof.
From Coq Require Import List Arith Bool Lia.
Import ListNotations.
Close Scope Z_scope.
Open Scope nat_scope.

(* C06 (aliasing clause): assigning into a derived array never alters the array it was derived from.
   In the heap machine a derived array always has a larger index than its source; the theorem says that an assignment into array x
   leaves the content of EVERY older array unchanged, in every reachable heap (any history of builds, selections, reads and assignments).
   Invariant: a buffer named by a materialised (contiguous) array w is named only by w and by arrays created after w. *)
Section NWT.
Variable A : Type.
Variable dflt : A.
Variable sel : Type.
Variable apply_sel : forall X : Type, sel -> list (list X) -> list (list X).

Notation heap := (heap A).
Notation get_arr := (get_arr A).
Notation step := (step A dflt sel apply_sel).
Notation materialise := (materialise A dflt).

Definition J (h : heap) : Prop :=
  (forall x a, get_arr h x = Some a -> a_buf a < length (bufs A h)) /\
  (forall w aw y b, get_arr h w = Some aw -> a_contig aw = true -> get_arr h y = Some b -> a_buf b = a_buf aw -> w <= y).

Lemma J_empty : J (empty_heap A).
Proof. split; intros x a H; unfold Heap.get_arr, empty_heap in H; cbn in H; destruct x; discriminate. Qed.

Lemma get_arr_app_l h bs y b new : Heap.get_arr A {| bufs := bs ; arrs := arrs A h ++ [new] |} y = Some b ->
  (y < length (arrs A h) /\ get_arr h y = Some b) \/ (y = length (arrs A h) /\ b = new).
Proof.
  unfold Heap.get_arr. cbn. intros H. destruct (Nat.lt_ge_cases y (length (arrs A h))) as [L|G].
  - left. rewrite nth_error_app1 in H by assumption. auto.
  - right. rewrite nth_error_app2 in H by assumption. destruct (y - length (arrs A h)) as [|k] eqn:E; cbn in H.
    + split; [lia|congruence]. + destruct k; discriminate.
Qed.

Lemma get_arr_bound h y b : get_arr h y = Some b -> y < length (arrs A h).
Proof. intros H. apply nth_error_Some. unfold Heap.get_arr in H. congruence. Qed.

Lemma materialise_J h x : J h ->
  J (materialise h x) /\
  (forall a, get_arr (materialise h x) x = Some a -> a_contig a = true) /\
  (forall y, y <> x -> get_arr (materialise h x) y = get_arr h y) /\
  (forall b, b < length (bufs A h) -> get_buf A (materialise h x) b = get_buf A h b) /\
  length (arrs A (materialise h x)) = length (arrs A h).
Proof.
  intros [Hb Hs]. unfold Heap.materialise.
  destruct (get_arr h x) as [a|] eqn:E; [|repeat split; auto; intros; congruence].
  destruct (a_contig a) eqn:C; [repeat split; auto; intros; congruence|].
  pose proof (get_arr_bound h x a E) as Hx.
  set (new := {| a_buf := length (bufs A h); a_rows := _; a_contig := true |}).
  set (h' := {| bufs := _ ; arrs := set_nth (arrs A h) x new |}).
  assert (Gx : Heap.get_arr A h' x = Some new) by (unfold Heap.get_arr, h'; cbn; now apply nth_error_set_nth_same).
  assert (Gy : forall y, y <> x -> Heap.get_arr A h' y = get_arr h y) by (intros y Hy; unfold Heap.get_arr, h'; cbn; now apply nth_error_set_nth_other).
  repeat split.
  - intros y b Hyb. unfold h'; cbn [bufs]. rewrite app_length; cbn [length]. destruct (Nat.eq_dec y x) as [->|Hne].
    + rewrite Gx in Hyb. injection Hyb as <-. cbn. lia.
    + rewrite Gy in Hyb by assumption. specialize (Hb y b Hyb). lia.
  - intros w aw y b Hw Cw Hy Eb. destruct (Nat.eq_dec w x) as [->|Hwx]; destruct (Nat.eq_dec y x) as [->|Hyx]; try lia.
    + rewrite Gx in Hw. injection Hw as <-. rewrite Gy in Hy by assumption. specialize (Hb y b Hy). cbn in Eb. lia.
    + rewrite Gx in Hy. injection Hy as <-. rewrite Gy in Hw by assumption. specialize (Hb w aw Hw). cbn in Eb. lia.
    + rewrite Gy in Hw, Hy by assumption. eapply Hs; eauto.
  - intros a' Ha'. rewrite Gx in Ha'. now injection Ha' as <-.
  - exact Gy.
  - intros b Hlt. unfold Heap.get_buf, h'. cbn. now rewrite app_nth1.
  - unfold h'. cbn. apply set_nth_length.
Qed.

Lemma step_J h o : J h -> J (fst (step h o)).
Proof.
  intros HJ. destruct o as [r|x s|x|x s v]; cbn [Heap.step fst].
  - (* build *) destruct HJ as [Hb Hs]. split.
    + intros y b Hy. cbn [bufs]. rewrite app_length; cbn [length]. apply get_arr_app_l in Hy as [[_ Hy]|[_ ->]]; [specialize (Hb y b Hy); lia|cbn; lia].
    + intros w aw y b Hw Cw Hy Eb. apply get_arr_app_l in Hw as [[Lw Hw]|[Ew Eaw]]; apply get_arr_app_l in Hy as [[Ly Hy]|[Ey Eby]].
      * eapply Hs; eauto.
      * lia.
      * subst aw. specialize (Hb y b Hy). cbn in Eb. lia.
      * lia.
  - (* select *) destruct (get_arr h x) as [a|] eqn:E; cbn [fst]; [|exact HJ]. destruct HJ as [Hb Hs]. split.
    + intros y b Hy. cbn [bufs]. apply get_arr_app_l in Hy as [[_ Hy]|[_ ->]]; [now apply (Hb y b)|cbn; now apply (Hb x a)].
    + intros w aw y b Hw Cw Hy Eb. apply get_arr_app_l in Hw as [[Lw Hw]|[Ew Eaw]]; [|subst aw; cbn in Cw; discriminate].
      apply get_arr_app_l in Hy as [[Ly Hy]|[Ey Eby]]; [eapply Hs; eauto|lia].
  - (* read *) apply materialise_J. exact HJ.
  - (* assign *) destruct (materialise_J h x HJ) as ([Hb Hs] & _). destruct (get_arr (materialise h x) x) as [a|] eqn:E; cbn [fst]; [|split; assumption].
    split.
    + intros y b Hy. cbn [bufs]. rewrite set_nth_length. now apply (Hb y b).
    + intros w aw y b Hw Cw Hy Eb. eapply Hs; eauto.
Qed.

Definition heap_after (ops : list (op A sel)) : heap := fold_left (fun h o => fst (step h o)) ops (empty_heap A).
Lemma heap_after_J ops : J (heap_after ops).
Proof.
  unfold heap_after. assert (G : forall h, J h -> J (fold_left (fun h o => fst (step h o)) ops h)).
  { induction ops as [|o ops IH]; intros h Hh; [exact Hh|]. cbn [fold_left]. apply IH. now apply step_J. }
  apply G, J_empty.
Qed.

Theorem assign_leaves_older_arrays_unchanged (pre : list (op A sel)) (x : nat) (s : sel) (v : A) (y : nat) : y < x ->
  content A dflt (fst (step (heap_after pre) (OAssign A sel x s v))) y = content A dflt (heap_after pre) y.
Proof.
  intros Hyx. set (h := heap_after pre). pose proof (heap_after_J pre) as HJ. fold h in HJ.
  destruct (materialise_J h x HJ) as (HJ' & Hc & Hoth & Hbuf & Hlen).
  cbn [Heap.step]. set (h' := materialise h x) in *.
  assert (Gy : get_arr h' y = get_arr h y) by (apply Hoth; lia).
  unfold Heap.content.
  destruct (get_arr h' x) as [a|] eqn:Ex; cbn [fst].
  - unfold Heap.get_arr in *. cbn [arrs]. rewrite Gy. destruct (nth_error (arrs A h) y) as [b|] eqn:Ey; [|reflexivity]. cbn [option_map]. f_equal.
    unfold Heap.content_arr.
    assert (Hne : a_buf b <> a_buf a).
    { intros Eb. destruct HJ' as [_ Hs']. assert (x <= y); [|lia]. eapply (Hs' x a y b); eauto; try (unfold Heap.get_arr; rewrite Gy; assumption); try (rewrite Gy; assumption). }
    assert (Hbb : a_buf b < length (bufs A h)) by (destruct HJ as [Hb _]; now apply (Hb y b)).
    apply map_ext. intros row. apply map_ext. intros p. f_equal.
    unfold Heap.get_buf at 1. cbn [bufs]. rewrite nth_set_nth_other by assumption. apply Hbuf. exact Hbb.
  - unfold Heap.get_arr in *. rewrite Gy. destruct (nth_error (arrs A h) y) as [b|] eqn:Ey; [|reflexivity]. cbn [option_map]. f_equal.
    unfold Heap.content_arr. apply map_ext. intros row. apply map_ext. intros p. f_equal. apply Hbuf.
    destruct HJ as [Hb _]. now apply (Hb y b).
Qed.
End NWT.
