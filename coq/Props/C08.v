(* C08 — property theorems only: each restates the full statement and is closed by the lemma proved in Proofs/. *)
From Coq Require Import ZArith List Bool.
From NPS Require Import ListAux PySlice NumpySem Scatter BuildIdx XorBroadcast View Index Assign Reduce Scan RaOps Heap Hash HashRun BitArr RLE RLEOps RLE2d DataClass RowsSpec AssignSpec MapSpec Denote StructProof SubsetProof RSliceProof RSliceInputs NonzeroProof PaddedProof Struct2 Struct2Proof.
Import ListNotations.
Open Scope Z_scope.

Theorem C08_concat0_correct :
  forall (A : Type) (Rs : list (list (list A))), fr_rows (ra_concat0 (map fr_of_rows Rs)) = concat Rs.
Proof. exact concat0_correct. Qed.
Print Assumptions C08_concat0_correct.

Theorem C08_concat1_correct :
  forall (A : Type) (xs : list (list (list A))),
       let R := fr_rows (ra_concat1 xs) in
       length R = min_len xs /\
       (forall i : nat,
        (i < min_len xs)%nat -> nth i R [] = concat (map (fun x : list (list A) => nth i x []) xs)).
Proof. exact concat1_correct. Qed.
Print Assumptions C08_concat1_correct.

Theorem C08_like_correct :
  forall (A : Type) (R : list (list A)) (c : A),
       fr_rows (ra_like (fr_of_rows R) c) = map (fun r : list A => repeat c (length r)) R.
Proof. exact like_correct. Qed.
Print Assumptions C08_like_correct.

Theorem C08_where_correct :
  forall (A : Type) (M : list (list bool)) (X Y : list (list A)),
       map zlen X = map zlen M ->
       map zlen Y = map zlen M ->
       rmap fr_rows (ra_where (fr_of_rows M) (fr_of_rows X) (fr_of_rows Y)) = Ok (spec_where M X Y).
Proof. exact where_correct. Qed.
Print Assumptions C08_where_correct.

Theorem C08_where_scalar_correct :
  forall (A : Type) (M : list (list bool)) (X : list (list A)) (y : A),
       map zlen X = map zlen M ->
       rmap fr_rows (ra_where_s (fr_of_rows M) (fr_of_rows X) y) = Ok (spec_where_s M X y).
Proof. exact where_scalar_correct. Qed.
Print Assumptions C08_where_scalar_correct.

Theorem C08_subset_correct :
  forall (A : Type) (R : list (list A)) (M : list (list bool)),
       same_shape A R M -> ra_subset (fr_of_rows R) (concat M) = Ok (fr_of_rows (spec_subset R M)).
Proof. exact subset_correct. Qed.
Print Assumptions C08_subset_correct.

Theorem C08_ragged_slice_correct :
  forall A : Type,
       A ->
       forall T : list (triple A),
       Forall (within A) T ->
       ra_ragged_slice (fr_of_rows (map (t_row A) T)) (map (t_start A) T) (map (t_end A) T) =
       Ok (fr_of_rows (spec_ragged_slice (map (t_row A) T) (map (t_start A) T) (map (t_end A) T))).
Proof. exact ragged_slice_correct. Qed.
Print Assumptions C08_ragged_slice_correct.

Theorem C08_ragged_slice_1d_correct :
  forall A : Type,
       A ->
       forall (d : list A) (starts ends : list Z),
       length starts = length ends ->
       Forall (within1 (zlen d)) (combine starts ends) ->
       ra_ragged_slice_1d d starts ends =
       Ok (fr_of_rows (map (fun se : Z * Z => spec_row A (d, se)) (combine starts ends))).
Proof. exact ragged_slice_1d_correct. Qed.
Print Assumptions C08_ragged_slice_1d_correct.

Theorem C08_ragged_slice_2d_is_ragged :
  forall (A : Type) (M : list (list A)) (w : Z) (starts ends : list Z),
       Forall (fun r : list A => zlen r = w) M ->
       ra_ragged_slice_2d M w starts ends = ra_ragged_slice (fr_of_rows M) starts ends.
Proof. exact ragged_slice_2d_is_ragged. Qed.
Print Assumptions C08_ragged_slice_2d_is_ragged.

Theorem C08_ragged_slice_2d_correct :
  forall A : Type,
       A ->
       forall (T : list (triple A)) (w : Z),
       Forall (within A) T ->
       Forall (fun t : triple A => zlen (t_row A t) = w) T ->
       ra_ragged_slice_2d (map (t_row A) T) w (map (t_start A) T) (map (t_end A) T) =
       Ok (fr_of_rows (spec_ragged_slice (map (t_row A) T) (map (t_start A) T) (map (t_end A) T))).
Proof. exact ragged_slice_2d_correct. Qed.
Print Assumptions C08_ragged_slice_2d_correct.

Theorem C08_nonzero_correct :
  forall R : list (list Z), ra_nonzero (fr_of_rows R) = spec_nonzero R.
Proof. exact nonzero_correct. Qed.
Print Assumptions C08_nonzero_correct.

Theorem C08_padded_correct :
  forall (R : list (list Z)) (fill : Z) (left : bool),
       ra_padded (fr_of_rows R) fill left = Ok (spec_padded R fill left).
Proof. exact padded_correct. Qed.
Print Assumptions C08_padded_correct.
