From NPS Require Import ListAux PySlice NumpySem RLE Index.
Open Scope Z_scope.

(* C02: what the same selectors give on the plain list of rows *)
Definition spec_rows {A} (r : list (list A)) (s : rsel) : res (list (list A) * bool) :=   (* rows, squeezed? *)
  match s with
  | ROne i => rmap (fun x => ([x], true)) (np_item r i)
  | RMany s => rmap (fun x => (x, false)) (sel_rows s r)
  end.

Definition spec_getitem {A} (r : list (list A)) (idx : index) : res (result A) :=
  match idx with
  | IEmpty => Ok (RRagged r)
  | IRow s =>
      rbind (spec_rows r s) (fun p =>
      match p with
      | ([x], true) => Ok (RFlat x)
      | (rows, _) => Ok (RRagged rows)
      end)
  | IMask m =>
      if list_eq_dec Nat.eq_dec (map (@length A) r) (map (@length bool) m)
      then Ok (RFlat (mask_filter (concat r) (concat m))) else Refused
  | IRowCol rs cs =>
      match element_pairs rs cs with
      | Some (pairs, is_scalar) =>
          rbind (rsequence (map (fun p => rbind (np_item r (fst p)) (fun row => np_item row (snd p))) pairs)) (fun l =>
          if is_scalar then match l with [x] => Ok (RScalar x) | _ => Refused end else Ok (RFlat l))
      | None =>
          if is_int_typed rs cs then Refused else
          rbind (spec_rows r rs) (fun p =>
          let '(rows, squeezed) := p in
          match cs with
          | CInt j => rmap RFlat (rsequence (map (fun row => np_item row j) rows))
          | CList _ => Refused
          | CSlice _ | CAll =>
              let sl := match cs with CSlice sl => sl | _ => all_slice end in
              if negb (valid_slice sl) then Refused else
              rbind (rsequence (map (fun row => np_slice row sl) rows)) (fun rows' =>
              if squeezed then match rows' with [x] => Ok (RFlat x) | _ => Refused end else Ok (RRagged rows'))
          end)
      end
  end.
