From NPS Require Import ListAux NumpySem BuildIdx RLE RLEOps RLE2d.
Open Scope Z_scope.

(* row-wise any / all / mean of the 2-D run-length arrays (runlengtharray.py: RunLength2dArray.any / all L649-655 -- computed on the run
   values only, `self._values.any(axis=-1)` -- and RunLengthRaggedArray.mean(axis=-1) L887-895: the row sum divided by the row length,
   which is the last boundary of the row).  The division is a parameter. *)
Definition nz (v : Z) : bool := negb (v =? 0).
Definition rl2_any_rows (x : rl2) : list bool := map (existsb nz) (r_val x).
Definition rl2_all_rows (x : rl2) : list bool := map (forallb nz) (r_val x).
Definition rl2_row_lens (x : rl2) : list Z :=
  match r_len x with None => map (fun ev => last ev 0) (r_idx x) | Some n => map (fun _ => n) (r_idx x) end.
Definition rl2_mean_rows {C} (dv : Z -> Z -> C) (x : rl2) : list C := map2 dv (rl2_sum x) (rl2_row_lens x).
