From NPS Require Import ListAux Hash K_hash.
Open Scope Z_scope.
(* HashTable._get_hash re-translated from the current source = the hash of Model/Hash.v *)
Lemma tie_hash k m : gen_hash k m = hash m k.
Proof. reflexivity. Qed.

