#!/venv/bin/python
"""Mutation sweep (self-validation, not part of any registered command).

Single-point AST mutants of one source file of /repo's HEAD; every mutant that still passes the pinned suite is run through the checks
of the properties anchored in that file (in the given order, stopping at the first that flags it).

  mutation_sweep.py <relative source file> <P1,P2,...> [limit] [out.json]

Scratch copies live under /root/scratch/mutsweep/<file stem>/ and are removed afterwards."""
import ast, copy, json, os, random, shutil, subprocess, sys, pathlib
ROOT = pathlib.Path(__file__).resolve().parents[1]
rel = sys.argv[1]; props = sys.argv[2].split(","); LIMIT = int(sys.argv[3]) if len(sys.argv) > 3 else 40
stem = rel.replace("/", "_").replace(".py", "")
OUT = sys.argv[4] if len(sys.argv) > 4 else str(ROOT / "selftest" / f"sweep_{stem}.json")
WORK = f"/root/scratch/mutsweep/{stem}"
CMP = {ast.Lt: ast.LtE, ast.LtE: ast.Lt, ast.Gt: ast.GtE, ast.GtE: ast.Gt, ast.Eq: ast.NotEq, ast.NotEq: ast.Eq}
BIN = {ast.Add: ast.Sub, ast.Sub: ast.Add, ast.Mult: ast.FloorDiv, ast.FloorDiv: ast.Mult, ast.BitAnd: ast.BitOr, ast.BitOr: ast.BitAnd, ast.LShift: ast.RShift, ast.RShift: ast.LShift}


def sites_of(tree):
    sites = []
    for node in ast.walk(tree):
        if isinstance(node, ast.FunctionDef):
            for sub in ast.walk(node):
                if isinstance(sub, ast.Compare) and type(sub.ops[0]) in CMP: sites.append((sub, "cmp"))
                elif isinstance(sub, ast.BinOp) and type(sub.op) in BIN: sites.append((sub, "bin"))
                elif isinstance(sub, ast.AugAssign) and type(sub.op) in BIN: sites.append((sub, "aug"))
                elif isinstance(sub, ast.Constant) and isinstance(sub.value, bool): sites.append((sub, "bool"))
                elif isinstance(sub, ast.Constant) and isinstance(sub.value, int) and abs(sub.value) < 100: sites.append((sub, "int+")); sites.append((sub, "int-"))
                elif isinstance(sub, ast.Constant) and sub.value in ("left", "right"): sites.append((sub, "side"))
                elif isinstance(sub, ast.UnaryOp) and isinstance(sub.op, ast.USub): sites.append((sub, "unary"))
                elif isinstance(sub, ast.Expr) and isinstance(sub.value, ast.Call): sites.append((sub, "delcall"))          # drop a statement-level call (e.g. self.ravel())
                elif isinstance(sub, ast.Call) and isinstance(sub.func, ast.Attribute) and sub.func.attr in ("minimum", "maximum"): sites.append((sub, "minmax"))
    return sites


def apply(node, kind):
    if kind == "cmp": node.ops = [CMP[type(node.ops[0])]()] + node.ops[1:]
    elif kind in ("bin", "aug"): node.op = BIN[type(node.op)]()
    elif kind == "bool": node.value = not node.value
    elif kind == "int+": node.value = node.value + 1
    elif kind == "int-": node.value = node.value - 1
    elif kind == "side": node.value = "left" if node.value == "right" else "right"
    elif kind == "unary": node.op = ast.UAdd()
    elif kind == "delcall": node.value = ast.Constant(value=None)
    elif kind == "minmax": node.func.attr = "maximum" if node.func.attr == "minimum" else "minimum"


def run(cmd, env=None, timeout=900):
    try:
        p = subprocess.run(cmd, shell=True, capture_output=True, text=True, timeout=timeout, env=env)
        return p.returncode, p.stdout + p.stderr
    except subprocess.TimeoutExpired:
        return 124, "timeout"


shutil.rmtree(WORK, ignore_errors=True); os.makedirs(os.path.dirname(WORK), exist_ok=True)
rc, out = run(f"git -C /repo worktree add -q --detach {WORK} HEAD")
assert rc == 0, out
try:
    src = open(os.path.join(WORK, rel)).read(); tree = ast.parse(src)
    base_code = ast.unparse(ast.parse(src))
    sites = sites_of(tree)
    random.Random(7).shuffle(sites)
    results = []; seen = set(); n = 0
    for node, kind in sites:
        saved = copy.copy(node.__dict__)
        try:
            apply(node, kind); code = ast.unparse(tree)
        finally:
            node.__dict__.clear(); node.__dict__.update(saved)
        if code in seen or code == base_code: continue
        seen.add(code); n += 1
        if n > LIMIT: break
        open(os.path.join(WORK, rel), "w").write(code)
        env = dict(os.environ, PYTHONPATH=WORK)
        rc, out = run(f"cd {WORK} && timeout 300 /venv/bin/python -m pytest -q -x -p no:cacheprovider --timeout=120 2>&1 | tail -1", env=env)
        tests_pass = " failed" not in out and "error" not in out.lower() and "passed" in out
        base_lines = set(base_code.splitlines())
        rec = {"file": rel, "mutant": "%s@%d" % (kind, getattr(node, "lineno", 0)), "line": src.splitlines()[getattr(node, "lineno", 1) - 1].strip()[:120],
               "text": " ; ".join(l.strip() for l in code.splitlines() if l not in base_lines)[:200],
               "tests_pass": tests_pass, "checks": {}}
        if tests_pass:
            for p in props:
                env = dict(os.environ, VERIF_REPO=WORK)
                rc, out = run(f"{ROOT}/check {p}", env=env)
                rec["checks"][p] = "flagged" if rc == 1 and "VIOLATION" in out else ("clean" if rc == 0 else "error:" + out[-200:])
                if rec["checks"][p] == "flagged": break
        results.append(rec); print(json.dumps(rec), flush=True)
        json.dump(results, open(OUT, "w"), indent=1)
    surv = [r for r in results if r["tests_pass"]]
    print("mutants", len(results), "pass pinned tests", len(surv), "flagged by a check", sum(any(v == "flagged" for v in r["checks"].values()) for r in surv))
finally:
    run(f"git -C /repo worktree remove --force {WORK}"); shutil.rmtree(WORK, ignore_errors=True); run("git -C /repo worktree prune")
