(* C01 — property theorems only: each restates the full statement and is closed by the lemma proved in Proofs/. *)
From Coq Require Import ZArith List Bool.
From NPS Require Import ListAux PySlice NumpySem Scatter BuildIdx XorBroadcast View Index Assign Reduce Scan RaOps Heap Hash HashRun BitArr RLE RLEOps RLE2d DataClass RowsSpec AssignSpec MapSpec Denote Shape BuildIdx Geometry GeomProof.
Import ListNotations.
Open Scope Z_scope.

Theorem C01_geometry_starts :
  forall ls : list Z, sh_starts (shape_codes ls) = excl_prefix ls.
Proof. exact geometry_starts. Qed.
Print Assumptions C01_geometry_starts.

Theorem C01_geometry_lengths :
  forall ls : list Z, sh_lengths (shape_codes ls) = ls.
Proof. exact geometry_lengths. Qed.
Print Assumptions C01_geometry_lengths.

Theorem C01_geometry_size :
  forall ls : list Z, sh_size (shape_codes ls) = zsum ls.
Proof. exact geometry_size. Qed.
Print Assumptions C01_geometry_size.

Theorem C01_build_rows_observers :
  forall (A : Type) (r : list (list A)),
       let a := build_rows r in
       o_rows a = r /\
       o_len a = zlen r /\
       o_size a = zlen (concat r) /\
       o_lengths a = map zlen r /\
       o_ravel a = concat r /\
       o_starts a = excl_prefix (map zlen r) /\
       o_ends a = incl_prefix (map zlen r) /\ o_shape_size a = zlen (concat r).
Proof. exact build_rows_observers. Qed.
Print Assumptions C01_build_rows_observers.

Theorem C01_build_flat_accept :
  forall (A : Type) (d : list A) (ls : list Z),
       all_nonneg ls ->
       zsum ls = zlen d ->
       exists a : fresh A,
         build_flat d ls = Ok a /\
         o_rows a = segments d ls /\
         concat (o_rows a) = d /\ map zlen (o_rows a) = ls /\ o_ravel a = d /\ o_lengths a = ls.
Proof. exact build_flat_accept. Qed.
Print Assumptions C01_build_flat_accept.

Theorem C01_build_flat_reject :
  forall (A : Type) (d : list A) (ls : list Z), zsum ls <> zlen d -> build_flat d ls = Refused.
Proof. exact build_flat_reject. Qed.
Print Assumptions C01_build_flat_reject.

Theorem C01_to_numpy_spec :
  forall (A : Type) (r : list (list A)),
       o_to_numpy (build_rows r) =
       match r with
       | [] => Ok []
       | x :: _ => if forallb (fun y : list A => zlen y =? zlen x) r then Ok r else Refused
       end.
Proof. exact to_numpy_spec. Qed.
Print Assumptions C01_to_numpy_spec.

Theorem C01_from_numpy_roundtrip :
  forall (A : Type) (m : list (list A)) (k : Z),
       0 <= k ->
       Forall (fun row : list A => zlen row = k) m ->
       exists a : fresh A, from_numpy m k = Ok a /\ o_rows a = m /\ o_to_numpy a = Ok m.
Proof. exact from_numpy_roundtrip. Qed.
Print Assumptions C01_from_numpy_roundtrip.

Theorem C01_legacy_offsets_shape :
  forall ls : list Z, shape_from_offsets (0 :: cumsum ls) = shape_codes ls.
Proof. exact legacy_offsets_shape. Qed.
Print Assumptions C01_legacy_offsets_shape.

Theorem C01_unravel_all :
  forall ls : list Z,
       all_nonneg ls -> map (unravel_mi (shape_codes ls)) (ap 0 (zsum ls) 1) = cells_of ls.
Proof. exact unravel_all. Qed.
Print Assumptions C01_unravel_all.

Theorem C01_ravel_all :
  forall ls : list Z,
       all_nonneg ls ->
       map (fun ij : Z * Z => ravel_mi (shape_codes ls) (fst ij) (snd ij)) (cells_of ls) = ap 0 (zsum ls) 1.
Proof. exact ravel_all. Qed.
Print Assumptions C01_ravel_all.

Theorem C01_build_indices_correct :
  forall (rows : list (Z * Z)) (step : Z),
       Forall (fun r : Z * Z => 0 <= snd r) rows -> build_indices rows step = spec_indices rows step.
Proof. exact build_indices_correct. Qed.
Print Assumptions C01_build_indices_correct.
