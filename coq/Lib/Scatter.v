From NPS Require Import ListAux PySlice.
Open Scope Z_scope.

(* a[p] = v  (p in range; out of range leaves the list unchanged — the model only calls it in range) *)
Fixpoint set_nat {A} (l : list A) (p : nat) (v : A) : list A :=
  match l, p with
  | [], _ => []
  | _ :: r, O => v :: r
  | x :: r, S p' => x :: set_nat r p' v
  end.
Definition zset {A} (l : list A) (p : Z) (v : A) := set_nat l (Z.to_nat p) v.

(* a[ps] = vs : sequential writes, last write wins *)
Fixpoint scatter_set {A} (l : list A) (ps : list Z) (vs : list A) : list A :=
  match ps, vs with
  | p :: ps', v :: vs' => scatter_set (zset l p v) ps' vs'
  | _, _ => l
  end.

Lemma set_nat_length {A} (l : list A) p v : length (set_nat l p v) = length l.
Proof. revert p; induction l as [|x l IH]; intros [|p]; cbn; auto. Qed.

Lemma set_nat_app_shift {A} (a b : list A) p v :
  set_nat (a ++ b) (length a + p) v = a ++ set_nat b p v.
Proof. induction a as [|x a IH]; cbn; [reflexivity|]. now rewrite IH. Qed.

Lemma zset_app_shift {A} (a b : list A) p v : 0 <= p ->
  zset (a ++ b) (zlen a + p) v = a ++ zset b p v.
Proof.
  intros Hp. unfold zset, zlen. rewrite Z2Nat.inj_add by lia. rewrite Nat2Z.id. apply set_nat_app_shift.
Qed.

Lemma scatter_app_shift {A} (a b : list A) ps vs : Forall (fun p => 0 <= p) ps ->
  scatter_set (a ++ b) (map (Z.add (zlen a)) ps) vs = a ++ scatter_set b ps vs.
Proof.
  revert b vs; induction ps as [|p ps IH]; intros b vs Hps; [reflexivity|].
  destruct vs as [|v vs]; [reflexivity|]. inversion Hps; subst.
  cbn [map scatter_set]. rewrite zset_app_shift by assumption. apply IH; assumption.
Qed.
