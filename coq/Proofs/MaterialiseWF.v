From Coq Require Import ZifyBool.
From NPS Require Import ListAux PySlice NumpySem Scatter BuildIdx SliceAP View Index XorProof Denote SelRows.
Open Scope Z_scope.

Section M.
Variable A : Type.
Variable dflt : A.
Notation denote := (denote A dflt).
Notation WF := (WF A).
Notation row_cells := (row_cells A dflt).

Lemma contig_rows_bounds : forall ls acc s L, all_nonneg ls -> 0 <= acc ->
  In (s, L) (combine (excl_from acc ls) ls) -> 0 <= L /\ acc <= s /\ s + L <= acc + zsum ls.
Proof.
  induction ls as [|l ls IH]; intros acc s L Hnn Ha Hin; [contradiction|].
  inversion Hnn as [|? ? Hl Hnn']; subst. pose proof (zsum_nonneg ls Hnn'). cbn [excl_from combine zsum] in *.
  destruct Hin as [E|Hin].
  - injection E as <- <-. lia.
  - specialize (IH (acc + l) s L Hnn' ltac:(lia) Hin). lia.
Qed.

Lemma contig_rows_ok ls n : all_nonneg ls -> zsum ls = n -> Forall (Denote.row_ok n 1) (combine (excl_prefix ls) ls).
Proof.
  intros Hnn Hs. apply Forall_forall. intros [s L] Hin.
  destruct (contig_rows_bounds ls 0 s L Hnn ltac:(lia) Hin) as (H1 & H2 & H3).
  split; cbn [fst snd]; [assumption|]. intros k Hk. lia.
Qed.

Definition is_contig (g : geom) : Prop := match g with GContig _ => True | _ => False end.

Lemma zlen_concat_cells d c rows : Forall (fun r => 0 <= snd r) rows ->
  zlen (concat (map (row_cells d c) rows)) = zsum (map snd rows).
Proof.
  induction 1 as [|r rows Hr _ IH]; [reflexivity|]. cbn [map concat zsum].
  unfold zlen in *. rewrite app_length, Nat2Z.inj_add, IH. f_equal. apply (row_cells_zlen A dflt); assumption.
Qed.

Lemma view_materialised (a : ra A) : WF a ->
  let a' := {| ra_data := concat (denote a) ; ra_geom := contig_of_lengths (g_lengths (ra_geom a)) |} in
  WF a' /\ denote a' = denote a.
Proof.
  intros [Hrows _]. pose proof (Forall_row_ok_nonneg _ _ _ Hrows) as Hnn. cbn zeta.
  set (rows := g_rows (ra_geom a)) in *. set (c := g_step (ra_geom a)) in *.
  set (ls := g_lengths (ra_geom a)). assert (Els : ls = map snd rows) by reflexivity.
  assert (Hlsnn : all_nonneg ls) by (rewrite Els; apply Forall_map; exact Hnn).
  assert (Hz : zlen (concat (denote a)) = zsum ls).
  { unfold Denote.denote. fold rows. fold c. rewrite Els. now apply zlen_concat_cells. }
  assert (Hsnd : map snd (combine (excl_prefix ls) ls) = ls)
    by (apply map_snd_combine; unfold excl_prefix; now rewrite excl_from_length).
  split.
  - split; cbn [ra_data ra_geom contig_of_lengths g_rows g_step].
    + apply contig_rows_ok; [assumption|now rewrite Hz].
    + rewrite Hsnd. split; [reflexivity|now rewrite Hz].
  - unfold Denote.denote at 1. cbn [ra_data ra_geom contig_of_lengths g_rows g_step]. unfold excl_prefix.
    rewrite contig_cells by (assumption || lia). unfold zdrop. cbn [Z.to_nat skipn].
    assert (El2 : ls = map zlen (denote a)).
    { unfold Denote.denote. fold rows. fold c. rewrite Els. symmetry. now apply map_zlen_cells. }
    rewrite El2. apply segments_concat_rows.
Qed.

Theorem materialise_wf (a : ra A) : WF a ->
  exists a', materialise a = Ok a' /\ WF a' /\ is_contig (ra_geom a') /\ denote a' = denote a.
Proof.
  intros HW. pose proof (gather_view A dflt a HW) as Hg. pose proof (view_materialised a HW) as [HW' Hd].
  unfold materialise. destruct (ra_geom a) as [rows|rows|rows c] eqn:Eg.
  - exists a. split; [reflexivity|]. split; [exact HW|]. split; [rewrite Eg; exact I|reflexivity].
  - eexists. rewrite Hg. cbn [rmap]. split; [reflexivity|]. repeat split; try apply HW'; try exact I. exact Hd.
  - eexists. rewrite Hg. cbn [rmap]. split; [reflexivity|]. repeat split; try apply HW'; try exact I. exact Hd.
Qed.
End M.
