From Coq Require Import ZifyBool.
From NPS Require Import ListAux PySlice NumpySem BuildIdx RLE Hash MapSpec SetItem HashProof HashEq.
Open Scope Z_scope.

(* C11: table + table (hashtable.py __add__): refused unless both tables hold the same key array; otherwise the result is the table of the
   key-wise sums of the two DICTIONARIES *)
Section HAdd.
Variable V : Type.
Variable dv : V.
Variable vadd : V -> V -> V.
Notation table := (table V).
Notation assoc := (assoc V).
Notation aget := (aget V).
Notation Inv := (Inv V dv).
Notation value := (value V dv).

(* the dictionary of the sum: every key of d1 with its value in d1 plus its value in d2 *)
Definition dict_add (d1 d2 : assoc) : assoc := map (fun kv => (fst kv, vadd (snd kv) (value d2 (fst kv)))) d1.

Lemma zlist_eqb_eq : forall a b, zlist_eqb a b = true <-> a = b.
Proof.
  induction a as [|x a IH]; intros [|y b]; cbn [zlist_eqb]; try (split; [discriminate|discriminate]); [split; reflexivity|].
  rewrite Bool.andb_true_iff, IH, Z.eqb_eq. split; [intros [-> ->]; reflexivity|intros E; injection E as -> ->; split; reflexivity].
Qed.
Lemma rows_eqb_eq : forall a b, rows_eqb a b = true <-> a = b.
Proof.
  induction a as [|x a IH]; intros [|y b]; cbn [rows_eqb]; try (split; [discriminate|discriminate]); [split; reflexivity|].
  rewrite Bool.andb_true_iff, IH, zlist_eqb_eq. split; [intros [-> ->]; reflexivity|intros E; injection E as -> ->; split; reflexivity].
Qed.

Lemma aget_dict_add d1 d2 k : aget (dict_add d1 d2) k = match aget d1 k with Some v => Some (vadd v (value d2 k)) | None => None end.
Proof.
  unfold dict_add. induction d1 as [|[k' v] d1 IH]; [reflexivity|]. cbn [map fst snd MapSpec.aget].
  destruct (k' =? k) eqn:E; [|exact IH]. apply Z.eqb_eq in E. now subst.
Qed.

Lemma map2_length' {A B C} (f : A -> B -> C) : forall a b, length a = length b -> length (map2 f a b) = length a.
Proof. induction a as [|x a IH]; intros [|y b] H; cbn in *; try discriminate; [reflexivity|]. f_equal. apply IH. lia. Qed.
Lemma nth_map2 {A B C} (f : A -> B -> C) da db dc : forall a b n, length a = length b -> (n < length a)%nat ->
  nth n (map2 f a b) dc = f (nth n a da) (nth n b db).
Proof.
  induction a as [|x a IH]; intros [|y b] n H Hn; cbn in *; try discriminate; try lia.
  destruct n as [|n]; [reflexivity|]. apply IH; lia.
Qed.
Lemma shape_map2 (va vb : list (list V)) (K : list (list Z)) :
  map (@length V) va = map (@length Z) K -> map (@length V) vb = map (@length Z) K ->
  map (@length V) (map2 (map2 vadd) va vb) = map (@length Z) K.
Proof.
  revert vb K. induction va as [|r va IH]; intros [|s vb] [|q K] Ha Hb; cbn in *; try discriminate; [reflexivity|].
  injection Ha as Ha1 Ha2. injection Hb as Hb1 Hb2. f_equal; [|now apply IH]. rewrite map2_length' by lia. exact Ha1.
Qed.
Lemma shape_map (f : V -> V) (va : list (list V)) : map (@length V) (map (map f) va) = map (@length V) va.
Proof. rewrite map_map. apply map_ext. intros r. apply map_length. Qed.
Lemma shape_nth (va : list (list V)) (K : list (list Z)) h : map (@length V) va = map (@length Z) K -> length (nth h va []) = length (nth h K []).
Proof.
  intros H. revert K h H. induction va as [|r va IH]; intros [|q K] h H; cbn in H; try discriminate; [now destruct h|].
  injection H as H1 H2. destruct h as [|h]; [exact H1|]. cbn [nth]. now apply IH.
Qed.
Lemma shape_len (va : list (list V)) (K : list (list Z)) : map (@length V) va = map (@length Z) K -> length va = length K.
Proof. intros H. apply (f_equal (@length nat)) in H. now rewrite !map_length in H. Qed.

(* a cell of the position-wise sum is the sum of the cells, for every position inside the common shape *)
Lemma cell_map2 (va vb : list (list V)) (K : list (list Z)) h j :
  map (@length V) va = map (@length Z) K -> map (@length V) vb = map (@length Z) K ->
  (Z.to_nat h < length K)%nat -> (Z.to_nat j < length (nth (Z.to_nat h) K []))%nat ->
  cell dv (map2 (map2 vadd) va vb) (h, j) = vadd (cell dv va (h, j)) (cell dv vb (h, j)).
Proof.
  intros Ha Hb Hh Hj. unfold cell. cbn [fst snd].
  rewrite (nth_map2 (map2 vadd) [] [] [] va vb (Z.to_nat h)) by (rewrite ?(shape_len va K Ha), ?(shape_len vb K Hb); lia).
  apply nth_map2; rewrite !(shape_nth _ K _ Ha), ?(shape_nth _ K _ Hb); [reflexivity|exact Hj].
Qed.
Lemma cell_map (f : V -> V) (va : list (list V)) (K : list (list Z)) h j :
  map (@length V) va = map (@length Z) K -> (Z.to_nat h < length K)%nat -> (Z.to_nat j < length (nth (Z.to_nat h) K []))%nat ->
  cell dv (map (map f) va) (h, j) = f (cell dv va (h, j)).
Proof.
  intros Ha Hh Hj. unfold cell. cbn [fst snd].
  rewrite (nth_indep _ [] (map f [])) by (rewrite map_length, (shape_len va K Ha); lia). rewrite (map_nth (map f) va [] (Z.to_nat h)).
  rewrite (nth_indep _ dv (f dv)) by (rewrite map_length, (shape_nth va K _ Ha); lia). apply map_nth.
Qed.

Lemma nth_error_range {X} (l : list X) n x : nth_error l n = Some x -> (n < length l)%nat.
Proof. intros H. apply nth_error_Some. congruence. Qed.

Theorem tbl_add_correct t1 t2 d1 d2 t : Inv t1 d1 -> Inv t2 d2 -> tbl_add V vadd t1 t2 = Ok t ->
  t_keys t2 = t_keys t1 /\ Inv t (dict_add d1 d2).
Proof.
  intros H1 H2 Ht. unfold tbl_add in Ht. destruct (rows_eqb (t_keys t1) (t_keys t2)) eqn:E; [|discriminate].
  apply rows_eqb_eq in E. injection Ht as <-. split; [now symmetry|].
  destruct H1 as [B1 [K1 W1]]. destruct H2 as [B2 [K2 W2]]. rewrite <- E in K2, W2.
  destruct B1 as (Hm & Hz & Hnd & Hb). rewrite <- E in B2. destruct B2 as (Hm2 & Hz2 & _ & _).
  split; cbn [t_mod t_keys t_vals].
  - rewrite Hz. exact (conj Hm (conj Hz (conj Hnd Hb))).
  - assert (Hval2 : forall k, In k (concat (t_keys t1)) -> aget d2 k = Some (value d2 k)).
    { intros k Hk. apply K2 in Hk. unfold HashEq.value. destruct (aget d2 k); congruence. }
    split.
    + intros k. rewrite aget_dict_add, K1. destruct (aget d1 k); split; congruence.
    + assert (Hrange : forall h j k, 0 <= h < zlen (t_keys t1) -> 0 <= j -> nth_error (nth (Z.to_nat h) (t_keys t1) []) (Z.to_nat j) = Some k ->
                (Z.to_nat h < length (t_keys t1))%nat /\ (Z.to_nat j < length (nth (Z.to_nat h) (t_keys t1) []))%nat /\ In k (concat (t_keys t1))).
      { intros h j k Hh Hj Hn. pose proof (nth_error_range _ _ _ Hn) as Hr. unfold zlen in Hh. repeat split; [lia|exact Hr|].
        apply in_concat. exists (nth (Z.to_nat h) (t_keys t1) []). split; [apply nth_In; lia|now apply nth_error_In in Hn]. }
      destruct (t_vals t1) as [x|va] eqn:E1; destruct (t_vals t2) as [y|vb] eqn:E2; cbn [vals_add].
      * intros k Hk. rewrite aget_dict_add, (W1 k Hk). f_equal. f_equal. pose proof (W2 k Hk) as Hy. rewrite (Hval2 k Hk) in Hy. congruence.
      * destruct W2 as [S2 W2]. split; [now rewrite shape_map|].
        intros h j k Hh Hj Hn. destruct (Hrange h j k Hh Hj Hn) as (R1 & R2 & Hin).
        assert (Hh1 : 0 <= h < t_mod t1) by (rewrite <- Hz; exact Hh). assert (Hh2 : 0 <= h < t_mod t2) by (rewrite <- Hz2; exact Hh).
        rewrite aget_dict_add, (W1 k Hin). rewrite (cell_map (vadd x) vb (t_keys t1) h j S2 R1 R2). f_equal. f_equal.
        pose proof (W2 h j k Hh2 Hj Hn) as Hy. rewrite (Hval2 k Hin) in Hy. congruence.
      * destruct W1 as [S1 W1]. split; [now rewrite shape_map|].
        intros h j k Hh Hj Hn. destruct (Hrange h j k Hh Hj Hn) as (R1 & R2 & Hin).
        assert (Hh1 : 0 <= h < t_mod t1) by (rewrite <- Hz; exact Hh). assert (Hh2 : 0 <= h < t_mod t2) by (rewrite <- Hz2; exact Hh).
        rewrite aget_dict_add, (W1 h j k Hh1 Hj Hn). rewrite (cell_map (fun v => vadd v y) va (t_keys t1) h j S1 R1 R2). f_equal. f_equal.
        pose proof (W2 k Hin) as Hy. rewrite (Hval2 k Hin) in Hy. congruence.
      * destruct W1 as [S1 W1]. destruct W2 as [S2 W2]. split; [now apply shape_map2|].
        intros h j k Hh Hj Hn. destruct (Hrange h j k Hh Hj Hn) as (R1 & R2 & Hin).
        assert (Hh1 : 0 <= h < t_mod t1) by (rewrite <- Hz; exact Hh). assert (Hh2 : 0 <= h < t_mod t2) by (rewrite <- Hz2; exact Hh).
        rewrite aget_dict_add, (W1 h j k Hh1 Hj Hn). rewrite (cell_map2 va vb (t_keys t1) h j S1 S2 R1 R2). f_equal. f_equal.
        pose proof (W2 h j k Hh2 Hj Hn) as Hy. rewrite (Hval2 k Hin) in Hy. congruence.
Qed.

(* the other direction: equal key arrays are never refused, different ones always *)
Theorem tbl_add_refusal t1 t2 : (exists t, tbl_add V vadd t1 t2 = Ok t) <-> t_keys t1 = t_keys t2.
Proof.
  unfold tbl_add. destruct (rows_eqb (t_keys t1) (t_keys t2)) eqn:E.
  - apply rows_eqb_eq in E. split; [intros _; exact E|intros _; eexists; reflexivity].
  - split; [intros [t Ht]; discriminate|]. intros H. apply rows_eqb_eq in H. congruence.
Qed.

(* reading the sum: every key answers the sum of what the two tables answer *)
Corollary tbl_add_lookup t1 t2 d1 d2 t k v1 v2 : Inv t1 d1 -> Inv t2 d2 -> tbl_add V vadd t1 t2 = Ok t ->
  aget d1 k = Some v1 -> aget d2 k = Some v2 -> getv V dv t [k] = Ok [vadd v1 v2].
Proof.
  intros H1 H2 Ht A1 A2. destruct (tbl_add_correct t1 t2 d1 d2 t H1 H2 Ht) as [_ HI].
  rewrite (getv_correct V dv t (dict_add d1 d2) [k] HI). unfold spec_getv. cbn [map rsequence].
  rewrite aget_dict_add, A1. unfold HashEq.value. rewrite A2. reflexivity.
Qed.

(* np.zeros_like(table) / np.ones_like(table): the same keys, every one with the constant *)
Lemma aget_const (d : assoc) (v : V) k : aget (map (fun kv => (fst kv, v)) d) k = match aget d k with Some _ => Some v | None => None end.
Proof. induction d as [|[k' w] d IH]; [reflexivity|]. cbn [map fst MapSpec.aget]. destruct (k' =? k); [reflexivity|exact IH]. Qed.
Theorem tbl_like_correct t d v : Inv t d -> Inv (tbl_like V t v) (map (fun kv => (fst kv, v)) d).
Proof.
  intros [(Hm & Hz & Hnd & Hb) [K W]]. split; cbn [tbl_like t_mod t_keys t_vals].
  - rewrite Hz. exact (conj Hm (conj Hz (conj Hnd Hb))).
  - split.
    + intros k. rewrite aget_const, K. destruct (aget d k); split; congruence.
    + intros k Hk. rewrite aget_const. apply K in Hk. destruct (aget d k); congruence.
Qed.
End HAdd.
