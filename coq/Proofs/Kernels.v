From Coq Require Import ZifyBool.
From NPS Require Import ListAux PySlice NumpySem Scatter BuildIdx SliceAP View.
Open Scope Z_scope.

(* the column-slice kernels compute CPython's slice count and, when it is positive, CPython's start *)
Lemma div_congr a b c : a = b -> a / c = b / c. Proof. congruence. Qed.
Lemma div_small_neg a c : 0 < c -> - c <= a < 0 -> a / c + 1 = 0.
Proof. intros. assert (a / c = -1) by (symmetry; apply Z.div_unique with (r := a + c); lia). lia. Qed.

Ltac brk := repeat match goal with
  | |- context[if ?b then _ else _] => destruct b eqn:?
  | H : context[if ?b then _ else _] |- _ => destruct b eqn:?
  end.

Definition mk_slice a b k := {| sl_start := a; sl_stop := b; sl_step := Some k |}.

Lemma neg_len_ok L a b k : 0 <= L -> k < 0 -> calc_len L a b k = py_count L (mk_slice a b k).
Proof.
  intros HL Hk. unfold calc_len, py_count, py_start, py_stop, adj, norm_bound, step_of, mk_slice; cbn [sl_start sl_stop sl_step].
  destruct a as [s|], b as [e|]; cbn zeta.
  all: brk; try lia.
  all: try (replace (Z.abs k) with (- k) by lia; f_equal; apply div_congr; lia).
  all: try (apply div_small_neg; lia).
Qed.

Lemma neg_start_ok L a b k : 0 <= L -> k < 0 -> 0 < py_count L (mk_slice a b k) ->
  Z.max (Z.min (L - 1) (norm_bound L a (L - 1))) 0 = py_start L (mk_slice a b k).
Proof.
  intros HL Hk. unfold py_count, py_start, py_stop, adj, norm_bound, step_of, mk_slice; cbn [sl_start sl_stop sl_step].
  destruct a as [s|], b as [e|]; cbn zeta.
  all: brk; try lia.
Qed.

Definition pos_start (L : Z) (a : option Z) : Z :=
  match a with None => 0 | Some st => if st >=? 0 then Z.min st L else Z.max (L + st) 0 end.
Definition pos_stop (L : Z) (b : option Z) : Z :=
  match b with None => L | Some sp => if sp <? 0 then Z.max (L + sp) 0 else Z.min L sp end.

Lemma pos_len_ok L a b k : 0 <= L -> 0 < k ->
  Z.max 0 ((pos_stop L b - pos_start L a + (k - 1)) / k) = py_count L (mk_slice a b k).
Proof.
  intros HL Hk. unfold pos_start, pos_stop, py_count, py_start, py_stop, adj, step_of, mk_slice; cbn [sl_start sl_stop sl_step].
  destruct a as [s|], b as [e|]; cbn zeta.
  all: brk; try lia.
  all: try (match goal with |- Z.max 0 (?x / ?kk) = ?y / ?kk + 1 =>
         replace x with (y + 1 * kk) by lia; rewrite Z.div_add by lia;
         assert (0 <= y / kk) by (apply Z.div_pos; lia); lia end).
  all: try (match goal with |- Z.max 0 (?x / ?kk) = 0 =>
         assert (x / kk < 1) by (apply Z.div_lt_upper_bound; lia); lia end).
Qed.

Lemma pos_start_ok L a b k : 0 <= L -> 0 < k -> 0 < py_count L (mk_slice a b k) ->
  pos_start L a = py_start L (mk_slice a b k).
Proof.
  intros HL Hk. unfold pos_start, py_count, py_start, py_stop, adj, step_of, mk_slice; cbn [sl_start sl_stop sl_step].
  destruct a as [s|], b as [e|]; cbn zeta.
  all: brk; try lia.
Qed.

Lemma slice_norm L sl : py_count L sl = py_count L (mk_slice (sl_start sl) (sl_stop sl) (step_of sl))
  /\ py_start L sl = py_start L (mk_slice (sl_start sl) (sl_stop sl) (step_of sl)).
Proof. split; reflexivity. Qed.

(* one row of RaggedView2.col_slice, either sign of step *)
Definition col_kernel (c : Z) (sl : pyslice) (r : row) : row :=
  if step_of sl >? 0 then pos_col_slice c (sl_start sl) (sl_stop sl) (step_of sl) r
  else neg_col_slice c (sl_start sl) (sl_stop sl) (step_of sl) r.

Lemma col_kernel_spec c sl s L : 0 <= L -> step_of sl <> 0 ->
  snd (col_kernel c sl (s, L)) = py_count L sl /\
  (0 < py_count L sl -> fst (col_kernel c sl (s, L)) = s + py_start L sl * c).
Proof.
  intros HL Hk. destruct (slice_norm L sl) as [Ec Es]. rewrite Ec, Es. unfold col_kernel.
  destruct (step_of sl >? 0) eqn:E.
  - unfold pos_col_slice. cbn [fst snd]. fold (pos_start L (sl_start sl)). fold (pos_stop L (sl_stop sl)).
    split; [apply pos_len_ok; lia|]. intros Hc. rewrite (pos_start_ok L (sl_start sl) (sl_stop sl) (step_of sl)) by lia. ring.
  - unfold neg_col_slice. cbn [fst snd].
    split; [apply neg_len_ok; lia|]. intros Hc. rewrite (neg_start_ok L (sl_start sl) (sl_stop sl) (step_of sl)) by lia. ring.
Qed.
