From Coq Require Import ZifyBool.
From NPS Require Import ListAux PySlice NumpySem Scatter BuildIdx View Kernels K_view.
Open Scope Z_scope.
(* Tie 1 (DESIGN 2.3): the kernels re-translated from /repo's CURRENT source (Gen/K_all.v, rewritten on every run) are equal to the hand
   models that every property theorem is about, on exactly the hypotheses under which the theorems use them.  The scripts are decision
   procedures (case split on every test, lia, two division lemmas), so they survive re-orderings and equivalent rewrites of the code. *)

Lemma tie_calc_len L a b k : 0 <= L -> k <> 0 -> gen_calc_len L a b k = calc_len L a b k.
Proof.
  intros HL Hk. unfold gen_calc_len, calc_len, norm_bound. destruct a, b; cbn zeta.
  all: brk; try lia.
  all: try (f_equal; apply div_congr; lia).
  all: try (apply div_small_neg; lia).
  all: try (symmetry; apply div_small_neg; lia).
Qed.

(* two spellings of the ceiling of x / k *)
Remark ceil_div_alt x k : 0 < k -> (x - 1) / k + 1 = (x + (k - 1)) / k.
Proof. intros Hk. replace (x + (k - 1)) with ((x - 1) + 1 * k) by lia. now rewrite Z.div_add by lia. Qed.

Lemma tie_pos_col_slice s L c a b k : 0 <= L -> 0 < k ->
  gen_pos_col_slice s L c a b k = (fst (pos_col_slice c a b k (s, L)), snd (pos_col_slice c a b k (s, L)), c * k).
Proof.
  intros HL Hk. unfold gen_pos_col_slice, pos_col_slice. destruct a, b; cbn zeta; cbn [fst snd].
  all: brk; try lia; try reflexivity.
  all: rewrite ?ceil_div_alt by lia.
  all: repeat f_equal; try lia.
  all: try (apply div_congr; lia).
Qed.

Lemma tie_neg_col_slice s L c a b k : 0 <= L -> k < 0 ->
  gen_neg_col_slice s L c a b k = (fst (neg_col_slice c a b k (s, L)), snd (neg_col_slice c a b k (s, L)), k * c).
Proof.
  intros HL Hk. unfold gen_neg_col_slice, neg_col_slice, norm_bound. cbn [fst snd].
  rewrite !(tie_calc_len L a b k HL) by lia.
  destruct a, b; cbn zeta.
  all: brk; try lia; try reflexivity.
  all: repeat f_equal; try lia.
Qed.

(* integer column: refused exactly when the hand model refuses, and then the same cell *)
Lemma tie_col_int (rows : list row) c idx r : In r rows ->
  match col_slice_int rows c idx with
  | Refused => gen_col_int (fst r) (snd r) c (zmin_list (map snd rows)) (zlen rows) idx = None
  | Ok g => exists cell, gen_col_int (fst r) (snd r) c (zmin_list (map snd rows)) (zlen rows) idx = Some (cell, 1, 1) /\ In (cell, 1) (g_rows g) /\ g_step g = 1
  end.
Proof.
  intros Hin. unfold col_slice_int, gen_col_int.
  assert (Hn : Nat.eqb (length rows) 0 = false) by (destruct rows; [destruct Hin|reflexivity]).
  assert (Hz : (zlen rows =? 0) = false) by (unfold zlen; destruct rows; [destruct Hin|cbn [length]; lia]).
  rewrite Hn, Hz. cbn [negb andb]. cbn zeta.
  destruct ((idx >=? zmin_list (map snd rows)) || (idx <? - zmin_list (map snd rows))) eqn:G; [reflexivity|].
  destruct (idx >=? 0) eqn:P; eexists; (split; [reflexivity|]); (split; [|reflexivity]); cbn [g_rows];
    apply in_map_iff; exists r; (split; [|exact Hin]); f_equal.
Qed.

Lemma tie_ends s L c : gen_ends s L c = view_end c (s, L).
Proof. unfold gen_ends, view_end, view_last. cbn [fst snd]. lia. Qed.

