From Coq Require Import ZifyBool.
From NPS Require Import ListAux PySlice NumpySem BuildIdx RLE Hash MapSpec SetItem HashProof.
Open Scope Z_scope.

(* C11: items() / to_dict() (hashtable.py, with repair F20 for tables whose values are still one constant) list exactly the pairs of the
   dictionary, every key once *)
Section HItems.
Variable V : Type.
Variable dv : V.
Notation table := (table V).
Notation assoc := (assoc V).
Notation aget := (aget V).
Notation Inv := (Inv V dv).

Lemma in_combine_nth {X Y} : forall (a : list X) (b : list Y) x y, length a = length b ->
  (In (x, y) (combine a b) <-> exists j, nth_error a j = Some x /\ nth_error b j = Some y).
Proof.
  induction a as [|p a IH]; intros [|q b] x y H; cbn in H; try discriminate.
  - split; [intros []|intros (j & Hj & _); destruct j; discriminate].
  - cbn [combine In]. rewrite (IH b x y ltac:(lia)). split.
    + intros [E|(j & H1 & H2)]; [injection E as -> ->; exists 0%nat; split; reflexivity|exists (S j); split; assumption].
    + intros ([|j] & H1 & H2); cbn in H1, H2; [left; congruence|right; exists j; split; assumption].
Qed.

Lemma combine_app' {X Y} (a1 a2 : list X) (b1 b2 : list Y) : length a1 = length b1 -> combine (a1 ++ a2) (b1 ++ b2) = combine a1 b1 ++ combine a2 b2.
Proof. revert b1; induction a1 as [|x a1 IH]; intros [|y b1] H; cbn in *; try discriminate; [reflexivity|]. f_equal. apply IH. lia. Qed.

Lemma in_items_rows {Y} : forall (K : list (list Z)) (F : list (list Y)) k v, map (@length Y) F = map (@length Z) K ->
  (In (k, v) (combine (concat K) (concat F)) <-> exists h j, nth_error (nth h K []) j = Some k /\ nth_error (nth h F []) j = Some v /\ (h < length K)%nat).
Proof.
  induction K as [|r K IH]; intros [|f F] k v H; cbn [map] in H; try discriminate.
  - split; [intros []|intros (h & j & _ & _ & Hh); cbn in Hh; lia].
  - injection H as Hl Ht. cbn [concat]. rewrite combine_app' by (symmetry; exact Hl). rewrite in_app_iff, (in_combine_nth r f k v (eq_sym Hl)), (IH F k v Ht). split.
    + intros [(j & H1 & H2)|(h & j & H1 & H2 & Hh)]; [exists 0%nat, j; repeat split; cbn; try assumption; lia|exists (S h), j; repeat split; cbn; try assumption; lia].
    + intros ([|h] & j & H1 & H2 & Hh); cbn [nth length] in *; [left; exists j; split; assumption|right; exists h, j; repeat split; try assumption; lia].
Qed.

Lemma concat_shape_len {X Y} : forall (K : list (list X)) (F : list (list Y)), map (@length Y) F = map (@length X) K -> length (concat F) = length (concat K).
Proof. induction K as [|r K IH]; intros [|f F] H; cbn [map] in H; try discriminate; [reflexivity|]. injection H as Hl Ht. cbn [concat]. rewrite !app_length, (IH F Ht). lia. Qed.
Lemma map_fst_combine_eq {X Y} : forall (a : list X) (b : list Y), length a = length b -> map fst (combine a b) = a.
Proof. induction a as [|x a IH]; intros [|y b] H; cbn in *; try discriminate; [reflexivity|]. f_equal. apply IH. lia. Qed.
Lemma in_concat_nth : forall (K : list (list Z)) k, In k (concat K) -> exists h j, (h < length K)%nat /\ nth_error (nth h K []) j = Some k.
Proof.
  intros K k H. apply in_concat in H. destruct H as (r & Hr & Hk). apply In_nth with (d := []) in Hr. destruct Hr as (h & Hh & <-).
  apply In_nth_error in Hk. destruct Hk as (j & Hj). exists h, j. split; assumption.
Qed.

Lemma nth_len_eq {X Y} : forall (A : list (list X)) (B : list (list Y)) h, map (@length X) A = map (@length Y) B -> length (nth h A []) = length (nth h B []).
Proof. induction A as [|a A IH]; intros [|b B] h H; cbn in H; try discriminate; [destruct h; reflexivity|]. injection H as H0 H'. destruct h; cbn [nth]; [exact H0|apply IH; exact H']. Qed.

Theorem items_correct t d : Inv t d ->
  NoDup (map fst (items V dv t)) /\ forall k v, In (k, v) (items V dv t) <-> aget d k = Some v.
Proof.
  intros HI. pose proof HI as [(Hm & Hlen & Hnd & _) (Hkeys & Hvals)].
  unfold items.
  assert (Hshape : map (@length V) (fill_values V t) = map (@length Z) (t_keys t)).
  { unfold fill_values. destruct (t_vals t) as [c|vb]; [|destruct Hvals as [Hs _]; exact Hs].
    rewrite map_map. apply map_ext. intros r. now rewrite map_length. }
  split.
  - rewrite map_fst_combine_eq by (symmetry; now apply concat_shape_len). exact Hnd.
  - intros k v. rewrite (in_items_rows (t_keys t) (fill_values V t) k v Hshape). unfold fill_values in *.  destruct (t_vals t) as [c|vb].
    + (* one constant for all keys *)
      split.
      * intros (h & j & H1 & H2 & Hh).
        assert (Hin : In k (concat (t_keys t))).
        { apply in_concat. exists (nth h (t_keys t) []). split; [apply nth_In; exact Hh|]. eapply nth_error_In; exact H1. }
        rewrite (Hvals k Hin). f_equal.
        assert (Hr : nth h (map (map (fun _ : Z => c)) (t_keys t)) [] = map (fun _ => c) (nth h (t_keys t) [])) by (change (@nil V) with (map (fun _ : Z => c) []); apply map_nth).
        rewrite Hr in H2. rewrite nth_error_map in H2. destruct (nth_error (nth h (t_keys t) []) j); cbn in H2; congruence.
      * intros Ha. assert (Hin : In k (concat (t_keys t))) by (apply Hkeys; congruence).
        destruct (in_concat_nth (t_keys t) k Hin) as (h & j & Hh & Hj). exists h, j. repeat split; [exact Hj| |exact Hh].
        assert (Hr : nth h (map (map (fun _ : Z => c)) (t_keys t)) [] = map (fun _ => c) (nth h (t_keys t) [])) by (change (@nil V) with (map (fun _ : Z => c) []); apply map_nth).
        rewrite Hr, nth_error_map, Hj. cbn. rewrite (Hvals k Hin) in Ha. congruence.
    + (* bucket-aligned values *)
      destruct Hvals as [Hs Hcell].
      assert (Hrow : forall h, length (nth h vb []) = length (nth h (t_keys t) [])) by (intros h; apply nth_len_eq; exact Hs).
      split.
      * intros (h & j & H1 & H2 & Hh).
        assert (Hhz : 0 <= Z.of_nat h < t_mod t) by (unfold zlen in Hlen; lia).
        pose proof (Hcell (Z.of_nat h) (Z.of_nat j) k Hhz ltac:(lia)) as Hc. rewrite !Nat2Z.id in Hc.  specialize (Hc H1).
        rewrite Hc. f_equal. unfold cell. cbn [fst snd]. rewrite !Nat2Z.id. apply nth_error_nth. exact H2.
      * intros Ha. assert (Hin : In k (concat (t_keys t))) by (apply Hkeys; congruence).
        destruct (in_concat_nth (t_keys t) k Hin) as (h & j & Hh & Hj). exists h, j. repeat split; [exact Hj| |exact Hh].
        assert (Hhz : 0 <= Z.of_nat h < t_mod t) by (unfold zlen in Hlen; lia).
        pose proof (Hcell (Z.of_nat h) (Z.of_nat j) k Hhz ltac:(lia)) as Hc. rewrite !Nat2Z.id in Hc.  specialize (Hc Hj).
        rewrite Hc in Ha. injection Ha as <-. unfold cell. cbn [fst snd]. rewrite !Nat2Z.id.
        apply nth_error_nth'. rewrite Hrow. apply nth_error_Some. congruence.
Qed.
End HItems.
Print Assumptions items_correct.
