From Coq Require Import ZifyBool Permutation.
From NPS Require Import ListAux PySlice NumpySem Scatter BuildIdx SliceAP XorBroadcast XorProof RLE RLEProof RLEOps RaOps RLE2d CanonProof BinaryProof StepNeg SortProof RLEIndex ArgmaxProof RL2Proof RL2Col ColProof.
Open Scope Z_scope.

(* C17: _col_sum (runlengtharray.py L670-693).  The code turns every row into "change events" (position, value - previous value),
   closes each ragged row with an event that takes the last value away again, sorts all events of all rows by position (stable),
   takes running sums and removes the empty runs.  The theorem: the result decodes, for every column j below the longest row, to the
   sum over the rows of the j-th dense element (rows that do not reach j contribute nothing). *)

(* ---------- sums of the changes at or before a position ---------- *)
Definition fsum (S : list (Z * Z)) (j : Z) : Z := zsum (map snd (filter (fun p => fst p <=? j) S)).

Lemma fsum_cons p S j : fsum (p :: S) j = (if fst p <=? j then snd p else 0) + fsum S j.
Proof. unfold fsum. cbn [filter]. destruct (fst p <=? j); cbn [map zsum]; lia. Qed.
Lemma fsum_app S1 S2 j : fsum (S1 ++ S2) j = fsum S1 j + fsum S2 j.
Proof. unfold fsum. now rewrite filter_app, map_app, zsum_app. Qed.
Lemma fsum_insert p S j : fsum (insert_stable p S) j = fsum (p :: S) j.
Proof.
  induction S as [|q S IH]; [reflexivity|]. cbn [insert_stable]. destruct (fst p <=? fst q); [reflexivity|].
  rewrite fsum_cons, IH, !fsum_cons. lia.
Qed.
Lemma fsum_sort S j : fsum (stable_sort S) j = fsum S j.
Proof. induction S as [|p S IH]; [reflexivity|]. cbn [stable_sort fold_right]. rewrite fsum_insert, !fsum_cons. unfold stable_sort in IH. now rewrite IH. Qed.
Lemma fsum_concat Ls j : fsum (concat Ls) j = zsum (map (fun S => fsum S j) Ls).
Proof. induction Ls as [|S Ls IH]; [reflexivity|]. cbn [concat map zsum]. now rewrite fsum_app, IH. Qed.

(* ---------- running sums over sorted events decode to the sums of the changes ---------- *)
Fixpoint sorted_from (lo : Z) (S : list (Z * Z)) : Prop :=
  match S with [] => True | p :: S' => lo <= fst p /\ sorted_from (fst p) S' end.
Lemma fsum_before lo S j : sorted_from lo S -> j < lo -> fsum S j = 0.
Proof.
  revert lo; induction S as [|p S IH]; intros lo Hs Hj; [reflexivity|]. destruct Hs as [Hp Hs]. rewrite fsum_cons.
  replace (fst p <=? j) with false by lia. rewrite (IH (fst p)); [lia|exact Hs|lia].
Qed.

Lemma events_decode : forall S p d acc L, sorted_from p S -> Forall (fun q => fst q <= L) S -> p <= L ->
  decode Z (p :: map fst S ++ [L], cumsum_from acc (d :: map snd S)) = map (fun j => acc + fsum ((p, d) :: S) j) (ap p (L - p) 1).
Proof.
  induction S as [|[p' d'] S IH]; intros p d acc L Hs Hall HpL.
  - cbn [map app cumsum_from]. rewrite decode_cons2. change (decode Z ([L], [])) with (@nil Z). rewrite app_nil_r.
    symmetry. apply (map_ap_const Z); [lia|]. intros j Hj. rewrite fsum_cons. cbn [fst snd]. replace (p <=? j) with true by lia. unfold fsum. cbn. lia.
  - destruct Hs as [Hpp Hs]. cbn [fst] in Hpp, Hs. inversion Hall as [|? ? Hp'L Hall']; subst. cbn [fst] in Hp'L.
    cbn [map app cumsum_from fst snd]. rewrite decode_cons2.
    change ((acc + d + d') :: cumsum_from (acc + d + d') (map snd S)) with (cumsum_from (acc + d) (d' :: map snd S)).
    change (p' :: map fst S ++ [L]) with (p' :: map fst S ++ [L]).
    rewrite (IH p' d' (acc + d) L Hs Hall' Hp'L).
    replace (L - p) with ((p' - p) + (L - p')) by lia. rewrite (map_ap_split Z) by lia. replace (p + (p' - p)) with p' by lia. f_equal.
    + symmetry. apply (map_ap_const Z); [lia|]. intros j Hj. rewrite fsum_cons. cbn [fst snd]. replace (p <=? j) with true by lia.
      rewrite (fsum_before p' ((p', d') :: S) j); [lia| |lia]. split; [cbn; lia|exact Hs].
    + apply map_ext_in. intros j Hj. rewrite (fsum_cons (p, d)). cbn [fst snd].
      assert (p' <= j).
      { unfold ap in Hj. apply In_nth with (d := 0) in Hj. destruct Hj as (k & Hk & Ek). rewrite ap_nat_length in Hk. rewrite ap_nat_nth in Ek by exact Hk. lia. }
      replace (p <=? j) with true by lia. lia.
Qed.

(* ---------- one row: the changes at or before j sum to the dense value at j (0 beyond the row) ---------- *)
Definition rowdiff (prev : Z) (vs : list Z) : list Z := map2 Z.sub (vs ++ [0]) (prev :: vs).
Lemma row_fsum : forall ls vs acc prev j, canon Z ls vs ->
  fsum (combine (excl_from acc ls ++ [acc + zsum ls]) (rowdiff prev vs)) j
  = if j <? acc then 0 else nth (Z.to_nat (j - acc)) (spec_broadcast Z vs ls) 0 - prev.
Proof.
  induction ls as [|l ls IH]; intros vs acc prev j [Hl Hlen].
  - destruct vs; [|discriminate]. cbn [excl_from app zsum rowdiff map2 combine]. rewrite fsum_cons. cbn [fst snd]. unfold fsum. cbn [filter map zsum].
    destruct (j <? acc) eqn:E.
    + replace (acc + 0 <=? j) with false by lia. lia.
    + replace (acc + 0 <=? j) with true by lia. unfold spec_broadcast. cbn. destruct (Z.to_nat (j - acc)); lia.
  - destruct vs as [|v vs]; [discriminate|]. inversion Hl as [|? ? Hl1 Hls]; subst. cbn [length] in Hlen.
    assert (Hc' : canon Z ls vs) by (split; [exact Hls|lia]).
    cbn [excl_from app zsum]. unfold rowdiff. cbn [app map2 combine]. rewrite fsum_cons. cbn [fst snd].
    replace (acc + (l + zsum ls)) with (acc + l + zsum ls) by lia.
    change (map2 Z.sub (vs ++ [0]) (v :: vs)) with (rowdiff v vs). rewrite (IH vs (acc + l) v j Hc'). rewrite spec_broadcast_cons.
    destruct (j <? acc) eqn:E1.
    + replace (acc <=? j) with false by lia. replace (j <? acc + l) with true by lia. lia.
    + replace (acc <=? j) with true by lia. destruct (j <? acc + l) eqn:E2.
      * rewrite app_nth1 by (rewrite repeat_length; lia). rewrite (nth_repeat_lt Z 0) by lia. lia.
      * rewrite app_nth2 by (rewrite repeat_length; lia). rewrite repeat_length.
        replace (Z.to_nat (j - acc) - Z.to_nat l)%nat with (Z.to_nat (j - (acc + l))) by lia. lia.
Qed.

(* ---------- the flat computation is the concatenation of the rows' events ---------- *)
Definition rowevents (p : list Z * list Z) : list (Z * Z) := combine (evs (fst p)) (rowdiff 0 (snd p)).

Lemma map2_sub_removelast : forall (l : list Z) prev, map2 Z.sub l (prev :: removelast l) = map2 Z.sub l (prev :: l).
Proof.
  induction l as [|x l IH]; intros prev; [reflexivity|]. destruct l as [|y l]; [reflexivity|].
  change (removelast (x :: y :: l)) with (x :: removelast (y :: l)). cbn [map2]. f_equal. apply IH.
Qed.
Lemma last_cons_default {X} : forall (l : list X) x d d', last (x :: l) d = last (x :: l) d'.
Proof. induction l as [|y l IH]; intros x d d'; [reflexivity|]. change (last (x :: y :: l) d) with (last (y :: l) d). change (last (x :: y :: l) d') with (last (y :: l) d'). apply IH. Qed.
Lemma map2_sub_app : forall (a b : list Z) prev, map2 Z.sub (a ++ b) (prev :: a ++ b) = map2 Z.sub a (prev :: a) ++ map2 Z.sub b (last a prev :: b).
Proof.
  induction a as [|x a IH]; intros b prev; [reflexivity|]. cbn [app map2]. f_equal. rewrite IH. f_equal.
  destruct a as [|z a]; [reflexivity|]. do 2 f_equal. change (last (x :: z :: a) prev) with (last (z :: a) prev). apply last_cons_default.
Qed.
Lemma last_app_single {X} (l : list X) (x d : X) : last (l ++ [x]) d = x. Proof. apply last_last. Qed.

Lemma map2_sub_trunc : forall (l m e : list Z) prev, (length l <= S (length m))%nat -> map2 Z.sub l (prev :: m ++ e) = map2 Z.sub l (prev :: m).
Proof.
  induction l as [|x l IH]; intros m e prev H; [reflexivity|]. cbn [map2]. f_equal. destruct m as [|y m].
  - destruct l; [|cbn in H; lia]. destruct e; reflexivity.
  - cbn [app]. apply IH. cbn in H. lia.
Qed.
Lemma flat_diffs : forall (vss : list (list Z)) prev,
  map2 Z.sub (concat (map (fun vs => vs ++ [0]) vss)) (prev :: concat (map (fun vs => vs ++ [0]) vss))
  = match vss with [] => [] | vs :: r => rowdiff prev vs ++ concat (map (rowdiff 0) r) end.
Proof.
  induction vss as [|vs r IH]; intros prev; [reflexivity|]. cbn [map concat]. rewrite map2_sub_app. f_equal.
  - unfold rowdiff. apply map2_sub_trunc. rewrite app_length. cbn. lia.
  - rewrite last_last. rewrite IH. destruct r; reflexivity.
Qed.

Lemma rowdiff_length prev vs : length (rowdiff prev vs) = S (length vs).
Proof. unfold rowdiff. revert prev; induction vs as [|v vs IH]; intros prev; [reflexivity|]. cbn [app map2 length]. now rewrite IH. Qed.
Lemma evs_length ls : length (evs ls) = S (length ls).
Proof. unfold evs, excl_prefix. rewrite app_length, excl_from_length. cbn. lia. Qed.

(* the scatter at the row starts rewrites what is already there: the first change of a ragged row is its first value *)
Lemma zset_same {X} (l : list X) (p : nat) (d : X) : (p < length l)%nat -> set_nat l p (nth p l d) = l.
Proof. revert p; induction l as [|x l IH]; intros [|p] H; cbn in *; try lia; [reflexivity|]. f_equal. apply IH. lia. Qed.
Lemma rowdiff_hd vs : exists t, rowdiff 0 vs = hd 0 vs :: t.
Proof. destruct vs as [|v vs]; unfold rowdiff; cbn [app map2 hd]; eexists; f_equal; lia. Qed.

Lemma scatter_row_starts : forall (rows : list (list Z * list Z)),
  Forall (fun p => length (snd p) = length (fst p)) rows ->
  scatter_set (concat (map (fun p => rowdiff 0 (snd p)) rows)) (excl_prefix (map (fun p => zlen (evs (fst p))) rows)) (map (fun p => hd 0 (snd p)) rows)
  = concat (map (fun p => rowdiff 0 (snd p)) rows).
Proof.
  intros rows H. unfold excl_prefix.
  assert (G : forall (rows : list (list Z * list Z)) (A : list Z), Forall (fun p => length (snd p) = length (fst p)) rows ->
     scatter_set (A ++ concat (map (fun p => rowdiff 0 (snd p)) rows)) (excl_from (zlen A) (map (fun p => zlen (evs (fst p))) rows)) (map (fun p => hd 0 (snd p)) rows)
     = A ++ concat (map (fun p => rowdiff 0 (snd p)) rows)).
  { clear. induction rows as [|[ls vs] rows IH]; intros A H; [reflexivity|]. inversion H as [|? ? H1 H']; subst. cbn [fst snd] in *.
    cbn [map concat excl_from scatter_set fst snd]. destruct (rowdiff_hd vs) as [t Et].
    assert (Ez : zset (A ++ rowdiff 0 vs ++ concat (map (fun p => rowdiff 0 (snd p)) rows)) (zlen A) (hd 0 vs) = A ++ rowdiff 0 vs ++ concat (map (fun p => rowdiff 0 (snd p)) rows)).
    { replace (zlen A) with (zlen A + 0) by lia. rewrite zset_app_shift by lia. rewrite Et. reflexivity. }
    rewrite Ez. rewrite app_assoc.
    replace (zlen A + zlen (evs ls)) with (zlen (A ++ rowdiff 0 vs)) by (unfold zlen; rewrite app_length, rowdiff_length, evs_length; lia).
    apply IH. exact H'. }
  specialize (G rows [] H). cbn [app] in G. exact G.
Qed.

Lemma combine_concat {X Y W} (f : W -> list X) (g : W -> list Y) : forall rows, Forall (fun p => length (f p) = length (g p)) rows ->
  combine (concat (map f rows)) (concat (map g rows)) = concat (map (fun p => combine (f p) (g p)) rows).
Proof. induction 1 as [|p rows Hp _ IH]; [reflexivity|]. cbn [map concat]. rewrite combine_app' by exact Hp. now rewrite IH. Qed.

Lemma sorted_keys_from (p : Z * Z) S : sorted_keys (p :: S) -> sorted_from (fst p) S.
Proof. revert p; induction S as [|q S IH]; intros p H; [exact I|]. destruct H as [Hpq H]. split; [exact Hpq|]. apply IH. exact H. Qed.
Lemma sorted_from_all lo S : sorted_from lo S -> Forall (fun q => lo <= fst q) S.
Proof.
  revert lo; induction S as [|q S IH]; intros lo H; constructor; destruct H as [Hq H]; [exact Hq|].
  eapply Forall_impl; [|apply (IH _ H)]. cbn. intros; lia.
Qed.

Lemma dense_len ls (vs : list Z) : canon Z ls vs -> zlen (spec_broadcast Z vs ls) = zsum ls.
Proof.
  intros [Hl Hlen]. revert vs Hlen. induction Hl as [|l ls' Hl1 _ IHl]; intros [|v vs'] Hlen; try discriminate; [reflexivity|].
  rewrite spec_broadcast_cons. unfold zlen in *. rewrite app_length, repeat_length, Nat2Z.inj_add, IHl by (cbn in Hlen; lia). cbn [zsum]. lia.
Qed.
Lemma fold_max_evs ls acc : all_nonneg ls -> 0 <= acc -> fold_left Z.max (evs ls) acc = Z.max acc (zsum ls).
Proof.
  intros Hnn Hacc. unfold evs, excl_prefix. rewrite fold_left_app. cbn [fold_left].
  pose proof (max_fold_ge (excl_from 0 ls) acc) as [Hge Hall].
  pose proof (excl_from_bounds 0 ls Hnn) as Hb.
  assert (Hle : fold_left Z.max (excl_from 0 ls) acc <= Z.max acc (zsum ls)).
  { pose proof (max_in (excl_from 0 ls) acc) as Hin. destruct Hin as [E|Hin]; [lia|]. rewrite Forall_forall in Hb. specialize (Hb _ Hin). lia. }
  lia.
Qed.
Lemma fold_max_positions : forall (rows : list (list Z * list Z)) acc, Forall (fun p => canon Z (fst p) (snd p)) rows -> 0 <= acc ->
  fold_left Z.max (concat (map (fun p => evs (fst p)) rows)) acc = fold_left Z.max (map (fun p => zlen (spec_broadcast Z (snd p) (fst p))) rows) acc.
Proof.
  induction rows as [|[ls vs] rows IH]; intros acc H Hacc; [reflexivity|]. inversion H as [|? ? Hc H']; subst. cbn [fst snd] in *.
  cbn [map concat fold_left]. rewrite fold_left_app. rewrite dense_len by exact Hc.
  assert (Hnn : all_nonneg ls) by (destruct Hc as [Hl _]; eapply Forall_impl; [|exact Hl]; cbn; intros; lia).
  rewrite fold_max_evs by assumption. apply IH; [exact H'|lia].
Qed.

Theorem rl2_col_sum_correct (rows : list (list Z * list Z)) : rows <> [] -> Forall (fun p => canon Z (fst p) (snd p)) rows ->
  let dense := rl2_decode (of_runs rows) in
  decode Z (rl2_col_sum (of_runs rows))
  = map (fun j => zsum (map (fun r => nth (Z.to_nat j) r 0) dense)) (ap 0 (fold_left Z.max (map zlen dense) 0) 1).
Proof.
  intros Hne Hc dense.
  assert (Hdense : dense = map (fun p => spec_broadcast Z (snd p) (fst p)) rows).
  { unfold dense, rl2_decode, rl2_rows, of_runs. cbn [r_idx r_val r_len]. rewrite map2_combine, map_map.
    clear. induction rows as [|[ls vs] rows IH]; [reflexivity|]. cbn [map combine fst snd]. f_equal; [|exact IH].
    unfold row_rla. cbn [r_len]. unfold decode. cbn [fst snd]. now rewrite diffs_evs. }
  assert (Hlens : Forall (fun p : list Z * list Z => length (snd p) = length (fst p)) rows).
  { eapply Forall_impl; [|exact Hc]. intros p [_ H]. exact H. }
  (* the flat changes are the rows' changes *)
  unfold rl2_col_sum, of_runs. cbn [r_idx r_val r_len].
  set (positions := concat (map (fun p => evs (fst p)) rows)).
  set (L := fold_left Z.max positions 0).
  assert (Ed : scatter_set (map2 Z.sub (concat (map (fun vs => vs ++ [0]) (map snd rows))) (0 :: removelast (concat (map (fun vs => vs ++ [0]) (map snd rows)))))
                 (excl_prefix (map zlen (map (fun p => evs (fst p)) rows))) (map (fun vs => hd 0 vs) (map snd rows))
               = concat (map (fun p => rowdiff 0 (snd p)) rows)).
  { rewrite map2_sub_removelast, flat_diffs.
    assert (E1 : match map snd rows with [] => [] | vs :: r => rowdiff 0 vs ++ concat (map (rowdiff 0) r) end = concat (map (fun p => rowdiff 0 (snd p)) rows)).
    { destruct rows as [|p r]; [reflexivity|]. cbn [map concat]. now rewrite map_map. }
    rewrite E1, !map_map. apply scatter_row_starts. exact Hlens. }
  rewrite Ed. clear Ed.
  assert (EE : combine positions (concat (map (fun p => rowdiff 0 (snd p)) rows)) = concat (map rowevents rows)).
  { unfold positions. apply combine_concat. eapply Forall_impl; [|exact Hlens]. intros p Hp. now rewrite evs_length, rowdiff_length, Hp. }
  rewrite EE. clear EE. set (E := concat (map rowevents rows)). set (S := stable_sort E).
  (* facts about the events *)
  assert (Hpos : map fst E = positions).
  { unfold E, positions. rewrite concat_map, map_map. f_equal. apply map_ext_in. intros p Hp. unfold rowevents. apply map_fst_combine'.
    rewrite Forall_forall in Hlens. now rewrite evs_length, rowdiff_length, (Hlens p Hp). }
  assert (Hbounds : Forall (fun q : Z * Z => 0 <= fst q <= L) E).
  { rewrite Forall_forall. intros q Hq. assert (Hin : In (fst q) positions) by (rewrite <- Hpos; now apply in_map). split.
    - unfold positions in Hin. apply in_concat in Hin. destruct Hin as (l & Hl & Hql). apply in_map_iff in Hl. destruct Hl as (p & <- & Hp).
      rewrite Forall_forall in Hc. destruct (Hc p Hp) as [Hl1 _].
      assert (Hnn : all_nonneg (fst p)) by (eapply Forall_impl; [|exact Hl1]; cbn; intros; lia).
      unfold evs in Hql. apply in_app_or in Hql. destruct Hql as [Hql|[<-|[]]]; [|now apply zsum_nonneg].
      pose proof (excl_from_bounds 0 (fst p) Hnn) as Hb. rewrite Forall_forall in Hb. specialize (Hb _ Hql). lia.
    - pose proof (max_fold_ge positions 0) as [_ Hall]. rewrite Forall_forall in Hall. now apply Hall. }
  assert (Hperm : Permutation E S) by apply sort_perm.
  assert (HboundsS : Forall (fun q : Z * Z => 0 <= fst q <= L) S) by (eapply Permutation_Forall; eassumption).
  assert (Hzero : exists d0, In (0, d0) E).
  { destruct rows as [|[ls vs] rows']; [congruence|]. unfold E. cbn [map concat]. unfold rowevents at 1. cbn [fst snd].
    destruct (rowdiff_hd vs) as [t Et]. rewrite Et. unfold evs, excl_prefix.
    destruct ls as [|l ls]; cbn [excl_from app combine zsum]; eexists; left; reflexivity. }
  destruct Hzero as [d0 Hzero]. apply (Permutation_in _ Hperm) in Hzero.
  pose proof (sort_sorted E) as Hsorted. fold S in Hsorted.
  destruct S as [|[p0 dd0] S'] eqn:ES; [destruct Hzero|].
  pose proof (sorted_keys_from _ _ Hsorted) as Hfrom. cbn [fst] in Hfrom.
  inversion HboundsS as [|? ? Hb0 HbS']; subst. cbn [fst] in Hb0.
  assert (Hp0 : p0 = 0).
  { destruct Hzero as [Eq|Hin]; [congruence|]. pose proof (sorted_from_all _ _ Hfrom) as Hall. rewrite Forall_forall in Hall. specialize (Hall _ Hin). cbn [fst] in Hall. lia. }
  subst p0.
  (* decode *)
  destruct (remove_empty_decode Z (map fst ((0, dd0) :: S') ++ [L]) (cumsum (map snd ((0, dd0) :: S')))) as (Hdec & _ & _).
  { unfold cumsum. rewrite app_length, cumsum_from_length, !map_length. cbn. lia. }
  rewrite Hdec. cbn [map fst snd app]. unfold cumsum.
  rewrite (events_decode S' 0 dd0 0 L Hfrom); [|eapply Forall_impl; [|exact HbS']; cbn; intros; lia|lia].
  replace (L - 0) with L by lia.
  assert (EL : fold_left Z.max (map zlen dense) 0 = L).
  { rewrite Hdense, map_map. unfold L, positions. symmetry. apply fold_max_positions; [exact Hc|lia]. }
  rewrite EL. apply map_ext_in. intros j Hj.
  assert (Hj0 : 0 <= j).
  { unfold ap in Hj. apply In_nth with (d := 0) in Hj. destruct Hj as (k & Hk & Ek). rewrite ap_nat_length in Hk. rewrite ap_nat_nth in Ek by exact Hk. lia. }
  rewrite <- ES. unfold S. rewrite fsum_sort. unfold E. rewrite fsum_concat, map_map. rewrite Hdense, map_map.
  replace (0 + zsum (map (fun x => fsum (rowevents x) j) rows)) with (zsum (map (fun x => fsum (rowevents x) j) rows)) by lia.
  f_equal. apply map_ext_in. intros [ls vs] Hp. cbn [fst snd]. unfold rowevents. cbn [fst snd].
  rewrite Forall_forall in Hc. specialize (Hc _ Hp). cbn [fst snd] in Hc.
  pose proof (row_fsum ls vs 0 0 j Hc) as Hr. replace (j <? 0) with false in Hr by lia. replace (j - 0) with j in Hr by lia.
  unfold evs, excl_prefix. change (0 + zsum ls) with (zsum ls) in Hr. rewrite Hr. lia.
Qed.
Print Assumptions rl2_col_sum_correct.

(* the theorem is not vacuous: three ragged rows, one of them empty, unrelated boundaries *)
Example col_sum_example :
  let rows := [([2; 3], [5; 7]); ([], []); ([1; 1; 4], [1; 2; 3])] in
  Forall (fun p => canon Z (fst p) (snd p)) rows /\
  decode Z (rl2_col_sum (of_runs rows)) = [6; 7; 10; 10; 10; 3].
Proof. split; [repeat constructor; cbn; lia|reflexivity]. Qed.

(* ---------- the matrix variant (RunLength2dArray): starts only, every row n columns long, no closing events ---------- *)
Definition of_matrix_runs (n : Z) (rows : list (list Z * list Z)) : rl2 :=
  {| r_idx := map (fun p => excl_prefix (fst p)) rows ; r_val := map snd rows ; r_len := Some n |}.
Definition rowdiffm (prev : Z) (vs : list Z) : list Z := map2 Z.sub vs (prev :: vs).
Definition roweventsm (p : list Z * list Z) : list (Z * Z) := combine (excl_prefix (fst p)) (rowdiffm 0 (snd p)).

Lemma rowm_fsum : forall ls vs acc prev j, canon Z ls vs -> j < acc + zsum ls ->
  fsum (combine (excl_from acc ls) (rowdiffm prev vs)) j
  = if j <? acc then 0 else nth (Z.to_nat (j - acc)) (spec_broadcast Z vs ls) 0 - prev.
Proof.
  induction ls as [|l ls IH]; intros vs acc prev j [Hl Hlen] Hj.
  - destruct vs; [|discriminate]. cbn [zsum] in Hj. replace (j <? acc) with true by lia. reflexivity.
  - destruct vs as [|v vs]; [discriminate|]. inversion Hl as [|? ? Hl1 Hls]; subst. cbn [length] in Hlen.
    assert (Hc' : canon Z ls vs) by (split; [exact Hls|lia]). cbn [zsum] in Hj.
    cbn [excl_from]. unfold rowdiffm. cbn [map2 combine]. rewrite fsum_cons. cbn [fst snd].
    change (map2 Z.sub vs (v :: vs)) with (rowdiffm v vs). rewrite (IH vs (acc + l) v j Hc') by lia. rewrite spec_broadcast_cons.
    destruct (j <? acc) eqn:E1.
    + replace (acc <=? j) with false by lia. replace (j <? acc + l) with true by lia. lia.
    + replace (acc <=? j) with true by lia. destruct (j <? acc + l) eqn:E2.
      * rewrite app_nth1 by (rewrite repeat_length; lia). rewrite (nth_repeat_lt Z 0) by lia. lia.
      * rewrite app_nth2 by (rewrite repeat_length; lia). rewrite repeat_length.
        replace (Z.to_nat (j - acc) - Z.to_nat l)%nat with (Z.to_nat (j - (acc + l))) by lia. lia.
Qed.

Lemma rowdiffm_length prev vs : length (rowdiffm prev vs) = length vs.
Proof. unfold rowdiffm. revert prev; induction vs as [|v vs IH]; intros prev; [reflexivity|]. cbn [map2 length]. now rewrite IH. Qed.

(* the flat differences run across the row borders; the scatter at the row starts repairs exactly those cells *)
Lemma scatter_row_starts_m : forall (rows : list (list Z * list Z)) (A : list Z) prev,
  Forall (fun p => length (snd p) = length (fst p) /\ fst p <> []) rows ->
  scatter_set (A ++ map2 Z.sub (concat (map snd rows)) (prev :: concat (map snd rows)))
              (excl_from (zlen A) (map (fun p => zlen (excl_prefix (fst p))) rows)) (map (fun p => hd 0 (snd p)) rows)
  = A ++ concat (map (fun p => rowdiffm 0 (snd p)) rows).
Proof.
  induction rows as [|[ls vs] rows IH]; intros A prev H; [reflexivity|]. inversion H as [|? ? [H1 Hne] H']; subst. cbn [fst snd] in *.
  cbn [map concat excl_from scatter_set fst snd]. rewrite map2_sub_app.
  destruct vs as [|v vs]; [destruct ls; [congruence|discriminate]|].
  assert (Ez : zset (A ++ map2 Z.sub (v :: vs) (prev :: v :: vs) ++ map2 Z.sub (concat (map snd rows)) (last (v :: vs) prev :: concat (map snd rows))) (zlen A) (hd 0 (v :: vs))
             = A ++ rowdiffm 0 (v :: vs) ++ map2 Z.sub (concat (map snd rows)) (last (v :: vs) prev :: concat (map snd rows))).
  { replace (zlen A) with (zlen A + 0) by lia. rewrite zset_app_shift by lia. unfold rowdiffm. cbn [map2 app hd]. unfold zset. cbn [Z.to_nat set_nat].
    replace (v - 0) with v by lia. reflexivity. }
  rewrite Ez. rewrite !app_assoc.
  replace (zlen A + zlen (excl_prefix ls)) with (zlen (A ++ rowdiffm 0 (v :: vs))).
  2:{ unfold zlen, excl_prefix. rewrite app_length, rowdiffm_length, excl_from_length. lia. }
  rewrite (IH (A ++ rowdiffm 0 (v :: vs)) (last (v :: vs) prev) H'). reflexivity.
Qed.

Theorem rl2_col_sum_matrix_correct (n : Z) (rows : list (list Z * list Z)) : rows <> [] -> 1 <= n ->
  Forall (fun p => canon Z (fst p) (snd p) /\ zsum (fst p) = n) rows ->
  let dense := rl2_decode (of_matrix_runs n rows) in
  decode Z (rl2_col_sum (of_matrix_runs n rows)) = map (fun j => zsum (map (fun r => nth (Z.to_nat j) r 0) dense)) (ap 0 n 1).
Proof.
  intros Hne Hn Hc dense.
  assert (Hdense : dense = map (fun p => spec_broadcast Z (snd p) (fst p)) rows).
  { unfold dense, rl2_decode, rl2_rows, of_matrix_runs. cbn [r_idx r_val r_len]. rewrite map2_combine, map_map.
    clear - Hc. induction Hc as [|[ls vs] rows [_ Hz] _ IH]; [reflexivity|]. cbn [map combine fst snd] in *. f_equal; [|exact IH].
    unfold row_rla. cbn [r_len]. unfold decode. cbn [fst snd]. rewrite <- Hz. change (excl_prefix ls ++ [zsum ls]) with (evs ls). now rewrite diffs_evs. }
  assert (Hlens : Forall (fun p : list Z * list Z => length (snd p) = length (fst p) /\ fst p <> []) rows).
  { eapply Forall_impl; [|exact Hc]. intros p [[_ H] Hz]. split; [exact H|]. intros E0. rewrite E0 in Hz. cbn in Hz. lia. }
  unfold rl2_col_sum, of_matrix_runs. cbn [r_idx r_val r_len].
  set (positions := concat (map (fun p => excl_prefix (fst p)) rows)).
  assert (Ed : scatter_set (map2 Z.sub (concat (map snd rows)) (0 :: removelast (concat (map snd rows))))
                 (excl_prefix (map zlen (map (fun p => excl_prefix (fst p)) rows))) (map (fun vs => hd 0 vs) (map snd rows))
               = concat (map (fun p => rowdiffm 0 (snd p)) rows)).
  { rewrite map2_sub_removelast, !map_map. apply (scatter_row_starts_m rows [] 0 Hlens). }
  rewrite Ed. clear Ed.
  assert (EE : combine positions (concat (map (fun p => rowdiffm 0 (snd p)) rows)) = concat (map roweventsm rows)).
  { unfold positions. apply combine_concat. eapply Forall_impl; [|exact Hlens]. intros p [Hp _]. unfold excl_prefix. now rewrite excl_from_length, rowdiffm_length, Hp. }
  rewrite EE. clear EE. set (E := concat (map roweventsm rows)). set (S := stable_sort E).
  assert (Hbounds : Forall (fun q : Z * Z => 0 <= fst q <= n) E).
  { rewrite Forall_forall. intros q Hq. unfold E in Hq. apply in_concat in Hq. destruct Hq as (l & Hl & Hql). apply in_map_iff in Hl. destruct Hl as (p & <- & Hp).
    rewrite Forall_forall in Hc. destruct (Hc p Hp) as [[Hl1 _] Hz].
    assert (Hnn : all_nonneg (fst p)) by (eapply Forall_impl; [|exact Hl1]; cbn; intros; lia).
    unfold roweventsm in Hql. destruct q as [a b]. apply in_combine_l in Hql. cbn [fst].
    pose proof (excl_from_bounds 0 (fst p) Hnn) as Hb. rewrite Forall_forall in Hb. specialize (Hb _ Hql). lia. }
  assert (Hperm : Permutation E S) by apply sort_perm.
  assert (HboundsS : Forall (fun q : Z * Z => 0 <= fst q <= n) S) by (eapply Permutation_Forall; eassumption).
  assert (Hzero : exists d0, In (0, d0) E).
  { destruct rows as [|[ls vs] rows']; [congruence|]. unfold E. cbn [map concat]. unfold roweventsm at 1. cbn [fst snd].
    inversion Hlens as [|? ? [Hl0 Hne0] _]; subst. cbn [fst snd] in *.
    destruct ls as [|l ls]; [congruence|]. destruct vs as [|v vs]; [discriminate|].
    unfold excl_prefix, rowdiffm. cbn [excl_from map2 app combine]. eexists; left; reflexivity. }
  destruct Hzero as [d0 Hzero]. apply (Permutation_in _ Hperm) in Hzero.
  pose proof (sort_sorted E) as Hsorted. fold S in Hsorted.
  destruct S as [|[p0 dd0] S'] eqn:ES; [destruct Hzero|].
  pose proof (sorted_keys_from _ _ Hsorted) as Hfrom. cbn [fst] in Hfrom.
  inversion HboundsS as [|? ? Hb0 HbS']; subst. cbn [fst] in Hb0.
  assert (Hp0 : p0 = 0).
  { destruct Hzero as [Eq|Hin]; [congruence|]. pose proof (sorted_from_all _ _ Hfrom) as Hall. rewrite Forall_forall in Hall. specialize (Hall _ Hin). cbn [fst] in Hall. lia. }
  subst p0.
  destruct (remove_empty_decode Z (map fst ((0, dd0) :: S') ++ [n]) (cumsum (map snd ((0, dd0) :: S')))) as (Hdec & _ & _).
  { unfold cumsum. rewrite app_length, cumsum_from_length, !map_length. cbn. lia. }
  rewrite Hdec. cbn [map fst snd app]. unfold cumsum.
  rewrite (events_decode S' 0 dd0 0 n Hfrom); [|eapply Forall_impl; [|exact HbS']; cbn; intros; lia|lia].
  replace (n - 0) with n by lia. apply map_ext_in. intros j Hj.
  assert (Hj0 : 0 <= j < n).
  { unfold ap in Hj. apply In_nth with (d := 0) in Hj. destruct Hj as (k & Hk & Ek). rewrite ap_nat_length in Hk. rewrite ap_nat_nth in Ek by exact Hk. lia. }
  rewrite <- ES. unfold S. rewrite fsum_sort. unfold E. rewrite fsum_concat, map_map. rewrite Hdense, map_map.
  replace (0 + zsum (map (fun x => fsum (roweventsm x) j) rows)) with (zsum (map (fun x => fsum (roweventsm x) j) rows)) by lia.
  f_equal. apply map_ext_in. intros [ls vs] Hp. cbn [fst snd]. unfold roweventsm. cbn [fst snd].
  rewrite Forall_forall in Hc. destruct (Hc _ Hp) as [Hcp Hz]. cbn [fst snd] in Hcp, Hz.
  pose proof (rowm_fsum ls vs 0 0 j Hcp ltac:(lia)) as Hr. replace (j <? 0) with false in Hr by lia. replace (j - 0) with j in Hr by lia.
  unfold excl_prefix. rewrite Hr. lia.
Qed.
Print Assumptions rl2_col_sum_matrix_correct.

Example col_sum_matrix_example :
  let rows := [([2; 3], [5; 7]); ([5], [1]); ([1; 1; 3], [1; 2; 3])] in
  Forall (fun p => canon Z (fst p) (snd p) /\ zsum (fst p) = 5) rows /\
  decode Z (rl2_col_sum (of_matrix_runs 5 rows)) = [7; 8; 11; 11; 11].
Proof. split; [repeat constructor; cbn; lia|reflexivity]. Qed.
