From Coq Require Import ZifyBool.
From NPS Require Import ListAux PySlice NumpySem Scatter BuildIdx SliceAP XorProof Denote RLE RLEOps RaOps SetItem BinaryProof ColProof RLEIndex ColSum SortProof Shape Geometry.
Open Scope Z_scope.

(* C01: a freshly built RaggedArray reports exactly the rows it was built from *)
Section Geo.
Variable A : Type.

(* reading the rows back through starts/lengths = cutting the buffer into segments *)
Lemma rows_from_codes (d : list A) : forall ls acc, all_nonneg ls -> 0 <= acc ->
  map (fun sl => ztake (snd sl) (zdrop (fst sl) d)) (combine (excl_from acc ls) ls) = segments (zdrop acc d) ls.
Proof.
  induction ls as [|l ls IH]; intros acc H Hacc; [reflexivity|]. inversion H as [|? ? Hl Hls]; subst.
  cbn [excl_from combine map segments fst snd]. f_equal.
  rewrite (IH (acc + l) Hls) by lia. f_equal. symmetry. apply zdrop_zdrop; lia.
Qed.

Lemma o_rows_codes (d : list A) ls : all_nonneg ls ->
  o_rows {| f_data := d ; f_codes := shape_codes ls |} = segments d ls.
Proof.
  intros H. unfold o_rows, o_starts, o_lengths. cbn [f_codes f_data].
  rewrite geometry_starts, geometry_lengths. unfold excl_prefix. rewrite (rows_from_codes d ls 0 H) by lia. reflexivity.
Qed.

Lemma all_nonneg_lens (r : list (list A)) : all_nonneg (map zlen r).
Proof. induction r as [|x r IH]; constructor; [unfold zlen; lia|exact IH]. Qed.

Lemma zsum_lens (r : list (list A)) : zsum (map zlen r) = zlen (concat r).
Proof.
  induction r as [|x r IH]; [reflexivity|]. cbn [map zsum concat]. rewrite IH. unfold zlen. rewrite app_length. lia.
Qed.

Lemma ends_cumsum : forall ls acc, map (fun p => fst p + snd p) (combine (excl_from acc ls) ls) = cumsum_from acc ls.
Proof. induction ls as [|l ls IH]; intros acc; [reflexivity|]. cbn [excl_from combine map cumsum_from fst snd]. f_equal. apply IH. Qed.

(* built from a list of rows: every observer returns what the rows say *)
Theorem build_rows_observers (r : list (list A)) :
  let a := build_rows r in
  o_rows a = r /\ o_len a = zlen r /\ o_size a = zlen (concat r) /\ o_lengths a = map zlen r /\ o_ravel a = concat r /\
  o_starts a = excl_prefix (map zlen r) /\ o_ends a = incl_prefix (map zlen r) /\ o_shape_size a = zlen (concat r).
Proof.
  cbn zeta. unfold build_rows.
  repeat split.
  - rewrite o_rows_codes by apply all_nonneg_lens. apply segments_concat_rows.
  - unfold o_len, o_lengths. cbn [f_codes]. rewrite geometry_lengths. unfold zlen. now rewrite map_length.
  - unfold o_lengths. cbn [f_codes]. apply geometry_lengths.
  - unfold o_starts. cbn [f_codes]. apply geometry_starts.
  - unfold o_ends. cbn [f_codes]. unfold sh_ends. rewrite geometry_starts, geometry_lengths.
    unfold incl_prefix, cumsum, excl_prefix. apply ends_cumsum.
  - unfold o_shape_size. cbn [f_codes]. rewrite geometry_size. apply zsum_lens.
Qed.

(* built from a flat buffer plus lengths: accepted exactly when the sizes agree, and then the rows are the segments of the buffer *)
Theorem build_flat_accept (d : list A) ls : all_nonneg ls -> zsum ls = zlen d ->
  exists a, build_flat d ls = Ok a /\ o_rows a = segments d ls /\ concat (o_rows a) = d /\ map zlen (o_rows a) = ls /\ o_ravel a = d /\ o_lengths a = ls.
Proof.
  intros H Hs. unfold build_flat. rewrite geometry_size. rewrite (proj2 (Z.eqb_eq _ _) Hs).
  eexists. split; [reflexivity|]. rewrite o_rows_codes by assumption.
  repeat split; [apply segments_concat; assumption | apply segments_lengths; assumption | unfold o_lengths; cbn [f_codes]; apply geometry_lengths].
Qed.
Theorem build_flat_reject (d : list A) ls : zsum ls <> zlen d -> build_flat d ls = Refused.
Proof. intros H. unfold build_flat. rewrite geometry_size. destruct (Z.eqb_spec (zsum ls) (zlen d)); [contradiction|reflexivity]. Qed.

Lemma forallb_map {X Y} (g : X -> Y) (f : Y -> bool) l : forallb f (map g l) = forallb (fun x => f (g x)) l.
Proof. induction l as [|x l IH]; [reflexivity|]. cbn [map forallb]. now rewrite IH. Qed.

(* conversion to a rectangular array: the same rows when all lengths agree, refused otherwise *)
Theorem to_numpy_spec (r : list (list A)) :
  o_to_numpy (build_rows r) =
  match r with [] => Ok [] | x :: _ => if forallb (fun y => zlen y =? zlen x) r then Ok r else Refused end.
Proof.
  destruct (build_rows_observers r) as (Hrows & _ & _ & Hlens & _).
  unfold o_to_numpy. rewrite Hlens, Hrows. destruct r as [|x r]; [reflexivity|]. cbn [map].
  change (zlen x :: map zlen r) with (map zlen (x :: r)). rewrite forallb_map. reflexivity.
Qed.

Lemma zsum_repeat k n : zsum (repeat k n) = Z.of_nat n * k.
Proof. induction n as [|n IH]; [reflexivity|]. cbn [repeat zsum]. rewrite IH. lia. Qed.
Lemma segments_matrix (m : list (list A)) k : Forall (fun row => zlen row = k) m -> segments (concat m) (repeat k (length m)) = m.
Proof.
  intros H. assert (E : repeat k (length m) = map zlen m).
  { induction H as [|row m Hr _ IH]; [reflexivity|]. cbn [length repeat map]. now rewrite Hr, IH. }
  rewrite E. apply segments_concat_rows.
Qed.
Theorem from_numpy_roundtrip (m : list (list A)) k : 0 <= k -> Forall (fun row => zlen row = k) m ->
  exists a, from_numpy m k = Ok a /\ o_rows a = m /\ o_to_numpy a = Ok m.
Proof.
  intros Hk H. unfold from_numpy.
  assert (Hnn : all_nonneg (repeat k (length m))) by (apply Forall_forall; intros x Hx; apply repeat_spec in Hx; subst; exact Hk).
  assert (Hsz : zsum (repeat k (length m)) = zlen (concat m)).
  { rewrite zsum_repeat. clear Hnn. induction H as [|row m Hr _ IH]; [reflexivity|]. cbn [length concat]. unfold zlen in *. rewrite app_length. lia. }
  destruct (build_flat_accept (concat m) _ Hnn Hsz) as (a & Ha & Hrows & _ & _ & _ & Hlens).
  exists a. split; [exact Ha|]. rewrite Hrows, (segments_matrix m k H). split; [reflexivity|].
  unfold o_to_numpy. rewrite Hlens, Hrows, (segments_matrix m k H).
  destruct m as [|row m]; [reflexivity|]. cbn [length repeat].
  replace (forallb (fun l => l =? k) (k :: repeat k (length m))) with true; [reflexivity|].
  symmetry. apply forallb_forall. intros x [<-|Hx]; [lia|]. apply repeat_spec in Hx. lia.
Qed.
End Geo.

(* ---- save / load: the legacy {"offsets"} key denotes the same shape ---- *)
Lemma diff1_cumsum : forall ls acc, diff1 (acc :: cumsum_from acc ls) = ls.
Proof.
  induction ls as [|l ls IH]; intros acc; [reflexivity|]. cbn [cumsum_from].
  change (diff1 (acc :: acc + l :: cumsum_from (acc + l) ls)) with ((acc + l - acc) :: diff1 (acc + l :: cumsum_from (acc + l) ls)).
  rewrite (IH (acc + l)). f_equal. lia.
Qed.
Theorem legacy_offsets_shape ls : shape_from_offsets (0 :: cumsum ls) = shape_codes ls.
Proof. unfold shape_from_offsets, cumsum. now rewrite diff1_cumsum. Qed.
Theorem dict_roundtrip codes : shape_from_codes (shape_to_dict codes) = codes.
Proof. reflexivity. Qed.

(* ---- flat <-> (row, column): a bijection between 0..size-1 and the cells, in row-major order ---- *)
Definition cells_from (k : Z) (ls : list Z) : list (Z * Z) :=
  concat (map (fun il => map (fun j => (fst il, j)) (ap 0 (snd il) 1)) (combine (ap k (zlen ls) 1) ls)).

Lemma ap_cons_len {X} k (x : X) (l : list X) : ap k (zlen (x :: l)) 1 = k :: ap (k + 1) (zlen l) 1.
Proof.
  unfold ap, zlen. cbn [length]. rewrite !Nat2Z.id. cbn [ap_nat]. reflexivity.
Qed.

Lemma combine_app' {X Y} (a b : list X) (c d : list Y) : length a = length c -> combine (a ++ b) (c ++ d) = combine a c ++ combine b d.
Proof. revert c; induction a as [|x a IH]; intros [|y c] H; cbn in *; try discriminate; [reflexivity|]. f_equal. apply IH. lia. Qed.

Lemma cells_combine : forall ls k, all_nonneg ls ->
  cells_from k ls = combine (lab_list k ls) (concat (map (fun l => ap 0 l 1) ls)).
Proof.
  induction ls as [|l ls IH]; intros k H; [reflexivity|]. inversion H as [|? ? Hl Hls]; subst.
  unfold cells_from. rewrite ap_cons_len. cbn [combine map concat fst snd lab_list].
  rewrite combine_app' by (rewrite repeat_length; unfold ap; now rewrite ap_nat_length).
  f_equal; [|apply (IH (k + 1) Hls)].
  unfold ap. generalize (Z.to_nat l) as n. generalize 0 as s. intros s n; revert s.
  induction n as [|n IHn]; intros s; [reflexivity|]. cbn [ap_nat map repeat combine]. f_equal. apply IHn.
Qed.

Lemma map_pair_combine {X Y W} (f : X -> Y) (g : X -> W) l : map (fun x => (f x, g x)) l = combine (map f l) (map g l).
Proof. induction l as [|x l IH]; [reflexivity|]. cbn. now rewrite IH. Qed.

Theorem unravel_all ls : all_nonneg ls ->
  map (unravel_mi (shape_codes ls)) (ap 0 (zsum ls) 1) = cells_of ls.
Proof.
  intros H. unfold unravel_mi. rewrite geometry_starts.
  rewrite (map_pair_combine (fun p => ssr (excl_prefix ls) p - 1) (fun p => p - zznth (excl_prefix ls) (ssr (excl_prefix ls) p - 1))).
  unfold excl_prefix. rewrite (unravel_cols ls 0 H).
  rewrite (map_ext _ (fun p => 0 + ssr (excl_from 0 ls) p - 1)) by (intros; lia). rewrite (unravel_rows ls 0 0 H).
  symmetry. apply (cells_combine ls 0 H).
Qed.

Lemma zznth_app_r pre x l : zznth (pre ++ x :: l) (zlen pre) = x.
Proof. unfold zznth, zlen. rewrite Nat2Z.id. rewrite app_nth2 by lia. now rewrite Nat.sub_diag. Qed.

Lemma ravel_cells : forall ls acc k pre, all_nonneg ls -> zlen pre = k ->
  map (fun ij => zznth (pre ++ excl_from acc ls) (fst ij) + snd ij) (cells_from k ls) = ap acc (zsum ls) 1.
Proof.
  induction ls as [|l ls IH]; intros acc k pre H Hk; [reflexivity|]. inversion H as [|? ? Hl Hls]; subst.
  pose proof (zsum_nonneg ls Hls) as Hs.
  unfold cells_from. rewrite ap_cons_len. cbn [combine map concat fst snd excl_from zsum]. rewrite map_app.
  rewrite <- (map_id (ap acc (l + zsum ls) 1)). rewrite (map_ap_split Z (fun x => x) acc l (zsum ls)) by lia. rewrite !map_id. f_equal.
  - rewrite map_map. cbn [fst snd]. rewrite zznth_app_r. rewrite (ap_reindex acc l 1). apply map_ext. intros j. lia.
  - change (concat (map (fun il => map (fun j => (fst il, j)) (ap 0 (snd il) 1)) (combine (ap (zlen pre + 1) (zlen ls) 1) ls))) with (cells_from (zlen pre + 1) ls).
    replace (pre ++ acc :: excl_from (acc + l) ls) with ((pre ++ [acc]) ++ excl_from (acc + l) ls) by (now rewrite <- app_assoc).
    apply IH; [assumption|]. unfold zlen. rewrite app_length. cbn [length]. lia.
Qed.

Theorem ravel_all ls : all_nonneg ls ->
  map (fun ij => ravel_mi (shape_codes ls) (fst ij) (snd ij)) (cells_of ls) = ap 0 (zsum ls) 1.
Proof.
  intros H. unfold ravel_mi. rewrite geometry_starts. unfold excl_prefix.
  apply (ravel_cells ls 0 0 [] H). reflexivity.
Qed.
